#!/bin/bash
# run.sh <ID> [quick|thorough] [--replay <file>]
# Rebuilds the harness for property <ID> against /repo's current working tree (export
# shims and, for scheduler harnesses, rewritten sources are injected with
# `go build -overlay`; /repo itself is never modified) and runs it.
set -u
ID="${1:?usage: run.sh <ID> [quick|thorough] [--replay file]}"; shift
TIER="${VERIF_TIER:-quick}"
case "${1:-}" in quick|thorough) TIER="$1"; shift;; esac
export VERIF_TIER="$TIER"
HERE="$(cd "$(dirname "$0")" && pwd)"
export GOFLAGS=-mod=mod GOPROXY=off GOSUMDB=off GOTOOLCHAIN=local CGO_ENABLED=1
export VERIF_ROOT="${VERIF_ROOT:-$HERE}"
REPO="${VERIF_REPO:-/repo}"
BUILD="${VERIF_BUILD_DIR:-$HERE/.build}"
mkdir -p "$BUILD" "$HERE/evidence"
id=$(echo "$ID" | tr 'A-Z' 'a-z')

# plain overlay: add export shims to the packages that have unexported seams
gen_plain_overlay() {
  cat > "$BUILD/overlay-plain-$id.json" <<JSON
{"Replace": {
 "$REPO/teamserver/pkg/handlers/export_verif.go": "$HERE/mc/overlay/handlers_export.go",
 "$REPO/teamserver/cmd/server/export_verif.go": "$HERE/mc/overlay/server_export.go",
 "$REPO/teamserver/pkg/service/export_verif.go": "$HERE/mc/overlay/service_export.go",
 "$REPO/teamserver/pkg/socks/export_verif.go": "$HERE/mc/overlay/socks_export.go",
 "$REPO/teamserver/pkg/db/export_verif.go": "$HERE/mc/overlay/db_export.go"
}}
JSON
}

cd "$HERE/mc" || exit 2
cp "$REPO/teamserver/go.sum" go.sum 2>/dev/null
MODFLAG=""
if [ "$REPO" != "/repo" ]; then
  # alternate repository root (mutation testing in a scratch worktree)
  sed "s#^replace Havoc => .*#replace Havoc => $REPO/teamserver#" go.mod > "$BUILD/alt.mod"
  cp go.sum "$BUILD/alt.sum"
  MODFLAG="-modfile=$BUILD/alt.mod"
fi
gen_plain_overlay
OVERLAY="$BUILD/overlay-plain-$id.json"
BIN="$BUILD/$id"
RACEFLAG=""
if [ -n "${VERIF_RACE:-}" ]; then
  # auxiliary free-running race pass (DESIGN.md 3.5 / 9.6): plain build (real sync, real
  # goroutines) with the race detector; the harness runs its free-running driver only
  RACEFLAG="-race"; BIN="$BUILD/$id-race"
  rm -rf "$BUILD/race-$id"; mkdir -p "$BUILD/race-$id"
  export VERIF_EVIDENCE="${VERIF_EVIDENCE:-$BUILD/race-$id/evidence.json}"
  export VERIF_RACE_PASS=1 GORACE="log_path=$BUILD/race-$id/r halt_on_error=0 exitcode=0 history_size=4"
fi
if [ -z "$RACEFLAG" ] && [ -f "$HERE/mc/cmd/$id/SCHED" ]; then
  # scheduler build: instrumented copies of the concurrency-relevant packages
  (go build $MODFLAG -o "$BUILD/instr-$id" ./cmd/instr) || { echo "BUILD-ERROR instr"; exit 2; }
  "$BUILD/instr-$id" -repo "$REPO" -out "$BUILD/sched-src-$id" -overlay "$BUILD/overlay-sched-$id.json" -plain "$BUILD/overlay-plain-$id.json" || { echo "BUILD-ERROR instr run"; exit 2; }
  OVERLAY="$BUILD/overlay-sched-$id.json"
fi
if ! go build $RACEFLAG $MODFLAG -overlay "$OVERLAY" -o "$BIN" "./cmd/$id" 2> "$BUILD/$id.build.log"; then
  cat "$BUILD/$id.build.log" >&2
  echo "BUILD-ERROR: harness for $ID does not build against the current tree (exit 2, no verdict)"
  exit 2
fi
if [ -n "${VERIF_BUILD_ONLY:-}" ]; then exit 0; fi
export VERIF_BIN="$BIN" VERIF_REPO_ROOT="$REPO"
if [ -z "${TMPDIR:-}" ] && [ -d /dev/shm ]; then export TMPDIR=/dev/shm; fi
exec "$BIN" "$@"
