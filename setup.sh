#!/bin/bash
# Offline setup: build the C shims and pre-build every registered check binary (this warms
# the Go build cache: the cgo sqlite dependency is the slow part).  Checks rebuild from
# /repo's current tree on every run anyway; this only makes the first run fast.
set -u
HERE="$(cd "$(dirname "$0")" && pwd)"
export GOFLAGS=-mod=mod GOPROXY=off GOSUMDB=off GOTOOLCHAIN=local CGO_ENABLED=1
mkdir -p "$HERE/.build" "$HERE/evidence"
[ -f "$HERE/shim/Makefile" ] && make -C "$HERE/shim" -s
ids=$(python3 -c "import json;print(' '.join(c['property_id'] for c in json.load(open('$HERE/MANIFEST.json'))['checks']))")
# first one alone (fills the cache with the shared dependencies), the rest 4 at a time
first=1
for id in $ids; do
  if [ $first = 1 ]; then VERIF_BUILD_ONLY=1 "$HERE/run.sh" "$id" quick || echo "setup: build of $id failed"; first=0; continue; fi
  ( VERIF_BUILD_ONLY=1 "$HERE/run.sh" "$id" quick || echo "setup: build of $id failed" ) &
  while [ "$(jobs -r | wc -l)" -ge 4 ]; do sleep 0.2; done
done
wait
exit 0
