#!/bin/bash
# Offline setup: warm the Go build cache (cgo sqlite is the slow part) and build shims.
set -u
HERE="$(cd "$(dirname "$0")" && pwd)"
export GOFLAGS=-mod=mod GOPROXY=off GOSUMDB=off GOTOOLCHAIN=local CGO_ENABLED=1
cd "$HERE/mc" && cp /repo/teamserver/go.sum go.sum
mkdir -p "$HERE/.build"
go build ./... 2>&1 | tail -5
[ -f "$HERE/shim/Makefile" ] && make -C "$HERE/shim" -s
exit 0
