/*
 * crashshim: LD_PRELOAD fault injector for the C10 check (DESIGN.md 3.4).
 *
 * Interposes the libc entry points through which SQLite's unix VFS changes files
 * (write, pwrite, pwrite64, fsync, fdatasync, ftruncate, ftruncate64, unlink).  A call
 * is *tracked* when the file it addresses lies below the directory VERIF_SHIM_PREFIX
 * (the directory that holds only the database and its journal); everything else is
 * passed through untouched and not counted.  Go's own file I/O does not go through
 * libc, so the harness's log/ack writes are never seen here.
 *
 *   VERIF_SHIM_PREFIX  directory prefix of tracked files (required, else inert)
 *   VERIF_OPLOG        file to which one line per tracked call is appended:
 *                      "<n> <kind> <basename> <offset> <length>\n"
 *   VERIF_CRASH_AT=N   _exit(77) immediately BEFORE performing tracked call N (1-based)
 *   VERIF_TEAR=k       with VERIF_CRASH_AT=N and call N being a write of more than
 *                      k*512 bytes: perform only the first k*512 bytes, then _exit(77)
 *
 * The exit is exit_group(2) straight from the interposed call: no atexit handlers, no
 * buffers flushed, no SQLite cleanup - what the next process finds on disk is exactly
 * the effect of tracked calls 1..N-1 (plus the torn part of N).
 */
#define _GNU_SOURCE
#include <dlfcn.h>
#include <fcntl.h>
#include <limits.h>
#include <pthread.h>
#include <stdio.h>
#include <stdlib.h>
#include <string.h>
#include <sys/syscall.h>
#include <sys/types.h>
#include <unistd.h>

static pthread_mutex_t mu = PTHREAD_MUTEX_INITIALIZER;
static pthread_once_t once = PTHREAD_ONCE_INIT;
static char prefix[PATH_MAX];
static size_t prefix_len;
static int log_fd = -1;
static long crash_at;
static long tear = -1;
static long counter;

static ssize_t (*real_write)(int, const void *, size_t);
static ssize_t (*real_pwrite)(int, const void *, size_t, off_t);
static ssize_t (*real_pwrite64)(int, const void *, size_t, off64_t);
static int (*real_fsync)(int);
static int (*real_fdatasync)(int);
static int (*real_ftruncate)(int, off_t);
static int (*real_ftruncate64)(int, off64_t);
static int (*real_unlink)(const char *);

static void init(void)
{
	const char *p;
	real_write = dlsym(RTLD_NEXT, "write");
	real_pwrite = dlsym(RTLD_NEXT, "pwrite");
	real_pwrite64 = dlsym(RTLD_NEXT, "pwrite64");
	real_fsync = dlsym(RTLD_NEXT, "fsync");
	real_fdatasync = dlsym(RTLD_NEXT, "fdatasync");
	real_ftruncate = dlsym(RTLD_NEXT, "ftruncate");
	real_ftruncate64 = dlsym(RTLD_NEXT, "ftruncate64");
	real_unlink = dlsym(RTLD_NEXT, "unlink");
	if ((p = getenv("VERIF_SHIM_PREFIX")) && *p) {
		strncpy(prefix, p, sizeof(prefix) - 1);
		prefix_len = strlen(prefix);
	}
	if ((p = getenv("VERIF_OPLOG")) && *p)
		log_fd = (int)syscall(SYS_open, p, O_WRONLY | O_CREAT | O_APPEND | O_CLOEXEC, 0644);
	if ((p = getenv("VERIF_CRASH_AT")) && *p)
		crash_at = atol(p);
	if ((p = getenv("VERIF_TEAR")) && *p)
		tear = atol(p);
}

/* path of fd if tracked, else NULL; buf must hold PATH_MAX bytes */
static const char *tracked_fd(int fd, char *buf)
{
	char link[64];
	ssize_t n;
	if (!prefix_len)
		return NULL;
	snprintf(link, sizeof link, "/proc/self/fd/%d", fd);
	n = readlink(link, buf, PATH_MAX - 1);
	if (n <= 0)
		return NULL;
	buf[n] = 0;
	if (strncmp(buf, prefix, prefix_len) != 0)
		return NULL;
	return buf;
}

static const char *base(const char *path)
{
	const char *s = strrchr(path, '/');
	if (s && s[1])
		return s + 1;
	/* the directory itself (fsync of the directory after journal creation) */
	return ".";
}

static void die(void)
{
	syscall(SYS_exit_group, 77);
	for (;;)
		;
}

/*
 * Accounts one tracked call.  Returns -1 to proceed normally, or the number of bytes
 * (>= 0) to write before dying (torn write).  Dies here if the call must not happen.
 * Called with mu held.
 */
static long account(const char *kind, const char *path, long long off, long long len, int is_write)
{
	char line[PATH_MAX + 128];
	int n;
	counter++;
	if (crash_at > 0 && counter == crash_at) {
		if (is_write && tear > 0 && tear * 512 < len) {
			n = snprintf(line, sizeof line, "%ld %s %s %lld %lld torn=%ld\n", counter, kind, base(path), off, len, tear * 512);
			if (log_fd >= 0)
				syscall(SYS_write, log_fd, line, (size_t)n);
			return tear * 512;
		}
		n = snprintf(line, sizeof line, "%ld CRASH-BEFORE %s %s %lld %lld\n", counter, kind, base(path), off, len);
		if (log_fd >= 0)
			syscall(SYS_write, log_fd, line, (size_t)n);
		die();
	}
	n = snprintf(line, sizeof line, "%ld %s %s %lld %lld\n", counter, kind, base(path), off, len);
	if (log_fd >= 0)
		syscall(SYS_write, log_fd, line, (size_t)n);
	return -1;
}

ssize_t write(int fd, const void *b, size_t n)
{
	char p[PATH_MAX];
	pthread_once(&once, init);
	if (tracked_fd(fd, p)) {
		long t;
		pthread_mutex_lock(&mu);
		t = account("write", p, (long long)lseek(fd, 0, SEEK_CUR), (long long)n, 1);
		if (t >= 0) {
			syscall(SYS_write, fd, b, (size_t)t);
			die();
		}
		pthread_mutex_unlock(&mu);
	}
	return real_write(fd, b, n);
}

ssize_t pwrite(int fd, const void *b, size_t n, off_t off)
{
	char p[PATH_MAX];
	pthread_once(&once, init);
	if (tracked_fd(fd, p)) {
		long t;
		pthread_mutex_lock(&mu);
		t = account("pwrite", p, (long long)off, (long long)n, 1);
		if (t >= 0) {
			syscall(SYS_pwrite64, fd, b, (size_t)t, off);
			die();
		}
		pthread_mutex_unlock(&mu);
	}
	return real_pwrite(fd, b, n, off);
}

ssize_t pwrite64(int fd, const void *b, size_t n, off64_t off)
{
	char p[PATH_MAX];
	pthread_once(&once, init);
	if (tracked_fd(fd, p)) {
		long t;
		pthread_mutex_lock(&mu);
		t = account("pwrite", p, (long long)off, (long long)n, 1);
		if (t >= 0) {
			syscall(SYS_pwrite64, fd, b, (size_t)t, off);
			die();
		}
		pthread_mutex_unlock(&mu);
	}
	return real_pwrite64(fd, b, n, off);
}

int fsync(int fd)
{
	char p[PATH_MAX];
	pthread_once(&once, init);
	if (tracked_fd(fd, p)) {
		pthread_mutex_lock(&mu);
		account("fsync", p, 0, 0, 0);
		pthread_mutex_unlock(&mu);
	}
	return real_fsync(fd);
}

int fdatasync(int fd)
{
	char p[PATH_MAX];
	pthread_once(&once, init);
	if (tracked_fd(fd, p)) {
		pthread_mutex_lock(&mu);
		account("fdatasync", p, 0, 0, 0);
		pthread_mutex_unlock(&mu);
	}
	return real_fdatasync(fd);
}

int ftruncate(int fd, off_t len)
{
	char p[PATH_MAX];
	pthread_once(&once, init);
	if (tracked_fd(fd, p)) {
		pthread_mutex_lock(&mu);
		account("ftruncate", p, (long long)len, 0, 0);
		pthread_mutex_unlock(&mu);
	}
	return real_ftruncate(fd, len);
}

int ftruncate64(int fd, off64_t len)
{
	char p[PATH_MAX];
	pthread_once(&once, init);
	if (tracked_fd(fd, p)) {
		pthread_mutex_lock(&mu);
		account("ftruncate", p, (long long)len, 0, 0);
		pthread_mutex_unlock(&mu);
	}
	return real_ftruncate64(fd, len);
}

int unlink(const char *path)
{
	pthread_once(&once, init);
	if (prefix_len && strncmp(path, prefix, prefix_len) == 0) {
		pthread_mutex_lock(&mu);
		account("unlink", path, 0, 0, 0);
		pthread_mutex_unlock(&mu);
	}
	return real_unlink(path);
}
