/*
 * stubcc: stand-in for x86_64-w64-mingw32-gcc / i686-w64-mingw32-gcc / nasm in the
 * C13 harness.  It does not compile anything.  It appends one record to the file
 * named by $STUBCC_LOG
 *
 *     u32 argc | u32 len(cwd) cwd | { u32 len(argv[i]) argv[i] } * argc     (little endian)
 *
 * with a single write(2) on an O_APPEND descriptor, creates the file named after
 * "-o" (content: "STUBOUT <basename of argv[0]>\n") and exits 0 (or with
 * $STUBCC_EXIT if set).
 */
#include <fcntl.h>
#include <stdint.h>
#include <stdio.h>
#include <stdlib.h>
#include <string.h>
#include <unistd.h>

static size_t put32(unsigned char *p, uint32_t v)
{
    p[0] = v & 0xff; p[1] = (v >> 8) & 0xff; p[2] = (v >> 16) & 0xff; p[3] = (v >> 24) & 0xff;
    return 4;
}

int main(int argc, char **argv)
{
    const char *log = getenv("STUBCC_LOG");
    const char *ex  = getenv("STUBCC_EXIT");
    char cwd[4096] = "";
    size_t need = 8, off = 0;
    unsigned char *rec;
    int i, fd;

    if (!getcwd(cwd, sizeof cwd)) cwd[0] = 0;
    need += strlen(cwd);
    for (i = 0; i < argc; i++) need += 4 + strlen(argv[i]);

    if (log && (rec = malloc(need))) {
        off += put32(rec + off, (uint32_t)argc);
        off += put32(rec + off, (uint32_t)strlen(cwd));
        memcpy(rec + off, cwd, strlen(cwd)); off += strlen(cwd);
        for (i = 0; i < argc; i++) {
            size_t n = strlen(argv[i]);
            off += put32(rec + off, (uint32_t)n);
            memcpy(rec + off, argv[i], n); off += n;
        }
        fd = open(log, O_WRONLY | O_APPEND | O_CREAT, 0644);
        if (fd >= 0) {
            if (write(fd, rec, off) != (ssize_t)off) { /* nothing to do about it */ }
            close(fd);
        }
    }

    for (i = 1; i + 1 < argc; i++) {
        if (strcmp(argv[i], "-o") == 0) {
            const char *base = strrchr(argv[0], '/');
            FILE *f = fopen(argv[i + 1], "w");
            if (f) {
                fprintf(f, "STUBOUT %s\n", base ? base + 1 : argv[0]);
                fclose(f);
            }
        }
    }
    return ex ? atoi(ex) : 0;
}
