#!/usr/bin/env python3
"""add_check.py ID level 'text' 'note' 'technique'  — registers/updates a claimed check and regenerates MANIFEST.json"""
import json, os, sys, subprocess
HERE = os.path.dirname(os.path.dirname(os.path.abspath(__file__)))
p = os.path.join(HERE, 'tools', 'checks.json')
c = json.load(open(p))
i, level, text, note, tech = sys.argv[1:6]
c[i] = dict(level=level, text=text, note=note, technique=tech)
json.dump(c, open(p, 'w'), indent=1)
subprocess.check_call([sys.executable, os.path.join(HERE, 'tools', 'gen_manifest.py')])
