#!/usr/bin/env python3
"""Runs the repository's pinned test baseline (guard off: no overlay) and checks that every stable-pass test of
/root/.vp/BASELINE.json still passes."""
import json, subprocess, os, sys
env = dict(os.environ, GOFLAGS="-mod=mod", GOPROXY="off", GOSUMDB="off", GOTOOLCHAIN="local")
p = subprocess.run(["go", "test", "-json", "-vet=off", "-count=1", "-timeout", "25m", "./..."], cwd="/repo/teamserver", env=env, capture_output=True, text=True)
res = {}
for line in p.stdout.splitlines():
    try: e = json.loads(line)
    except Exception: continue
    if e.get("Action") in ("pass", "fail", "skip") and e.get("Test"):
        res[e["Package"] + "::" + e["Test"]] = e["Action"]
base = json.load(open("/root/.vp/BASELINE.json"))["stable_pass"]
bad = [t for t in base if res.get(t) != "pass"]
print(f"stable_pass={len(base)} now_passing={sum(1 for t in base if res.get(t)=='pass')} regressions={len(bad)}")
for t in bad[:20]: print("  REGRESSION", t, res.get(t))
newpass = [t for t, a in res.items() if a == "pass" and t not in set(base)]
print("newly passing (not in baseline):", len(newpass), newpass[:5])
sys.exit(1 if bad else 0)
