#!/bin/bash
# regress_seeds.sh [ID-prefix ...]  — re-runs the recorded check of every confirmed seeded change
# (meta.json coordinator_confirmation.check_command) and prints which are still reported.
# Up to $PAR (default 4) at a time; results in /tmp/regress/<seed>.log
PAR=${PAR:-4}; mkdir -p /tmp/regress
sel="$*"
list=$(cd /verif/seeded && for d in */; do d=${d%/}; if [ -z "$sel" ]; then echo $d; else for s in $sel; do case $d in $s|$s-*) echo $d;; esac; done; fi; done)
run_one() {
  d=$1
  cmd=$(python3 -c "import json,sys; m=json.load(open('/verif/seeded/$d/meta.json')); print(m.get('coordinator_confirmation',{}).get('check_command','tools/test_seed.sh $d ${d%%-*}'))")
  chk=$(echo $cmd | grep -oE '\bC[0-9]{2}\b' | tail -1); [ -z "$chk" ] && chk=${d%%-*}
  out=$(LINES_MAX=2 timeout 1800 /verif/tools/test_seed.sh $d $chk 2>&1)
  echo "$out" > /tmp/regress/$d.log
  if echo "$out" | grep -q "^VIOLATION"; then echo "CAUGHT $d by $chk"; else echo "MISSED $d by $chk :: $(echo "$out" | tail -1 | cut -c1-120)"; fi
}
export -f run_one
echo "$list" | xargs -P $PAR -I{} bash -c 'run_one {}'
