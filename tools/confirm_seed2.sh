#!/bin/bash
# confirm_seed2.sh <SEEDDIR> <run-regex> <pkgdir>...   (demo files are copied by matching package clause)
SD="$1"; RUN="$2"; shift 2
export GOFLAGS=-mod=mod GOPROXY=off GOSUMDB=off GOTOOLCHAIN=local
WT=$(mktemp -d /tmp/wt-confirm-XXXXXX)
git -C /repo worktree add -q --detach "$WT" HEAD || exit 2
PK=""
for pkg in "$@"; do
  for f in $(find /verif/seeded/$SD -name '*_test.go'); do
    # copy a demo into the package whose name matches its package clause
    want=$(basename $pkg); have=$(grep -m1 '^package ' $f | awk '{print $2}' | sed 's/_test$//')
    case "$want" in server|agent|handlers|packager|db|parser|builder|profile|hclsyntax|hclwrite|json|gohcl) ;; esac
    if [ -n "${FORCE_COPY:-}" ] || [ "$have" = "$want" ] || { [ "$want" = "server" ] && [ "$have" = "server" ]; }; then mkdir -p "$WT/teamserver/$pkg"; cp $f "$WT/teamserver/$pkg/"; fi
  done
  PK="$PK ./$pkg/"
done
cd "$WT/teamserver"
timeout 900 go test -vet=off -count=1 -run "$RUN" $PK >/dev/null 2>&1; r0=$?
git -C "$WT" apply /verif/seeded/$SD/patch.diff || echo "PATCH DOES NOT APPLY"
timeout 900 go build ./... && echo BUILD-OK
timeout 900 go test -vet=off -count=1 -run "$RUN" $PK >/dev/null 2>&1; r1=$?
timeout 1500 go test -json -vet=off -count=1 ./pkg/profile/... 2>/dev/null | python3 -c "
import json,sys
res={}
for l in sys.stdin:
    try: e=json.loads(l)
    except Exception: continue
    if e.get('Action') in ('pass','fail') and e.get('Test'): res[e['Package']+'::'+e['Test']]=e['Action']
base=json.load(open('/root/.vp/BASELINE.json'))['stable_pass']
bad=[t for t in base if res.get(t)!='pass']
print('stable_pass',len(base),'regressions',len(bad),bad[:3])"
echo "RESULT $SD: demo_without=$r0 (want 0) demo_with=$r1 (want !=0)"
cd /; git -C /repo worktree remove --force "$WT"
