#!/usr/bin/env python3
"""add_finding.py PROPERTY SIGNATURE status(commit|known) 'what' ['trigger json']"""
import json, os, sys
HERE = os.path.dirname(os.path.dirname(os.path.abspath(__file__)))
p = os.path.join(HERE, 'known_findings.json')
f = json.load(open(p))
prop, sig, st, what = sys.argv[1:5]
trig = json.loads(sys.argv[5]) if len(sys.argv) > 5 else None
e = {"property": prop, "signature": sig}
if st == "known":
    e["status"] = "known"; e["what"] = what
else:
    e["status"] = "fixed"; e["commit"] = st; e["what"] = f"fixed: property={prop} {st} {what}"
if trig is not None: e["trigger"] = trig
f = [x for x in f if not (x["property"] == prop and x["signature"] == sig)] + [e]
json.dump(f, open(p, 'w'), indent=1)
