#!/bin/bash
# take_seed2.sh <ID>  — collects the round-2 seed of <ID> from /tmp/seed2-<id>/SEED into seeded/<ID>-2, removes the
# worktree, and runs the quick check of <ID> against it
ID="$1"; id=$(echo $ID | tr A-Z a-z)
mkdir -p /verif/seeded/$ID-2 && cp /tmp/seed2-$id/SEED/* /verif/seeded/$ID-2/ && git -C /repo worktree remove --force /tmp/seed2-$id
/verif/tools/test_seed.sh $ID-2 $ID
