#!/bin/bash
# run_all.sh [quick|thorough]  — runs every registered check once and prints one summary line each
cd "$(dirname "$0")/.."
tier="${1:-quick}"
for id in $(python3 -c "import json;print(' '.join(c['property_id'] for c in json.load(open('MANIFEST.json'))['checks']))"); do
  out=$(timeout 3000 ./run.sh $id $tier 2>&1); rc=$?
  echo "$id rc=$rc $(echo "$out" | grep -c '^VIOLATION') violations | $(echo "$out" | tail -1)"
done
