#!/bin/bash
# take_seed.sh <ROUND> <ID>  — collects the round-<ROUND> seed of <ID> from /tmp/seed<ROUND>-<id>/SEED into
# seeded/<ID>-<ROUND>, removes the worktree, and runs the quick check of <ID> against it
R="$1"; ID="$2"; id=$(echo $ID | tr A-Z a-z)
mkdir -p /verif/seeded/$ID-$R && cp -r /tmp/seed$R-$id/SEED/* /verif/seeded/$ID-$R/ && git -C /repo worktree remove --force /tmp/seed$R-$id
LINES_MAX=${LINES_MAX:-8} /verif/tools/test_seed.sh $ID-$R $ID
