#!/bin/bash
# confirm_seed.sh <ID> <pkgdir relative to teamserver> <test-run-regex>
# Confirms a seeded change in a scratch worktree: builds with the patch, the demonstration fails with it and
# passes without it, and the pinned baseline tests (599 stable-pass) still pass with it.
set -u
ID="$1"; PKG="$2"; RUN="$3"
export GOFLAGS=-mod=mod GOPROXY=off GOSUMDB=off GOTOOLCHAIN=local
WT=$(mktemp -d /tmp/wt-confirm-XXXXXX)
git -C /repo worktree add -q --detach "$WT" HEAD || exit 2
cp /verif/seeded/$ID/*_test.go "$WT/teamserver/$PKG/" 2>/dev/null
cd "$WT/teamserver"
echo "== without the change"; timeout 900 go test -vet=off -count=1 -run "$RUN" ./$PKG/ 2>&1 | tail -3; r0=${PIPESTATUS[0]}
git -C "$WT" apply /verif/seeded/$ID/patch.diff || { echo "PATCH DOES NOT APPLY"; }
echo "== build with the change"; timeout 900 go build ./... && echo BUILD-OK
echo "== with the change"; timeout 900 go test -vet=off -count=1 -run "$RUN" ./$PKG/ 2>&1 | tail -3; r1=${PIPESTATUS[0]}
echo "== baseline tests with the change"
timeout 1500 go test -json -vet=off -count=1 ./pkg/profile/... 2>/dev/null | python3 -c "
import json,sys
res={}
for l in sys.stdin:
    try: e=json.loads(l)
    except Exception: continue
    if e.get('Action') in ('pass','fail') and e.get('Test'): res[e['Package']+'::'+e['Test']]=e['Action']
base=json.load(open('/root/.vp/BASELINE.json'))['stable_pass']
bad=[t for t in base if res.get(t)!='pass']
print('stable_pass',len(base),'regressions',len(bad),bad[:3])"
echo "RESULT $ID: demo_without=$r0 (want 0) demo_with=$r1 (want !=0)"
cd /; git -C /repo worktree remove --force "$WT"
