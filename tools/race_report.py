#!/usr/bin/env python3
"""race_report.py <ID>  — summarises the race detector's reports of the free-running pass
(.build/race-<id>/r.*) : for every report the top repository frame of each of the two
accesses; harness-only races (both top frames outside Havoc/) are dropped.  Then compares
with the scheduling points of the instrumented build (.build/sched-src-<id>): is there a
Point on that source line, and is one of its fields in the harness's focus set?
Writes /verif/race/<ID>.json and prints a table."""
import sys, re, os, glob, json, collections
ID=sys.argv[1]; id=ID.lower()
root=os.path.dirname(os.path.dirname(os.path.abspath(__file__)))
logs=glob.glob(f"{root}/.build/race-{id}/r.*")
text="".join(open(f,errors='replace').read() for f in logs)
reports=text.split("WARNING: DATA RACE")[1:]
focus=set()
fp=f"{root}/mc/cmd/{id}/FOCUS"
if os.path.exists(fp): focus=set(open(fp).read().split())
# points of the instrumented build: file.go:line -> fields
points=collections.defaultdict(set)
for f in glob.glob(f"{root}/.build/sched-src-{id}/*.go"):
    for m in re.finditer(r'vsched\.Point\("([^"@]*)@([^":]+):(\d+)(?:/w)?"\)', open(f,errors='replace').read()):
        for fld in m.group(1).split(','): points[(m.group(2),int(m.group(3)))].add(fld)
def frames(block):
    out=[]
    for m in re.finditer(r'\n  (\S+)\(\)\n\s+(\S+):(\d+)', block):
        out.append((m.group(1), m.group(2), int(m.group(3))))
    return out
def top_repo(fr):
    for fn,path,line in fr:
        if '/teamserver/' in path and '/verif/' not in path and 'Havoc/' in fn or fn.startswith('Havoc/'):
            return fn, path.split('/teamserver/')[-1], line
    return None
pairs=collections.Counter()
for rep in reports:
    parts=re.split(r'\n(?:Previous )?(?:[Rr]ead|[Ww]rite|[Aa]tomic read|[Aa]tomic write) at 0x[0-9a-f]+ by ', "\n"+rep)
    acc=[p for p in parts[1:]][:2]
    if len(acc)<2: continue
    tops=[]
    for a in acc:
        a=a.split("\nGoroutine ")[0]
        tops.append(top_repo(frames(a)))
    if tops[0] is None and tops[1] is None: continue
    key=tuple(sorted([("%s:%d %s"%(t[1],t[2],t[0].split('/')[-1]) if t else "(harness)") for t in tops]))
    pairs[key]+=1
rows=[]
for key,n in sorted(pairs.items()):
    cov=[]
    for side in key:
        if side=="(harness)": cov.append("harness"); continue
        path,line=side.split(' ')[0].rsplit(':',1)
        fl=points.get((os.path.basename(path),int(line)))
        if fl is None: cov.append("no-point")
        elif focus and not (fl & focus): cov.append("point-not-in-focus:"+",".join(sorted(fl)))
        else: cov.append("explored:"+",".join(sorted(fl)))
    rows.append({"a":key[0],"b":key[1],"reports":n,"coverage":cov})
os.makedirs(f"{root}/race",exist_ok=True)
json.dump({"property":ID,"reports_total":len(reports),"distinct_pairs":len(rows),"focus":sorted(focus),"pairs":rows},open(f"{root}/race/{ID}.json","w"),indent=1)
print(f"{ID}: {len(reports)} race reports, {len(rows)} distinct location pairs involving repository code")
for r in rows: print(f"  {r['reports']:4d}  {r['a']}  <->  {r['b']}   {r['coverage']}")
