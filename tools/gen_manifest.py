#!/usr/bin/env python3
"""Regenerates /verif/MANIFEST.json from the table below (one entry per claimed property)."""
import json, os
HERE = os.path.dirname(os.path.dirname(os.path.abspath(__file__)))
props = [json.loads(l) for l in open(os.path.join(HERE, 'properties.jsonl'))]

CHECKS = json.load(open(os.path.join(HERE, 'tools', 'checks.json')))
NA_REASON = "check under construction in this session (see DESIGN.md §4); not yet claimed"

m = {
 "version": 1,
 "setup_cmd": "./setup.sh",
 "hooks": {"guard": "overlay (go build -overlay; no hook source is committed in /repo)",
           "enable": "run.sh generates an overlay JSON that adds export_verif.go shims (and, for scheduler harnesses, instrumented copies made by mc/cmd/instr) to the packages of /repo/teamserver at build time",
           "baseline_off_cmd": "cd /repo/teamserver && GOFLAGS=-mod=mod GOPROXY=off GOSUMDB=off go test -vet=off -count=1 -timeout 25m ./...",
           "source_commits": [], "add_only": True},
 "engines": [{"name": "verifmc", "path": "mc", "serves_properties": sorted(CHECKS),
              "kind_free_text": "hand-written Go explorer: deviation-bounded choice-tree DFS, explicit-state BFS over histories, controlled scheduler over AST-instrumented sources; executes the real Havoc code"}],
 "checks": [], "not_applicable": [],
 "notes": "All checks run the real code of /repo's working tree; see DESIGN.md.",
}
for p in props:
    i = p["id"]
    if i in CHECKS:
        c = CHECKS[i]
        m["checks"].append({"property_id": i, "quick_cmd": f"./run.sh {i} quick", "thorough_cmd": f"./run.sh {i} thorough",
            "evidence_file": f"evidence/{i}.json", "engine": "verifmc",
            "level_claimed": {"category": c["level"], "text": c["text"], "design_ref": f"DESIGN.md §4 {i}"},
            "level_note": c["note"], "technique": c["technique"]})
    else:
        m["not_applicable"].append({"property_id": i, "reason": NA_REASON})
json.dump(m, open(os.path.join(HERE, 'MANIFEST.json'), 'w'), indent=1)
print("checks:", [c["property_id"] for c in m["checks"]])
