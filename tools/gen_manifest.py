#!/usr/bin/env python3
"""Regenerates /verif/MANIFEST.json from the table below (one entry per claimed property)."""
import json, os
HERE = os.path.dirname(os.path.dirname(os.path.abspath(__file__)))
props = [json.loads(l) for l in open(os.path.join(HERE, 'properties.jsonl'))]

CHECKS = {
 "C03": dict(level="exploration",
   text="bounded-exhaustive enumeration of reader x value x trailing-residue, CanIRead x type lists x truncations, callback kinds x values, and explicit-state search over registration histories, all on the real parser/teamserver against the demonwire reference encoder",
   note="trusts the demonwire transcription of the Demon's Package.c; values outside the listed domains are not covered",
   technique="bounded-exhaustive enumeration against a reference model; explicit-state BFS over registration histories"),
 "C04": dict(level="model_checking",
   text="explicit-state BFS over enqueue/check-in histories against a FIFO-batch reference model; stateless exploration of every interleaving within a preemption bound of concurrent producers/consumer on the real (instrumented) queue code under a controlled scheduler, checked for linearizability with porcupine",
   note="3 threads, preemption bound 2 (quick) / 3 (thorough); statement-part granularity; instrumentation is injected by go build -overlay and preserves sequential semantics by construction",
   technique="explicit-state BFS + controlled-scheduler stateless model checking (preemption-bounded DFS) of the implementation, linearizability oracle"),
 "C09": dict(level="model_checking",
   text="explicit-state BFS (to a fixpoint in the thorough tier) over real pivot events on 4 agents; every transition is executed on a fresh real teamserver with a real SQLite file (callbacks relayed through the real parent chain); forest invariants I1-I6 incl. the raw TS_Links rows are evaluated in every state",
   note="universe of 4 agents, sequential event delivery; the Demon side of the SMB relay is the demonwire transcription",
   technique="explicit-state BFS over event histories with canonical-state de-duplication, executed on the implementation"),
 "C06": dict(level="model_checking",
   text="product enumeration of the first-message shape grammar x follow-up menu through the real per-connection handler on a real gorilla server connection (operator and service endpoints), plus stateless exploration of every schedule within a preemption bound of handshake vs broadcasting listener vs peer close on instrumented code",
   note="gorilla websocket is the real library on a scripted in-memory connection; 3 threads, preemption bound 2/3; first-message grammar as listed in the evidence",
   technique="bounded-exhaustive product enumeration + controlled-scheduler stateless model checking of the implementation"),
 "C11": dict(level="model_checking",
   text="explicit-state BFS over record/broadcast/remove/connect/disconnect histories with real handler goroutines parked on scripted websocket connections, every operator's frames compared with an event-log reference model after every step; every write index x fault kind on one operator's transport; every schedule within a preemption bound of concurrent broadcasters and a joining operator (controlled scheduler on instrumented code)",
   note="a stalled transport = arbitrarily delayed write that finally fails; 2 operators; preemption bound 2/3 (1/2 with a joining operator); gorilla websocket is the real library over a scripted connection",
   technique="explicit-state BFS + fault enumeration + controlled-scheduler stateless model checking of the implementation"),
}
NA_REASON = "check under construction in this session (see DESIGN.md §4); not yet claimed"

m = {
 "version": 1,
 "setup_cmd": "./setup.sh",
 "hooks": {"guard": "overlay (go build -overlay; no hook source is committed in /repo)",
           "enable": "run.sh generates an overlay JSON that adds export_verif.go shims (and, for scheduler harnesses, instrumented copies made by mc/cmd/instr) to the packages of /repo/teamserver at build time",
           "baseline_off_cmd": "cd /repo/teamserver && GOFLAGS=-mod=mod GOPROXY=off GOSUMDB=off go test -vet=off -count=1 -timeout 25m ./...",
           "source_commits": [], "add_only": True},
 "engines": [{"name": "verifmc", "path": "mc", "serves_properties": sorted(CHECKS),
              "kind_free_text": "hand-written Go explorer: deviation-bounded choice-tree DFS, explicit-state BFS over histories, controlled scheduler over AST-instrumented sources; executes the real Havoc code"}],
 "checks": [], "not_applicable": [],
 "notes": "All checks run the real code of /repo's working tree; see DESIGN.md.",
}
for p in props:
    i = p["id"]
    if i in CHECKS:
        c = CHECKS[i]
        m["checks"].append({"property_id": i, "quick_cmd": f"./run.sh {i} quick", "thorough_cmd": f"./run.sh {i} thorough",
            "evidence_file": f"evidence/{i}.json", "engine": "verifmc",
            "level_claimed": {"category": c["level"], "text": c["text"], "design_ref": f"DESIGN.md §4 {i}"},
            "level_note": c["note"], "technique": c["technique"]})
    else:
        m["not_applicable"].append({"property_id": i, "reason": NA_REASON})
json.dump(m, open(os.path.join(HERE, 'MANIFEST.json'), 'w'), indent=1)
print("checks:", [c["property_id"] for c in m["checks"]])
