#!/bin/bash
# test_seed.sh <ID> [check-id]  — applies seeded/<ID>/patch.diff to a scratch worktree of /repo HEAD and runs the quick check
ID="$1"; CHK="${2:-$1}"
WT=$(mktemp -d /tmp/wt-seedtest-XXXXXX)
git -C /repo worktree add -q --detach "$WT" HEAD || exit 2
if git -C "$WT" apply /verif/seeded/$ID/patch.diff; then
  VERIF_REPLAYS="$WT/.verif-replays" VERIF_BUILD_DIR="$WT/.verif-build" VERIF_REPO="$WT" VERIF_EVIDENCE="$WT/ev.json" timeout 1500 /verif/run.sh "$CHK" quick 2>&1 | grep -E "VIOLATION|signature=|BUILD-ERROR|^C[0-9]+ " | head -${LINES_MAX:-6}
else
  echo "PATCH DOES NOT APPLY to HEAD"
fi
git -C /repo worktree remove --force "$WT"
