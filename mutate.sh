#!/bin/bash
# mutate.sh <ID> <file-relative-to-repo> <python-regex-from> <to>   — applies one textual mutation in a scratch
# worktree of /repo HEAD, runs the quick check of <ID> against it, prints the verdict, removes the worktree.
set -u
ID="$1"; FILE="$2"; FROM="$3"; TO="$4"
WT=$(mktemp -d /tmp/wt-mut-XXXXXX)
git -C /repo worktree add -q --detach "$WT" HEAD || exit 2
python3 - "$WT/$FILE" "$FROM" "$TO" <<'PY'
import sys
p, frm, to = sys.argv[1:4]
s = open(p).read()
if s.count(frm) != 1:
    print("MUTATION-ERROR: pattern occurs", s.count(frm), "times"); sys.exit(3)
open(p, 'w').write(s.replace(frm, to))
PY
rc=$?
if [ $rc -eq 0 ]; then
  VERIF_REPO="$WT" VERIF_EVIDENCE="$WT/ev.json" VERIF_ROOT_REPLAYS=/tmp ./run.sh "$ID" quick 2>&1 | grep -E "VIOLATION|KNOWN-FINDING|BUILD-ERROR|signature=|^C[0-9]+ " | head -${MUT_LINES:-8}
  echo "exit=${PIPESTATUS[0]}"
fi
git -C /repo worktree remove --force "$WT"
