package c15

import (
	"fmt"
	"io"
	"net"
	"os"
	"sync"
	"time"

	"Havoc/pkg/agent"

	"verifmc/ev"
	"verifmc/seam"
)

// runFree is the auxiliary free-running race pass (DESIGN.md 3.5): the bodies of the
// table scenarios - agent callbacks | operator proxy commands | SOCKS clients | relay
// goroutines - run on real goroutines and real loopback sockets in a binary built with
// the race detector (plain build: real sync, real net).  It decides nothing: the race
// reports (GORACE log_path) are compared by tools/race_report.py with the locations the
// scheduler harness explores.
func runFree(r *ev.Run) {
	iters := 25
	base := 20000 + (os.Getpid()%400)*100
	for it := 0; it < iters; it++ {
		ts := seam.New(seam.Options{})
		a := ts.MustRegister(idA, 1)
		a.Info.SleepDelay = 0
		se := &sess{ts: ts, a: a}
		p1, p2 := base+2*(it%50), base+2*(it%50)+1
		se.socksCmd("socks add", fmt.Sprint(p1))
		var wg sync.WaitGroup
		stop := make(chan struct{})
		for k := 0; k < 3; k++ {
			wg.Add(1)
			go func(k int) {
				defer wg.Done()
				var c net.Conn
				var err error
				for try := 0; try < 200; try++ {
					if c, err = net.DialTimeout("tcp", fmt.Sprintf("127.0.0.1:%d", p1), time.Second); err == nil {
						break
					}
					time.Sleep(2 * time.Millisecond)
				}
				if err != nil {
					return
				}
				defer c.Close()
				c.SetDeadline(time.Now().Add(3 * time.Second))
				c.Write([]byte{5, 1, 0})
				buf := make([]byte, 64)
				io.ReadFull(c, buf[:2])
				c.Write(request{5, 1, 0, 1, addrFor(1, 0), uint16(81 + k)}.bytes())
				if _, err := io.ReadFull(c, buf[:10]); err != nil {
					return
				}
				c.Write([]byte("hello"))
				c.Read(buf)
				if k == 1 {
					return // this client goes away first
				}
				time.Sleep(5 * time.Millisecond)
			}(k)
		}
		wg.Add(1)
		go func() { // the agent
			defer wg.Done()
			closed := 0
			for i := 0; i < 400; i++ {
				select {
				case <-stop:
					return
				default:
				}
				for _, t := range se.tasks() {
					sub, ct, _, ok := parseSocketTask(t)
					if !ok {
						continue
					}
					switch sub {
					case agent.SOCKET_COMMAND_CONNECT:
						se.tasks(cbConnect(ct.id, true, 0))
					case agent.SOCKET_COMMAND_WRITE:
						se.tasks(cbRead(ct.id, []byte("pong")))
						if closed == 0 {
							closed++
							se.tasks(cbClose(ct.id))
						}
					}
				}
				time.Sleep(500 * time.Microsecond)
			}
		}()
		wg.Add(1)
		go func() { // the operator
			defer wg.Done()
			time.Sleep(time.Duration(it%7) * time.Millisecond)
			se.socksCmd("socks list", "")
			se.socksCmd("socks add", fmt.Sprint(p2))
			se.socksCmd("socks list", "")
			time.Sleep(time.Duration(it%5) * time.Millisecond)
			if it%2 == 0 {
				se.socksCmd("socks kill", fmt.Sprint(p1))
			}
			se.socksCmd("socks clear", "")
		}()
		done := make(chan struct{})
		go func() { wg.Wait(); close(done) }()
		select {
		case <-done:
		case <-time.After(4 * time.Second):
			close(stop)
			<-done
		}
		select {
		case <-stop:
		default:
			close(stop)
		}
		se.socksCmd("socks clear", "")
		time.Sleep(20 * time.Millisecond)
		ts.Close()
		r.Eval(1)
	}
	r.NotExhaustive("free-running race pass: auxiliary, samples schedules; decides nothing")
	_ = seam.Quiet
}
