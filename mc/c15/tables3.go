package c15

import (
	"fmt"
	"os"
	"strconv"
	"strings"
	"time"

	"Havoc/pkg/agent"

	"verifmc/ev"
	"verifmc/explore"
	"verifmc/fake"
)

// runTablesThreeClients: one proxy with three connected clients A, B, C.  Explored: the
// agent closes A (CLOSE callback) | client B goes away (its relay goroutine closes B and
// tells the agent) | the agent returns data for C.  Oracle, on every schedule, BEFORE any
// clean-up: C - which nobody closed - is still in the table with an open connection and
// got its data - returned by the agent as two chunks in one check-in - whole and in order; A and B are gone from the table and their connections are closed; the
// agent is told exactly once that B closed and never that A or C did ("closing either
// side removes the socket everywhere" - and only that socket).
func runTablesThreeClients(r *ev.Run, shard, nshards int) {
	bound := 2
	if r.Thorough() {
		bound = 3
	}
	r.Bounds["preemption_bound_three_clients"] = bound
	dl := 60 * time.Second
	if d, err := time.ParseDuration(os.Getenv("VERIF_C15_DEADLINE")); err == nil {
		dl = d
	}
	if r.Thorough() {
		dl = 12 * time.Minute
	}
	name := "1 proxy, clients A B C: agent closes A | client B goes away | agent returns data for C"
	outcomes := map[string]bool{}
	t := explore.Tree{Bound: bound, Deadline: time.Now().Add(dl)}
	t.RunShard(shard, nshards, func(c *explore.Chooser) {
		se := newSess(c, 60000, "SocksCli", "SocksSvr", "Connected", "Conn")
		defer se.close()
		conns := []*fake.Conn{fake.NewConn("A"), fake.NewConn("B"), fake.NewConn("C")}
		sid := make([]uint32, 3)
		ready := false
		var closeTasks []uint32
		se.s.SetExplore(false)
		se.s.Spawn("setup+agent", func() {
			se.socksCmd("socks add", "1080")
			se.s.Settle()
			// one client at a time: a relay goroutine polls until its socket is connected, and two
			// polling threads never look quiescent to Settle (each one's step re-arms the other)
			for i, cn := range conns {
				se.lsts["0.0.0.0:1080"].Push(cn)
				cn.Feed([]byte{5, 1, 0})
				cn.Feed(request{5, 1, 0, 1, addrFor(1, 0), uint16(81 + i)}.bytes())
				se.s.Settle()
				for _, t := range se.tasks() {
					if sub, ct, _, ok := parseSocketTask(t); ok && sub == agent.SOCKET_COMMAND_CONNECT && int(ct.port) == 81+i {
						sid[i] = ct.id
					}
				}
				se.tasks(cbConnect(sid[i], true, 0))
				se.s.Settle()
			}
			se.s.Settle()
			se.s.SetExplore(true)
			ready = true
			for _, t := range se.tasks(cbClose(sid[0]), cbRead(sid[2], []byte("for ")), cbRead(sid[2], []byte("C"))) {
				if sub, ct, _, ok := parseSocketTask(t); ok && sub == agent.SOCKET_COMMAND_CLOSE {
					closeTasks = append(closeTasks, ct.id)
				}
			}
		})
		se.s.Spawn("client B", func() {
			se.s.Block("client B waits for the setup", func() bool { return ready })
			conns[1].ClosePeer()
		})
		se.s.Run()
		se.s.Panics = append(se.s.Panics, se.reqFaults...)
		benign := se.s.Deadlock && se.s.BlockedOnly("accept ", "read ")
		detail := map[string]any{"scenario": name, "choices": c.Choices(), "schedule_tail": tail(se.s.Trace, 40), "socket_ids": fmt.Sprintf("%08x", sid)}
		switch {
		case sid[0] == 0 || sid[1] == 0 || sid[2] == 0 || sid[0] == sid[1] || sid[1] == sid[2] || sid[0] == sid[2]:
			r.Violate("harness/three-clients-setup", "the three clients did not get three socket ids", detail)
			return
		case len(se.s.Panics) > 0:
			r.Violate("tables/panic/"+ev.Normalize(se.s.Panics[0]), se.s.Panics[0], detail)
			return
		case se.s.Deadlock && !benign:
			r.Violate("tables/deadlock/"+lockOf(se.s.DeadlockWhy), se.s.DeadlockWhy, detail)
			return
		case se.s.HorizonHit:
			r.Violate("tables/livelock", "threads still spinning at the horizon", detail)
			return
		case len(se.s.Held()) > 0 || !mutexesFree(se.a):
			r.Violate("tables/lock-held", fmt.Sprint(se.s.Held()), detail)
			return
		}
		// quiescent, no scheduler installed any more: the rest of the queue
		for _, t := range se.tasks() {
			if sub, ct, _, ok := parseSocketTask(t); ok && sub == agent.SOCKET_COMMAND_CLOSE {
				closeTasks = append(closeTasks, ct.id)
			}
		}
		inTable := map[uint32]int{}
		for _, cl := range se.a.SocksCli {
			inTable[uint32(cl.SocketID)]++
		}
		nClose := map[uint32]int{}
		for _, id := range closeTasks {
			nClose[id]++
		}
		names := []string{"A", "B", "C"}
		obs := ""
		for i := range conns {
			obs += fmt.Sprintf("%s:table=%d,closed=%v,closetasks=%d ", names[i], inTable[sid[i]], conns[i].Closed, nClose[sid[i]])
		}
		obs += fmt.Sprintf("C.out=%q", string(conns[2].OutBytes()))
		outcomes[obs] = true
		detail["observed"] = obs
		switch {
		case inTable[sid[2]] != 1 || conns[2].Closed:
			r.Violate("tables/untouched-socket-lost", "client C, which nobody closed, is no longer in the table or its connection was closed: "+obs, detail)
		case inTable[sid[0]] != 0 || inTable[sid[1]] != 0:
			r.Violate("tables/closed-socket-still-listed", "a socket that was closed is still in the client table: "+obs, detail)
		case !conns[0].Closed || !conns[1].Closed:
			r.Violate("tables/closed-socket-connection-open", "a socket was removed from the table but its connection is still open: "+obs, detail)
		case nClose[sid[1]] != 1 || nClose[sid[0]] != 0 || nClose[sid[2]] != 0:
			r.Violate("tables/close-notifications", "the agent must be told exactly once that B closed, and nothing about A (which it closed itself) or C: "+obs, detail)
		case len(se.a.SocksCli) != 1:
			r.Violate("tables/leftover", fmt.Sprintf("the client table holds %d entries, want only C: %s", len(se.a.SocksCli), obs), detail)
		}
		// "for C" must have reached C exactly once, after the SOCKS success reply
		if out := string(conns[2].OutBytes()); len(out) < 5 || out[len(out)-5:] != "for C" {
			r.Violate("tables/data-for-untouched-socket-lost", "the bytes the agent returned for C did not reach C: "+obs, detail)
		}
		se.socksCmd("socks clear", "")
		if len(se.a.SocksSvr) != 0 || len(se.a.SocksCli) != 0 || openListeners(se) != "" {
			r.Violate("tables/leftover-after-clear", fmt.Sprintf("after socks clear: svr=%d cli=%d open listeners=%q", len(se.a.SocksSvr), len(se.a.SocksCli), openListeners(se)), detail)
		}
	})
	if t.Err != nil {
		r.Violate("harness/nondeterminism", t.Err.Error(), nil)
	}
	if t.Capped {
		r.NotExhaustive(fmt.Sprintf("three-clients table scenario stopped by the internal deadline after %d executions", t.Executions))
	}
	for o := range outcomes {
		r.Outcome("tables3/" + o)
	}
	r.Extra["tables_scenario_three_clients"+shardTag(shard, nshards)] = map[string]any{"name": name, "executions": t.Executions, "choice_points": t.Points, "preemption_bound": bound}
	r.Eval(int(t.Executions))
	r.AddStates(t.Points, t.Points, t.Executions)
}

// runTablesTwoHandshakes: two clients complete their SOCKS handshake on one proxy at the
// same time (two handler goroutines of the accept loop register their socket with the
// proxy and the agent concurrently), then the operator clears the proxies.  Oracle on
// every schedule: after the clear no socket is left in any table and both client
// connections are closed ("closing either side removes the socket everywhere").  The
// free-running race pass reported the proxy's client list (Socks.Clients) as a racy
// location no other scenario explored; it is in this scenario's focus.
func runTablesTwoHandshakes(r *ev.Run, shard, nshards int, fullFocus bool) {
	// quick: scheduling points at the proxy's client list only, one preemption; thorough:
	// that focus with two preemptions, and the full focus with one (two separate trees)
	bound := 1
	if r.Thorough() && !fullFocus {
		bound = 2
	}
	if v, err := strconv.Atoi(os.Getenv("VERIF_C15_BOUND")); err == nil {
		bound = v // experiments only
	}
	r.Bounds[fmt.Sprintf("preemption_bound_two_handshakes_fullfocus=%v", fullFocus)] = bound
	dl := 60 * time.Second
	if d, err := time.ParseDuration(os.Getenv("VERIF_C15_DEADLINE")); err == nil {
		dl = d
	}
	if r.Thorough() {
		dl = 12 * time.Minute
	}
	name := "1 proxy: clients A and B finish their handshake at the same time, then socks clear"
	outcomes := map[string]bool{}
	t := explore.Tree{Bound: bound, Deadline: time.Now().Add(dl)}
	t.RunShard2(shard, nshards, func(c *explore.Chooser) {
		// quick: scheduling points at the proxy's client list only (the location the race pass
		// named), every schedule with at most one preemption there; thorough: the full focus
		focus := []string{"Clients"}
		if fullFocus {
			focus = []string{"SocksCli", "SocksSvr", "Connected", "Conn", "Clients"}
		}
		se := newSess(c, 60000, focus...)
		defer se.close()
		conns := []*fake.Conn{fake.NewConn("A"), fake.NewConn("B")}
		se.s.SetExplore(false)
		se.s.Spawn("setup+operator", func() {
			se.socksCmd("socks add", "1080")
			se.s.Settle()
			se.s.SetExplore(true)
			for i, cn := range conns {
				cn.Feed([]byte{5, 1, 0})
				cn.Feed(request{5, 1, 0, 1, addrFor(1, 0), uint16(81 + i)}.bytes())
				se.lsts["0.0.0.0:1080"].Push(cn)
			}
			se.s.Block("operator waits until both sockets are registered", func() bool {
				n := 0
				for _, t := range se.a.JobQueue {
					if t.Command == agent.COMMAND_SOCKET {
						n++
					}
				}
				if os.Getenv("VERIF_C15_STEPS") != "" && se.s.Steps() > 300 && se.s.Steps() < 304 {
					fmt.Fprintln(os.Stderr, "PRED n=", n, "queue", len(se.a.JobQueue), "cli", len(se.a.SocksCli))
				}
				return n >= 2
			})
			se.socksCmd("socks clear", "")
		})
		se.s.Run()
		se.s.Panics = append(se.s.Panics, se.reqFaults...)
		benign := se.s.Deadlock && se.s.BlockedOnly("accept ", "read ")
		obs := fmt.Sprintf("svr=%d cli=%d A.closed=%v B.closed=%v", len(se.a.SocksSvr), len(se.a.SocksCli), conns[0].Closed, conns[1].Closed)
		if os.Getenv("VERIF_C15_STEPS") != "" && se.s.Steps() > 2000 {
			fmt.Fprintln(os.Stderr, "LONG", se.s.Steps(), "horizon", se.s.HorizonHit, "deadlock", se.s.Deadlock, obs, c.Choices()[:40], strings.Join(se.s.Trace[20:100], " | "))
			os.Exit(0)
		}
		if os.Getenv("VERIF_C15_STEPS") != "" && t.Executions < 0 {
			fmt.Fprintln(os.Stderr, "STEPS", se.s.Steps(), "horizon", se.s.HorizonHit, "trace", len(se.s.Trace), strings.Join(tail(se.s.Trace, 60), " | "))
		}
		outcomes[obs] = true
		detail := map[string]any{"scenario": name, "choices": c.Choices(), "schedule_tail": tail(se.s.Trace, 60), "observed": obs}
		switch {
		case len(se.s.Panics) > 0:
			r.Violate("tables/panic/"+ev.Normalize(se.s.Panics[0]), se.s.Panics[0], detail)
		case se.s.Deadlock && !benign:
			r.Violate("tables/deadlock/"+lockOf(se.s.DeadlockWhy), se.s.DeadlockWhy, detail)
		case se.s.HorizonHit && len(se.a.SocksSvr) == 0 && len(se.a.SocksCli) != 0:
			r.Violate("tables/leftover-after-clear", "after socks clear a socket is still in the client table (its relay goroutine polls it for ever): "+obs, detail)
		case se.s.HorizonHit:
			r.Violate("tables/livelock", "threads still spinning at the horizon", detail)
		case len(se.s.Held()) > 0 || !mutexesFree(se.a):
			r.Violate("tables/lock-held", fmt.Sprint(se.s.Held()), detail)
		case openListeners(se) != "":
			r.Violate("tables/listener-outlives-proxy", "listener still open: "+openListeners(se), detail)
		case len(se.a.SocksSvr) != 0 || len(se.a.SocksCli) != 0:
			r.Violate("tables/leftover-after-clear", "after socks clear a socket is still in the client table: "+obs, detail)
		case !conns[0].Closed || !conns[1].Closed:
			r.Violate("tables/client-connection-open-after-clear", "after socks clear a client connection is still open: "+obs, detail)
		}
	})
	if t.Err != nil {
		r.Violate("harness/nondeterminism", t.Err.Error(), nil)
	}
	if t.Capped {
		r.NotExhaustive(fmt.Sprintf("two-handshakes table scenario (shard %d of %d) stopped by the internal deadline after %d executions", shard, nshards, t.Executions))
	}
	for o := range outcomes {
		r.Outcome("tables4/" + o)
	}
	r.Extra[fmt.Sprintf("tables_scenario_two_handshakes_fullfocus=%v_shard_%d_of_%d", fullFocus, shard, nshards)] = map[string]any{"name": name, "executions": t.Executions, "choice_points": t.Points, "preemption_bound": bound}
	r.Eval(int(t.Executions))
	r.AddStates(t.Points, t.Points, t.Executions)
}
