// Package c15: "The SOCKS5 and port-forward relays speak the protocol and move bytes intact".
//
// Every execution runs the real accept loop (Socks.Start on a scripted listener), the
// real handler installed by TaskPrepare("socks add"), the real relay goroutine and the
// real COMMAND_SOCKET callbacks under the controlled scheduler; a driver thread plays
// the SOCKS client (feeding the stream chunk by chunk) and the agent.
package c15

import (
	"bytes"
	"fmt"
	"net"
	"os"
	"sort"
	"strconv"
	"strings"
	"time"

	"Havoc/pkg/agent"

	"verifmc/demonwire"
	"verifmc/ev"
	"verifmc/explore"
	"verifmc/fake"
	"verifmc/par"
	"verifmc/seam"
	"verifmc/vnet"
	"verifmc/vrand"
	"verifmc/vsched"
)

const idA = 0xa001

type sess struct {
	ts    *seam.TS
	a     *agent.Agent
	s     *vsched.Sched
	lsts  map[string]*fake.Listener
	dials []string
	req   uint32
	// check-ins whose handler panicked or that were not answered with 200 (a panic inside a
	// request is recovered by the HTTP layer: it does not reach the scheduler's thread)
	reqFaults []string
}

func newSess(c *explore.Chooser, horizon int, focus ...string) *sess {
	vrand.Reset(7)
	ts := seam.New(seam.Options{})
	a := ts.MustRegister(idA, 1)
	a.Info.SleepDelay = 0
	se := &sess{ts: ts, a: a, lsts: map[string]*fake.Listener{}}
	vnet.ListenHook = func(network, addr string) (net.Listener, error) {
		l := &fake.Listener{Addr_: addr}
		se.lsts[addr] = l
		return l, nil
	}
	vnet.DialHook = func(network, addr string) (net.Conn, error) {
		se.dials = append(se.dials, addr)
		return nil, fmt.Errorf("dial %s: refused by the harness", addr)
	}
	se.s = vsched.New(c, horizon, focus...)
	return se
}

func (se *sess) close() {
	vnet.ListenHook, vnet.DialHook = nil, nil
	se.ts.Close()
}

func (se *sess) socksCmd(cmd, param string) any {
	se.req++
	return se.ts.Task(idA, fmt.Sprintf("%08x", 0x5000+se.req), agent.COMMAND_SOCKET, map[string]any{"Command": cmd, "Params": param})
}

// tasks drains the agent's queue through a real check-in and returns the decoded tasks.
func (se *sess) tasks(subs ...demonwire.Sub) []demonwire.Task {
	res, t, _ := se.ts.CheckIn(idA, 1, subs...)
	if res.Panic != nil && !vsched.IsAbort(res.Panic) {
		se.reqFaults = append(se.reqFaults, fmt.Sprintf("check-in handler: %v @ %s", res.Panic, res.Stack))
	} else if res.Panic == nil && res.Status != 200 && !se.s.Aborted() {
		se.reqFaults = append(se.reqFaults, fmt.Sprintf("check-in answered with status %d", res.Status))
	}
	var out []demonwire.Task
	for _, x := range t {
		if x.Cmd != demonwire.NoJob {
			out = append(out, x)
		}
	}
	return out
}

type connectTask struct {
	id   uint32
	atyp byte
	addr []byte
	port uint16
}

// parse COMMAND_SOCKET tasks the way the Demon reads them (Command.c CommandSocket)
func parseSocketTask(t demonwire.Task) (sub uint32, ct connectTask, data []byte, ok bool) {
	if t.Cmd != agent.COMMAND_SOCKET {
		return 0, ct, nil, false
	}
	r := &demonwire.R{B: t.Body}
	sub = r.I32()
	switch sub {
	case agent.SOCKET_COMMAND_CONNECT:
		ct.id = r.I32()
		ct.atyp = r.U8()
		ct.addr = r.Bytes()
		ct.port = r.I16()
	case agent.SOCKET_COMMAND_WRITE:
		ct.id = r.I32()
		data = r.Bytes()
	case agent.SOCKET_COMMAND_CLOSE:
		ct.id = r.I32()
	}
	return sub, ct, data, !r.Err
}

// callbacks as the Demon sends them
func cbConnect(id uint32, ok bool, errCode uint32) demonwire.Sub {
	w := &demonwire.W{}
	s := uint32(0)
	if ok {
		s = 1
	}
	w.I32(agent.SOCKET_COMMAND_CONNECT).I32(s).I32(id).I32(errCode)
	return demonwire.Sub{Cmd: agent.COMMAND_SOCKET, Body: w.B}
}
func cbRead(id uint32, data []byte) demonwire.Sub {
	w := &demonwire.W{}
	w.I32(agent.SOCKET_COMMAND_READ).I32(id).I32(agent.SOCKET_TYPE_REVERSE_PROXY).I32(1).Bytes(data)
	return demonwire.Sub{Cmd: agent.COMMAND_SOCKET, Body: w.B}
}
func cbClose(id uint32) demonwire.Sub {
	w := &demonwire.W{}
	w.I32(agent.SOCKET_COMMAND_CLOSE).I32(id).I32(agent.SOCKET_TYPE_REVERSE_PROXY)
	return demonwire.Sub{Cmd: agent.COMMAND_SOCKET, Body: w.B}
}

// ---- RFC 1928 reference ---------------------------------------------------------------

type greeting struct {
	ver     byte
	methods []byte
}

func (g greeting) bytes() []byte {
	return append([]byte{g.ver, byte(len(g.methods))}, g.methods...)
}

type request struct {
	ver, cmd, rsv, atyp byte
	addr                []byte // raw address field (for a domain: without the length byte)
	port                uint16
}

func (q request) bytes() []byte {
	b := []byte{q.ver, q.cmd, q.rsv, q.atyp}
	if q.atyp == 3 {
		b = append(b, byte(len(q.addr)))
	}
	b = append(b, q.addr...)
	return append(b, byte(q.port>>8), byte(q.port))
}

func (q request) String() string {
	return fmt.Sprintf("ver=%d cmd=%d rsv=%d atyp=%d addr=%d bytes port=%d", q.ver, q.cmd, q.rsv, q.atyp, len(q.addr), q.port)
}

type expect struct {
	methodReply []byte // nil: none required
	task        bool   // a CONNECT task must be issued
	nonConnect  bool   // reply REP=07
}

func reference(g greeting, q request) expect {
	var e expect
	if g.ver != 5 {
		return e
	}
	hasNoAuth := bytes.IndexByte(g.methods, 0) >= 0
	if !hasNoAuth {
		e.methodReply = []byte{5, 0xff}
		return e
	}
	e.methodReply = []byte{5, 0}
	if q.ver != 5 || q.rsv != 0 {
		return e
	}
	if q.cmd != 1 {
		e.nonConnect = true
		return e
	}
	if q.atyp != 1 && q.atyp != 3 && q.atyp != 4 {
		return e
	}
	e.task = true
	return e
}

func repFor(code uint32, ok bool) byte {
	if ok {
		return 0
	}
	switch code {
	case 10060:
		return 6
	case 10061:
		return 5
	case 10065:
		return 4
	case 10051:
		return 3
	}
	return 1
}

func greetings() []greeting {
	return []greeting{{5, []byte{0}}, {5, []byte{}}, {5, []byte{2}}, {5, []byte{0, 2}}, {5, []byte{2, 0}}, {5, []byte{1, 2, 0xff}}, {5, []byte{2, 1, 0}}, {4, []byte{0}}}
}

func addrFor(atyp byte, dl int) []byte {
	switch atyp {
	case 1:
		return []byte{10, 1, 2, 3}
	case 4:
		b := make([]byte, 16)
		for i := range b {
			b[i] = byte(0x20 + i)
		}
		return b
	case 3:
		return bytes.Repeat([]byte{'h'}, dl)
	}
	return []byte{9, 9, 9, 9}
}

func requests() []request {
	var out []request
	// full product of address type x domain length x port
	for _, atyp := range []byte{1, 3, 4} {
		dls := []int{0}
		if atyp == 3 {
			dls = []int{0, 1, 2, 255}
		}
		for _, dl := range dls {
			for _, port := range []uint16{0, 80, 65535} {
				out = append(out, request{5, 1, 0, atyp, addrFor(atyp, dl), port})
			}
		}
	}
	// one-at-a-time deviations around the default request
	for _, v := range []byte{4} {
		out = append(out, request{v, 1, 0, 1, addrFor(1, 0), 80})
	}
	for _, c := range []byte{2, 3, 0} {
		out = append(out, request{5, c, 0, 1, addrFor(1, 0), 80})
	}
	out = append(out, request{5, 1, 1, 1, addrFor(1, 0), 80})
	for _, a := range []byte{0, 5} {
		out = append(out, request{5, 1, 0, a, addrFor(0, 0), 80})
	}
	return out
}

// chunkings of b into at most 3 non-empty chunks
func chunkings(b []byte, thorough bool) [][][]byte {
	n := len(b)
	out := [][][]byte{{b}}
	if n < 2 {
		return out
	}
	cuts := []int{}
	for i := 1; i < n; i++ {
		cuts = append(cuts, i)
	}
	if !thorough && len(cuts) > 12 {
		// the first 8 cut positions and the last 4 (header, start and end of the address)
		cuts = append(append([]int{}, cuts[:8]...), cuts[len(cuts)-4:]...)
	}
	for _, i := range cuts {
		out = append(out, [][]byte{b[:i], b[i:]})
	}
	for x, i := range cuts {
		for _, j := range cuts[x+1:] {
			if !thorough && j-i > 6 && n > 24 {
				continue
			}
			out = append(out, [][]byte{b[:i], b[i:j], b[j:]})
		}
	}
	return out
}

type result struct {
	out      []byte
	tasks    []demonwire.Task
	panics   []string
	deadlock bool
	why      string
	horizon  bool
	held     []string
	sockCli  int
	// socket ids named by write/close tasks although no connect task ever introduced them
	unknownSock []string
	closed      bool
}

// runClient plays one client: flights is the list of chunk lists; after each flight the
// driver lets the server settle.  answer is the agent's reply to a CONNECT task.
func runClient(flights [][][]byte, eofAfter bool, answer func(id uint32) *demonwire.Sub, payloadUp [][]byte, payloadDown [][]byte, closeBy string) result {
	c, _ := explore.Replay(nil, func(*explore.Chooser) {})
	se := newSess(c, 60000)
	defer se.close()
	var res result
	conn := fake.NewConn("client")
	se.s.Spawn("driver", func() {
		if p := se.socksCmd("socks add", "1080"); p != nil {
			res.panics = append(res.panics, fmt.Sprint(p))
			return
		}
		se.s.Settle()
		l := se.lsts["0.0.0.0:1080"]
		if l == nil {
			res.panics = append(res.panics, "harness: proxy did not listen")
			return
		}
		l.Push(conn)
		se.s.Settle()
		for _, fl := range flights {
			for _, ch := range fl {
				conn.Feed(ch)
				se.s.Settle()
			}
		}
		if eofAfter {
			conn.ClosePeer()
			se.s.Settle()
		}
		res.tasks = se.tasks()
		var sid uint32
		haveSock := false
		for _, t := range res.tasks {
			if sub, ct, _, ok := parseSocketTask(t); ok && sub == agent.SOCKET_COMMAND_CONNECT {
				sid, haveSock = ct.id, true
			}
		}
		if haveSock && answer != nil {
			if sub := answer(sid); sub != nil {
				res.tasks = append(res.tasks, se.tasks(*sub)...)
				se.s.Settle()
			}
		}
		for _, ch := range payloadUp {
			conn.Feed(ch)
			se.s.Settle()
			if !strings.HasSuffix(closeBy, "+late-poll") {
				// the agent polls after every chunk; with "+late-poll" all chunks are relayed
				// (several write tasks pending at once) before the agent fetches them
				res.tasks = append(res.tasks, se.tasks()...)
			}
		}
		res.tasks = append(res.tasks, se.tasks()...)
		for _, ch := range payloadDown {
			res.tasks = append(res.tasks, se.tasks(cbRead(sid, ch))...)
			se.s.Settle()
		}
		switch strings.TrimSuffix(closeBy, "+late-poll") {
		case "client":
			conn.ClosePeer()
			se.s.Settle()
			res.tasks = append(res.tasks, se.tasks()...)
		case "agent":
			res.tasks = append(res.tasks, se.tasks(cbClose(sid))...)
			se.s.Settle()
		}
		res.sockCli = len(se.a.SocksCli)
		res.closed = conn.Closed
		// tear down: whatever is left must be able to finish
		conn.ClosePeer()
		if haveSock {
			se.tasks(cbClose(sid))
		}
		se.socksCmd("socks kill", "1080")
		se.s.Settle()
		// what the agent is told about sockets: only ids a connect task has introduced
		known := map[uint32]bool{}
		for _, t := range append(append([]demonwire.Task(nil), res.tasks...), se.tasks()...) {
			sub, ct, _, ok := parseSocketTask(t)
			switch {
			case !ok:
			case sub == agent.SOCKET_COMMAND_CONNECT:
				known[ct.id] = true
			case (sub == agent.SOCKET_COMMAND_WRITE || sub == agent.SOCKET_COMMAND_CLOSE) && !known[ct.id]:
				res.unknownSock = append(res.unknownSock, fmt.Sprintf("sub-command %d for socket %08x", sub, ct.id))
			}
		}
	})
	se.s.Run()
	res.out = conn.OutBytes()
	res.panics = append(res.panics, se.s.Panics...)
	res.panics = append(res.panics, se.reqFaults...)
	res.deadlock, res.why, res.horizon, res.held = se.s.Deadlock, se.s.DeadlockWhy, se.s.HorizonHit, se.s.Held()
	return res
}

func liveness(r *ev.Run, res result, sigPrefix string, detail map[string]any) bool {
	switch {
	case len(res.panics) > 0:
		r.Violate(sigPrefix+"/panic/"+ev.Normalize(res.panics[0]), res.panics[0], detail)
	case res.deadlock:
		r.Violate(sigPrefix+"/deadlock", res.why, detail)
	case res.horizon:
		r.Violate(sigPrefix+"/livelock", "a relay goroutine is still spinning at the horizon (the execution never becomes quiescent)", detail)
	case len(res.held) > 0:
		r.Violate(sigPrefix+"/lock-held", fmt.Sprint(res.held), detail)
	case len(res.unknownSock) > 0:
		r.Violate(sigPrefix+"/task-for-socket-the-agent-never-opened", "the agent is sent "+strings.Join(res.unknownSock, ", ")+": no connect task ever introduced that socket (the teamserver's table holds a client the agent does not)", detail)
	default:
		return true
	}
	return false
}

func hexs(b []byte) string {
	if len(b) > 24 {
		return fmt.Sprintf("%x…(%d bytes)", b[:24], len(b))
	}
	return fmt.Sprintf("%x", b)
}

// checkConformance judges one complete negotiation against the reference.
func checkConformance(r *ev.Run, g greeting, q request, mode string, res result, ansOK bool, ansCode uint32, detail map[string]any) {
	e := reference(g, q)
	out := res.out
	var ct *connectTask
	for _, t := range res.tasks {
		if sub, c, _, ok := parseSocketTask(t); ok && sub == agent.SOCKET_COMMAND_CONNECT {
			cc := c
			ct = &cc
		} else if !ok {
			r.Violate("conform/task-undecodable", "a socket task cannot be read the way the Demon reads it", detail)
			return
		}
	}
	if e.methodReply == nil {
		if ct != nil {
			r.Violate("conform/task-for-bad-greeting", "a CONNECT task was issued although the greeting is not SOCKS5", detail)
		}
		r.Outcome("conform/bad-greeting")
		return
	}
	if !bytes.HasPrefix(out, e.methodReply) {
		r.Violate(fmt.Sprintf("conform/method-reply/%s/want=%x", mode, e.methodReply), fmt.Sprintf("method selection reply is %s, RFC 1928 requires %x", hexs(out), e.methodReply), detail)
		return
	}
	rest := out[2:]
	if e.methodReply[1] == 0xff {
		if len(rest) != 0 || ct != nil {
			r.Violate("conform/after-no-acceptable-method", "the proxy went on after refusing all methods", detail)
		}
		r.Outcome("conform/no-acceptable-method")
		return
	}
	if e.nonConnect {
		if ct != nil {
			r.Violate("conform/task-for-non-connect", "a task was issued for a command other than CONNECT", detail)
			return
		}
		if len(rest) < 2 || rest[0] != 5 || rest[1] != 7 {
			r.Violate("conform/non-connect-reply/"+mode, fmt.Sprintf("reply to a non-CONNECT command is %s, want 05 07 …", hexs(rest)), detail)
			return
		}
		if len(rest) != 10 {
			r.Violate("conform/non-connect-reply-malformed", fmt.Sprintf("reply %s is not a well-formed 10-byte IPv4 reply", hexs(rest)), detail)
		}
		r.Outcome("conform/non-connect")
		return
	}
	if !e.task {
		if ct != nil {
			r.Violate("conform/task-for-invalid-request", "a CONNECT task was issued for an invalid request: "+q.String(), detail)
		}
		r.Outcome("conform/invalid-request")
		return
	}
	if ct == nil {
		r.Violate("conform/no-connect-task/"+mode+"/"+shape(q), fmt.Sprintf("valid CONNECT request (%s) delivered %s: no connect task reached the agent", q, mode), detail)
		return
	}
	if ct.atyp != q.atyp || !bytes.Equal(ct.addr, q.addr) || ct.port != q.port {
		r.Violate("conform/connect-task-fields/"+shape(q), fmt.Sprintf("connect task carries atyp=%d addr=%s port=%d, client asked %s", ct.atyp, hexs(ct.addr), ct.port, q), detail)
		return
	}
	want := []byte{5, repFor(ansCode, ansOK), 0, q.atyp}
	if q.atyp == 3 {
		want = append(want, byte(len(q.addr)))
	}
	want = append(want, q.addr...)
	want = append(want, byte(q.port>>8), byte(q.port))
	if !bytes.Equal(rest, want) {
		r.Violate(fmt.Sprintf("conform/final-reply/ok=%v/%s", ansOK, shape(q)), fmt.Sprintf("final reply is %s, want %s", hexs(rest), hexs(want)), detail)
		return
	}
	r.Outcome(fmt.Sprintf("conform/ok/atyp=%d/rep=%d/%s", q.atyp, want[1], mode))
}

func shape(q request) string {
	s := fmt.Sprintf("atyp=%d", q.atyp)
	if q.atyp == 3 {
		s += fmt.Sprintf("/dlen=%d", len(q.addr))
	}
	return s
}

func runConformance(r *ev.Run, shard, nshards int) {
	gs, qs := greetings(), requests()
	// the cases are dealt round-robin to the shards (one worker process each)
	k := 0
	mine := func() bool { k++; return nshards <= 1 || (k-1)%nshards == shard }
	answers := []struct {
		ok   bool
		code uint32
	}{{true, 0}, {false, 10060}, {false, 10061}, {false, 10065}, {false, 10051}, {false, 1}}
	n := 0
	// (a) greeting x request, reactive client, unchunked; all agent answers for valid requests
	for _, g := range gs {
		for qi, q := range qs {
			if g.ver == 5 && len(g.methods) == 1 && g.methods[0] == 0 || qi == 0 {
				as := answers
				if !reference(g, q).task {
					as = answers[:1]
				}
				for _, an := range as {
					an := an
					if !mine() {
						continue
					}
					res := runClient([][][]byte{{g.bytes()}, {q.bytes()}}, false, func(id uint32) *demonwire.Sub { s := cbConnect(id, an.ok, an.code); return &s }, nil, nil, "")
					n++
					detail := map[string]any{"greeting": hexs(g.bytes()), "request": q.String(), "delivery": "reactive, one segment per flight", "agent_answer": fmt.Sprintf("ok=%v code=%d", an.ok, an.code)}
					if liveness(r, res, "conform", detail) {
						checkConformance(r, g, q, "reactive", res, an.ok, an.code, detail)
					}
					if r.WantSample() && n%37 == 1 {
						r.Sample(detail)
					}
				}
			}
		}
	}
	// (b) every chunking into <=3 chunks of each flight (default greeting, every valid request shape)
	g := greeting{5, []byte{0, 2}}
	for _, q := range qs {
		if !reference(g, q).task {
			continue
		}
		for _, gc := range chunkings(g.bytes(), r.Thorough()) {
			for _, qc := range chunkings(q.bytes(), r.Thorough()) {
				if len(gc) > 1 && len(qc) > 1 && !r.Thorough() {
					continue // quick: chunk one flight at a time
				}
				if !mine() {
					continue
				}
				res := runClient([][][]byte{gc, qc}, false, func(id uint32) *demonwire.Sub { s := cbConnect(id, true, 0); return &s }, nil, nil, "")
				n++
				detail := map[string]any{"greeting_chunks": lens(gc), "request": q.String(), "request_chunks": lens(qc)}
				if liveness(r, res, "conform", detail) {
					checkConformance(r, g, q, "chunked", res, true, 0, detail)
				}
			}
		}
	}
	// (c) pipelining client: greeting and request in one segment; request and first payload in one segment
	for _, q := range qs {
		if !reference(g, q).task {
			continue
		}
		all := append(append([]byte{}, g.bytes()...), q.bytes()...)
		if !mine() {
			continue
		}
		res := runClient([][][]byte{{all}}, false, func(id uint32) *demonwire.Sub { s := cbConnect(id, true, 0); return &s }, nil, nil, "")
		n++
		detail := map[string]any{"request": q.String(), "delivery": "greeting and request pipelined in one segment"}
		if liveness(r, res, "conform", detail) {
			checkConformance(r, g, q, "pipelined", res, true, 0, detail)
		}
	}
	// (d) truncation at every byte offset (then EOF)
	for _, q := range []request{qs[0], {5, 1, 0, 3, addrFor(3, 2), 80}, {5, 1, 0, 4, addrFor(4, 0), 80}} {
		full := append(append([]byte{}, g.bytes()...), q.bytes()...)
		gl := len(g.bytes())
		for cut := 0; cut < len(full); cut++ {
			var fl [][][]byte
			if cut <= gl {
				fl = [][][]byte{{full[:cut]}}
			} else {
				fl = [][][]byte{{full[:gl]}, {full[gl:cut]}}
			}
			if cut == 0 {
				fl = nil
			}
			if !mine() {
				continue
			}
			res := runClient(fl, true, nil, nil, nil, "")
			n++
			detail := map[string]any{"request": q.String(), "truncated_after": cut, "of": len(full)}
			if !liveness(r, res, "trunc", detail) {
				continue
			}
			for _, t := range res.tasks {
				if sub, _, _, ok := parseSocketTask(t); ok && sub == agent.SOCKET_COMMAND_CONNECT {
					r.Violate("trunc/task", "a CONNECT task was issued for a truncated request", detail)
				}
			}
			if cut < gl && len(res.out) != 0 {
				r.Violate("trunc/reply-before-greeting-complete", fmt.Sprintf("reply %s to an incomplete greeting", hexs(res.out)), detail)
			}
			if len(res.out) > 2 {
				r.Violate("trunc/reply-beyond-negotiation", fmt.Sprintf("reply %s to a truncated request", hexs(res.out)), detail)
			}
			r.Outcome(fmt.Sprintf("trunc/out=%d", len(res.out)))
		}
	}
	r.Eval(n)
	r.Extra["conformance_executions"+shardTag(shard, nshards)] = n
}

func lens(c [][]byte) []int {
	var o []int
	for _, x := range c {
		o = append(o, len(x))
	}
	return o
}

// Integrity: after a successful CONNECT the bytes move intact in both directions and a
// close from either side removes the socket everywhere.
func runIntegrity(r *ev.Run) {
	g := greeting{5, []byte{0}}
	q := request{5, 1, 0, 3, []byte("example.org"), 443}
	msg := []byte("GET / HTTP/1.1\r\nHost: example.org\r\n\r\n\x00\xff\x01binary")
	down := []byte("HTTP/1.1 200 OK\r\n\r\n\x00\x80payload-from-target")
	n := 0
	for _, up := range chunkings(msg[:12], true) {
		for _, dn := range chunkings(down[:9], true) {
			for _, closeBy := range []string{"client", "agent", "client+late-poll", "agent+late-poll"} {
				if !r.Thorough() && len(up) > 1 && len(dn) > 1 {
					continue
				}
				if strings.HasSuffix(closeBy, "+late-poll") && len(up) == 1 {
					continue
				}
				res := runClient([][][]byte{{g.bytes()}, {q.bytes()}}, false, func(id uint32) *demonwire.Sub { s := cbConnect(id, true, 0); return &s }, up, dn, closeBy)
				n++
				detail := map[string]any{"up_chunks": lens(up), "down_chunks": lens(dn), "closed_by": closeBy}
				if !liveness(r, res, "relay", detail) {
					continue
				}
				var sid uint32
				var got []byte
				closes := 0
				for _, t := range res.tasks {
					sub, ct, data, ok := parseSocketTask(t)
					if !ok {
						r.Violate("relay/task-undecodable", "a socket task cannot be read the way the Demon reads it", detail)
						continue
					}
					switch sub {
					case agent.SOCKET_COMMAND_CONNECT:
						sid = ct.id
					case agent.SOCKET_COMMAND_WRITE:
						if ct.id != sid {
							r.Violate("relay/write-task-socket-id", fmt.Sprintf("write task carries socket id %x, the connection is %x", ct.id, sid), detail)
						}
						got = append(got, data...)
					case agent.SOCKET_COMMAND_CLOSE:
						if ct.id == sid {
							closes++
						}
					}
				}
				want := msg[:12]
				if !bytes.Equal(got, want) {
					r.Violate("relay/upstream-bytes", fmt.Sprintf("client wrote %q, write tasks carry %q", want, got), detail)
				}
				// everything after the 2-byte method reply and the connect reply is downstream data
				replyLen := 2 + 4 + 1 + len(q.addr) + 2
				if len(res.out) < replyLen || !bytes.Equal(res.out[replyLen:], down[:9]) {
					r.Violate("relay/downstream-bytes", fmt.Sprintf("agent returned %q, client received %q", down[:9], res.out[min(replyLen, len(res.out)):]), detail)
				}
				closeBy = strings.TrimSuffix(closeBy, "+late-poll")
				if res.sockCli != 0 {
					r.Violate("relay/socket-not-removed/closed-by-"+closeBy, fmt.Sprintf("after the %s closed, the socket is still in the agent's socks-client table", closeBy), detail)
				}
				if closeBy == "client" && closes == 0 {
					r.Violate("relay/agent-not-told/closed-by-client", "the client closed the connection but no close task was sent to the agent", detail)
				}
				if closeBy == "agent" && !res.closed {
					r.Violate("relay/client-conn-open/closed-by-agent", "the agent closed the socket but the client connection was left open", detail)
				}
				r.Outcome(fmt.Sprintf("relay/ok/up=%d/down=%d/%s", len(up), len(dn), closeBy))
				if r.WantSample() && n%11 == 3 {
					r.Sample(detail)
				}
			}
		}
	}
	r.Eval(n)
	r.Extra["integrity_executions"] = n
}

// Tables under concurrency: operator proxy commands, agent callbacks and the relay
// goroutine use the socket/proxy tables at the same time.
func runTables(r *ev.Run, only, shard, nshards int) {
	bound := 1
	if r.Thorough() {
		bound = 2
	}
	if v, err := strconv.Atoi(os.Getenv("VERIF_C15_BOUND")); err == nil {
		bound = v // experiments only
	}
	r.Bounds["preemption_bound"] = bound
	type scen struct {
		name    string
		proxies []string
		opCmd   [2]string
		full    bool // operator also lists the proxies, the agent also returns data
	}
	scens := []scen{
		{"1 proxy: agent connect/read/close | operator socks list + socks kill", []string{"1080"}, [2]string{"socks kill", "1080"}, true},
		{"2 proxies: agent connect/close | operator socks clear", []string{"1080", "1081"}, [2]string{"socks clear", ""}, false},
		{"1 proxy: agent connect/close | operator socks add (second proxy) + socks clear", []string{"1080"}, [2]string{"socks add", "1081"}, false},
	}
	var exec, points int64
	for si, sc := range scens {
		sc := sc
		if only >= 0 && si != only {
			continue
		}
		outcomes := map[string]bool{}
		dl := 60 * time.Second
		if d, err := time.ParseDuration(os.Getenv("VERIF_C15_DEADLINE")); err == nil {
			dl = d
		}
		if r.Thorough() {
			dl = 12 * time.Minute
		}
		t := explore.Tree{Bound: bound, Deadline: time.Now().Add(dl)}
		t.RunShard(shard, nshards, func(c *explore.Chooser) {
			se := newSess(c, 60000, "SocksCli", "SocksSvr", "Connected", "Conn")
			defer se.close()
			conn := fake.NewConn("client")
			var sid uint32
			ready := false
			se.s.SetExplore(false)
			se.s.Spawn("setup+agent", func() {
				for _, p := range sc.proxies {
					se.socksCmd("socks add", p)
				}
				se.s.Settle()
				se.lsts["0.0.0.0:"+sc.proxies[0]].Push(conn)
				conn.Feed([]byte{5, 1, 0})
				conn.Feed(request{5, 1, 0, 1, addrFor(1, 0), 80}.bytes())
				se.s.Settle()
				for _, t := range se.tasks() {
					if sub, ct, _, ok := parseSocketTask(t); ok && sub == agent.SOCKET_COMMAND_CONNECT {
						sid = ct.id
					}
				}
				// setup done: from here on every schedule is explored
				se.s.SetExplore(true)
				ready = true
				// the agent: connect ok, some data, close
				se.tasks(cbConnect(sid, true, 0))
				if sc.full || (r.Thorough() && si < 2) {
					se.tasks(cbRead(sid, []byte("data")))
				}
				se.tasks(cbClose(sid))
			})
			se.s.Spawn("operator", func() {
				se.s.Block("operator waits for the setup", func() bool { return ready })
				if sc.full || (r.Thorough() && si < 2) {
					se.socksCmd("socks list", "")
				}
				se.socksCmd(sc.opCmd[0], sc.opCmd[1])
				if sc.opCmd[0] == "socks add" {
					se.socksCmd("socks clear", "")
				}
			})
			if sc.full || (r.Thorough() && si < 2) {
				se.s.Spawn("client", func() {
					se.s.Block("client waits for the setup", func() bool { return ready })
					conn.Feed([]byte("hello"))
					conn.ClosePeer()
				})
			}
			se.s.Run()
			se.s.Panics = append(se.s.Panics, se.reqFaults...)
			benign := se.s.Deadlock && se.s.BlockedOnly("accept ", "read ")
			// what the operator's own last command left behind, before the harness cleans up:
			// after "socks clear" no proxy may be left in the table or listening
			var afterClear []string
			if sc.opCmd[0] != "socks kill" {
				for _, s := range se.a.SocksSvr {
					afterClear = append(afterClear, s.Addr)
				}
			}
			if benign || (!se.s.Deadlock && !se.s.HorizonHit && len(se.s.Panics) == 0) {
				// quiescent: now close whatever is left, sequentially (no scheduler installed)
				se.socksCmd("socks clear", "")
				se.tasks(cbClose(sid))
			}
			var svr []string
			for _, s := range se.a.SocksSvr {
				svr = append(svr, s.Addr)
			}
			obs := fmt.Sprintf("svr=%v cli=%d", svr, len(se.a.SocksCli))
			if pat := os.Getenv("VERIF_C15_TRACE"); pat != "" {
				for i, e := range se.s.Trace {
					if strings.Contains(e, pat) && i+1 < len(se.s.Trace) && !strings.HasPrefix(se.s.Trace[i+1], strings.SplitN(e, ":", 2)[0]+":") {
						fmt.Fprintln(os.Stderr, "TRACE", c.Choices(), strings.Join(se.s.Trace[i:], " | "))
						break
					}
				}
			}
			outcomes[obs] = true
			detail := map[string]any{"scenario": sc.name, "choices": c.Choices(), "schedule_tail": tail(se.s.Trace, 40)}
			switch {
			case len(se.s.Panics) > 0:
				r.Violate("tables/panic/"+ev.Normalize(se.s.Panics[0]), se.s.Panics[0], detail)
			case se.s.Deadlock && !benign:
				r.Violate("tables/deadlock/"+lockOf(se.s.DeadlockWhy), se.s.DeadlockWhy, detail)
			case se.s.HorizonHit:
				r.Violate("tables/livelock", "threads still spinning at the horizon", detail)
			case len(se.s.Held()) > 0:
				r.Violate("tables/lock-held", fmt.Sprint(se.s.Held()), detail)
			case !mutexesFree(se.a):
				r.Violate("tables/lock-held", "an agent table mutex is still locked after the run", detail)
			case len(afterClear) > 0 && (benign || !se.s.Deadlock):
				r.Violate("tables/proxy-survives-clear", fmt.Sprintf("the operator's socks clear has returned, the proxy table still holds %v", afterClear), detail)
			case openListeners(se) != "":
				r.Violate("tables/listener-outlives-proxy", "every proxy was cleared, but the listener on "+openListeners(se)+" is still open (accepting connections for a proxy that is in no table)", detail)
			case len(se.a.SocksSvr) != 0 || len(se.a.SocksCli) != 0:
				r.Violate("tables/leftover", fmt.Sprintf("after every proxy was cleared and every socket closed the tables hold %s", obs), detail)
			}
			if r.WantSample() && len(c.Choices()) > 3 && c.Choices()[2] != 0 {
				r.Sample(map[string]any{"scenario": sc.name, "choices": c.Choices(), "observed": obs})
			}
		})
		if t.Err != nil {
			r.Violate("harness/nondeterminism", t.Err.Error(), nil)
		}
		if t.Capped {
			r.NotExhaustive(fmt.Sprintf("table scenario %d%s stopped by the internal deadline after %d executions", si, shardTag(shard, nshards), t.Executions))
		}
		exec += t.Executions
		points += t.Points
		for o := range outcomes {
			r.Outcome(fmt.Sprintf("tables%d/%s", si, o))
		}
		r.Extra[fmt.Sprintf("tables_scenario_%d", si)+shardTag(shard, nshards)] = map[string]any{"name": sc.name, "executions": t.Executions, "choice_points": t.Points}
	}
	r.Eval(int(exec))
	r.AddStates(points, points, exec)
}

// openListeners names the scripted listeners that are still open although their proxy
// is in no table any more.
func openListeners(se *sess) string {
	inTable := map[string]bool{}
	for _, s := range se.a.SocksSvr {
		inTable["0.0.0.0:"+s.Addr] = true
	}
	var open []string
	for addr, l := range se.lsts {
		if !inTable[addr] && !l.Closed() {
			open = append(open, addr)
		}
	}
	sort.Strings(open)
	return strings.Join(open, ",")
}

func mutexesFree(a *agent.Agent) bool {
	ok := true
	if a.SocksSvrMtx.TryLock() {
		a.SocksSvrMtx.Unlock()
	} else {
		ok = false
	}
	if a.SocksCliMtx.TryLock() {
		a.SocksCliMtx.Unlock()
	} else {
		ok = false
	}
	if a.PortFwdsMtx.TryLock() {
		a.PortFwdsMtx.Unlock()
	} else {
		ok = false
	}
	return ok
}

func shardTag(shard, n int) string {
	if n <= 1 {
		return ""
	}
	return fmt.Sprintf("/shard_%d_of_%d", shard, n)
}

func lockOf(why string) string {
	for _, m := range []string{"SocksSvrMtx", "SocksCliMtx", "PortFwdsMtx", "JobsMtx"} {
		if strings.Contains(why, m) {
			return m
		}
	}
	if i := strings.Index(why, "locked at "); i >= 0 {
		s := why[i+10:]
		if j := strings.IndexAny(s, ";"); j >= 0 {
			s = s[:j]
		}
		return ev.Normalize(s)
	}
	return "?"
}

func tail(s []string, n int) []string {
	if len(s) > n {
		return s[len(s)-n:]
	}
	return s
}

func Run(r *ev.Run) {
	r.Rule = "(1) RFC 1928 conformance: greetings x requests x agent answers; every chunking of each client flight into <=3 segments; pipelined delivery; truncation at every byte; each run executes the real accept loop, handler, relay goroutine and COMMAND_SOCKET callbacks under the controlled scheduler and is judged by a reference automaton; (2) relay integrity for every chunking of upstream/downstream data and both closing sides; (3) every schedule within the preemption bound of agent callbacks | operator proxy commands | client | relay on the socket/proxy tables. distinct = outcome classes"
	r.Assume("the TCP listener and client are scripted in-memory doubles (net.Listen/net.Dial are redirected by the instrumenter in pkg/socks and pkg/agent)",
		"reverse port-forward data path (real outbound dial) is not exercised; its table operations are")
	if os.Getenv("VERIF_RACE_PASS") != "" {
		runFree(r)
		return
	}
	if !vsched.Instrumented {
		r.Violate("harness/not-instrumented", "C15 needs the sched build", nil)
		return
	}
	// work items, one worker process each (the net hooks and the teamserver globals are per
	// process): conformance, integrity, and the schedule trees of the table scenarios, each
	// tree split into shards (explore.Tree.RunShard) - 1 shard per classic scenario in quick
	// and 4 in thorough, 4 / 8 for the two-handshakes scenario, 1 / 4 for the three-clients one
	ts := 1
	if r.Thorough() {
		ts = 4
	}
	type item func(r *ev.Run)
	// the conformance product runs one case after the other (about half an hour in the
	// thorough tier in one process): four shards there
	cs := 1
	if r.Thorough() {
		cs = 4
	}
	items := []item{func(r *ev.Run) { runIntegrity(r); runPortFwdTable(r) }}
	for k := 0; k < cs; k++ {
		k := k
		items = append(items, func(r *ev.Run) { runConformance(r, k, cs) })
	}
	for sc := 0; sc < 3; sc++ {
		for k := 0; k < ts; k++ {
			sc, k := sc, k
			items = append(items, func(r *ev.Run) { runTables(r, sc, k, ts) })
		}
	}
	for k := 0; k < ts; k++ {
		k := k
		items = append(items, func(r *ev.Run) { runTablesThreeClients(r, k, ts) })
	}
	hs := 4
	if r.Thorough() {
		hs = 8 // bound 2 on the narrow focus is ~1.8 M executions: eight shards keep each under the deadline on a busy machine
	}
	for k := 0; k < hs; k++ {
		k := k
		items = append(items, func(r *ev.Run) { runTablesTwoHandshakes(r, k, hs, false) })
	}
	if r.Thorough() {
		for k := 0; k < 4; k++ {
			k := k
			items = append(items, func(r *ev.Run) { runTablesTwoHandshakes(r, k, 4, true) })
		}
	}
	hh := 4
	if r.Thorough() {
		hh = 8
	}
	for k := 0; k < hh; k++ {
		k := k
		items = append(items, func(r *ev.Run) { runSocksHistories(r, k, hh) })
	}
	r.Bounds["work_items"] = len(items)
	par.Run(r, len(items), 30*time.Minute, func(i, n int, r *ev.Run) {
		if n == 1 {
			runConformance(r, 0, 1)
			runIntegrity(r)
			runPortFwdTable(r)
			runTables(r, -1, 0, 1)
			runTablesThreeClients(r, 0, 1)
			runTablesTwoHandshakes(r, 0, 1, false)
			runSocksHistories(r, 0, 1)
			return
		}
		items[i](r)
	})
	_ = seam.Quiet
}
