package c15

import (
	"fmt"
	"sort"
	"strings"

	"Havoc/pkg/agent"

	"verifmc/demonwire"
	"verifmc/ev"
	"verifmc/explore"
)

// Part 4: the reverse-port-forward table.  The agent reports a connection to one of its
// forwarded ports (SOCKET_COMMAND_OPEN), that it is gone again (RPORTFWD_REMOVE), and -
// late - data for a socket that is gone.  Explicit-state search over every history of
// these callbacks for two socket ids up to the depth bound, each replayed on a fresh
// teamserver: after every callback the table holds exactly the sockets that were opened
// and not removed, and data for a socket that is not in the table dials nothing.
func runPortFwdTable(r *ev.Run) {
	type op struct {
		kind string
		id   uint32
	}
	ids := []uint32{0x5eed0001, 0x5eed0002}
	var alpha []op
	for _, id := range ids {
		alpha = append(alpha, op{"open", id}, op{"remove", id}, op{"late-data", id})
	}
	depth := 4
	if r.Thorough() {
		depth = 6
	}
	r.Bounds["portfwd_history_depth"] = depth
	open := func(id uint32) demonwire.Sub {
		w := &demonwire.W{}
		w.I32(agent.SOCKET_COMMAND_OPEN).I32(id).I32(0x0100007f).I32(4444).I32(0x0100007f).I32(80)
		return demonwire.Sub{Cmd: agent.COMMAND_SOCKET, Body: w.B}
	}
	remove := func(id uint32) demonwire.Sub {
		w := &demonwire.W{}
		w.I32(agent.SOCKET_COMMAND_RPORTFWD_REMOVE).I32(id).I32(agent.SOCKET_TYPE_REVERSE_PORTFWD).I32(0x0100007f).I32(4444).I32(0x0100007f).I32(80)
		return demonwire.Sub{Cmd: agent.COMMAND_SOCKET, Body: w.B}
	}
	data := func(id uint32) demonwire.Sub {
		w := &demonwire.W{}
		w.I32(agent.SOCKET_COMMAND_READ).I32(id).I32(agent.SOCKET_TYPE_REVERSE_PORTFWD).I32(1).Bytes([]byte("late bytes"))
		return demonwire.Sub{Cmd: agent.COMMAND_SOCKET, Body: w.B}
	}
	b := explore.BFS{MaxDepth: depth}
	b.Run(func(hist []int) explore.StepResult {
		se := newSess(&explore.Chooser{}, 1000)
		defer se.close()
		model := map[uint32]bool{}
		var names []string
		for i, oi := range hist {
			o := alpha[oi]
			names = append(names, fmt.Sprintf("%s(%x)", o.kind, o.id))
			dials := len(se.dials)
			switch o.kind {
			case "open":
				se.tasks(open(o.id))
				model[o.id] = true
			case "remove":
				se.tasks(remove(o.id))
				delete(model, o.id)
			case "late-data":
				se.tasks(data(o.id))
			}
			if i != len(hist)-1 {
				continue
			}
			r.Eval(1)
			var want, got []string
			for id := range model {
				want = append(want, fmt.Sprintf("%x", id))
			}
			for _, p := range se.a.PortFwds {
				got = append(got, fmt.Sprintf("%x", uint32(p.SocktID)))
			}
			sort.Strings(want)
			sort.Strings(got)
			detail := map[string]any{"history": names, "table": got, "opened_and_not_removed": want}
			switch {
			case len(se.reqFaults) > 0:
				r.Violate("portfwd/panic/"+ev.Normalize(se.reqFaults[0]), se.reqFaults[0], detail)
				return explore.StepResult{}
			case strings.Join(want, ",") != strings.Join(got, ","):
				r.Violate("portfwd/table/after:"+o.kind, fmt.Sprintf("after %v the forward table holds %v, opened and not removed are %v", names, got, want), detail)
				return explore.StepResult{}
			case o.kind == "late-data" && len(se.dials) != dials:
				r.Violate("portfwd/data-for-removed-socket-dials", fmt.Sprintf("data for socket %x, which is not in the table, made the teamserver dial %v", o.id, se.dials[dials:]), detail)
				return explore.StepResult{}
			}
			r.Outcome("portfwd/ok/" + o.kind)
		}
		var key []string
		for id := range model {
			key = append(key, fmt.Sprintf("%x", id))
		}
		sort.Strings(key)
		var en []int
		for i, o := range alpha {
			if o.kind == "late-data" && model[o.id] {
				continue // data for a live forward starts the (unmodelled) data path
			}
			en = append(en, i)
		}
		return explore.StepResult{Key: strings.Join(key, ","), Enabled: en, OK: true}
	})
	r.AddStates(b.States, b.Transitions, b.Transitions)
	r.Extra["portfwd_table"] = map[string]any{"states": b.States, "transitions": b.Transitions, "depth": b.Depth, "fixpoint": b.Fixpoint}
}
