package c15

import (
	"fmt"
	"net"
	"sort"
	"strings"
	"time"

	"Havoc/pkg/agent"

	"verifmc/ev"
	"verifmc/explore"
	"verifmc/fake"
	"verifmc/vnet"
)

// runSocksHistories: every sequence of up to <depth> operator / client / agent operations
// on the proxy tables, executed one after the other (no concurrency: each operation runs to
// quiescence before the next), on the real accept loop, handler, relay goroutines and
// COMMAND_SOCKET callbacks.  After every operation the tables are compared with a model:
//
//   - the proxy table holds exactly the proxies added and not killed / cleared, and only
//     those listen;
//   - the socket table holds exactly the clients that connected and were closed by nobody;
//     their connections are open, every other connection is closed;
//   - the agent is told to close a socket when the teamserver side closed it (the client
//     went away, or the operator killed / cleared its proxy), once, and never about a
//     socket that stays (a repeated notice about a socket that is long closed is allowed:
//     the Demon ignores an id it does not know).
//
// The concurrent scenarios start from a fresh proxy; this part reaches the states they do
// not: proxies whose client list still names sockets that are long gone.
func runSocksHistories(r *ev.Run, shard, nshards int) {
	depth := 5
	if r.Thorough() {
		depth = 6
	}
	r.Bounds["socks_history_depth"] = depth
	ops := []string{"socks add 1080", "client connects to 1080", "oldest open client goes away", "agent closes the newest open socket", "socks kill 1080", "socks clear", "socks list", "socks add 1081"}
	r.Bounds["socks_history_operations"] = ops
	dl := 90 * time.Second
	if r.Thorough() {
		dl = 12 * time.Minute
	}
	type mcli struct {
		id   uint32
		conn *fake.Conn
		open bool
		name string
	}
	outcomes := map[string]bool{}
	zero := make([]int, len(ops))
	t := explore.Tree{Bound: 0, Deadline: time.Now().Add(dl)}
	t.RunShard(shard, nshards, func(c *explore.Chooser) {
		se := newSess(c, 200000, "SocksCli", "SocksSvr")
		defer se.close()
		se.s.SetExplore(false)
		// a port that is listened on cannot be listened on again
		vnet.ListenHook = func(network, addr string) (net.Listener, error) {
			if l := se.lsts[addr]; l != nil && !l.Closed() {
				return nil, fmt.Errorf("listen %s: address already in use", addr)
			}
			l := &fake.Listener{Addr_: addr}
			se.lsts[addr] = l
			return l, nil
		}
		proxies := map[string]bool{}
		var clis []*mcli
		var hist []string
		bad, sig := "", ""
		fail := func(s, what string) {
			if bad == "" {
				sig, bad = s, what
			}
		}
		// judge compares the tables with the model; wantClose = the sockets the agent must be
		// told about by the tasks queued since the last judgement
		judge := func(op string, wantClose map[uint32]bool) {
			got := map[uint32]int{}
			for _, tk := range se.tasks() {
				sub, ct, _, ok := parseSocketTask(tk)
				if !ok {
					continue
				}
				if sub == agent.SOCKET_COMMAND_CLOSE {
					got[ct.id]++
				}
			}
			for id, n := range got {
				if !wantClose[id] {
					// telling the agent again about a socket that is long closed is redundant, not
					// wrong (the Demon ignores an id it does not know); closing one that stays is
					stays, known := false, false
					for _, m := range clis {
						if m.id == id {
							known, stays = true, m.open
						}
					}
					if stays || !known {
						fail("history/close-task-for-a-socket-nobody-closed", fmt.Sprintf("after %q the agent is told to close socket %08x, which the teamserver side did not close", op, id))
					}
				} else if n != 1 {
					fail("history/close-task-repeated", fmt.Sprintf("after %q the agent is told %d times to close socket %08x", op, n, id))
				}
			}
			for id := range wantClose {
				if got[id] == 0 {
					fail("history/closed-socket-agent-not-told", fmt.Sprintf("after %q socket %08x is closed on the teamserver side but the agent was not told to close it", op, id))
				}
			}
			var svr []string
			for _, s := range se.a.SocksSvr {
				svr = append(svr, strings.TrimPrefix(s.Addr, "0.0.0.0:"))
			}
			sort.Strings(svr)
			var want []string
			for p := range proxies {
				want = append(want, p)
			}
			sort.Strings(want)
			if fmt.Sprint(svr) != fmt.Sprint(want) {
				fail("history/proxy-table", fmt.Sprintf("after %q the proxy table holds %v, the proxies added and not removed are %v", op, svr, want))
			}
			for addr, l := range se.lsts {
				if port := strings.TrimPrefix(addr, "0.0.0.0:"); !proxies[port] && !l.Closed() {
					fail("history/listener-outlives-proxy", fmt.Sprintf("after %q the listener on %s is still open, its proxy is in no table", op, addr))
				}
			}
			inTable := map[uint32]int{}
			for _, cl := range se.a.SocksCli {
				inTable[uint32(cl.SocketID)]++
			}
			for _, m := range clis {
				switch {
				case m.open && inTable[m.id] != 1:
					fail("history/open-socket-not-listed", fmt.Sprintf("after %q client %s (socket %08x), which nobody closed, is %d times in the socket table", op, m.name, m.id, inTable[m.id]))
				case m.open && m.conn.Closed:
					fail("history/open-socket-connection-closed", fmt.Sprintf("after %q the connection of client %s, which nobody closed, is closed", op, m.name))
				case !m.open && inTable[m.id] != 0:
					fail("history/closed-socket-still-listed", fmt.Sprintf("after %q socket %08x of client %s is closed but still in the socket table: it keeps relaying", op, m.id, m.name))
				case !m.open && !m.conn.Closed:
					fail("history/closed-socket-connection-open", fmt.Sprintf("after %q socket %08x of client %s was closed but its connection is still open", op, m.id, m.name))
				}
				delete(inTable, m.id)
			}
			if len(inTable) > 0 {
				fail("history/unknown-socket-listed", fmt.Sprintf("after %q the socket table holds sockets no client owns", op))
			}
			if !mutexesFree(se.a) {
				fail("history/lock-held", fmt.Sprintf("after %q an agent table mutex is still locked", op))
			}
		}
		se.s.Spawn("driver", func() {
			for step := 0; step < depth && bad == ""; step++ {
				op := c.ChooseCost(len(ops), "operation", zero)
				hist = append(hist, ops[op])
				wantClose := map[uint32]bool{}
				closeAllOf := func() {
					for _, m := range clis {
						if m.open {
							m.open = false
							wantClose[m.id] = true
						}
					}
				}
				switch op {
				case 0, 7:
					port := []string{"1080", "1081"}[op/7]
					se.socksCmd("socks add", port)
					proxies[port] = true
				case 1:
					l := se.lsts["0.0.0.0:1080"]
					if !proxies["1080"] || l == nil || l.Closed() {
						continue
					}
					m := &mcli{conn: fake.NewConn(fmt.Sprintf("c%d", len(clis))), name: fmt.Sprintf("#%d", len(clis)+1)}
					l.Push(m.conn)
					m.conn.Feed([]byte{5, 1, 0})
					m.conn.Feed(request{5, 1, 0, 1, addrFor(1, 0), uint16(100 + len(clis))}.bytes())
					se.s.Settle()
					for _, tk := range se.tasks() {
						if sub, ct, _, ok := parseSocketTask(tk); ok && sub == agent.SOCKET_COMMAND_CONNECT && int(ct.port) == 100+len(clis) {
							m.id = ct.id
						}
					}
					if m.id == 0 {
						fail("history/no-connect-task", fmt.Sprintf("client %s completed its SOCKS request, the agent got no CONNECT task", m.name))
						return
					}
					se.tasks(cbConnect(m.id, true, 0))
					m.open = true
					clis = append(clis, m)
				case 2:
					for _, m := range clis {
						if m.open {
							m.conn.ClosePeer()
							m.open = false
							wantClose[m.id] = true
							break
						}
					}
				case 3:
					for i := len(clis) - 1; i >= 0; i-- {
						if m := clis[i]; m.open {
							se.tasks(cbClose(m.id))
							m.open = false
							break
						}
					}
				case 4:
					se.socksCmd("socks kill", "1080")
					if proxies["1080"] {
						delete(proxies, "1080")
						closeAllOf() // every client is a client of 1080
					}
				case 5:
					se.socksCmd("socks clear", "")
					if len(proxies) > 0 {
						closeAllOf()
					}
					proxies = map[string]bool{}
				case 6:
					se.socksCmd("socks list", "")
				}
				se.s.Settle()
				judge(ops[op], wantClose)
			}
		})
		se.s.Run()
		se.s.Panics = append(se.s.Panics, se.reqFaults...)
		benign := se.s.Deadlock && se.s.BlockedOnly("accept ", "read ")
		detail := map[string]any{"history": hist, "choices": c.Choices()}
		switch {
		case len(se.s.Panics) > 0:
			r.Violate("history/panic/"+ev.Normalize(se.s.Panics[0]), se.s.Panics[0], detail)
		case se.s.Deadlock && !benign:
			r.Violate("history/deadlock/"+lockOf(se.s.DeadlockWhy), se.s.DeadlockWhy, detail)
		case se.s.HorizonHit:
			r.Violate("history/livelock", "threads still spinning at the horizon", detail)
		case bad != "":
			r.Violate(sig, bad, detail)
		}
		n := 0
		for _, m := range clis {
			if m.open {
				n++
			}
		}
		outcomes[fmt.Sprintf("proxies=%d open=%d closed=%d", len(proxies), n, len(clis)-n)] = true
		// clean up outside the judgement
		se.socksCmd("socks clear", "")
	})
	if t.Err != nil {
		r.Violate("harness/nondeterminism", t.Err.Error(), nil)
	}
	if t.Capped {
		r.NotExhaustive(fmt.Sprintf("socks histories%s stopped by the internal deadline after %d executions", shardTag(shard, nshards), t.Executions))
	}
	for o := range outcomes {
		r.Outcome("history/" + o)
	}
	r.Extra["socks_histories"+shardTag(shard, nshards)] = map[string]any{"depth": depth, "operations": len(ops), "executions": t.Executions}
	r.Eval(int(t.Executions))
	r.AddStates(t.Points, t.Points, t.Executions)
}
