// Package seam builds a real, in-process Havoc teamserver (real server.Teamserver, real
// SQLite file, real loot directory in a temp root) and drives it through the
// narrowest real entry points: the HTTP listener's gin engine, External.Request,
// DispatchEvent.  A recording wrapper around the agent.TeamServer interface observes
// every effect of a callback.
package seam

import (
	"bytes"
	"database/sql"
	"encoding/json"
	"fmt"
	"io"
	"net/http"
	"net/http/httptest"
	"os"
	"path/filepath"
	"sort"
	"strconv"
	"strings"
	"time"

	"Havoc/cmd/server"
	"Havoc/pkg/agent"
	"Havoc/pkg/db"
	"Havoc/pkg/handlers"
	"Havoc/pkg/logger"
	"Havoc/pkg/logr"
	"Havoc/pkg/packager"
	"Havoc/pkg/profile"
	"Havoc/pkg/service"
	"Havoc/pkg/webhook"

	"github.com/gin-gonic/gin"

	"verifmc/demonwire"
	"verifmc/ev"
)

func init() {
	gin.SetMode(gin.ReleaseMode)
	gin.DefaultWriter = io.Discard
	gin.DefaultErrorWriter = io.Discard
	Quiet()
}

// Quiet silences the repository's logger.
func Quiet() { logger.SetStdOut(io.Discard) }

type Options struct {
	Service    bool // profile has a Service block (t.Service != nil)
	SendLogs   bool
	OtherFlags bool // --debug, --debug-dev, --verbose, --default all switched on
	TrustXFF   bool
	HTTPConfig *handlers.HTTPConfig
	Operators  []profile.UsersBlock
	NoDB       bool
}

type TS struct {
	T    *server.Teamserver
	Rec  *Recorder
	HTTP *handlers.HTTP
	Root string
	Loot string
}

// BaseTmp returns the scratch base directory.
func BaseTmp() string {
	if d := os.Getenv("TMPDIR"); d != "" {
		return d
	}
	if st, err := os.Stat("/dev/shm"); err == nil && st.IsDir() {
		return "/dev/shm"
	}
	return os.TempDir()
}

// New builds a fresh teamserver under a fresh temp root.  Close removes it.
func New(o Options) *TS {
	root, err := os.MkdirTemp(BaseTmp(), "verif-ts-")
	if err != nil {
		panic(err)
	}
	ts := &TS{Root: root}
	t := &server.Teamserver{}
	if !o.NoDB {
		d, err := db.DatabaseNew(filepath.Join(root, "ts.db"))
		if err != nil {
			panic(err)
		}
		t.DB = d
	}
	ops := o.Operators
	if ops == nil {
		ops = []profile.UsersBlock{{Name: "op1", Password: "pw1"}, {Name: "op2", Password: "pw2"}}
	}
	t.Profile = &profile.Profile{Config: profile.HavocConfig{
		Server:    &profile.ServerProfile{Host: "127.0.0.1", Port: 40056},
		Operators: &profile.OperatorsBlock{Users: ops},
		Demon:     &profile.Demon{Sleep: 2, Jitter: 15, TrustXForwardedFor: o.TrustXFF},
	}}
	t.Flags.Server.SendLogs = o.SendLogs
	if o.OtherFlags {
		t.Flags.Server.Debug, t.Flags.Server.DebugDev, t.Flags.Server.Verbose, t.Flags.Server.Default = true, true, true, true
	}
	// Start() always creates the webhook object (without a Discord URL it posts nothing):
	// AgentAdd then serialises every new session with ToMap, as in the running server
	t.WebHooks = webhook.NewWebHook()
	t.Server.Engine = gin.New()
	t.Listeners = []*server.Listener{}
	if o.Service {
		t.Profile.Config.Service = &profile.ServiceConfig{Endpoint: "svc", Password: "svcpw"}
		t.Service = service.NewService(t.Server.Engine)
		t.Service.Teamserver = t
		t.Service.Data.ServerAgents = &t.Agents
		t.Service.Config = *t.Profile.Config.Service
	}
	// loot tree: <root>/w/loot (the listing covers <root>)
	ts.Loot = filepath.Join(root, "w", "loot")
	logr.LogrInstance = logr.NewLogr(filepath.Join(root, "w"), ts.Loot)
	if logr.LogrInstance == nil {
		panic("logr")
	}
	logr.LogrInstance.LogrSendText = func(string) {}
	ts.T = t
	ts.Rec = &Recorder{T: t}
	cfg := handlers.HTTPConfig{Name: "http", Hosts: []string{"127.0.0.1"}, HostBind: "127.0.0.1", PortBind: "0", BehindRedir: o.TrustXFF}
	if o.HTTPConfig != nil {
		cfg = *o.HTTPConfig
	}
	ts.HTTP = NewHTTP(cfg, ts.Rec)
	return ts
}

// NewHTTP returns an HTTP listener object with the real routes registered on its gin
// engine (as Start does) but without binding a socket.
func NewHTTP(cfg handlers.HTTPConfig, t agent.TeamServer) *handlers.HTTP {
	h := handlers.NewConfigHttp()
	h.Config = cfg
	h.Teamserver = t
	h.GinEngine.POST("/*endpoint", h.VerifRequest)
	h.GinEngine.GET("/*endpoint", h.VerifFake404)
	h.Active = true
	return h
}

func (ts *TS) Close() {
	for _, a := range ts.T.Agents.Agents {
		for _, d := range a.Downloads {
			if d != nil && d.File != nil {
				d.File.Close()
			}
		}
	}
	if ts.T.DB != nil {
		ts.T.DB.VerifClose()
	}
	os.RemoveAll(ts.Root)
}

// Result of one request through the listener.
type Result struct {
	Status int
	Body   []byte
	Header http.Header
	Panic  any
	Stack  string
}

// Post sends body to the HTTP listener's engine as a POST.
func (ts *TS) Post(body []byte) Result {
	req := httptest.NewRequest("POST", "/", bytes.NewReader(body))
	req.RemoteAddr = "10.9.8.7:5555"
	return Serve(ts.HTTP.GinEngine, req)
}

// notePanic reports a recovered handler panic to the evidence layer (the controlled
// scheduler's teardown signal is not a panic of the code under test).
func notePanic(where string, p any, stack string) {
	if strings.Contains(fmt.Sprintf("%T", p), "abortT") {
		return
	}
	ev.NotePanic(where, p, stack)
}

// Serve runs one request through a gin engine, recovering a panic of the handler.
func Serve(e *gin.Engine, req *http.Request) (res Result) {
	rec := httptest.NewRecorder()
	defer func() {
		if p := recover(); p != nil {
			res.Panic = p
			res.Stack = StackTop()
			notePanic("http", p, res.Stack)
		}
	}()
	e.ServeHTTP(rec, req)
	res.Status = rec.Code
	res.Body = rec.Body.Bytes()
	res.Header = rec.Header()
	return res
}

// External sends body to an External-C2 listener's Request handler.
func External(e *handlers.External, body []byte) (res Result) {
	rec := httptest.NewRecorder()
	ctx, _ := gin.CreateTestContext(rec)
	ctx.Request = httptest.NewRequest("POST", "/"+e.Config.Endpoint, bytes.NewReader(body))
	ctx.Request.RemoteAddr = "10.9.8.7:5555"
	defer func() {
		if p := recover(); p != nil {
			res.Panic = p
			res.Stack = StackTop()
			notePanic("external", p, res.Stack)
		}
	}()
	e.Request(ctx)
	res.Status = rec.Code
	if ctx.Writer.Status() != 0 {
		res.Status = ctx.Writer.Status()
	}
	res.Body = rec.Body.Bytes()
	return res
}

// Keys used by the harness agents.
func Key(n byte) []byte {
	k := make([]byte, 32)
	if n == 0 {
		return k
	}
	for i := range k {
		k[i] = n*16 + byte(i)
	}
	return k
}
func IV(n byte) []byte {
	v := make([]byte, 16)
	if n == 0 {
		return v
	}
	for i := range v {
		v[i] = n*7 + byte(i)*3
	}
	// indexes 0xf1.. are the IVs at which the 128-bit big-endian block counter carries
	// out of its low bytes within the first blocks of a body
	switch n {
	case 0xf1: // the low word wraps after the first block
		copy(v[12:], []byte{0xff, 0xff, 0xff, 0xff})
	case 0xf2: // ... after 16 blocks
		copy(v[12:], []byte{0xff, 0xff, 0xff, 0xf0})
	case 0xf3: // the whole counter wraps to zero
		for i := range v {
			v[i] = 0xff
		}
	case 0xf4: // the carry runs through the low half
		for i := 8; i < 16; i++ {
			v[i] = 0xff
		}
	case 0xf5: // the carry leaves the last byte only
		v[15] = 0xff
	}
	return v
}

// Register registers agent id with key index k through the listener and returns the result.
func (ts *TS) Register(id uint32, k byte) Result {
	return ts.Post(demonwire.Register(id, Key(k), IV(k), demonwire.DefaultMeta(id)))
}

// MustRegister registers and panics if the teamserver did not create the session.
func (ts *TS) MustRegister(id uint32, k byte) *agent.Agent {
	r := ts.Register(id, k)
	a := ts.Agent(id)
	if r.Panic != nil || r.Status != 200 || a == nil {
		panic(fmt.Sprintf("seam: registration of %08x failed: status=%d panic=%v", id, r.Status, r.Panic))
	}
	return a
}

func (ts *TS) Agent(id uint32) *agent.Agent {
	for _, a := range ts.T.Agents.Agents {
		if a.NameID == fmt.Sprintf("%08x", id) {
			return a
		}
	}
	return nil
}

// CheckIn posts a GET_JOB package with the given callbacks and decodes the reply.
func (ts *TS) CheckIn(id uint32, k byte, subs ...demonwire.Sub) (Result, []demonwire.Task, error) {
	r := ts.Post(demonwire.CheckIn(id, Key(k), IV(k), subs...))
	if r.Panic != nil || r.Status != 200 {
		return r, nil, nil
	}
	tasks, err := demonwire.ReadTasks(r.Body, Key(k), IV(k))
	return r, tasks, err
}

// Task queues an operator command for agent id through DispatchEvent (Session.Input).
func (ts *TS) Task(id uint32, taskID string, commandID int, info map[string]any) (p any) {
	m := map[string]any{"DemonID": fmt.Sprintf("%08x", id), "TaskID": taskID, "CommandID": strconv.Itoa(commandID), "CommandLine": "verif"}
	for k, v := range info {
		m[k] = v
	}
	pk := packager.Package{Head: packager.Head{Event: packager.Type.Session.Type, User: "op1"},
		Body: packager.Body{SubEvent: packager.Type.Session.Input, Info: m}}
	defer func() {
		if x := recover(); x != nil {
			p = x
		}
	}()
	ts.T.DispatchEvent(pk)
	return nil
}

// ---------------------------------------------------------------------------
// Snapshot of everything a rejected request must leave untouched.

type Snapshot struct {
	Agents []AgentSnap         `json:"agents"`
	DB     map[string][]string `json:"db,omitempty"`
	Files  []string            `json:"files"`
}

type AgentSnap struct {
	ID        string   `json:"id"`
	Active    bool     `json:"active"`
	Reason    string   `json:"reason,omitempty"`
	Queue     []string `json:"queue"`
	Tasks     []string `json:"tasks"`
	Downloads []string `json:"downloads"`
	Parent    string   `json:"parent,omitempty"`
	Links     []string `json:"links"`
	Info      string   `json:"info"`
	PortFwds  int      `json:"portfwds"`
	SocksCli  int      `json:"sockscli"`
	SocksSvr  int      `json:"sockssvr"`
}

func jobStr(j agent.Job) string {
	return fmt.Sprintf("%d/%08x/%d", j.Command, j.RequestID, len(j.Data))
}

// Snap takes the canonical snapshot.  LastCallIn and FirstCallIn are excluded.
func (ts *TS) Snap(withDB bool) Snapshot {
	var s Snapshot
	for _, a := range ts.T.Agents.Agents {
		as := AgentSnap{ID: a.NameID, Active: a.Active, Reason: a.Reason, PortFwds: len(a.PortFwds), SocksCli: len(a.SocksCli), SocksSvr: len(a.SocksSvr)}
		for _, j := range a.JobQueue {
			as.Queue = append(as.Queue, jobStr(j))
		}
		for _, j := range a.Tasks {
			as.Tasks = append(as.Tasks, jobStr(j))
		}
		for _, d := range a.Downloads {
			as.Downloads = append(as.Downloads, fmt.Sprintf("%x:%s", d.FileID, d.LocalFile))
		}
		if a.Pivots.Parent != nil {
			as.Parent = a.Pivots.Parent.NameID
		}
		for _, l := range a.Pivots.Links {
			if l != nil {
				as.Links = append(as.Links, l.NameID)
			}
		}
		if a.Info != nil {
			i := *a.Info
			i.LastCallIn, i.FirstCallIn = "", ""
			i.Listener = nil
			b, _ := json.Marshal(i)
			as.Info = string(b)
		}
		s.Agents = append(s.Agents, as)
	}
	if withDB && ts.T.DB != nil {
		s.DB = ts.DBRows()
	}
	s.Files = ListTree(ts.Root)
	return s
}

func (s Snapshot) String() string {
	b, _ := json.Marshal(s)
	return string(b)
}

// DBRows dumps the three tables through the repository's own db package.
func (ts *TS) DBRows() map[string][]string {
	out := map[string][]string{}
	for _, a := range ts.T.DB.AgentAll() {
		i := *a.Info
		i.LastCallIn, i.FirstCallIn = "", ""
		b, _ := json.Marshal(i)
		out["agents"] = append(out["agents"], a.NameID+" "+string(b))
		id, _ := strconv.ParseInt(a.NameID, 16, 64)
		for _, l := range ts.T.DB.LinksOf(int(id)) {
			out["links"] = append(out["links"], fmt.Sprintf("%s->%08x", a.NameID, l))
		}
	}
	for _, l := range ts.T.DB.ListenerAll() {
		out["listeners"] = append(out["listeners"], l["Name"]+"|"+l["Protocol"]+"|"+l["Config"])
	}
	for _, k := range []string{"agents", "links", "listeners"} {
		sort.Strings(out[k])
	}
	return out
}

// ListTree lists every file and directory below root with size (files) — the sqlite
// file and its journal are excluded (covered by DBRows).
func ListTree(root string) []string {
	var out []string
	filepath.Walk(root, func(p string, info os.FileInfo, err error) error {
		if err != nil || p == root {
			return nil
		}
		rel, _ := filepath.Rel(root, p)
		if strings.HasPrefix(rel, "ts.db") {
			return nil
		}
		if info.IsDir() {
			out = append(out, rel+"/")
		} else {
			out = append(out, fmt.Sprintf("%s [%d]", rel, info.Size()))
		}
		return nil
	})
	sort.Strings(out)
	return out
}

// DBFault makes the SQLite file refuse one kind of write on one table (a BEFORE trigger
// installed through a second connection raises ABORT) until the returned function is
// called.  op is "INSERT", "UPDATE" or "DELETE".  Used by harnesses that vary the
// database's answer: what the teamserver holds in memory and tells agents and operators
// must stay consistent whether or not the row could be written.
func (ts *TS) DBFault(table, op string) (undo func(), err error) {
	d, err := sql.Open("sqlite3", filepath.Join(ts.Root, "ts.db"))
	if err != nil {
		return func() {}, err
	}
	name := "verif_fault_" + strings.ToLower(op) + "_" + table
	if _, err = d.Exec("CREATE TRIGGER " + name + " BEFORE " + op + " ON " + table + " BEGIN SELECT RAISE(ABORT, 'verif: injected fault: disk I/O error'); END"); err != nil {
		d.Close()
		return func() {}, err
	}
	return func() {
		d.Exec("DROP TRIGGER " + name)
		d.Close()
	}, nil
}

// DBIdle asks, through a second connection that does not wait, for the exclusive lock on
// the SQLite file and gives it back at once.  Between two operations nobody may be
// holding the file: a statement or result set that was left open keeps its connection's
// shared lock for the rest of the process, and from then on every write of every other
// pooled connection waits out the busy timeout and fails (the teamserver only logs it).
// The error names what SQLite answered.
func (ts *TS) DBIdle() error {
	d, err := sql.Open("sqlite3", "file:"+filepath.Join(ts.Root, "ts.db")+"?_busy_timeout=0")
	if err != nil {
		return nil // cannot probe: says nothing
	}
	defer d.Close()
	d.SetMaxOpenConns(1)
	// a writer that is just finishing goes away; what was left open stays: ask for two seconds
	for i := 0; ; i++ {
		if _, err = d.Exec("BEGIN EXCLUSIVE"); err == nil {
			d.Exec("ROLLBACK")
			return nil
		}
		if i == 40 {
			return err
		}
		time.Sleep(50 * time.Millisecond)
	}
}
