package seam

import (
	"fmt"
	"runtime"
	"sort"
	"strings"

	"Havoc/cmd/server"
	"Havoc/pkg/agent"
	"Havoc/pkg/packager"
)

// StackTop returns the innermost frame of the current (panicking) stack that is
// repository code, as "pkg.Func" (no line numbers: signatures must survive edits).
func StackTop() string {
	pc := make([]uintptr, 64)
	n := runtime.Callers(2, pc)
	fr := runtime.CallersFrames(pc[:n])
	for {
		f, more := fr.Next()
		if strings.HasPrefix(f.Function, "Havoc/") {
			fn := strings.TrimPrefix(f.Function, "Havoc/")
			fn = strings.TrimPrefix(fn, "pkg/")
			return fn
		}
		if !more {
			break
		}
	}
	return "?"
}

// Effect is one recorded call on the teamserver-facing interface.
type Effect struct {
	Call string
	Arg  string
}

func (e Effect) String() string { return e.Call + "(" + e.Arg + ")" }

// Recorder implements agent.TeamServer by delegating to the real teamserver and
// logging every call.
type Recorder struct {
	T      *server.Teamserver
	Log    []Effect
	Silent bool
}

func (r *Recorder) rec(call, format string, a ...any) {
	if r.Silent {
		return
	}
	r.Log = append(r.Log, Effect{call, fmt.Sprintf(format, a...)})
}

// Take returns and clears the log.
func (r *Recorder) Take() []Effect {
	l := r.Log
	r.Log = nil
	return l
}

// Significant filters out the per-request bookkeeping every request from a known
// agent performs (last-call-in update and its broadcast).
func Significant(l []Effect) []Effect {
	var out []Effect
	for i, e := range l {
		switch e.Call {
		case "AgentLastTimeCalled":
			continue
		case "AgentUpdate":
			// UpdateLastCallback = AgentUpdate immediately followed by AgentLastTimeCalled
			if i+1 < len(l) && l[i+1].Call == "AgentLastTimeCalled" && l[i+1].Arg == e.Arg {
				continue
			}
		}
		out = append(out, e)
	}
	return out
}

func mapStr(m map[string]string) string {
	ks := make([]string, 0, len(m))
	for k := range m {
		ks = append(ks, k)
	}
	sort.Strings(ks)
	var b strings.Builder
	for _, k := range ks {
		fmt.Fprintf(&b, "%s=%q;", k, m[k])
	}
	return b.String()
}

func (r *Recorder) AgentUpdate(a *agent.Agent) {
	r.rec("AgentUpdate", "%s", a.NameID)
	r.T.AgentUpdate(a)
}
func (r *Recorder) Died(a *agent.Agent) { r.rec("Died", "%s", a.NameID); r.T.Died(a) }
func (r *Recorder) ParentOf(a *agent.Agent) (int, error) {
	return r.T.ParentOf(a)
}
func (r *Recorder) LinksOf(a *agent.Agent) []int { return r.T.LinksOf(a) }
func (r *Recorder) LinkRemove(p *agent.Agent, l *agent.Agent, u bool) {
	r.rec("LinkRemove", "%s,%s,%v", p.NameID, l.NameID, u)
	r.T.LinkRemove(p, l, u)
}
func (r *Recorder) LinkAdd(p *agent.Agent, l *agent.Agent) error {
	r.rec("LinkAdd", "%s,%s", p.NameID, l.NameID)
	return r.T.LinkAdd(p, l)
}
func (r *Recorder) AgentHasDied(a *agent.Agent) bool {
	r.rec("AgentHasDied", "%s", a.NameID)
	return r.T.AgentHasDied(a)
}
func (r *Recorder) AgentAdd(a *agent.Agent) []*agent.Agent {
	r.rec("AgentAdd", "%s", a.NameID)
	return r.T.AgentAdd(a)
}
func (r *Recorder) PythonModuleCallback(c string, id string, cmd int, out map[string]string) {
	r.rec("PythonModuleCallback", "%s,%s,%d,%s", c, id, cmd, mapStr(out))
	r.T.PythonModuleCallback(c, id, cmd, out)
}
func (r *Recorder) AgentSendNotify(a *agent.Agent) {
	r.rec("AgentSendNotify", "%s", a.NameID)
	r.T.AgentSendNotify(a)
}
func (r *Recorder) AgentCallbackSize(a *agent.Agent, i int) {
	r.rec("AgentCallbackSize", "%s,%d", a.NameID, i)
	r.T.AgentCallbackSize(a, i)
}
func (r *Recorder) AgentInstance(id int) *agent.Agent { return r.T.AgentInstance(id) }
func (r *Recorder) AgentLastTimeCalled(id string, last string, s int, j int, k int64, w int32) {
	r.rec("AgentLastTimeCalled", "%s", id)
	r.T.AgentLastTimeCalled(id, last, s, j, k, w)
}
func (r *Recorder) AgentExist(id int) bool { return r.T.AgentExist(id) }
func (r *Recorder) AgentConsole(id string, cmd int, out map[string]string) {
	r.rec("AgentConsole", "%s,%d,%s", id, cmd, mapStr(out))
	r.T.AgentConsole(id, cmd, out)
}
func (r *Recorder) EventAppend(e packager.Package) []packager.Package {
	r.rec("EventAppend", "%d/%d", e.Head.Event, e.Body.SubEvent)
	return r.T.EventAppend(e)
}
func (r *Recorder) EventBroadcast(x string, pk packager.Package) {
	r.rec("EventBroadcast", "%d/%d", pk.Head.Event, pk.Body.SubEvent)
	r.T.EventBroadcast(x, pk)
}
func (r *Recorder) EventNewDemon(a *agent.Agent) packager.Package { return r.T.EventNewDemon(a) }
func (r *Recorder) EventAgentMark(id, mark string) {
	r.rec("EventAgentMark", "%s,%s", id, mark)
	r.T.EventAgentMark(id, mark)
}
func (r *Recorder) EventListenerError(n string, err error) {
	r.rec("EventListenerError", "%s", n)
	r.T.EventListenerError(n, err)
}
func (r *Recorder) ListenerAdd(u string, t int, c any) packager.Package {
	r.rec("ListenerAdd", "%d", t)
	return r.T.ListenerAdd(u, t, c)
}
func (r *Recorder) ServiceAgent(m int) agent.ServiceAgentInterface { return r.T.ServiceAgent(m) }
func (r *Recorder) ServiceAgentExist(m int) bool                   { return r.T.ServiceAgentExist(m) }
func (r *Recorder) GetDotNetPipeTemplate() string                  { return r.T.GetDotNetPipeTemplate() }
func (r *Recorder) SendLogs() bool                                 { return r.T.SendLogs() }
