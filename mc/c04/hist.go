package c04

import (
	"bytes"
	"encoding/base64"
	"fmt"
	"strings"
	"time"

	"Havoc/pkg/agent"

	"verifmc/demonwire"
	"verifmc/ev"
	"verifmc/explore"
	"verifmc/seam"
)

const (
	idD = 0x0000d001 // direct agent
	idP = 0x0000b001 // pivot parent (direct)
	idC = 0x0000c001 // child reached through P
)

var big = make([]byte, 31<<20)

// size classes: S small, H half the limit (two cross it), L larger than the limit alone
func classData(c byte) []byte {
	switch c {
	case '0':
		return nil // a task without arguments (checkin, dotnet list-versions): a record with size 0
	case 'S':
		return big[:8]
	case 'H':
		return big[:16<<20]
	default:
		return big[:31<<20]
	}
}

func jobSize(c byte) int {
	if c == '0' {
		return 0
	}
	return 4 + len(classData(c))
}

// ---- reference model: one FIFO per directly connected agent ------------------------

type mjob struct {
	id     uint32
	class  byte
	target uint32 // agent the task is for (== queue owner unless wrapped)
}

type model struct {
	q map[uint32][]mjob
}

func (m *model) batch(owner uint32) []mjob {
	q := m.q[owner]
	n, sum := 0, 0
	for _, j := range q {
		sz := jobSize(j.class)
		if j.target != owner {
			sz = 12 + 4 + 4 + 12 + jobSize(j.class) // wrapped: never near the limit (S only)
		}
		sum += sz
		if sum >= agent.DEMON_MAX_RESPONSE_LENGTH {
			break
		}
		n++
	}
	if len(q) > 0 && n == 0 {
		n = 1
	}
	out := q[:n]
	m.q[owner] = q[n:]
	return out
}

// ---- history alphabet ---------------------------------------------------------------

type op struct {
	kind   string // enq, checkin, checkin-nojobs
	agent  uint32
	class  byte
	viaOp  bool // enqueue through the operator path (DispatchEvent) instead of AddJobToQueue
	withCB bool // the check-in also carries a callback behind the GET_JOB (as PackageTransmitAll sends it)
	name   string
}

func alphabet(thorough bool) []op {
	a := []op{
		{kind: "enq", agent: idD, class: 'S', name: "enq(D,S)"},
		{kind: "checkin", agent: idD, name: "checkin(D)"},
		{kind: "enq", agent: idC, class: 'S', name: "enq(C,S)"},
		{kind: "checkin", agent: idP, name: "checkin(P)"},
		{kind: "enq", agent: idD, class: 'H', name: "enq(D,H)"},
		{kind: "enq", agent: idD, class: 'L', name: "enq(D,L)"},
		{kind: "checkin-nojobs", agent: idD, name: "callback-only(D)"},
		{kind: "enq", agent: idP, class: 'S', name: "enq(P,S)"},
		{kind: "enq", agent: idD, class: 'S', viaOp: true, name: "operator-sleep(D)"},
		{kind: "checkin", agent: idD, withCB: true, name: "checkin+pending-output(D)"},
		{kind: "enq", agent: idD, class: '0', name: "enq(D,no-arguments)"},
		// P reports the SMB link to C again (a reconnect of the session that is there), then checks in:
		// nothing was queued by that, P is handed what was waiting and nothing twice
		{kind: "reconnect-checkin", agent: idP, name: "reconnect(C below P)+checkin(P)"},
	}
	return a
}

type world struct {
	ts *seam.TS
	m  *model
	nx uint32
}

func newWorld() *world {
	ts := seam.New(seam.Options{})
	ts.MustRegister(idD, 1)
	p := ts.MustRegister(idP, 2)
	c := ts.MustRegister(idC, 3)
	// link C under P the way the SMB connect callback does (pointer wiring only; C09 covers the callbacks)
	c.Pivots.Parent = p
	p.Pivots.Links = append(p.Pivots.Links, c)
	return &world{ts: ts}
}

func (w *world) reset() {
	for _, a := range w.ts.T.Agents.Agents {
		a.JobQueue = nil
		a.Tasks = nil
		a.Active = true
		a.Pivots.Parent, a.Pivots.Links = nil, nil
	}
	if c, p := w.ts.Agent(idC), w.ts.Agent(idP); c != nil && p != nil {
		c.Pivots.Parent = p
		p.Pivots.Links = []*agent.Agent{c}
	}
	w.ts.T.EventsList = nil
	w.m = &model{q: map[uint32][]mjob{}}
	w.nx = 0x100
	w.ts.Rec.Take()
}

func keyOf(id uint32) byte {
	switch id {
	case idD:
		return 1
	case idP:
		return 2
	}
	return 3
}

// apply executes one op on the real teamserver and the model; it returns a
// description of a disagreement ("" if none) and an outcome class.
func (w *world) apply(o op) (string, string) {
	if o.kind == "reconnect-checkin" {
		reg := demonwire.Register(idC, seam.Key(keyOf(idC)), seam.IV(keyOf(idC)), demonwire.DefaultMeta(idC))
		b := (&demonwire.W{}).I32(agent.DEMON_PIVOT_SMB_CONNECT).I32(1).Bytes(reg).B
		body := demonwire.CallbacksOnly(idP, seam.Key(keyOf(idP)), seam.IV(keyOf(idP)), demonwire.Sub{Cmd: agent.COMMAND_PIVOT, Body: b})
		if r := w.ts.Post(body); r.Panic != nil {
			return fmt.Sprintf("panic: %v", r.Panic), "panic"
		}
		c, p := w.ts.Agent(idC), w.ts.Agent(idP)
		if c == nil || c.Pivots.Parent != p {
			return "after P's connect report C is not linked below P", "reconnect-not-applied"
		}
		o.kind = "checkin"
	}
	switch o.kind {
	case "enq":
		w.nx++
		id := w.nx
		owner := o.agent
		if o.agent == idC {
			owner = idP
		}
		if o.viaOp {
			if p := w.ts.Task(o.agent, fmt.Sprintf("%08x", id), agent.COMMAND_SLEEP, map[string]any{"Arguments": "5;10"}); p != nil {
				return fmt.Sprintf("operator dispatch panicked: %v", p), "panic"
			}
		} else {
			a := w.ts.Agent(o.agent)
			if o.class == '0' {
				a.AddJobToQueue(agent.Job{Command: 0x77, RequestID: id})
			} else {
				a.AddJobToQueue(agent.Job{Command: 0x77, RequestID: id, Data: []any{classData(o.class)}})
			}
		}
		w.m.q[owner] = append(w.m.q[owner], mjob{id: id, class: o.class, target: o.agent})
		return "", "enq"
	case "checkin-nojobs":
		// a package that carries a callback but does not ask for jobs
		body := demonwire.CallbacksOnly(o.agent, seam.Key(keyOf(o.agent)), seam.IV(keyOf(o.agent)), demonwire.Sub{Cmd: 0x5a5a, ReqID: 0xdead, Body: nil})
		r := w.ts.Post(body)
		if r.Panic != nil {
			return fmt.Sprintf("panic: %v", r.Panic), "panic"
		}
		tasks, err := demonwire.ReadTasks(r.Body, seam.Key(keyOf(o.agent)), seam.IV(keyOf(o.agent)))
		if r.Status != 200 || err != nil || len(tasks) != 1 || tasks[0].Cmd != demonwire.NoJob {
			return fmt.Sprintf("request that did not ask for jobs: status=%d tasks=%v err=%v (want one NOJOB)", r.Status, tasks, err), "nojobs-bad"
		}
		return "", "nojobs"
	case "checkin":
		owner := o.agent
		want := w.m.batch(owner)
		a := w.ts.Agent(owner)
		hasBig := false
		for _, j := range want {
			if j.class == 'H' || j.class == 'L' {
				hasBig = true
			}
		}
		if !hasBig && len(a.JobQueue) > 0 {
			for _, j := range a.JobQueue[:min(len(a.JobQueue), len(want)+1)] {
				if len(j.Data) > 0 {
					if b, ok := j.Data[0].([]byte); ok && len(b) > 1<<20 {
						hasBig = true
					}
				}
			}
		}
		var gotIDs []uint32
		var gotTargets []uint32
		if hasBig {
			// direct dequeue: sizes are real, payload bytes are not copied
			jobs := a.GetQueuedJobs()
			for _, j := range jobs {
				gotIDs = append(gotIDs, j.RequestID)
				gotTargets = append(gotTargets, owner)
			}
		} else {
			k := keyOf(owner)
			var subs []demonwire.Sub
			if o.withCB {
				// pending output of the agent rides behind the GET_JOB in the same request
				subs = append(subs, demonwire.Sub{Cmd: 0x5a5a, ReqID: 0xdead, Body: []byte{1, 2, 3, 4}})
			}
			r, tasks, err := w.ts.CheckIn(owner, k, subs...)
			if r.Panic != nil {
				return fmt.Sprintf("panic: %v @ %s", r.Panic, r.Stack), "panic"
			}
			if r.Status != 200 || err != nil {
				return fmt.Sprintf("check-in failed: status=%d err=%v", r.Status, err), "bad-reply"
			}
			if len(want) == 0 {
				if len(tasks) != 1 || tasks[0].Cmd != demonwire.NoJob {
					return fmt.Sprintf("empty queue: reply %v, want exactly one NOJOB", taskIDs(tasks)), "nojob-wrong"
				}
				return "", "nojob"
			}
			for _, t := range tasks {
				if t.Cmd == demonwire.NoJob {
					return fmt.Sprintf("NOJOB although %d tasks are queued", len(want)), "nojob-wrong"
				}
				tid, target, ok := unwrap(t, owner)
				if !ok {
					return fmt.Sprintf("task %08x cannot be unwrapped by the reference pivot reader", t.ReqID), "unwrap"
				}
				gotIDs = append(gotIDs, tid)
				gotTargets = append(gotTargets, target)
			}
		}
		var wantIDs, wantT []uint32
		for _, j := range want {
			wantIDs = append(wantIDs, j.id)
			wantT = append(wantT, j.target)
		}
		if fmt.Sprint(gotIDs) != fmt.Sprint(wantIDs) || fmt.Sprint(gotTargets) != fmt.Sprint(wantT) {
			return fmt.Sprintf("batch differs: got ids %x (targets %x), reference FIFO-batch model says %x (targets %x)", gotIDs, gotTargets, wantIDs, wantT), "batch-mismatch"
		}
		return "", fmt.Sprintf("batch/%d/big=%v", len(want), hasBig)
	}
	return "", ""
}

func taskIDs(ts []demonwire.Task) []string {
	var o []string
	for _, t := range ts {
		o = append(o, fmt.Sprintf("%d/%08x", t.Cmd, t.ReqID))
	}
	return o
}

// unwrap plays the hop: a COMMAND_PIVOT/SMB_COMMAND task for `owner` carries
// [child id][frame]; frame = [child id][len][tasks under the child's key].
func unwrap(t demonwire.Task, owner uint32) (uint32, uint32, bool) {
	if t.Cmd != agent.COMMAND_PIVOT {
		return t.ReqID, owner, true
	}
	sub, child, frame, ok := demonwire.ParsePivotCommandTask(t.Body)
	if !ok || sub != agent.DEMON_PIVOT_SMB_COMMAND {
		return 0, 0, false
	}
	r := &demonwire.R{B: frame}
	fid := r.I32()
	inner := r.Bytes()
	if r.Err || fid != child {
		return 0, 0, false
	}
	tasks, err := demonwire.ReadTasks(inner, seam.Key(keyOf(child)), seam.IV(keyOf(child)))
	if err != nil || len(tasks) != 1 {
		return 0, 0, false
	}
	// the inner body must decrypt to the job's data under the CHILD's key
	rr := &demonwire.R{B: tasks[0].Body}
	d := rr.Bytes()
	if rr.Err || !bytes.Equal(d, classData('S')) {
		return 0, 0, false
	}
	return tasks[0].ReqID, child, true
}

func (w *world) key() string {
	var b strings.Builder
	for _, id := range []uint32{idD, idP, idC} {
		a := w.ts.Agent(id)
		fmt.Fprintf(&b, "%x:", id)
		for _, j := range a.JobQueue {
			if id == idC {
				continue // the child's own queue is display-only and never drained (not observable at check-in)
			}
			c := byte('S')
			if len(j.Data) == 0 && j.Command == 0x77 {
				c = '0'
			}
			if len(j.Data) > 0 {
				if d, ok := j.Data[0].([]byte); ok {
					switch {
					case len(d) > 20<<20:
						c = 'L'
					case len(d) > 1<<20:
						c = 'H'
					}
				}
			}
			if j.Command == agent.COMMAND_PIVOT {
				c = 'W'
			}
			b.WriteByte(c)
		}
		b.WriteByte('|')
	}
	return b.String()
}

func runHistories(r *ev.Run) {
	w := newWorld()
	defer w.ts.Close()
	alpha := alphabet(r.Thorough())
	depth := 6
	if r.Thorough() {
		depth = 9
	}
	r.Bounds["history_depth"] = depth
	var names []string
	for _, o := range alpha {
		names = append(names, o.name)
	}
	r.Bounds["history_alphabet"] = names
	all := make([]int, len(alpha))
	for i := range all {
		all[i] = i
	}
	b := explore.BFS{MaxDepth: depth, Deadline: time.Now().Add(deadline(r))}
	b.Run(func(hist []int) explore.StepResult {
		w.reset()
		ok := true
		for i, oi := range hist {
			bad, outcome := w.apply(alpha[oi])
			if i == len(hist)-1 {
				r.Outcome("hist/" + outcome)
			}
			if bad != "" {
				if i == len(hist)-1 {
					var hn []string
					for _, x := range hist {
						hn = append(hn, alpha[x].name)
					}
					r.Violate("hist/"+outcome, bad, map[string]any{"history": hn})
				}
				ok = false
				break
			}
		}
		r.Eval(1)
		if r.WantSample() && len(hist) == depth {
			var hn []string
			for _, x := range hist {
				hn = append(hn, alpha[x].name)
			}
			r.Sample(map[string]any{"history": hn})
		}
		return explore.StepResult{Key: w.key(), Enabled: all, OK: ok}
	})
	r.AddStates(b.States, b.Transitions, b.Transitions)
	r.Extra["histories"] = map[string]any{"states": b.States, "transitions": b.Transitions, "depth_completed": b.Depth, "fixpoint": b.Fixpoint}
	if b.Capped {
		r.NotExhaustive(fmt.Sprintf("history BFS stopped by the internal deadline at depth %d", b.Depth))
	}
	boundary(r, w)
}

func deadline(r *ev.Run) time.Duration {
	if r.Thorough() {
		return 8 * time.Minute
	}
	return 40 * time.Second
}

// boundary: three executions with real payload sizes at limit-1, limit, limit+1 through
// the full HTTP path (the response really carries ~30 MiB).
func boundary(r *ev.Run, w *world) {
	lim := agent.DEMON_MAX_RESPONSE_LENGTH
	for _, delta := range []int{-1, 0, 1} {
		w.reset()
		a := w.ts.Agent(idD)
		// S then X with size(S)+size(X) == lim+delta
		x := lim + delta - jobSize('S') - 4
		a.AddJobToQueue(agent.Job{Command: 0x77, RequestID: 1, Data: []any{classData('S')}})
		a.AddJobToQueue(agent.Job{Command: 0x77, RequestID: 2, Data: []any{big[:x]}})
		_, tasks, err := w.ts.CheckIn(idD, 1)
		want := 1
		if delta < 0 {
			want = 2
		}
		r.Eval(1)
		r.Outcome(fmt.Sprintf("boundary/%d", want))
		if err != nil || len(tasks) != want {
			r.Violate(fmt.Sprintf("boundary/delta=%d", delta), fmt.Sprintf("queue [S, X] with total data size limit%+d: first reply carries %d tasks (err=%v), the statement says %d", delta, len(tasks), err, want), nil)
			continue
		}
		_, tasks2, _ := w.ts.CheckIn(idD, 1)
		if want == 1 && (len(tasks2) != 1 || tasks2[0].ReqID != 2) {
			r.Violate(fmt.Sprintf("boundary/delta=%d/second", delta), "the task held back at the limit is not delivered by the next check-in", nil)
		}
	}
	w.reset()
}

// ---- chunking --------------------------------------------------------------------------

func runChunks(r *ev.Run) {
	c := agent.DEMON_MAX_RESPONSE_LENGTH
	sizes := []int{0, 1, c - 1, c, c + 1}
	if r.Thorough() {
		sizes = append(sizes, 2*c, 2*c+1)
	}
	r.Bounds["chunk_file_sizes"] = sizes
	ts := seam.New(seam.Options{})
	defer ts.Close()
	ts.MustRegister(idD, 1)
	for _, n := range sizes {
		file := make([]byte, n)
		for i := 0; i < n; i += 4093 {
			file[i] = byte(i>>3) | 1
		}
		if n > 0 {
			file[n-1] = 0xEE
		}
		a := ts.Agent(idD)
		a.JobQueue, a.Tasks = nil, nil
		args := base64.StdEncoding.EncodeToString([]byte(`C:\t\f.bin`)) + ";" + base64.StdEncoding.EncodeToString(file)
		p := ts.Task(idD, "0000beef", agent.COMMAND_FS, map[string]any{"SubCommand": "upload", "Arguments": args})
		r.Eval(1)
		if p != nil {
			r.Violate("chunks/panic", fmt.Sprintf("upload of %d bytes panicked: %v", n, p), nil)
			continue
		}
		// drain the queue the way check-ins do
		var delivered []agent.Job
		for guard := 0; len(a.JobQueue) > 0 && guard < 100; guard++ {
			delivered = append(delivered, a.GetQueuedJobs()...)
		}
		bad := checkChunks(delivered, file)
		r.Outcome(fmt.Sprintf("chunks/%d-jobs", len(delivered)))
		if bad != "" {
			r.Violate("chunks/"+strings.SplitN(bad, ":", 2)[0], fmt.Sprintf("file of %d bytes (chunk size %d): %s", n, c, bad), map[string]any{"file_size": n})
		}
		if r.WantSample() {
			r.Sample(map[string]any{"upload_file_size": n, "jobs_delivered": len(delivered)})
		}
	}
}

func checkChunks(jobs []agent.Job, file []byte) string {
	if len(jobs) == 0 {
		return "no-jobs: nothing was queued"
	}
	last := jobs[len(jobs)-1]
	if last.Command != agent.COMMAND_FS || last.RequestID != 0xbeef {
		return "order: the consuming command is not the last job delivered"
	}
	if len(last.Data) != 3 {
		return "shape: upload job has an unexpected argument list"
	}
	id, ok := last.Data[2].(uint32)
	if !ok {
		return "shape: upload job carries no mem-file id"
	}
	var cat []byte
	for i, j := range jobs[:len(jobs)-1] {
		if j.Command != agent.COMMAND_MEM_FILE || len(j.Data) != 3 {
			return fmt.Sprintf("order: job %d before the consuming command is not a mem-file chunk", i)
		}
		if j.Data[0].(uint32) != id {
			return "id: a chunk carries a different file id"
		}
		if j.Data[1].(uint64) != uint64(len(file)) {
			return "total: a chunk carries a wrong total size"
		}
		cat = append(cat, j.Data[2].([]byte)...)
	}
	if !bytes.Equal(cat, file) {
		return fmt.Sprintf("content: chunks concatenate to %d bytes that differ from the %d-byte file", len(cat), len(file))
	}
	return ""
}
