// Package c04: "Every queued task is delivered exactly once, in order, in bounded batches".
package c04

import (
	"os"

	"verifmc/ev"
	"verifmc/pivreg"
)

func Run(r *ev.Run) {
	r.Rule = "(1) explicit-state BFS over enqueue/check-in histories (size classes S/H/L, direct and pivot agents) against a FIFO-batch reference model, plus real 30 MiB boundary executions; (2) upload chunking for file sizes around multiples of the chunk size; (3) every interleaving within the preemption bound of concurrent producers and the consumer at the granularity of each read/write of JobQueue/Tasks (controlled scheduler on instrumented code), checked for linearizability (porcupine), loss, duplication, panics. distinct = distinct observed outcomes"
	r.Assume("schedule exploration: 3 threads, preemption bound as reported; statement-part granularity (a torn slice header is not modelled)",
		"size classes S/H/L stand for all job sizes; the exact limit is exercised by three boundary executions")
	if os.Getenv("VERIF_RACE_PASS") != "" {
		runFree(r)
		return
	}
	runHistories(r)
	runChunks(r)
	runServiceQueue(r)
	runSchedules(r)
	b := 2
	if r.Thorough() {
		b = 3
	}
	pivreg.RunBasic(r, b, deadline(r))
	runTwoSessions(r)
	runQueueEdits(r)
}
