package c04

import (
	"bytes"
	"encoding/base64"
	"encoding/json"
	"fmt"

	"Havoc/pkg/agent"
	"Havoc/pkg/service"

	"verifmc/ev"
	"verifmc/fake"
	"verifmc/seam"
)

// Part 4: the queue of a third-party service agent.  A service adds tasks (Task "Add",
// the bytes travel in Job.Payload) and the agent's handler fetches them (Task "Get")
// through the real Service.dispatch on a real server-side websocket connection.  For
// every payload-size list around the 30 MiB limit: the bytes handed out over successive
// fetches are exactly the queued payloads, once and in order, and the queue is empty
// afterwards.  (How much one fetch may carry is not judged here: the limit clause of the
// statement is about the Demon's check-in reply.)
func runServiceQueue(r *ev.Run) {
	const limit = agent.DEMON_MAX_RESPONSE_LENGTH
	lists := [][]int{
		{1, 2, 3},
		{0, 5},
		{limit / 2, limit / 2},
		{limit / 2, limit/2 + 1},
		{limit + 1, 64},
		{20 << 20, 20 << 20, 1 << 10},
		{limit - 1, 1, 1},
	}
	r.Bounds["service_queue_payload_lists"] = lists
	for li, sizes := range lists {
		func() {
			ts := seam.New(seam.Options{Service: true})
			defer ts.Close()
			a := ts.MustRegister(idD, 1)
			ws := fake.NewWS("svc")
			cs := &service.ClientService{Conn: ws.Conn}
			agentRef := map[string]any{"NameID": a.NameID}
			var want []byte
			detail := map[string]any{"payload_sizes": sizes}
			var pn any
			func() {
				defer func() { pn = recover() }()
				for i, n := range sizes {
					p := bytes.Repeat([]byte{byte('A' + i)}, n)
					want = append(want, p...)
					ts.T.Service.VerifDispatch(map[string]map[string]any{"Head": {"Type": "Agent"}, "Body": {"Type": "AgentTask", "Agent": agentRef, "Task": "Add", "Command": base64.StdEncoding.EncodeToString(p)}}, cs)
				}
			}()
			if pn != nil {
				r.Violate("service-queue/panic/add", fmt.Sprint(pn), detail)
				return
			}
			var got []byte
			fetches := 0
			for ; fetches < len(sizes)+2; fetches++ {
				before, _ := ws.Frames()
				func() {
					defer func() { pn = recover() }()
					ts.T.Service.VerifDispatch(map[string]map[string]any{"Head": {"Type": "Agent"}, "Body": {"Type": "AgentTask", "Agent": agentRef, "Task": "Get"}}, cs)
				}()
				if pn != nil {
					r.Violate("service-queue/panic/get", fmt.Sprint(pn), detail)
					return
				}
				frames, _ := ws.Frames()
				// one message, possibly fragmented (gorilla splits a message that exceeds its write buffer)
				var msg []byte
				complete := false
				for _, f := range frames[len(before):] {
					msg = append(msg, f.Payload...)
					complete = f.Fin
				}
				if len(frames) == len(before) || !complete {
					r.Violate("service-queue/no-reply", fmt.Sprintf("fetch %d was not answered with one whole message (%d frames)", fetches, len(frames)-len(before)), detail)
					return
				}
				var m map[string]map[string]any
				if err := json.Unmarshal(msg, &m); err != nil {
					r.Violate("service-queue/reply-undecodable", err.Error(), detail)
					return
				}
				q, _ := m["Body"]["TasksQueue"].(string)
				b, err := base64.StdEncoding.DecodeString(q)
				if err != nil {
					r.Violate("service-queue/reply-undecodable", err.Error(), detail)
					return
				}
				if len(b) == 0 && len(a.JobQueue) == 0 {
					break
				}
				got = append(got, b...)
			}
			r.Eval(1)
			detail["fetches"] = fetches
			switch {
			case !bytes.Equal(got, want):
				kind := "lost"
				if len(got) > len(want) {
					kind = "duplicated"
				} else if len(got) == len(want) {
					kind = "reordered-or-altered"
				}
				r.Violate("service-queue/"+kind, fmt.Sprintf("queued %d bytes in %d tasks, the fetches handed out %d bytes (first difference at byte %d)", len(want), len(sizes), len(got), firstDiff(got, want)), detail)
			case len(a.JobQueue) != 0:
				r.Violate("service-queue/leftover", fmt.Sprintf("%d tasks still queued after everything was fetched", len(a.JobQueue)), detail)
			}
			r.Outcome(fmt.Sprintf("service-queue/list%d/fetches=%d", li, fetches))
		}()
	}
}

func firstDiff(a, b []byte) int {
	n := len(a)
	if len(b) < n {
		n = len(b)
	}
	for i := 0; i < n; i++ {
		if a[i] != b[i] {
			return i
		}
	}
	return n
}
