package c04

import (
	"fmt"
	"sort"
	"strings"
	"time"

	"Havoc/pkg/agent"

	"github.com/anishathalye/porcupine"

	"verifmc/ev"
	"verifmc/explore"
	"verifmc/seam"
	"verifmc/vsched"
)

// Part 3: every interleaving (up to a preemption bound) of concurrent producers and the
// consumer on one agent's queue, at the granularity of every read and write of
// JobQueue/Tasks.  Oracle: the call/return history is linearizable w.r.t. the FIFO
// queue (porcupine), delivered ∪ remaining is exactly the enqueued multiset, no panic.

type qin struct {
	Enq bool
	ID  uint32
}
type qout struct{ IDs []uint32 }

var fifoModel = porcupine.Model{
	Init: func() interface{} { return []uint32(nil) },
	Step: func(state, input, output interface{}) (bool, interface{}) {
		q := state.([]uint32)
		in := input.(qin)
		if in.Enq {
			nq := append(append([]uint32(nil), q...), in.ID)
			return true, nq
		}
		out := output.(qout)
		// small jobs only: a dequeue returns the whole queue
		if len(out.IDs) != len(q) {
			return false, q
		}
		for i := range q {
			if q[i] != out.IDs[i] {
				return false, q
			}
		}
		return true, []uint32(nil)
	},
	Equal: func(a, b interface{}) bool { return fmt.Sprint(a) == fmt.Sprint(b) },
}

type scenario struct {
	name  string
	build func(s *vsched.Sched, h *hist, a *agent.Agent, ts *seam.TS)
	viaTS bool
}

type hist struct {
	bad   string
	clock int64
	ops   []porcupine.Operation
	enq   []uint32
	got   []uint32
}

func (h *hist) tick() int64 { h.clock++; return h.clock }

func (h *hist) enqueue(client int, a *agent.Agent, id uint32) {
	c := h.tick()
	a.AddJobToQueue(agent.Job{Command: 0x77, RequestID: id, Data: []any{1}})
	h.ops = append(h.ops, porcupine.Operation{ClientId: client, Input: qin{Enq: true, ID: id}, Call: c, Output: qout{}, Return: h.tick()})
	h.enq = append(h.enq, id)
}

// pivotJobID stands for the (one) task a scenario queues for a pivot agent: it reaches
// the direct agent's queue wrapped in a COMMAND_PIVOT job, which carries no request id.
const pivotJobID = 100

// enqueueVia queues a task for a pivot agent; it is delivered through the direct agent's queue.
func (h *hist) enqueueVia(client int, p *agent.Agent, id uint32) {
	c := h.tick()
	p.AddJobToQueue(agent.Job{Command: 0x77, RequestID: id, Data: []any{1}})
	h.ops = append(h.ops, porcupine.Operation{ClientId: client, Input: qin{Enq: true, ID: id}, Call: c, Output: qout{}, Return: h.tick()})
	h.enq = append(h.enq, id)
}

func (h *hist) dequeue(client int, a *agent.Agent) {
	c := h.tick()
	jobs := a.GetQueuedJobs()
	var ids []uint32
	for _, j := range jobs {
		if j.Command == agent.COMMAND_PIVOT {
			ids = append(ids, pivotJobID)
			continue
		}
		ids = append(ids, j.RequestID)
	}
	h.ops = append(h.ops, porcupine.Operation{ClientId: client, Input: qin{}, Call: c, Output: qout{IDs: ids}, Return: h.tick()})
	h.got = append(h.got, ids...)
}

// enqueueOp queues a task the way an operator does (DispatchEvent -> TaskPrepare ->
// AddJobToQueue); dequeueHTTP is a real check-in through the listener, the response
// decoded the way the Demon reads it.
func (h *hist) enqueueOp(client int, ts *seam.TS, id uint32) {
	c := h.tick()
	ts.Task(idD, fmt.Sprintf("%08x", id), agent.COMMAND_SLEEP, map[string]any{"Arguments": "5;10"})
	h.ops = append(h.ops, porcupine.Operation{ClientId: client, Input: qin{Enq: true, ID: id}, Call: c, Output: qout{}, Return: h.tick()})
	h.enq = append(h.enq, id)
}

func (h *hist) dequeueHTTP(client int, ts *seam.TS) string {
	c := h.tick()
	res, tasks, err := ts.CheckIn(idD, 1)
	if res.Panic != nil {
		return fmt.Sprintf("panic: %v @ %s", res.Panic, res.Stack)
	}
	if res.Status != 200 || err != nil {
		return fmt.Sprintf("check-in failed: status=%d err=%v", res.Status, err)
	}
	var ids []uint32
	for _, t := range tasks {
		if t.Cmd != 10 { // COMMAND_NOJOB
			ids = append(ids, t.ReqID)
		}
	}
	h.ops = append(h.ops, porcupine.Operation{ClientId: client, Input: qin{}, Call: c, Output: qout{IDs: ids}, Return: h.tick()})
	h.got = append(h.got, ids...)
	return ""
}

func scenarios() []scenario {
	return []scenario{
		{name: "operator(2 enq) | relay(1 enq) | listener(2 check-ins)", build: func(s *vsched.Sched, h *hist, a *agent.Agent, _ *seam.TS) {
			s.Spawn("operator", func() { h.enqueue(0, a, 1); h.enqueue(0, a, 2) })
			s.Spawn("relay", func() { h.enqueue(1, a, 3) })
			s.Spawn("listener", func() { h.dequeue(2, a); h.dequeue(2, a) })
		}},
		{name: "operator(1 enq) | relay(1 enq) | listener(1 check-in), queue pre-filled", build: func(s *vsched.Sched, h *hist, a *agent.Agent, _ *seam.TS) {
			h.enqueue(3, a, 9)
			s.Spawn("operator", func() { h.enqueue(0, a, 1) })
			s.Spawn("relay", func() { h.enqueue(1, a, 3) })
			s.Spawn("listener", func() { h.dequeue(2, a) })
		}},
		{name: "pivot chain D<-P1<-P2: operator enq(D) | relay enq(P2, two hops behind D) | listener(2 check-ins of D)", build: func(s *vsched.Sched, h *hist, a *agent.Agent, _ *seam.TS) {
			// every queue operation of the chain ends in D's queue: it must be guarded by D's lock
			mk := func(name string, k byte, parent *agent.Agent) *agent.Agent {
				p := &agent.Agent{NameID: name, Info: &agent.AgentInfo{}}
				p.Encryption.AESKey, p.Encryption.AESIv = seam.Key(k), seam.IV(k)
				p.Pivots.Parent = parent
				parent.Pivots.Links = append(parent.Pivots.Links, p)
				return p
			}
			a.Encryption.AESKey, a.Encryption.AESIv = seam.Key(1), seam.IV(1)
			p1 := mk("0000d002", 2, a)
			p2 := mk("0000d003", 3, p1)
			s.Spawn("operator", func() { h.enqueue(0, a, 1) })
			s.Spawn("relay", func() { h.enqueueVia(1, p2, pivotJobID) })
			s.Spawn("listener", func() { h.dequeue(2, a); h.dequeue(2, a) })
		}},
		{name: "real entry points: operator DispatchEvent(2 tasks) | relay AddJobToQueue | listener 2 HTTP check-ins", viaTS: true, build: func(s *vsched.Sched, h *hist, a *agent.Agent, ts *seam.TS) {
			s.Spawn("operator", func() { h.enqueueOp(0, ts, 1); h.enqueueOp(0, ts, 2) })
			s.Spawn("relay", func() { h.enqueue(1, a, 3) })
			s.Spawn("listener", func() {
				if bad := h.dequeueHTTP(2, ts); bad != "" {
					h.bad = bad
					return
				}
				if bad := h.dequeueHTTP(2, ts); bad != "" {
					h.bad = bad
				}
			})
		}},
		{name: "real entry points: two concurrent HTTP check-ins of one session (a replayed or pipelined request), queue pre-filled | operator DispatchEvent(1 task)", viaTS: true, build: func(s *vsched.Sched, h *hist, a *agent.Agent, ts *seam.TS) {
			h.enqueueOp(3, ts, 9)
			s.Spawn("operator", func() { h.enqueueOp(0, ts, 1) })
			for _, l := range []int{1, 2} {
				l := l
				s.Spawn(fmt.Sprintf("listener-%d", l), func() {
					if bad := h.dequeueHTTP(l, ts); bad != "" {
						h.bad = bad
					}
				})
			}
		}},
	}
}

func runSchedules(r *ev.Run) {
	if !vsched.Instrumented {
		r.Violate("harness/not-instrumented", "C04 schedules need the sched build", nil)
		return
	}
	bound := 2
	if r.Thorough() {
		bound = 4
	}
	r.Bounds["preemption_bound"] = bound
	r.Bounds["sched_focus"] = []string{"JobQueue", "Tasks"}
	var total, points int64
	for si, sc := range scenarios() {
		outcomes := map[string]bool{}
		b := bound
		if sc.viaTS && b > 3 {
			b = 3 // the real-entry-point scenario has ~3x the choice points; bound 3 completes
		}
		r.Bounds[fmt.Sprintf("preemption_bound_scenario_%d", si)] = b
		t := explore.Tree{Bound: b, Deadline: time.Now().Add(deadline(r))}
		t.Run(func(c *explore.Chooser) {
			a := &agent.Agent{NameID: "0000d001", Info: &agent.AgentInfo{}}
			h := &hist{}
			var ts *seam.TS
			if sc.viaTS {
				ts = seam.New(seam.Options{})
				defer ts.Close()
				a = ts.MustRegister(idD, 1)
			}
			s := vsched.New(c, 20000, "JobQueue", "Tasks", "sync.Mutex")
			s.SpinFree = 16 // the loops on these paths parse and wrap, they do not poll (vsched.Sched.SpinFree)
			sc.build(s, h, a, ts)
			s.Run()
			var rest []uint32
			for _, j := range a.JobQueue {
				if j.Command == agent.COMMAND_PIVOT {
					rest = append(rest, pivotJobID)
					continue
				}
				rest = append(rest, j.RequestID)
			}
			obs := fmt.Sprintf("got=%v rest=%v", h.got, rest)
			outcomes[obs] = true
			detail := func() map[string]any {
				return map[string]any{"scenario": sc.name, "choices": c.Choices(), "schedule": s.Trace, "delivered": h.got, "remaining": rest, "enqueued": h.enq}
			}
			switch {
			case h.bad != "":
				r.Violate("sched/check-in-failed", h.bad, detail())
			case len(s.Panics) > 0:
				r.Violate("sched/panic/"+ev.Normalize(strings.SplitN(s.Panics[0], " @ ", 2)[1]), "concurrent enqueue/check-in panics: "+s.Panics[0], detail())
			case s.Deadlock:
				r.Violate("sched/deadlock", s.DeadlockWhy, detail())
			case s.HorizonHit:
				r.Violate("sched/horizon", "execution did not finish within the horizon", detail())
			default:
				all := append(append([]uint32(nil), h.got...), rest...)
				sort.Slice(all, func(i, j int) bool { return all[i] < all[j] })
				want := append([]uint32(nil), h.enq...)
				sort.Slice(want, func(i, j int) bool { return want[i] < want[j] })
				if fmt.Sprint(all) != fmt.Sprint(want) {
					kind := "lost-task"
					if len(all) >= len(want) {
						kind = "duplicate-task"
					}
					r.Violate("sched/"+kind, fmt.Sprintf("enqueued %v but delivered %v + still queued %v", h.enq, h.got, rest), detail())
				} else if len(s.Held()) > 0 {
					r.Violate("sched/lock-held", fmt.Sprint(s.Held()), detail())
				} else {
					// drain what remains so that the history is complete, then check linearizability
					ops := append([]porcupine.Operation(nil), h.ops...)
					if len(rest) > 0 {
						c0 := h.tick()
						ops = append(ops, porcupine.Operation{ClientId: 4, Input: qin{}, Call: c0, Output: qout{IDs: rest}, Return: h.tick()})
					}
					if !porcupine.CheckOperations(fifoModel, ops) {
						r.Violate("sched/not-linearizable", fmt.Sprintf("history is not linearizable w.r.t. the FIFO queue: delivered %v, remaining %v", h.got, rest), detail())
					}
				}
			}
			if r.WantSample() && len(c.Choices()) > 3 && c.Choices()[2] != 0 {
				r.Sample(map[string]any{"scenario": sc.name, "choices": c.Choices(), "observed": obs})
			}
		})
		if t.Err != nil {
			r.Violate("harness/nondeterminism", t.Err.Error(), nil)
		}
		if t.Capped {
			r.NotExhaustive(fmt.Sprintf("scenario %d stopped by the internal deadline", si))
		}
		total += t.Executions
		points += t.Points
		for o := range outcomes {
			r.Outcome(fmt.Sprintf("sched%d/%s", si, o))
		}
		r.Extra[fmt.Sprintf("schedules_scenario_%d", si)] = map[string]any{"name": sc.name, "executions": t.Executions, "choice_points": t.Points, "distinct_observations": len(outcomes), "max_depth": t.MaxDepth}
	}
	r.Eval(int(total))
	r.AddStates(points, points, total)
}

// runTwoSessions: two sessions check in at the same time, one task queued for each, while
// an operator lists the tasks of the first (a third builder of task bytes).  Whatever
// the interleaving (scheduling points at the queue, the locks, and any sync.Pool the
// reply path might use), each agent's reply decodes under its own key to exactly its own
// task: a reply is built per request and belongs to that request until it is written.
func runTwoSessions(r *ev.Run) {
	if !vsched.Instrumented {
		return
	}
	bound := 2
	if r.Thorough() {
		bound = 3
	}
	r.Bounds["preemption_bound_two_sessions"] = bound
	const id1, id2 = 0x0000d011, 0x0000d022
	outcomes := map[string]bool{}
	t := explore.Tree{Bound: bound, Deadline: time.Now().Add(deadline(r))}
	t.Run(func(c *explore.Chooser) {
		ts := seam.New(seam.Options{})
		defer ts.Close()
		ts.MustRegister(id1, 1)
		ts.MustRegister(id2, 2)
		ts.Task(id1, "00001111", agent.COMMAND_SLEEP, map[string]any{"Arguments": "5;10"})
		ts.Task(id2, "00002222", agent.COMMAND_CHECKIN, nil)
		s := vsched.New(c, 20000, "JobQueue", "Tasks", "sync.Mutex", "sync.Pool")
		s.SpinFree = 16 // the loops on these paths parse and wrap, they do not poll (vsched.Sched.SpinFree)
		got := map[uint32]string{}
		for _, x := range []struct {
			id uint32
			k  byte
		}{{id1, 1}, {id2, 2}} {
			x := x
			s.Spawn(fmt.Sprintf("listener-%08x", x.id), func() {
				res, tasks, err := ts.CheckIn(x.id, x.k)
				switch {
				case res.Panic != nil && vsched.IsAbort(res.Panic):
				case res.Panic != nil:
					got[x.id] = fmt.Sprintf("panic: %v", res.Panic)
				case res.Status != 200 || err != nil:
					got[x.id] = fmt.Sprintf("status=%d err=%v", res.Status, err)
				default:
					var l []string
					for _, tk := range tasks {
						l = append(l, fmt.Sprintf("cmd=%d req=%08x", tk.Cmd, tk.ReqID))
					}
					got[x.id] = strings.Join(l, ",")
				}
			})
		}
		s.Spawn("operator", func() {
			ts.Task(id1, "00003333", agent.COMMAND_JOB, map[string]any{"Command": "list"})
		})
		s.Run()
		detail := map[string]any{"choices": c.Choices(), "schedule_tail": tailStr(s.Trace, 40), "replies": got}
		want1a := fmt.Sprintf("cmd=%d req=00001111", agent.COMMAND_SLEEP)
		want1b := want1a + fmt.Sprintf(",cmd=%d req=00003333", agent.COMMAND_JOB)
		want2 := fmt.Sprintf("cmd=%d req=00002222", agent.COMMAND_CHECKIN)
		obs := fmt.Sprintf("%v | %v", got[id1], got[id2])
		outcomes[obs] = true
		switch {
		case len(s.Panics) > 0:
			r.Violate("sched-two-sessions/panic/"+ev.Normalize(s.Panics[0]), s.Panics[0], detail)
		case s.Deadlock:
			r.Violate("sched-two-sessions/deadlock", s.DeadlockWhy, detail)
		case s.HorizonHit:
			r.Violate("sched-two-sessions/horizon", "did not finish", detail)
		case got[id1] != want1a && got[id1] != want1b:
			r.Violate("sched-two-sessions/reply-of-another-request", fmt.Sprintf("session %08x received [%s], its queue held [%s]", id1, got[id1], want1a), detail)
		case got[id2] != want2:
			r.Violate("sched-two-sessions/reply-of-another-request", fmt.Sprintf("session %08x received [%s], its queue held [%s]", id2, got[id2], want2), detail)
		}
	})
	if t.Err != nil {
		r.Violate("harness/nondeterminism", t.Err.Error(), nil)
	}
	if t.Capped {
		r.NotExhaustive("two-sessions schedules stopped by the internal deadline")
	}
	for o := range outcomes {
		r.Outcome("sched-two-sessions/" + o)
	}
	r.Extra["schedules_two_sessions"] = map[string]any{"executions": t.Executions, "choice_points": t.Points, "preemption_bound": bound, "distinct_observations": len(outcomes)}
	r.Eval(int(t.Executions))
	r.AddStates(t.Points, t.Points, t.Executions)
}

func tailStr(s []string, n int) []string {
	if len(s) > n {
		return s[len(s)-n:]
	}
	return s
}
