package c04

import (
	"fmt"
	"strings"
	"time"

	"Havoc/pkg/agent"

	"verifmc/demonwire"
	"verifmc/ev"
	"verifmc/explore"
	"verifmc/seam"
	"verifmc/vsched"
)

// runQueueEdits: the operator's queue edits ("task clear", "task list") on a direct agent
// run while a task is queued for an agent linked behind it and while the direct agent
// checks in.  The queue of the direct agent holds one task beforehand, so the clear takes
// its non-empty branch.  Whatever the interleaving: nobody blocks for ever, no lock stays
// held, and the task for the linked agent is delivered (wrapped) at most once and is lost
// only if its queueing began before the clear returned.
func runQueueEdits(r *ev.Run) {
	if !vsched.Instrumented {
		return
	}
	bound := 2
	if r.Thorough() {
		bound = 3
	}
	r.Bounds["preemption_bound_queue_edits"] = bound
	const idP, idL = 0x0000d031, 0x0000d0c5
	for _, edit := range []string{"task::clear", "task::list"} {
		edit := edit
		outcomes := map[string]bool{}
		t := explore.Tree{Bound: bound, Deadline: time.Now().Add(deadline(r))}
		t.Run(func(c *explore.Chooser) {
			ts := seam.New(seam.Options{})
			defer ts.Close()
			p := ts.MustRegister(idP, 1)
			b := &demonwire.W{}
			b.I32(agent.DEMON_PIVOT_SMB_CONNECT).I32(1).Bytes(demonwire.Register(idL, seam.Key(3), seam.IV(3), demonwire.DefaultMeta(idL)))
			ts.CheckIn(idP, 1, demonwire.Sub{Cmd: agent.COMMAND_PIVOT, Body: b.B})
			if ts.Agent(idL) == nil {
				r.Violate("sched-queue-edits/setup", "the linked agent did not register", nil)
				return
			}
			ts.Task(idP, "00000901", agent.COMMAND_SLEEP, map[string]any{"Arguments": "5;10"})
			s := vsched.New(c, 20000, "JobQueue", "Tasks", "sync.Mutex", "Parent", "Links")
			s.SpinFree = 16
			var bad []string
			clock, editReturned, enqCalled := 0, 0, 0
			pivots := 0
			s.Spawn("operator-edit", func() {
				if x := ts.Task(idP, "00000902", 0, map[string]any{"CommandID": "Teamserver", "Command": edit}); x != nil && !vsched.IsAbort(x) {
					bad = append(bad, fmt.Sprint("operator-edit: ", x))
				}
				clock++
				editReturned = clock
			})
			s.Spawn("operator-task", func() {
				clock++
				enqCalled = clock
				if x := ts.Task(idL, "00000903", agent.COMMAND_SLEEP, map[string]any{"Arguments": "7;0"}); x != nil && !vsched.IsAbort(x) {
					bad = append(bad, fmt.Sprint("operator-task: ", x))
				}
			})
			s.Spawn("listener", func() {
				res, tasks, _ := ts.CheckIn(idP, 1)
				if res.Panic != nil {
					if !vsched.IsAbort(res.Panic) {
						bad = append(bad, fmt.Sprintf("listener: %v @ %s", res.Panic, res.Stack))
					}
					return
				}
				for _, tk := range tasks {
					if tk.Cmd == agent.COMMAND_PIVOT {
						pivots++
					}
				}
			})
			s.Run()
			detail := map[string]any{"edit": edit, "choices": c.Choices(), "schedule_tail": tailStr(s.Trace, 60)}
			switch {
			case len(s.Panics) > 0 || len(bad) > 0:
				all := append(append([]string(nil), s.Panics...), bad...)
				r.Violate("sched-queue-edits/panic/"+ev.Normalize(all[0]), fmt.Sprint(all), detail)
				return
			case s.Deadlock:
				r.Violate("sched-queue-edits/deadlock", "the operator's "+edit+" on the direct agent and the queueing of a task for the agent linked behind it block each other: "+s.DeadlockWhy, detail)
				return
			case s.HorizonHit:
				r.Violate("sched-queue-edits/horizon", "did not finish", detail)
				return
			case len(s.Held()) > 0:
				r.Violate("sched-queue-edits/lock-held", fmt.Sprint(s.Held()), detail)
				return
			}
			rest := 0
			for _, j := range p.JobQueue {
				if j.Command == agent.COMMAND_PIVOT {
					rest++
				}
			}
			obs := fmt.Sprintf("delivered=%d still-queued=%d queued-after-the-edit-returned=%v", pivots, rest, enqCalled > editReturned && editReturned != 0)
			outcomes[obs] = true
			detail["observed"] = obs
			switch {
			case pivots+rest > 1:
				r.Violate("sched-queue-edits/duplicate-task", "the one task for the linked agent exists twice: "+obs, detail)
			case pivots+rest == 0 && (edit != "task::clear" || (editReturned != 0 && enqCalled > editReturned)):
				r.Violate("sched-queue-edits/lost-task", "the task for the linked agent is neither delivered nor queued, and no clear can have removed it: "+obs, detail)
			}
		})
		if t.Err != nil {
			r.Violate("harness/nondeterminism", t.Err.Error(), nil)
		}
		if t.Capped {
			r.NotExhaustive("queue-edit schedules (" + edit + ") stopped by the internal deadline")
		}
		for o := range outcomes {
			r.Outcome("sched-queue-edits/" + edit + "/" + o)
		}
		r.Extra["schedules_queue_edits_"+strings.ReplaceAll(edit, "::", "_")] = map[string]any{"executions": t.Executions, "choice_points": t.Points, "preemption_bound": bound, "distinct_observations": len(outcomes)}
		r.Eval(int(t.Executions))
		r.AddStates(t.Points, t.Points, t.Executions)
	}
}
