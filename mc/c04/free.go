package c04

import (
	"fmt"
	"sync"

	"Havoc/pkg/agent"

	"verifmc/ev"
	"verifmc/seam"
)

// runFree is the auxiliary free-running race pass (DESIGN.md 3.5 / 9.6): the bodies of
// the schedule scenarios - operator tasking through DispatchEvent, a relay queueing for
// the direct agent and for an agent two hops behind it, the listener's HTTP check-ins -
// on real goroutines in a binary built with the race detector (plain build).  It decides
// nothing; tools/race_report.py compares the reported locations with the scheduling
// points of the instrumented build.
func runFree(r *ev.Run) {
	for it := 0; it < 40; it++ {
		ts := seam.New(seam.Options{})
		d := ts.MustRegister(idD, 1)
		mk := func(name string, k byte, parent *agent.Agent) *agent.Agent {
			p := &agent.Agent{NameID: name, Info: &agent.AgentInfo{}}
			p.Encryption.AESKey, p.Encryption.AESIv = seam.Key(k), seam.IV(k)
			p.Pivots.Parent = parent
			parent.Pivots.Links = append(parent.Pivots.Links, p)
			return p
		}
		p1 := mk("0000d002", 2, d)
		p2 := mk("0000d003", 3, p1)
		var wg sync.WaitGroup
		run := func(f func()) { wg.Add(1); go func() { defer wg.Done(); f() }() }
		run(func() {
			for i := 0; i < 20; i++ {
				ts.Task(idD, fmt.Sprintf("%08x", 0x100+i), agent.COMMAND_SLEEP, map[string]any{"Arguments": "5;10"})
			}
		})
		run(func() {
			for i := 0; i < 20; i++ {
				d.AddJobToQueue(agent.Job{Command: 0x77, RequestID: uint32(0x200 + i), Data: []any{1}})
				p2.AddJobToQueue(agent.Job{Command: 0x77, RequestID: uint32(0x300 + i), Data: []any{1}})
			}
		})
		run(func() {
			for i := 0; i < 30; i++ {
				ts.CheckIn(idD, 1)
			}
		})
		wg.Wait()
		ts.Close()
		r.Eval(1)
	}
	r.NotExhaustive("free-running race pass: auxiliary, samples schedules; decides nothing")
}
