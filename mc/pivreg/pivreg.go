// Package pivreg: one schedule scenario shared by C04 and C08 - a new session C registers
// behind the direct agent D (D's check-in relays C's registration in an SMB connect
// callback) while an operator's Session.Input for C is dispatched.  Whatever the
// interleaving: if the teamserver accepted the task (C's list of outstanding request ids
// holds it), the task reaches D's next check-ins exactly once, wrapped for C.
package pivreg

import (
	"fmt"
	"os"
	"strings"
	"time"

	"Havoc/pkg/agent"

	"verifmc/demonwire"
	"verifmc/ev"
	"verifmc/explore"
	"verifmc/seam"
	"verifmc/vsched"
)

const (
	idD = 0x0000d001
	idC = 0x0000d0c3
	req = 0x00c0ffee
)

// Run explores the three scenarios (C08).
func Run(r *ev.Run, bound int, deadline time.Duration) {
	RunBasic(r, bound, deadline)
	cb := bound
	if cb > 2 {
		cb = 2 // three threads and two hops: bound 2 is ~10^4 executions, bound 3 does not finish in a thorough run
	}
	runChain(r, cb, deadline)
}

// RunBasic explores the two one-hop scenarios (C04, which has a chain scenario of its own).
func RunBasic(r *ev.Run, bound int, deadline time.Duration) {
	runRegister(r, bound, deadline)
	runAnswer(r, bound, deadline)
}

const idE = 0x0000d0e5

// unwrap peels one pivot layer: the task must be a COMMAND_PIVOT/SMB_COMMAND for child,
// its frame must carry exactly one task under the child's key.
func unwrap(tk demonwire.Task, child uint32, k byte) (demonwire.Task, string) {
	if tk.Cmd != agent.COMMAND_PIVOT {
		return tk, fmt.Sprintf("command %d is not a pivot command", tk.Cmd)
	}
	sub, c, frame, ok := demonwire.ParsePivotCommandTask(tk.Body)
	fr := &demonwire.R{B: frame}
	fid := fr.I32()
	pkg := fr.Bytes()
	if !ok || sub != agent.DEMON_PIVOT_SMB_COMMAND || c != child || fr.Err || fid != child {
		return tk, fmt.Sprintf("layer for %08x: sub=%d child=%08x frame-id=%08x", child, sub, c, fid)
	}
	inner, err := demonwire.ReadTasks(pkg, seam.Key(k), seam.IV(k))
	if err != nil || len(inner) != 1 {
		return tk, fmt.Sprintf("layer for %08x holds %d tasks (err=%v)", child, len(inner), err)
	}
	return inner[0], ""
}

// runChain: D <- C <- E.  One operator tasks E (two hops behind D), another tasks C, while
// the listener serves D's check-ins.  Whatever the interleaving: both tasks arrive through
// D exactly once, each wrapped once per hop for its own chain (every queue operation of a
// chain ends in the first hop's queue, under the first hop's lock).
func runChain(r *ev.Run, bound int, deadline time.Duration) {
	if !vsched.Instrumented {
		return
	}
	const reqC, reqE = 0x00c0ffc3, 0x00c0ffe5
	outcomes := map[string]bool{}
	t := explore.Tree{Bound: bound, Deadline: time.Now().Add(deadline)}
	t.Run(func(c *explore.Chooser) {
		ts := seam.New(seam.Options{})
		defer ts.Close()
		ts.MustRegister(idD, 1)
		b := &demonwire.W{}
		b.I32(agent.DEMON_PIVOT_SMB_CONNECT).I32(1).Bytes(demonwire.Register(idC, seam.Key(3), seam.IV(3), demonwire.DefaultMeta(idC)))
		ts.CheckIn(idD, 1, demonwire.Sub{Cmd: agent.COMMAND_PIVOT, Body: b.B})
		// E registers behind C: C reports the connect, D relays C's package
		eb := &demonwire.W{}
		eb.I32(agent.DEMON_PIVOT_SMB_CONNECT).I32(1).Bytes(demonwire.Register(idE, seam.Key(5), seam.IV(5), demonwire.DefaultMeta(idE)))
		cpkg := demonwire.CallbacksOnly(idC, seam.Key(3), seam.IV(3), demonwire.Sub{Cmd: agent.COMMAND_PIVOT, Body: eb.B})
		rw := &demonwire.W{}
		rw.I32(agent.DEMON_PIVOT_SMB_COMMAND).Bytes(cpkg)
		ts.CheckIn(idD, 1, demonwire.Sub{Cmd: agent.COMMAND_PIVOT, Body: rw.B})
		cA, eA := ts.Agent(idC), ts.Agent(idE)
		if cA == nil || eA == nil || eA.Pivots.Parent != cA {
			r.Violate("sched-chain/setup", "the chain D <- C <- E could not be built", nil)
			return
		}
		s := vsched.New(c, 20000, "JobQueue", "Tasks", "sync.Mutex", "Parent", "Links")
		s.SpinFree = 16
		var bad []string
		var got []demonwire.Task
		s.Spawn("operator-1", func() {
			if p := ts.Task(idE, fmt.Sprintf("%08x", reqE), agent.COMMAND_SLEEP, map[string]any{"Arguments": "5;10"}); p != nil && !vsched.IsAbort(p) {
				bad = append(bad, fmt.Sprint("operator-1: ", p))
			}
		})
		s.Spawn("operator-2", func() {
			if p := ts.Task(idC, fmt.Sprintf("%08x", reqC), agent.COMMAND_SLEEP, map[string]any{"Arguments": "6;11"}); p != nil && !vsched.IsAbort(p) {
				bad = append(bad, fmt.Sprint("operator-2: ", p))
			}
		})
		s.Spawn("listener", func() {
			for i := 0; i < 2; i++ {
				res, tasks, _ := ts.CheckIn(idD, 1)
				if res.Panic != nil {
					if !vsched.IsAbort(res.Panic) {
						bad = append(bad, fmt.Sprintf("listener: %v @ %s", res.Panic, res.Stack))
					}
					return
				}
				got = append(got, tasks...)
			}
		})
		s.Run()
		detail := map[string]any{"choices": c.Choices(), "schedule_tail": tail(s.Trace, 60)}
		switch {
		case len(s.Panics) > 0 || len(bad) > 0:
			all := append(append([]string(nil), s.Panics...), bad...)
			r.Violate("sched-chain/panic/"+ev.Normalize(all[0]), fmt.Sprint(all), detail)
			return
		case s.Deadlock:
			r.Violate("sched-chain/deadlock", s.DeadlockWhy, detail)
			return
		case s.HorizonHit:
			r.Violate("sched-chain/horizon", "did not finish", detail)
			return
		case len(s.Held()) > 0:
			r.Violate("sched-chain/lock-held", fmt.Sprint(s.Held()), detail)
			return
		}
		for i := 0; i < 2; i++ { // sequentially: whatever is still queued
			_, tasks, _ := ts.CheckIn(idD, 1)
			got = append(got, tasks...)
		}
		forC, forE, other := 0, 0, 0
		why := ""
		for _, tk := range got {
			if tk.Cmd == 10 { // COMMAND_NOJOB
				continue
			}
			l1, bad1 := unwrap(tk, idC, 3)
			if bad1 != "" {
				other++
				why = bad1
				continue
			}
			if l1.Cmd == agent.COMMAND_SLEEP && l1.ReqID == reqC {
				forC++
				continue
			}
			l2, bad2 := unwrap(l1, idE, 5)
			if bad2 == "" && l2.Cmd == agent.COMMAND_SLEEP && l2.ReqID == reqE {
				forE++
				continue
			}
			other++
			why = bad2
		}
		obs := fmt.Sprintf("for-C=%d for-E=%d other=%d", forC, forE, other)
		outcomes[obs] = true
		detail["observed"] = obs
		if forC != 1 || forE != 1 || other != 0 {
			kind := "lost-task"
			if forC > 1 || forE > 1 || other > 0 {
				kind = "duplicate-or-misrouted-task"
			}
			r.Violate("sched-chain/"+kind, fmt.Sprintf("one task was issued for C and one for E (two hops behind D); D's check-ins delivered %s %s", obs, why), detail)
		}
	})
	if t.Err != nil {
		r.Violate("harness/nondeterminism", t.Err.Error(), nil)
	}
	if t.Capped {
		r.NotExhaustive("chain schedules stopped by the internal deadline")
	}
	for o := range outcomes {
		r.Outcome("sched-chain/" + o)
	}
	r.Extra["schedules_chain"] = map[string]any{"executions": t.Executions, "choice_points": t.Points, "preemption_bound": bound, "distinct_observations": len(outcomes)}
	r.Eval(int(t.Executions))
	r.AddStates(t.Points, t.Points, t.Executions)
}

// runAnswer: C is a session behind D.  An operator's task for C is being issued while the
// listener serves D's check-ins; as soon as a check-in hands out the wrapped task, the
// agent's answer comes back relayed by D in the very next request.  Whatever the
// interleaving: an answer to a task that was handed out is acted upon (a task is not
// fetchable before its request id is outstanding on the session it is for).
func runAnswer(r *ev.Run, bound int, deadline time.Duration) {
	if !vsched.Instrumented {
		return
	}
	outcomes := map[string]bool{}
	sleepBody := func(d, j uint32) []byte { w := &demonwire.W{}; w.I32(d).I32(j); return w.B }
	t := explore.Tree{Bound: bound, Deadline: time.Now().Add(deadline)}
	t.Run(func(c *explore.Chooser) {
		ts := seam.New(seam.Options{})
		defer ts.Close()
		ts.MustRegister(idD, 1)
		b := &demonwire.W{}
		b.I32(agent.DEMON_PIVOT_SMB_CONNECT).I32(1).Bytes(demonwire.Register(idC, seam.Key(3), seam.IV(3), demonwire.DefaultMeta(idC)))
		ts.CheckIn(idD, 1, demonwire.Sub{Cmd: agent.COMMAND_PIVOT, Body: b.B})
		cA := ts.Agent(idC)
		if cA == nil {
			r.Violate("sched-answer/setup", "C did not register behind D", nil)
			return
		}
		s := vsched.New(c, 20000, "JobQueue", "Tasks", "sync.Mutex", "Parent", "Links")
		s.SpinFree = 16
		var bad []string
		handedOut, answered := false, false
		s.Spawn("operator", func() {
			if p := ts.Task(idC, fmt.Sprintf("%08x", req), agent.COMMAND_SLEEP, map[string]any{"Arguments": "5;10"}); p != nil && !vsched.IsAbort(p) {
				bad = append(bad, fmt.Sprint("operator: ", p))
			}
		})
		s.Spawn("listener", func() {
			for i := 0; i < 2 && !handedOut; i++ {
				res, tasks, _ := ts.CheckIn(idD, 1)
				if res.Panic != nil {
					if !vsched.IsAbort(res.Panic) {
						bad = append(bad, fmt.Sprintf("listener: %v @ %s", res.Panic, res.Stack))
					}
					return
				}
				for _, tk := range tasks {
					if tk.Cmd == agent.COMMAND_PIVOT {
						handedOut = true
					}
				}
			}
			if !handedOut {
				return
			}
			// C's answer, relayed by D
			pkg := demonwire.CallbacksOnly(idC, seam.Key(3), seam.IV(3), demonwire.Sub{Cmd: agent.COMMAND_SLEEP, ReqID: req, Body: sleepBody(42, 3)})
			w := &demonwire.W{}
			w.I32(agent.DEMON_PIVOT_SMB_COMMAND).Bytes(pkg)
			res, _, _ := ts.CheckIn(idD, 1, demonwire.Sub{Cmd: agent.COMMAND_PIVOT, Body: w.B})
			if res.Panic != nil && !vsched.IsAbort(res.Panic) {
				bad = append(bad, fmt.Sprintf("listener: %v @ %s", res.Panic, res.Stack))
			}
			answered = true
		})
		s.Run()
		detail := map[string]any{"choices": c.Choices(), "schedule_tail": tail(s.Trace, 60)}
		switch {
		case len(s.Panics) > 0 || len(bad) > 0:
			all := append(append([]string(nil), s.Panics...), bad...)
			r.Violate("sched-answer/panic/"+ev.Normalize(all[0]), fmt.Sprint(all), detail)
			return
		case s.Deadlock:
			r.Violate("sched-answer/deadlock", s.DeadlockWhy, detail)
			return
		case s.HorizonHit:
			r.Violate("sched-answer/horizon", "did not finish", detail)
			return
		case len(s.Held()) > 0:
			r.Violate("sched-answer/lock-held", fmt.Sprint(s.Held()), detail)
			return
		}
		acted := cA.Info.SleepDelay == 42
		obs := fmt.Sprintf("handed-out-during-the-run=%v answered=%v acted=%v", handedOut, answered, acted)
		outcomes[obs] = true
		detail["observed"] = obs
		if os.Getenv("VERIF_PIVREG_DEBUG") != "" {
			fmt.Fprintln(os.Stderr, "DBG", obs, c.Choices(), strings.Join(s.Trace, " | "))
		}
		if answered && !acted {
			r.Violate("sched-answer/answer-to-a-handed-out-task-dropped", "the wrapped task left with D's check-in, its answer came back with D's next request and was not acted upon (the request id was not outstanding on C yet): "+obs, detail)
		}
	})
	if t.Err != nil {
		r.Violate("harness/nondeterminism", t.Err.Error(), nil)
	}
	if t.Capped {
		r.NotExhaustive("answer-vs-issue schedules stopped by the internal deadline")
	}
	for o := range outcomes {
		r.Outcome("sched-answer/" + o)
	}
	r.Extra["schedules_answer_vs_issue"] = map[string]any{"executions": t.Executions, "choice_points": t.Points, "preemption_bound": bound, "distinct_observations": len(outcomes)}
	r.Eval(int(t.Executions))
	r.AddStates(t.Points, t.Points, t.Executions)
}

// runRegister explores the registration scenario.
func runRegister(r *ev.Run, bound int, deadline time.Duration) {
	if !vsched.Instrumented {
		r.Violate("harness/not-instrumented", "the registration-vs-task scenario needs the sched build", nil)
		return
	}
	r.Bounds["preemption_bound_register_vs_task"] = bound
	outcomes := map[string]bool{}
	t := explore.Tree{Bound: bound, Deadline: time.Now().Add(deadline)}
	t.Run(func(c *explore.Chooser) {
		ts := seam.New(seam.Options{})
		defer ts.Close()
		d := ts.MustRegister(idD, 1)
		s := vsched.New(c, 20000, "JobQueue", "Tasks", "sync.Mutex", "Agents", "Parent", "Links")
		s.SpinFree = 16
		var bad []string
		var inRun []demonwire.Task
		s.Spawn("listener", func() {
			b := &demonwire.W{}
			b.I32(agent.DEMON_PIVOT_SMB_CONNECT).I32(1).Bytes(demonwire.Register(idC, seam.Key(3), seam.IV(3), demonwire.DefaultMeta(idC)))
			res, tasks, _ := ts.CheckIn(idD, 1, demonwire.Sub{Cmd: agent.COMMAND_PIVOT, Body: b.B})
			inRun = tasks // the reply to this very request may already carry the operator's task
			if res.Panic != nil && !vsched.IsAbort(res.Panic) {
				bad = append(bad, fmt.Sprintf("listener: %v @ %s", res.Panic, res.Stack))
			}
		})
		s.Spawn("operator", func() {
			if p := ts.Task(idC, fmt.Sprintf("%08x", req), agent.COMMAND_SLEEP, map[string]any{"Arguments": "5;10"}); p != nil && !vsched.IsAbort(p) {
				bad = append(bad, fmt.Sprint("operator: ", p))
			}
		})
		s.Run()
		detail := map[string]any{"choices": c.Choices(), "schedule_tail": tail(s.Trace, 60)}
		switch {
		case len(s.Panics) > 0 || len(bad) > 0:
			all := append(append([]string(nil), s.Panics...), bad...)
			r.Violate("sched-register/panic/"+ev.Normalize(all[0]), fmt.Sprint(all), detail)
			return
		case s.Deadlock:
			r.Violate("sched-register/deadlock", s.DeadlockWhy, detail)
			return
		case s.HorizonHit:
			r.Violate("sched-register/horizon", "did not finish", detail)
			return
		case len(s.Held()) > 0:
			r.Violate("sched-register/lock-held", fmt.Sprint(s.Held()), detail)
			return
		}
		// sequentially, no scheduler installed any more
		cA := ts.Agent(idC)
		if cA == nil || cA.Pivots.Parent != d {
			r.Violate("sched-register/not-registered", "after the relayed registration the new session does not exist below its parent", detail)
			return
		}
		accepted := false
		for _, j := range cA.Tasks {
			if j.RequestID == req {
				accepted = true
			}
		}
		delivered, other := 0, 0
		wrapBad := ""
		for i := 0; i < 3; i++ {
			tasks := inRun
			if i > 0 {
				_, tasks, _ = ts.CheckIn(idD, 1)
			}
			for _, tk := range tasks {
				switch tk.Cmd {
				case agent.COMMAND_PIVOT:
					delivered++
					// routing: one layer for the one hop, addressed to C, the operator's task inside under C's key
					sub, child, frame, ok := demonwire.ParsePivotCommandTask(tk.Body)
					fr := &demonwire.R{B: frame}
					fid := fr.I32()
					pkg := fr.Bytes()
					inner, err := demonwire.ReadTasks(pkg, seam.Key(3), seam.IV(3))
					if !ok || sub != agent.DEMON_PIVOT_SMB_COMMAND || child != idC || fr.Err || fid != idC || err != nil || len(inner) != 1 || inner[0].ReqID != req || inner[0].Cmd != agent.COMMAND_SLEEP {
						wrapBad = fmt.Sprintf("sub=%d child=%08x frame-id=%08x err=%v inner=%d tasks", sub, child, fid, err, len(inner))
					}
				case 10: // COMMAND_NOJOB
				default:
					other++
				}
			}
		}
		// (a pivot session's own JobQueue keeps a copy of every job by design - PivotAddJob
		// uses it for the size display - so it says nothing about delivery)
		obs := fmt.Sprintf("accepted=%v delivered-through-parent=%d", accepted, delivered)
		outcomes[obs] = true
		detail["observed"] = obs
		want := 0
		if accepted {
			want = 1
		}
		switch {
		case delivered < want:
			r.Violate("sched-register/lost-task", "the task was accepted (its request id is outstanding) but never reached the parent's check-ins: "+obs, detail)
		case wrapBad != "":
			r.Violate("sched-register/misrouted-task", "the task delivered through the parent is not the operator's task wrapped once for the new session: "+wrapBad, detail)
		case delivered > want || other > 0:
			r.Violate("sched-register/duplicate-or-stray-task", fmt.Sprintf("%s, %d other tasks", obs, other), detail)
		}
	})
	if t.Err != nil {
		r.Violate("harness/nondeterminism", t.Err.Error(), nil)
	}
	if t.Capped {
		r.NotExhaustive("registration-vs-task schedules stopped by the internal deadline")
	}
	for o := range outcomes {
		r.Outcome("sched-register/" + o)
	}
	r.Extra["schedules_register_vs_task"] = map[string]any{"executions": t.Executions, "choice_points": t.Points, "preemption_bound": bound, "distinct_observations": len(outcomes)}
	r.Eval(int(t.Executions))
	r.AddStates(t.Points, t.Points, t.Executions)
}

func tail(s []string, n int) []string {
	if len(s) > n {
		return s[len(s)-n:]
	}
	return s
}
