package c10

import (
	"bufio"
	"bytes"
	"encoding/json"
	"fmt"
	"os"
	"os/exec"
	"path/filepath"
	"strconv"
	"strings"
	"time"

	"verifmc/ev"
)

// ShimPath returns the crash shim, building it when the .so is missing.
func ShimPath() (string, error) {
	dir := filepath.Join(ev.Root(), "shim")
	so := filepath.Join(dir, "crashshim.so")
	src := filepath.Join(dir, "crashshim.c")
	si, serr := os.Stat(so)
	ci, cerr := os.Stat(src)
	if serr == nil && (cerr != nil || !ci.ModTime().After(si.ModTime())) {
		return so, nil
	}
	if cerr != nil {
		return "", fmt.Errorf("crash shim source missing: %v", cerr)
	}
	out, err := exec.Command("make", "-C", dir, "-s").CombinedOutput()
	if err != nil {
		// no make: compile directly
		out, err = exec.Command("gcc", "-O2", "-fPIC", "-shared", "-o", so, src, "-ldl", "-lpthread").CombinedOutput()
	}
	if err != nil {
		return "", fmt.Errorf("cannot build crash shim: %v: %s", err, out)
	}
	return so, nil
}

// Call is one tracked libc call of the op-log.
type Call struct {
	N    int    `json:"n"`
	Kind string `json:"kind"`
	File string `json:"file"`
	Off  int64  `json:"off"`
	Len  int64  `json:"len"`
	Op   int    `json:"op"` // operation during which it happened (-1: creation of the database)
}

func (c Call) shape() string { return fmt.Sprintf("%s %s %d %d", c.Kind, c.File, c.Off, c.Len) }

// RunLog is the parsed op-log of one worker run.
type RunLog struct {
	Calls   []Call
	Begun   int                         // last operation begun (-2: none)
	Acked   int                         // last operation acknowledged (-2: none)
	Acks    map[int]map[uint32]*Derived // derived values at each acknowledgement
	Crashed bool                        // the shim's CRASH-BEFORE / torn line is present
	Exit    int
	Stderr  string
}

func parseOplog(path string) (*RunLog, error) {
	l := &RunLog{Begun: -2, Acked: -2, Acks: map[int]map[uint32]*Derived{}}
	f, err := os.Open(path)
	if err != nil {
		return l, err
	}
	defer f.Close()
	sc := bufio.NewScanner(f)
	sc.Buffer(make([]byte, 1<<20), 1<<24)
	for sc.Scan() {
		line := sc.Text()
		if strings.HasPrefix(line, "#B ") {
			l.Begun, _ = strconv.Atoi(line[3:])
			continue
		}
		if strings.HasPrefix(line, "#A ") {
			p := strings.SplitN(line[3:], " ", 2)
			l.Acked, _ = strconv.Atoi(p[0])
			raw := map[string]*Derived{}
			if len(p) > 1 {
				json.Unmarshal([]byte(p[1]), &raw)
			}
			m := map[uint32]*Derived{}
			for k, v := range raw {
				id, _ := strconv.ParseUint(k, 16, 64)
				m[uint32(id)] = v
			}
			l.Acks[l.Acked] = m
			continue
		}
		if strings.HasPrefix(line, "#") {
			continue
		}
		p := strings.Fields(line)
		if len(p) >= 2 && p[1] == "CRASH-BEFORE" {
			l.Crashed = true
			continue
		}
		if len(p) < 5 {
			return l, fmt.Errorf("op-log line %q", line)
		}
		c := Call{Kind: p[1], File: p[2], Op: l.Begun}
		c.N, _ = strconv.Atoi(p[0])
		c.Off, _ = strconv.ParseInt(p[3], 10, 64)
		c.Len, _ = strconv.ParseInt(p[4], 10, 64)
		if len(p) > 5 && strings.HasPrefix(p[5], "torn=") {
			l.Crashed = true
			continue
		}
		l.Calls = append(l.Calls, c)
	}
	return l, sc.Err()
}

// runWorker runs the history in a worker subprocess under the shim, in a fresh (or,
// for a resumed session, existing) directory.  crashAt = 0: no kill.
func runWorker(shim string, h History, dir string, crashAt, tear int, snap bool) (*RunLog, error) {
	real, err := filepath.EvalSymlinks(dir)
	if err != nil {
		return nil, err
	}
	os.MkdirAll(filepath.Join(real, "db"), 0o755)
	os.MkdirAll(filepath.Join(real, "tmp"), 0o755)
	hp := filepath.Join(real, "hist.json")
	if err := os.WriteFile(hp, h.JSON(), 0o644); err != nil {
		return nil, err
	}
	oplog := filepath.Join(real, "oplog")
	os.Remove(oplog)
	cmd := exec.Command(os.Args[0])
	var env []string
	for _, e := range os.Environ() {
		if strings.HasPrefix(e, "VERIF_WORKER=") || strings.HasPrefix(e, "VERIF_PARTIAL=") || strings.HasPrefix(e, "TMPDIR=") ||
			strings.HasPrefix(e, "VERIF_CRASH_AT=") || strings.HasPrefix(e, "VERIF_TEAR=") || strings.HasPrefix(e, "LD_PRELOAD=") {
			continue
		}
		env = append(env, e)
	}
	env = append(env, "VERIF_C10_MODE=worker", "VERIF_C10_DIR="+real, "VERIF_C10_HIST="+hp, "VERIF_OPLOG="+oplog,
		"VERIF_SHIM_PREFIX="+filepath.Join(real, "db")+"/", "LD_PRELOAD="+shim, "TMPDIR="+filepath.Join(real, "tmp"), "GOMAXPROCS=2")
	if crashAt > 0 {
		env = append(env, fmt.Sprintf("VERIF_CRASH_AT=%d", crashAt))
		if tear > 0 {
			env = append(env, fmt.Sprintf("VERIF_TEAR=%d", tear))
		}
	}
	if snap {
		env = append(env, "VERIF_C10_SNAP=1")
	}
	cmd.Env = env
	var stderr bytes.Buffer
	cmd.Stderr = &stderr
	cmd.Stdout = &stderr
	code, err := runTimed(cmd, 120*time.Second)
	if err != nil {
		return nil, err
	}
	l, perr := parseOplog(oplog)
	l.Exit = code
	l.Stderr = tailStr(stderr.String(), 2000)
	return l, perr
}

func runTimed(cmd *exec.Cmd, d time.Duration) (int, error) {
	if err := cmd.Start(); err != nil {
		return -1, err
	}
	done := make(chan error, 1)
	go func() { done <- cmd.Wait() }()
	select {
	case err := <-done:
		if err == nil {
			return 0, nil
		}
		if ee, ok := err.(*exec.ExitError); ok {
			return ee.ExitCode(), nil
		}
		return -1, err
	case <-time.After(d):
		cmd.Process.Kill()
		<-done
		return -1, fmt.Errorf("subprocess exceeded %s", d)
	}
}

func tailStr(s string, n int) string {
	if len(s) > n {
		return s[len(s)-n:]
	}
	return s
}

// runRestore runs the real Teamserver.Start() on a copy of the database in a fresh
// process and returns what it restored.
func runRestore(dbFile, scratch string) *Obs {
	real, err := filepath.EvalSymlinks(scratch)
	if err != nil {
		return &Obs{Err: err.Error()}
	}
	os.MkdirAll(filepath.Join(real, "db"), 0o755)
	copyFile(dbFile, filepath.Join(real, "db", "ts.db"))
	if _, err := os.Stat(dbFile + "-journal"); err == nil {
		copyFile(dbFile+"-journal", filepath.Join(real, "db", "ts.db-journal"))
	}
	cmd := exec.Command(os.Args[0])
	var env []string
	for _, e := range os.Environ() {
		if strings.HasPrefix(e, "VERIF_WORKER=") || strings.HasPrefix(e, "VERIF_PARTIAL=") || strings.HasPrefix(e, "LD_PRELOAD=") {
			continue
		}
		env = append(env, e)
	}
	cmd.Env = append(env, "VERIF_C10_MODE=restore", "VERIF_C10_DIR="+real, "GOMAXPROCS=2")
	var stdout, stderr bytes.Buffer
	cmd.Stdout = &stdout
	cmd.Stderr = &stderr
	code, err := runTimed(cmd, 60*time.Second)
	if err != nil {
		return &Obs{Err: "restore process: " + err.Error()}
	}
	if code != 0 {
		return &Obs{Err: fmt.Sprintf("restore process died with exit code %d: %s", code, ev.Normalize(firstPanicLine(stderr.String())))}
	}
	o := NewObs()
	if err := json.Unmarshal(bytes.TrimSpace(stdout.Bytes()), o); err != nil {
		return &Obs{Err: "restore process output: " + err.Error() + ": " + tailStr(stdout.String(), 300)}
	}
	return o
}

func firstPanicLine(s string) string {
	for _, l := range strings.Split(s, "\n") {
		if strings.HasPrefix(l, "panic:") || strings.HasPrefix(l, "fatal error:") {
			return l
		}
	}
	return tailStr(s, 200)
}
