package c10

import (
	"bytes"
	"encoding/json"
	"fmt"
	"io"
	"net/http/httptest"
	"os"
	"path/filepath"
	"strconv"
	"time"

	"Havoc/pkg/db"
	"Havoc/pkg/handlers"
	"Havoc/pkg/packager"

	"verifmc/demonwire"
	"verifmc/seam"
)

// The worker executes one history on a real teamserver whose database lives at
// <dir>/db/ts.db.  It runs under LD_PRELOAD=crashshim.so and may be killed by the shim
// at any tracked call.  It appends marker lines to the shim's op-log (Go writes do not
// pass through libc, so they are not tracked):
//
//	#B <i>          operation i is about to start (i = -1: creation of the database)
//	#A <i> <json>   operation i has been acknowledged; json = derived in-memory values
const (
	cmdSleep   = 11
	cmdExit    = 92
	cmdCheckin = 100
	cmdPivot   = 2520
	pivConnect = 10
	pivDisconn = 11
)

type world struct {
	ts     *seam.TS
	dbPath string
	keyIdx map[uint32]byte
	log    *os.File
}

func (w *world) mark(format string, a ...any) {
	if w.log != nil {
		fmt.Fprintf(w.log, format+"\n", a...)
	}
}

func fail(format string, a ...any) {
	fmt.Fprintf(os.Stderr, "c10 worker: "+format+"\n", a...)
	os.Exit(3)
}

func newTS(dbPath string) *seam.TS {
	ts := seam.New(seam.Options{NoDB: true, TrustXFF: true})
	d, err := db.DatabaseNew(dbPath)
	if err != nil {
		fail("DatabaseNew: %v", err)
	}
	ts.T.DB = d
	return ts
}

// WorkerMain is the entry point of the worker mode.
func WorkerMain() {
	dir := os.Getenv("VERIF_C10_DIR")
	var h History
	b, err := os.ReadFile(os.Getenv("VERIF_C10_HIST"))
	if err != nil {
		fail("history: %v", err)
	}
	if err := json.Unmarshal(b, &h); err != nil {
		fail("history: %v", err)
	}
	w := &world{dbPath: filepath.Join(dir, "db", "ts.db"), keyIdx: map[uint32]byte{}}
	if p := os.Getenv("VERIF_OPLOG"); p != "" {
		w.log, err = os.OpenFile(p, os.O_WRONLY|os.O_CREATE|os.O_APPEND, 0o644)
		if err != nil {
			fail("oplog: %v", err)
		}
	}
	snap := os.Getenv("VERIF_C10_SNAP") == "1"
	if snap {
		os.MkdirAll(filepath.Join(dir, "snap"), 0o755)
	}
	// resumed session (the directory already holds a database): restore first
	_, statErr := os.Stat(w.dbPath)
	w.mark("#B -1")
	w.ts = newTS(w.dbPath)
	if statErr == nil {
		w.restore()
	}
	w.mark("#A -1 {}")
	if snap {
		w.snapshot(filepath.Join(dir, "snap", "-1.db"))
	}
	for i, op := range h.Ops {
		w.mark("#B %d", i)
		if err := w.exec(i, op); err != nil {
			w.mark("#F %d %s", i, err)
			fail("op %d %s: %v", i, op, err)
		}
		d, _ := json.Marshal(w.derived())
		w.mark("#A %d %s", i, d)
		if snap {
			w.snapshot(filepath.Join(dir, "snap", fmt.Sprintf("%d.db", i)))
		}
	}
	os.Exit(0)
}

func (w *world) snapshot(dst string) {
	copyFile(w.dbPath, dst)
	if _, err := os.Stat(w.dbPath + "-journal"); err == nil {
		copyFile(w.dbPath+"-journal", dst+"-journal")
	}
}

func copyFile(src, dst string) {
	in, err := os.Open(src)
	if err != nil {
		fail("copy: %v", err)
	}
	defer in.Close()
	out, err := os.Create(dst)
	if err != nil {
		fail("copy: %v", err)
	}
	if _, err := io.Copy(out, in); err != nil {
		fail("copy: %v", err)
	}
	out.Close()
}

func (w *world) derived() map[string]*Derived {
	out := map[string]*Derived{}
	for _, a := range w.ts.T.Agents.Agents {
		if a == nil || a.Info == nil {
			continue
		}
		out[a.NameID] = &Derived{Arch: a.Info.ProcessArch, Elev: a.Info.Elevated, OSVer: a.Info.OSVersion, OSArch: a.Info.OSArch, First: a.Info.FirstCallIn}
	}
	return out
}

func (w *world) post(body []byte, xff string) seam.Result {
	req := httptest.NewRequest("POST", "/", bytes.NewReader(body))
	req.RemoteAddr = "10.9.8.7:5555"
	if xff != "" {
		req.Header.Set("X-Forwarded-For", xff)
	}
	return seam.Serve(w.ts.HTTP.GinEngine, req)
}

func (w *world) checkin(id uint32, subs ...demonwire.Sub) error {
	k := w.keyIdx[id]
	r := w.post(demonwire.CheckIn(id, seam.Key(k), seam.IV(k), subs...), "10.9.8.7")
	if r.Panic != nil {
		return fmt.Errorf("panic: %v at %s", r.Panic, r.Stack)
	}
	return nil
}

func (w *world) task(i int, id uint32, cmd int, info map[string]any) (uint32, error) {
	req := uint32(0xa000 + i)
	if p := w.ts.Task(id, fmt.Sprintf("%08x", req), cmd, info); p != nil {
		return 0, fmt.Errorf("task panic: %v", p)
	}
	return req, nil
}

func (w *world) dispatch(ev, sub int, info map[string]any) (err error) {
	defer func() {
		if p := recover(); p != nil {
			err = fmt.Errorf("DispatchEvent panic: %v at %s", p, seam.StackTop())
		}
	}()
	w.ts.T.DispatchEvent(packager.Package{Head: packager.Head{Event: ev, User: "op1"}, Body: packager.Body{SubEvent: sub, Info: info}})
	return nil
}

func (w *world) exec(i int, o Op) error {
	switch o.Kind {
	case OpReg:
		known := w.ts.Agent(o.ID) != nil
		r := w.post(demonwire.Register(o.ID, seam.Key(o.K), seam.IV(o.K), o.Meta.Wire(o.ID)), o.Meta.ExtIP)
		if r.Panic != nil {
			return fmt.Errorf("panic: %v at %s", r.Panic, r.Stack)
		}
		if r.Status != 200 || w.ts.Agent(o.ID) == nil {
			return fmt.Errorf("registration not acknowledged: status %d", r.Status)
		}
		if !known {
			w.keyIdx[o.ID] = o.K
		}
	case OpPoll:
		return w.checkin(o.ID)
	case OpSleep:
		req, err := w.task(i, o.ID, cmdSleep, map[string]any{"Arguments": fmt.Sprintf("%d;%d", o.Delay, o.Jitter)})
		if err != nil {
			return err
		}
		b := &demonwire.W{}
		b.I32(uint32(o.Delay)).I32(uint32(o.Jitter))
		return w.checkin(o.ID, demonwire.Sub{Cmd: cmdSleep, ReqID: req, Body: b.B})
	case OpCheckin:
		req, err := w.task(i, o.ID, cmdCheckin, nil)
		if err != nil {
			return err
		}
		b := &demonwire.W{}
		b.Raw(seam.Key(o.K)).Raw(seam.IV(o.K)).Raw(o.Meta.Wire(o.ID).Encode())
		if err := w.checkin(o.ID, demonwire.Sub{Cmd: cmdCheckin, ReqID: req, Body: b.B}); err != nil {
			return err
		}
		w.keyIdx[o.ID] = o.K
	case OpExit:
		req, err := w.task(i, o.ID, cmdExit, map[string]any{"ExitMethod": "thread"})
		if err != nil {
			return err
		}
		b := &demonwire.W{}
		b.I32(1)
		return w.checkin(o.ID, demonwire.Sub{Cmd: cmdExit, ReqID: req, Body: b.B})
	case OpMarkDead, OpMarkAlive:
		mark := "Dead"
		if o.Kind == OpMarkAlive {
			mark = "Alive"
		}
		return w.dispatch(packager.Type.Session.Type, packager.Type.Session.MarkAsDead, map[string]any{"AgentID": fmt.Sprintf("%08x", o.ID), "Marked": mark})
	case OpPConnect:
		known := w.ts.Agent(o.Child) != nil
		k := o.K
		if known {
			k = w.keyIdx[o.Child]
		}
		b := &demonwire.W{}
		b.I32(pivConnect).I32(1).Bytes(demonwire.Register(o.Child, seam.Key(k), seam.IV(k), o.Meta.Wire(o.Child)))
		if err := w.checkin(o.ID, demonwire.Sub{Cmd: cmdPivot, ReqID: 0, Body: b.B}); err != nil {
			return err
		}
		if w.ts.Agent(o.Child) == nil {
			return fmt.Errorf("pivot child not registered")
		}
		if !known {
			w.keyIdx[o.Child] = o.K
		}
	case OpPDisconnect:
		b := &demonwire.W{}
		b.I32(pivDisconn).I32(1).I32(o.Child)
		return w.checkin(o.ID, demonwire.Sub{Cmd: cmdPivot, ReqID: 0, Body: b.B})
	case OpLAdd:
		info := map[string]any{"Protocol": o.L.Kind, "Name": o.L.Name}
		switch o.L.Kind {
		case "Smb":
			info["PipeName"] = o.L.Pipe
		case "External":
			info["Endpoint"] = o.L.Endpoint
		case "Http":
			for k, v := range o.L.HTTP {
				info[k] = v
			}
		}
		return w.dispatch(packager.Type.Listener.Type, packager.Type.Listener.Add, info)
	case OpLEdit:
		info := map[string]any{"Protocol": o.L.Kind, "Name": o.L.Name}
		for k, v := range o.L.HTTP {
			info[k] = v
		}
		if err := w.dispatch(packager.Type.Listener.Type, packager.Type.Listener.Edit, info); err != nil {
			return err
		}
		// the edit must have reached the running listener (otherwise the history does not mean what the model thinks)
		for _, l := range w.ts.T.Listeners {
			if h, ok := l.Config.(*handlers.HTTP); ok && l.Name == o.L.Name && h.Config.UserAgent != o.L.HTTP["UserAgent"] {
				return fmt.Errorf("edit not applied to the running listener")
			}
		}
		return nil
	case OpLRemove:
		// Stop() of an HTTP listener needs the http.Server its Start() creates in a goroutine
		for _, l := range w.ts.T.Listeners {
			if h, ok := l.Config.(*handlers.HTTP); ok && l.Name == o.Name {
				for i := 0; i < 2000 && h.Server == nil; i++ {
					time.Sleep(time.Millisecond)
				}
			}
		}
		return w.dispatch(packager.Type.Listener.Type, packager.Type.Listener.Remove, map[string]any{"Name": o.Name})
	case OpRestart:
		old := w.ts
		w.ts = newTS(w.dbPath)
		w.restore()
		old.Close()
	default:
		return fmt.Errorf("unknown op kind %q", o.Kind)
	}
	return nil
}

// restore replicates, with the same database functions in the same order, what
// Teamserver.Start() does after opening an existing database (cmd/server/teamserver.go):
// listeners from ListenerAll through ListenerStart (SMB and External; an HTTP listener
// would bind a socket and is left out here - the real Start() is exercised by the
// restore mode, restore.go), then AgentAll -> AgentAdd, ParentOf / LinksOf -> Pivots.
// Used only for the session boundary inside a history (op "restart" and a resumed worker).
func (w *world) restore() {
	t := w.ts.T
	for _, l := range t.DB.ListenerAll() {
		var data map[string]any
		if json.Unmarshal([]byte(l["Config"]), &data) != nil {
			continue
		}
		switch l["Protocol"] {
		case handlers.AGENT_PIVOT_SMB:
			pipe, _ := data["PipeName"].(string)
			t.ListenerStart(handlers.LISTENER_PIVOT_SMB, handlers.SMBConfig{Name: l["Name"], PipeName: pipe})
		case handlers.AGENT_EXTERNAL:
			ep, _ := data["Endpoint"].(string)
			t.ListenerStart(handlers.LISTENER_EXTERNAL, handlers.ExternalConfig{Name: l["Name"], Endpoint: ep})
		}
	}
	agents := t.DB.AgentAll()
	for _, a := range agents {
		t.AgentAdd(a)
	}
	for _, a := range agents {
		if p, err := t.ParentOf(a); err == nil {
			a.Pivots.Parent = t.AgentInstance(p)
		}
		for _, id := range t.LinksOf(a) {
			a.Pivots.Links = append(a.Pivots.Links, t.AgentInstance(id))
		}
		// the Demon keeps using the key it registered with
		if id, err := strconv.ParseUint(a.NameID, 16, 32); err == nil {
			if _, ok := w.keyIdx[uint32(id)]; !ok {
				w.keyIdx[uint32(id)] = keyIndexOf(a.Encryption.AESKey)
			}
		}
	}
}

func keyIndexOf(key []byte) byte {
	for k := 0; k < 16; k++ {
		if bytes.Equal(seam.Key(byte(k)), key) {
			return byte(k)
		}
	}
	return 0
}
