package c10

import (
	"encoding/hex"
	"encoding/json"
	"fmt"
	"sort"
	"strconv"

	"Havoc/pkg/agent"
	"Havoc/pkg/db"
)

func rowFromAgent(a *agent.Agent) *Row {
	i := a.Info
	return &Row{Active: a.Active, Reason: a.Reason, Key: hex.EncodeToString(a.Encryption.AESKey), IV: hex.EncodeToString(a.Encryption.AESIv),
		Host: i.Hostname, User: i.Username, Domain: i.DomainName, ExtIP: i.ExternalIP, IntIP: i.InternalIP, Proc: i.ProcessName,
		Base: i.BaseAddress, PID: i.ProcessPID, TID: i.ProcessTID, PPID: i.ProcessPPID, Sleep: i.SleepDelay, Jitter: i.SleepJitter,
		Kill: i.KillDate, WH: i.WorkingHours, Arch: i.ProcessArch, Elev: i.Elevated, OSVer: i.OSVersion, OSArch: i.OSArch,
		First: i.FirstCallIn, Last: i.LastCallIn}
}

// ObserveDB reopens the database file with the repository's own db package (a new
// connection in a process other than the one that wrote it; a hot journal left by the
// kill is rolled back by SQLite on the first read) and reads what a restart reads:
// AgentAll, ParentOf / LinksOf of every restored agent, ListenerAll.
func ObserveDB(path string) *Obs {
	o := NewObs()
	d, err := db.DatabaseNew(path)
	if err != nil {
		o.Err = "DatabaseNew: " + err.Error()
		return o
	}
	defer closeDB(d)
	for _, a := range d.AgentAll() {
		id64, err := strconv.ParseUint(a.NameID, 16, 64)
		if err != nil || id64 > 0xffffffff {
			o.Err = "AgentAll returned id " + a.NameID
			return o
		}
		id := uint32(id64)
		if o.Agents[id] != nil {
			o.Err = fmt.Sprintf("AgentAll returned agent %08x twice", id)
			return o
		}
		o.Agents[id] = rowFromAgent(a)
		if p, err := d.ParentOf(int(id)); err == nil {
			o.Parent[id] = uint32(p)
		}
		var ls []uint32
		for _, l := range d.LinksOf(int(id)) {
			ls = append(ls, uint32(l))
		}
		sort.Slice(ls, func(i, j int) bool { return ls[i] < ls[j] })
		if len(ls) > 0 {
			o.Links[id] = ls
		}
	}
	for _, l := range d.ListenerAll() {
		if _, dup := o.Listeners[l["Name"]]; dup {
			o.Err = "ListenerAll returned listener " + l["Name"] + " twice"
			return o
		}
		o.Listeners[l["Name"]] = LObs{Kind: l["Protocol"], Config: canonDBConfig(l["Protocol"], l["Config"])}
	}
	return o
}

// canonDBConfig turns the Config JSON of a TS_Listeners row into the canonical
// field -> value form of ExpectedConfig (this is the one place that knows how
// cmd/server/listener.go ListenerAdd lays the configuration out).
func canonDBConfig(kind, conf string) map[string]any {
	var data map[string]any
	if err := json.Unmarshal([]byte(conf), &data); err != nil {
		return map[string]any{"<json>": err.Error()}
	}
	out := map[string]any{}
	cp := func(dst, src string) {
		if v, ok := data[src]; ok {
			out[dst] = v
		}
	}
	list := func(dst, src string) {
		if v, ok := data[src].(string); ok {
			out[dst] = encList(splitNonEmpty(v))
		}
	}
	switch kind {
	case "Smb":
		cp("PipeName", "PipeName")
	case "External":
		cp("Endpoint", "Endpoint")
	case "Http", "Https":
		list("Hosts", "Hosts")
		list("Headers", "Headers")
		list("Uris", "Uris")
		for _, k := range []string{"HostBind", "HostRotation", "PortBind", "PortConn", "HostHeader", "UserAgent"} {
			cp(k, k)
		}
		if v, ok := data["Secure"].(string); ok {
			out["Secure"] = v == "true"
		}
		cp("Proxy.Enabled", "Proxy Enabled")
		cp("Proxy.Type", "Proxy Type")
		cp("Proxy.Host", "Proxy Host")
		cp("Proxy.Port", "Proxy Port")
		cp("Proxy.Username", "Proxy Username")
		cp("Proxy.Password", "Proxy Password")
	}
	return out
}

// closeDB closes the *sql.DB inside db.DB through the export shim of the overlay (the
// package offers no Close; the harness reopens thousands of files).
func closeDB(d *db.DB) { d.VerifClose() }
