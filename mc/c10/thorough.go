package c10

import (
	"fmt"

	"verifmc/explore"
)

// The thorough tier adds an explicit-state search over histories: the alphabet below,
// breadth first, a state being the dbmodel state (persistent rows plus the set of
// sessions the running process has in memory).  Every edge (state, operation) that the
// search visits becomes one history - the shortest one that reaches the state, plus
// the operation - and the real teamserver is killed at every tracked call of that LAST
// operation (the kill points of the earlier operations belong to the edges of the
// shorter histories) and restarted after it.

func bfsAlphabet() []Op {
	d := DefMeta()
	m2 := DefMeta()
	m2.Host, m2.User, m2.Sleep, m2.Jitter, m2.PID = "HOST2", "007", 7, 3, 4321
	cm := DefMeta()
	cm.ExtIP = ""
	return []Op{
		{Kind: OpReg, ID: idA, K: 1, Meta: mp(d)},
		{Kind: OpReg, ID: idB, K: 2, Meta: mp(d)},
		{Kind: OpSleep, ID: idA, Delay: 30, Jitter: 20},
		{Kind: OpCheckin, ID: idA, K: 4, Meta: &m2},
		{Kind: OpExit, ID: idA},
		{Kind: OpMarkDead, ID: idA},
		{Kind: OpMarkDead, ID: idB},
		{Kind: OpMarkDead, ID: idC},
		{Kind: OpMarkAlive, ID: idA},
		{Kind: OpMarkAlive, ID: idC},
		{Kind: OpPConnect, ID: idA, Child: idC, K: 3, Meta: &cm},
		{Kind: OpPConnect, ID: idB, Child: idC, K: 3, Meta: &cm},
		{Kind: OpPDisconnect, ID: idA, Child: idC},
		{Kind: OpPDisconnect, ID: idB, Child: idC},
		{Kind: OpPConnect, ID: idA, Child: idD, K: 5, Meta: &cm}, // a sibling of C below A
		{Kind: OpPDisconnect, ID: idA, Child: idD},
		{Kind: OpLAdd, L: smb("smb1", "pipe1")},
		{Kind: OpLAdd, L: ext("ext1", "ep1")},
		{Kind: OpLRemove, Name: "smb1"},
		{Kind: OpLRemove, Name: "ext1"},
		{Kind: OpRestart},
	}
}

// enabledOps: operations that are meaningful in state s (an operation on a session the
// process does not know, a second registration of a known id, the removal of a listener
// that does not exist ... are left out: they change nothing and issue no statement).
func enabledOps(s *State, alpha []Op) []int {
	var out []int
	direct := func(id uint32) bool { // known, active, not a pivot child: it talks to the listener itself
		_, child := s.parentOf(id)
		return s.Known[id] && s.Agents[id].Active && !child
	}
	for i, o := range alpha {
		ok := false
		switch o.Kind {
		case OpReg:
			ok = !s.Known[o.ID]
		case OpSleep, OpCheckin, OpExit:
			ok = direct(o.ID)
		case OpMarkDead:
			ok = s.Known[o.ID] && s.Agents[o.ID].Active
		case OpMarkAlive:
			ok = s.Known[o.ID] && !s.Agents[o.ID].Active
		case OpPConnect:
			// the parent relays the child's registration; a child that is known and active
			// under the same parent would be a duplicate frame
			ok = direct(o.ID) && !s.Links[[2]uint32{o.ID, o.Child}]
		case OpPDisconnect:
			ok = direct(o.ID) && s.Links[[2]uint32{o.ID, o.Child}]
		case OpLAdd:
			_, exists := s.Listeners[o.L.Name]
			ok = !exists
		case OpLRemove:
			_, ok = s.Listeners[o.Name]
		case OpRestart:
			ok = len(s.Agents)+len(s.Listeners) > 0
		}
		if ok {
			out = append(out, i)
		}
	}
	return out
}

// BFSHistories enumerates the edges of the search up to the given depth.
func BFSHistories(depth int) (hs []History, states, transitions int64) {
	alpha := bfsAlphabet()
	b := explore.BFS{MaxDepth: depth}
	b.Run(func(hist []int) explore.StepResult {
		s := NewState()
		for _, i := range hist {
			s.Apply(alpha[i], nil)
		}
		if len(hist) > 0 {
			h := History{Name: fmt.Sprintf("bfs-%d", len(hs)), From: len(hist) - 1}
			for _, i := range hist {
				h.Ops = append(h.Ops, alpha[i])
			}
			hs = append(hs, h)
		}
		return explore.StepResult{Key: s.Key(), Enabled: enabledOps(s, alpha), OK: true}
	})
	return hs, b.States, b.Transitions
}

// Depth bounds of the search.
const (
	QuickDepth    = 3
	ThoroughDepth = 7
)

func searchDepth(thorough bool) int {
	if thorough {
		return ThoroughDepth
	}
	return QuickDepth
}
