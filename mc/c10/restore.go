package c10

import (
	"encoding/json"
	"fmt"
	"os"
	"path/filepath"
	"reflect"
	"sort"
	"strconv"
	"sync"
	"time"

	"Havoc/cmd/server"
	"Havoc/pkg/handlers"
	"Havoc/pkg/logr"
	"Havoc/pkg/packager"
	"Havoc/pkg/profile"

	"verifmc/seam"
)

// RestoreMain is the entry point of the restore mode: a fresh process runs the REAL
// Teamserver.Start() on <dir>/db/ts.db (working directory <dir>, websocket server on
// 127.0.0.1:0), waits until Start has appended the profile event - the last thing it
// does before blocking for ever - and dumps the restored sessions, their pivot
// pointers and the restored listeners with their configuration as an Obs on stdout.
func RestoreMain() {
	dir := os.Getenv("VERIF_C10_DIR")
	if err := os.Chdir(dir); err != nil {
		fail("chdir: %v", err)
	}
	os.MkdirAll("data", 0o755)
	seam.Quiet()
	t := server.NewTeamserver("db/ts.db")
	if t == nil {
		emit(&Obs{Err: "NewTeamserver failed"})
	}
	t.Profile = &profile.Profile{Config: profile.HavocConfig{
		Server:    &profile.ServerProfile{Host: "127.0.0.1", Port: 0},
		Operators: &profile.OperatorsBlock{Users: []profile.UsersBlock{{Name: "op1", Password: "pw1"}}},
		Demon:     &profile.Demon{Sleep: 2, Jitter: 15, TrustXForwardedFor: true},
	}}
	t.Flags.Server.Host = "127.0.0.1"
	t.Flags.Server.Port = "0"
	logr.LogrInstance = logr.NewLogr(filepath.Join(dir, "w"), filepath.Join(dir, "w", "loot"))
	if logr.LogrInstance == nil {
		fail("logr")
	}
	logr.LogrInstance.LogrSendText = func(string) {}

	returned := make(chan struct{})
	go func() {
		t.Start()
		close(returned)
	}()
	// the event log has a mutex in newer trees (field EventsMtx); use it when it is there
	lock, unlock := func() {}, func() {}
	if f := reflect.ValueOf(t).Elem().FieldByName("EventsMtx"); f.IsValid() && f.CanAddr() {
		if m, ok := f.Addr().Interface().(*sync.Mutex); ok {
			lock, unlock = m.Lock, m.Unlock
		}
	}
	deadline := time.Now().Add(20 * time.Second)
	seen := 0
	for {
		select {
		case <-returned:
			// Start() only returns on an error path
			emit(&Obs{Err: "Teamserver.Start() returned before announcing the profile (restore aborted)"})
		default:
		}
		lock()
		n := len(t.EventsList)
		unlock()
		if n > seen {
			time.Sleep(time.Millisecond) // (trees without the event-log mutex) let the appending goroutine finish its slice header
			lock()
			evs := t.EventsList
			unlock()
			for _, e := range evs[seen:n] {
				if e.Head.Event == packager.Type.InitConnection.Type && e.Body.SubEvent == packager.Type.InitConnection.Profile {
					emit(dump(t))
				}
			}
			seen = n
		}
		if time.Now().After(deadline) {
			emit(&Obs{Err: "Teamserver.Start() did not announce the profile within 20 s"})
		}
		time.Sleep(200 * time.Microsecond)
	}
}

func emit(o *Obs) {
	b, _ := json.Marshal(o)
	os.Stdout.Write(append(b, '\n'))
	os.Exit(0)
}

func dump(t *server.Teamserver) *Obs {
	o := NewObs()
	for _, a := range t.Agents.Agents {
		id64, err := strconv.ParseUint(a.NameID, 16, 64)
		if err != nil || id64 > 0xffffffff {
			o.Err = "restored agent with id " + a.NameID
			return o
		}
		id := uint32(id64)
		if o.Agents[id] != nil {
			o.Err = fmt.Sprintf("agent %08x restored twice", id)
			return o
		}
		o.Agents[id] = rowFromAgent(a)
		if a.Pivots.Parent != nil {
			p, _ := strconv.ParseUint(a.Pivots.Parent.NameID, 16, 64)
			o.Parent[id] = uint32(p)
		}
		var ls []uint32
		for _, l := range a.Pivots.Links {
			if l == nil {
				o.NilLinks = append(o.NilLinks, id)
				continue
			}
			c, _ := strconv.ParseUint(l.NameID, 16, 64)
			ls = append(ls, uint32(c))
		}
		sort.Slice(ls, func(i, j int) bool { return ls[i] < ls[j] })
		if len(ls) > 0 {
			o.Links[id] = ls
		}
	}
	sort.Slice(o.NilLinks, func(i, j int) bool { return o.NilLinks[i] < o.NilLinks[j] })
	for _, l := range t.Listeners {
		if _, dup := o.Listeners[l.Name]; dup {
			o.Err = "listener " + l.Name + " restored twice"
			return o
		}
		switch c := l.Config.(type) {
		case *handlers.SMB:
			o.Listeners[l.Name] = LObs{Kind: "Smb", Config: map[string]any{"PipeName": c.Config.PipeName}}
		case *handlers.External:
			o.Listeners[l.Name] = LObs{Kind: "External", Config: map[string]any{"Endpoint": c.Config.Endpoint}}
		case *handlers.HTTP:
			h := c.Config
			o.Listeners[l.Name] = LObs{Kind: "Http", Config: map[string]any{
				"Hosts": encList(h.Hosts), "Headers": encList(h.Headers), "Uris": encList(h.Uris),
				"HostBind": h.HostBind, "HostRotation": h.HostRotation, "PortBind": h.PortBind, "PortConn": h.PortConn,
				"HostHeader": h.HostHeader, "UserAgent": h.UserAgent, "Secure": h.Secure,
				"Proxy.Enabled": h.Proxy.Enabled, "Proxy.Type": h.Proxy.Type, "Proxy.Host": h.Proxy.Host, "Proxy.Port": h.Proxy.Port,
				"Proxy.Username": h.Proxy.Username, "Proxy.Password": h.Proxy.Password,
			}}
		default:
			o.Listeners[l.Name] = LObs{Kind: fmt.Sprintf("%T", l.Config), Config: map[string]any{}}
		}
	}
	return o
}
