package c10

import (
	"encoding/json"
	"fmt"
	"os"
	"path/filepath"
)

// DebugMain (VERIF_C10_MODE=debug VERIF_C10_NAME=<history>): dry run of one history,
// prints the op-log and, per boundary, the reopened database against the model.
func DebugMain() {
	shim, err := ShimPath()
	if err != nil {
		panic(err)
	}
	name := os.Getenv("VERIF_C10_NAME")
	for _, h := range histories(os.Getenv("VERIF_TIER") == "thorough") {
		if h.Name != name {
			continue
		}
		dir, _ := os.MkdirTemp(os.Getenv("TMPDIR"), "verif-c10-debug-")
		e := dryRun(shim, h, dir)
		fmt.Println(h.String())
		if !e.OK {
			fmt.Println("dry run failed:", e.Err)
			os.RemoveAll(dir)
			os.Exit(1)
		}
		for _, c := range e.Log.Calls {
			fmt.Printf("%4d op=%d %s\n", c.N, c.Op, c.shape())
		}
		st := modelStates(h, e.Log.Acks, nil, len(h.Ops)-1)
		for j := -1; j < len(h.Ops); j++ {
			o := ObserveDB(filepath.Join(e.Dir, "snap", fmt.Sprintf("%d.db", j)))
			b, _ := json.Marshal(o)
			fmt.Printf("after op %d (%s): %s\n   diffs: %v\n", j, opKind(h, j), b, Compare("db", o, st[j+1], nil))
		}
		os.RemoveAll(dir)
	}
	os.Exit(0)
}
