package c10

import (
	"encoding/json"
	"fmt"
	"os"
	"path/filepath"
	"sort"
	"strings"
	"sync"
	"time"

	"verifmc/ev"
	"verifmc/par"
)

// Main dispatches on the process mode; returns only in the checker mode.
func Main(r *ev.Run) {
	switch os.Getenv("VERIF_C10_MODE") {
	case "worker":
		WorkerMain()
	case "restore":
		RestoreMain()
	case "debug":
		DebugMain()
	}
	Run(r)
}

// The plan is made once by the parent: the canonical op-log of every history (dry run,
// no kill) with the snapshots of the database at every acknowledgement.  All shards
// enumerate the kill points of the same plan.
type planEntry struct {
	OK  bool    `json:"ok"`
	Err string  `json:"err,omitempty"`
	Dir string  `json:"dir"`
	Log *RunLog `json:"log"`
}

type plan struct {
	Base    string      `json:"base"`
	Entries []planEntry `json:"entries"`
}

type unit struct {
	h    int // history index
	kind int // 0 restarts at the boundaries, 1 kill point, 2 torn write, 3 kill while the database is created + next session
	n    int // tracked call (1-based)
	tear int
}

type histInfo struct {
	Ops        int            `json:"ops"`
	Calls      int            `json:"calls"`
	CallsPerOp map[string]int `json:"calls_per_op"`
}

type checker struct {
	r        *ev.Run
	shim     string
	base     string
	hs       []History
	plan     *plan
	states   [][]*State // states[h][j+1] = model after operation j (j = -1: empty database)
	started  map[string]bool
	bsigs    map[int]map[string]bool // per history: level-less signatures seen at its boundaries (database level)
	deadline time.Time
	seq      int
}

func (c *checker) tmp(tag string) string {
	c.seq++
	d := filepath.Join(c.base, fmt.Sprintf("%s-%d", tag, c.seq))
	os.MkdirAll(d, 0o755)
	return d
}

// modelStates computes the model after every operation up to upto, with the derived
// values of the acknowledgements; an operation without acknowledgement (in flight at
// the kill) takes them from fallback with the clock value unknown.
func modelStates(h History, acks, fallback map[int]map[uint32]*Derived, upto int) []*State {
	out := []*State{NewState()}
	s := NewState()
	for j := 0; j <= upto && j < len(h.Ops); j++ {
		der := acks[j]
		if der == nil && fallback != nil && fallback[j] != nil {
			der = map[uint32]*Derived{}
			for id, d := range fallback[j] {
				x := *d
				x.First = "*"
				der[id] = &x
			}
		}
		s = s.Clone()
		s.Apply(h.Ops[j], der)
		out = append(out, s)
	}
	return out
}

// resumeHistory is what the session after a kill during the creation of the database does.
func resumeHistory() History {
	d := DefMeta()
	return History{Name: "after-kill-in-db-creation", Ops: []Op{{Kind: OpReg, ID: idA, K: 1, Meta: &d}, {Kind: OpLAdd, L: smb("smb1", "pipe1")}, {Kind: OpPoll, ID: idA}}}
}

func histories(thorough bool) []History {
	hs := append(QuickHistories(), ValueHistories()...)
	if thorough {
		// removal of an HTTP listener: its Stop() takes 5 s, every kill point of the removal pays it
		hs = append(hs, History{Name: "t01-http-remove", Ops: []Op{{Kind: OpLAdd, L: httpL("h1", nil)}, {Kind: OpLAdd, L: smb("smb1", "pipe1")}, {Kind: OpLRemove, Name: "h1"}}})
	}
	bfs, _, _ := BFSHistories(searchDepth(thorough))
	return append(hs, bfs...)
}

func Run(r *ev.Run) {
	shim, err := ShimPath()
	if err != nil {
		fmt.Fprintln(os.Stderr, "C10:", err)
		os.Exit(2)
	}
	hs := histories(r.Thorough())
	budget := 75 * time.Second
	if r.Thorough() {
		budget = 17 * time.Minute
	}
	if v := os.Getenv("VERIF_C10_BUDGET"); v != "" {
		if d, err := time.ParseDuration(v); err == nil {
			budget = d
		}
	}
	_, _, isWorker := par.Shard()
	var pl *plan
	if !isWorker {
		r.Rule = "every history of the covering set plus every edge of the breadth-first search over the operation alphabet up to the depth bound, states de-duplicated by canonical dbmodel state) x " +
			"every tracked libc call n of the worker's op-log (kill before call n; thorough: plus every 512-byte tear of every write of the covering set), each followed by a reopen of the database in another process " +
			"and a row-by-row comparison with the dbmodel; plus a restart at every operation boundary at database level and through the real Teamserver.Start(); " +
			"plus Start() on every distinct recovered state; plus a kill at every call of the creation of the database followed by a second session; " +
			"value grid = every text column x every string of the domain through INSERT and UPDATE, every id of the id domain"
		r.Bounds["histories"] = len(hs)
		r.Bounds["text_values"] = len(TextValues())
		r.Bounds["text_columns"] = len(TextColumns)
		r.Bounds["agent_ids"] = len(AgentIDs)
		maxLen := 0
		for _, h := range hs {
			if len(h.Ops) > maxLen {
				maxLen = len(h.Ops)
			}
		}
		r.Bounds["max_history_length"] = maxLen
		_, st, tr := BFSHistories(searchDepth(r.Thorough()))
		r.Bounds["bfs_depth"] = searchDepth(r.Thorough())
		r.Bounds["bfs_alphabet"] = len(bfsAlphabet())
		r.Bounds["bfs_states"] = st
		r.Bounds["bfs_edges"] = tr - 1
		r.Assume("a kill is a process kill (SIGKILL/abort/OOM): everything the process has written before the kill is visible to the next process; loss of un-synced writes on power failure is not modelled",
			"the kill points are the boundaries of the libc calls through which SQLite changes files (write/pwrite/fsync/fdatasync/ftruncate/unlink) and, in the thorough tier, 512-byte prefixes of each write",
			"LastCallIn is a wall-clock value rewritten by every request: only its format is checked; FirstCallIn and the display strings the teamserver derives (OS version, architecture names) are taken from the acknowledged in-memory session",
			"an operation that was in flight when the process was killed may be recovered row by row in either its old or its new state (SQLite's atomicity is per statement)",
			"listeners are added the way an operator adds them (Listener.Add event); listeners of the profile are re-read from the profile at a restart and are not the database's business")
		t0 := time.Now()
		pl = makePlan(r, shim, hs)
		r.Extra["plan_wall_s"] = time.Since(t0).Seconds()
		defer os.RemoveAll(pl.Base)
		os.Setenv("VERIF_C10_PLAN", filepath.Join(pl.Base, "plan.json"))
	} else {
		pl = &plan{}
		b, err := os.ReadFile(os.Getenv("VERIF_C10_PLAN"))
		if err == nil {
			err = json.Unmarshal(b, pl)
		}
		if err != nil {
			fmt.Fprintln(os.Stderr, "C10 shard: plan:", err)
			os.Exit(3)
		}
	}
	deadline := time.Now().Add(budget)
	par.Run(r, par.Workers(), budget+3*time.Minute, func(i, n int, r *ev.Run) {
		c := &checker{r: r, shim: shim, hs: hs, plan: pl, started: map[string]bool{}, deadline: deadline}
		c.shard(i, n)
	})
}

// makePlan: canonical dry run of every history.  A poll or a callback in a new
// wall-clock second makes one more UPDATE touch the file (the last-call-in column), so
// the op-log is taken as canonical when two runs produce the same one.
func makePlan(r *ev.Run, shim string, hs []History) *plan {
	base, err := os.MkdirTemp(os.Getenv("TMPDIR"), "verif-c10-plan-")
	if err != nil {
		panic(err)
	}
	pl := &plan{Base: base, Entries: make([]planEntry, len(hs))}
	var wg sync.WaitGroup
	sem := make(chan struct{}, par.Workers())
	for hi := range hs {
		wg.Add(1)
		go func(hi int) {
			defer wg.Done()
			sem <- struct{}{}
			defer func() { <-sem }()
			pl.Entries[hi] = dryRun(shim, hs[hi], filepath.Join(base, fmt.Sprintf("h%d", hi)))
		}(hi)
	}
	wg.Wait()
	for hi, e := range pl.Entries {
		if !e.OK {
			r.Violate("worker/history-not-executable", fmt.Sprintf("history %s: the worker did not complete it without a kill: %s", hs[hi].Name, e.Err), hs[hi])
			continue
		}
		if hs[hi].From == 0 {
			reportDry(r, hs[hi], e.Log)
		}
	}
	b, _ := json.Marshal(pl)
	if err := os.WriteFile(filepath.Join(base, "plan.json"), b, 0o644); err != nil {
		panic(err)
	}
	return pl
}

func shapeOf(l *RunLog) string {
	var b strings.Builder
	for _, c := range l.Calls {
		fmt.Fprintf(&b, "%d:%s;", c.Op, c.shape())
	}
	return b.String()
}

func dryRun(shim string, h History, dir string) planEntry {
	seen := map[string]bool{}
	for try := 0; try < 6; try++ {
		d := filepath.Join(dir, fmt.Sprintf("t%d", try))
		os.MkdirAll(d, 0o755)
		l, err := runWorker(shim, h, d, 0, 0, true)
		if err != nil || l.Exit != 0 || l.Acked != len(h.Ops)-1 {
			msg := fmt.Sprint(err)
			if l != nil {
				msg += " exit " + fmt.Sprint(l.Exit) + " " + oneLine(l.Stderr)
			}
			return planEntry{Err: msg}
		}
		s := shapeOf(l)
		if seen[s] {
			return planEntry{OK: true, Dir: d, Log: l}
		}
		seen[s] = true
	}
	return planEntry{Err: "the op-log of the history differs on every run"}
}

func oneLine(s string) string { return strings.ReplaceAll(strings.TrimSpace(s), "\n", " | ") }

// reportDry records the op-log statistics of a history and checks that the shim sees
// SQLite's I/O at all (a blind shim would make every kill point vacuous).
func reportDry(r *ev.Run, h History, l *RunLog) {
	info := histInfo{Ops: len(h.Ops), Calls: len(l.Calls), CallsPerOp: map[string]int{}}
	creation := 0
	for _, call := range l.Calls {
		if call.Op < 0 {
			creation++
			continue
		}
		info.CallsPerOp[fmt.Sprintf("%d:%s", call.Op, h.Ops[call.Op].Kind)]++
	}
	info.CallsPerOp["-1:create"] = creation
	r.Extra["oplog/"+h.Name] = info
	if creation == 0 {
		r.Violate("harness/shim-blind", "the crash shim logged no call during the creation of the database: go-sqlite3's I/O is not interposed", h.Name)
	}
}

func (c *checker) shard(i, n int) {
	base, err := os.MkdirTemp(os.Getenv("TMPDIR"), "verif-c10-")
	if err != nil {
		panic(err)
	}
	c.base = base
	defer os.RemoveAll(base)
	c.states = make([][]*State, len(c.hs))
	var units []unit
	creation := 0
	for hi, h := range c.hs {
		e := c.plan.Entries[hi]
		if !e.OK {
			continue
		}
		l := e.Log
		c.states[hi] = modelStates(h, l.Acks, nil, len(h.Ops)-1)
		units = append(units, unit{h: hi, kind: 0})
		creation = 0
		for k, call := range l.Calls {
			if call.Op < 0 {
				creation++
			}
			if call.Op < h.From {
				continue // From = 0 leaves out the creation of the database: see killInCreation
			}
			units = append(units, unit{h: hi, kind: 1, n: k + 1})
		}
		if c.r.Thorough() && h.From == 0 {
			for k, call := range l.Calls {
				if (call.Kind == "pwrite" || call.Kind == "write") && call.Len > 512 {
					for t := 1; int64(t)*512 < call.Len; t++ {
						units = append(units, unit{h: hi, kind: 2, n: k + 1, tear: t})
					}
				}
			}
		}
	}
	for k := 1; k <= creation; k++ {
		units = append(units, unit{kind: 3, n: k})
	}
	// contiguous slice of the unit list: consecutive kill points of one history stay in
	// one shard, so each distinct recovered state is sent through Start() about once
	lo, hi := len(units)*i/n, len(units)*(i+1)/n
	t0 := time.Now()
	defer func() {
		c.r.Note("shard %d/%d: %d units in %.1fs", i, n, hi-lo, time.Since(t0).Seconds())
	}()
	for _, u := range units[lo:hi] {
		if time.Now().After(c.deadline) {
			c.r.NotExhaustive("internal deadline reached before all kill points were tried")
			break
		}
		switch u.kind {
		case 0:
			c.boundaries(u.h)
		case 3:
			c.killInCreation(u.n)
		default:
			c.crash(u)
		}
	}
}

func (c *checker) violate(h History, phase string, detail map[string]any, ds []Diff) {
	for _, d := range ds {
		det := map[string]any{"history": h, "phase": phase, "difference": d.What}
		for k, v := range detail {
			det[k] = v
		}
		c.r.Violate(d.Sig, fmt.Sprintf("%s [%s of %s]", d.What, phase, h.Name), det)
	}
}

// boundaries: restart without a kill after every acknowledged operation.
func (c *checker) boundaries(hi int) {
	h := c.hs[hi]
	first := -1
	if h.From > 0 {
		first = h.From
	}
	for j := first; j < len(h.Ops); j++ {
		snap := filepath.Join(c.plan.Entries[hi].Dir, "snap", fmt.Sprintf("%d.db", j))
		want := c.states[hi][j+1]
		o := ObserveDB(snap)
		c.r.Eval(1)
		ds := Compare("db", o, want, nil)
		c.violate(h, fmt.Sprintf("restart after operation %d", j), map[string]any{"after_op": j}, ds)
		c.r.Outcome(fmt.Sprintf("boundary/db/%s/%s", opKind(h, j), verdict(ds)))
		// the real restore path
		key := fmt.Sprintf("%d/%s", hi, obsKey(o))
		if c.started[key] {
			continue
		}
		c.started[key] = true
		scratch := c.tmp("restore")
		so := runRestore(snap, scratch)
		os.RemoveAll(scratch)
		c.r.Eval(1)
		ds = Compare("start", so, want, nil)
		c.violate(h, fmt.Sprintf("Teamserver.Start() after operation %d", j), map[string]any{"after_op": j}, ds)
		c.r.Outcome(fmt.Sprintf("boundary/start/%s/%s", opKind(h, j), verdict(ds)))
		if c.r.WantSample() && j == len(h.Ops)-1 && h.From == 0 {
			c.r.Sample(map[string]any{"history": h.String(), "restart_after_op": j, "restored_by_Start": so, "differences": ds})
		}
	}
}

func fileExists(p string) bool {
	_, err := os.Stat(p)
	return err == nil
}

func opKind(h History, j int) string {
	if j < 0 || j >= len(h.Ops) {
		return "create"
	}
	return h.Ops[j].Kind
}

func verdict(ds []Diff) string {
	if len(ds) == 0 {
		return "same"
	}
	set := map[string]bool{}
	for _, d := range ds {
		set[d.Sig] = true
	}
	var s []string
	for k := range set {
		s = append(s, k)
	}
	sort.Strings(s)
	return "differs:" + strings.Join(s, ",")
}

func obsKey(o *Obs) string {
	cp := *o
	cp.Agents = map[uint32]*Row{}
	for id, r := range o.Agents {
		x := *r
		x.Last, x.First = "", ""
		cp.Agents[id] = &x
	}
	b, _ := json.Marshal(cp)
	return string(b)
}

// crash: run the history again, kill the worker before tracked call u.n (optionally
// after a torn prefix of it), reopen.
func (c *checker) crash(u unit) {
	h, dry := c.hs[u.h], c.plan.Entries[u.h].Log
	call := dry.Calls[u.n-1]
	phase := fmt.Sprintf("kill before tracked call %d (%s)", u.n, call.shape())
	if u.tear > 0 {
		phase = fmt.Sprintf("kill after the first %d bytes of tracked call %d (%s)", u.tear*512, u.n, call.shape())
	}
	detail := map[string]any{"crash_at": u.n, "tear": u.tear, "call": call}
	// A run in which a wall-clock second ticks over issues one more UPDATE and its call
	// numbers shift; it is still judged (its own log says what was acknowledged) but the
	// kill point of the plan is tried again until it is hit exactly.
	for try := 0; ; try++ {
		dir := c.tmp("crash")
		l, err := runWorker(c.shim, h, dir, u.n, u.tear, false)
		c.r.Eval(1)
		if err != nil || l.Exit != 77 || !l.Crashed {
			msg := ""
			code := -1
			if l != nil {
				msg, code = l.Stderr, l.Exit
			}
			if l != nil && l.Exit == 0 && len(l.Calls) < u.n && try < 5 {
				os.RemoveAll(dir)
				continue // fewer calls than planned (no second ticked where the plan had one)
			}
			c.r.Violate("worker/no-kill", fmt.Sprintf("history %s: the worker was not killed at call %d (exit %d, err %v) %s", h.Name, u.n, code, err, oneLine(msg)), detail)
			os.RemoveAll(dir)
			return
		}
		same := len(l.Calls) == u.n-1
		for k := range l.Calls {
			if k >= len(dry.Calls) || l.Calls[k].shape() != dry.Calls[k].shape() || l.Calls[k].Op != dry.Calls[k].Op {
				same = false
				break
			}
		}
		c.judge(u, h, dry, l, dir, phase, detail, call)
		os.RemoveAll(dir)
		if same {
			return
		}
		if try >= 5 {
			c.r.NotExhaustive(fmt.Sprintf("kill point %d of %s could not be reproduced with the planned op-log in 6 runs", u.n, h.Name))
			return
		}
	}
}

var existenceClass = []string{"agent-missing", "agent-unexpected", "link-missing", "link-unexpected", "link-duplicated", "parent-wrong", "listener-missing", "listener-unexpected"}

// atKill names the violations that exist only in the window of a kill: a row that is
// present or absent wrongly after a kill inside an operation, while every restart at a
// boundary of the same history is right about it, gets the in-flight operation into its
// signature (it is a different defect from one that shows without any kill).
func (c *checker) atKill(hi int, h History, inflight int, ds []Diff) []Diff {
	if c.bsigs == nil {
		c.bsigs = map[int]map[string]bool{}
	}
	set, ok := c.bsigs[hi]
	if !ok {
		set = map[string]bool{}
		for j := -1; j < len(h.Ops); j++ {
			o := ObserveDB(filepath.Join(c.plan.Entries[hi].Dir, "snap", fmt.Sprintf("%d.db", j)))
			for _, d := range Compare("", o, c.states[hi][j+1], nil) {
				set[d.Sig] = true
			}
		}
		c.bsigs[hi] = set
	}
	out := make([]Diff, len(ds))
	for i, d := range ds {
		out[i] = d
		rest := d.Sig[strings.Index(d.Sig, "/"):]
		if set[rest] {
			continue
		}
		for _, cl := range existenceClass {
			if strings.HasPrefix(rest, "/"+cl) {
				out[i].Sig = d.Sig + "@kill-in-" + opKind(h, inflight)
			}
		}
	}
	return out
}

func (c *checker) judge(u unit, h History, dry, l *RunLog, dir, phase string, detail map[string]any, call Call) {
	k, inflight := l.Acked, l.Begun
	var a, b *State
	if inflight < 0 {
		a, b = NewState(), NewState()
	} else {
		st := modelStates(h, l.Acks, dry.Acks, inflight)
		a = st[k+1]
		b = st[len(st)-1]
	}
	dbFile := filepath.Join(dir, "db", "ts.db")
	if _, err := os.Stat(dbFile); err != nil {
		// killed before the file existed: a restart creates an empty database
		c.r.Outcome("kill/create/no-file")
		return
	}
	// keep a copy for Start(): the reopen below rolls a hot journal back
	keep := c.tmp("keep")
	defer os.RemoveAll(keep)
	copyFile(dbFile, filepath.Join(keep, "ts.db"))
	if _, err := os.Stat(dbFile + "-journal"); err == nil {
		copyFile(dbFile+"-journal", filepath.Join(keep, "ts.db-journal"))
	}
	o := ObserveDB(dbFile)
	ds := Compare("db", o, a, b)
	det := map[string]any{"acknowledged_ops": k + 1, "in_flight_op": inflight}
	for kk, v := range detail {
		det[kk] = v
	}
	c.violate(h, phase, det, c.atKill(u.h, h, inflight, ds))
	rec := "violation"
	if len(ds) == 0 {
		switch {
		case len(Compare("db", o, a, nil)) == 0:
			rec = "old-state"
		case len(Compare("db", o, b, nil)) == 0:
			rec = "new-state"
		default:
			rec = "row-wise-mix"
		}
	}
	tornTag := ""
	if u.tear > 0 {
		tornTag = "torn-"
	}
	c.r.Outcome(fmt.Sprintf("kill/%s/%s%s:%s/%s", opKind(h, inflight), tornTag, call.Kind, strings.TrimPrefix(call.File, "ts.db"), rec))
	if c.r.WantSample() && rec == "row-wise-mix" {
		c.r.Sample(map[string]any{"history": h.String(), "kill": phase, "acknowledged_ops": k + 1, "in_flight": opKind(h, inflight), "recovered": rec, "reopened": o})
	}
	// the real restore path on every distinct recovered state
	if o.Err != "" {
		return
	}
	key := fmt.Sprintf("%d/%s", u.h, obsKey(o))
	if c.started[key] {
		return
	}
	c.started[key] = true
	scratch := c.tmp("restore")
	so := runRestore(filepath.Join(keep, "ts.db"), scratch)
	os.RemoveAll(scratch)
	c.r.Eval(1)
	ds = Compare("start", so, a, b)
	c.violate(h, "Teamserver.Start() after "+phase, det, c.atKill(u.h, h, inflight, ds))
	c.r.Outcome(fmt.Sprintf("kill/start/%s/%s", opKind(h, inflight), verdict(ds)))
}

// killInCreation: the very first start is killed before tracked call n of the creation
// of the database; the next start (a resumed worker on the same directory) then runs a
// short history whose acknowledged operations must survive a further restart.
func (c *checker) killInCreation(n int) {
	dir := c.tmp("initkill")
	defer os.RemoveAll(dir)
	l, err := runWorker(c.shim, History{Name: "create-only"}, dir, n, 0, false)
	c.r.Eval(1)
	detail := map[string]any{"crash_at": n, "second_session": resumeHistory()}
	if err != nil || l.Exit != 77 {
		c.r.Violate("worker/no-kill", fmt.Sprintf("creation of the database: the worker was not killed at call %d: %v", n, err), detail)
		return
	}
	if dbFile := filepath.Join(dir, "db", "ts.db"); fileExists(dbFile) {
		cp := c.tmp("initobs")
		copyFile(dbFile, filepath.Join(cp, "ts.db"))
		if fileExists(dbFile + "-journal") {
			copyFile(dbFile+"-journal", filepath.Join(cp, "ts.db-journal"))
		}
		o := ObserveDB(filepath.Join(cp, "ts.db"))
		os.RemoveAll(cp)
		ds := Compare("db", o, NewState(), nil)
		c.violate(History{Name: "create-only"}, fmt.Sprintf("kill before tracked call %d of the creation of the database", n), detail, ds)
		c.r.Outcome("kill/create/" + verdict(ds))
	} else {
		c.r.Outcome("kill/create/no-file")
	}
	h := resumeHistory()
	l, err = runWorker(c.shim, h, dir, 0, 0, true)
	if err != nil || l.Exit != 0 || l.Acked != len(h.Ops)-1 {
		msg := ""
		if l != nil {
			msg = oneLine(l.Stderr)
		}
		c.r.Violate("worker/history-not-executable", fmt.Sprintf("session after a kill at call %d of the creation of the database did not complete: %v %s", n, err, msg), detail)
		return
	}
	st := modelStates(h, l.Acks, nil, len(h.Ops)-1)
	for j := 0; j < len(h.Ops); j++ {
		o := ObserveDB(filepath.Join(dir, "snap", fmt.Sprintf("%d.db", j)))
		c.r.Eval(1)
		ds := Compare("db-after-kill-in-creation", o, st[j+1], nil)
		c.violate(h, fmt.Sprintf("first start killed before tracked call %d of the creation of the database; second session; restart after its operation %d", n, j), detail, ds)
		c.r.Outcome(fmt.Sprintf("kill-in-creation/%s/%s", opKind(h, j), verdict(ds)))
	}
}
