// Package c10: "Sessions, links and listeners survive a restart or crash unchanged".
//
// A history of operations is executed on a real in-process teamserver (package seam,
// real SQLite file) by a worker subprocess that runs under the LD_PRELOAD crash shim
// (/verif/shim/crashshim.c).  The shim counts every file-changing libc call SQLite
// makes on the database directory and kills the process before the n-th one.  After
// every kill - for EVERY n - and at every operation boundary the database file is
// reopened by another process and compared with a naive model (model.go).
package c10

import (
	"encoding/json"
	"fmt"
	"strings"
	"unicode/utf16"

	"verifmc/demonwire"
)

// Meta is the part of the registration metadata the histories vary.
type Meta struct {
	Host   string `json:"host"`
	User   string `json:"user"`
	Domain string `json:"domain"`
	IntIP  string `json:"intip"`
	Proc   string `json:"proc"`  // last component of the process path
	ExtIP  string `json:"extip"` // X-Forwarded-For of the registration request (listener behind a redirector)
	PID    uint32 `json:"pid"`
	TID    uint32 `json:"tid"`
	PPID   uint32 `json:"ppid"`
	Base   uint64 `json:"base"`
	Sleep  uint32 `json:"sleep"`
	Jitter uint32 `json:"jitter"`
	Kill   uint64 `json:"kill"`
	WH     uint32 `json:"wh"`
}

func DefMeta() Meta {
	return Meta{Host: "HOST", User: "user", Domain: "DOM", IntIP: "10.0.0.5", Proc: "p.exe", ExtIP: "10.9.8.7",
		PID: 1234, TID: 77, PPID: 4, Base: 0x7ff600000000, Sleep: 2, Jitter: 15}
}

// Wire converts to the Demon's registration record.
func (m Meta) Wire(id uint32) demonwire.Meta {
	return demonwire.Meta{InnerID: id, Host: m.Host, User: m.User, Domain: m.Domain, IP: m.IntIP,
		ProcPathUnits: utf16.Encode([]rune(`C:\Windows\` + m.Proc)), PID: m.PID, TID: m.TID, PPID: m.PPID, Arch: 2, Elevated: 1,
		Base: m.Base, OS: [5]uint32{10, 0, 1, 0, 19045}, OSArch: 9, Sleep: m.Sleep, Jitter: m.Jitter, KillDate: m.Kill, WorkingHours: m.WH}
}

// LSpec is a listener as an operator adds it (the Info map of the Listener.Add event).
type LSpec struct {
	Kind     string            `json:"kind"` // "Smb" | "External" | "Http"
	Name     string            `json:"name"`
	Pipe     string            `json:"pipe,omitempty"`
	Endpoint string            `json:"endpoint,omitempty"`
	HTTP     map[string]string `json:"http,omitempty"` // operator fields of an HTTP listener
	// Before is set by the model when the listener has been edited: the configuration it had before.
	Before *LSpec `json:"before,omitempty"`
}

// Op is one operation of a history.
type Op struct {
	Kind   string `json:"kind"`
	ID     uint32 `json:"id,omitempty"`    // agent (parent for pivot ops)
	Child  uint32 `json:"child,omitempty"` // pivot child
	K      byte   `json:"k,omitempty"`     // key index (seam.Key/IV) of a registering agent / new key of a check-in
	Meta   *Meta  `json:"meta,omitempty"`
	Delay  int    `json:"delay,omitempty"`
	Jitter int    `json:"jitter,omitempty"`
	L      *LSpec `json:"l,omitempty"`
	Name   string `json:"name,omitempty"` // listener to remove
}

// Operation kinds.
const (
	OpReg         = "reg"         // DEMON_INIT through the HTTP listener
	OpPoll        = "poll"        // empty check-in (last-call-in update)
	OpSleep       = "sleep"       // operator task + COMMAND_SLEEP callback
	OpCheckin     = "checkin"     // operator task + COMMAND_CHECKIN callback: new key, IV and metadata
	OpExit        = "exit"        // operator task + COMMAND_EXIT callback
	OpMarkDead    = "markdead"    // operator Session.MarkAsDead "Dead"
	OpMarkAlive   = "markalive"   // operator Session.MarkAsDead "Alive"
	OpPConnect    = "pconnect"    // COMMAND_PIVOT/SMB_CONNECT callback of parent ID carrying child's DEMON_INIT (new child or reconnect)
	OpPDisconnect = "pdisconnect" // COMMAND_PIVOT/SMB_DISCONNECT callback
	OpLAdd        = "ladd"        // operator Listener.Add
	OpLRemove     = "lrm"         // operator Listener.Remove
	OpLEdit       = "ledit"       // operator Listener.Edit (HTTP: user agent, headers, URIs, proxy)
	OpRestart     = "restart"     // clean process boundary: new teamserver object on the same database file
)

func (o Op) String() string {
	switch o.Kind {
	case OpReg:
		return fmt.Sprintf("reg(%08x,k%d)", o.ID, o.K)
	case OpPoll, OpExit, OpMarkDead, OpMarkAlive:
		return fmt.Sprintf("%s(%08x)", o.Kind, o.ID)
	case OpSleep:
		return fmt.Sprintf("sleep(%08x,%d,%d)", o.ID, o.Delay, o.Jitter)
	case OpCheckin:
		return fmt.Sprintf("checkin(%08x,k%d)", o.ID, o.K)
	case OpPConnect:
		return fmt.Sprintf("pconnect(%08x<-%08x,k%d)", o.ID, o.Child, o.K)
	case OpPDisconnect:
		return fmt.Sprintf("pdisconnect(%08x-x-%08x)", o.ID, o.Child)
	case OpLAdd, OpLEdit:
		return fmt.Sprintf("%s(%s:%s)", o.Kind, o.L.Kind, o.L.Name)
	case OpLRemove:
		return fmt.Sprintf("lrm(%s)", o.Name)
	}
	return o.Kind
}

type History struct {
	Name string `json:"name"`
	Ops  []Op   `json:"ops"`
	// From > 0: only the kill points and restarts of operations From.. are examined
	// (those of the earlier operations belong to a shorter history of the search).
	From int `json:"from,omitempty"`
}

func (h History) String() string {
	s := make([]string, len(h.Ops))
	for i, o := range h.Ops {
		s[i] = o.String()
	}
	return h.Name + ": " + strings.Join(s, " ")
}

func (h History) JSON() []byte {
	b, _ := json.Marshal(h)
	return b
}

// ---------------------------------------------------------------------------
// Domains of the property's quantifier.

// TextValues are the metadata strings tried in every text column.
func TextValues() []string {
	return []string{"", "host", "007", "1e3", " 12 ", "+5", "0x10", "1.0", "12abc", "é", strings.Repeat("a", 300)}
}

// TextColumns are the agent-controlled text columns of TS_Agents.
var TextColumns = []string{"Hostname", "Username", "DomainName", "InternalIP", "ProcessName", "ExternalIP"}

// AgentIDs is the id domain.
var AgentIDs = []uint32{1, 0x7fffffff, 0x80000000, 0xffffffff}

func setCol(m *Meta, col, v string) {
	switch col {
	case "Hostname":
		m.Host = v
	case "Username":
		m.User = v
	case "DomainName":
		m.Domain = v
	case "InternalIP":
		m.IntIP = v
	case "ProcessName":
		m.Proc = v
	case "ExternalIP":
		// an HTTP header value never carries surrounding white space
		m.ExtIP = strings.TrimSpace(v)
	default:
		panic(col)
	}
}

func metaWith(col, v string) *Meta {
	m := DefMeta()
	setCol(&m, col, v)
	return &m
}

func smb(name, pipe string) *LSpec { return &LSpec{Kind: "Smb", Name: name, Pipe: pipe} }
func ext(name, ep string) *LSpec   { return &LSpec{Kind: "External", Name: name, Endpoint: ep} }
func httpL(name string, over map[string]string) *LSpec {
	m := map[string]string{
		"Hosts": "127.0.0.1", "HostBind": "127.0.0.1", "HostRotation": "round-robin", "PortBind": "0", "PortConn": "8443",
		"Headers": "X-A: 1, X-B: 2", "Uris": "/a, /b", "HostHeader": "cdn.example", "UserAgent": "UA/1", "Secure": "false",
		"Proxy Enabled": "true", "Proxy Type": "http", "Proxy Host": "proxy", "Proxy Port": "3128", "Proxy Username": "u", "Proxy Password": "p",
	}
	for k, v := range over {
		m[k] = v
	}
	return &LSpec{Kind: "Http", Name: name, HTTP: m}
}

const (
	idA = 0x00000001
	idB = 0x7fffffff
	idC = 0x8234abcd // above 0x7fffffff: a pivot child, and later a parent, whose id does not fit a signed 32-bit column
	idD = 0xfffffffe
	idH = 0x80000000
	idZ = 0xffffffff
)

func mp(m Meta) *Meta { return &m }

// ValueHistories: for every text value one history that registers one agent per text
// column with the value in that column (defaults elsewhere) and then rewrites another
// column of the first two agents through the UPDATE path (COMMAND_CHECKIN callback).
func ValueHistories() []History {
	var hs []History
	for vi, v := range TextValues() {
		h := History{Name: fmt.Sprintf("value-%d", vi)}
		for ci, col := range TextColumns {
			h.Ops = append(h.Ops, Op{Kind: OpReg, ID: uint32(0x100 + ci), K: byte(1 + ci), Meta: metaWith(col, v)})
		}
		// UPDATE path: agent 0x100 gets the value in every column at once with a new key
		m := DefMeta()
		for _, col := range TextColumns[:5] {
			setCol(&m, col, v)
		}
		m.ExtIP = h.Ops[0].Meta.ExtIP // the external address is not part of a check-in
		h.Ops = append(h.Ops, Op{Kind: OpCheckin, ID: 0x100, K: 9, Meta: &m})
		hs = append(hs, h)
	}
	// ids and integer extremes
	big := DefMeta()
	big.PID, big.TID, big.PPID = 0x7fffffff, 0x7fffffff, 0x7fffffff
	big.Base, big.Kill, big.Sleep, big.Jitter, big.WH = 0x7fffffffffffffff, 0x7fffffffffffffff, 0x7fffffff, 100, 0x7fffffff
	zero := DefMeta()
	zero.PID, zero.TID, zero.PPID, zero.Base, zero.Kill, zero.Sleep, zero.Jitter, zero.WH = 0, 0, 0, 0, 0, 0, 0, 0
	h := History{Name: "ids"}
	for i, id := range AgentIDs {
		m := DefMeta()
		if i == 0 {
			m = big
		}
		if i == 1 {
			m = zero
		}
		h.Ops = append(h.Ops, Op{Kind: OpReg, ID: id, K: byte(i + 1), Meta: mp(m)})
	}
	for _, id := range AgentIDs {
		h.Ops = append(h.Ops, Op{Kind: OpPoll, ID: id})
	}
	hs = append(hs, h)
	return hs
}

// QuickHistories is the fixed covering set of structural histories (length <= 6):
// every operation kind, every kind of listener, death by both routes, links in every
// phase (new child, disconnect, reconnect to the same and to another parent, death of
// parent and of child), and a clean restart in the middle.
func QuickHistories() []History {
	d := DefMeta()
	reg := func(id uint32, k byte) Op { return Op{Kind: OpReg, ID: id, K: k, Meta: mp(d)} }
	m2 := DefMeta()
	m2.Host, m2.User, m2.Domain, m2.IntIP, m2.Proc = "HOST2", "user2", "DOM2", "10.0.0.6", "q.exe"
	m2.PID, m2.TID, m2.PPID, m2.Base, m2.Sleep, m2.Jitter, m2.Kill, m2.WH = 4321, 78, 5, 0x7ff700000000, 7, 3, 1700000000, 0x2a
	child := func(p, c uint32, k byte) Op {
		m := DefMeta()
		m.ExtIP = ""
		return Op{Kind: OpPConnect, ID: p, Child: c, K: k, Meta: &m}
	}
	return []History{
		{Name: "q01-update", Ops: []Op{reg(idA, 1), {Kind: OpSleep, ID: idA, Delay: 30, Jitter: 20}, {Kind: OpCheckin, ID: idA, K: 2, Meta: &m2}, {Kind: OpPoll, ID: idA}, reg(idB, 3), {Kind: OpSleep, ID: idB, Delay: 5, Jitter: 0}}},
		{Name: "q02-exit", Ops: []Op{reg(idA, 1), reg(idB, 2), {Kind: OpExit, ID: idA}, {Kind: OpPoll, ID: idB}, reg(idC, 3), {Kind: OpExit, ID: idC}}},
		{Name: "q03-markdead", Ops: []Op{reg(idA, 1), reg(idB, 2), {Kind: OpMarkDead, ID: idB}, {Kind: OpMarkAlive, ID: idB}, {Kind: OpMarkDead, ID: idA}, {Kind: OpPoll, ID: idB}}},
		{Name: "q04-link", Ops: []Op{reg(idA, 1), child(idA, idC, 2), {Kind: OpPDisconnect, ID: idA, Child: idC}, child(idA, idC, 2), {Kind: OpSleep, ID: idA, Delay: 9, Jitter: 1}, {Kind: OpMarkDead, ID: idC}}},
		{Name: "q05-link-parent-dies", Ops: []Op{reg(idA, 1), child(idA, idC, 2), reg(idB, 3), child(idB, idD, 4), {Kind: OpExit, ID: idA}, {Kind: OpMarkDead, ID: idB}}},
		{Name: "q06-link-move", Ops: []Op{reg(idA, 1), reg(idB, 2), child(idA, idC, 3), {Kind: OpPDisconnect, ID: idA, Child: idC}, child(idB, idC, 3), {Kind: OpPoll, ID: idA}}},
		{Name: "q07-link-move-nodisc", Ops: []Op{reg(idA, 1), reg(idB, 2), child(idA, idC, 3), child(idB, idC, 3), {Kind: OpPoll, ID: idA}}},
		// a parent with two children at once: removing one pair (disconnect, death of the child,
		// move below another parent) must leave the sibling's pair alone (round-2 seed C10-2)
		{Name: "q15-siblings-disconnect", Ops: []Op{reg(idA, 1), child(idA, idC, 2), child(idA, idD, 3), {Kind: OpPDisconnect, ID: idA, Child: idC}, {Kind: OpPoll, ID: idA}}},
		{Name: "q16-siblings-child-dies", Ops: []Op{reg(idA, 1), child(idA, idC, 2), child(idA, idD, 3), {Kind: OpMarkDead, ID: idD}, {Kind: OpRestart}, {Kind: OpPoll, ID: idA}}},
		{Name: "q17-siblings-move", Ops: []Op{reg(idA, 1), reg(idB, 2), child(idA, idC, 3), child(idA, idD, 4), child(idB, idC, 3), {Kind: OpPDisconnect, ID: idA, Child: idD}}},
		// a session that ends up below a parent registered AFTER it (row order in the session
		// table is registration order: a restore must not depend on parents coming first)
		{Name: "q18-move-below-later-parent", Ops: []Op{reg(idA, 1), child(idA, idC, 2), reg(idB, 3), {Kind: OpPDisconnect, ID: idA, Child: idC}, child(idB, idC, 2), {Kind: OpPoll, ID: idA}}},
		{Name: "q19-move-below-later-parent-nodisc", Ops: []Op{reg(idA, 1), child(idA, idC, 2), reg(idB, 3), child(idB, idC, 2), {Kind: OpPoll, ID: idB}}},
		{Name: "q20-subtree-moves-below-later-parent", Ops: []Op{reg(idA, 1), child(idA, idC, 2), child(idC, idD, 4), reg(idB, 3), child(idB, idC, 2), {Kind: OpPoll, ID: idB}}},
		{Name: "q21-move-away-from-a-parent-above-7fffffff", Ops: []Op{reg(idA, 1), child(idA, idC, 2), child(idC, idD, 4), reg(idB, 3), child(idB, idD, 4), {Kind: OpPoll, ID: idB}}},
		{Name: "q22-refused-listeners", Ops: []Op{{Kind: OpLAdd, L: ext("ext1", "ep1")}, {Kind: OpLAdd, L: ext("ext2", "ep1")}, {Kind: OpLAdd, L: smb("ext1", "pipe9")}, reg(idA, 1), {Kind: OpLAdd, L: ext("ext3", "ep3")}}},
		{Name: "q08-listeners", Ops: []Op{{Kind: OpLAdd, L: smb("smb1", "pipe1")}, {Kind: OpLAdd, L: ext("ext1", "ep1")}, {Kind: OpLRemove, Name: "smb1"}, {Kind: OpLAdd, L: smb("smb2", `\\.\pipe\x`)}, {Kind: OpLRemove, Name: "ext1"}, {Kind: OpLAdd, L: smb("smb1", "pipe1b")}}},
		{Name: "q09-mixed", Ops: []Op{{Kind: OpLAdd, L: smb("s", "007")}, reg(idA, 1), {Kind: OpLAdd, L: ext("e", "1e3")}, child(idA, idC, 2), {Kind: OpLRemove, Name: "s"}, {Kind: OpExit, ID: idA}}},
		{Name: "q10-http", Ops: []Op{{Kind: OpLAdd, L: httpL("h1", nil)}, reg(idA, 1), {Kind: OpLAdd, L: httpL("h2", map[string]string{"Headers": "", "Uris": "", "Proxy Enabled": "false", "HostHeader": "", "PortConn": ""})}}},
		{Name: "q14-http-edit", Ops: []Op{{Kind: OpLAdd, L: httpL("h1", nil)}, {Kind: OpLEdit, L: httpL("h1", map[string]string{"UserAgent": "UA/2", "Headers": "X-C: 3", "Uris": "/c", "Proxy Host": "proxy2"})}, reg(idA, 1)}},
		// an edit that changes one setting only, one history per editable setting (each is saved on its own)
		{Name: "q23-http-edit-uris-only", Ops: []Op{{Kind: OpLAdd, L: httpL("h1", nil)}, {Kind: OpLEdit, L: httpL("h1", map[string]string{"Uris": "/c, /b"})}, reg(idA, 1)}},
		{Name: "q24-http-edit-useragent-only", Ops: []Op{{Kind: OpLAdd, L: httpL("h1", nil)}, {Kind: OpLEdit, L: httpL("h1", map[string]string{"UserAgent": "UA/2"})}, reg(idA, 1)}},
		{Name: "q25-http-edit-headers-only", Ops: []Op{{Kind: OpLAdd, L: httpL("h1", nil)}, {Kind: OpLEdit, L: httpL("h1", map[string]string{"Headers": "X-C: 3"})}, reg(idA, 1)}},
		{Name: "q26-http-edit-proxy-only", Ops: []Op{{Kind: OpLAdd, L: httpL("h1", nil)}, {Kind: OpLEdit, L: httpL("h1", map[string]string{"Proxy Host": "proxy2", "Proxy Port": "8080"})}, reg(idA, 1)}},
		// two edits in a row, the second back to the first configuration
		{Name: "q27-http-edit-and-back", Ops: []Op{{Kind: OpLAdd, L: httpL("h1", nil)}, {Kind: OpLEdit, L: httpL("h1", map[string]string{"Uris": "/c"})}, {Kind: OpLEdit, L: httpL("h1", nil)}, reg(idA, 1)}},
		{Name: "q11-restart", Ops: []Op{reg(idA, 1), child(idA, idC, 2), {Kind: OpLAdd, L: smb("smb1", "pipe1")}, {Kind: OpRestart}, {Kind: OpSleep, ID: idA, Delay: 11, Jitter: 12}, {Kind: OpPDisconnect, ID: idA, Child: idC}}},
		{Name: "q13-disconnect-restart-reconnect", Ops: []Op{reg(idA, 1), child(idA, idC, 2), {Kind: OpPDisconnect, ID: idA, Child: idC}, {Kind: OpRestart}, child(idA, idC, 2), {Kind: OpPoll, ID: idA}}},
		{Name: "q12-restart-rereg", Ops: []Op{reg(idA, 1), reg(idB, 2), {Kind: OpMarkDead, ID: idA}, {Kind: OpRestart}, reg(idA, 3), {Kind: OpLAdd, L: ext("ext1", "ep1")}}},
	}
}
