package c10

import (
	"encoding/hex"
	"fmt"
	"regexp"
	"sort"
	"strings"

	"verifmc/seam"
)

// dbmodel: the naive reference - three maps.  It knows nothing about SQL; it records
// what each acknowledged operation means for "which sessions, links and listeners
// exist".

// Row is one agent as the property speaks of it: id (map key), key, IV, recorded metadata.
type Row struct {
	Active bool   `json:"active"`
	Reason string `json:"reason"`
	Key    string `json:"key"` // hex
	IV     string `json:"iv"`
	Host   string `json:"Hostname"`
	User   string `json:"Username"`
	Domain string `json:"DomainName"`
	ExtIP  string `json:"ExternalIP"`
	IntIP  string `json:"InternalIP"`
	Proc   string `json:"ProcessName"`
	Base   int64  `json:"BaseAddress"`
	PID    int    `json:"ProcessPID"`
	TID    int    `json:"ProcessTID"`
	PPID   int    `json:"ProcessPPID"`
	Sleep  int    `json:"SleepDelay"`
	Jitter int    `json:"SleepJitter"`
	Kill   int64  `json:"KillDate"`
	WH     int32  `json:"WorkingHours"`
	// Values the teamserver derives itself (display strings, the clock): the model
	// takes them from the acknowledged in-memory session; "*" = not known (the
	// operation was not acknowledged), any well-formed value matches.
	Arch   string `json:"ProcessArch"`
	Elev   string `json:"Elevated"`
	OSVer  string `json:"OSVersion"`
	OSArch string `json:"OSArch"`
	First  string `json:"FirstCallIn"`
	Last   string `json:"LastCallIn,omitempty"` // observed only; format-checked, never compared
}

// Derived is what the worker reports about an in-memory session when an operation is acknowledged.
type Derived struct {
	Arch, Elev, OSVer, OSArch, First string
}

type State struct {
	Agents    map[uint32]*Row
	Known     map[uint32]bool // sessions the running process has in memory (a re-registration of those is a reconnect)
	KeyIdx    map[uint32]byte // current key index per agent (what the Demon encrypts with)
	Links     map[[2]uint32]bool
	Listeners map[string]*LSpec
}

func NewState() *State {
	return &State{Agents: map[uint32]*Row{}, Known: map[uint32]bool{}, KeyIdx: map[uint32]byte{}, Links: map[[2]uint32]bool{}, Listeners: map[string]*LSpec{}}
}

func (s *State) Clone() *State {
	n := NewState()
	for k, v := range s.Agents {
		r := *v
		n.Agents[k] = &r
	}
	for k, v := range s.Known {
		n.Known[k] = v
	}
	for k, v := range s.KeyIdx {
		n.KeyIdx[k] = v
	}
	for k, v := range s.Links {
		n.Links[k] = v
	}
	for k, v := range s.Listeners {
		n.Listeners[k] = v
	}
	return n
}

func rowOf(m Meta, k byte) *Row {
	return &Row{Active: true, Key: hex.EncodeToString(seam.Key(k)), IV: hex.EncodeToString(seam.IV(k)),
		Host: m.Host, User: m.User, Domain: m.Domain, ExtIP: m.ExtIP, IntIP: m.IntIP, Proc: m.Proc,
		Base: int64(m.Base), PID: int(m.PID), TID: int(m.TID), PPID: int(m.PPID), Sleep: int(m.Sleep), Jitter: int(m.Jitter),
		Kill: int64(m.Kill), WH: int32(m.WH), Arch: "*", Elev: "*", OSVer: "*", OSArch: "*", First: "*"}
}

func (r *Row) setDerived(d *Derived, first bool) {
	if d == nil {
		return
	}
	r.Arch, r.Elev, r.OSVer, r.OSArch = d.Arch, d.Elev, d.OSVer, d.OSArch
	if first {
		r.First = d.First
	}
}

func (s *State) unlink(parent, child uint32) {
	delete(s.Links, [2]uint32{parent, child})
	if c := s.Agents[child]; c != nil {
		c.Active = false
		c.Reason = "Disconnected"
	}
}

func (s *State) die(id uint32) {
	a := s.Agents[id]
	if a == nil || !s.Known[id] {
		return
	}
	for _, l := range s.sortedLinks() {
		if l[0] == id || l[1] == id {
			s.unlink(l[0], l[1])
		}
	}
	a.Active = false
}

func (s *State) sortedLinks() [][2]uint32 {
	var ls [][2]uint32
	for l := range s.Links {
		ls = append(ls, l)
	}
	sort.Slice(ls, func(i, j int) bool {
		if ls[i][0] != ls[j][0] {
			return ls[i][0] < ls[j][0]
		}
		return ls[i][1] < ls[j][1]
	})
	return ls
}

// Apply is the meaning of one acknowledged operation.  der is what the worker saw in
// memory at the acknowledgement (nil: not acknowledged; derived values stay "*").
func (s *State) Apply(o Op, der map[uint32]*Derived) {
	d := func(id uint32) *Derived {
		if der == nil {
			return nil
		}
		return der[id]
	}
	switch o.Kind {
	case OpReg:
		if s.Known[o.ID] {
			return // the teamserver answers a known id with the reconnect reply; nothing is recorded
		}
		r := rowOf(*o.Meta, o.K)
		r.setDerived(d(o.ID), true)
		s.Agents[o.ID] = r
		s.Known[o.ID] = true
		s.KeyIdx[o.ID] = o.K
	case OpPoll:
	case OpSleep:
		if a := s.Agents[o.ID]; a != nil && s.Known[o.ID] {
			a.Sleep, a.Jitter = o.Delay, o.Jitter
		}
	case OpCheckin:
		if a := s.Agents[o.ID]; a != nil && s.Known[o.ID] {
			n := rowOf(*o.Meta, o.K)
			n.ExtIP, n.First, n.Reason = a.ExtIP, a.First, a.Reason
			n.Arch, n.Elev, n.OSVer, n.OSArch = a.Arch, a.Elev, a.OSVer, a.OSArch
			n.setDerived(d(o.ID), false)
			*a = *n
			s.KeyIdx[o.ID] = o.K
		}
	case OpExit, OpMarkDead:
		s.die(o.ID)
	case OpMarkAlive:
		if a := s.Agents[o.ID]; a != nil && s.Known[o.ID] {
			a.Active = true
		}
	case OpPConnect:
		if !s.Known[o.ID] {
			return
		}
		if s.Known[o.Child] {
			// reconnect: the child hangs under the new parent only
			for _, l := range s.sortedLinks() {
				if l[1] == o.Child {
					delete(s.Links, l)
				}
			}
			c := s.Agents[o.Child]
			c.Active, c.Reason = true, ""
			s.Links[[2]uint32{o.ID, o.Child}] = true
			return
		}
		r := rowOf(*o.Meta, o.K)
		r.ExtIP = ""
		r.setDerived(d(o.Child), true)
		s.Agents[o.Child] = r
		s.Known[o.Child] = true
		s.KeyIdx[o.Child] = o.K
		s.Links[[2]uint32{o.ID, o.Child}] = true
	case OpPDisconnect:
		if s.Known[o.ID] && s.Known[o.Child] {
			s.unlink(o.ID, o.Child)
		}
	case OpLAdd:
		// an endpoint routes to one External listener only: a second one on it is refused
		clash := false
		if o.L.Kind == "External" {
			for _, l := range s.Listeners {
				if l.Kind == "External" && l.Endpoint == o.L.Endpoint {
					clash = true
				}
			}
		}
		if _, ok := s.Listeners[o.L.Name]; !ok && !clash {
			s.Listeners[o.L.Name] = o.L
		}
	case OpLRemove:
		delete(s.Listeners, o.Name)
	case OpLEdit:
		// an edit replaces the user agent, the headers, the URIs and the proxy of an HTTP listener
		if old := s.Listeners[o.L.Name]; old != nil && old.Kind == "Http" {
			n := &LSpec{Kind: old.Kind, Name: old.Name, HTTP: map[string]string{}, Before: old}
			if old.Before != nil {
				n.Before = old.Before
			}
			for k, v := range old.HTTP {
				n.HTTP[k] = v
			}
			for _, k := range []string{"UserAgent", "Headers", "Uris", "Proxy Enabled", "Proxy Type", "Proxy Host", "Proxy Port", "Proxy Username", "Proxy Password"} {
				n.HTTP[k] = o.L.HTTP[k]
			}
			s.Listeners[o.L.Name] = n
		}
	case OpRestart:
		s.Known = map[uint32]bool{}
		for id, a := range s.Agents {
			if a.Active {
				s.Known[id] = true
			}
		}
	default:
		panic("c10: unknown op " + o.Kind)
	}
}

// Key is the canonical form of the persistent part of the state plus what the next
// operation's meaning depends on (Known).  Derived values are excluded.
func (s *State) Key() string {
	var b strings.Builder
	ids := make([]uint32, 0, len(s.Agents))
	for id := range s.Agents {
		ids = append(ids, id)
	}
	sort.Slice(ids, func(i, j int) bool { return ids[i] < ids[j] })
	for _, id := range ids {
		r := *s.Agents[id]
		r.Arch, r.Elev, r.OSVer, r.OSArch, r.First, r.Last = "", "", "", "", "", ""
		fmt.Fprintf(&b, "%08x:%v:%+v;", id, s.Known[id], r)
	}
	for _, l := range s.sortedLinks() {
		fmt.Fprintf(&b, "%08x>%08x;", l[0], l[1])
	}
	names := make([]string, 0, len(s.Listeners))
	for n := range s.Listeners {
		names = append(names, n)
	}
	sort.Strings(names)
	for _, n := range names {
		fmt.Fprintf(&b, "L%s=%+v;", n, *s.Listeners[n])
	}
	return b.String()
}

func (s *State) active(id uint32) *Row {
	if s == nil {
		return nil
	}
	if r := s.Agents[id]; r != nil && r.Active {
		return r
	}
	return nil
}

func (s *State) parentOf(child uint32) (uint32, bool) {
	if s == nil {
		return 0, false
	}
	for _, l := range s.sortedLinks() {
		if l[1] == child {
			return l[0], true
		}
	}
	return 0, false
}

// ---------------------------------------------------------------------------
// Observation of a reopened database / a restarted teamserver.

type LObs struct {
	Kind   string         `json:"kind"`
	Config map[string]any `json:"config"`
}

type Obs struct {
	Agents    map[uint32]*Row     `json:"agents"`
	Parent    map[uint32]uint32   `json:"parent"`
	Links     map[uint32][]uint32 `json:"links"`
	NilLinks  []uint32            `json:"nil_links,omitempty"` // Start level: agents whose link list holds a nil pointer
	Listeners map[string]LObs     `json:"listeners"`
	Err       string              `json:"err,omitempty"`
}

func NewObs() *Obs {
	return &Obs{Agents: map[uint32]*Row{}, Parent: map[uint32]uint32{}, Links: map[uint32][]uint32{}, Listeners: map[string]LObs{}}
}

type Diff struct {
	Sig  string `json:"sig"`
	What string `json:"what"`
}

var (
	reNumeric = regexp.MustCompile(`^[+-]?(\d+\.?\d*|\.\d+)([eE][+-]?\d+)?$`)
	reFirst   = regexp.MustCompile(`^\d\d/\d\d/\d{4} \d\d:\d\d:\d\d$`)
	reLast    = regexp.MustCompile(`^\d\d-\d\d-\d{4} \d\d:\d\d:\d\d$`)
)

// NumericLooking: SQLite would convert this text when it is stored in a column of
// NUMERIC affinity.  Only used to name the violation, never to decide one.
func NumericLooking(s string) bool { return reNumeric.MatchString(strings.TrimSpace(s)) }

type field struct {
	name string
	get  func(*Row) string
	text bool
	wild bool // "*" in the model matches any value
}

var fields = []field{
	{"Reason", func(r *Row) string { return r.Reason }, true, false},
	{"AESKey", func(r *Row) string { return r.Key }, false, false},
	{"AESIv", func(r *Row) string { return r.IV }, false, false},
	{"Hostname", func(r *Row) string { return r.Host }, true, false},
	{"Username", func(r *Row) string { return r.User }, true, false},
	{"DomainName", func(r *Row) string { return r.Domain }, true, false},
	{"ExternalIP", func(r *Row) string { return r.ExtIP }, true, false},
	{"InternalIP", func(r *Row) string { return r.IntIP }, true, false},
	{"ProcessName", func(r *Row) string { return r.Proc }, true, false},
	{"BaseAddress", func(r *Row) string { return fmt.Sprint(r.Base) }, false, false},
	{"ProcessPID", func(r *Row) string { return fmt.Sprint(r.PID) }, false, false},
	{"ProcessTID", func(r *Row) string { return fmt.Sprint(r.TID) }, false, false},
	{"ProcessPPID", func(r *Row) string { return fmt.Sprint(r.PPID) }, false, false},
	{"SleepDelay", func(r *Row) string { return fmt.Sprint(r.Sleep) }, false, false},
	{"SleepJitter", func(r *Row) string { return fmt.Sprint(r.Jitter) }, false, false},
	{"KillDate", func(r *Row) string { return fmt.Sprint(r.Kill) }, false, false},
	{"WorkingHours", func(r *Row) string { return fmt.Sprint(r.WH) }, false, false},
	{"ProcessArch", func(r *Row) string { return r.Arch }, true, true},
	{"Elevated", func(r *Row) string { return r.Elev }, true, true},
	{"OSVersion", func(r *Row) string { return r.OSVer }, true, true},
	{"OSArch", func(r *Row) string { return r.OSArch }, true, true},
	{"FirstCallIn", func(r *Row) string { return r.First }, true, true},
}

// rowDiff compares an observed row with the model's; nil result = equal.
func rowDiff(lvl string, id uint32, got, want *Row) []Diff {
	var ds []Diff
	for _, f := range fields {
		g, w := f.get(got), f.get(want)
		if g == w {
			continue
		}
		if f.wild && w == "*" {
			if f.name == "FirstCallIn" && !reFirst.MatchString(g) {
				ds = append(ds, Diff{lvl + "/agent/field/FirstCallIn-malformed", fmt.Sprintf("agent %08x: FirstCallIn %q", id, g)})
			}
			continue
		}
		if f.text && NumericLooking(w) {
			ds = append(ds, Diff{lvl + "/agent/numeric-looking-text-rewritten", fmt.Sprintf("agent %08x: %s recorded as %q comes back as %q", id, f.name, clip(w), clip(g))})
			continue
		}
		ds = append(ds, Diff{lvl + "/agent/field/" + f.name, fmt.Sprintf("agent %08x: %s recorded as %q comes back as %q", id, f.name, clip(w), clip(g))})
	}
	if !got.Active {
		ds = append(ds, Diff{lvl + "/agent/restored-inactive", fmt.Sprintf("agent %08x restored with Active=false", id)})
	}
	if got.Last != "" && !reLast.MatchString(got.Last) {
		ds = append(ds, Diff{lvl + "/agent/field/LastCallIn-malformed", fmt.Sprintf("agent %08x: LastCallIn %q", id, got.Last)})
	}
	return ds
}

func clip(s string) string {
	if len(s) > 40 {
		return s[:40] + fmt.Sprintf("…(%d bytes)", len(s))
	}
	return s
}

func idClass(id uint32) string {
	if id >= 0x80000000 {
		return "/id-ge-0x80000000"
	}
	return ""
}

// Compare checks an observation against the model.  With b == nil the observation must
// equal a (restart at an operation boundary).  With b != nil (a kill inside the
// operation that leads from a to b) every row - agent, link, parent pointer, listener -
// must be the row of a or the row of b: SQLite's atomicity is per statement, an
// operation may consist of several.
func Compare(lvl string, o *Obs, a, b *State) []Diff {
	var ds []Diff
	if o.Err != "" {
		return []Diff{{lvl + "/reopen-failed", o.Err}}
	}
	alts := []*State{a}
	if b != nil {
		alts = append(alts, b)
	}
	// agents
	idset := map[uint32]bool{}
	for id := range o.Agents {
		idset[id] = true
	}
	for _, s := range alts {
		for id, r := range s.Agents {
			if r.Active {
				idset[id] = true
			}
		}
	}
	ids := make([]uint32, 0, len(idset))
	for id := range idset {
		ids = append(ids, id)
	}
	sort.Slice(ids, func(i, j int) bool { return ids[i] < ids[j] })
	for _, id := range ids {
		got := o.Agents[id]
		var first []Diff
		ok := false
		for i, s := range alts {
			want := s.active(id)
			var d []Diff
			switch {
			case got == nil && want == nil:
			case got == nil:
				d = []Diff{{lvl + "/agent-missing" + idClass(id), fmt.Sprintf("agent %08x: registration acknowledged, agent active, not restored", id)}}
			case want == nil:
				why := "never acknowledged"
				if s.Agents[id] != nil {
					why = "dead or disconnected"
				}
				d = []Diff{{lvl + "/agent-unexpected", fmt.Sprintf("agent %08x restored although %s", id, why)}}
			default:
				d = rowDiff(lvl, id, got, want)
			}
			if len(d) == 0 {
				ok = true
				break
			}
			if i == 0 {
				first = d
			}
		}
		if !ok {
			ds = append(ds, first...)
		}
	}
	// links: pairs and parent pointers
	pairs := map[[2]uint32]int{}
	for p, cs := range o.Links {
		for _, c := range cs {
			pairs[[2]uint32{p, c}]++
		}
	}
	pset := map[[2]uint32]bool{}
	for l := range pairs {
		pset[l] = true
	}
	for _, s := range alts {
		for l := range s.Links {
			pset[l] = true
		}
	}
	var pl [][2]uint32
	for l := range pset {
		pl = append(pl, l)
	}
	sort.Slice(pl, func(i, j int) bool {
		if pl[i][0] != pl[j][0] {
			return pl[i][0] < pl[j][0]
		}
		return pl[i][1] < pl[j][1]
	})
	for _, l := range pl {
		if o.Agents[l[0]] == nil {
			// a link is observable only through a restored parent; a parent that is
			// wrongly absent is reported by the agent rule
			continue
		}
		got := pairs[l]
		ok := false
		for _, s := range alts {
			want := 0
			if s.Links[l] {
				want = 1
			}
			if got == want {
				ok = true
				break
			}
		}
		if ok {
			continue
		}
		switch {
		case got == 0:
			ds = append(ds, Diff{lvl + "/link-missing", fmt.Sprintf("link %08x->%08x lost", l[0], l[1])})
		case got > 1:
			ds = append(ds, Diff{lvl + "/link-duplicated", fmt.Sprintf("link %08x->%08x restored %d times", l[0], l[1], got)})
		default:
			ds = append(ds, Diff{lvl + "/link-unexpected", fmt.Sprintf("link %08x->%08x restored although it no longer existed", l[0], l[1])})
		}
	}
	cids := make([]uint32, 0, len(o.Agents))
	for id := range o.Agents {
		cids = append(cids, id)
	}
	sort.Slice(cids, func(i, j int) bool { return cids[i] < cids[j] })
	for _, c := range cids {
		// The parent pointer is derived from the link rows (the parent of c is the p with
		// a row (p,c)).  Every row may be in its old or its new state, so: an observed
		// parent must have its row in one of the states; no parent is fine unless some
		// row (p,c) exists in all of them.
		gp, gok := o.Parent[c]
		ok := false
		if gok {
			for _, s := range alts {
				if s.Links[[2]uint32{gp, c}] {
					ok = true
				}
			}
		} else {
			ok = true
			for l := range alts[0].Links {
				if l[1] != c {
					continue
				}
				inAll := true
				for _, s := range alts[1:] {
					if !s.Links[l] {
						inAll = false
					}
				}
				if inAll {
					ok = false
				}
			}
		}
		if !ok {
			wp, wok := alts[0].parentOf(c)
			ds = append(ds, Diff{lvl + "/parent-wrong", fmt.Sprintf("agent %08x: parent was %s, restored as %s", c, pstr(wp, wok), pstr(gp, gok))})
		}
	}
	for _, id := range o.NilLinks {
		ds = append(ds, Diff{lvl + "/link-to-nil-agent", fmt.Sprintf("agent %08x restored with a nil entry in its link list", id)})
	}
	// listeners
	nset := map[string]bool{}
	for n := range o.Listeners {
		nset[n] = true
	}
	for _, s := range alts {
		for n := range s.Listeners {
			nset[n] = true
		}
	}
	names := make([]string, 0, len(nset))
	for n := range nset {
		names = append(names, n)
	}
	sort.Strings(names)
	for _, n := range names {
		got, gok := o.Listeners[n]
		var first []Diff
		ok := false
		for i, s := range alts {
			want := s.Listeners[n]
			var d []Diff
			switch {
			case !gok && want == nil:
			case !gok:
				d = []Diff{{lvl + "/listener-missing/" + want.Kind, fmt.Sprintf("listener %q (%s) not restored", n, want.Kind)}}
			case want == nil:
				d = []Diff{{lvl + "/listener-unexpected/" + got.Kind, fmt.Sprintf("listener %q restored although removed or never acknowledged", n)}}
			default:
				d = listenerDiff(lvl, n, got, want)
			}
			if len(d) == 0 {
				ok = true
				break
			}
			if i == 0 {
				first = d
			}
		}
		if !ok {
			ds = append(ds, first...)
		}
	}
	return ds
}

func pstr(p uint32, ok bool) string {
	if !ok {
		return "none"
	}
	return fmt.Sprintf("%08x", p)
}

// encList: nil and the empty list are the same, nothing else is.
func encList(l []string) string { return fmt.Sprintf("[%d]%s", len(l), strings.Join(l, "|")) }

func splitNonEmpty(s string) []string {
	var out []string
	for _, x := range strings.Split(s, ", ") {
		if x != "" {
			out = append(out, x)
		}
	}
	return out
}

// ExpectedConfig is the configuration of a listener in the terms an operator gave it:
// field name -> canonical value (lists as JSON-ish joined text, booleans as true/false).
func ExpectedConfig(l *LSpec) map[string]string {
	switch l.Kind {
	case "Smb":
		return map[string]string{"PipeName": l.Pipe}
	case "External":
		return map[string]string{"Endpoint": l.Endpoint}
	case "Http":
		h := l.HTTP
		m := map[string]string{
			"Hosts": encList(splitNonEmpty(h["Hosts"])), "Headers": encList(splitNonEmpty(h["Headers"])), "Uris": encList(splitNonEmpty(h["Uris"])),
			"HostBind": h["HostBind"], "HostRotation": h["HostRotation"], "PortBind": h["PortBind"], "PortConn": h["PortConn"],
			"HostHeader": h["HostHeader"], "UserAgent": h["UserAgent"], "Secure": fmt.Sprint(h["Secure"] == "true"),
			"Proxy.Enabled": fmt.Sprint(h["Proxy Enabled"] == "true"),
		}
		if h["Proxy Enabled"] == "true" {
			m["Proxy.Type"], m["Proxy.Host"], m["Proxy.Port"], m["Proxy.Username"], m["Proxy.Password"] = h["Proxy Type"], h["Proxy Host"], h["Proxy Port"], h["Proxy Username"], h["Proxy Password"]
		} else {
			m["Proxy.Type"], m["Proxy.Host"], m["Proxy.Port"], m["Proxy.Username"], m["Proxy.Password"] = "", "", "", "", ""
		}
		return m
	}
	panic("c10: listener kind " + l.Kind)
}

// listenerDiff: got.Config is already in the canonical field -> value form (observe.go
// converts both the database row and the restored handler config to it).
func listenerDiff(lvl, name string, got LObs, want *LSpec) []Diff {
	if got.Kind != want.Kind {
		return []Diff{{lvl + "/listener-kind", fmt.Sprintf("listener %q: kind %s restored as %s", name, want.Kind, got.Kind)}}
	}
	exp := ExpectedConfig(want)
	keys := make([]string, 0, len(exp))
	for k := range exp {
		keys = append(keys, k)
	}
	sort.Strings(keys)
	var ds []Diff
	if want.Before != nil && len(listenerDiff(lvl, name, got, &LSpec{Kind: want.Before.Kind, Name: want.Before.Name, HTTP: want.Before.HTTP})) == 0 && len(keys) > 0 {
		same := true
		bexp := ExpectedConfig(want.Before)
		for _, k := range keys {
			if bexp[k] != exp[k] {
				same = false
			}
		}
		if !same {
			return []Diff{{lvl + "/listener-edit-lost/" + want.Kind, fmt.Sprintf("listener %q comes back with the configuration it had before it was edited", name)}}
		}
	}
	for _, k := range keys {
		g, ok := got.Config[k]
		gs := fmt.Sprint(g)
		if !ok {
			gs = "<absent>"
		}
		if gs != exp[k] {
			ds = append(ds, Diff{lvl + "/listener-config/" + want.Kind + "/" + k, fmt.Sprintf("listener %q: %s configured as %q, restored as %q", name, k, exp[k], gs)})
		}
	}
	return ds
}
