// Package demonwire is the Demon's side of the wire protocol, transcribed from
// payloads/Demon/src/core/{Package,Parser,Command,TransportSmb}.c and Demon.c.  It
// is deliberately independent of the teamserver's packer/parser packages: it is the
// reference the teamserver's encoding and decoding are judged against.
package demonwire

import (
	"crypto/aes"
	"crypto/cipher"
	"encoding/binary"
	"errors"
	"unicode/utf16"
)

const (
	Magic     = 0xDEADBEEF
	DemonInit = 99
	GetJob    = 1
	NoJob     = 10
)

// W is the Demon's package writer (Package.c): big-endian integers, length-prefixed
// byte strings.
type W struct{ B []byte }

func (w *W) I32(v uint32) *W {
	w.B = append(w.B, byte(v>>24), byte(v>>16), byte(v>>8), byte(v))
	return w
}
func (w *W) I64(v uint64) *W {
	w.I32(uint32(v >> 32))
	return w.I32(uint32(v))
}
func (w *W) Bool(v bool) *W {
	if v {
		return w.I32(1)
	}
	return w.I32(0)
}
func (w *W) Bytes(b []byte) *W {
	w.I32(uint32(len(b)))
	w.B = append(w.B, b...)
	return w
}
func (w *W) Raw(b []byte) *W { w.B = append(w.B, b...); return w }

// Str is PackageAddString: the C string without its terminator.
func (w *W) Str(s string) *W { return w.Bytes([]byte(s)) }

// WStr is PackageAddWString: UTF-16LE code units without terminator.
func (w *W) WStr(s string) *W { return w.Bytes(UTF16LE(s)) }

// WStrUnits writes explicit UTF-16 code units (for lone surrogates etc.).
func (w *W) WStrUnits(u []uint16) *W {
	b := make([]byte, 2*len(u))
	for i, x := range u {
		binary.LittleEndian.PutUint16(b[2*i:], x)
	}
	return w.Bytes(b)
}

func UTF16LE(s string) []byte {
	u := utf16.Encode([]rune(s))
	b := make([]byte, 2*len(u))
	for i, x := range u {
		binary.LittleEndian.PutUint16(b[2*i:], x)
	}
	return b
}

// CTR is AES-256-CTR from the given IV (both directions).
func CTR(data, key, iv []byte) []byte {
	out := make([]byte, len(data))
	if len(data) == 0 {
		return out
	}
	blk, err := aes.NewCipher(key)
	if err != nil {
		panic(err)
	}
	cipher.NewCTR(blk, iv).XORKeyStream(out, data)
	return out
}

func allZero(b []byte) bool {
	for _, x := range b {
		if x != 0 {
			return false
		}
	}
	return true
}

// Sub is one sub-package of a check-in request (a callback).
type Sub struct {
	Cmd   uint32
	ReqID uint32
	Body  []byte
}

// Header returns [size][magic][agent][cmd][req] + rest with the size field filled
// the way PackageTransmit* does (total length minus the size field itself).
func Header(magic, agentID, cmd, req uint32, rest []byte) []byte {
	w := &W{}
	w.I32(uint32(16 + len(rest))).I32(magic).I32(agentID).I32(cmd).I32(req).Raw(rest)
	return w.B
}

// CheckIn builds what PackageTransmitAll sends: a GET_JOB package whose encrypted
// tail holds the queued callbacks.
func CheckIn(agentID uint32, key, iv []byte, subs ...Sub) []byte {
	w := &W{}
	for _, s := range subs {
		w.I32(s.Cmd).I32(s.ReqID).Bytes(s.Body)
	}
	return Header(Magic, agentID, GetJob, 0, CTR(w.B, key, iv))
}

// CallbacksOnly is a package that does not ask for jobs: the first sub-package takes the
// header's command slot (as PackageTransmitNow of a non-GET_JOB package would).
// The teamserver decrypts after reading the first (cmd, req) pair.
func CallbacksOnly(agentID uint32, key, iv []byte, subs ...Sub) []byte {
	if len(subs) == 0 {
		return Header(Magic, agentID, GetJob, 0, nil)
	}
	w := &W{}
	w.Bytes(subs[0].Body)
	for _, s := range subs[1:] {
		w.I32(s.Cmd).I32(s.ReqID).Bytes(s.Body)
	}
	return Header(Magic, agentID, subs[0].Cmd, subs[0].ReqID, CTR(w.B, key, iv))
}

// Meta is the registration metadata (Demon.c DemonMetaData).
type Meta struct {
	InnerID                        uint32
	Host, User, Domain, IP         string
	ProcPathUnits                  []uint16 // UTF-16 units of the process path
	PID, TID, PPID, Arch, Elevated uint32
	Base                           uint64
	OS                             [5]uint32
	OSArch, Sleep, Jitter          uint32
	KillDate                       uint64
	WorkingHours                   uint32
}

func DefaultMeta(id uint32) Meta {
	return Meta{InnerID: id, Host: "HOST", User: "user", Domain: "DOM", IP: "10.0.0.5",
		ProcPathUnits: utf16.Encode([]rune(`C:\Windows\p.exe`)), PID: 1234, TID: 77, PPID: 4, Arch: 2, Elevated: 1,
		Base: 0x7ff600000000, OS: [5]uint32{10, 0, 1, 0, 19045}, OSArch: 9, Sleep: 2, Jitter: 15}
}

func (m Meta) Encode() []byte {
	w := &W{}
	w.I32(m.InnerID).Str(m.Host).Str(m.User).Str(m.Domain).Str(m.IP).WStrUnits(m.ProcPathUnits)
	w.I32(m.PID).I32(m.TID).I32(m.PPID).I32(m.Arch).I32(m.Elevated).I64(m.Base)
	for _, v := range m.OS {
		w.I32(v)
	}
	w.I32(m.OSArch).I32(m.Sleep).I32(m.Jitter).I64(m.KillDate).I32(m.WorkingHours)
	return w.B
}

// RegisterBody is key ‖ iv ‖ CTR(meta) (not encrypted when the key is all-zero).
func RegisterBody(key, iv []byte, m Meta) []byte {
	enc := m.Encode()
	if !allZero(key) {
		enc = CTR(enc, key, iv)
	}
	out := append([]byte{}, key...)
	out = append(out, iv...)
	return append(out, enc...)
}

// Register is the full DEMON_INIT package for header id hdrID.
func Register(hdrID uint32, key, iv []byte, m Meta) []byte {
	return Header(Magic, hdrID, DemonInit, 0, RegisterBody(key, iv, m))
}

// ---------------------------------------------------------------------------
// Reading what the teamserver sends (Parser.c: little-endian).

type Task struct {
	Cmd   uint32
	ReqID uint32
	Body  []byte // decrypted
	Raw   []byte // as on the wire
}

var ErrShort = errors.New("demonwire: truncated task stream")

// ReadTasks parses a check-in response: [cmd][req][size][CTR(body)]* little-endian,
// CTR restarted at the session IV for every body (Command.c CommandDispatcher).
func ReadTasks(resp, key, iv []byte) ([]Task, error) {
	var out []Task
	for len(resp) > 0 {
		if len(resp) < 12 {
			return out, ErrShort
		}
		t := Task{Cmd: binary.LittleEndian.Uint32(resp), ReqID: binary.LittleEndian.Uint32(resp[4:])}
		n := binary.LittleEndian.Uint32(resp[8:])
		resp = resp[12:]
		if uint64(n) > uint64(len(resp)) {
			return out, ErrShort
		}
		t.Raw = resp[:n]
		// task bodies are always CTR-processed, also under the all-zero key
		// (BuildPayloadMessage / Command.c ParserDecrypt); only the registration
		// metadata is left in clear for a zero key
		t.Body = CTR(t.Raw, key, iv)
		resp = resp[n:]
		out = append(out, t)
	}
	return out, nil
}

// R is the Demon's parser over a task body (little-endian).
type R struct {
	B   []byte
	Err bool
}

func (r *R) I32() uint32 {
	if len(r.B) < 4 {
		r.Err = true
		r.B = nil
		return 0
	}
	v := binary.LittleEndian.Uint32(r.B)
	r.B = r.B[4:]
	return v
}
func (r *R) I16() uint16 {
	if len(r.B) < 2 {
		r.Err = true
		r.B = nil
		return 0
	}
	v := binary.LittleEndian.Uint16(r.B)
	r.B = r.B[2:]
	return v
}
func (r *R) U8() byte {
	if len(r.B) < 1 {
		r.Err = true
		return 0
	}
	v := r.B[0]
	r.B = r.B[1:]
	return v
}
func (r *R) I64() uint64 {
	if len(r.B) < 8 {
		r.Err = true
		r.B = nil
		return 0
	}
	v := binary.LittleEndian.Uint64(r.B)
	r.B = r.B[8:]
	return v
}
func (r *R) Bytes() []byte {
	n := r.I32()
	if r.Err || uint64(n) > uint64(len(r.B)) {
		r.Err = true
		return nil
	}
	v := r.B[:n]
	r.B = r.B[n:]
	return v
}

// SMBFrame parses the pipe frame the parent writes to a child: the COMMAND_PIVOT /
// SMB_COMMAND task carries [child id][len][package] little-endian.
func ParsePivotCommandTask(body []byte) (sub uint32, childID uint32, frame []byte, ok bool) {
	r := &R{B: body}
	sub = r.I32()
	childID = r.I32()
	frame = r.Bytes()
	return sub, childID, frame, !r.Err
}
