// Package vrand replaces math/rand in instrumented code by a deterministic source that
// harnesses reset per execution.
package vrand

import (
	mr "math/rand"
	"sync"
)

var (
	mu  sync.Mutex
	src = mr.New(mr.NewSource(1))
)

// Reset restarts the sequence (call at the start of every execution).
func Reset(seed int64) { mu.Lock(); src = mr.New(mr.NewSource(seed)); mu.Unlock() }

func Seed(int64) {}
func Uint32() uint32 { mu.Lock(); defer mu.Unlock(); return src.Uint32() }
func Uint64() uint64 { mu.Lock(); defer mu.Unlock(); return src.Uint64() }
func Int() int       { mu.Lock(); defer mu.Unlock(); return src.Int() }
func Int31() int32   { mu.Lock(); defer mu.Unlock(); return src.Int31() }
func Int63() int64   { mu.Lock(); defer mu.Unlock(); return src.Int63() }
func Intn(n int) int { mu.Lock(); defer mu.Unlock(); return src.Intn(n) }
func Int31n(n int32) int32 { mu.Lock(); defer mu.Unlock(); return src.Int31n(n) }
func Int63n(n int64) int64 { mu.Lock(); defer mu.Unlock(); return src.Int63n(n) }
func Float64() float64     { mu.Lock(); defer mu.Unlock(); return src.Float64() }
func Perm(n int) []int     { mu.Lock(); defer mu.Unlock(); return src.Perm(n) }
func Read(p []byte) (int, error) { mu.Lock(); defer mu.Unlock(); return src.Read(p) }

type Rand = mr.Rand
type Source = mr.Source

func New(s mr.Source) *mr.Rand   { return mr.New(s) }
func NewSource(seed int64) mr.Source { return mr.NewSource(1) }
