package c17

import (
	"bufio"
	"context"
	"encoding/hex"
	"encoding/json"
	"fmt"
	"os"
	"os/exec"
	"runtime"
	"runtime/debug"
	"runtime/pprof"
	"sort"
	"strconv"
	"strings"
	"sync"
	"sync/atomic"
	"syscall"
	"time"

	"verifmc/ev"
)

// ---------------------------------------------------------------------------
// work units

type feedFunc func(src []byte, entries entrySet)

type unit struct {
	label string
	run   func(feed feedFunc)
	count int64 // inputs in this unit (for the bounds section)
	// worst, if set, names the hardest input of the family the unit enumerates; a stall
	// inside the unit is re-checked on it too (a stall just above the threshold at a
	// small depth may complete when re-run alone on an idle machine)
	worst func() []byte
}

type wrapper struct {
	name      string
	pre, post string
}

var identity = wrapper{name: "bare"}

// enumUnits: all strings of exactly L atoms of a, sharded by the first two atoms.
func enumUnits(a *alphabet, L int, w wrapper, entries entrySet) []unit {
	n := len(a.atoms)
	pow := func(k int) int64 {
		p := int64(1)
		for i := 0; i < k; i++ {
			p *= int64(n)
		}
		return p
	}
	mk := func(prefix []int) unit {
		rest := L - len(prefix)
		return unit{
			label: fmt.Sprintf("enum/%s/%s/len=%d/prefix=%v", a.name, w.name, L, prefix),
			count: pow(rest),
			run: func(feed feedFunc) {
				buf := make([]byte, 0, 128)
				buf = append(buf, w.pre...)
				for _, i := range prefix {
					buf = append(buf, a.atoms[i]...)
				}
				idx := make([]int, rest)
				marks := make([]int, rest+1)
				marks[0] = len(buf)
				// odometer over the remaining positions; marks[k] = buffer length before atom k
				k := 0
				for {
					for ; k < rest; k++ {
						buf = append(buf[:marks[k]], a.atoms[idx[k]]...)
						marks[k+1] = len(buf)
					}
					full := append(buf[:marks[rest]], w.post...)
					feed(full, entries)
					// advance
					k = rest - 1
					for k >= 0 {
						idx[k]++
						if idx[k] < n {
							break
						}
						idx[k] = 0
						k--
					}
					if k < 0 {
						return
					}
				}
			},
		}
	}
	if L <= 2 {
		return []unit{mk(nil)}
	}
	var us []unit
	for i := 0; i < n; i++ {
		for j := 0; j < n; j++ {
			us = append(us, mk([]int{i, j}))
		}
	}
	return us
}

func corpusUnits(files []corpusFile, thorough bool) (us []unit, nTrunc, nMut int64) {
	const eMut = eAll &^ eRangeScanner // mutants: everything but the line scanner
	for fi := range files {
		f := files[fi]
		d := f.data
		// every truncation and every suffix
		us = append(us, unit{label: "corpus/truncate/" + f.rel, count: int64(len(d)) + 1, run: func(feed feedFunc) {
			for i := len(d); i >= 0; i-- {
				feed(d[:i], eAll)
			}
		}})
		nTrunc += int64(len(d)) + 1
		us = append(us, unit{label: "corpus/suffix/" + f.rel, count: int64(len(d)), run: func(feed feedFunc) {
			for i := 1; i <= len(d); i++ {
				feed(d[i:], eAll)
			}
		}})
		nTrunc += int64(len(d))
		// every single-byte deletion
		us = append(us, unit{label: "corpus/delete/" + f.rel, count: int64(len(d)), run: func(feed feedFunc) {
			buf := make([]byte, 0, len(d))
			for i := 0; i < len(d); i++ {
				buf = append(append(buf[:0], d[:i]...), d[i+1:]...)
				feed(buf, eMut)
			}
		}})
		nMut += int64(len(d))
		toks := mutTokens
		if !thorough {
			// quick: token mutations only on the smallest shipped profile
			if f.rel != quickMutFile(files) {
				continue
			}
			toks = mutTokens[:8]
		}
		for _, tok := range toks {
			tok := tok
			us = append(us, unit{label: fmt.Sprintf("corpus/substitute(%q)/%s", tok, f.rel), count: int64(len(d)), run: func(feed feedFunc) {
				buf := make([]byte, 0, len(d)+8)
				for i := 0; i < len(d); i++ {
					buf = append(append(append(buf[:0], d[:i]...), tok...), d[i+1:]...)
					feed(buf, eMut)
				}
			}})
			us = append(us, unit{label: fmt.Sprintf("corpus/insert(%q)/%s", tok, f.rel), count: int64(len(d)) + 1, run: func(feed feedFunc) {
				buf := make([]byte, 0, len(d)+8)
				for i := 0; i <= len(d); i++ {
					buf = append(append(append(buf[:0], d[:i]...), tok...), d[i:]...)
					feed(buf, eMut)
				}
			}})
			nMut += 2*int64(len(d)) + 1
		}
	}
	return
}

func quickMutFile(files []corpusFile) string {
	best := ""
	size := 0
	for _, f := range files {
		if isProfile(f) && strings.HasPrefix(f.rel, "profiles/") && (best == "" || len(f.data) < size) {
			best, size = f.rel, len(f.data)
		}
	}
	return best
}

func towerDepths(thorough bool) []int {
	var ds []int
	for d := 0; d <= 24; d++ {
		ds = append(ds, d)
	}
	ds = append(ds, 32, 48, 64, 100, 128, 256, 500, 1000, 2000)
	if thorough {
		for d := 25; d <= 200; d++ {
			ds = append(ds, d)
		}
		ds = append(ds, 300, 400, 750, 1500, 1999, 2001)
		sort.Ints(ds)
		out := ds[:0]
		for i, d := range ds {
			if i == 0 || d != ds[i-1] {
				out = append(out, d)
			}
		}
		ds = out
	}
	return ds
}

// One unit per tower kind, depths ascending: if a depth stalls, the deeper ones are not
// attempted and the stall is re-checked on the deepest tower of the same shape.
func towerUnits(thorough bool) (us []unit, n int64) {
	depths := towerDepths(thorough)
	for _, t := range towers {
		t := t
		var variant atomic.Int32
		closers := func(d, v int) int { return []int{0, d - 1, d, d + 1}[v] }
		us = append(us, unit{label: "tower/" + t.name, count: int64(4 * len(depths)),
			run: func(feed feedFunc) {
				for _, d := range depths {
					for v := 0; v < 4; v++ {
						if cl := closers(d, v); cl >= 0 {
							variant.Store(int32(v))
							feed(t.build(d, cl), t.entries)
						}
					}
				}
			},
			worst: func() []byte {
				d := depths[len(depths)-1]
				return t.build(d, closers(d, int(variant.Load())))
			}})
		n += int64(4 * len(depths))
	}
	return
}

// ---------------------------------------------------------------------------
// workers and the no-progress monitor

type slot struct {
	mu        sync.Mutex
	cur       []byte
	entries   entrySet
	unit      string
	unitWorst func() []byte
	seq       atomic.Uint64
	where     atomic.Pointer[string] // "entry/stage" that is running
	intern    map[string]*string
	busy      atomic.Bool
	abandoned atomic.Bool
	finished  atomic.Bool
	doneOnce  sync.Once
	c         *checker
	maxDur    time.Duration
	maxInput  []byte
}

type hang struct {
	worst   []byte
	input   []byte
	entries entrySet
	entry   string
	unit    string
}

const (
	hangAfter   = 60 * time.Second  // one input without completing: 4+ orders of magnitude above normal
	reproLimit  = 180 * time.Second // per reproduction attempt in a subprocess
	reproRounds = 3
)

var verbose = os.Getenv("VERIF_C17_VERBOSE") != ""

type pool struct {
	units    []unit
	next     atomic.Int64
	deadline time.Time
	stopped  atomic.Bool
	mu       sync.Mutex
	slots    []*slot
	hangs    []hang
	wg       sync.WaitGroup
	skipped  atomic.Int64
	// after maxHangs stalled inputs the run stops handing out units (a defect that
	// makes a common input loop would otherwise stall every replacement worker too)
	tooManyHangs atomic.Bool
}

const maxHangs = 4

func (p *pool) worker(s *slot) {
	defer s.doneOnce.Do(p.wg.Done)
	defer s.finished.Store(true)
	c := s.c
	s.intern = map[string]*string{}
	c.progress = func(entry, stage string) {
		k := entry + "/" + stage
		ptr := s.intern[k]
		if ptr == nil {
			ptr = &k
			s.intern[k] = ptr
		}
		s.where.Store(ptr)
	}
	feed := func(src []byte, entries entrySet) {
		if s.abandoned.Load() {
			return
		}
		s.mu.Lock()
		s.cur = append(s.cur[:0], src...)
		s.entries = entries
		s.mu.Unlock()
		s.seq.Add(1)
		t0 := time.Now()
		c.checkInput(src, entries)
		if d := time.Since(t0); d > s.maxDur {
			s.maxDur = d
			s.maxInput = append(s.maxInput[:0], src...)
		}
	}
	for {
		if s.abandoned.Load() {
			return
		}
		i := p.next.Add(1) - 1
		if i >= int64(len(p.units)) {
			return
		}
		if p.tooManyHangs.Load() {
			p.skipped.Add(1)
			continue
		}
		if !p.deadline.IsZero() && time.Now().After(p.deadline) {
			p.stopped.Store(true)
			p.skipped.Add(1)
			continue
		}
		u := p.units[i]
		s.mu.Lock()
		s.unit = u.label
		s.unitWorst = u.worst
		s.mu.Unlock()
		s.busy.Store(true)
		t0 := time.Now()
		u.run(feed)
		s.busy.Store(false)
		if verbose {
			if d := time.Since(t0); d > 2*time.Second {
				fmt.Fprintf(os.Stderr, "C17: unit %s took %s\n", u.label, d.Round(time.Millisecond))
			}
		}
	}
}

func processCPU() time.Duration {
	var ru syscall.Rusage
	if syscall.Getrusage(syscall.RUSAGE_SELF, &ru) != nil {
		return 0
	}
	return time.Duration(ru.Utime.Nano() + ru.Stime.Nano())
}

func (s *slot) whereStr() string {
	if p := s.where.Load(); p != nil {
		return *p
	}
	return "?"
}

func (p *pool) spawn() *slot {
	s := &slot{c: newChecker()}
	p.mu.Lock()
	p.slots = append(p.slots, s)
	p.mu.Unlock()
	p.wg.Add(1)
	go p.worker(s)
	return s
}

// monitor declares a hang only when one input has not completed for hangAfter; the
// worker is abandoned (a goroutine cannot be killed), a replacement takes over the
// remaining units, and the input is re-run in subprocesses at the end.
func (p *pool) monitor(done <-chan struct{}) {
	type obs struct {
		seq   uint64
		since time.Time
		cpu   time.Duration
	}
	last := map[*slot]*obs{}
	tick := time.NewTicker(time.Second)
	defer tick.Stop()
	for {
		select {
		case <-done:
			return
		case now := <-tick.C:
			p.mu.Lock()
			slots := append([]*slot(nil), p.slots...)
			p.mu.Unlock()
			for _, s := range slots {
				if s.abandoned.Load() || s.finished.Load() {
					continue
				}
				q := s.seq.Load()
				o := last[s]
				if o == nil || o.seq != q || !s.busy.Load() {
					last[s] = &obs{seq: q, since: now, cpu: processCPU()}
					continue
				}
				// 60 s of wall time on one input, during which the process as a whole also
				// consumed 60 s of CPU time (on an idle 16-core machine the second condition
				// is implied; on an overloaded one it stretches the threshold instead of
				// mistaking starvation for a loop)
				if now.Sub(o.since) >= hangAfter && processCPU()-o.cpu >= hangAfter {
					s.mu.Lock()
					h := hang{input: append([]byte(nil), s.cur...), entries: s.entries, unit: s.unit,
						entry: s.whereStr()}
					if s.unitWorst != nil {
						h.worst = s.unitWorst()
					}
					s.mu.Unlock()
					s.abandoned.Store(true)
					p.mu.Lock()
					p.hangs = append(p.hangs, h)
					nh := len(p.hangs)
					p.mu.Unlock()
					fmt.Fprintf(os.Stderr, "C17: no progress for %s in %s on %s (unit %s); worker abandoned, continuing\n", hangAfter, h.entry, quoteInput(h.input), h.unit)
					s.doneOnce.Do(p.wg.Done) // the stuck goroutine no longer counts
					if nh >= maxHangs {
						p.tooManyHangs.Store(true)
					} else {
						p.spawn()
					}
				}
			}
			var ms runtime.MemStats
			runtime.ReadMemStats(&ms)
			if ms.HeapAlloc > 8<<30 {
				// the live heap of a normal run is a few MB: some input makes a parser allocate
				// without bound (an endless loop that builds something).  The goroutines cannot be
				// stopped, so this process is replaced by a triage run that re-checks the inputs in
				// flight one by one, each in a subprocess with a memory cap and a time limit.
				var cand []string
				for _, s := range slots {
					s.mu.Lock()
					if s.busy.Load() && !s.finished.Load() {
						cand = append(cand, hex.EncodeToString(s.cur)+":"+strconv.Itoa(int(s.entries))+":"+s.unit)
					}
					s.mu.Unlock()
				}
				fmt.Fprintf(os.Stderr, "C17: heap above 8 GiB - runaway allocation; re-checking the %d inputs in flight one by one\n", len(cand))
				env := append(os.Environ(), "VERIF_C17_TRIAGE="+strings.Join(cand, ","))
				syscall.Exec(os.Args[0], os.Args, env)
				os.Exit(2)
			}
		}
	}
}

func (p *pool) run(workers int) {
	done := make(chan struct{})
	go p.monitor(done)
	for i := 0; i < workers; i++ {
		p.spawn()
	}
	p.wg.Wait()
	close(done)
}

// ---------------------------------------------------------------------------
// single-input mode (subprocess): used to reproduce a suspected hang, and by hand

func runOne(hexInput string) {
	src, err := hex.DecodeString(hexInput)
	if err != nil {
		fmt.Fprintln(os.Stderr, "bad VERIF_C17_ONE:", err)
		os.Exit(2)
	}
	entries := eAll
	if m, err := strconv.ParseUint(os.Getenv("VERIF_C17_ENTRIES"), 10, 32); err == nil && m != 0 {
		entries = entrySet(m)
	}
	if pf := os.Getenv("VERIF_C17_CPUPROFILE"); pf != "" {
		if f, err := os.Create(pf); err == nil {
			pprof.StartCPUProfile(f)
			defer pprof.StopCPUProfile()
		}
	}
	// a reproduction of a suspected endless loop may allocate without bound: cap the address
	// space, the Go runtime then ends the process with "out of memory"
	lim := syscall.Rlimit{Cur: 8 << 30, Max: 8 << 30}
	syscall.Setrlimit(syscall.RLIMIT_AS, &lim)
	c := newChecker()
	out := bufio.NewWriter(os.Stdout)
	c.progress = func(entry, stage string) { fmt.Fprintf(out, "ENTRY %s/%s\n", entry, stage); out.Flush() }
	c.checkInput(src, entries)
	for _, sig := range sortedKeys(c.findings) {
		fmt.Fprintf(out, "FINDING %s :: %s\n", sig, c.findings[sig].what)
	}
	for _, o := range sortedKeys(c.outcomes) {
		fmt.Fprintf(out, "OUTCOME %s\n", o)
	}
	fmt.Fprintln(out, "DONE")
	out.Flush()
}

// reproduce re-runs a suspected hang alone; it returns the entry point that was running
// when the limit expired, or "" if the input completed.
func reproduce(h hang) (stuckEntry string, completed bool) {
	ctx, cancel := context.WithTimeout(context.Background(), reproLimit)
	defer cancel()
	cmd := exec.CommandContext(ctx, os.Args[0])
	cmd.Env = append(os.Environ(), "VERIF_C17_ONE="+hex.EncodeToString(h.input), "VERIF_C17_ENTRIES="+strconv.Itoa(int(h.entries)))
	if len(h.input) == 0 {
		cmd.Env = append(cmd.Env, "VERIF_C17_ONE_EMPTY=1")
	}
	outb, _ := cmd.Output()
	last := ""
	for _, line := range strings.Split(string(outb), "\n") {
		if strings.HasPrefix(line, "ENTRY ") {
			last = strings.TrimPrefix(line, "ENTRY ")
		}
		if line == "DONE" {
			return "", true
		}
	}
	return last, false
}

// triage: the main run was replaced because its heap grew without bound.  Every input that
// was in flight is re-checked alone (three times, memory-capped, time-limited); one that
// never completes is the finding.  The rest of the enumeration is not run: not exhaustive.
func triage(r *ev.Run, list string) {
	os.Unsetenv("VERIF_C17_TRIAGE")
	r.NotExhaustive("the enumeration was abandoned when the heap grew beyond 8 GiB (runaway allocation); only the inputs in flight were re-checked")
	found := false
	for _, c := range strings.Split(list, ",") {
		f := strings.SplitN(c, ":", 3)
		if len(f) != 3 {
			continue
		}
		in, _ := hex.DecodeString(f[0])
		em, _ := strconv.Atoi(f[1])
		h := hang{input: in, entries: entrySet(em), unit: f[2]}
		stuck, where := 0, ""
		for i := 0; i < reproRounds; i++ {
			e, ok := reproduce(h)
			if ok {
				break // completes alone: not this one
			}
			if i == 0 {
				where = e
			}
			if e == where {
				stuck++
			}
		}
		r.Eval(1)
		if stuck == reproRounds {
			found = true
			r.Violate("hang/"+where, fmt.Sprintf("%s does not return on %s: alone, with 8 GiB of memory and %s, it neither completes nor stops allocating (reproduced %d times)", where, quoteInput(in), reproLimit, reproRounds),
				map[string]any{"input_hex": f[0], "input": string(in), "where": where, "unit": f[2]})
		}
	}
	if !found {
		r.Violate("harness/runaway-allocation-not-attributed", "the run's heap grew beyond 8 GiB but none of the inputs in flight reproduces it alone", map[string]any{"inputs": list})
	}
}

// ---------------------------------------------------------------------------

// SingleInputMode: when VERIF_C17_ONE=<hex> is set the binary checks that one input,
// prints findings and outcomes and returns true (used to reproduce stalls, and by hand).
func SingleInputMode() bool {
	if one := os.Getenv("VERIF_C17_ONE"); one != "" || os.Getenv("VERIF_C17_ONE_EMPTY") != "" {
		runOne(one)
		return true
	}
	return false
}

// replayFile re-checks the input stored in a replay artefact written by a previous run
// (./run.sh C17 quick --replay <file>): exit code 1 if its signature shows again.
func replayFile(path string) int {
	b, err := os.ReadFile(path)
	if err != nil {
		fmt.Fprintln(os.Stderr, "C17 replay:", err)
		return 2
	}
	var art struct {
		Signature string `json:"signature"`
		Detail    struct {
			InputHex string `json:"input_hex"`
		} `json:"detail"`
	}
	if err := json.Unmarshal(b, &art); err != nil {
		fmt.Fprintln(os.Stderr, "C17 replay:", err)
		return 2
	}
	src, err := hex.DecodeString(art.Detail.InputHex)
	if err != nil {
		fmt.Fprintln(os.Stderr, "C17 replay: bad input_hex:", err)
		return 2
	}
	if strings.HasPrefix(art.Signature, "C17/hang/") {
		where, done := reproduce(hang{input: src, entries: eAll})
		if done {
			fmt.Printf("C17 replay: %s completes on %s\n", art.Signature, quoteInput(src))
			return 0
		}
		fmt.Printf("C17 replay: still does not return within %s in %s on %s\n", reproLimit, where, quoteInput(src))
		return 1
	}
	c := newChecker()
	c.checkInput(src, eAll)
	code := 0
	for _, sig := range sortedKeys(c.findings) {
		mark := " "
		if "C17/"+sig == art.Signature {
			mark, code = "*", 1
		}
		fmt.Printf("%s C17/%s :: %s\n", mark, sig, c.findings[sig].what)
	}
	if code == 0 {
		fmt.Printf("C17 replay: %s does not show on %s any more\n", art.Signature, quoteInput(src))
	}
	return code
}

func Run(r *ev.Run) {
	for i, a := range os.Args {
		if a == "--replay" && i+1 < len(os.Args) {
			os.Exit(replayFile(os.Args[i+1]))
		}
	}
	if tri := os.Getenv("VERIF_C17_TRIAGE"); tri != "" {
		triage(r, tri)
		return
	}
	thorough := r.Thorough()
	start := time.Now()
	debug.SetGCPercent(800)                                // live heap is a few MB; collect less often
	if pf := os.Getenv("VERIF_C17_CPUPROFILE"); pf != "" { // development aid
		if f, err := os.Create(pf); err == nil {
			pprof.StartCPUProfile(f)
			defer pprof.StopCPUProfile()
		}
	}

	full := &alphabet{name: "full", atoms: fullAtoms}
	core := &alphabet{name: "core", atoms: coreAtoms}
	tmpl := &alphabet{name: "template", atoms: tmplAtoms}
	jsn := &alphabet{name: "json", atoms: jsonAtoms}
	expr := &alphabet{name: "expression", atoms: exprAtoms}
	dirv := &alphabet{name: "directive", atoms: directiveAtoms}
	call := &alphabet{name: "call", atoms: callAtoms}
	jkey := &alphabet{name: "json-key", atoms: jsonKeyAtoms}
	esc := &alphabet{name: "escape", atoms: escapeAtoms}
	num := &alphabet{name: "number", atoms: numberAtoms}

	type job struct {
		a       *alphabet
		n       int
		w       wrapper
		entries entrySet
	}
	quoted := wrapper{"quoted", "a = \"", "\"\n"}
	heredoc := wrapper{"heredoc", "a = <<E\n", "\nE\n"}
	jsonStr := wrapper{"json-string", "{\"a\":\"", "\"}"}
	attr := wrapper{"attribute", "a = ", "\n"}
	label := wrapper{"block-label", "b \"", "\" {}\n"}
	index := wrapper{"index-key", "a[\"", "\"]"}
	jsonVal := wrapper{"json-value", "{\"a\":", "}"}
	var jobs []job
	if thorough {
		jobs = []job{
			{full, 4, identity, eAllCheap},
			{core, 5, identity, eAllCheap},
			{tmpl, 5, identity, eLexTemplate | eTemplate},
			{tmpl, 4, quoted, eLexConfig | eConfig},
			{tmpl, 4, heredoc, eLexConfig | eConfig},
			{tmpl, 4, jsonStr, eJSON},
			{jsn, 6, identity, eJSON | eJSONExpr},
			{expr, 5, identity, eLexConfig | eExpr | eTraversal},
			{expr, 4, attr, eConfig},
			{dirv, 5, identity, eLexTemplate | eTemplate},
			{dirv, 4, quoted, eLexConfig | eConfig},
			{dirv, 4, heredoc, eLexConfig | eConfig},
			{call, 6, identity, eLexConfig | eExpr | eTraversal},
			{call, 5, attr, eConfig},
			{jkey, 6, identity, eJSON | eJSONExpr},
			{esc, 4, quoted, eLexConfig | eConfig},
			{esc, 4, label, eConfig},
			{esc, 4, index, eExpr | eTraversal},
			{esc, 4, jsonStr, eJSON},
			{num, 5, jsonVal, eJSON | eJSONExpr},
			{num, 5, attr, eLexConfig | eConfig},
			{num, 5, identity, eExpr},
		}
	} else {
		jobs = []job{
			{full, 3, identity, eAllCheap},
			{core, 4, identity, eAllCheap},
			{tmpl, 4, identity, eLexTemplate | eTemplate},
			{tmpl, 3, quoted, eLexConfig | eConfig},
			{tmpl, 3, heredoc, eLexConfig | eConfig},
			{tmpl, 3, jsonStr, eJSON},
			{jsn, 4, identity, eJSON | eJSONExpr},
			{expr, 4, identity, eLexConfig | eExpr | eTraversal},
			{expr, 3, attr, eConfig},
			{dirv, 4, identity, eLexTemplate | eTemplate},
			{dirv, 3, quoted, eLexConfig | eConfig},
			{dirv, 3, heredoc, eLexConfig | eConfig},
			{call, 5, identity, eLexConfig | eExpr | eTraversal},
			{call, 4, attr, eConfig},
			{jkey, 5, identity, eJSON | eJSONExpr},
			{esc, 3, quoted, eLexConfig | eConfig},
			{esc, 3, label, eConfig},
			{esc, 3, index, eExpr | eTraversal},
			{esc, 3, jsonStr, eJSON},
			{num, 4, jsonVal, eJSON | eJSONExpr},
			{num, 4, attr, eLexConfig | eConfig},
			{num, 4, identity, eExpr},
		}
	}

	var units []unit
	enumBounds := map[string]any{}
	var enumInputs int64
	for _, j := range jobs {
		var n int64
		for L := 0; L <= j.n; L++ {
			us := enumUnits(j.a, L, j.w, j.entries)
			for _, u := range us {
				n += u.count
			}
			units = append(units, us...)
		}
		enumBounds[j.a.name+"/"+j.w.name] = map[string]any{"atoms": len(j.a.atoms), "max_atoms": j.n, "inputs": n, "entry_points": entryList(j.entries)}
		enumInputs += n
	}
	files, err := loadCorpus()
	if err != nil {
		fmt.Fprintln(os.Stderr, "C17: cannot load the corpora:", err)
		os.Exit(2)
	}
	cu, nTrunc, nMut := corpusUnits(files, thorough)
	tu, nTower := towerUnits(thorough)
	// the few long units first (towers), then the enumerations, longest strings first,
	// then the corpus units, largest first, so that the tail of the run is made of small units
	sort.SliceStable(units, func(i, j int) bool { return units[i].count > units[j].count })
	sort.SliceStable(cu, func(i, j int) bool { return cu[i].count > cu[j].count })
	all := append(append(append([]unit(nil), tu...), units...), cu...)
	if only := os.Getenv("VERIF_C17_ONLY"); only != "" { // development aid
		all = nil
		if strings.Contains(only, "towers") {
			all = append(all, tu...)
		}
		if strings.Contains(only, "corpus") {
			all = append(all, cu...)
		}
		if strings.Contains(only, "enum") {
			all = append(all, units...)
		}
		r.NotExhaustive("VERIF_C17_ONLY=" + only)
	}

	p := &pool{units: all}
	budget := 70 * time.Second
	if thorough {
		budget = 18 * time.Minute
	}
	if b, err := strconv.Atoi(os.Getenv("VERIF_C17_BUDGET_S")); err == nil && b > 0 { // development aid
		budget = time.Duration(b) * time.Second
	}
	p.deadline = start.Add(budget)
	workers := runtime.NumCPU()
	if w, err := strconv.Atoi(os.Getenv("VERIF_C17_WORKERS")); err == nil && w > 0 {
		workers = w
	}
	p.run(workers)

	// merge
	merged := map[string]*finding{}
	outcomes := map[string]struct{}{}
	var evals, calls, nodes, tokens, diags, evalOK int64
	var maxDur time.Duration
	var maxInput []byte
	maxNodes := 0
	for _, s := range p.slots {
		if !s.finished.Load() {
			continue // stuck worker: its state may still be written
		}
		c := s.c
		for sig, f := range c.findings {
			old, ok := merged[sig]
			if !ok {
				cp := *f
				merged[sig] = &cp
				continue
			}
			n := old.count + f.count
			if smaller(f.input, old.input) {
				cp := *f
				merged[sig] = &cp
			}
			merged[sig].count = n
		}
		for o := range c.outcomes {
			outcomes[o] = struct{}{}
		}
		evals += c.evals
		calls += c.calls
		nodes += c.nodes
		tokens += c.tokens
		diags += c.diagsN
		evalOK += c.evalOK
		if c.maxNodes > maxNodes {
			maxNodes = c.maxNodes
		}
		if s.maxDur > maxDur {
			maxDur, maxInput = s.maxDur, s.maxInput
		}
	}
	r.Eval(int(evals))
	for o := range outcomes {
		r.Outcome(o)
	}

	// suspected hangs: reproduce alone, three times (the rounds run side by side)
	seenHang := map[string]bool{}
	sort.Slice(p.hangs, func(i, j int) bool {
		a, b := p.hangs[i], p.hangs[j]
		if a.entry != b.entry {
			return a.entry < b.entry
		}
		return smaller(a.input, b.input)
	})
	if p.tooManyHangs.Load() {
		r.NotExhaustive(fmt.Sprintf("%d inputs stalled: the run stopped handing out work units (%d not run)", len(p.hangs), p.skipped.Load()))
	}
	for _, h := range p.hangs {
		r.NotExhaustive("unit " + h.unit + " was abandoned after an input made no progress for " + hangAfter.String())
		if seenHang[h.entry] || len(seenHang) >= 3 {
			continue
		}
		seenHang[h.entry] = true
		cands := [][]byte{h.input}
		if h.worst != nil && string(h.worst) != string(h.input) {
			cands = append(cands, h.worst)
		}
		reported := false
		for _, in := range cands {
			hh := h
			hh.input = in
			entries := make([]string, reproRounds)
			oks := make([]bool, reproRounds)
			var wg sync.WaitGroup
			for i := 0; i < reproRounds; i++ {
				wg.Add(1)
				go func(i int) { defer wg.Done(); entries[i], oks[i] = reproduce(hh) }(i)
			}
			wg.Wait()
			stuck := 0
			for i := range oks {
				if !oks[i] && entries[i] == entries[0] {
					stuck++
				}
			}
			if stuck == reproRounds {
				where := entries[0]
				r.Violate("hang/"+where, fmt.Sprintf("%s does not return within %s on %s (an input of unit %s stalled for %s in the run; reproduced %d times alone)", where, reproLimit, quoteInput(in), h.unit, hangAfter, reproRounds),
					map[string]any{"input_hex": hex.EncodeToString(in), "input": string(in), "where": where, "first_stalled_input": string(h.input), "unit": h.unit})
				reported = true
				break
			}
		}
		if !reported {
			r.Note("input %s made no progress for %s in %s but completed when re-run alone: not reported", quoteInput(h.input), hangAfter, h.entry)
		}
	}
	if p.stopped.Load() {
		r.NotExhaustive(fmt.Sprintf("internal deadline of %s reached: %d of %d work units were not run", budget, p.skipped.Load(), len(all)))
	}

	for _, sig := range sortedKeys(merged) {
		f := merged[sig]
		r.Violate(sig, f.what, map[string]any{"input": string(f.input), "input_hex": hex.EncodeToString(f.input), "entry_point": f.entry, "occurrences": f.count,
			"replay": "VERIF_C17_ONE=" + hex.EncodeToString(f.input) + " " + "$VERIF_BIN"})
	}

	// evidence
	r.Rule = "every concatenation of <= n atoms of each lexical alphabet (bare and inside quoted-template / heredoc / JSON-string / attribute wrappers); " +
		"every prefix, every suffix, every single-byte deletion and every substitution/insertion of a mutation token at every offset of every shipped profile and sample file of the HCL fork; " +
		"nesting towers of every construct at the listed depths with 0, d-1, d, d+1 closers. Each input goes to LexConfig/LexExpression/LexTemplate, ParseConfig, ParseExpression, ParseTemplate, ParseTraversalAbs, json.Parse, json.ParseExpression, hcl.RangeScanner " +
		"(corpus inputs also to hclsimple.Decode into the teamserver's HavocConfig); outcomes are (entry point, first error summary | ok) pairs"
	r.Bounds["enumerations"] = enumBounds
	r.Bounds["enumerated_inputs"] = enumInputs
	r.Bounds["corpus_files"] = len(files)
	r.Bounds["corpus_bytes"] = corpusBytes(files)
	r.Bounds["corpus_prefixes_and_suffixes"] = nTrunc
	r.Bounds["corpus_mutants"] = nMut
	r.Bounds["mutation_tokens"] = len(mutTokens)
	r.Bounds["tower_kinds"] = len(towers)
	r.Bounds["tower_depths"] = towerDepths(thorough)
	r.Bounds["tower_inputs"] = nTower
	r.Bounds["workers"] = workers
	r.Extra["entry_point_calls"] = calls
	r.Extra["tree_nodes_checked"] = nodes
	r.Extra["largest_tree_nodes"] = maxNodes
	r.Extra["tokens_checked"] = tokens
	r.Extra["diagnostics_checked"] = diags
	r.Extra["error_free_results_evaluated_and_decoded"] = evalOK
	r.Extra["slowest_input_ms"] = float64(maxDur.Microseconds()) / 1000
	r.Extra["slowest_input"] = quoteInput(maxInput)
	r.Extra["hang_threshold_s"] = hangAfter.Seconds()
	r.Assume(
		"termination is shown by the enumeration finishing: there is no instrumented 'tick' build, so an endless loop is detected by a monitor that sees one input not completing for 60 s (slowest input of the run is in coverage.slowest_input_ms) and is reported only if it also does not complete three times alone in a subprocess within 180 s",
		"blank = space or tab (the scanner's Spaces rule); a leading UTF-8 byte-order mark is stripped by design and accepted as skipped",
		"the grouping pseudo-nodes hclsyntax.Attributes, hclsyntax.Blocks and hclsyntax.ChildScope have no range of their own (documented as arbitrary) and are transparent for the child-inside-parent check",
		"only byte offsets of ranges are checked (line/column are not part of the statement)",
		"evaluation/decoding uses one empty and one populated EvalContext, a permissive hcldec spec mirroring the tree, gohcl targets with remain fields and the teamserver's HavocConfig",
	)
	for _, s := range sampleInputs(files) {
		r.Sample(describe(s))
	}
}

func corpusBytes(fs []corpusFile) int {
	n := 0
	for _, f := range fs {
		n += len(f.data)
	}
	return n
}

func entryList(e entrySet) []string {
	var out []string
	for _, en := range entryNames {
		if e&en.e != 0 {
			out = append(out, en.n)
		}
	}
	return out
}

func sampleInputs(files []corpusFile) [][]byte {
	out := [][]byte{
		[]byte("a = \"${"),
		[]byte("<<E\n${a}\nE\n"),
		[]byte("%{if a}x%{else}"),
		[]byte("{\"a\":[1,\"${a}\"]}"),
		[]byte("a.b[0].*"),
	}
	for _, f := range files {
		if isProfile(f) {
			out = append(out, f.data[:len(f.data)/2])
			break
		}
	}
	return out
}

func describe(src []byte) map[string]any {
	c := newChecker()
	c.checkInput(src, eAll)
	m := map[string]any{"input": quoteInput(src)}
	var oc []string
	for _, o := range sortedKeys(c.outcomes) {
		oc = append(oc, o)
	}
	m["outcomes"] = oc
	m["nodes"] = c.nodes
	m["tokens"] = c.tokens
	m["findings"] = len(c.findings)
	return m
}
