package c17

import (
	"fmt"

	"Havoc/pkg/profile"
	hcl "Havoc/pkg/profile/yaotl"
	"Havoc/pkg/profile/yaotl/gohcl"
	"Havoc/pkg/profile/yaotl/hcldec"
	"Havoc/pkg/profile/yaotl/hclsimple"
	"Havoc/pkg/profile/yaotl/hclsyntax"

	"github.com/zclconf/go-cty/cty"
	"github.com/zclconf/go-cty/cty/function"
	"github.com/zclconf/go-cty/cty/function/stdlib"
)

// "an input that produced no error diagnostic can be evaluated and decoded without
// panicking": everything below only runs for such inputs, and only a panic (or, for the
// diagnostics it returns, a range outside the input) is a finding.

func evalContext() *hcl.EvalContext {
	first := function.New(&function.Spec{
		VarParam: &function.Parameter{Name: "args", Type: cty.DynamicPseudoType, AllowNull: true, AllowUnknown: true, AllowDynamicType: true, AllowMarked: true},
		Type:     function.StaticReturnType(cty.DynamicPseudoType),
		Impl: func(args []cty.Value, _ cty.Type) (cty.Value, error) {
			if len(args) == 0 {
				return cty.NullVal(cty.DynamicPseudoType), nil
			}
			return args[0], nil
		},
	})
	obj := cty.ObjectVal(map[string]cty.Value{
		"a": cty.StringVal("s"),
		"b": cty.TupleVal([]cty.Value{cty.NumberIntVal(1), cty.NumberIntVal(2)}),
		"c": cty.True,
		"x": cty.NullVal(cty.String),
	})
	return &hcl.EvalContext{
		Variables: map[string]cty.Value{
			"a": obj,
			// one element only: the cost of evaluating nested for-loops over b must not
			// grow with the nesting depth (that would be the language, not a defect)
			"b":  cty.ListVal([]cty.Value{cty.StringVal("x")}),
			"c":  cty.MapVal(map[string]cty.Value{"k": cty.NumberIntVal(3)}),
			"e":  cty.NumberIntVal(7),
			"x":  cty.StringVal("str"),
			"E":  cty.UnknownVal(cty.String),
			"in": cty.DynamicVal,
			"if": cty.SetVal([]cty.Value{cty.True}),
		},
		Functions: map[string]function.Function{
			"a":     first,
			"b":     first,
			"f":     first,
			"upper": stdlib.UpperFunc,
			"for":   first,
		},
	}
}

func (c *checker) evalExpr(e hcl.Expression, depth int) {
	// deterministic cap on the harness's own work per input: sub-expressions reached
	// through ExprList/ExprMap are evaluated on their own only three levels deep and
	// at most 48 times per input (every expression is still evaluated as part of its root)
	if isNilIface(e) || depth > 3 || c.evalBudget <= 0 {
		return
	}
	c.evalBudget--
	c.guard("eval", func() {
		c.checkRange(e.Range(), "Expression.Range()", "")
		c.checkRange(e.StartRange(), "Expression.StartRange()", "")
		for _, tr := range e.Variables() {
			c.checkTraversal(tr, c.postKey("Variables()"))
		}
		_, d := e.Value(nil)
		c.checkDiags(d, "post")
		_, d = e.Value(c.ctx)
		c.checkDiags(d, "post")
	})
	c.guard("static-analysis", func() {
		if tr, d := hcl.AbsTraversalForExpr(e); !d.HasErrors() {
			c.checkTraversal(tr, c.postKey("AbsTraversalForExpr"))
		} else {
			c.checkDiags(d, "post")
		}
		if tr, d := hcl.RelTraversalForExpr(e); !d.HasErrors() {
			c.checkTraversal(tr, c.postKey("RelTraversalForExpr"))
		}
		_ = hcl.ExprAsKeyword(e)
		_ = hcl.UnwrapExpression(e)
		if call, d := hcl.ExprCall(e); !d.HasErrors() && call != nil {
			c.checkRange(call.NameRange, "StaticCall.NameRange", "")
			c.checkRange(call.ArgsRange, "StaticCall.ArgsRange", "")
		}
		if l, d := hcl.ExprList(e); !d.HasErrors() {
			for _, x := range l {
				c.evalExpr(x, depth+1)
			}
		}
		if m, d := hcl.ExprMap(e); !d.HasErrors() {
			for _, kv := range m {
				c.evalExpr(kv.Key, depth+1)
				c.evalExpr(kv.Value, depth+1)
			}
		}
	})
	c.guard("gohcl.DecodeExpression", func() {
		var s string
		c.checkDiags(gohcl.DecodeExpression(e, c.ctx, &s), "post")
		var v cty.Value
		c.checkDiags(gohcl.DecodeExpression(e, nil, &v), "post")
		var l []string
		c.checkDiags(gohcl.DecodeExpression(e, c.ctx, &l), "post")
	})
}

// Go targets for gohcl.DecodeBody.
type remainBody struct {
	Remain hcl.Body `yaotl:",remain"`
}
type remainMap struct {
	Remain map[string]cty.Value `yaotl:",remain"`
}
type remainAttrs struct {
	Remain hcl.Attributes `yaotl:",remain"`
}
type typedTarget struct {
	A      *string        `yaotl:"a,optional"`
	One    []int          `yaotl:"b,optional"`
	E      hcl.Expression `yaotl:"e"`
	Blocks []struct {
		Label  string   `yaotl:"l,label"`
		Remain hcl.Body `yaotl:",remain"`
	} `yaotl:"x,block"`
	Single *struct {
		A      cty.Value `yaotl:"a,optional"`
		Remain hcl.Body  `yaotl:",remain"`
	} `yaotl:"a,block"`
	Remain hcl.Body `yaotl:",remain"`
}

// specFor builds a permissive hcldec spec that mirrors the syntax tree: every
// attribute as a dynamically-typed AttrSpec, every block type as a tuple of nested
// objects built the same way from all blocks of that type.
func specFor(bodies []*hclsyntax.Body, depth int) hcldec.Spec {
	spec := hcldec.ObjectSpec{}
	if depth > 6 {
		return spec
	}
	byType := map[string][]*hclsyntax.Body{}
	labels := map[string]int{}
	for _, b := range bodies {
		if b == nil {
			continue
		}
		for name := range b.Attributes {
			spec[name] = &hcldec.AttrSpec{Name: name, Type: cty.DynamicPseudoType}
		}
		for _, blk := range b.Blocks {
			if blk == nil {
				continue
			}
			byType[blk.Type] = append(byType[blk.Type], blk.Body)
			if len(blk.Labels) > labels[blk.Type] {
				labels[blk.Type] = len(blk.Labels)
			}
		}
	}
	for ty, nested := range byType {
		n := specFor(nested, depth+1).(hcldec.ObjectSpec)
		for i := 0; i < labels[ty]; i++ {
			n[fmt.Sprintf("\x00label%d", i)] = &hcldec.BlockLabelSpec{Index: i, Name: fmt.Sprintf("l%d", i)}
		}
		if _, clash := spec[ty]; clash {
			spec["\x00block:"+ty] = &hcldec.BlockTupleSpec{TypeName: ty, Nested: n}
		} else {
			spec[ty] = &hcldec.BlockTupleSpec{TypeName: ty, Nested: n}
		}
	}
	return spec
}

func schemaFor(b *hclsyntax.Body) *hcl.BodySchema {
	s := &hcl.BodySchema{}
	for _, name := range sortedKeys(b.Attributes) {
		s.Attributes = append(s.Attributes, hcl.AttributeSchema{Name: name})
	}
	seen := map[string]bool{}
	for _, blk := range b.Blocks {
		if blk == nil || seen[blk.Type] {
			continue
		}
		seen[blk.Type] = true
		var ln []string
		for i := range blk.Labels {
			ln = append(ln, fmt.Sprintf("l%d", i))
		}
		s.Blocks = append(s.Blocks, hcl.BlockHeaderSchema{Type: blk.Type, LabelNames: ln})
	}
	return s
}

func (c *checker) evalBody(b *hclsyntax.Body) {
	c.guard("Body.Content", func() {
		c.checkRange(b.MissingItemRange(), "Body.MissingItemRange()", "")
		attrs, d := b.JustAttributes()
		c.checkDiags(d, "post")
		for _, k := range sortedKeys(attrs) {
			c.checkRange(attrs[k].Range, "hcl.Attribute.Range", "")
			c.checkRange(attrs[k].NameRange, "hcl.Attribute.NameRange", "")
		}
		content, d := b.Content(schemaFor(b))
		c.checkDiags(d, "post")
		if content != nil {
			c.checkContent(content)
		}
		content, _, d = b.PartialContent(&hcl.BodySchema{})
		c.checkDiags(d, "post")
		if content != nil {
			c.checkContent(content)
		}
	})
	c.evalBodyExprs(b, 0)
	spec := specFor([]*hclsyntax.Body{b}, 0)
	c.guard("hcldec.Decode", func() {
		_, d := hcldec.Decode(b, spec, c.ctx)
		c.checkDiags(d, "post")
		_, d = hcldec.Decode(b, spec, nil)
		c.checkDiags(d, "post")
		for _, tr := range hcldec.Variables(b, spec) {
			c.checkTraversal(tr, c.postKey("hcldec.Variables"))
		}
		c.checkRange(hcldec.SourceRange(b, spec), "hcldec.SourceRange", "")
		_, _, d = hcldec.PartialDecode(b, hcldec.ObjectSpec{}, c.ctx)
		c.checkDiags(d, "post")
	})
	c.gohclTargets(b)
}

func (c *checker) gohclTargets(b hcl.Body) {
	c.guard("gohcl.DecodeBody", func() {
		c.checkDiags(gohcl.DecodeBody(b, c.ctx, &remainBody{}), "post")
		c.checkDiags(gohcl.DecodeBody(b, c.ctx, &remainMap{}), "post")
		c.checkDiags(gohcl.DecodeBody(b, nil, &remainAttrs{}), "post")
		c.checkDiags(gohcl.DecodeBody(b, c.ctx, &typedTarget{}), "post")
		c.checkDiags(gohcl.DecodeBody(b, nil, &profile.HavocConfig{}), "post")
	})
}

func (c *checker) checkContent(content *hcl.BodyContent) {
	c.checkRange(content.MissingItemRange, "BodyContent.MissingItemRange", "")
	for _, k := range sortedKeys(content.Attributes) {
		c.checkRange(content.Attributes[k].Range, "hcl.Attribute.Range", "")
		c.checkRange(content.Attributes[k].NameRange, "hcl.Attribute.NameRange", "")
	}
	for _, blk := range content.Blocks {
		c.checkRange(blk.DefRange, "hcl.Block.DefRange", "")
		c.checkRange(blk.TypeRange, "hcl.Block.TypeRange", "")
		for _, lr := range blk.LabelRanges {
			c.checkRange(lr, "hcl.Block.LabelRanges[]", "")
		}
	}
}

func (c *checker) evalBodyExprs(b *hclsyntax.Body, depth int) {
	if b == nil || depth > 50 {
		return
	}
	for _, k := range sortedKeys(b.Attributes) {
		if a := b.Attributes[k]; a != nil {
			c.evalExpr(a.Expr, 0)
		}
	}
	for _, blk := range b.Blocks {
		if blk != nil {
			c.evalBodyExprs(blk.Body, depth+1)
		}
	}
}

// JSON bodies: attributes through JustAttributes; every property name is also tried as
// a block type with zero and with one label, recursively, through PartialContent.
func (c *checker) evalJSONBody(b hcl.Body, depth int) {
	if isNilIface(b) || depth > 2 {
		return
	}
	var names []string
	c.guard("Body.Content", func() {
		c.checkRange(b.MissingItemRange(), "json.body.MissingItemRange()", "")
		attrs, d := b.JustAttributes()
		c.checkDiags(d, "post")
		names = sortedKeys(attrs)
		for _, k := range names {
			c.checkRange(attrs[k].Range, "json:hcl.Attribute.Range", "")
			c.checkRange(attrs[k].NameRange, "json:hcl.Attribute.NameRange", "")
			c.evalExpr(attrs[k].Expr, 0)
		}
	})
	for labels := 0; labels <= 1; labels++ {
		c.guard("Body.PartialContent", func() {
			s := &hcl.BodySchema{}
			for _, n := range names {
				bs := hcl.BlockHeaderSchema{Type: n}
				if labels == 1 {
					bs.LabelNames = []string{"l"}
				}
				s.Blocks = append(s.Blocks, bs)
			}
			content, remain, d := b.PartialContent(s)
			c.checkDiags(d, "post")
			if content != nil {
				c.checkContent(content)
				for _, blk := range content.Blocks {
					c.evalJSONBody(blk.Body, depth+1)
				}
			}
			if !isNilIface(remain) {
				_, d := remain.JustAttributes()
				c.checkDiags(d, "post")
			}
			content, d = b.Content(s)
			c.checkDiags(d, "post")
		})
	}
	if depth == 0 {
		c.guard("hcldec.Decode", func() {
			spec := hcldec.ObjectSpec{}
			for _, n := range names {
				spec[n] = &hcldec.AttrSpec{Name: n, Type: cty.DynamicPseudoType}
			}
			_, d := hcldec.Decode(b, spec, c.ctx)
			c.checkDiags(d, "post")
			bspec := hcldec.ObjectSpec{}
			for _, n := range names {
				bspec[n] = &hcldec.BlockTupleSpec{TypeName: n, Nested: hcldec.ObjectSpec{
					"l": &hcldec.BlockLabelSpec{Index: 0, Name: "l"},
					"a": &hcldec.AttrSpec{Name: "a", Type: cty.DynamicPseudoType},
				}}
			}
			_, d = hcldec.Decode(b, bspec, c.ctx)
			c.checkDiags(d, "post")
		})
		c.gohclTargets(b)
	}
}

// The production path of the teamserver: profile.SetProfile -> hclsimple.DecodeFile ->
// hclsimple.Decode(filename, src, nil, &HavocConfig) (native syntax whatever the name).
func (c *checker) simpleDecode() {
	c.guard("hclsimple.Decode", func() {
		var cfg profile.HavocConfig
		err := hclsimple.Decode("p.yaotl", c.src, nil, &cfg)
		if err == nil {
			c.outcome("hclsimple.Decode:ok")
			return
		}
		if d, ok := err.(hcl.Diagnostics); ok {
			c.checkDiags(d, "post")
			c.outcome("hclsimple.Decode:" + c.firstError(d))
		} else {
			c.outcome("hclsimple.Decode:other-error")
		}
	})
}
