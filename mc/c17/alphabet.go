// Package c17: "The yaotl parsers accept any input without crashing and report sane
// positions".  Bounded-exhaustive enumeration of atom strings over lexical alphabets,
// every truncation of the shipped corpora, nesting towers; every input goes to all
// public parse/lex entry points of the in-tree HCL fork and the result is checked
// against the clauses of the property statement (see oracle.go).
package c17

// An alphabet is an ordered list of atoms (simplest first, so the first
// counterexample in enumeration order is the shortest).  An input is the
// concatenation of <= n atoms.
type alphabet struct {
	name    string
	atoms   []string
	entries entrySet // which entry points get the inputs of this alphabet
}

// core: 30 atoms that reach every scanner mode (normal, quoted template, heredoc,
// bare template, interpolation / control sequence) and every bracket kind.
var coreAtoms = []string{
	"a", "1", " ", "\n", "=", "{", "}", "[", "]", "(", ")", "\"",
	"${", "%{", ".", ",", ":", "?", "*", "for", "in", "if",
	"<<E\n", "E\n", "-", "#", "\\", "~", "$", "\xc3",
}

// full = core + the rest of the lexical alphabet: CR, tab, multi-char operators,
// remaining keywords, comment openers/closers, escapes, a valid multibyte rune, a
// combining mark (grapheme clusters drive column counting), lone continuation byte,
// 0xff, NUL, the UTF-8 BOM (stripped by the scanner when leading), the characters the
// scanner recognises only to reject them.
var restAtoms = []string{
	"\r", "\t", "=>", "...", "+", "!", "==", "&&", "<", "/*", "*/", "//", "/",
	"else", "endif", "endfor", "true", "null", "<<-E\n", "E\r\n", "$${", "%%{", "%",
	"\u00e9", "\u0301", "\x80", "\xff", "\x00", "\xef\xbb\xbf", "b", "e", "'", "`", ";", "|",
}

// template alphabet: composite atoms so that short strings reach complete and
// half-complete control structures, strip markers, escapes, quotes and newlines.
var tmplAtoms = []string{
	"a", " ", "\n", "${a}", "%{if a}", "%{else}", "%{endif}", "%{for a in b}", "%{endfor}",
	"${", "%{", "}", "~", "\"", "$", "%", "\\", "if", "for", "in", "endif", "else", "endfor", ",", "{",
}

// directive alphabet: the pieces of %{ } directive headers, so that short strings reach
// every prefix of a control directive (each recovery branch of the template parser:
// missing variable, missing second variable after the comma, missing "in", unknown
// keyword) in bare, quoted and heredoc templates.
var directiveAtoms = []string{
	"%{", "for ", "if ", "a", "a,", ", ", " in ", "}", "%{~", "~}", "else", "endif", "endfor", " ", "\n", "${", "b", "x",
}

// JSON alphabet: whole tokens of the JSON profile plus the pieces that break them.
var jsonAtoms = []string{
	"{", "}", "[", "]", ",", ":", "\"a\"", "1", "true", "null", " ", "\n",
	"\"${a}\"", "\"", "\\", "-", "1.5e3", "\"\\u00e9\"", "tru", "=", "\"a", "e", ".", "\xff", "\"%{if a}\"", "\t",
}

// expression alphabet: composite atoms for the expression grammar (for-expressions,
// splats, conditionals, calls, object constructors, traversals, heredocs).
var exprAtoms = []string{
	"a", "1", " ", "\n", "(", ")", "[", "]", "{", "}", ",", ".", "=", ":", "?", "*",
	"for a in b", "for a, b in c", "if", "=>", "...", "\"x\"", "\"${", "<<E\n", "E\n", "+", "!", "-",
}

// call alphabet: the pieces of a function call's argument list, so that short strings
// reach every way a call can end (no argument, one, several, trailing comma, expansion,
// newline before the closing parenthesis, missing parenthesis, nested call).
var callAtoms = []string{
	"f(", ")", "a", ",", "...", " ", "\n", "a,", "[a]", "1",
}

// JSON-key alphabet: objects in value position whose property names are templates (names
// that evaluate to null, to an unknown value, to a non-string), so that short strings reach
// every branch of the evaluation of a JSON object: the scope binds a.x to a null string, E
// to an unknown one, e to a number.
var jsonKeyAtoms = []string{
	"{", "}", "\"a\":", "\"${null}\":", "\"${a.x}\":", "\"${E}\":", "\"${e}\":", "1", "\"x\"", ",", "[", "]", "null",
}

// escape alphabet: the pieces of backslash escapes inside quoted strings (attribute
// values, block labels, index keys): the two unicode escape introducers with hex groups
// on both sides of every boundary of the code space (last before the surrogates, first
// and last surrogate, first after them, last code point, first beyond it, all ones), too
// few digits, a non-hex digit, the simple escapes and an unknown one.
var escapeAtoms = []string{
	"\\u", "\\U", "d7ff", "d800", "dfff", "e000", "0000", "0010", "0011", "ffff", "00e9", "FFFF",
	"\\\\", "\\\"", "\\n", "\\x", "g", "a", "$", "{",
}

// number alphabet: the pieces of a number literal with exponents on both sides of what a
// 32-bit exponent holds (big.Float's limit) and far beyond, in JSON and in the native syntax.
var numberAtoms = []string{
	"1", "0", "-", "e", "E", "+", ".", "5", "2147483647", "2147483648", "9999999999", "99999999999999999999",
}

func concat(a, b []string) []string {
	out := make([]string, 0, len(a)+len(b))
	out = append(out, a...)
	return append(out, b...)
}

var fullAtoms = concat(coreAtoms, restAtoms)
