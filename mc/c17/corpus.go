package c17

import (
	"fmt"
	"io/fs"
	"os"
	"path/filepath"
	"sort"
	"strings"
)

// The shipped corpora: the profiles the teamserver ships with, and every sample file of
// the in-tree HCL fork (specsuite, the fuzz corpora of hclsyntax / json / hclwrite).

type corpusFile struct {
	rel  string
	data []byte
}

func repoRoot() string {
	if r := os.Getenv("VERIF_REPO_ROOT"); r != "" {
		return r
	}
	if r := os.Getenv("VERIF_REPO"); r != "" {
		return r
	}
	return "/repo"
}

var corpusExt = map[string]bool{
	".yaotl": true, ".hcl": true, ".hcldec": true, ".t": true, ".json": true,
	".tmpl": true, ".hcle": true, ".hclt": true,
}

func loadCorpus() ([]corpusFile, error) {
	root := repoRoot()
	var files []corpusFile
	for _, dir := range []string{"profiles", "data", "teamserver/pkg/profile/yaotl"} {
		base := filepath.Join(root, dir)
		err := filepath.WalkDir(base, func(p string, d fs.DirEntry, err error) error {
			if err != nil {
				if os.IsNotExist(err) {
					return nil
				}
				return err
			}
			if d.IsDir() {
				if dir == "data" && p != base {
					return filepath.SkipDir // only data/*.yaotl
				}
				return nil
			}
			if !corpusExt[filepath.Ext(p)] {
				return nil
			}
			b, err := os.ReadFile(p)
			if err != nil {
				return err
			}
			if len(b) > 64<<10 {
				return nil
			}
			rel, _ := filepath.Rel(root, p)
			files = append(files, corpusFile{rel: rel, data: b})
			return nil
		})
		if err != nil {
			return nil, err
		}
	}
	sort.Slice(files, func(i, j int) bool { return files[i].rel < files[j].rel })
	if len(files) == 0 {
		return nil, fmt.Errorf("no corpus files under %s", root)
	}
	return files, nil
}

func isProfile(f corpusFile) bool { return strings.HasSuffix(f.rel, ".yaotl") }

// mutation tokens substituted for / inserted before every byte of a corpus file
var mutTokens = []string{
	"\"", "{", "}", "${", "%{", "\n", "\\", "\xff", "<<E\n", "/*", "[", "(", "=", "\x00", ",", "#",
	"]", ")", "~", "\r", "$", "*/", ".", "\u0301",
}

// ---------------------------------------------------------------------------
// nesting towers

type tower struct {
	name          string
	open, mid, cl string
	entries       entrySet
}

var towers = []tower{
	{"tuple", "[", "a", "]", eAllCheap},
	{"object", "{a=", "1", "}", eNative},
	{"paren", "(", "a", ")", eNative},
	{"block", "a {\n", "b = 1\n", "}\n", eNative | eSimple},
	{"block-oneline", "a {", "", "}", eNative},
	{"interp-quoted", "\"${", "a", "}\"", eNative},
	{"interp-bare", "${", "a", "}", eNative},
	{"control-if", "%{if a}", "x", "%{endif}", eNative},
	{"control-for", "%{for a in b}", "x", "%{endfor}", eNative},
	{"heredoc", "<<E\n${", "a", "}\nE\n", eNative},
	{"unary-not", "!", "a", "", eNative},
	{"unary-minus", "-", "1", "", eNative},
	{"index", "a[", "0", "]", eNative},
	{"attr-chain", "a.", "a", "", eNative},
	{"splat-chain", "a[*].", "a", "", eNative},
	{"call", "f(", "a", ")", eNative},
	{"for-tuple", "[for a in ", "b", ": a]", eNative},
	{"for-object", "{for a in ", "b", ": a => a}", eNative},
	{"conditional", "a ? ", "a", " : a", eNative},
	{"binary-left", "a + ", "a", "", eNative},
	{"binary-paren", "(a + ", "a", ")", eNative},
	{"json-array", "[", "1", "]", eJSON | eJSONExpr},
	{"json-object", "{\"a\":", "1", "}", eJSON | eJSONExpr | eNative},
	{"json-string-interp", "{\"a\":\"${", "a", "}\"}", eJSON | eJSONExpr},
	{"comment-open", "/*", "a", "*/", eNative},
	{"quote", "\"", "a", "\"", eNative | eJSON | eJSONExpr},
	{"backslash", "\\", "a", "", eNative | eJSON | eJSONExpr},
	{"dollar", "$", "{", "}", eNative},
}

// closing variants: none, one missing, balanced, one extra
func (t tower) build(depth, closers int) []byte {
	var b []byte
	for i := 0; i < depth; i++ {
		b = append(b, t.open...)
	}
	b = append(b, t.mid...)
	for i := 0; i < closers; i++ {
		b = append(b, t.cl...)
	}
	return b
}
