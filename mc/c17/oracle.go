package c17

import (
	"bufio"
	"bytes"
	"fmt"
	"reflect"
	"regexp"
	"runtime"
	"sort"
	"strings"

	hcl "Havoc/pkg/profile/yaotl"
	"Havoc/pkg/profile/yaotl/hclsyntax"
	hcljson "Havoc/pkg/profile/yaotl/json"

	"github.com/zclconf/go-cty/cty"

	"verifmc/ev"
)

// entrySet selects the public entry points an input is given to.
type entrySet uint32

const (
	eLexConfig entrySet = 1 << iota
	eLexTemplate
	eConfig
	eExpr
	eTemplate
	eTraversal
	eJSON
	eJSONExpr
	eRangeScanner
	eSimple // hclsimple.Decode into the teamserver's real profile struct (production path)

	eNative   = eLexConfig | eLexTemplate | eConfig | eExpr | eTemplate | eTraversal
	eAllCheap = eNative | eJSON | eJSONExpr | eRangeScanner
	eAll      = eAllCheap | eSimple
)

var entryNames = []struct {
	e entrySet
	n string
}{
	{eLexConfig, "LexConfig"}, {eLexTemplate, "LexTemplate"}, {eConfig, "ParseConfig"},
	{eExpr, "ParseExpression"}, {eTemplate, "ParseTemplate"}, {eTraversal, "ParseTraversalAbs"},
	{eJSON, "json.Parse"}, {eJSONExpr, "json.ParseExpression"}, {eRangeScanner, "RangeScanner"},
	{eSimple, "hclsimple.Decode"},
}

type finding struct {
	sig, what string
	input     []byte
	entry     string
	count     int64 // inputs x entry points on which the signature was seen
}

// checker is the per-worker state: the current input, the findings so far (one per
// signature, keeping the smallest input), the outcome classes seen and counters.
type checker struct {
	src        []byte
	entry      string // entry point currently running (for messages, and the hang reporter)
	stage      string
	findings   map[string]*finding
	outcomes   map[string]struct{}
	evals      int64
	calls      int64
	nodes      int64
	tokens     int64
	diagsN     int64
	evalOK     int64 // inputs x entry points that had no error diagnostic and went through evaluation
	maxNodes   int
	evalBudget int
	diagKeys   map[string]string
	typeNames  map[reflect.Type]string
	path       []string
	ctx        *hcl.EvalContext
	stack      []nodeFrame
	progress   func(entry, stage string) // optional: called before each entry point / stage
}

func newChecker() *checker {
	return &checker{findings: map[string]*finding{}, outcomes: map[string]struct{}{}, ctx: evalContext(),
		diagKeys: map[string]string{}, typeNames: map[reflect.Type]string{}}
}

func (c *checker) report(sig, what string) {
	old, ok := c.findings[sig]
	if ok {
		old.count++
		if !smaller(c.src, old.input) {
			return
		}
		old.what, old.input, old.entry = what, append(old.input[:0], c.src...), c.entry
		return
	}
	c.findings[sig] = &finding{sig: sig, what: what, input: append([]byte(nil), c.src...), entry: c.entry, count: 1}
}

// smaller orders inputs shortest first, then bytewise, so that the representative
// kept for a signature does not depend on the order in which workers reach inputs.
func smaller(a, b []byte) bool {
	if len(a) != len(b) {
		return len(a) < len(b)
	}
	return bytes.Compare(a, b) < 0
}

func (c *checker) outcome(s string) {
	if _, ok := c.outcomes[s]; !ok {
		c.outcomes[s] = struct{}{}
	}
}

// guard runs f under recover; a panic whose stack passes through the code under test is
// a finding whose signature is the innermost repository frame plus the normalised text.
func (c *checker) guard(stage string, f func()) (ok bool) {
	prev := c.stage
	c.stage = stage
	if c.progress != nil {
		c.progress(c.entry, stage)
	}
	defer func() {
		if v := recover(); v != nil {
			ok = false
			c.panicFinding(v)
		}
		c.stage = prev
		if c.progress != nil {
			c.progress(c.entry, prev)
		}
	}()
	f()
	return true
}

func (c *checker) panicFinding(v any) {
	var msg string
	switch e := v.(type) {
	case error:
		msg = e.Error()
	default:
		msg = fmt.Sprint(v)
	}
	pcs := make([]uintptr, 96)
	n := runtime.Callers(3, pcs)
	frames := runtime.CallersFrames(pcs[:n])
	fn, line, file := "", 0, ""
	passedPanic := false
	for {
		fr, more := frames.Next()
		if fr.Function == "runtime.gopanic" || strings.HasPrefix(fr.Function, "runtime.panic") || fr.Function == "runtime.goPanicIndex" {
			passedPanic = true
		}
		if passedPanic && fn == "" && strings.HasPrefix(fr.Function, "Havoc/") {
			fn, line, file = fr.Function, fr.Line, fr.File
		}
		if !more {
			break
		}
	}
	if fn == "" {
		// not a single frame of the code under test between the panic and us: harness bug
		buf := make([]byte, 4096)
		buf = buf[:runtime.Stack(buf, false)]
		c.report("harness-panic/"+ev.Normalize(msg), fmt.Sprintf("the harness itself panicked in stage %s/%s: %s\n%s", c.entry, c.stage, msg, buf))
		return
	}
	short := strings.TrimPrefix(fn, "Havoc/pkg/profile/yaotl/")
	short = strings.TrimPrefix(short, "Havoc/pkg/profile/")
	for i := strings.Index(short, ".func"); i >= 0; i = -1 {
		short = short[:i] // closures: name the enclosing function
	}
	sig := "panic/" + short + "/" + normalizePanic(msg)
	c.report(sig, fmt.Sprintf("%s (stage %s) panics on %s: %s at %s (%s:%d)", c.entry, c.stage, quoteInput(c.src), msg, fn, trimPath(file), line))
}

var (
	reBraces = regexp.MustCompile(`\{[^{}]*\}`)
	reQuoted = regexp.MustCompile(`"(?:[^"\\]|\\.)*"`)
)

// normalizePanic: numbers and addresses (ev.Normalize), plus composite literals and
// quoted text, which usually echo a piece of the input.
func normalizePanic(msg string) string {
	msg = reQuoted.ReplaceAllString(msg, `"…"`)
	msg = reBraces.ReplaceAllString(msg, "{…}")
	return ev.Normalize(msg)
}

func trimPath(p string) string {
	if i := strings.Index(p, "/teamserver/"); i >= 0 {
		return p[i+1:]
	}
	return p
}

func quoteInput(b []byte) string {
	if len(b) > 120 {
		return fmt.Sprintf("%q…(%d bytes)", b[:120], len(b))
	}
	return fmt.Sprintf("%q", b)
}

// ---------------------------------------------------------------------------
// ranges

func (c *checker) inInput(r hcl.Range) bool {
	return r.Start.Byte >= 0 && r.Start.Byte <= r.End.Byte && r.End.Byte <= len(c.src)
}

// checkRange: "every source range attached to a node or diagnostic lies inside the input".
// key names what the range is attached to (part of the signature), detail the field.
func (c *checker) checkRange(r hcl.Range, key, detail string) bool {
	if c.inInput(r) {
		return true
	}
	kind := "outside-input"
	if r.Start.Byte > r.End.Byte {
		kind = "inverted"
	}
	c.report("range/"+kind+"/"+key,
		fmt.Sprintf("%s on %s: %s%s has byte range [%d,%d) but the input has %d bytes", c.entry, quoteInput(c.src), key, detail, r.Start.Byte, r.End.Byte, len(c.src)))
	return false
}

// phases of diagnostics: "lex", "parse" (returned by the entry point itself) and "post"
// (returned by evaluation / decoding / content extraction of an error-free result)
func (c *checker) checkDiags(diags hcl.Diagnostics, phase string) {
	c.diagsN += int64(len(diags))
	for _, d := range diags {
		if d == nil {
			c.report("diag/nil/"+phase, fmt.Sprintf("%s on %s returned a nil diagnostic", c.entry, quoteInput(c.src)))
			continue
		}
		if d.Subject != nil && !c.inInput(*d.Subject) {
			c.checkRange(*d.Subject, c.diagSigKey(d, phase), " ("+phase+" diagnostic \""+d.Summary+"\").Subject")
		}
		if d.Context != nil && !c.inInput(*d.Context) {
			c.checkRange(*d.Context, c.diagSigKey(d, phase), " ("+phase+" diagnostic \""+d.Summary+"\").Context")
		}
	}
}

// Positions that the JSON package derives by parsing a decoded string value as a template
// (diagnostics of evaluation, the traversals of Variables()) form one class.
const jsonTemplateKey = "json-string-template"

// postKey names a range obtained after parsing (evaluation, static analysis).
func (c *checker) postKey(native string) string {
	if strings.HasPrefix(c.entry, "json.") {
		return jsonTemplateKey
	}
	return native
}

func (c *checker) diagSigKey(d *hcl.Diagnostic, phase string) string {
	json := strings.HasPrefix(c.entry, "json.")
	switch {
	case phase == "post" && json:
		// every ranged diagnostic of evaluating a JSON expression comes from parsing a
		// string value as a template at an offset inside the document
		return jsonTemplateKey
	case phase == "post":
		return "eval-diag/" + c.diagKey(d)
	case json:
		return "diag/json/" + c.diagKey(d)
	}
	return "diag/native/" + c.diagKey(d)
}

func (c *checker) diagKey(d *hcl.Diagnostic) string {
	if k, ok := c.diagKeys[d.Summary]; ok {
		return k
	}
	k := diagKey(d)
	if len(c.diagKeys) < 4096 {
		c.diagKeys[d.Summary] = k
	}
	return k
}

func diagKey(d *hcl.Diagnostic) string {
	s := d.Summary
	if i := strings.IndexAny(s, "\"'"); i >= 0 { // summaries that embed input text
		s = s[:i]
	}
	s = ev.Normalize(s)
	if len(s) > 60 {
		s = s[:60]
	}
	return strings.TrimSpace(s)
}

func (c *checker) firstError(diags hcl.Diagnostics) string {
	for _, d := range diags {
		if d != nil && d.Severity == hcl.DiagError {
			return c.diagKey(d)
		}
	}
	return ""
}

// ---------------------------------------------------------------------------
// tokens: "tokens come in source order without overlap, carry exactly the input bytes
// of their range, and skip only blanks".  Blank = what the scanner's Spaces rule skips
// (space, tab); a leading UTF-8 byte-order mark is stripped by design before scanning
// and is accepted as skipped (assumption recorded in the evidence).

var bom = []byte{0xef, 0xbb, 0xbf}

func (c *checker) checkTokens(toks hclsyntax.Tokens, mode string) {
	src := c.src
	c.tokens += int64(len(toks))
	cursor := 0
	if bytes.HasPrefix(src, bom) {
		cursor = 3
	}
	if len(toks) == 0 {
		c.report("lex/"+mode+"/no-eof-token", fmt.Sprintf("Lex (%s) of %s returned no tokens at all (not even EOF)", mode, quoteInput(src)))
		return
	}
	for i, t := range toks {
		ty := t.Type.String()
		s, e := t.Range.Start.Byte, t.Range.End.Byte
		if s < 0 || e < s || e > len(src) {
			c.report("lex/"+mode+"/range-outside-input",
				fmt.Sprintf("Lex (%s) of %s: token #%d %s has range [%d,%d), input has %d bytes", mode, quoteInput(src), i, ty, s, e, len(src)))
			return
		}
		if s < cursor {
			c.report("lex/"+mode+"/overlap-or-out-of-order",
				fmt.Sprintf("Lex (%s) of %s: token #%d %s starts at %d, before the end %d of the previous token", mode, quoteInput(src), i, ty, s, cursor))
			return
		}
		for _, b := range src[cursor:s] {
			if b != ' ' && b != '\t' {
				c.report("lex/"+mode+"/skipped-non-blank",
					fmt.Sprintf("Lex (%s) of %s: bytes [%d,%d) = %q before token #%d %s are covered by no token", mode, quoteInput(src), cursor, s, src[cursor:s], i, ty))
				return
			}
		}
		// the line of a position is one more than the line feeds before it (a CR LF is one
		// line break: its LF); a line break moves the column back to 1
		if wl := 1 + bytes.Count(src[:s], []byte{'\n'}); t.Range.Start.Line != wl {
			c.report("lex/"+mode+"/line-of-token",
				fmt.Sprintf("Lex (%s) of %s: token #%d %s starts at byte %d, which is on line %d; its range says line %d", mode, quoteInput(src), i, ty, s, wl, t.Range.Start.Line))
			return
		}
		if wl := 1 + bytes.Count(src[:e], []byte{'\n'}); t.Range.End.Line != wl {
			c.report("lex/"+mode+"/line-of-token",
				fmt.Sprintf("Lex (%s) of %s: token #%d %s ends at byte %d, which is on line %d; its range says line %d", mode, quoteInput(src), i, ty, e, wl, t.Range.End.Line))
			return
		}
		if s > 0 && src[s-1] == '\n' && t.Range.Start.Column != 1 {
			c.report("lex/"+mode+"/column-after-line-break",
				fmt.Sprintf("Lex (%s) of %s: token #%d %s starts right after a line break but at column %d", mode, quoteInput(src), i, ty, t.Range.Start.Column))
			return
		}
		if !bytes.Equal(t.Bytes, src[s:e]) {
			c.report("lex/"+mode+"/bytes-differ-from-range",
				fmt.Sprintf("Lex (%s) of %s: token #%d %s has Bytes %q but its range [%d,%d) holds %q", mode, quoteInput(src), i, ty, t.Bytes, s, e, src[s:e]))
			return
		}
		cursor = e
		last := i == len(toks)-1
		if last {
			if t.Type != hclsyntax.TokenEOF {
				c.report("lex/"+mode+"/last-token-not-eof", fmt.Sprintf("Lex (%s) of %s: last token is %s, not EOF", mode, quoteInput(src), ty))
			} else if s != len(src) || e != len(src) {
				c.report("lex/"+mode+"/eof-not-at-end", fmt.Sprintf("Lex (%s) of %s: EOF token at [%d,%d), input has %d bytes", mode, quoteInput(src), s, e, len(src)))
			}
		} else if t.Type == hclsyntax.TokenEOF {
			c.report("lex/"+mode+"/eof-in-the-middle", fmt.Sprintf("Lex (%s) of %s: EOF token #%d is not the last of %d", mode, quoteInput(src), i, len(toks)))
		}
	}
}

// ---------------------------------------------------------------------------
// native syntax tree: hclsyntax.Walk with a stack of parent ranges

type nodeFrame struct {
	r           hcl.Range
	name        string
	node        hclsyntax.Node
	transparent bool // grouping pseudo-nodes (Attributes, Blocks, ChildScope) have no range of their own
	none        bool // nil child
	broken      bool // own range inverted / outside the input
	descBroken  bool // some descendant's is: ranges derived from it are not reported again
	pending     []func()
}

type walker struct{ c *checker }

var (
	rangeType = reflect.TypeOf(hcl.Range{})
	nodeType  = reflect.TypeOf((*hclsyntax.Node)(nil)).Elem()
)

func typeName(x any) string {
	t := reflect.TypeOf(x)
	if t == nil {
		return "nil"
	}
	for t.Kind() == reflect.Ptr {
		t = t.Elem()
	}
	return t.Name()
}

func (c *checker) nodeName(n hclsyntax.Node) string {
	t := reflect.TypeOf(n)
	if s, ok := c.typeNames[t]; ok {
		return s
	}
	s := typeName(n)
	c.typeNames[t] = s
	return s
}

func (w walker) Enter(n hclsyntax.Node) hcl.Diagnostics {
	c := w.c
	c.nodes++
	if n == nil {
		c.outcome("tree:nil-child-node")
		c.stack = append(c.stack, nodeFrame{none: true})
		return nil
	}
	switch n.(type) {
	case hclsyntax.Attributes, hclsyntax.Blocks, hclsyntax.ChildScope:
		c.stack = append(c.stack, nodeFrame{transparent: true})
		return nil
	}
	name := c.nodeName(n)
	r := n.Range()
	fr := nodeFrame{r: r, name: name, node: n}
	if !c.inInput(r) {
		// reported on Exit, and only if no descendant is broken too (the innermost broken
		// node is the finding; ranges computed from it are consequences)
		fr.broken = true
	}
	c.stack = append(c.stack, fr)
	// the node's own stored ranges (SrcRange, NameRange, label ranges, traversal steps...)
	c.path = c.path[:0]
	c.scanRanges(reflect.ValueOf(n), name, 0)
	return nil
}

func (w walker) Exit(n hclsyntax.Node) hcl.Diagnostics {
	c := w.c
	fr := c.stack[len(c.stack)-1]
	c.stack = c.stack[:len(c.stack)-1]
	if fr.transparent || fr.none {
		if fr.descBroken && len(c.stack) > 0 {
			c.stack[len(c.stack)-1].descBroken = true
		}
		return nil
	}
	if fr.broken && !fr.descBroken {
		c.checkRange(fr.r, fr.name, ".Range()")
	}
	// nearest real ancestor
	for i := len(c.stack) - 1; i >= 0; i-- {
		p := &c.stack[i]
		if p.transparent {
			if fr.broken || fr.descBroken {
				p.descBroken = true
			}
			continue
		}
		if fr.broken || fr.descBroken {
			p.descBroken = true
		}
		if p.none || p.broken || fr.broken {
			break
		}
		if fr.r.Start.Byte < p.r.Start.Byte || fr.r.End.Byte > p.r.End.Byte {
			c.childOutside(p, &fr)
		}
		break
	}
	return nil
}

// childOutside: "children lie inside their parents".  One class is singled out by its
// shape: the child (or the node at its edge) is the placeholder expression the parser
// inserts after a syntax error, which carries the range of the offending token that was
// not consumed and therefore lies beyond everything that was.
func (c *checker) childOutside(p, ch *nodeFrame) {
	sig := "range/child-outside-parent/parent=" + p.name
	note := ""
	if c.placeholderAtEdge(ch.node, ch.r, ch.r.Start.Byte < p.r.Start.Byte, ch.r.End.Byte > p.r.End.Byte) {
		sig = "range/child-outside-parent/error-placeholder"
		note = " (the excess is the placeholder expression for a syntax error, which has the range of the unconsumed offending token)"
	}
	c.report(sig, fmt.Sprintf("%s on %s: %s node [%d,%d) is not inside its parent %s [%d,%d)%s", c.entry, quoteInput(c.src), ch.name, ch.r.Start.Byte, ch.r.End.Byte, p.name, p.r.Start.Byte, p.r.End.Byte, note))
}

func (c *checker) placeholderAtEdge(n hclsyntax.Node, r hcl.Range, atStart, atEnd bool) (found bool) {
	defer func() { recover() }()
	hclsyntax.VisitAll(n, func(x hclsyntax.Node) hcl.Diagnostics {
		if lit, ok := x.(*hclsyntax.LiteralValueExpr); ok && lit != nil && lit.Val.RawEquals(cty.DynamicVal) {
			if (atEnd && lit.SrcRange.End.Byte == r.End.Byte) || (atStart && lit.SrcRange.Start.Byte == r.Start.Byte) {
				found = true
			}
		}
		return nil
	})
	return found
}

const yaotlPath = "Havoc/pkg/profile/yaotl"

// scanRanges finds every hcl.Range stored in the node itself (not in child nodes, which
// the walk visits on their own): SrcRange, NameRange, OpenRange, label ranges, the
// ranges of traversal steps, object-constructor items...
func (c *checker) scanRanges(v reflect.Value, name string, depth int) {
	if depth > 6 {
		return
	}
	switch v.Kind() {
	case reflect.Ptr, reflect.Interface:
		if v.IsNil() {
			return
		}
		if depth > 0 && v.Type().Implements(nodeType) {
			return
		}
		c.scanRanges(v.Elem(), name, depth+1)
	case reflect.Struct:
		t := v.Type()
		if t == rangeType {
			r := rangeOf(v)
			if !c.inInput(r) {
				// a stored range that is the node's Range() is reported once, on Exit
				if top := &c.stack[len(c.stack)-1]; top.broken && top.r.Start.Byte == r.Start.Byte && top.r.End.Byte == r.End.Byte {
					return
				}
				if c.stack[len(c.stack)-1].broken {
					return // consequences of one broken node are one finding
				}
				c.checkRange(r, name, "."+strings.Join(c.path, "."))
			}
			return
		}
		if !strings.HasPrefix(t.PkgPath(), yaotlPath) {
			return
		}
		if depth > 0 && t.Implements(nodeType) {
			return
		}
		for i := 0; i < t.NumField(); i++ {
			f := t.Field(i)
			switch f.Type.Kind() {
			case reflect.Struct, reflect.Ptr, reflect.Interface, reflect.Slice, reflect.Array:
				c.path = append(c.path, f.Name)
				c.scanRanges(v.Field(i), name, depth+1)
				c.path = c.path[:len(c.path)-1]
			}
		}
	case reflect.Slice, reflect.Array:
		for i := 0; i < v.Len(); i++ {
			c.scanRanges(v.Index(i), name, depth+1)
		}
	}
}

func (c *checker) walkNative(root hclsyntax.Node) {
	c.stack = c.stack[:0]
	before := c.nodes
	c.guard("walk", func() { hclsyntax.Walk(root, walker{c}) })
	if n := int(c.nodes - before); n > c.maxNodes {
		c.maxNodes = n
	}
}

// ---------------------------------------------------------------------------
// JSON tree: the node types are unexported, so the tree is walked by reflection
// (read-only) from hcl.File.Body / the returned expression.  Node kinds are recognised
// by their range fields; a tree in which no range can be found is a harness error.

func (c *checker) walkJSON(root any) {
	found := 0
	c.jsonNode(reflect.ValueOf(root), nil, "json", 0, &found)
	if found == 0 {
		c.report("harness-error/json-tree-not-walkable", fmt.Sprintf("no hcl.Range found by reflection in %T: the harness no longer matches the json package", root))
	}
}

func rangeOf(v reflect.Value) hcl.Range {
	return hcl.Range{
		Start: hcl.Pos{Byte: int(v.Field(1).Field(2).Int())},
		End:   hcl.Pos{Byte: int(v.Field(2).Field(2).Int())},
	}
}

func (c *checker) jsonNode(v reflect.Value, parent *nodeFrame, path string, depth int, found *int) {
	if depth > 20000 {
		return
	}
	switch v.Kind() {
	case reflect.Ptr, reflect.Interface:
		if v.IsNil() {
			return
		}
		c.jsonNode(v.Elem(), parent, path, depth+1, found)
	case reflect.Slice:
		for i := 0; i < v.Len(); i++ {
			c.jsonNode(v.Index(i), parent, path, depth+1, found)
		}
	case reflect.Struct:
		t := v.Type()
		if t == rangeType {
			return
		}
		if !strings.HasPrefix(t.PkgPath(), yaotlPath) {
			return
		}
		name := t.Name()
		me := parent
		c.nodes++
		// own range: SrcRange for values, NameRange for object attributes
		for _, fname := range []string{"SrcRange", "NameRange"} {
			if f, ok := t.FieldByName(fname); ok && f.Type == rangeType {
				r := rangeOf(v.FieldByIndex(f.Index))
				if parent != nil && (r.Start.Byte < parent.r.Start.Byte || r.End.Byte > parent.r.End.Byte) {
					c.report("range/child-outside-parent/parent=json."+parent.name,
						fmt.Sprintf("%s on %s: json %s [%d,%d) is not inside its parent %s [%d,%d)", c.entry, quoteInput(c.src), name, r.Start.Byte, r.End.Byte, parent.name, parent.r.Start.Byte, parent.r.End.Byte))
				}
				if fname == "SrcRange" {
					me = &nodeFrame{r: r, name: name}
				}
				break
			}
		}
		for i := 0; i < t.NumField(); i++ {
			f := t.Field(i)
			fv := v.Field(i)
			if f.Type == rangeType {
				*found++
				c.checkRange(rangeOf(fv), "json."+name, "."+f.Name)
				continue
			}
			switch f.Type.Kind() {
			case reflect.Ptr, reflect.Interface, reflect.Slice, reflect.Struct:
				c.jsonNode(fv, me, path+"."+f.Name, depth+1, found)
			}
		}
	}
}

// ---------------------------------------------------------------------------
// one input through the selected entry points

func (c *checker) enter(name string) {
	c.entry = name
	c.calls++
	if c.progress != nil {
		c.progress(name, "")
	}
}

func (c *checker) classify(entry string, hasTree bool, diags hcl.Diagnostics) (clean bool) {
	fe := c.firstError(diags)
	if fe == "" {
		c.outcome(entry + ":ok")
	} else {
		c.outcome(entry + ":" + fe)
	}
	if !hasTree && len(diags) == 0 {
		c.report("result/neither-tree-nor-diagnostics/"+entry, fmt.Sprintf("%s on %s returned neither a syntax tree nor a diagnostic", entry, quoteInput(c.src)))
	}
	if fe == "" && !hasTree {
		c.report("result/no-error-but-no-tree/"+entry, fmt.Sprintf("%s on %s returned no error diagnostic and no syntax tree", entry, quoteInput(c.src)))
		return false
	}
	return fe == ""
}

func isNilIface(x any) bool {
	if x == nil {
		return true
	}
	v := reflect.ValueOf(x)
	switch v.Kind() {
	case reflect.Ptr, reflect.Map, reflect.Slice, reflect.Interface:
		return v.IsNil()
	}
	return false
}

func (c *checker) checkInput(src []byte, entries entrySet) {
	c.src = src
	c.evals++
	c.evalBudget = 48
	if len(src) > 2048 {
		c.evalBudget = 8 // long inputs (towers, profiles): fewer separate sub-expression evaluations
	}
	start := hcl.InitialPos

	if entries&eLexConfig != 0 {
		c.enter("LexConfig")
		var toks hclsyntax.Tokens
		var diags hcl.Diagnostics
		if c.guard("lex", func() { toks, diags = hclsyntax.LexConfig(src, "", start) }) {
			c.checkTokens(toks, "normal")
			c.checkDiags(diags, "lex")
			// LexExpression is documented as the same scanner; make sure it stays total too
			var toks2 hclsyntax.Tokens
			c.entry = "LexExpression"
			if len(src) > 64 {
				// same scanner, same mode: not repeated on long inputs
			} else if c.guard("lex", func() { toks2, _ = hclsyntax.LexExpression(src, "", start) }) && len(toks2) != len(toks) {
				c.checkTokens(toks2, "normal")
			}
		}
	}
	if entries&eLexConfig != 0 && len(src) <= 64 {
		// third scanner mode (identifiers only), reachable through ValidIdentifier
		c.entry = "ValidIdentifier"
		c.guard("lex", func() {
			if hclsyntax.ValidIdentifier(string(src)) {
				c.outcome("ValidIdentifier:true")
			}
		})
	}
	if entries&eLexTemplate != 0 {
		c.enter("LexTemplate")
		var toks hclsyntax.Tokens
		var diags hcl.Diagnostics
		if c.guard("lex", func() { toks, diags = hclsyntax.LexTemplate(src, "", start) }) {
			c.checkTokens(toks, "template")
			c.checkDiags(diags, "lex")
		}
	}
	if entries&eConfig != 0 {
		c.enter("ParseConfig")
		var f *hcl.File
		var diags hcl.Diagnostics
		if c.guard("parse", func() { f, diags = hclsyntax.ParseConfig(src, "", start) }) {
			c.checkDiags(diags, "parse")
			var body *hclsyntax.Body
			if f != nil {
				body, _ = f.Body.(*hclsyntax.Body)
			}
			clean := c.classify("ParseConfig", body != nil, diags)
			if body != nil {
				c.walkNative(body)
			}
			if clean {
				c.evalOK++
				c.evalBody(body)
			}
		}
	}
	if entries&eExpr != 0 {
		c.enter("ParseExpression")
		var e hclsyntax.Expression
		var diags hcl.Diagnostics
		if c.guard("parse", func() { e, diags = hclsyntax.ParseExpression(src, "", start) }) {
			c.checkDiags(diags, "parse")
			has := !isNilIface(e)
			clean := c.classify("ParseExpression", has, diags)
			if has {
				c.walkNative(e)
			}
			if clean {
				c.evalOK++
				c.evalExpr(e, 0)
			}
		}
	}
	if entries&eTemplate != 0 {
		c.enter("ParseTemplate")
		var e hclsyntax.Expression
		var diags hcl.Diagnostics
		if c.guard("parse", func() { e, diags = hclsyntax.ParseTemplate(src, "", start) }) {
			c.checkDiags(diags, "parse")
			has := !isNilIface(e)
			clean := c.classify("ParseTemplate", has, diags)
			if has {
				c.walkNative(e)
			}
			if clean {
				c.evalOK++
				c.evalExpr(e, 0)
			}
		}
	}
	if entries&eTraversal != 0 {
		c.enter("ParseTraversalAbs")
		var tr hcl.Traversal
		var diags hcl.Diagnostics
		if c.guard("parse", func() { tr, diags = hclsyntax.ParseTraversalAbs(src, "", start) }) {
			c.checkDiags(diags, "parse")
			clean := c.classify("ParseTraversalAbs", tr != nil, diags)
			c.checkTraversal(tr, "Traversal")
			if clean {
				c.evalOK++
				c.guard("eval", func() {
					_, d := tr.TraverseAbs(c.ctx)
					c.checkDiags(d, "post")
					_, d = tr.TraverseAbs(nil)
					c.checkDiags(d, "post")
					_ = tr.RootName()
					_ = tr.SimpleSplit()
					_ = tr.IsRelative()
				})
			}
		}
	}
	if entries&eJSON != 0 {
		c.enter("json.Parse")
		var f *hcl.File
		var diags hcl.Diagnostics
		if c.guard("parse", func() { f, diags = hcljson.Parse(src, "") }) {
			c.checkDiags(diags, "parse")
			has := f != nil && !isNilIface(f.Body)
			clean := c.classify("json.Parse", has, diags)
			if has {
				c.guard("walk", func() { c.walkJSON(f.Body) })
			}
			if clean {
				c.evalOK++
				c.evalJSONBody(f.Body, 0)
			}
		}
	}
	if entries&eJSONExpr != 0 {
		c.enter("json.ParseExpression")
		var e hcl.Expression
		var diags hcl.Diagnostics
		if c.guard("parse", func() { e, diags = hcljson.ParseExpression(src, "") }) {
			c.checkDiags(diags, "parse")
			has := !isNilIface(e)
			clean := c.classify("json.ParseExpression", has, diags)
			if has {
				c.guard("walk", func() { c.walkJSON(e) })
			}
			if clean {
				c.evalOK++
				c.evalExpr(e, 0)
			}
		}
	}
	if entries&eRangeScanner != 0 {
		c.enter("RangeScanner")
		c.guard("scan", func() { c.rangeScanner(bufio.ScanLines, "lines") })
	}
	if entries&eSimple != 0 {
		c.enter("hclsimple.Decode")
		c.simpleDecode()
	}
	c.entry = ""
}

func (c *checker) checkTraversal(tr hcl.Traversal, where string) {
	if len(tr) == 0 {
		return
	}
	c.guard("walk", func() {
		c.checkRange(tr.SourceRange(), where, ".SourceRange()")
		for _, step := range tr {
			if step == nil {
				c.outcome("tree:nil-traverser")
				continue
			}
			c.nodes++
			c.checkRange(step.SourceRange(), where, "."+typeName(step)+".SrcRange")
		}
	})
}

// hcl.RangeScanner (pos_scanner.go): ranges ascend, lie in the input and hold the bytes
// the scanner says they hold.
func (c *checker) rangeScanner(split bufio.SplitFunc, kind string) {
	sc := hcl.NewRangeScanner(c.src, "", split)
	cursor := 0
	for n := 0; sc.Scan(); n++ {
		r := sc.Range()
		if !c.inInput(r) {
			c.checkRange(r, "RangeScanner("+kind+")", ".Range()")
			return
		}
		if r.Start.Byte < cursor {
			c.report("rangescanner/"+kind+"/overlap-or-out-of-order", fmt.Sprintf("RangeScanner(%s) on %s: range [%d,%d) starts before the end %d of the previous one", kind, quoteInput(c.src), r.Start.Byte, r.End.Byte, cursor))
			return
		}
		if !bytes.Equal(sc.Bytes(), c.src[r.Start.Byte:r.End.Byte]) {
			c.report("rangescanner/"+kind+"/bytes-differ-from-range", fmt.Sprintf("RangeScanner(%s) on %s: Bytes() %q but range [%d,%d) holds %q", kind, quoteInput(c.src), sc.Bytes(), r.Start.Byte, r.End.Byte, c.src[r.Start.Byte:r.End.Byte]))
			return
		}
		cursor = r.End.Byte
		if n > len(c.src)+1 {
			c.report("rangescanner/"+kind+"/more-tokens-than-bytes", fmt.Sprintf("RangeScanner(%s) on %s produced more than len+1 tokens", kind, quoteInput(c.src)))
			return
		}
	}
}

func sortedKeys[V any](m map[string]V) []string {
	ks := make([]string, 0, len(m))
	for k := range m {
		ks = append(ks, k)
	}
	sort.Strings(ks)
	return ks
}
