package par

import (
	"encoding/json"
	"fmt"
	"os"
	"os/exec"
	"path/filepath"
	"sync"
	"time"

	"verifmc/ev"
)

// Level-synchronous explicit-state BFS whose transitions are executed by worker
// subprocesses (the teamserver has process-global state, and real objects cannot be
// cloned: a successor is built by replaying the history on a fresh instance).  The
// parent owns the seen-set and the frontier; per level the frontier is partitioned
// over n workers, each of which runs step(hist+op) for every enabled op of its nodes.

type Node struct {
	Hist    []int `json:"h"`
	Enabled []int `json:"e"`
}

type succ struct {
	Hist    []int  `json:"h"`
	Key     string `json:"k"`
	Enabled []int  `json:"e"`
	OK      bool   `json:"ok"`
}

type StepFn func(hist []int) (key string, enabled []int, ok bool)

// StepTimeout is the time after which a single transition (replay of one history on a
// fresh instance) is declared not to terminate.  Normal transitions take milliseconds
// to a few seconds (an HTTP listener removal waits 5 s).
var StepTimeout = 5 * time.Minute

type BFSResult struct {
	States, Transitions int64
	Depth               int
	Fixpoint, Capped    bool
	ByDepth             []int64
}

// InBFSWorker reports whether this process is a BFS worker (for tag), so that a
// harness can skip its other phases.
func InBFSWorker() string { return os.Getenv("VERIF_BFS_TAG") }

// BFS runs the search.  In a worker process whose tag matches it processes its input
// file and exits; with a different tag it returns immediately (zero result).
func BFS(r *ev.Run, tag string, maxDepth, n int, deadline time.Time, step StepFn) BFSResult {
	if wt := os.Getenv("VERIF_BFS_TAG"); wt != "" {
		if wt != tag {
			return BFSResult{}
		}
		bfsWorker(r, step)
		os.Exit(0)
	}
	var res BFSResult
	seen := map[string]bool{}
	k, en, ok := step(nil)
	res.Transitions++
	if !ok {
		return res
	}
	seen[k] = true
	res.States = 1
	res.ByDepth = append(res.ByDepth, 1)
	frontier := []Node{{nil, en}}
	dir, err := os.MkdirTemp(os.Getenv("TMPDIR"), "verif-bfs-")
	if err != nil {
		panic(err)
	}
	defer os.RemoveAll(dir)
	for depth := 0; depth < maxDepth; depth++ {
		if !deadline.IsZero() && time.Now().After(deadline) {
			res.Capped = true
			return res
		}
		w := n
		if len(frontier) < w {
			w = len(frontier)
		}
		parts := make([][]Node, w)
		for i, nd := range frontier {
			parts[i%w] = append(parts[i%w], nd)
		}
		outs := make([][]succ, w)
		var wg sync.WaitGroup
		var mu sync.Mutex
		for i := 0; i < w; i++ {
			wg.Add(1)
			go func(i int) {
				defer wg.Done()
				in := filepath.Join(dir, fmt.Sprintf("in-%d-%d.json", depth, i))
				out := filepath.Join(dir, fmt.Sprintf("out-%d-%d.json", depth, i))
				part := filepath.Join(dir, fmt.Sprintf("part-%d-%d.json", depth, i))
				b, _ := json.Marshal(parts[i])
				os.WriteFile(in, b, 0o644)
				hb := filepath.Join(dir, fmt.Sprintf("hb-%d-%d.json", depth, i))
				cmd := exec.Command(os.Args[0], os.Args[1:]...)
				cmd.Env = append(os.Environ(), "VERIF_BFS_TAG="+tag, "VERIF_BFS_IN="+in, "VERIF_BFS_OUT="+out, "VERIF_PARTIAL="+part, "VERIF_BFS_HB="+hb, "GOMAXPROCS=2")
				errf, _ := os.Create(filepath.Join(dir, fmt.Sprintf("err-%d-%d.txt", depth, i)))
				cmd.Stdout, cmd.Stderr = errf, errf
				var werr error
				hung := false
				if err := cmd.Start(); err != nil {
					werr = err
				} else {
					done := make(chan error, 1)
					go func() { done <- cmd.Wait() }()
					// a worker writes the history it is executing before every transition; a
					// transition that has not finished after StepTimeout (orders of magnitude
					// above a normal one) is reported as non-termination of that history
				wait:
					for {
						select {
						case werr = <-done:
							break wait
						case <-time.After(5 * time.Second):
							if st, err := os.Stat(hb); err == nil && time.Since(st.ModTime()) > StepTimeout {
								hung = true
								cmd.Process.Kill()
								<-done
								break wait
							}
						}
					}
				}
				errf.Close()
				mu.Lock()
				defer mu.Unlock()
				if hung {
					hb, _ := os.ReadFile(hb)
					r.Violate("no-termination", fmt.Sprintf("a transition did not finish within %s: history %s", StepTimeout, string(hb)), map[string]any{"history_indices": string(hb)})
					return
				}
				if werr != nil {
					eb, _ := os.ReadFile(errf.Name())
					tail := string(eb)
					if len(tail) > 3000 {
						tail = tail[len(tail)-3000:]
					}
					r.Violate("worker-died", fmt.Sprintf("BFS worker %d at depth %d died: %v", i, depth, werr), map[string]any{"stderr_tail": tail, "nodes": parts[i]})
					return
				}
				r.MergePartialFile(part)
				ob, err := os.ReadFile(out)
				if err != nil {
					r.Violate("worker-no-result", err.Error(), nil)
					return
				}
				var ss []succ
				json.Unmarshal(ob, &ss)
				outs[i] = ss
			}(i)
		}
		wg.Wait()
		// merge in the deterministic order of the frontier (node order, then op order)
		idx := make([]int, w)
		var next []Node
		for i := range frontier {
			p := i % w
			nd := frontier[i]
			for range nd.Enabled {
				if idx[p] >= len(outs[p]) {
					break
				}
				s := outs[p][idx[p]]
				idx[p]++
				res.Transitions++
				if !s.OK {
					continue
				}
				if !seen[s.Key] {
					seen[s.Key] = true
					res.States++
					next = append(next, Node{s.Hist, s.Enabled})
				}
			}
		}
		res.Depth = depth + 1
		res.ByDepth = append(res.ByDepth, int64(len(next)))
		if len(next) == 0 {
			res.Fixpoint = true
			return res
		}
		frontier = next
	}
	return res
}

func bfsWorker(r *ev.Run, step StepFn) {
	b, err := os.ReadFile(os.Getenv("VERIF_BFS_IN"))
	if err != nil {
		fmt.Fprintln(os.Stderr, err)
		os.Exit(3)
	}
	var nodes []Node
	json.Unmarshal(b, &nodes)
	var out []succ
	hb := os.Getenv("VERIF_BFS_HB")
	for _, nd := range nodes {
		for _, op := range nd.Enabled {
			h := append(append([]int{}, nd.Hist...), op)
			if hb != "" {
				hbb, _ := json.Marshal(h)
				os.WriteFile(hb, hbb, 0o644)
			}
			k, en, ok := step(h)
			out = append(out, succ{Hist: h, Key: k, Enabled: en, OK: ok})
		}
	}
	ob, _ := json.Marshal(out)
	if err := os.WriteFile(os.Getenv("VERIF_BFS_OUT"), ob, 0o644); err != nil {
		os.Exit(3)
	}
	if err := r.WritePartial(os.Getenv("VERIF_PARTIAL")); err != nil {
		os.Exit(3)
	}
}
