// Package par shards a check over worker subprocesses of the harness's own binary
// (the teamserver has process-global state — logr.LogrInstance, the logger — so
// parallelism is by process, DESIGN.md §3.2).
package par

import (
	"fmt"
	"os"
	"os/exec"
	"path/filepath"
	"runtime"
	"strconv"
	"strings"
	"sync"
	"syscall"
	"time"

	"verifmc/ev"
)

// Workers returns the default number of workers.
func Workers() int {
	n := runtime.NumCPU()
	if v, err := strconv.Atoi(os.Getenv("VERIF_WORKERS")); err == nil && v > 0 {
		n = v
	}
	if n > 16 {
		n = 16
	}
	return n
}

// Shard returns (i, n, true) inside a worker process.
func Shard() (int, int, bool) {
	w := os.Getenv("VERIF_WORKER")
	if w == "" {
		return 0, 1, false
	}
	p := strings.Split(w, "/")
	i, _ := strconv.Atoi(p[0])
	n, _ := strconv.Atoi(p[1])
	return i, n, true
}

// Run executes fn(i, n, r) for every shard i of n.  In the parent it spawns n worker
// subprocesses (same binary, same args, env VERIF_WORKER=i/n) and merges their partial
// results into r; in a worker it runs fn for its shard, writes the partial result and
// exits.  A worker that dies (crash, OOM, timeout) is reported as a violation with the
// tail of its stderr: a crash of the code under test must not pass silently.
func Run(r *ev.Run, n int, perWorkerTimeout time.Duration, fn func(i, n int, r *ev.Run)) {
	run(r, n, perWorkerTimeout, false, fn)
}

// RunStrict is Run for harnesses whose whole shard normally takes seconds: a worker that
// is still running after perWorkerTimeout (choose it orders of magnitude above the
// normal run) is reported as a violation (the code under test does not terminate), not
// as an incomplete run.
func RunStrict(r *ev.Run, n int, perWorkerTimeout time.Duration, fn func(i, n int, r *ev.Run)) {
	run(r, n, perWorkerTimeout, true, fn)
}

func run(r *ev.Run, n int, perWorkerTimeout time.Duration, strict bool, fn func(i, n int, r *ev.Run)) {
	if d, err := time.ParseDuration(os.Getenv("VERIF_WORKER_TIMEOUT")); err == nil && d > 0 {
		perWorkerTimeout = d // experiments only
	}
	if i, nn, ok := Shard(); ok {
		fn(i, nn, r)
		if err := r.WritePartial(os.Getenv("VERIF_PARTIAL")); err != nil {
			fmt.Fprintln(os.Stderr, "worker: cannot write partial:", err)
			os.Exit(3)
		}
		os.Exit(0)
	}
	if n <= 1 {
		fn(0, 1, r)
		return
	}
	dir, err := os.MkdirTemp(os.Getenv("TMPDIR"), "verif-par-")
	if err != nil {
		panic(err)
	}
	defer os.RemoveAll(dir)
	var wg sync.WaitGroup
	var mu sync.Mutex
	for i := 0; i < n; i++ {
		wg.Add(1)
		go func(i int) {
			defer wg.Done()
			part := filepath.Join(dir, fmt.Sprintf("part-%d.json", i))
			cmd := exec.Command(os.Args[0], os.Args[1:]...)
			cmd.Env = append(os.Environ(), fmt.Sprintf("VERIF_WORKER=%d/%d", i, n), "VERIF_PARTIAL="+part, "GOMAXPROCS=2")
			errf, _ := os.Create(filepath.Join(dir, fmt.Sprintf("err-%d.txt", i)))
			cmd.Stderr = errf
			cmd.Stdout = errf
			done := make(chan error, 1)
			if err := cmd.Start(); err != nil {
				mu.Lock()
				r.NotExhaustive(fmt.Sprintf("worker %d did not start: %v", i, err))
				mu.Unlock()
				return
			}
			go func() { done <- cmd.Wait() }()
			var werr error
			timedOut := false
			select {
			case werr = <-done:
			case <-time.After(perWorkerTimeout):
				timedOut = true
				cmd.Process.Signal(syscall.SIGQUIT) // goroutine dump into the worker's stderr
				time.Sleep(500 * time.Millisecond)
				cmd.Process.Kill()
				<-done
			}
			errf.Close()
			mu.Lock()
			defer mu.Unlock()
			if timedOut {
				if strict {
					b, _ := os.ReadFile(filepath.Join(dir, fmt.Sprintf("err-%d.txt", i)))
					tail := string(b)
					if len(tail) > 2000 {
						tail = tail[len(tail)-2000:]
					}
					r.Violate("no-termination", fmt.Sprintf("worker %d/%d was still running after %s (a normal shard takes seconds): the code under test does not return", i, n, perWorkerTimeout), map[string]any{"stderr_tail": tail})
					return
				}
				r.NotExhaustive(fmt.Sprintf("worker %d/%d stopped at the internal deadline %s", i, n, perWorkerTimeout))
				return
			}
			if werr != nil {
				b, _ := os.ReadFile(filepath.Join(dir, fmt.Sprintf("err-%d.txt", i)))
				tail := string(b)
				if len(tail) > 3000 {
					tail = tail[len(tail)-3000:]
				}
				r.Violate("worker-died", fmt.Sprintf("worker %d/%d died: %v", i, n, werr), map[string]any{"stderr_tail": tail})
				return
			}
			if err := r.MergePartialFile(part); err != nil {
				r.Violate("worker-no-result", fmt.Sprintf("worker %d/%d wrote no result: %v", i, n, err), nil)
			}
		}(i)
	}
	wg.Wait()
}
