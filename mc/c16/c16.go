// Package c16: "Listener and service registries never hold duplicates or leftovers".
//
// Explicit-state BFS over listener add/edit/remove histories (operator packages through
// DispatchEvent; HTTP listeners bind real loopback ports) and third-party service
// connections (real handleConnection on scripted websocket connections), replayed on a
// fresh real teamserver per transition.
package c16

import (
	"bytes"
	"database/sql"
	"encoding/json"
	"errors"
	"fmt"
	"net"
	"net/http/httptest"
	"os"
	"path/filepath"
	"runtime"
	"sort"
	"strconv"
	"strings"
	"time"

	"Havoc/cmd/server"
	"Havoc/pkg/common/certs"
	"Havoc/pkg/handlers"
	"Havoc/pkg/packager"

	"verifmc/demonwire"
	"verifmc/ev"
	"verifmc/fake"
	"verifmc/par"
	"verifmc/seam"
)

type op struct {
	kind string
	name string
	arg  string
}

func (o op) String() string {
	if o.arg != "" {
		return fmt.Sprintf("%s(%s,%s)", o.kind, o.name, o.arg)
	}
	return fmt.Sprintf("%s(%s)", o.kind, o.name)
}

func alphabet() []op {
	var a []op
	for _, n := range []string{"n1", "n2"} {
		a = append(a, op{"addSMB", n, ""}, op{"addExt", n, "e1"}, op{"remove", n, ""})
	}
	a = append(a, op{"addExt", "n2", "e2"}, op{"addHTTP", "n1", ""}, op{"addHTTP", "n2", ""}, op{"addHTTPbusy", "n1", ""}, op{"removeDBfail", "n1", ""},
		op{"editHTTP", "n1", ""}, op{"remove", "nx", ""},
		// names that differ from n1 / n2 only in case, or that are a pattern matching them: distinct names
		op{"addSMB", "N1", ""}, op{"addSMB", "n_", ""},
		op{"svcUp", "s1", ""}, op{"svcUp", "s2", ""}, op{"svcDown", "s1", ""}, op{"svcDown", "s2", ""},
		// the connection is reset instead of closed: the teamserver's own Close() of it reports an error
		op{"svcDownReset", "s1", ""},
		op{"addSvc", "n1", "s1"}, op{"addSvc", "n2", "s2"}, op{"addExC2", "n2", "s1"}, op{"addExC2", "n1", "s1"}, op{"addExC2", "n1", "s2"}, op{"addExC2x2", "x1", "s1"},
		// a second listener of s2 whose endpoint is the first one's spelt with a leading slash
		op{"addExC2slash", "n2", "s2"})
	return a
}

type svcConn struct {
	ws   *fake.WS
	done chan struct{}
	up   bool
}

type world struct {
	ts      *seam.TS
	svc     map[string]*svcConn
	ports   map[string]string // http listener name -> port
	busy    net.Listener
	removes int
	panics  []string
}

func newWorld() *world {
	ts := seam.New(seam.Options{Service: true})
	return &world{ts: ts, svc: map[string]*svcConn{}, ports: map[string]string{}}
}

func (w *world) close() {
	for _, s := range w.svc {
		if s.up {
			s.ws.Raw.ClosePeer()
			waitDone(s.done)
		}
	}
	for _, l := range w.ts.T.Listeners {
		if h, ok := l.Config.(*handlers.HTTP); ok && h.Server != nil {
			h.Server.Close()
		}
	}
	if w.busy != nil {
		w.busy.Close()
	}
	w.ts.Close()
}

func waitDone(c chan struct{}) bool {
	select {
	case <-c:
		return true
	case <-time.After(3 * time.Minute):
		return false
	}
}

// freePort returns a free loopback port from a block of 50 that belongs to this
// process (below the kernel's ephemeral range): a port this process has released cannot
// be taken by a sibling worker, so "a removed listener's port refuses connections" is
// never answered by somebody else's listener.
var portCursor int

func freePort() string {
	base := 10000 + (os.Getpid()%440)*50
	for try := 0; try < 200; try++ {
		p := base + portCursor%50
		portCursor++
		l, err := net.Listen("tcp", fmt.Sprintf("127.0.0.1:%d", p))
		if err != nil {
			continue
		}
		l.Close()
		return strconv.Itoa(p)
	}
	panic("no free port in this process's block")
}

func (w *world) dispatch(ev, sub int, info map[string]any) {
	defer func() {
		if p := recover(); p != nil {
			w.panics = append(w.panics, fmt.Sprintf("%v @ %s", p, seam.StackTop()))
		}
	}()
	w.ts.T.DispatchEvent(packager.Package{Head: packager.Head{Event: ev, User: "op1"}, Body: packager.Body{SubEvent: sub, Info: info}})
}

func (w *world) httpListener(name string) *handlers.HTTP {
	for _, l := range w.ts.T.Listeners {
		if l.Name == name {
			if h, ok := l.Config.(*handlers.HTTP); ok {
				return h
			}
		}
	}
	return nil
}

func canConnect(port string) bool {
	c, err := net.DialTimeout("tcp", "127.0.0.1:"+port, 2*time.Second)
	if err != nil {
		return false
	}
	c.Close()
	return true
}

// waitHTTP waits until the listener's start attempt has completed: it accepts
// connections, or it reported failure (completion, not duration, is observed).
func (w *world) waitHTTP(name, port string) {
	deadline := time.Now().Add(3 * time.Minute) // completion, not duration: generous on a loaded machine
	for i := 0; time.Now().Before(deadline); i++ {
		h := w.httpListener(name)
		if h == nil {
			return
		}
		if !h.Active {
			return
		}
		if i%50 == 0 && canConnect(port) {
			return
		}
		time.Sleep(200 * time.Microsecond)
	}
}

func httpInfo(name, port, ua string) map[string]any {
	return map[string]any{"Name": name, "Protocol": "Http", "HostBind": "127.0.0.1", "Hosts": "127.0.0.1", "Headers": "", "Uris": "/u1",
		"HostRotation": "round-robin", "PortBind": port, "PortConn": port, "HostHeader": "", "UserAgent": ua, "Secure": "false", "Proxy Enabled": "false"}
}

func (w *world) svcSend(s *svcConn, v any) {
	b, _ := json.Marshal(v)
	s.ws.SendText(string(b))
	s.ws.Raw.WaitIdle(3 * time.Minute)
}

func (w *world) apply(o op) {
	t := w.ts.T
	L := packager.Type.Listener
	switch o.kind {
	case "addSMB":
		w.dispatch(L.Type, L.Add, map[string]any{"Name": o.name, "Protocol": "Smb", "PipeName": "pipe"})
	case "addExt":
		w.dispatch(L.Type, L.Add, map[string]any{"Name": o.name, "Protocol": "External", "Endpoint": o.arg})
	case "addHTTP":
		port := freePort()
		w.dispatch(L.Type, L.Add, httpInfo(o.name, port, "UA1"))
		if h := w.httpListener(o.name); h != nil && h.Config.PortBind == port {
			w.ports[o.name] = port
			w.waitHTTP(o.name, port)
		}
	case "addHTTPS":
		// an HTTPS listener: with the certificate the teamserver generates (operator's add),
		// or started the way a profile listener that names its own Cert/Key files is
		port := freePort()
		if o.arg == "generated" {
			info := httpInfo(o.name, port, "UA1")
			info["Secure"] = "true"
			w.dispatch(L.Type, L.Add, info)
		} else {
			certA, keyA, err := certs.HTTPSGenerateRSACertificate("127.0.0.1")
			_, keyB, err2 := certs.HTTPSGenerateRSACertificate("127.0.0.1")
			if err != nil || err2 != nil {
				w.panics = append(w.panics, "harness: cannot generate a certificate")
				break
			}
			cp, kp := filepath.Join(w.ts.Root, "tls-"+o.name+".crt"), filepath.Join(w.ts.Root, "tls-"+o.name+".key")
			switch o.arg {
			case "key-of-another-cert":
				keyA = keyB
			case "key-not-pem":
				keyA = []byte("not a key\n")
			case "cert-not-pem":
				certA = []byte("not a certificate\n")
			}
			os.WriteFile(cp, certA, 0o600)
			os.WriteFile(kp, keyA, 0o600)
			if o.arg == "key-missing" {
				os.Remove(kp)
			}
			cfg := handlers.HTTPConfig{Name: o.name, Hosts: []string{"127.0.0.1"}, HostBind: "127.0.0.1", PortBind: port, PortConn: port, Uris: []string{"/u1"}, UserAgent: "UA1", Secure: true}
			cfg.Cert.Cert, cfg.Cert.Key = cp, kp
			func() {
				defer func() {
					if p := recover(); p != nil {
						w.panics = append(w.panics, fmt.Sprintf("%v @ %s", p, seam.StackTop()))
					}
				}()
				t.ListenerStart(handlers.LISTENER_HTTP, cfg)
			}()
		}
		if h := w.httpListener(o.name); h != nil && h.Config.PortBind == port {
			w.ports[o.name] = port
			w.waitHTTP(o.name, port)
			if o.arg != "generated" && o.arg != "usable-pair" {
				// a start that failed may be followed by another attempt: let it come to its end
				time.Sleep(300 * time.Millisecond)
				w.waitHTTP(o.name, port)
			}
		}
	case "addHTTPremoveNow":
		// the operator removes the listener with the very next message: the goroutine that
		// Start() spawned to serve has not run yet (one P: it cannot run before we yield)
		prev := runtime.GOMAXPROCS(1)
		port := freePort()
		w.dispatch(L.Type, L.Add, httpInfo(o.name, port, "UA1"))
		if h := w.httpListener(o.name); h != nil && h.Config.PortBind == port {
			w.ports[o.name] = port
			w.removes++
			w.dispatch(L.Type, L.Remove, map[string]any{"Name": o.name})
		}
		runtime.GOMAXPROCS(prev)
		time.Sleep(100 * time.Millisecond) // let the start goroutine run to whatever end it has
	case "removeDBfail":
		// the operator removes an SMB listener while the database refuses the delete (a
		// trigger installed through a second connection aborts it); nothing else of an SMB
		// removal has side effects, so whatever the outcome, the three views must still agree
		d, err := sql.Open("sqlite3", filepath.Join(w.ts.Root, "ts.db"))
		if err == nil {
			_, err = d.Exec("CREATE TRIGGER verif_fail BEFORE DELETE ON TS_Listeners BEGIN SELECT RAISE(ABORT, 'verif: injected fault'); END")
		}
		if err != nil {
			w.panics = append(w.panics, "harness: cannot install the fault trigger: "+err.Error())
			break
		}
		w.dispatch(L.Type, L.Remove, map[string]any{"Name": o.name})
		d.Exec("DROP TRIGGER verif_fail")
		d.Close()
	case "addHTTPbusy":
		if w.busy == nil {
			l, err := net.Listen("tcp", "127.0.0.1:0")
			if err != nil {
				panic(err)
			}
			w.busy = l
		}
		_, port, _ := net.SplitHostPort(w.busy.Addr().String())
		had := w.httpListener(o.name) != nil
		w.dispatch(L.Type, L.Add, httpInfo(o.name, port, "UA1"))
		if !had {
			if h := w.httpListener(o.name); h != nil {
				w.ports[o.name] = port
				// the bind must fail: wait for the failure report
				for deadline := time.Now().Add(3 * time.Minute); h.Active && time.Now().Before(deadline); {
					time.Sleep(200 * time.Microsecond)
				}
			}
		}
	case "editHTTP":
		// the listener has served a request before the edit (whatever it may have cached is in place)
		if h := w.httpListener(o.name); h != nil && h.Config.UserAgent == "UA1" {
			if got := w.probe(h, "UA1", "/u1"); got != 200 {
				w.panics = append(w.panics, fmt.Sprintf("harness: a request matching the unedited listener was answered %d", got))
			}
		}
		w.dispatch(L.Type, L.Edit, map[string]any{"Name": o.name, "Protocol": "Http", "HostBind": "127.0.0.1", "Hosts": "127.0.0.1", "Headers": "", "Uris": "/u2",
			"HostRotation": "round-robin", "PortBind": w.ports[o.name], "PortConn": w.ports[o.name], "HostHeader": "", "UserAgent": "UA2", "Secure": "false", "Proxy Enabled": "false"})
	case "remove":
		if w.httpListener(o.name) != nil {
			w.removes++
		}
		w.dispatch(L.Type, L.Remove, map[string]any{"Name": o.name})
	case "svcUp":
		s := &svcConn{ws: fake.NewWS(o.name), done: make(chan struct{}), up: true}
		s.ws.Raw.Blocking = true
		w.svc[o.name] = s
		go func() {
			defer close(s.done)
			defer func() {
				if p := recover(); p != nil {
					w.panics = append(w.panics, fmt.Sprintf("%v @ %s", p, seam.StackTop()))
				}
			}()
			t.Service.VerifHandleConnection(s.ws.Conn)
		}()
		w.svcSend(s, map[string]any{"Head": map[string]any{"Type": "Register"}, "Body": map[string]any{"Password": "svcpw"}})
		w.svcSend(s, map[string]any{"Head": map[string]any{"Type": "RegisterAgent"}, "Body": map[string]any{"Agent": map[string]any{
			"Name": "agent-" + o.name, "MagicValue": "0x4141" + map[string]string{"s1": "0001", "s2": "0002"}[o.name], "Author": "x", "Description": "d",
			"SupportedOS": []string{"linux"}, "Formats": []any{}, "Commands": []any{}, "BuildingConfig": map[string]any{}}}})
		w.svcSend(s, map[string]any{"Head": map[string]any{"Type": "RegisterAgent"}, "Body": map[string]any{"Agent": map[string]any{
			"Name": "agent2-" + o.name, "MagicValue": "0x4242" + map[string]string{"s1": "0001", "s2": "0002"}[o.name], "Author": "x", "Description": "d",
			"SupportedOS": []string{"linux"}, "Formats": []any{}, "Commands": []any{}, "BuildingConfig": map[string]any{}}}})
		w.svcSend(s, map[string]any{"Head": map[string]any{"Type": "Listener"}, "Body": map[string]any{"Type": "ListenerAdd", "Listener": map[string]any{
			"Name": "proto-" + o.name, "Agent": "agent-" + o.name, "Items": []any{}}}})
	case "svcDown", "svcDownReset":
		s := w.svc[o.name]
		if o.kind == "svcDownReset" {
			s.ws.Raw.CloseErr = errors.New("write tcp 127.0.0.1:40056->10.1.1.1:50000: write: broken pipe")
		}
		s.ws.Raw.ClosePeer()
		if !waitDone(s.done) {
			w.panics = append(w.panics, "service connection handler did not return after the peer closed")
		}
		s.up = false
	case "addSvc":
		// an operator adds a listener of the protocol that service connection registered
		w.dispatch(L.Type, L.Add, map[string]any{"Name": o.name, "Protocol": "proto-" + o.arg})
	case "addExC2x2":
		// two ExC2 listeners of one connection, registered back to back
		s := w.svc[o.arg]
		for _, n := range []string{o.name, o.name + "b"} {
			w.svcSend(s, map[string]any{"Head": map[string]any{"Type": "Listener", "RequestID": "r1"}, "Body": map[string]any{"Type": "ListenerAddExC2", "Name": n, "Endpoint": "ex-" + n + "-" + o.arg}})
		}
	case "addExC2slash":
		// whether "/x" and "x" are one endpoint or two is the teamserver's business; either way
		// every listed listener owns a routed endpoint and removing one leaves the other's alone
		s := w.svc[o.arg]
		w.svcSend(s, map[string]any{"Head": map[string]any{"Type": "Listener", "RequestID": "r1"}, "Body": map[string]any{"Type": "ListenerAddExC2", "Name": o.name, "Endpoint": "/ex-n1-" + o.arg}})
	case "addExC2":
		s := w.svc[o.arg]
		w.svcSend(s, map[string]any{"Head": map[string]any{"Type": "Listener", "RequestID": "r1"}, "Body": map[string]any{"Type": "ListenerAddExC2", "Name": o.name, "Endpoint": "ex-" + o.name + "-" + o.arg}})
	}
}

func (w *world) enabled(maxRemoves int) []int {
	var out []int
	for i, o := range alphabet() {
		switch o.kind {
		case "svcUp":
			if s := w.svc[o.name]; s != nil {
				continue // one life per connection per history
			}
		case "svcDown", "svcDownReset":
			if s := w.svc[o.name]; s == nil || !s.up {
				continue
			}
		case "addSvc", "addExC2", "addExC2x2", "addExC2slash":
			if s := w.svc[o.arg]; s == nil || !s.up {
				continue
			}
		case "editHTTP":
			if w.httpListener(o.name) == nil {
				continue
			}
		case "addHTTPbusy":
			if w.busy != nil {
				continue
			}
		case "addSMB":
			if o.name == "N1" || o.name == "n_" {
				// look-alike names: offered once a listener they resemble exists, not on top of each other
				have := map[string]bool{}
				for _, l := range w.ts.T.Listeners {
					have[l.Name] = true
				}
				if !(have["n1"] || have["n2"]) || have["N1"] || have["n_"] {
					continue
				}
			}
		case "removeDBfail":
			smb := false
			for _, l := range w.ts.T.Listeners {
				if l.Name == o.name && l.Type == handlers.LISTENER_PIVOT_SMB {
					smb = true
				}
			}
			if !smb {
				continue
			}
		case "addHTTPremoveNow":
			// costs the 5 s of Stop(): offered while at most one other listener exists
			if w.httpListener(o.name) != nil || w.removes >= maxRemoves || len(w.ts.T.Listeners) > 1 {
				continue
			}
		case "remove":
			if w.httpListener(o.name) != nil && w.removes >= maxRemoves {
				continue // every HTTP remove waits 5 s in Stop()
			}
		}
		out = append(out, i)
	}
	return out
}

func (w *world) dbListeners() []string {
	d, err := sql.Open("sqlite3", filepath.Join(w.ts.Root, "ts.db"))
	if err != nil {
		return []string{"ERR " + err.Error()}
	}
	defer d.Close()
	rows, err := d.Query("SELECT Name FROM TS_Listeners")
	if err != nil {
		return []string{"ERR " + err.Error()}
	}
	defer rows.Close()
	var out []string
	for rows.Next() {
		var n string
		rows.Scan(&n)
		out = append(out, n)
	}
	sort.Strings(out)
	return out
}

func isServiceExC2(l *server.Listener) bool {
	if e, ok := l.Config.(*handlers.External); ok {
		return e.Data != nil && e.Data["client"] != nil
	}
	return false
}

type view struct {
	running, persisted, advertised []string
	all                            []string
}

func (w *world) views() view {
	var v view
	for _, l := range w.ts.T.Listeners {
		v.all = append(v.all, l.Name)
		switch l.Type {
		case handlers.LISTENER_HTTP, handlers.LISTENER_PIVOT_SMB:
			v.running = append(v.running, l.Name)
		case handlers.LISTENER_EXTERNAL:
			if !isServiceExC2(l) {
				v.running = append(v.running, l.Name)
			}
		}
	}
	v.persisted = w.dbListeners()
	for _, e := range w.ts.T.EventsList {
		if e.Head.Event == packager.Type.Listener.Type && e.Body.SubEvent == packager.Type.Listener.Add {
			p := fmt.Sprint(e.Body.Info["Protocol"])
			if p == "Http" || p == "Https" || p == "Smb" || p == "External" {
				v.advertised = append(v.advertised, fmt.Sprint(e.Body.Info["Name"]))
			}
		}
	}
	sort.Strings(v.running)
	sort.Strings(v.advertised)
	return v
}

// invariants after every op
func (w *world) invariants(last op) (string, string) {
	if len(w.panics) > 0 {
		return "panic/" + ev.Normalize(w.panics[0]), w.panics[0]
	}
	if err := w.ts.DBIdle(); err != nil {
		return "database-still-locked/after:" + last.kind, fmt.Sprintf("after the operation has returned the SQLite file is still locked by the teamserver (%v): a statement or result set was left open, later writes will fail", err)
	}
	v := w.views()
	seen := map[string]bool{}
	for _, n := range v.all {
		if seen[n] {
			return "duplicate-name/after:" + last.kind, fmt.Sprintf("listener name %q occurs twice in the running listeners %v", n, v.all)
		}
		seen[n] = true
	}
	r, p, a := strings.Join(v.running, ","), strings.Join(v.persisted, ","), strings.Join(v.advertised, ",")
	if r != p || r != a {
		return "views-differ/after:" + last.kind, fmt.Sprintf("running [%s], persisted [%s], advertised to operators [%s]", r, p, a)
	}
	// HTTP listeners: a live one accepts, a removed one refuses; an edit is visible
	for name, port := range w.ports {
		h := w.httpListener(name)
		if h == nil {
			if w.busy != nil {
				if _, bp, _ := net.SplitHostPort(w.busy.Addr().String()); bp == port {
					continue
				}
			}
			if canConnect(port) {
				return "http-removed-still-accepting", fmt.Sprintf("HTTP listener %s was removed but port %s still accepts connections", name, port)
			}
			continue
		}
		if h.Active {
			ok := canConnect(port)
			for deadline := time.Now().Add(2 * time.Minute); !ok && h.Active && time.Now().Before(deadline); {
				time.Sleep(20 * time.Millisecond) // the accept loop may not have been scheduled yet
				ok = canConnect(port)
			}
			if !ok && h.Active {
				return "http-live-not-accepting", fmt.Sprintf("HTTP listener %s is reported online but port %s refuses connections", name, port)
			}
		}
	}
	if last.kind == "editHTTP" {
		if h := w.httpListener(last.name); h != nil {
			// the next request sees the edited user agent
			// the next request sees the edited user agent and the edited URI list
			old := w.probe(h, "UA1", "/u1")
			oldURI := w.probe(h, "UA2", "/u1")
			neu := w.probe(h, "UA2", "/u2")
			if old != 404 || oldURI != 404 || neu == 404 {
				return "edit-not-applied", fmt.Sprintf("after the edit (user agent UA1 -> UA2, URI /u1 -> /u2) a request with the old user agent got %d, with the new user agent on the old URI %d, with the new user agent on the new URI %d", old, oldURI, neu)
			}
		}
	}
	// service registries: exactly the registrations of live connections
	svc := w.ts.T.Service
	var wantAgents, wantProtos, wantEx, wantEndpoints []string
	for _, n := range []string{"s1", "s2"} {
		if s := w.svc[n]; s != nil && s.up {
			wantAgents = append(wantAgents, "agent-"+n, "agent2-"+n)
			wantProtos = append(wantProtos, "proto-"+n)
		}
	}
	var gotAgents, gotProtos []string
	for _, x := range svc.Agents {
		gotAgents = append(gotAgents, x.Name)
	}
	for _, x := range svc.Listeners {
		gotProtos = append(gotProtos, x.Name)
	}
	sort.Strings(gotAgents)
	sort.Strings(gotProtos)
	sort.Strings(wantAgents)
	if strings.Join(gotAgents, ",") != strings.Join(wantAgents, ",") {
		return "service-agents/after:" + last.kind, fmt.Sprintf("registered agent types %v, live connections registered %v", gotAgents, wantAgents)
	}
	if strings.Join(gotProtos, ",") != strings.Join(wantProtos, ",") {
		return "service-listeners/after:" + last.kind, fmt.Sprintf("registered listener types %v, live connections registered %v", gotProtos, wantProtos)
	}
	if len(svc.VerifClients()) != len(wantProtos) {
		return "service-clients/after:" + last.kind, fmt.Sprintf("%d service clients, %d live connections", len(svc.VerifClients()), len(wantProtos))
	}
	// ExC2 listeners/endpoints of connections that are gone must be gone
	for _, l := range w.ts.T.Listeners {
		if isServiceExC2(l) {
			e := l.Config.(*handlers.External)
			owner := e.Config.Endpoint[strings.LastIndex(e.Config.Endpoint, "-")+1:]
			if s := w.svc[owner]; s == nil || !s.up {
				return "service-exc2-leftover/after:" + last.kind, fmt.Sprintf("ExC2 listener %s (endpoint %s) outlives the service connection %s that registered it", l.Name, e.Config.Endpoint, owner)
			}
			wantEx = append(wantEx, l.Name)
		}
	}
	owned := map[string]bool{}
	for _, l := range w.ts.T.Listeners {
		if e, ok := l.Config.(*handlers.External); ok {
			if owned[e.Config.Endpoint] {
				// an endpoint routes to one listener only: with two on one endpoint, removing either takes the other's route away
				return "two-external-listeners-one-endpoint/after:" + last.kind, fmt.Sprintf("endpoint %q belongs to two External listeners (%s is the second)", e.Config.Endpoint, l.Name)
			}
			owned[e.Config.Endpoint] = true
		}
	}
	routed := map[string]int{}
	for _, ep := range w.ts.T.Endpoints {
		routed[ep.Endpoint]++
	}
	for _, l := range w.ts.T.Listeners {
		if e, ok := l.Config.(*handlers.External); ok && routed[e.Config.Endpoint] == 0 {
			return "external-listener-without-endpoint/after:" + last.kind, fmt.Sprintf("External listener %s is listed (running, persisted, advertised) but its endpoint %q is not routed any more", l.Name, e.Config.Endpoint)
		}
	}
	for _, ep := range w.ts.T.Endpoints {
		wantEndpoints = append(wantEndpoints, ep.Endpoint)
		if !owned[ep.Endpoint] {
			return "endpoint-leftover/after:" + last.kind, fmt.Sprintf("endpoint %q is still routed although no External listener uses it", ep.Endpoint)
		}
		if strings.HasPrefix(ep.Endpoint, "ex-") {
			owner := ep.Endpoint[strings.LastIndex(ep.Endpoint, "-")+1:]
			if s := w.svc[owner]; s == nil || !s.up {
				return "service-endpoint-leftover/after:" + last.kind, fmt.Sprintf("endpoint %s outlives the service connection %s", ep.Endpoint, owner)
			}
		}
	}
	return "", ""
}

// probe posts a valid registration of a fresh agent with the given user agent to the
// listener's real engine and reports whether it reached the agent protocol (the session
// exists afterwards): 200 reached, 404 refused.
var probeID uint32 = 0x7100

func (w *world) probe(h *handlers.HTTP, ua, uri string) int {
	probeID++
	id := probeID
	body := demonwire.Register(id, seam.Key(3), seam.IV(3), demonwire.DefaultMeta(id))
	req := httptest.NewRequest("POST", uri, bytes.NewReader(body))
	req.Header.Set("User-Agent", ua)
	req.RemoteAddr = "10.0.0.9:1"
	rec := httptest.NewRecorder()
	func() {
		defer func() {
			if p := recover(); p != nil {
				w.panics = append(w.panics, fmt.Sprintf("%v @ %s", p, seam.StackTop()))
			}
		}()
		h.GinEngine.ServeHTTP(rec, req)
	}()
	if w.ts.T.AgentExist(int(id)) {
		return 200
	}
	return 404
}

func (w *world) key() string {
	v := w.views()
	var ls []string
	for _, l := range w.ts.T.Listeners {
		s := fmt.Sprintf("%s/%d", l.Name, l.Type)
		if h, ok := l.Config.(*handlers.HTTP); ok {
			s += fmt.Sprintf("/active=%v/ua=%s", h.Active, h.Config.UserAgent)
		}
		if isServiceExC2(l) {
			s += "/exc2"
		}
		ls = append(ls, s)
	}
	var up []string
	for _, n := range []string{"s1", "s2"} {
		if s := w.svc[n]; s != nil {
			up = append(up, fmt.Sprintf("%s=%v", n, s.up))
		}
	}
	var eps []string
	for _, e := range w.ts.T.Endpoints {
		eps = append(eps, e.Endpoint)
	}
	return fmt.Sprintf("L=%v P=%v A=%v svc=%v eps=%v busy=%v rm=%d", ls, v.persisted, v.advertised, up, eps, w.busy != nil, w.removes)
}

func Run(r *ev.Run) {
	alpha := alphabet()
	depth, maxRemoves := 3, 1
	dl := 80 * time.Second
	if r.Thorough() {
		depth, maxRemoves = 5, 2
		dl = 18 * time.Minute
	}
	r.Rule = "explicit-state BFS over listener add/edit/remove histories (SMB, External, HTTP on real loopback ports incl. one occupied port, service-defined) and two third-party service connections (authenticate, register two agent types and a listener type, add an ExC2 listener, disconnect); every transition replayed on a fresh real teamserver; after every op: name uniqueness, running = persisted = advertised for built-in kinds, TCP accept/refuse of HTTP listeners, edit visible, service registries = registrations of live connections. distinct = canonical states + outcome classes"
	r.Bounds["history_depth"] = depth
	r.Bounds["http_removes_per_history"] = maxRemoves
	r.Bounds["alphabet_size"] = len(alpha)
	r.Assume("HTTP listeners bind real loopback ports; waiting observes completion of a start/stop, never its duration", "each HTTP remove costs the 5 s Stop() always waits; histories are limited to the stated number of them")
	step := func(hist []int) (string, []int, bool) {
		w := newWorld()
		defer w.close()
		var hn []string
		for i, oi := range hist {
			o := alpha[oi]
			hn = append(hn, o.String())
			w.apply(o)
			clause, what := w.invariants(o)
			if clause != "" {
				if i == len(hist)-1 {
					r.Violate(clause, what, map[string]any{"history": hn})
				}
				return "", nil, false
			}
			if i == len(hist)-1 {
				r.Outcome("ok/" + o.kind)
			}
		}
		r.Eval(1)
		k := w.key()
		r.Outcome(k)
		if r.WantSample() && len(hist) >= 2 {
			r.Sample(map[string]any{"history": hn, "state": k})
		}
		return k, w.enabled(maxRemoves), true
	}
	// An HTTP listener removed with the operator's very next message (its serving goroutine
	// has not run yet), from four base states; outside the search because each costs the 5 s
	// of Stop() and leaves the state it started from.
	if par.InBFSWorker() == "" {
		bases := [][]op{{}, {{"addSMB", "n1", ""}}, {{"addHTTP", "n1", ""}}, {{"addExt", "n1", "e1"}}}
		r.Bounds["remove_at_once_bases"] = len(bases)
		// HTTPS listeners, added and removed: the generated certificate, a configured pair that
		// works, and configured pairs that exist but cannot be used
		tlsKinds := []string{"generated", "usable-pair", "key-of-another-cert", "key-not-pem", "cert-not-pem", "key-missing"}
		r.Bounds["https_listener_kinds"] = tlsKinds
		for _, k := range tlsKinds {
			bases = append(bases, []op{{"addHTTPS", "n2", k}, {"remove", "n2", ""}})
		}
		par.RunStrict(r, len(bases), 10*time.Minute, func(i, n int, r *ev.Run) {
			for bi, base := range bases {
				if bi%n != i {
					continue
				}
				w := newWorld()
				var hn []string
				bad := false
				hist := append(append([]op{}, base...), op{"addHTTPremoveNow", "n2", ""})
				if len(base) > 0 && base[0].kind == "addHTTPS" {
					hist = base
				}
				for _, o := range hist {
					hn = append(hn, o.String())
					w.apply(o)
					if clause, what := w.invariants(o); clause != "" {
						r.Violate(clause, what, map[string]any{"history": hn})
						bad = true
						break
					}
				}
				if !bad {
					r.Outcome("ok/" + hist[0].String() + "/" + hist[len(hist)-1].kind)
				}
				r.Eval(1)
				w.close()
			}
		})
	}
	res := par.BFS(r, "c16", depth, par.Workers(), time.Now().Add(dl), step)
	r.AddStates(res.States, res.Transitions, res.Transitions)
	r.Extra["bfs"] = map[string]any{"states": res.States, "transitions": res.Transitions, "depth_completed": res.Depth, "fixpoint": res.Fixpoint, "new_states_by_depth": res.ByDepth}
	if res.Capped {
		r.NotExhaustive(fmt.Sprintf("BFS stopped by the internal deadline after depth %d", res.Depth))
	}
}
