// Package c01: "Untrusted listener traffic can never crash or wedge the teamserver".
//
// table.go is the TABLE of valid callback shapes: for every command and sub-command
// that Agent.TaskDispatch (teamserver/pkg/agent/demons.go) handles, the typed field
// list the Demon sends (cross-checked against payloads/Demon/src/core/Command.c) with
// example values that drive the handler to its normal end.  The explorer derives every
// hostile packet from these by bounded deviation (encode.go).
package c01

import (
	"encoding/binary"

	"Havoc/pkg/agent"
)

// Kind of one field on the wire (Package.c: everything is big-endian; byte strings
// carry a 4-byte length prefix).
type Kind uint8

const (
	KI32   Kind = iota // PackageAddInt32
	KI64               // PackageAddInt64
	KBool              // PackageAddBool (an int32 0/1)
	KPtr               // PackageAddPtr (8 bytes)
	KBytes             // PackageAddBytes
	KStr               // PackageAddString (bytes, no terminator)
	KWStr              // PackageAddWString (UTF-16LE)
	KRaw               // fixed bytes without a prefix (AES key / IV of a check-in)
	KInner             // a complete nested Demon package carried as a byte string
)

func (k Kind) String() string {
	return [...]string{"i32", "i64", "bool", "ptr", "bytes", "str", "wstr", "raw", "inner"}[k]
}

// F is one typed field with its valid example value.
type F struct {
	K     Kind
	N     string
	V     uint64
	S     string
	B     []byte
	In    *Inner
	NoDev bool // the value is kept (used where a deviation would only change which host net.Dial is asked to reach)
	IsID  bool // an i32 whose valid value is the id of agent R (resolved against the sender at encode time)
	R     Ref
}

func i32(n string, v uint32) F    { return F{K: KI32, N: n, V: uint64(v)} }
func i64(n string, v uint64) F    { return F{K: KI64, N: n, V: v} }
func boolean(n string, v bool) F  { return F{K: KBool, N: n, V: b2u(v)} }
func ptr(n string, v uint64) F    { return F{K: KPtr, N: n, V: v} }
func byts(n string, b []byte) F   { return F{K: KBytes, N: n, B: b} }
func str(n, s string) F           { return F{K: KStr, N: n, S: s} }
func wstr(n, s string) F          { return F{K: KWStr, N: n, S: s} }
func raw(n string, b []byte) F    { return F{K: KRaw, N: n, B: b} }
func inner(n string, in *Inner) F { return F{K: KInner, N: n, In: in} }
func keep(f F) F                  { f.NoDev = true; return f }

func b2u(b bool) uint64 {
	if b {
		return 1
	}
	return 0
}

// Ref names an agent symbolically; the world resolves it to an id and a key.
type Ref uint8

const (
	RefSender  Ref = iota // the agent the enclosing package comes from
	RefA                  // the directly connected agent
	RefB                  // pivot child of A (registered only in S4)
	RefC                  // second pivot child of A (S4)
	RefD                  // an agent id never registered before the request
	RefUnknown            // an id that is never registered
)

const (
	idA       = 0x0000a001
	idB       = 0x0000b001
	idC       = 0x0000c001
	idD       = 0x0000d001
	idE       = 0x0000e001 // S4: child of B (two hops behind A), with a task waiting in A's queue
	idUnknown = 0x0000eeee

	magicDemon      = 0xDEADBEEF
	magicThirdParty = 0x41424344 // registered as a service agent type in S5 only
	magicUpperCase  = 0x4d59c0de // registered in S5 with the spelling "0x4D59C0DE"
)

func (r Ref) id(sender uint32) uint32 {
	switch r {
	case RefA:
		return idA
	case RefB:
		return idB
	case RefC:
		return idC
	case RefD:
		return idD
	case RefUnknown:
		return idUnknown
	}
	return sender
}

func keyIndex(id uint32) byte {
	switch id {
	case idA:
		return 1
	case idB:
		return 2
	case idC:
		return 3
	case idD:
		return 4
	case idE:
		return 5
	}
	return 0
}

// Inner is a nested package: either a DEMON_INIT registration (SMB connect) or a
// callback package of a pivot child (SMB command).
type Inner struct {
	From     Ref
	Register bool
	Sub      *Shape // callback carried (Register == false)
}

// Request id classes.
type ReqKind uint8

const (
	ReqOutstanding ReqKind = iota // R1: handed out to the agent, not yet completed
	ReqBof                        // an outstanding id that also has a BOF callback registered
	ReqZero                       // commands that are not gated (COMMAND_SOCKET, COMMAND_PIVOT)
)

// Request ids made outstanding by the states that have any (world.go).
const (
	reqR1      = 0x00001001 // delivered, outstanding
	reqR2      = 0x00001002 // delivered, outstanding (second sub-package)
	reqR3      = 0x00001003 // still queued
	reqBof     = 0x00001004 // delivered, outstanding, with a BofCallback entry
	reqUnknown = 0x0badf00d
)

// Shape is one valid callback (or registration) of the protocol.
type Shape struct {
	Name       string
	Cmd        uint32
	F          []F
	Req        ReqKind
	Init       bool // DEMON_INIT package (registration / reconnect): body is key ‖ iv ‖ CTR(fields)
	ThirdParty bool // a request of a third-party (service) agent: registered magic value, opaque body
	From       Ref  // who sends it (RefSender = the state's default sender)
	// Extra sub-packages sent before this one in the same request (composite shapes).
	Before []*Shape
	Tags   string // "dl" download related, "pivot", "died": used to pick shapes for S3/S4-direct

	fixedReq uint32 // request id forced by the encoder (second sub-package)
}

const (
	fileOpen = 0x77 // download opened by FS_DOWNLOAD in S3
	fileBof  = 0x78 // download opened by CALLBACK_FILE in S3
	fileFull = 0x79 // download opened in S3 whose local file is on a full device (/dev/full)
	fileNew  = 0x79

	sockFwd   = 0x51 // rportfwd socket present in S2.. (Conn == nil, target 127.0.0.1:1)
	sockProxy = 0x61 // socks client present in S2.. (in-memory connection)
	sockNew   = 0x71
)

var ipLoop = uint32(0x0100007f) // Int32ToIpString prints b0.b1.b2.b3 little-endian first => 127.0.0.1

func be32(v uint32) []byte { b := make([]byte, 4); binary.BigEndian.PutUint32(b, v); return b }

func cat(bs ...[]byte) []byte {
	var o []byte
	for _, b := range bs {
		o = append(o, b...)
	}
	return o
}

// a 2x2 24-bit BMP (valid for golang.org/x/image/bmp)
var tinyBMP = func() []byte {
	pix := 16 // 2 rows, each 2*3 bytes padded to 8
	b := make([]byte, 54+pix)
	copy(b, "BM")
	binary.LittleEndian.PutUint32(b[2:], uint32(len(b)))
	binary.LittleEndian.PutUint32(b[10:], 54)
	binary.LittleEndian.PutUint32(b[14:], 40)
	binary.LittleEndian.PutUint32(b[18:], 2)
	binary.LittleEndian.PutUint32(b[22:], 2)
	binary.LittleEndian.PutUint16(b[26:], 1)
	binary.LittleEndian.PutUint16(b[28:], 24)
	binary.LittleEndian.PutUint32(b[34:], uint32(pix))
	for i := 54; i < len(b); i++ {
		b[i] = byte(i * 7)
	}
	return b
}()

// metaFields is the registration / check-in metadata (Demon.c DemonMetaData) for id.
func metaFields(id Ref) []F {
	return []F{
		{K: KI32, N: "DemonID", IsID: true, R: id},
		str("Hostname", "HOST"), str("Username", "user"), str("Domain", "DOM"), str("InternalIP", "10.0.0.5"),
		wstr("ProcessPath", `C:\Windows\p.exe`),
		i32("PID", 1234), i32("TID", 77), i32("PPID", 4), i32("ProcessArch", 2), i32("Elevated", 1),
		i64("BaseAddress", 0x7ff600000000),
		i32("OsMajor", 10), i32("OsMinor", 0), i32("OsProduct", 1), i32("OsSP", 0), i32("OsBuild", 19045),
		i32("OsArch", 9), i32("Sleep", 2), i32("Jitter", 15), i64("KillDate", 0), i32("WorkingHours", 0),
	}
}

func sh(name string, cmd uint32, f ...F) *Shape { return &Shape{Name: name, Cmd: cmd, F: f} }

func (s *Shape) req(k ReqKind) *Shape      { s.Req = k; return s }
func (s *Shape) tag(t string) *Shape       { s.Tags += " " + t; return s }
func (s *Shape) before(b ...*Shape) *Shape { s.Before = b; return s }

func rep(n int, f ...F) []F {
	var o []F
	for i := 0; i < n; i++ {
		o = append(o, f...)
	}
	return o
}

func fl(groups ...[]F) []F {
	var o []F
	for _, g := range groups {
		o = append(o, g...)
	}
	return o
}

func one(f ...F) []F { return f }

// Shapes returns the table.  The order is fixed (simplest first within a command).
func Shapes() []*Shape {
	var t []*Shape
	add := func(s ...*Shape) { t = append(t, s...) }

	// --- registration ------------------------------------------------------------
	add(&Shape{Name: "INIT/register", Cmd: agent.DEMON_INIT, F: metaFields(RefD), Init: true, From: RefD, Req: ReqZero})
	add(&Shape{Name: "INIT/register-plain", Cmd: agent.DEMON_INIT, F: metaFields(RefUnknown), Init: true, From: RefUnknown, Req: ReqZero}) // all-zero key: metadata not encrypted
	add(&Shape{Name: "INIT/reconnect", Cmd: agent.DEMON_INIT, F: metaFields(RefSender), Init: true, Req: ReqZero})

	// --- third-party (service API) agents: the teamserver forwards the opaque body to the service client ---
	add(&Shape{Name: "THIRD-PARTY/new-agent", ThirdParty: true, From: RefD, Req: ReqZero})
	add(&Shape{Name: "THIRD-PARTY/demon-session-id", ThirdParty: true, From: RefA, Req: ReqZero})

	// --- COMMAND_CHECKIN ------------------------------------------------------------
	add(sh("CHECKIN", agent.COMMAND_CHECKIN, fl(one(F{K: KRaw, N: "AESKey", V: 32}, F{K: KRaw, N: "AESIv", V: 16}), metaFields(RefSender))...).tag("pivot"))

	// --- exit / kill date --------------------------------------------------------------
	add(sh("EXIT/thread", agent.COMMAND_EXIT, i32("ExitMethod", 1)).tag("died"))
	add(sh("EXIT/process", agent.COMMAND_EXIT, i32("ExitMethod", 2)).tag("died"))
	add(sh("KILL_DATE", agent.COMMAND_KILL_DATE).tag("died"))

	// --- DEMON_INFO ------------------------------------------------------------------
	add(sh("DEMON_INFO/MEM_ALLOC", agent.DEMON_INFO, i32("InfoID", agent.DEMON_INFO_MEM_ALLOC), ptr("Ptr", 0x1f0000), i32("Size", 4096), i32("Protect", 0x40)))
	add(sh("DEMON_INFO/MEM_EXEC", agent.DEMON_INFO, i32("InfoID", agent.DEMON_INFO_MEM_EXEC), ptr("Func", 0x1f0000), i32("ThreadId", 99)))
	add(sh("DEMON_INFO/MEM_PROTECT", agent.DEMON_INFO, i32("InfoID", agent.DEMON_INFO_MEM_PROTECT), ptr("Mem", 0x1f0000), i32("Size", 4096), i32("Old", 0x04), i32("New", 0x20)))
	add(sh("DEMON_INFO/PROC_CREATE", agent.DEMON_INFO, i32("InfoID", agent.DEMON_INFO_PROC_CREATE)))

	// --- COMMAND_SLEEP ------------------------------------------------------------------
	add(sh("SLEEP", agent.COMMAND_SLEEP, i32("Delay", 7), i32("Jitter", 3)))

	// --- COMMAND_JOB ---------------------------------------------------------------------
	add(sh("JOB/LIST", agent.COMMAND_JOB, fl(one(i32("Sub", agent.DEMON_COMMAND_JOB_LIST)), rep(2, i32("JobID", 5), i32("Type", 2), i32("State", 1)))...))
	add(sh("JOB/SUSPEND", agent.COMMAND_JOB, i32("Sub", agent.DEMON_COMMAND_JOB_SUSPEND), i32("JobID", 5), i32("Success", 1)))
	add(sh("JOB/RESUME", agent.COMMAND_JOB, i32("Sub", agent.DEMON_COMMAND_JOB_RESUME), i32("JobID", 5), i32("Success", 1)))
	add(sh("JOB/KILL_REMOVE", agent.COMMAND_JOB, i32("Sub", agent.DEMON_COMMAND_JOB_KILL_REMOVE), i32("JobID", 5), i32("Success", 1)))
	add(sh("JOB/DIED", agent.COMMAND_JOB, i32("Sub", agent.DEMON_COMMAND_JOB_DIED)))

	// --- COMMAND_FS ------------------------------------------------------------------------
	item := one(wstr("FileName", "a.txt"), boolean("IsDir", false), i64("Size", 1234), i32("Day", 2), i32("Month", 10), i32("Year", 2026), i32("Minute", 5), i32("Hour", 13))
	dirHead := func(explorer, listOnly, ok bool) []F {
		return one(i32("Sub", agent.DEMON_COMMAND_FS_DIR), boolean("Explorer", explorer), boolean("ListOnly", listOnly), wstr("StartPath", `C:\t\*`), boolean("Success", ok))
	}
	root := one(wstr("RootDirPath", `C:\t\*`), i32("NumFiles", 1), i32("NumDirs", 1), i64("TotalFileSize", 1234))
	add(sh("FS/DIR/console", agent.COMMAND_FS, fl(dirHead(false, false, true), root, item, item)...))
	add(sh("FS/DIR/explorer", agent.COMMAND_FS, fl(dirHead(true, false, true), root, item, item)...))
	add(sh("FS/DIR/listonly", agent.COMMAND_FS, fl(dirHead(false, true, true), one(wstr("RootDirPath", `C:\t\*`), i32("NumFiles", 1), i32("NumDirs", 1)), one(wstr("FileName", "a.txt"), wstr("FileName", "sub")))...))
	add(sh("FS/DIR/failed", agent.COMMAND_FS, dirHead(false, false, false)...))
	add(sh("FS/DOWNLOAD/open", agent.COMMAND_FS, i32("Sub", agent.DEMON_COMMAND_FS_DOWNLOAD), i32("Mode", 0), i32("FileID", fileNew), i64("FileSize", 2048), wstr("FileName", `C:\Users\x\new.txt`)).tag("dl"))
	add(sh("FS/DOWNLOAD/write", agent.COMMAND_FS, i32("Sub", agent.DEMON_COMMAND_FS_DOWNLOAD), i32("Mode", 1), i32("FileID", fileOpen), byts("Chunk", []byte("chunk-of-file-data"))).tag("dl"))
	add(sh("FS/DOWNLOAD/write-full-disk", agent.COMMAND_FS, i32("Sub", agent.DEMON_COMMAND_FS_DOWNLOAD), i32("Mode", 1), i32("FileID", fileFull), byts("Chunk", []byte("chunk-of-file-data"))).tag("dl"))
	add(sh("FS/DOWNLOAD/close", agent.COMMAND_FS, i32("Sub", agent.DEMON_COMMAND_FS_DOWNLOAD), i32("Mode", 2), i32("FileID", fileOpen), i32("Reason", 0)).tag("dl"))
	add(sh("FS/DOWNLOAD/removed", agent.COMMAND_FS, i32("Sub", agent.DEMON_COMMAND_FS_DOWNLOAD), i32("Mode", 2), i32("FileID", fileOpen), i32("Reason", 1)).tag("dl"))
	add(sh("FS/UPLOAD", agent.COMMAND_FS, i32("Sub", agent.DEMON_COMMAND_FS_UPLOAD), i32("FileSize", 10), wstr("FileName", `C:\t\up.bin`)))
	add(sh("FS/CD", agent.COMMAND_FS, i32("Sub", agent.DEMON_COMMAND_FS_CD), wstr("Path", `C:\t`)))
	add(sh("FS/REMOVE", agent.COMMAND_FS, i32("Sub", agent.DEMON_COMMAND_FS_REMOVE), i32("IsDir", 1), wstr("Path", `C:\t\d`)))
	add(sh("FS/MKDIR", agent.COMMAND_FS, i32("Sub", agent.DEMON_COMMAND_FS_MKDIR), wstr("Path", `C:\t\d`)))
	add(sh("FS/COPY", agent.COMMAND_FS, i32("Sub", agent.DEMON_COMMAND_FS_COPY), i32("Success", 1), wstr("From", `C:\a`), wstr("To", `C:\b`)))
	add(sh("FS/MOVE", agent.COMMAND_FS, i32("Sub", agent.DEMON_COMMAND_FS_MOVE), i32("Success", 1), wstr("From", `C:\a`), wstr("To", `C:\b`)))
	add(sh("FS/GET_PWD", agent.COMMAND_FS, i32("Sub", agent.DEMON_COMMAND_FS_GET_PWD), wstr("Path", `C:\t`)))
	add(sh("FS/CAT", agent.COMMAND_FS, i32("Sub", agent.DEMON_COMMAND_FS_CAT), wstr("FileName", `C:\t\a.txt`), i32("Success", 1), str("Content", "hello\nworld")))

	// --- COMMAND_PROC_LIST -------------------------------------------------------------------
	proc := one(wstr("Name", "svchost.exe"), i32("PID", 800), i32("IsWow", 0), i32("PPID", 600), i32("Session", 0), i32("Threads", 12), wstr("User", `NT AUTHORITY\SYSTEM`))
	add(sh("PROC_LIST/console", agent.COMMAND_PROC_LIST, fl(one(i32("ProcessUI", 0)), proc, proc)...))
	add(sh("PROC_LIST/ui", agent.COMMAND_PROC_LIST, fl(one(i32("ProcessUI", 1)), proc, proc)...))

	// --- COMMAND_OUTPUT ----------------------------------------------------------------------
	add(sh("OUTPUT", agent.COMMAND_OUTPUT, str("Output", "whoami: dom\\user")))

	// --- BEACON_OUTPUT with each CALLBACK_* ----------------------------------------------------
	add(sh("BEACON_OUTPUT/OUTPUT", agent.BEACON_OUTPUT, i32("Type", agent.CALLBACK_OUTPUT), str("Output", "bof says hi")))
	add(sh("BEACON_OUTPUT/OUTPUT/bof", agent.BEACON_OUTPUT, i32("Type", agent.CALLBACK_OUTPUT), str("Output", "bof says hi")).req(ReqBof))
	add(sh("BEACON_OUTPUT/OUTPUT_OEM", agent.BEACON_OUTPUT, i32("Type", agent.CALLBACK_OUTPUT_OEM), wstr("Output", "oem text")))
	add(sh("BEACON_OUTPUT/OUTPUT_OEM/bof", agent.BEACON_OUTPUT, i32("Type", agent.CALLBACK_OUTPUT_OEM), wstr("Output", "oem text")).req(ReqBof))
	add(sh("BEACON_OUTPUT/OUTPUT_UTF8", agent.BEACON_OUTPUT, i32("Type", agent.CALLBACK_OUTPUT_UTF8), str("Output", "utf8 text")))
	add(sh("BEACON_OUTPUT/ERROR", agent.BEACON_OUTPUT, i32("Type", agent.CALLBACK_ERROR), str("Output", "bof error")))
	add(sh("BEACON_OUTPUT/ERROR/bof", agent.BEACON_OUTPUT, i32("Type", agent.CALLBACK_ERROR), str("Output", "bof error")).req(ReqBof))
	add(sh("BEACON_OUTPUT/FILE", agent.BEACON_OUTPUT, i32("Type", agent.CALLBACK_FILE), byts("Data", cat(be32(fileNew), be32(2048), []byte("boffile.bin")))).tag("dl"))
	add(sh("BEACON_OUTPUT/FILE_WRITE", agent.BEACON_OUTPUT, i32("Type", agent.CALLBACK_FILE_WRITE), byts("Data", cat(be32(fileBof), []byte("more-data")))).tag("dl"))
	add(sh("BEACON_OUTPUT/FILE_CLOSE", agent.BEACON_OUTPUT, i32("Type", agent.CALLBACK_FILE_CLOSE), byts("Data", be32(fileBof))).tag("dl"))

	// --- injection results ---------------------------------------------------------------------
	add(sh("INJECT_DLL/ok", agent.COMMAND_INJECT_DLL, i32("Status", 0)))
	add(sh("INJECT_DLL/arch", agent.COMMAND_INJECT_DLL, i32("Status", 0x1001)))
	add(sh("SPAWNDLL/ok", agent.COMMAND_SPAWNDLL, i32("Status", 0)))
	add(sh("SPAWNDLL/fail", agent.COMMAND_SPAWNDLL, i32("Status", 0x1003)))
	add(sh("INJECT_SHELLCODE/ok", agent.COMMAND_INJECT_SHELLCODE, i32("Status", agent.INJECT_ERROR_SUCCESS)))
	add(sh("INJECT_SHELLCODE/mismatch", agent.COMMAND_INJECT_SHELLCODE, i32("Status", agent.INJECT_ERROR_PROCESS_ARCH_MISMATCH)))

	// --- COMMAND_PROC ----------------------------------------------------------------------------
	add(sh("PROC/MODULES", agent.COMMAND_PROC, fl(one(i32("Sub", agent.DEMON_COMMAND_PROC_MODULES), i32("PID", 800)), rep(2, str("Module", "ntdll.dll"), ptr("Base", 0x7ffb00000000)))...))
	add(sh("PROC/GREP", agent.COMMAND_PROC, fl(one(i32("Sub", agent.DEMON_COMMAND_PROC_GREP)), rep(2, wstr("Name", "lsass.exe"), i32("PID", 700), i32("PPID", 500), wstr("User", `NT AUTHORITY\SYSTEM`), i32("Arch", 64)))...))
	add(sh("PROC/CREATE", agent.COMMAND_PROC, i32("Sub", agent.DEMON_COMMAND_PROC_CREATE), wstr("Path", `C:\Windows\System32\cmd.exe`), i32("PID", 4242), i32("Success", 1), i32("Piped", 1), i32("Verbose", 1)))
	add(sh("PROC/CREATE/nopipe", agent.COMMAND_PROC, i32("Sub", agent.DEMON_COMMAND_PROC_CREATE), wstr("Path", `C:\Windows\System32\cmd.exe`), i32("PID", 0), i32("Success", 0), i32("Piped", 0), i32("Verbose", 1)))
	add(sh("PROC/BLOCKDLL", agent.COMMAND_PROC, i32("Sub", 5), i32("State", 1)))
	add(sh("PROC/MEMORY", agent.COMMAND_PROC, fl(one(i32("Sub", agent.DEMON_COMMAND_PROC_MEMORY), i32("PID", 800), i32("Query", 0x40)), rep(2, ptr("Base", 0x1f0000), i32("RegionSize", 4096), i32("Protect", 0x40), i32("State", 0x1000), i32("Type", 0x20000)))...))
	add(sh("PROC/KILL", agent.COMMAND_PROC, i32("Sub", agent.DEMON_COMMAND_PROC_KILL), i32("Success", 1), i32("PID", 800)))

	// --- COMMAND_INLINEEXECUTE (BOF callbacks) -----------------------------------------------------
	add(sh("INLINEEXECUTE/OUTPUT", agent.COMMAND_INLINEEXECUTE, i32("Type", agent.CALLBACK_OUTPUT), str("Output", "bof output")))
	add(sh("INLINEEXECUTE/ERROR", agent.COMMAND_INLINEEXECUTE, i32("Type", agent.CALLBACK_ERROR), str("Output", "bof error")))
	add(sh("INLINEEXECUTE/EXCEPTION", agent.COMMAND_INLINEEXECUTE, i32("Type", agent.COMMAND_INLINEEXECUTE_EXCEPTION), i32("Exception", 0xC0000005), i64("Address", 0x7ff6deadbeef)))
	add(sh("INLINEEXECUTE/SYMBOL_NOT_FOUND", agent.COMMAND_INLINEEXECUTE, i32("Type", agent.COMMAND_INLINEEXECUTE_SYMBOL_NOT_FOUND), str("LibAndFunc", "KERNEL32$Nope")))
	add(sh("INLINEEXECUTE/RAN_OK", agent.COMMAND_INLINEEXECUTE, i32("Type", agent.COMMAND_INLINEEXECUTE_RAN_OK)))
	add(sh("INLINEEXECUTE/RAN_OK/bof", agent.COMMAND_INLINEEXECUTE, i32("Type", agent.COMMAND_INLINEEXECUTE_RAN_OK)).req(ReqBof))
	add(sh("INLINEEXECUTE/COULD_NO_RUN", agent.COMMAND_INLINEEXECUTE, i32("Type", agent.COMMAND_INLINEEXECUTE_COULD_NO_RUN)))
	add(sh("INLINEEXECUTE/COULD_NO_RUN/bof", agent.COMMAND_INLINEEXECUTE, i32("Type", agent.COMMAND_INLINEEXECUTE_COULD_NO_RUN)).req(ReqBof))

	// --- COMMAND_ERROR ----------------------------------------------------------------------------
	add(sh("ERROR/WIN32", agent.COMMAND_ERROR, i32("ErrorID", agent.ERROR_WIN32_LASTERROR), i32("Code", 5)))
	add(sh("ERROR/TOKEN", agent.COMMAND_ERROR, i32("ErrorID", agent.ERROR_TOKEN), i32("Status", 1)))

	// --- COMMAND_ASSEMBLY_* -------------------------------------------------------------------------
	add(sh("ASSEMBLY/PATCHED", agent.COMMAND_ASSEMBLY_INLINE_EXECUTE, i32("InfoID", agent.DOTNET_INFO_PATCHED)))
	add(sh("ASSEMBLY/NET_VERSION", agent.COMMAND_ASSEMBLY_INLINE_EXECUTE, i32("InfoID", agent.DOTNET_INFO_NET_VERSION), wstr("Version", "v4.0.30319")))
	add(sh("ASSEMBLY/ENTRYPOINT", agent.COMMAND_ASSEMBLY_INLINE_EXECUTE, i32("InfoID", agent.DOTNET_INFO_ENTRYPOINT), i32("ThreadID", 321)))
	add(sh("ASSEMBLY/FINISHED", agent.COMMAND_ASSEMBLY_INLINE_EXECUTE, i32("InfoID", agent.DOTNET_INFO_FINISHED)))
	add(sh("ASSEMBLY/FAILED", agent.COMMAND_ASSEMBLY_INLINE_EXECUTE, i32("InfoID", agent.DOTNET_INFO_FAILED)))
	add(sh("ASSEMBLY_LIST_VERSIONS", agent.COMMAND_ASSEMBLY_LIST_VERSIONS, wstr("Version", "v2.0.50727"), wstr("Version", "v4.0.30319")))
	add(sh("PROC_PPIDSPOOF", agent.COMMAND_PROC_PPIDSPOOF, i32("Ppid", 600)))

	// --- COMMAND_TOKEN ---------------------------------------------------------------------------------
	tok := one(i32("Index", 0), i32("Handle", 0x2a4), wstr("DomainUser", `DOM\admin`), i32("PID", 800), i32("Type", 1), i32("Impersonating", 1))
	found := one(wstr("DomainUser", `DOM\admin`), i32("PID", 800), i32("Handle", 0x2a4), i32("Integrity", 0x3000), i32("ImpLevel", 2), i32("TokenType", 2))
	add(sh("TOKEN/IMPERSONATE", agent.COMMAND_TOKEN, i32("Sub", agent.DEMON_COMMAND_TOKEN_IMPERSONATE), i32("Success", 1), str("User", `DOM\admin`)))
	add(sh("TOKEN/STEAL", agent.COMMAND_TOKEN, i32("Sub", agent.DEMON_COMMAND_TOKEN_STEAL), wstr("User", `DOM\admin`), i32("TokenID", 1), i32("PID", 800)))
	add(sh("TOKEN/LIST", agent.COMMAND_TOKEN, fl(one(i32("Sub", agent.DEMON_COMMAND_TOKEN_LIST)), tok, tok)...))
	add(sh("TOKEN/PRIVS/list", agent.COMMAND_TOKEN, fl(one(i32("Sub", agent.DEMON_COMMAND_TOKEN_PRIVSGET_OR_LIST), i32("List", 1)), rep(2, str("Priv", "SeDebugPrivilege"), i32("State", 3)))...))
	add(sh("TOKEN/PRIVS/get", agent.COMMAND_TOKEN, i32("Sub", agent.DEMON_COMMAND_TOKEN_PRIVSGET_OR_LIST), i32("List", 0), i32("Success", 1), str("Priv", "SeDebugPrivilege")))
	add(sh("TOKEN/MAKE", agent.COMMAND_TOKEN, i32("Sub", agent.DEMON_COMMAND_TOKEN_MAKE), wstr("User", `DOM\svc`)))
	add(sh("TOKEN/GET_UID", agent.COMMAND_TOKEN, i32("Sub", agent.DEMON_COMMAND_TOKEN_GET_UID), i32("Elevated", 1), wstr("User", `DOM\admin`)))
	add(sh("TOKEN/REVERT", agent.COMMAND_TOKEN, i32("Sub", agent.DEMON_COMMAND_TOKEN_REVERT), i32("Success", 1)))
	add(sh("TOKEN/REMOVE", agent.COMMAND_TOKEN, i32("Sub", agent.DEMON_COMMAND_TOKEN_REMOVE), i32("Success", 1), i32("TokenID", 1)))
	add(sh("TOKEN/CLEAR", agent.COMMAND_TOKEN, i32("Sub", agent.DEMON_COMMAND_TOKEN_CLEAR)))
	add(sh("TOKEN/FIND_TOKENS", agent.COMMAND_TOKEN, fl(one(i32("Sub", agent.DEMON_COMMAND_TOKEN_FIND_TOKENS), i32("Success", 1), i32("NumTokens", 2)), found, found)...))
	add(sh("TOKEN/FIND_TOKENS/failed", agent.COMMAND_TOKEN, i32("Sub", agent.DEMON_COMMAND_TOKEN_FIND_TOKENS), i32("Success", 0)))

	// --- COMMAND_CONFIG ----------------------------------------------------------------------------------
	add(sh("CONFIG/MEMORY_ALLOC", agent.COMMAND_CONFIG, i32("Config", agent.CONFIG_MEMORY_ALLOC), i32("Value", 1)))
	add(sh("CONFIG/MEMORY_EXECUTE", agent.COMMAND_CONFIG, i32("Config", agent.CONFIG_MEMORY_EXECUTE), i32("Value", 2)))
	add(sh("CONFIG/INJECT_SPAWN64", agent.COMMAND_CONFIG, i32("Config", agent.CONFIG_INJECT_SPAWN64), wstr("Path", `C:\Windows\System32\notepad.exe`)))
	add(sh("CONFIG/INJECT_SPAWN32", agent.COMMAND_CONFIG, i32("Config", agent.CONFIG_INJECT_SPAWN32), wstr("Path", `C:\Windows\SysWOW64\notepad.exe`)))
	add(sh("CONFIG/KILLDATE", agent.COMMAND_CONFIG, i32("Config", agent.CONFIG_KILLDATE), i64("KillDate", 1893456000)))
	add(sh("CONFIG/WORKINGHOURS", agent.COMMAND_CONFIG, i32("Config", agent.CONFIG_WORKINGHOURS), i32("Hours", 0x400a20c4)))
	add(sh("CONFIG/SPFTHREADSTART", agent.COMMAND_CONFIG, i32("Config", agent.CONFIG_IMPLANT_SPFTHREADSTART), str("Lib", "ntdll.dll"), str("Func", "RtlUserThreadStart")))
	add(sh("CONFIG/SLEEP_TECHNIQUE", agent.COMMAND_CONFIG, i32("Config", agent.CONFIG_IMPLANT_SLEEP_TECHNIQUE), i32("Value", 2)))
	add(sh("CONFIG/COFFEE_VEH", agent.COMMAND_CONFIG, i32("Config", agent.CONFIG_IMPLANT_COFFEE_VEH), i32("Value", 1)))
	add(sh("CONFIG/COFFEE_THREADED", agent.COMMAND_CONFIG, i32("Config", agent.CONFIG_IMPLANT_COFFEE_THREADED), i32("Value", 1)))
	add(sh("CONFIG/INJECT_TECHNIQUE", agent.COMMAND_CONFIG, i32("Config", agent.CONFIG_INJECT_TECHNIQUE), i32("Value", 2)))
	add(sh("CONFIG/INJECT_SPOOFADDR", agent.COMMAND_CONFIG, i32("Config", agent.CONFIG_INJECT_SPOOFADDR), str("Lib", "kernel32.dll"), str("Func", "BaseThreadInitThunk")))
	add(sh("CONFIG/VERBOSE", agent.COMMAND_CONFIG, i32("Config", agent.CONFIG_IMPLANT_VERBOSE), i32("Value", 1)))
	add(sh("CONFIG/unknown", agent.COMMAND_CONFIG, i32("Config", 0)))

	// --- COMMAND_SCREENSHOT -----------------------------------------------------------------------------------
	add(sh("SCREENSHOT/ok", agent.COMMAND_SCREENSHOT, i32("Success", 1), byts("Bmp", tinyBMP)).tag("dl"))
	add(sh("SCREENSHOT/failed", agent.COMMAND_SCREENSHOT, i32("Success", 0)))

	// --- COMMAND_NET -----------------------------------------------------------------------------------------
	add(sh("NET/DOMAIN", agent.COMMAND_NET, i32("Sub", agent.DEMON_NET_COMMAND_DOMAIN), str("Domain", "corp.local")))
	add(sh("NET/LOGONS", agent.COMMAND_NET, i32("Sub", agent.DEMON_NET_COMMAND_LOGONS), wstr("Server", `\\DC01`), wstr("User", "alice"), wstr("User", "bob")))
	add(sh("NET/SESSIONS", agent.COMMAND_NET, fl(one(i32("Sub", agent.DEMON_NET_COMMAND_SESSIONS), wstr("Server", `\\DC01`)), rep(2, wstr("Client", `\\10.0.0.9`), wstr("User", "alice"), i32("Time", 60), i32("Idle", 5)))...))
	add(sh("NET/COMPUTER", agent.COMMAND_NET, i32("Sub", agent.DEMON_NET_COMMAND_COMPUTER)))
	add(sh("NET/DCLIST", agent.COMMAND_NET, i32("Sub", agent.DEMON_NET_COMMAND_DCLIST)))
	add(sh("NET/SHARE", agent.COMMAND_NET, fl(one(i32("Sub", agent.DEMON_NET_COMMAND_SHARE), wstr("Server", `\\DC01`)), rep(2, wstr("Name", "C$"), wstr("Path", `C:\`), wstr("Remark", "Default share"), i32("Access", 0)))...))
	add(sh("NET/LOCALGROUP", agent.COMMAND_NET, fl(one(i32("Sub", agent.DEMON_NET_COMMAND_LOCALGROUP), wstr("Server", `\\DC01`)), rep(2, wstr("Group", "Administrators"), wstr("Desc", "full access")))...))
	add(sh("NET/GROUP", agent.COMMAND_NET, fl(one(i32("Sub", agent.DEMON_NET_COMMAND_GROUP), wstr("Server", `\\DC01`)), rep(2, wstr("Group", "Domain Admins"), wstr("Desc", "admins")))...))
	add(sh("NET/USERS", agent.COMMAND_NET, fl(one(i32("Sub", agent.DEMON_NET_COMMAND_USERS), wstr("Server", `\\DC01`)), rep(2, wstr("User", "alice"), i32("Admin", 1)))...))

	// --- COMMAND_PIVOT -------------------------------------------------------------------------------------------
	add(sh("PIVOT/LIST", agent.COMMAND_PIVOT, fl(one(i32("Sub", agent.DEMON_PIVOT_LIST)), rep(2, i32("DemonID", idB), wstr("Pipe", `\\.\pipe\x`)))...).tag("pivot"))
	add(sh("PIVOT/SMB_CONNECT/new", agent.COMMAND_PIVOT, i32("Sub", agent.DEMON_PIVOT_SMB_CONNECT), i32("Success", 1), inner("Package", &Inner{From: RefD, Register: true})).req(ReqZero).tag("pivot"))
	add(sh("PIVOT/SMB_CONNECT/child", agent.COMMAND_PIVOT, i32("Sub", agent.DEMON_PIVOT_SMB_CONNECT), i32("Success", 1), inner("Package", &Inner{From: RefB, Register: true})).req(ReqZero).tag("pivot"))
	add(sh("PIVOT/SMB_CONNECT/failed", agent.COMMAND_PIVOT, i32("Sub", agent.DEMON_PIVOT_SMB_CONNECT), i32("Success", 0), i32("Error", 2)).req(ReqZero).tag("pivot"))
	add(sh("PIVOT/SMB_DISCONNECT", agent.COMMAND_PIVOT, i32("Sub", agent.DEMON_PIVOT_SMB_DISCONNECT), i32("Success", 1), i32("AgentID", idB)).req(ReqZero).tag("pivot"))
	add(sh("PIVOT/SMB_COMMAND", agent.COMMAND_PIVOT, i32("Sub", agent.DEMON_PIVOT_SMB_COMMAND), inner("Package", &Inner{From: RefB, Sub: sh("OUTPUT", agent.COMMAND_OUTPUT, str("Output", "from the child"))})).req(ReqZero).tag("pivot"))
	add(sh("PIVOT/SMB_COMMAND/nested", agent.COMMAND_PIVOT, i32("Sub", agent.DEMON_PIVOT_SMB_COMMAND), inner("Package", &Inner{From: RefB,
		Sub: sh("PIVOT/SMB_COMMAND", agent.COMMAND_PIVOT, i32("Sub", agent.DEMON_PIVOT_SMB_COMMAND), inner("Package", &Inner{From: RefC, Sub: sh("OUTPUT", agent.COMMAND_OUTPUT, str("Output", "from the grandchild"))})).req(ReqZero)})).req(ReqZero).tag("pivot"))

	// --- COMMAND_TRANSFER -------------------------------------------------------------------------------------------
	add(sh("TRANSFER/LIST", agent.COMMAND_TRANSFER, fl(one(i32("Sub", agent.DEMON_COMMAND_TRANSFER_LIST)), one(i32("FileID", fileOpen), i32("Size", 512), i32("State", 1)), one(i32("FileID", fileBof), i32("Size", 0), i32("State", 2)))...).tag("dl"))
	add(sh("TRANSFER/STOP", agent.COMMAND_TRANSFER, i32("Sub", agent.DEMON_COMMAND_TRANSFER_STOP), i32("Found", 1), i32("FileID", fileOpen)).tag("dl"))
	add(sh("TRANSFER/RESUME", agent.COMMAND_TRANSFER, i32("Sub", agent.DEMON_COMMAND_TRANSFER_RESUME), i32("Found", 1), i32("FileID", fileOpen)).tag("dl"))
	add(sh("TRANSFER/REMOVE", agent.COMMAND_TRANSFER, i32("Sub", agent.DEMON_COMMAND_TRANSFER_REMOVE), i32("Found", 1), i32("FileID", fileOpen)).tag("dl"))

	// --- COMMAND_SOCKET ---------------------------------------------------------------------------------------------
	fwd := func(id uint32) []F {
		return one(i32("SocketID", id), i32("LclAddr", 0), i32("LclPort", 4444), keep(i32("FwdAddr", ipLoop)), keep(i32("FwdPort", 1)))
	}
	add(sh("SOCKET/RPORTFWD_ADD", agent.COMMAND_SOCKET, i32("Sub", agent.SOCKET_COMMAND_RPORTFWD_ADD), i32("Success", 1), i32("SocketID", sockNew), i32("LclAddr", 0), i32("LclPort", 4444), i32("FwdAddr", ipLoop), i32("FwdPort", 8080)).req(ReqZero))
	add(sh("SOCKET/RPORTFWD_LIST", agent.COMMAND_SOCKET, fl(one(i32("Sub", agent.SOCKET_COMMAND_RPORTFWD_LIST)), rep(2, i32("SocketID", sockFwd), i32("LclAddr", 0), i32("LclPort", 4444), i32("FwdAddr", ipLoop), i32("FwdPort", 8080)))...).req(ReqZero))
	add(sh("SOCKET/RPORTFWD_REMOVE", agent.COMMAND_SOCKET, i32("Sub", agent.SOCKET_COMMAND_RPORTFWD_REMOVE), i32("SocketID", sockFwd), i32("Type", agent.SOCKET_TYPE_REVERSE_PORTFWD), i32("LclAddr", 0), i32("LclPort", 4444), i32("FwdAddr", ipLoop), i32("FwdPort", 8080)).req(ReqZero))
	add(sh("SOCKET/RPORTFWD_CLEAR", agent.COMMAND_SOCKET, i32("Sub", agent.SOCKET_COMMAND_RPORTFWD_CLEAR), i32("Success", 1)).req(ReqZero))
	add(sh("SOCKET/SOCKSPROXY_ADD", agent.COMMAND_SOCKET, i32("Sub", agent.SOCKET_COMMAND_SOCKSPROXY_ADD)).req(ReqZero))
	add(sh("SOCKET/OPEN", agent.COMMAND_SOCKET, fl(one(i32("Sub", agent.SOCKET_COMMAND_OPEN)), fwd(sockNew))...).req(ReqZero))
	add(sh("SOCKET/READ/rportfwd", agent.COMMAND_SOCKET, i32("Sub", agent.SOCKET_COMMAND_READ), i32("SocketID", sockFwd), i32("Type", agent.SOCKET_TYPE_CLIENT), i32("Success", 1), byts("Data", []byte("GET / HTTP/1.0\r\n\r\n"))).req(ReqZero))
	add(sh("SOCKET/OPEN+READ", agent.COMMAND_SOCKET, i32("Sub", agent.SOCKET_COMMAND_READ), i32("SocketID", sockNew), i32("Type", agent.SOCKET_TYPE_CLIENT), i32("Success", 1), byts("Data", []byte("GET / HTTP/1.0\r\n\r\n"))).req(ReqZero).
		before(sh("SOCKET/OPEN", agent.COMMAND_SOCKET, fl(one(i32("Sub", agent.SOCKET_COMMAND_OPEN)), fwd(sockNew))...).req(ReqZero)))
	add(sh("SOCKET/READ/proxy", agent.COMMAND_SOCKET, i32("Sub", agent.SOCKET_COMMAND_READ), i32("SocketID", sockProxy), i32("Type", agent.SOCKET_TYPE_REVERSE_PROXY), i32("Success", 1), byts("Data", []byte("proxied bytes"))).req(ReqZero))
	add(sh("SOCKET/READ/failed", agent.COMMAND_SOCKET, i32("Sub", agent.SOCKET_COMMAND_READ), i32("SocketID", sockProxy), i32("Type", agent.SOCKET_TYPE_REVERSE_PROXY), i32("Success", 0), i32("Error", 10054)).req(ReqZero))
	add(sh("SOCKET/WRITE/failed", agent.COMMAND_SOCKET, i32("Sub", agent.SOCKET_COMMAND_WRITE), i32("SocketID", sockProxy), i32("Type", agent.SOCKET_TYPE_REVERSE_PROXY), i32("Success", 0), i32("Error", 10054)).req(ReqZero))
	add(sh("SOCKET/WRITE/ok", agent.COMMAND_SOCKET, i32("Sub", agent.SOCKET_COMMAND_WRITE), i32("SocketID", sockProxy), i32("Type", agent.SOCKET_TYPE_REVERSE_PROXY), i32("Success", 1)).req(ReqZero))
	add(sh("SOCKET/CLOSE", agent.COMMAND_SOCKET, i32("Sub", agent.SOCKET_COMMAND_CLOSE), i32("SocketID", sockProxy), i32("Type", agent.SOCKET_TYPE_REVERSE_PROXY)).req(ReqZero))
	add(sh("SOCKET/CONNECT/ok", agent.COMMAND_SOCKET, i32("Sub", agent.SOCKET_COMMAND_CONNECT), i32("Success", 1), i32("SocketID", sockProxy), i32("Error", 0)).req(ReqZero))
	add(sh("SOCKET/CONNECT/failed", agent.COMMAND_SOCKET, i32("Sub", agent.SOCKET_COMMAND_CONNECT), i32("Success", 0), i32("SocketID", sockProxy), i32("Error", 10061)).req(ReqZero))

	// --- COMMAND_KERBEROS -----------------------------------------------------------------------------------------------
	sess := one(wstr("UserName", "alice"), wstr("Domain", "DOM"), i32("LogonIdLow", 0x3e7), i32("LogonIdHigh", 0), i32("Session", 1), wstr("UserSID", "S-1-5-21-1-2-3-1104"),
		i32("LogonTimeLow", 0xd53e8000), i32("LogonTimeHigh", 0x01db1ded), i32("LogonType", 2), wstr("AuthPackage", "Kerberos"), wstr("LogonServer", "DC01"), wstr("LogonServerDNSDomain", "CORP.LOCAL"), wstr("Upn", "alice@corp.local"))
	tick := one(wstr("ClientName", "alice"), wstr("ClientRealm", "CORP.LOCAL"), wstr("ServerName", "krbtgt/CORP.LOCAL"), wstr("ServerRealm", "CORP.LOCAL"),
		i32("StartLow", 0xd53e8000), i32("StartHigh", 0x01db1ded), i32("EndLow", 0xd53e8000), i32("EndHigh", 0x01db1dee), i32("RenewLow", 0xd53e8000), i32("RenewHigh", 0x01db1def),
		i32("EncType", 18), i32("Flags", 0x40e10000), byts("Ticket", []byte{0x61, 0x82, 0x01, 0x02, 0x03}))
	add(sh("KERBEROS/LUID", agent.COMMAND_KERBEROS, i32("Sub", agent.KERBEROS_COMMAND_LUID), i32("Success", 1), i32("High", 0), i32("Low", 0x3e7)))
	add(sh("KERBEROS/LUID/failed", agent.COMMAND_KERBEROS, i32("Sub", agent.KERBEROS_COMMAND_LUID), i32("Success", 0)))
	add(sh("KERBEROS/KLIST", agent.COMMAND_KERBEROS, fl(one(i32("Sub", agent.KERBEROS_COMMAND_KLIST), i32("Success", 1), i32("NumSessions", 1)), sess, one(i32("NumTickets", 1)), tick)...))
	add(sh("KERBEROS/KLIST/failed", agent.COMMAND_KERBEROS, i32("Sub", agent.KERBEROS_COMMAND_KLIST), i32("Success", 0)))
	add(sh("KERBEROS/PURGE", agent.COMMAND_KERBEROS, i32("Sub", agent.KERBEROS_COMMAND_PURGE), i32("Success", 1)))
	add(sh("KERBEROS/PTT", agent.COMMAND_KERBEROS, i32("Sub", agent.KERBEROS_COMMAND_PTT), i32("Success", 1)))

	// --- the rest --------------------------------------------------------------------------------------------------------
	add(sh("MEM_FILE", agent.COMMAND_MEM_FILE, i32("MemFileID", 0x1234), i32("Success", 1)))
	add(sh("PACKAGE_DROPPED", agent.COMMAND_PACKAGE_DROPPED, i32("PkgLength", 0x4000000), i32("MaxLength", 0x1e00000)))
	add(sh("EXCEPTION(0x98)", agent.COMMAND_EXCEPTION, i32("Exception", 0xC0000005), i64("Address", 0x7ff6deadbeef)))
	add(sh("SYMBOL_NOT_FOUND(0x99)", agent.COMMAND_SYMBOL_NOT_FOUND, str("Symbol", "KERNEL32$Nope")))
	add(sh("NOJOB-as-callback", agent.COMMAND_NOJOB))
	add(sh("PS_IMPORT", agent.COMMAND_PS_IMPORT, str("Output", "imported")))
	add(sh("unknown-command", 0x7777, byts("Blob", []byte{1, 2, 3, 4, 5, 6, 7, 8})))
	return t
}
