package c01

import (
	"encoding/base64"
	"net/http/httptest"
	"strings"
	"time"

	"github.com/gorilla/websocket"

	"verifmc/seam"
)

// svcStub is a live third-party service client (the python "havoc-py" side of the
// service API): it connects to the teamserver's service endpoint over a loopback
// websocket, authenticates, registers one agent type with magic value
// magicThirdParty and answers every AgentResponse request with a fixed reply, so that
// "registered third-party traffic" has somewhere to go.
type svcStub struct {
	srv  *httptest.Server
	conn *websocket.Conn
}

var thirdPartyReply = []byte("third-party-reply")

func startSvcStub(ts *seam.TS) *svcStub {
	ts.T.Service.Start()
	s := &svcStub{srv: httptest.NewServer(ts.T.Server.Engine)}
	url := "ws" + strings.TrimPrefix(s.srv.URL, "http") + "/" + ts.T.Service.Config.Endpoint
	c, _, err := websocket.DefaultDialer.Dial(url, nil)
	must(err == nil, "service stub: dial %s: %v", url, err)
	s.conn = c
	must(c.WriteJSON(map[string]any{"Head": map[string]any{"Type": "Register"}, "Body": map[string]any{"Password": ts.T.Service.Config.Password}}) == nil, "service stub: auth write")
	var auth map[string]map[string]any
	must(c.ReadJSON(&auth) == nil && auth["Body"]["Success"] == true, "service stub: authentication refused: %v", auth)
	must(c.WriteJSON(map[string]any{"Head": map[string]any{"Type": "RegisterAgent"}, "Body": map[string]any{"Agent": map[string]any{
		"Name": "stub", "MagicValue": "0x41424344", "Author": "verif", "Description": "stub", "SupportedOS": []string{"linux"},
		"Formats": []any{}, "Commands": []any{}, "BuildingConfig": map[string]any{}}}}) == nil, "service stub: register write")
	// a second agent type whose magic value is spelled with upper-case hex digits (a service
	// written by hand, not with Python's hex()): whatever the teamserver makes of the
	// spelling, traffic carrying that value must end in a reply or the decoy 404
	must(c.WriteJSON(map[string]any{"Head": map[string]any{"Type": "RegisterAgent"}, "Body": map[string]any{"Agent": map[string]any{
		"Name": "stub-upper", "MagicValue": "0x4D59C0DE", "Author": "verif", "Description": "stub", "SupportedOS": []string{"linux"},
		"Formats": []any{}, "Commands": []any{}, "BuildingConfig": map[string]any{}}}}) == nil, "service stub: register write (upper)")
	go func() {
		for {
			var m map[string]map[string]any
			if err := c.ReadJSON(&m); err != nil {
				return
			}
			if m["Body"]["Type"] == "AgentResponse" {
				c.WriteJSON(map[string]any{"Head": map[string]any{"Type": "Agent"}, "Body": map[string]any{
					"Type": "AgentResponse", "RandID": m["Body"]["RandID"], "Response": base64.StdEncoding.EncodeToString(thirdPartyReply)}})
			}
		}
	}()
	deadline := time.Now().Add(10 * time.Second)
	for len(ts.T.Service.Agents) < 2 {
		must(time.Now().Before(deadline), "service stub: agent type was not registered")
		time.Sleep(time.Millisecond)
	}
	return s
}

func (s *svcStub) close() {
	s.conn.Close()
	s.srv.Close()
}
