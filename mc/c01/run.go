package c01

import (
	"encoding/binary"
	"encoding/hex"
	"fmt"
	"os"
	"sort"
	"strings"
	"time"

	"Havoc/pkg/agent"

	"verifmc/demonwire"
	"verifmc/ev"
	"verifmc/explore"
	"verifmc/par"
	"verifmc/seam"
)

// unit is the shard granule: one state x one sender mode x one shape (or a raw-body set).
type unit struct {
	st       State
	plan     Plan
	kind     string // "tree" (deviation tree over one shape), "raw" (raw byte strings), "ext" (External.Request)
	bound    int
	estimate int
}

func (u unit) name() string {
	n := u.st.String() + "/" + u.kind
	if u.plan.Shape != nil {
		n += "/" + u.plan.Shape.Name
	}
	if u.plan.Relayed != 0 {
		n += "/relayed"
	}
	return n
}

func hasTag(s *Shape, t string) bool { return strings.Contains(s.Tags, " "+t) }

// external subset: one shape per parsing style
var extSubset = map[string]bool{"INIT/register": true, "INIT/reconnect": true, "CHECKIN": true, "SLEEP": true, "FS/DIR/listonly": true, "FS/DOWNLOAD/open": true,
	"BEACON_OUTPUT/FILE": true, "PROC_LIST/console": true, "PIVOT/SMB_CONNECT/new": true, "PIVOT/SMB_COMMAND": true, "SOCKET/READ/proxy": true, "KERBEROS/KLIST": true, "EXIT/thread": true}

func units(thorough bool) []unit {
	shapes := Shapes()
	var us []unit
	for st := S0; st < nStates; st++ {
		bound := 1
		if thorough {
			bound = 2
			if st == S0 || st == S6 {
				bound = 1 // every packet is rejected before its fields are looked at (S0) / same code as S1 (S6)
			}
		}
		for _, s := range shapes {
			est := estimate(s, bound)
			if st == S4 {
				// every callback relayed for the pivot child B; pivot and exit shapes also directly from A
				if !s.Init && !s.ThirdParty {
					us = append(us, unit{st: st, plan: Plan{Shape: s, Sender: idA, Relayed: idB}, kind: "tree", bound: bound, estimate: est * 2})
				}
				if s.Init || s.ThirdParty || hasTag(s, "pivot") || hasTag(s, "died") {
					us = append(us, unit{st: st, plan: Plan{Shape: s, Sender: idA}, kind: "tree", bound: bound, estimate: est})
				}
				continue
			}
			us = append(us, unit{st: st, plan: Plan{Shape: s, Sender: idA}, kind: "tree", bound: bound, estimate: est})
			if extSubset[s.Name] && (st == S0 || st == S2 || st == S6) {
				us = append(us, unit{st: st, plan: Plan{Shape: s, Sender: idA}, kind: "ext", bound: 1, estimate: estimate(s, 1)})
			}
		}
		us = append(us, unit{st: st, kind: "raw", estimate: 400})
	}
	return us
}

func estimate(s *Shape, bound int) int {
	n := 40 + 8*len(s.F)
	for _, b := range s.Before {
		n += 8 * len(b.F)
	}
	for _, f := range s.F {
		if f.K == KInner {
			n += 150
		}
	}
	n += 100 // truncations
	if bound >= 2 {
		return n * n / 3
	}
	return n
}

// shard assigns units to workers: largest estimate first onto the least loaded worker
// (deterministic).
func shard(us []unit, i, n int) []unit {
	idx := make([]int, len(us))
	for k := range idx {
		idx[k] = k
	}
	sort.SliceStable(idx, func(a, b int) bool { return us[idx[a]].estimate > us[idx[b]].estimate })
	load := make([]int, n)
	var mine []int
	for _, k := range idx {
		w := 0
		for j := 1; j < n; j++ {
			if load[j] < load[w] {
				w = j
			}
		}
		load[w] += us[k].estimate
		if w == i {
			mine = append(mine, k)
		}
	}
	sort.Ints(mine) // run in table order: units of one state stay adjacent (world reuse)
	out := make([]unit, 0, len(mine))
	for _, k := range mine {
		out = append(out, us[k])
	}
	return out
}

// ---------------------------------------------------------------------------------------

// runner executes units inside an executor process (supervise.go starts it and watches it).
type runner struct {
	r        *ev.Run
	job      execJob
	worlds   map[State]*world
	deadline time.Time
	execs    int64
	unitIdx  int
	inUnit   int
	cur      *os.File
	capped   []string // units cut short by the internal deadline
}

func (x *runner) world(st State) *world {
	if w, ok := x.worlds[st]; ok {
		return w
	}
	// one live world at a time keeps the temp roots and sqlite handles few
	for k, w := range x.worlds {
		w.close()
		delete(x.worlds, k)
	}
	w := newWorld(st)
	x.worlds[st] = w
	return w
}

type caseInfo struct {
	State      string   `json:"state"`
	Endpoint   string   `json:"endpoint"`
	Shape      string   `json:"shape,omitempty"`
	Relayed    bool     `json:"relayed_through_pivot,omitempty"`
	Deviations []string `json:"deviations"`
	Choices    []int    `json:"choices,omitempty"`
	Body       string   `json:"request_body_hex"`
}

// classify says whether the statement's last sentence applies: the request is neither
// valid Demon traffic of a registered or registering agent nor registered third-party
// traffic.  Decided from the bytes and the state alone (not from what the server did).
func classify(w *world, body []byte) (notValid bool, magic uint32) {
	if len(body) < 20 {
		return true, 0
	}
	magic = binary.BigEndian.Uint32(body[4:])
	id := binary.BigEndian.Uint32(body[8:])
	cmd := binary.BigEndian.Uint32(body[12:])
	if magic == magicThirdParty && w.st == S5 {
		return false, magic
	}
	if magic != magicDemon {
		return true, magic
	}
	if w.known[id] {
		return false, magic
	}
	return cmd != agent.DEMON_INIT, magic
}

// exec sends one request and applies the oracle.
func (x *runner) exec(w *world, endpoint string, body []byte, info caseInfo) {
	x.inUnit++
	key := fmt.Sprintf("%d:%d", x.unitIdx, x.inUnit)
	if x.job.Skip[key] {
		return // reported by the supervisor: this request killed or wedged an earlier executor
	}
	info.State, info.Endpoint = w.st.String(), endpoint
	if len(body) <= 4096 {
		info.Body = hex.EncodeToString(body)
	} else {
		info.Body = hex.EncodeToString(body[:4096]) + "…"
	}
	if dryRun {
		x.execs++
		x.r.Eval(1)
		return
	}
	x.mark(key, phaseRequest, info)
	w.ts.Rec.Take() // whatever restoring the base state recorded is not this request's doing
	var res seam.Result
	if endpoint == "external" {
		res = serveExternal(w, body)
	} else {
		res = servePost(w.ts, body, endpoint == "http-chunked")
	}
	x.execs++
	x.r.Eval(1)
	effects := w.ts.Rec.Take()
	w.ts.T.EventsList = nil

	if res.Panic != nil {
		msg := fmt.Sprint(res.Panic)
		x.r.Outcome(w.st.String() + "/panic")
		x.r.Violate("panic/"+res.Stack+"/"+ev.Normalize(msg), fmt.Sprintf("handling of a request on the %s endpoint panicked in %s: %s", endpoint, res.Stack, msg), info)
		w.clean(fingerprint{}, true)
		return
	}
	invalid, magic := classify(w, body)
	x.r.Outcome(fmt.Sprintf("%s/%s/%d/%s", w.st, endpoint, res.Status, effectClass(effects)))

	// (c) protocol reply or decoy 404
	switch res.Status {
	case 404:
	case 200:
		if magic == magicDemon && len(res.Body) != 4 {
			if _, err := demonwire.ReadTasks(res.Body, make([]byte, 32), make([]byte, 16)); err != nil || len(res.Body) < 12 {
				x.r.Violate("reply/not-a-task-stream", fmt.Sprintf("HTTP 200 whose %d-byte body is neither the 4-byte init acknowledgement nor a [cmd][id][len][data]* task stream", len(res.Body)), info)
			}
		}
	default:
		x.r.Violate(fmt.Sprintf("status/%d", res.Status), fmt.Sprintf("reply has status %d: neither a protocol reply (200) nor the decoy 404", res.Status), info)
	}

	// (d) no mutex left held
	if held := w.locks(); len(held) > 0 {
		x.r.Violate("lock-held/"+strings.Join(held, "+"), "after the request returned, these agent mutexes are still locked: "+strings.Join(held, ", "), info)
		w.clean(fingerprint{}, true)
		return
	}

	// (e) a request that is not valid traffic leaves session table, queues and loot untouched
	cur, snap := w.fp()
	if (invalid || res.Status == 404) && snap.String() != w.snap {
		x.r.Violate("rejected-request-changed-state/"+diffClass(cur, w.base), "a request that is neither valid Demon traffic nor registered third-party traffic changed the teamserver state: "+diffText(w.snap, snap.String()), info)
	}

	// (e') traffic whose magic is neither the Demon's nor a registered third-party one must
	// not touch any session at all — not even the last-call-in bookkeeping of a session
	// whose id it happens to name (no update, no notice to operators)
	realMagic := uint32(0)
	if len(body) >= 8 {
		realMagic = binary.BigEndian.Uint32(body[4:])
	}
	if invalid && realMagic != magicDemon && !(realMagic == magicThirdParty && w.st == S5) && len(effects) > 0 {
		magic = realMagic
		x.r.Violate("rejected-request-has-effects/"+effectAll(effects), fmt.Sprintf("a request with the unregistered magic %08x was rejected (status %d) but the teamserver acted on it: %v [posted %d bytes: %x]", magic, res.Status, effects, len(body), body[:min(len(body), 24)]), info)
	}

	// no wedge: a cycle of pivot parents makes the next task for that agent loop forever
	if a := w.cycle(); a != nil {
		x.wedge(w, a, key, info)
		return
	}

	if x.r.WantSample() && len(info.Deviations) > 0 && x.execs%997 == 3 {
		x.r.Sample(map[string]any{"case": info, "status": res.Status, "effects": effectClass(effects)})
	}
	w.clean(cur, false)
}

// wedge: a cycle of pivot parents is not a violation by itself; what the statement
// forbids is the consequence — the teamserver loops without bound the next time that
// agent is tasked (Agent.AddJobToQueue → PivotAddJob walks the parent chain).  The
// executor therefore does exactly that, in-process, under the supervisor's watchdog:
// if the call does not return the supervisor kills this executor, records the
// violation and restarts the shard behind this request.  Once confirmed, further
// cycles in the same shard are reported without tasking again (each confirmation
// costs the watchdog limit).
func (x *runner) wedge(w *world, a *agent.Agent, key string, info caseInfo) {
	if x.job.WedgeKnown {
		x.r.Violate(sigWedge, whatWedge(a.NameID), info)
		w.clean(fingerprint{}, true)
		return
	}
	x.mark(key, phaseTasking+a.NameID, info)
	a.AddJobToQueue(agent.Job{Command: agent.COMMAND_SLEEP, RequestID: 0x7001, Data: []any{1, 0}})
	x.r.Outcome("pivot-cycle-but-tasking-returns")
	w.clean(fingerprint{}, true)
}

// effectAll names every recorded call kind (nothing filtered).
func effectAll(l []seam.Effect) string {
	set := map[string]bool{}
	for _, e := range l {
		set[e.Call] = true
	}
	names := make([]string, 0, len(set))
	for n := range set {
		names = append(names, n)
	}
	sort.Strings(names)
	return strings.Join(names, ",")
}

func effectClass(l []seam.Effect) string {
	set := map[string]bool{}
	for _, e := range seam.Significant(l) {
		set[e.Call] = true
	}
	names := make([]string, 0, len(set))
	for n := range set {
		names = append(names, n)
	}
	sort.Strings(names)
	return strings.Join(names, ",")
}

func diffClass(a, b fingerprint) string {
	var p []string
	if a.mem != b.mem {
		p = append(p, "sessions")
	}
	if a.db != b.db {
		p = append(p, "db")
	}
	if a.files != b.files {
		p = append(p, "loot")
	}
	if len(p) == 0 {
		return "snapshot"
	}
	return strings.Join(p, "+")
}

func diffText(a, b string) string {
	i := 0
	for i < len(a) && i < len(b) && a[i] == b[i] {
		i++
	}
	lo := i - 60
	if lo < 0 {
		lo = 0
	}
	cut := func(s string) string {
		hi := i + 120
		if hi > len(s) {
			hi = len(s)
		}
		if lo > len(s) {
			return ""
		}
		return s[lo:hi]
	}
	return fmt.Sprintf("before …%s… after …%s…", cut(a), cut(b))
}

// runTree explores one shape in one state.
func (x *runner) runTree(u unit) {
	w := x.world(u.st)
	endpoint := "http"
	if u.kind == "ext" {
		endpoint = "external"
	}
	t := explore.Tree{Bound: u.bound, Deadline: x.deadline}
	t.Run(func(c *explore.Chooser) {
		e := &enc{c: c, known: w.known, thorough: u.bound >= 2}
		body := e.packet(u.plan)
		x.exec(w, endpoint, body, caseInfo{Shape: u.plan.Shape.Name, Relayed: u.plan.Relayed != 0, Deviations: e.devs, Choices: c.Choices()})
		if endpoint == "http" && len(e.devs) == 0 {
			// the well-formed package of this shape also arrives without an announced length
			x.exec(w, "http-chunked", body, caseInfo{Shape: u.plan.Shape.Name, Relayed: u.plan.Relayed != 0, Deviations: []string{"no Content-Length (chunked)"}, Choices: c.Choices()})
		}
	})
	if t.Err != nil {
		fmt.Fprintln(os.Stderr, harnessErrorMark, u.name(), t.Err)
		os.Exit(3)
	}
	if t.Capped {
		x.capped = append(x.capped, u.name())
	}
}

var rawAlphabet = []byte{0x00, 0x01, 0x7f, 0x80, 0xff, 0xde, 0xad, 0xbe, 0xef}

// runRaw: all byte strings of length <= 2 over the alphabet, runs of one byte around the
// header lengths, and headers with every magic class followed by garbage.
func (x *runner) runRaw(u unit) {
	w := x.world(u.st)
	send := func(what string, b []byte) {
		x.exec(w, "http", b, caseInfo{Shape: "raw", Deviations: []string{what}})
		x.exec(w, "http-chunked", b, caseInfo{Shape: "raw", Deviations: []string{what}})
		if u.st == S0 || u.st == S2 || u.st == S6 {
			x.exec(w, "external", b, caseInfo{Shape: "raw", Deviations: []string{what}})
		}
	}
	send("empty", nil)
	for _, a := range rawAlphabet {
		send("1 byte", []byte{a})
		for _, b := range rawAlphabet {
			send("2 bytes", []byte{a, b})
		}
	}
	for _, a := range rawAlphabet {
		for _, n := range []int{11, 12, 13, 15, 16, 17, 19, 20, 21, 64, 68} {
			send(fmt.Sprintf("%d x %#02x", n, a), bytesOf(a, n))
		}
	}
	ids := []uint32{idA, idUnknown, 0}
	if u.st == S5 {
		ids = append(ids, idB) // B has no links, A has one
	}
	for _, magic := range []uint32{magicDemon, magicThirdParty, magicUpperCase, 0, 0xffffffff} {
		for _, id := range ids {
			for _, cmd := range []uint32{agent.COMMAND_GET_JOB, agent.DEMON_INIT, agent.COMMAND_CHECKIN, 0xffffffff} {
				for _, n := range []int{0, 1, 4, 47, 48, 49, 200} {
					send(fmt.Sprintf("header magic=%#x id=%#x cmd=%d + %d garbage bytes", magic, id, cmd, n), demonwire.Header(magic, id, cmd, 0, garbage(n)))
				}
			}
		}
	}
}

func bytesOf(b byte, n int) []byte {
	o := make([]byte, n)
	for i := range o {
		o[i] = b
	}
	return o
}

func garbage(n int) []byte {
	o := make([]byte, n)
	for i := range o {
		o[i] = byte(i*37 + 11)
	}
	return o
}

// VERIF_C01_DRY=1 only counts the requests of the tier (no request is sent).
var dryRun = os.Getenv("VERIF_C01_DRY") != ""

const harnessErrorMark = "HARNESS-ERROR:"

func Run(r *ev.Run) {
	if spec := os.Getenv(envExecutor); spec != "" {
		executor(r, spec) // does not return
	}
	thorough := r.Thorough()
	all := units(thorough)
	r.Rule = "for every state S0..S6 x every callback shape of the table (every command/sub-command of TaskDispatch, registration, reconnect; in S4 additionally relayed through the pivot parent) the choice tree of deviations from the valid packet is enumerated exhaustively up to the bound (explore.Tree): header size/magic/agent id, sub-package command/request id/length prefix, every integer -> {0,1,0x7fffffff,0x80000000,0xffffffff}, every length prefix -> {0,1,len-1,len+1,0x7fffffff,0xffffffff}, every byte string -> empty, every UTF-16 string -> odd length, nested package header (magic, id unknown/relaying sender/other agent), nested registration undecodable, a second sub-package, GET_JOB absent, truncation at every byte offset; plus raw bodies (all strings of length <= 2 over 9 bytes, byte runs, garbage behind every header class) and a subset through External.Request"
	r.Bounds["states"] = stateNames[:]
	r.Bounds["shapes"] = len(Shapes())
	r.Bounds["deviation_bound"] = map[bool]string{false: "1", true: "2 (1 in S0 and S6; with 2, a truncation combines with another deviation only at field boundaries ±1)"}[thorough]
	r.Bounds["units"] = len(all)
	r.Bounds["watchdog_s"] = int(watchdogLimit.Seconds())
	r.Assume("the sandbox has no route off the loopback interface: net.Dial of a reverse-port-forward target fails immediately (the forward address of SOCKET/OPEN is kept at 127.0.0.1:1)",
		"third-party service clients answer (the S5 stub replies to every AgentResponse request)",
		"a request is 'not valid traffic' iff it is shorter than 20 bytes, or its magic is neither 0xDEADBEEF nor a registered service magic, or its agent id is unknown and its command is not DEMON_INIT, or the listener answered 404")
	total := 17 * time.Minute
	if !thorough {
		total = 4 * time.Minute
	}
	deadline := time.Now().Add(total)
	par.Run(r, par.Workers(), total+3*time.Minute, func(i, n int, r *ev.Run) {
		supervise(r, i, n, deadline)
	})
}
