package c01

import (
	"bytes"
	"encoding/json"
	"fmt"
	"os"
	"os/exec"
	"os/signal"
	"regexp"
	"runtime"
	"runtime/debug"
	"strings"
	"syscall"
	"time"

	"verifmc/ev"
)

// A recovered panic is only one way a request can take the teamserver down.  A fatal
// runtime error (stack overflow, concurrent map write), a panic on a goroutine the
// handler spawned, or a loop that never ends cannot be survived by the process that
// runs the handler.  So the requests of a shard are executed by an *executor* process
// and watched by a *supervisor* (the par worker):
//
//   - before every request the executor writes "<unit>:<n>\n<phase>\n<case json>" to a
//     heartbeat file;
//   - after every unit it writes its partial result;
//   - if the executor dies, the supervisor reads the fatal message and the innermost
//     repository frame from its stderr, records a violation for the request named in
//     the heartbeat file, and starts a new executor at that unit which skips exactly
//     that request;
//   - if the heartbeat does not change for watchdogLimit (typical request: 0.1–3 ms),
//     the supervisor sends SIGQUIT, takes the innermost repository frame of the stuck
//     goroutine from the dump, records "does not terminate" and restarts likewise.

const (
	envExecutor   = "VERIF_C01_EXECUTOR"
	watchdogLimit = 60 * time.Second
	maxRestarts   = 400

	phaseRequest = "request"
	phaseTasking = "tasking agent " // + NameID: Agent.AddJobToQueue after a request that left a pivot-parent cycle
	phaseSetup   = "setup"

	sigWedge = "wedge/pivot-parent-cycle"
)

func whatWedge(id string) string {
	return fmt.Sprintf("after this request agent %s is its own pivot ancestor; the next task queued for it (Agent.AddJobToQueue → PivotAddJob) never returns: the goroutine that tasks the agent loops without bound", id)
}

type execJob struct {
	I, N       int
	Thorough   bool
	StartUnit  int
	Skip       map[string]bool
	SkipUnits  map[int]bool
	WedgeKnown bool
	Part       string
	Cur        string
	Deadline   time.Time
}

// executor is the body of the executor process.
func executor(r *ev.Run, spec string) {
	var job execJob
	if err := json.Unmarshal([]byte(spec), &job); err != nil {
		fmt.Fprintln(os.Stderr, harnessErrorMark, "bad executor spec:", err)
		os.Exit(3)
	}
	debug.SetMaxStack(96 << 20) // a runaway recursion dies quickly instead of eating 1 GB per worker
	usr1 := make(chan os.Signal, 4)
	signal.Notify(usr1, syscall.SIGUSR1)
	go func() { // the supervisor asks for the stacks of a stuck executor (twice: what both have in common is the loop)
		for range usr1 {
			buf := make([]byte, 4<<20)
			n := runtime.Stack(buf, true)
			os.Stderr.WriteString(stackMark + string(buf[:n]) + "\n" + stackEnd)
		}
	}()
	cur, err := os.OpenFile(job.Cur, os.O_CREATE|os.O_WRONLY|os.O_TRUNC, 0o644)
	if err != nil {
		fmt.Fprintln(os.Stderr, harnessErrorMark, err)
		os.Exit(3)
	}
	x := &runner{r: r, job: job, worlds: map[State]*world{}, deadline: job.Deadline, cur: cur}
	us := shard(units(job.Thorough), job.I, job.N)
	only := os.Getenv("VERIF_C01_ONLY")
	for ui := job.StartUnit; ui < len(us); ui++ {
		u := us[ui]
		if only != "" && !strings.Contains(u.name(), only) || job.SkipUnits[ui] {
			continue
		}
		x.unitIdx, x.inUnit = ui, 0
		x.mark(fmt.Sprintf("%d:0", ui), phaseSetup, caseInfo{State: u.st.String(), Shape: u.name()})
		before := x.execs
		switch u.kind {
		case "raw":
			x.runRaw(u)
		default:
			x.runTree(u)
		}
		if os.Getenv("VERIF_C01_DEBUG") != "" {
			fmt.Fprintf(os.Stderr, "unit %s: %d requests\n", u.name(), x.execs-before)
		}
		x.mark(fmt.Sprintf("%d:done", ui+1), phaseSetup, caseInfo{})
		if err := r.WritePartial(job.Part + ".tmp"); err != nil || os.Rename(job.Part+".tmp", job.Part) != nil {
			fmt.Fprintln(os.Stderr, harnessErrorMark, "cannot write partial result:", err)
			os.Exit(3)
		}
	}
	for _, w := range x.worlds {
		w.close()
	}
	if len(x.capped) > 0 {
		r.NotExhaustive(fmt.Sprintf("shard %d/%d: the internal deadline cut %d units short (first: %s)", job.I, job.N, len(x.capped), x.capped[0]))
	}
	if os.Getenv("VERIF_C01_DEBUG") != "" {
		r.Extra[fmt.Sprintf("debug_worker_%d_from_unit_%d", job.I, job.StartUnit)] = fmt.Sprintf("%d requests, %d in-place restores, rebuilds: %v", x.execs, restores, rebuildReasons)
	}
	if err := r.WritePartial(job.Part + ".tmp"); err != nil || os.Rename(job.Part+".tmp", job.Part) != nil {
		os.Exit(3)
	}
	os.Exit(0)
}

// mark overwrites the heartbeat file.
func (x *runner) mark(key, phase string, info caseInfo) {
	if x.cur == nil {
		return
	}
	b, _ := json.Marshal(info)
	buf := make([]byte, 0, len(key)+len(phase)+len(b)+3)
	buf = append(buf, key...)
	buf = append(buf, '\n')
	buf = append(buf, phase...)
	buf = append(buf, '\n')
	buf = append(buf, b...)
	buf = append(buf, '\n')
	x.cur.WriteAt(buf, 0)
	x.cur.Truncate(int64(len(buf)))
}

type heartbeat struct {
	key, phase string
	unit       int
	info       caseInfo
	raw        string
}

func readHeartbeat(path string) (h heartbeat, ok bool) {
	b, err := os.ReadFile(path)
	if err != nil {
		return h, false
	}
	h.raw = string(b)
	p := strings.SplitN(h.raw, "\n", 3)
	if len(p) < 3 || !strings.HasSuffix(h.raw, "\n") {
		return h, false
	}
	h.key, h.phase = p[0], p[1]
	if _, err := fmt.Sscanf(h.key, "%d:", &h.unit); err != nil {
		return h, false
	}
	if json.Unmarshal([]byte(p[2]), &h.info) != nil {
		return h, false
	}
	return h, true
}

// supervise runs shard i of n to completion, restarting the executor behind every
// request that kills or wedges it.
func supervise(r *ev.Run, i, n int, deadline time.Time) {
	dir, err := os.MkdirTemp(os.Getenv("TMPDIR"), "verif-c01-sup-")
	if err != nil {
		panic(err)
	}
	defer os.RemoveAll(dir)
	job := execJob{I: i, N: n, Thorough: r.Thorough(), Skip: map[string]bool{}, SkipUnits: map[int]bool{}, Deadline: deadline}
	repeats := map[string]int{} // executor deaths per (unit, signature)
	for restarts := 0; ; restarts++ {
		if restarts > maxRestarts {
			r.NotExhaustive(fmt.Sprintf("shard %d/%d: more than %d requests killed the executor; the rest of the shard was not explored", i, n, maxRestarts))
			return
		}
		job.Part = fmt.Sprintf("%s/part-%d.json", dir, restarts)
		job.Cur = fmt.Sprintf("%s/cur-%d", dir, restarts)
		spec, _ := json.Marshal(job)
		tmp := fmt.Sprintf("%s/tmp-%d", dir, restarts) // temp roots of a killed executor are removed with dir
		os.MkdirAll(tmp, 0o755)
		cmd := exec.Command(os.Args[0], os.Args[1:]...)
		cmd.Env = append(os.Environ(), envExecutor+"="+string(spec), "GOMAXPROCS=2", "GOTRACEBACK=all", "TMPDIR="+tmp)
		var stderr bytes.Buffer
		cmd.Stderr = &stderr
		cmd.Stdout = &stderr
		if err := cmd.Start(); err != nil {
			r.NotExhaustive(fmt.Sprintf("shard %d/%d: executor did not start: %v", i, n, err))
			return
		}
		done := make(chan error, 1)
		go func() { done <- cmd.Wait() }()
		var werr error
		hung := false
		last, lastChange := "", time.Now()
		tick := time.NewTicker(500 * time.Millisecond)
	wait:
		for {
			select {
			case werr = <-done:
				break wait
			case <-tick.C:
				b, _ := os.ReadFile(job.Cur)
				if s := string(b); s != last {
					last, lastChange = s, time.Now()
				} else if time.Since(lastChange) > watchdogLimit {
					hung = true
					for k := 0; k < 8; k++ { // eight stack dumps 0.4 s apart
						cmd.Process.Signal(syscall.SIGUSR1)
						time.Sleep(400 * time.Millisecond)
					}
					cmd.Process.Kill()
					werr = <-done
					break wait
				}
			}
		}
		tick.Stop()
		r.MergePartialFile(job.Part) // complete units of this executor (absent if it died in its first unit)
		if werr == nil && !hung {
			return
		}
		out := stderr.String()
		if strings.Contains(out, harnessErrorMark) || strings.Contains(out, "c01 harness:") {
			fmt.Fprintln(os.Stderr, tail(out, 3000))
			os.Exit(3)
		}
		h, ok := readHeartbeat(job.Cur)
		if !ok || h.phase == phaseSetup {
			// died outside any request: nothing to attribute it to
			r.Violate("executor-died-outside-a-request", fmt.Sprintf("shard %d/%d: executor died (%v) while no request was in flight (heartbeat %q)", i, n, werr, h.raw), map[string]any{"stderr_tail": tail(out, 3000)})
			r.NotExhaustive(fmt.Sprintf("shard %d/%d stopped: executor died outside a request", i, n))
			return
		}
		frame := repoFrame(out)
		if hung {
			frame = loopFrame(out)
		}
		var sig string
		switch {
		case hung && strings.HasPrefix(h.phase, phaseTasking):
			sig = sigWedge
			r.Violate(sig, whatWedge(strings.TrimPrefix(h.phase, phaseTasking))+fmt.Sprintf(" (observed: no return within %s, stuck in %s; normal: microseconds)", watchdogLimit, frame), h.info)
			job.WedgeKnown = true
		case hung:
			sig = "no-termination/" + frame
			what := fmt.Sprintf("the request did not return within %s (typical handling time is below 3 ms); the handler goroutine is in %s", watchdogLimit, frame)
			if frame == "?" {
				what += " — stack dumps: " + tail(out, 1500)
			}
			r.Violate(sig, what, h.info)
		default:
			msg := fatalMessage(out)
			sig = "crash/" + frame + "/" + ev.Normalize(msg)
			r.Violate(sig, fmt.Sprintf("the request killed the whole process (%v): %s in %s — not a recoverable panic of the handler goroutine", werr, msg, frame), h.info)
		}
		r.Outcome("executor-killed")
		job.Skip[h.key] = true
		job.StartUnit = h.unit
		rk := fmt.Sprintf("%d|%s", h.unit, sig)
		if repeats[rk]++; repeats[rk] >= 3 {
			// every further request of this unit is likely to die the same way (seconds to a minute each)
			job.SkipUnits[h.unit] = true
			r.NotExhaustive(fmt.Sprintf("unit %s abandoned after 3 requests ended in %s", h.info.State+"/"+h.info.Shape, sig))
		}
		if time.Now().After(deadline) {
			r.NotExhaustive(fmt.Sprintf("shard %d/%d: internal deadline reached after an executor restart", i, n))
			return
		}
	}
}

const (
	stackMark = "\n=== C01 STACKS ===\n"
	stackEnd  = "=== C01 END ===\n"
)

type stackFrame struct {
	fn, file string
	line     int
}

var reFrameAt = regexp.MustCompile(`(?m)^(Havoc/[^\n]+?)\([^()\n]*\)\n\t(\S+):(\d+)`)

// requestFrames lists the repository frames (innermost first) of the goroutine that runs the request.
func requestFrames(dump string) []stackFrame {
	for _, g := range strings.Split(dump, "\ngoroutine ") {
		if !strings.Contains(g, "c01.(*runner).exec") && !strings.Contains(g, "c01.(*runner).wedge") {
			continue
		}
		var fs []stackFrame
		for _, m := range reFrameAt.FindAllStringSubmatch(g, -1) {
			var line int
			fmt.Sscanf(m[3], "%d", &line)
			fs = append(fs, stackFrame{strings.TrimPrefix(strings.TrimPrefix(m[1], "Havoc/"), "pkg/"), m[2], line})
		}
		return fs
	}
	return nil
}

// loopFrame names where a request that never returns is looping: the innermost
// repository function that is on the request goroutine's stack in every dump (callees
// of the loop come and go, the looping function and its callers stay; the leaf helper
// packages common/* and logger are never the answer), with the enclosing case labels
// of the line it is at.
func loopFrame(out string) string {
	var dumps [][]stackFrame
	for _, d := range strings.Split(out, stackMark)[1:] {
		if i := strings.Index(d, stackEnd); i >= 0 {
			d = d[:i]
		}
		if fs := requestFrames(d); len(fs) > 0 {
			dumps = append(dumps, fs)
		}
	}
	if len(dumps) == 0 {
		return "?"
	}
	a := dumps[0]
	k := len(a) // length of the outermost part common to all dumps
	for _, b := range dumps[1:] {
		j := 0
		for j < len(a) && j < len(b) && a[len(a)-1-j].fn == b[len(b)-1-j].fn {
			j++
		}
		if j < k {
			k = j
		}
	}
	for i := len(a) - k; i < len(a); i++ {
		f := a[i]
		if strings.HasPrefix(f.fn, "common/") || strings.HasPrefix(f.fn, "logger.") {
			continue
		}
		if l := caseLabels(f.file, f.line); l != "" {
			return f.fn + "[" + l + "]"
		}
		return f.fn
	}
	return "?"
}

func tail(s string, n int) string {
	if len(s) > n {
		return s[len(s)-n:]
	}
	return s
}

var (
	reFatal = regexp.MustCompile(`(?m)^(fatal error: .*|panic: .*|runtime: goroutine stack exceeds .*)$`)
	reFrame = regexp.MustCompile(`(?m)^(Havoc/\S+?)\((?:0x|\.\.\.|\)|\{|\w+=)`)
)

func fatalMessage(out string) string {
	if m := reFatal.FindAllString(out, -1); len(m) > 0 {
		for _, l := range m {
			if strings.HasPrefix(l, "fatal error:") || strings.HasPrefix(l, "panic:") {
				return strings.TrimSpace(l)
			}
		}
		return strings.TrimSpace(m[0])
	}
	return "process exited without a fatal message"
}

// repoFrame returns the innermost repository function of the goroutine that was
// executing the request: in a crash trace the first goroutine printed is the faulting
// one; in a SIGQUIT dump it is the goroutine whose stack contains runner.exec.
func repoFrame(out string) string {
	var section string
	for _, g := range strings.Split(out, "\ngoroutine ") {
		if strings.Contains(g, "c01.(*runner).exec") || strings.Contains(g, "c01.(*runner).wedge") {
			section = g
			break
		}
	}
	if section == "" {
		section = out
	}
	if m := reFrame.FindStringSubmatch(section); m != nil {
		return strings.TrimPrefix(strings.TrimPrefix(m[1], "Havoc/"), "pkg/")
	}
	return "?"
}
