package c01

import (
	"encoding/hex"
	"encoding/json"
	"fmt"
	"io"
	"net"
	"os"
	"path/filepath"
	"sort"
	"strings"
	"time"

	"Havoc/pkg/agent"
	"Havoc/pkg/handlers"

	"verifmc/demonwire"
	"verifmc/seam"
)

// The fixed set of teamserver states.
type State int

const (
	S0 State = iota // no agents
	S1              // A registered
	S2              // A with outstanding request ids, a queued task, a rportfwd socket, a socks client, a BOF callback
	S3              // S2 with two open downloads
	S4              // A with pivot children B and C (linked by real SMB connect callbacks); outstanding ids on A and B; a pivot job for B queued on A
	S5              // S2 plus one pivot child of A, with a Service block and one registered third-party agent type (live service client)
	S6              // S1 with no Service block (Teamserver.Service == nil)
	nStates
)

var stateNames = [...]string{"S0-empty", "S1-registered", "S2-outstanding", "S3-downloads", "S4-pivot", "S5-third-party", "S6-no-service"}

func (s State) String() string { return stateNames[s] }

// memConn is an in-memory stand-in for the operator-side SOCKS connection.
type memConn struct{ closed bool }

type memAddr struct{}

func (memAddr) Network() string { return "mem" }
func (memAddr) String() string  { return "mem" }

func (m *memConn) Read(b []byte) (int, error) { return 0, io.EOF }
func (m *memConn) Write(b []byte) (int, error) {
	if m.closed {
		return 0, net.ErrClosed
	}
	return len(b), nil
}
func (m *memConn) Close() error                       { m.closed = true; return nil }
func (m *memConn) LocalAddr() net.Addr                { return memAddr{} }
func (m *memConn) RemoteAddr() net.Addr               { return memAddr{} }
func (m *memConn) SetDeadline(t time.Time) error      { return nil }
func (m *memConn) SetReadDeadline(t time.Time) error  { return nil }
func (m *memConn) SetWriteDeadline(t time.Time) error { return nil }

type agentSave struct {
	a          *agent.Agent
	NameID     string
	Active     bool
	Reason     string
	SessionDir string
	Tasked     bool
	Info       agent.AgentInfo
	Queue      []agent.Job
	Tasks      []agent.Job
	Bof        []agent.BofCallback
	Parent     *agent.Agent
	Links      []*agent.Agent
	Downloads  []*agent.Download
	PortFwds   []agent.PortFwd
	Socks      []agent.SocksClient
	Key, IV    []byte
}

type fingerprint struct{ mem, db, files string }

type world struct {
	st     State
	ts     *seam.TS
	ext    *handlers.External
	svc    *svcStub
	known  map[uint32]bool
	base   fingerprint
	snap   string // ts.Snap(true) of the base state
	saves  []*agentSave
	builds int
}

func newWorld(st State) *world {
	w := &world{st: st}
	w.build()
	return w
}

func (w *world) close() {
	if w.svc != nil {
		w.svc.close()
		w.svc = nil
	}
	if w.ts != nil {
		w.ts.Close()
		w.ts = nil
	}
}

func must(ok bool, format string, a ...any) {
	if !ok {
		panic("c01 harness: state construction failed: " + fmt.Sprintf(format, a...))
	}
}

func (w *world) post(body []byte) seam.Result {
	r := w.ts.Post(body)
	must(r.Panic == nil && r.Status == 200, "setup request: status=%d panic=%v", r.Status, r.Panic)
	return r
}

// outstanding makes R1, R2 and the BOF id delivered-but-unanswered on agent id (the
// check-in of `via` hands them out) and leaves R3 (a pivot-list task) queued.
func (w *world) outstanding(id, via uint32) {
	ts := w.ts
	must(ts.Task(id, fmt.Sprintf("%08x", reqR1), agent.COMMAND_SLEEP, map[string]any{"Arguments": "5;10"}) == nil, "task R1")
	must(ts.Task(id, fmt.Sprintf("%08x", reqR2), agent.COMMAND_CHECKIN, nil) == nil, "task R2")
	a := ts.Agent(id)
	a.AddJobToQueue(agent.Job{Command: agent.COMMAND_INLINEEXECUTE, RequestID: reqBof, Data: []any{}})
	a.BofCallbacks = append(a.BofCallbacks, &agent.BofCallback{TaskID: reqBof, ClientID: "no-such-client"})
	r, tasks, err := ts.CheckIn(via, keyIndex(via))
	must(r.Panic == nil && r.Status == 200 && err == nil && len(tasks) >= 3 && len(ts.Agent(via).JobQueue) == 0, "delivery check-in of %x via %x: status=%d tasks=%d err=%v panic=%v", id, via, r.Status, len(tasks), err, r.Panic)
	must(ts.Task(id, fmt.Sprintf("%08x", reqR3), agent.COMMAND_PIVOT, map[string]any{"Command": "1"}) == nil, "task R3")
	must(len(a.Tasks) == 4, "agent %x has %d outstanding tasks, want 4", id, len(a.Tasks))
	a.PortFwdNew(sockFwd, 0, 4444, int(ipLoop), 1, "127.0.0.1:1")
	// three socks clients open at once; the shapes name the OLDEST one (closing an entry
	// that is not the last of the table is the interesting case for every table here)
	a.SocksClientAdd(sockProxy, &memConn{}, 1, []byte{10, 0, 0, 9}, 80)
	a.SocksClientAdd(sockProxy+1, &memConn{}, 1, []byte{10, 0, 0, 10}, 80)
	a.SocksClientAdd(sockProxy+2, &memConn{}, 1, []byte{10, 0, 0, 11}, 80)
	// likewise a second port forward behind the one the shapes name
	a.PortFwdNew(sockFwd+1, 0, 4445, int(ipLoop), 1, "127.0.0.1:1")
}

func (w *world) link(parent, child uint32) {
	k := keyIndex(child)
	reg := demonwire.Register(child, seam.Key(k), seam.IV(k), demonwire.DefaultMeta(child))
	body := (&demonwire.W{}).I32(agent.DEMON_PIVOT_SMB_CONNECT).I32(1).Bytes(reg).B
	pk := keyIndex(parent)
	w.post(demonwire.CallbacksOnly(parent, seam.Key(pk), seam.IV(pk), demonwire.Sub{Cmd: agent.COMMAND_PIVOT, ReqID: 0, Body: body}))
	c := w.ts.Agent(child)
	must(c != nil && c.Pivots.Parent == w.ts.Agent(parent), "child %x not linked under %x", child, parent)
}

func (w *world) build() {
	w.close()
	w.builds++
	w.ts = seam.New(seam.Options{Service: w.st != S6})
	ts := w.ts
	w.ext = &handlers.External{Config: handlers.ExternalConfig{Name: "ext", Endpoint: "ext"}, Teamserver: ts.Rec}
	w.known = map[uint32]bool{}
	if w.st != S0 {
		ts.MustRegister(idA, keyIndex(idA))
		w.known[idA] = true
	}
	switch w.st {
	case S2, S3:
		w.outstanding(idA, idA)
	case S5:
		w.link(idA, idB) // a Demon session with a pivot child, next to the third-party agent type
		w.known[idB] = true
		w.outstanding(idA, idA)
	case S4:
		w.link(idA, idB)
		w.link(idA, idC)
		w.known[idB], w.known[idC] = true, true
		w.outstanding(idA, idA)
		w.outstanding(idB, idA)
		// a second hop: E behind B, and a task for E that waits in A's queue wrapped once per
		// hop (what a check-in of A has to serialise is part of the state)
		w.link(idB, idE)
		w.known[idE] = true
		must(ts.Task(idE, "0000e0e0", agent.COMMAND_SLEEP, map[string]any{"Arguments": "7;1"}) == nil, "task for E")
	}
	if w.st == S3 {
		// the port forward the shapes name has carried data: it holds an open connection to
		// its target (in the other states it has none, and the target refuses the dial)
		ts.Agent(idA).PortFwds[0].Conn = &memConn{}
		k := keyIndex(idA)
		open := (&demonwire.W{}).I32(agent.DEMON_COMMAND_FS_DOWNLOAD).I32(0).I32(fileOpen).I64(4096).WStr(`C:\Users\x\secret.txt`).B
		bof := (&demonwire.W{}).I32(agent.CALLBACK_FILE).Bytes(cat(be32(fileBof), be32(0), []byte("bof.bin"))).B // announced size 0: an empty file is a file (and a divisor)
		w.post(demonwire.CallbacksOnly(idA, seam.Key(k), seam.IV(k),
			demonwire.Sub{Cmd: agent.COMMAND_FS, ReqID: reqR1, Body: open},
			demonwire.Sub{Cmd: agent.BEACON_OUTPUT, ReqID: reqR1, Body: bof}))
		must(len(ts.Agent(idA).Downloads) == 2, "S3: %d downloads open, want 2", len(ts.Agent(idA).Downloads))
		// a third download whose local file sits on a full device (environment fault: the file
		// can be created, every write fails with ENOSPC): its chunks must be answered, not retried for ever
		if _, err := os.Stat("/dev/full"); err == nil {
			full := (&demonwire.W{}).I32(agent.DEMON_COMMAND_FS_DOWNLOAD).I32(0).I32(fileFull).I64(4096).WStr(`C:\Users\x\full.bin`).B
			w.post(demonwire.CallbacksOnly(idA, seam.Key(k), seam.IV(k), demonwire.Sub{Cmd: agent.COMMAND_FS, ReqID: reqR1, Body: full}))
			for _, d := range ts.Agent(idA).Downloads {
				if d.FileID == fileFull {
					d.File.Close()
					os.Remove(d.LocalFile)
					must(os.Symlink("/dev/full", d.LocalFile) == nil, "S3: cannot link %s to /dev/full", d.LocalFile)
					f, err := os.OpenFile(d.LocalFile, os.O_WRONLY, 0)
					must(err == nil, "S3: cannot open the full device: %v", err)
					d.File = f
				}
			}
			must(len(ts.Agent(idA).Downloads) == 3, "S3: %d downloads open, want 3", len(ts.Agent(idA).Downloads))
		}
	}
	if w.st == S5 {
		w.svc = startSvcStub(ts)
	}
	ts.T.EventsList = nil
	ts.Rec.Take()
	w.saves = nil
	for _, a := range ts.T.Agents.Agents {
		w.saves = append(w.saves, saveAgent(a))
	}
	var s seam.Snapshot
	w.base, s = w.fp()
	w.snap = s.String()
}

func saveAgent(a *agent.Agent) *agentSave {
	s := &agentSave{a: a, NameID: a.NameID, Active: a.Active, Reason: a.Reason, SessionDir: a.SessionDir, Tasked: a.TaskedOnce,
		Info: *a.Info, Queue: append([]agent.Job(nil), a.JobQueue...), Tasks: append([]agent.Job(nil), a.Tasks...),
		Parent: a.Pivots.Parent, Links: append([]*agent.Agent(nil), a.Pivots.Links...), Downloads: append([]*agent.Download(nil), a.Downloads...),
		Key: append([]byte(nil), a.Encryption.AESKey...), IV: append([]byte(nil), a.Encryption.AESIv...)}
	for _, b := range a.BofCallbacks {
		s.Bof = append(s.Bof, *b)
	}
	for _, p := range a.PortFwds {
		s.PortFwds = append(s.PortFwds, *p)
	}
	for _, c := range a.SocksCli {
		s.Socks = append(s.Socks, *c)
	}
	return s
}

func (s *agentSave) apply() {
	a := s.a
	a.NameID, a.Active, a.Reason, a.SessionDir, a.TaskedOnce = s.NameID, s.Active, s.Reason, s.SessionDir, s.Tasked
	*a.Info = s.Info
	a.JobQueue = append([]agent.Job(nil), s.Queue...)
	a.Tasks = append([]agent.Job(nil), s.Tasks...)
	a.BofCallbacks = nil
	for i := range s.Bof {
		b := s.Bof[i]
		a.BofCallbacks = append(a.BofCallbacks, &b)
	}
	a.Pivots.Parent = s.Parent
	a.Pivots.Links = append([]*agent.Agent(nil), s.Links...)
	a.PortFwds = nil
	for i := range s.PortFwds {
		p := s.PortFwds[i]
		if p.Conn != nil {
			p.Conn = &memConn{} // a forward that has carried data holds an open connection to its target
		}
		a.PortFwds = append(a.PortFwds, &p)
	}
	a.SocksCli = nil
	for i := range s.Socks {
		c := s.Socks[i]
		c.Conn = &memConn{}
		a.SocksCli = append(a.SocksCli, &c)
	}
	a.Encryption.AESKey = append([]byte(nil), s.Key...)
	a.Encryption.AESIv = append([]byte(nil), s.IV...)
}

// fp is the canonical snapshot (seam.Snap: session table, queues, tasks, downloads,
// pivot links, database rows, listing of the loot tree) plus the in-memory details the
// harness needs to know that the state is exactly the base state again.
func (w *world) fp() (fingerprint, seam.Snapshot) {
	s := w.ts.Snap(true)
	var b strings.Builder
	for i, a := range w.ts.T.Agents.Agents {
		as, _ := json.Marshal(s.Agents[i])
		b.Write(as)
		fmt.Fprintf(&b, "|key=%s iv=%s dir=%s tasked=%v|", hex.EncodeToString(a.Encryption.AESKey), hex.EncodeToString(a.Encryption.AESIv), a.SessionDir, a.TaskedOnce)
		for _, j := range a.Tasks {
			fmt.Fprintf(&b, "T%d/%x/%s;", j.Command, j.RequestID, j.TaskID)
		}
		for _, c := range a.BofCallbacks {
			fmt.Fprintf(&b, "B%x/%q/%q;", c.TaskID, c.Output, c.Error)
		}
		for _, p := range a.PortFwds {
			fmt.Fprintf(&b, "P%x/%s/%v;", p.SocktID, p.Target, p.Conn != nil)
		}
		for _, c := range a.SocksCli {
			fmt.Fprintf(&b, "S%x/%v;", c.SocketID, c.Connected)
		}
		for _, d := range a.Downloads {
			fmt.Fprintf(&b, "D%x/%d/%d;", d.FileID, d.TotalSize, d.Progress)
		}
		b.WriteByte('\n')
	}
	db, _ := json.Marshal(s.DB)
	return fingerprint{mem: b.String(), db: string(db), files: strings.Join(s.Files, "\n")}, s
}

// clean brings the world back to the base state after a request: in place when only
// memory and agent rows changed, otherwise by rebuilding it from scratch.
func (w *world) clean(cur fingerprint, force bool) {
	if !force && cur == w.base {
		return
	}
	rebuild := func(why string) {
		rebuildReasons[why]++
		w.build()
	}
	if force {
		rebuild("forced (panic / lock held / cycle)")
		return
	}
	if cur.files != w.base.files && !w.restoreFiles(cur.files) {
		rebuild("loot tree changed")
		return
	}
	if len(w.ts.T.Agents.Agents) != len(w.saves) {
		rebuild("session added")
		return
	}
	for i, s := range w.saves {
		if w.ts.T.Agents.Agents[i] != s.a || len(s.a.Downloads) != len(s.Downloads) {
			rebuild("downloads changed")
			return
		}
		for j := range s.Downloads {
			if s.a.Downloads[j] != s.Downloads[j] {
				rebuild("downloads changed")
				return
			}
		}
	}
	for _, s := range w.saves {
		s.apply()
	}
	if cur.db != w.base.db {
		for _, s := range w.saves {
			w.ts.T.AgentUpdate(s.a)
		}
	}
	if now, _ := w.fp(); now != w.base {
		if os.Getenv("VERIF_C01_DEBUG") != "" && rebuildReasons["in-place restore incomplete"] < 3 {
			fmt.Fprintf(os.Stderr, "restore incomplete:\n base %v\n now  %v\n", w.base, now)
		}
		rebuild("in-place restore incomplete")
		return
	}
	restores++
}

var (
	rebuildReasons = map[string]int{}
	restores       int
)

// restoreFiles undoes what a request appended to the loot tree when that is possible
// without touching an open download: grown log files are cut back, new files and
// directories are removed.
func (w *world) restoreFiles(now string) bool {
	parse := func(list string) map[string]int64 {
		m := map[string]int64{}
		for _, l := range strings.Split(list, "\n") {
			if l == "" {
				continue
			}
			if strings.HasSuffix(l, "/") {
				m[l] = -1
				continue
			}
			i := strings.LastIndex(l, " [")
			var n int64
			fmt.Sscanf(l[i+2:], "%d]", &n)
			m[l[:i]] = n
		}
		return m
	}
	base, cur := parse(w.base.files), parse(now)
	for p := range base {
		if _, ok := cur[p]; !ok {
			return false
		}
	}
	var extra []string
	for p, n := range cur {
		b, ok := base[p]
		switch {
		case !ok:
			extra = append(extra, p)
		case n == b:
		case strings.Contains(p, "/Download/") || n < b:
			return false
		default:
			if os.Truncate(filepath.Join(w.ts.Root, p), b) != nil {
				return false
			}
		}
	}
	sort.Sort(sort.Reverse(sort.StringSlice(extra))) // children before their directories
	for _, p := range extra {
		if strings.Contains(p, "/Download/") {
			return false
		}
		if os.Remove(filepath.Join(w.ts.Root, p)) != nil {
			return false
		}
	}
	return true
}

// locks tries every per-agent mutex; a mutex that cannot be taken is still held by the
// request that just returned.
func (w *world) locks() []string {
	var held []string
	for _, a := range w.ts.T.Agents.Agents {
		for _, m := range []struct {
			n string
			f func() bool
			u func()
		}{
			{"JobsMtx", a.JobsMtx.TryLock, a.JobsMtx.Unlock},
			{"PortFwdsMtx", a.PortFwdsMtx.TryLock, a.PortFwdsMtx.Unlock},
			{"SocksCliMtx", a.SocksCliMtx.TryLock, a.SocksCliMtx.Unlock},
			{"SocksSvrMtx", a.SocksSvrMtx.TryLock, a.SocksSvrMtx.Unlock},
		} {
			if m.f() {
				m.u()
			} else {
				held = append(held, m.n)
			}
		}
	}
	return held
}

// cycle reports an agent whose chain of pivot parents never ends.
func (w *world) cycle() *agent.Agent {
	n := len(w.ts.T.Agents.Agents)
	for _, a := range w.ts.T.Agents.Agents {
		p := a
		for i := 0; p != nil; i++ {
			if i > n {
				return a
			}
			p = p.Pivots.Parent
		}
	}
	return nil
}
