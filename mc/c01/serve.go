package c01

import (
	"bufio"
	"bytes"
	"io"
	"net/http/httptest"
	"os"
	"regexp"
	"runtime"
	"strings"

	"github.com/gin-gonic/gin"

	"verifmc/seam"
)

// The seam's Serve/External report the innermost repository function of a panic.
// TaskDispatch is one 4000-line function, so "panicked in TaskDispatch" would merge
// unrelated defects into one signature.  These two wrappers are the same calls with a
// recover that also names the enclosing `case` labels of the panicking line (labels,
// not line numbers: the signature survives edits elsewhere in the file).

func panicSite() string {
	pc := make([]uintptr, 64)
	n := runtime.Callers(3, pc)
	fr := runtime.CallersFrames(pc[:n])
	for {
		f, more := fr.Next()
		if strings.HasPrefix(f.Function, "Havoc/") {
			fn := strings.TrimPrefix(strings.TrimPrefix(f.Function, "Havoc/"), "pkg/")
			if l := caseLabels(f.File, f.Line); l != "" {
				fn += "[" + l + "]"
			}
			return fn
		}
		if !more {
			return "?"
		}
	}
}

var (
	srcCache = map[string][]string{}
	reCase   = regexp.MustCompile(`^\s*case\s+(.+?):\s*(//.*|/\*.*)?$`)
)

func indentOf(s string) int {
	n := 0
	for _, c := range s {
		switch c {
		case '\t':
			n += 8 - n%8
		case ' ':
			n++
		default:
			return n
		}
	}
	return n
}

// caseLabels returns the (up to two) innermost enclosing case labels of file:line,
// outermost first, looking no further up than the start of the function.
func caseLabels(file string, line int) string {
	lines, ok := srcCache[file]
	if !ok {
		if f, err := os.Open(file); err == nil {
			sc := bufio.NewScanner(f)
			sc.Buffer(make([]byte, 1<<20), 1<<20)
			for sc.Scan() {
				lines = append(lines, sc.Text())
			}
			f.Close()
		}
		srcCache[file] = lines
	}
	if line < 1 || line > len(lines) {
		return ""
	}
	limit := indentOf(lines[line-1])
	var labels []string
	for i := line - 2; i >= 0 && len(labels) < 2; i-- {
		l := lines[i]
		if strings.HasPrefix(l, "func ") {
			break
		}
		if strings.TrimSpace(l) == "" {
			continue
		}
		if m := reCase.FindStringSubmatch(l); m != nil && indentOf(l) < limit {
			labels = append([]string{strings.TrimSpace(m[1])}, labels...)
			limit = indentOf(l)
		}
	}
	return strings.Join(labels, ">")
}

// servePost delivers body as a POST; with chunked the request announces no length
// (Transfer-Encoding: chunked, ContentLength -1), as a streaming client or a re-chunking
// redirector sends it.
func servePost(ts *seam.TS, body []byte, chunked bool) (res seam.Result) {
	req := httptest.NewRequest("POST", "/", bytes.NewReader(body))
	if chunked {
		req = httptest.NewRequest("POST", "/", struct{ io.Reader }{bytes.NewReader(body)})
		req.ContentLength = -1
		req.TransferEncoding = []string{"chunked"}
	}
	req.RemoteAddr = "10.9.8.7:5555"
	rec := httptest.NewRecorder()
	defer func() {
		if p := recover(); p != nil {
			res.Panic = p
			res.Stack = panicSite()
		}
	}()
	ts.HTTP.GinEngine.ServeHTTP(rec, req)
	res.Status = rec.Code
	res.Body = rec.Body.Bytes()
	res.Header = rec.Header()
	return res
}

func serveExternal(w *world, body []byte) (res seam.Result) {
	rec := httptest.NewRecorder()
	ctx, _ := gin.CreateTestContext(rec)
	ctx.Request = httptest.NewRequest("POST", "/"+w.ext.Config.Endpoint, bytes.NewReader(body))
	ctx.Request.RemoteAddr = "10.9.8.7:5555"
	defer func() {
		if p := recover(); p != nil {
			res.Panic = p
			res.Stack = panicSite()
		}
	}()
	w.ext.Request(ctx)
	res.Status = rec.Code
	if ctx.Writer.Status() != 0 {
		res.Status = ctx.Writer.Status()
	}
	res.Body = rec.Body.Bytes()
	return res
}
