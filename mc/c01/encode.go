package c01

import (
	"fmt"

	"Havoc/pkg/agent"

	"verifmc/demonwire"
	"verifmc/explore"
	"verifmc/seam"
)

// enc turns a Shape into request bytes.  Every deviation from the valid packet is one
// Chooser choice (0 = the valid value).  The function is deterministic in the choices.
type enc struct {
	c        *explore.Chooser
	known    map[uint32]bool // agent ids registered in the state (their keys are used when an id is claimed)
	thorough bool            // bound 2: only field-boundary truncations combine with other deviations
	devs     []string        // human-readable list of the deviations taken
}

func (e *enc) dev(label string, format string, a ...any) {
	e.devs = append(e.devs, label+"="+fmt.Sprintf(format, a...))
}

func dedupe(vs []uint64) []uint64 {
	out := vs[:0:0]
	for _, v := range vs {
		dup := false
		for _, o := range out {
			if o == v {
				dup = true
				break
			}
		}
		if !dup {
			out = append(out, v)
		}
	}
	return out
}

var intDevs = []uint64{0, 1, 0x7fffffff, 0x80000000, 0xffffffff}

// u32 chooses the value of a 32-bit integer: valid, the five boundary values, extras.
func (e *enc) u32(label string, valid uint32, extra ...uint32) uint32 {
	alts := []uint64{uint64(valid)}
	alts = append(alts, intDevs...)
	for _, x := range extra {
		alts = append(alts, uint64(x))
	}
	alts = dedupe(alts)
	k := e.c.Choose(len(alts), label)
	if k != 0 {
		e.dev(label, "%#x", alts[k])
	}
	return uint32(alts[k])
}

func (e *enc) u64(label string, valid uint64) uint64 {
	alts := dedupe(append([]uint64{valid}, append(append([]uint64{}, intDevs...), 0x8000000000000000, 0xffffffffffffffff)...))
	k := e.c.Choose(len(alts), label)
	if k != 0 {
		e.dev(label, "%#x", alts[k])
	}
	return alts[k]
}

// lenPrefix chooses the length prefix written in front of n payload bytes.
func (e *enc) lenPrefix(label string, n int) uint32 {
	alts := dedupe([]uint64{uint64(uint32(n)), 0, 1, uint64(uint32(n - 1)), uint64(uint32(n + 1)), 0x7fffffff, 0xffffffff})
	k := e.c.Choose(len(alts), label)
	if k != 0 {
		e.dev(label, "%#x(actual %d)", alts[k], n)
	}
	return uint32(alts[k])
}

// buf is bytes under construction plus the offsets of field boundaries inside them.
type buf struct {
	b     []byte
	marks []int
}

func (b *buf) mark()        { b.marks = append(b.marks, len(b.b)) }
func (b *buf) i32(v uint32) { b.b = append(b.b, byte(v>>24), byte(v>>16), byte(v>>8), byte(v)) }
func (b *buf) i64(v uint64) { b.i32(uint32(v >> 32)); b.i32(uint32(v)) }
func (b *buf) raw(x []byte) { b.b = append(b.b, x...) }
func (b *buf) embed(x buf) {
	for _, m := range x.marks {
		b.marks = append(b.marks, len(b.b)+m)
	}
	b.b = append(b.b, x.b...)
}

func (e *enc) keyFor(id uint32) ([]byte, []byte) {
	k := keyIndex(id)
	return seam.Key(k), seam.IV(k)
}

// fields encodes a field list sent by agent `sender` (relay = the agent that relays
// the enclosing package, used for the "id = the relaying parent" deviation).
func (e *enc) fields(path string, fs []F, sender, relay uint32) buf {
	var out buf
	for i, f := range fs {
		out.mark()
		label := fmt.Sprintf("%s.%d:%s", path, i, f.N)
		switch f.K {
		case KI32, KBool:
			v := uint32(f.V)
			if f.IsID {
				v = f.R.id(sender)
			}
			if f.NoDev {
				out.i32(v)
			} else {
				out.i32(e.u32(label, v))
			}
		case KI64, KPtr:
			if f.NoDev {
				out.i64(f.V)
			} else {
				out.i64(e.u64(label, f.V))
			}
		case KRaw:
			key, iv := e.keyFor(sender)
			if f.V == 32 {
				out.raw(key)
			} else {
				out.raw(iv)
			}
		case KBytes, KStr, KWStr:
			var content []byte
			switch f.K {
			case KBytes:
				content = f.B
			case KStr:
				content = []byte(f.S)
			case KWStr:
				content = demonwire.UTF16LE(f.S)
			}
			nalt := 2 // valid, empty
			if f.K == KWStr {
				nalt = 3 // valid, odd length, empty
			}
			switch k := e.c.Choose(nalt, label+"#content"); {
			case k == 1 && f.K == KWStr:
				content = content[:len(content)-1]
				e.dev(label, "odd-length")
			case k != 0:
				content = nil
				e.dev(label, "empty")
			}
			out.i32(e.lenPrefix(label+"#len", len(content)))
			out.raw(content)
		case KInner:
			pk := e.innerPkg(label, f.In, sender)
			out.i32(e.lenPrefix(label+"#len", len(pk.b)))
			out.mark()
			out.embed(pk)
		}
	}
	out.mark()
	return out
}

// header writes [size][magic][agent id] with the three header deviations.
func (e *enc) header(path string, out *buf, restLen int, id uint32, idExtra []uint32) {
	out.i32(e.u32(path+"/size", uint32(16+restLen)))
	out.i32(e.u32(path+"/magic", magicDemon, 0xDEADBEEE))
	out.i32(e.u32(path+"/agent-id", id, idExtra...))
}

func (e *enc) reqID(label string, k ReqKind) uint32 {
	var alts []uint64
	switch k {
	case ReqOutstanding:
		alts = []uint64{reqR1, reqUnknown, reqR3, 0}
	case ReqBof:
		alts = []uint64{reqBof, reqUnknown, reqR1, 0}
	default:
		alts = []uint64{0, reqUnknown, reqR1}
	}
	i := e.c.Choose(len(alts), label)
	if i != 0 {
		e.dev(label, "%#x", alts[i])
	}
	return uint32(alts[i])
}

// sub encodes one sub-package [cmd][request id][length-prefixed body].
func (e *enc) sub(path string, s *Shape, sender, relay uint32, req uint32) buf {
	var out buf
	out.mark()
	out.i32(e.u32(path+"/cmd", s.Cmd, agent.DEMON_INIT))
	if req == 0 {
		req = s.fixedReq
	}
	if req == 0 {
		req = e.reqID(path+"/request-id", s.Req)
	}
	out.i32(req)
	body := e.fields(path, s.F, sender, relay)
	out.i32(e.lenPrefix(path+"/body#len", len(body.b)))
	out.embed(body)
	return out
}

// initBody is key ‖ iv ‖ CTR(metadata) of a DEMON_INIT package from `from`.
func (e *enc) initBody(path string, s []F, from uint32) buf {
	var out buf
	key, iv := e.keyFor(from)
	out.raw(key)
	out.raw(iv)
	meta := e.fields(path, s, from, from)
	plain := true
	for _, x := range key {
		if x != 0 {
			plain = false
		}
	}
	switch k := e.c.Choose(3, path+"/registration"); k {
	case 1:
		e.dev(path+"/registration", "metadata cut to 8 bytes")
		meta.b = meta.b[:8]
		meta.marks = nil
	case 2:
		e.dev(path+"/registration", "key and iv cut to 47 bytes, no metadata")
		out.b = out.b[:47]
		meta = buf{}
	}
	if !plain {
		meta.b = demonwire.CTR(meta.b, key, iv)
	}
	out.embed(meta)
	return out
}

// innerPkg is a complete Demon package nested in a byte-string field: a registration
// (SMB connect) or a callback package of a pivot child (SMB command).
func (e *enc) innerPkg(path string, in *Inner, relay uint32) buf {
	from := in.From.id(relay)
	var out buf
	if in.Register {
		body := e.initBody(path+"/init", metaFields(in.From), from)
		// nested header: id unknown / id = the relaying sender / another registered agent
		e.header(path, &out, len(body.b), from, []uint32{idUnknown, relay, idA, idC})
		out.i32(agent.DEMON_INIT)
		out.i32(0)
		out.embed(body)
		return out
	}
	// callback package: [size][magic][id][cmd][req] CTR( [len][body] )
	var hdr buf
	s := in.Sub
	sb := e.sub(path+"/"+s.Name, s, from, relay, 0)
	// sb = [cmd][req][len][body]; the first eight bytes stay in clear
	rest := sb.b[8:]
	e.header(path, &hdr, len(rest), from, []uint32{idUnknown, relay, idC})
	claimed := uint32(hdr.b[8])<<24 | uint32(hdr.b[9])<<16 | uint32(hdr.b[10])<<8 | uint32(hdr.b[11])
	encID := from
	if claimed != from && e.known[claimed] {
		encID = claimed // a package that claims a registered identity is encrypted as that agent would
	}
	key, iv := e.keyFor(encID)
	out.embed(hdr)
	out.raw(sb.b[:8])
	var enc buf
	enc.b = demonwire.CTR(rest, key, iv)
	for _, m := range sb.marks {
		if m >= 8 {
			enc.marks = append(enc.marks, m-8)
		}
	}
	out.embed(enc)
	return out
}

// Plan says what to send in which framing.
type Plan struct {
	Shape   *Shape
	Sender  uint32 // directly connected agent that posts the request
	Relayed uint32 // != 0: the shape is a callback of this pivot child, relayed by Sender in SMB_COMMAND
}

// packet builds the HTTP body.
func (e *enc) packet(p Plan) []byte {
	s := p.Shape
	if s.ThirdParty {
		// [size][magic of the registered service agent type][agent id] + opaque bytes
		var out buf
		rest := garbage(40)
		out.i32(e.u32("hdr/size", uint32(8+len(rest))))
		out.i32(e.u32("hdr/magic", magicThirdParty))
		out.i32(e.u32("hdr/agent-id", s.From.id(p.Sender), idA, idB, idUnknown))
		out.mark()
		out.raw(rest)
		return e.truncate(out)
	}
	if s.Init {
		from := s.From.id(p.Sender)
		body := e.initBody("init", s.F, from)
		var out buf
		e.header("hdr", &out, len(body.b), from, []uint32{idUnknown, idA})
		out.i32(e.u32("hdr/cmd", agent.DEMON_INIT))
		out.i32(e.u32("hdr/request-id", 0))
		out.embed(body)
		return e.truncate(out)
	}

	var subs []buf
	mk := func(path string, sh *Shape, req uint32) buf {
		if p.Relayed != 0 {
			wrap := &Shape{Name: "relay", Cmd: agent.COMMAND_PIVOT, Req: ReqZero,
				F: []F{i32("Sub", agent.DEMON_PIVOT_SMB_COMMAND), inner("Package", &Inner{From: refOf(p.Relayed), Sub: withReq(sh, req)})}}
			return e.sub(path, wrap, p.Sender, p.Sender, 0)
		}
		return e.sub(path, sh, p.Sender, p.Sender, req)
	}
	for i, b := range s.Before {
		subs = append(subs, mk(fmt.Sprintf("pre%d", i), b, 0))
	}
	subs = append(subs, mk("sub", s, 0))
	// a second sub-package in the same request
	switch k := e.c.Choose(3, "second-sub"); k {
	case 1:
		e.dev("second-sub", "COMMAND_OUTPUT")
		subs = append(subs, mk("sub2", sh("OUTPUT", agent.COMMAND_OUTPUT, str("Output", "second")), reqR2))
	case 2:
		e.dev("second-sub", "same shape again")
		subs = append(subs, mk("sub2", s, reqR2))
	}
	getJob := e.c.Choose(2, "get-job") == 0
	if !getJob {
		e.dev("get-job", "absent")
	}

	var plain buf // everything after the header's (cmd, request id)
	var cmd, req uint32
	if getJob {
		cmd, req = agent.COMMAND_GET_JOB, 0
		for _, sb := range subs {
			plain.embed(sb)
		}
	} else {
		first := subs[0]
		cmd = uint32(first.b[0])<<24 | uint32(first.b[1])<<16 | uint32(first.b[2])<<8 | uint32(first.b[3])
		req = uint32(first.b[4])<<24 | uint32(first.b[5])<<16 | uint32(first.b[6])<<8 | uint32(first.b[7])
		var f buf
		f.b = first.b[8:]
		for _, m := range first.marks {
			if m >= 8 {
				f.marks = append(f.marks, m-8)
			}
		}
		plain.embed(f)
		for _, sb := range subs[1:] {
			plain.embed(sb)
		}
	}
	var out buf
	e.header("hdr", &out, len(plain.b), p.Sender, []uint32{idUnknown, idB})
	claimed := uint32(out.b[8])<<24 | uint32(out.b[9])<<16 | uint32(out.b[10])<<8 | uint32(out.b[11])
	encID := p.Sender
	if claimed != p.Sender && e.known[claimed] {
		encID = claimed
	}
	key, iv := e.keyFor(encID)
	out.i32(cmd)
	out.i32(req)
	out.mark()
	var ct buf
	ct.b = demonwire.CTR(plain.b, key, iv)
	ct.marks = plain.marks
	out.embed(ct)
	return e.truncate(out)
}

func refOf(id uint32) Ref {
	switch id {
	case idA:
		return RefA
	case idB:
		return RefB
	case idC:
		return RefC
	case idD:
		return RefD
	}
	return RefUnknown
}

// withReq returns a copy of the shape whose request id is fixed (second sub-packages).
func withReq(s *Shape, req uint32) *Shape {
	if req == 0 {
		return s
	}
	c := *s
	c.fixedReq = req
	return &c
}

// truncate is the last choice: cut the request body at every byte offset.
func (e *enc) truncate(out buf) []byte {
	n := len(out.b)
	var costs []int
	if e.thorough {
		// with two deviations allowed, only cuts at (and one byte around) field boundaries
		// combine with another deviation; every other cut is explored on its own
		costs = make([]int, n+1)
		for i := 1; i <= n; i++ {
			costs[i] = 2
		}
		for _, m := range out.marks {
			for d := -1; d <= 1; d++ {
				if k := m + d; k >= 0 && k < n {
					costs[k+1] = 1
				}
			}
		}
		for _, k := range []int{0, 1, 11, 12, 13, 15, 16, 17, 19, 20, 21} {
			if k < n {
				costs[k+1] = 1
			}
		}
	}
	k := e.c.ChooseCost(n+1, "truncate", costs)
	if k == 0 {
		return out.b
	}
	e.dev("truncate", "%d of %d bytes", k-1, n)
	return out.b[:k-1]
}
