// Package c08: "Tasks and callbacks for pivot agents are routed to the right session".
package c08

import (
	"bytes"
	"encoding/base64"
	"fmt"
	"os"
	"strings"
	"time"

	"Havoc/pkg/agent"
	"Havoc/pkg/packager"

	"verifmc/demonwire"
	"verifmc/ev"
	"verifmc/par"
	"verifmc/pivreg"
	"verifmc/seam"
)

var idDomain = []uint32{1, 0x7fffffff, 0x80000000, 0xdeadbeef, 0xffffffff, 0x00000100}

type node struct {
	id     uint32
	k      byte
	parent int // index into chain, -1 for the direct agent
}

type world struct {
	ts    *seam.TS
	nodes []node
}

func (w *world) key(i int) ([]byte, []byte) { return seam.Key(w.nodes[i].k), seam.IV(w.nodes[i].k) }

// path returns the indices from node i up to the root.
func (w *world) path(i int) []int {
	var p []int
	for ; i >= 0; i = w.nodes[i].parent {
		p = append(p, i)
	}
	return p
}

// send delivers a callback from node i, wrapped once per hop.
func (w *world) send(i int, sub demonwire.Sub) seam.Result {
	p := w.path(i)
	cur := sub
	for x := 0; x < len(p)-1; x++ {
		n := w.nodes[p[x]]
		k, iv := w.key(p[x])
		pkg := demonwire.CallbacksOnly(n.id, k, iv, cur)
		b := &demonwire.W{}
		b.I32(agent.DEMON_PIVOT_SMB_COMMAND).Bytes(pkg)
		cur = demonwire.Sub{Cmd: agent.COMMAND_PIVOT, Body: b.B}
	}
	root := p[len(p)-1]
	k, iv := w.key(root)
	return w.ts.Post(demonwire.CheckIn(w.nodes[root].id, k, iv, cur))
}

// build registers the root through the listener and every other node through a real
// SMB connect callback of its parent carrying the child's registration package.
func build(ids []uint32, parents []int) (*world, error) {
	w := &world{ts: seam.New(seam.Options{})}
	for i, id := range ids {
		w.nodes = append(w.nodes, node{id: id, k: byte(i + 1), parent: parents[i]})
		k, iv := w.key(i)
		if parents[i] < 0 {
			r := w.ts.Post(demonwire.Register(id, k, iv, demonwire.DefaultMeta(id)))
			if r.Panic != nil || r.Status != 200 {
				return w, fmt.Errorf("registration of %08x failed: status=%d panic=%v", id, r.Status, r.Panic)
			}
			continue
		}
		inner := demonwire.Register(id, k, iv, demonwire.DefaultMeta(id))
		b := &demonwire.W{}
		b.I32(agent.DEMON_PIVOT_SMB_CONNECT).I32(1).Bytes(inner)
		r := w.send(parents[i], demonwire.Sub{Cmd: agent.COMMAND_PIVOT, Body: b.B})
		if r.Panic != nil {
			return w, fmt.Errorf("smb connect of %08x panicked: %v", id, r.Panic)
		}
		a := w.ts.Agent(id)
		if a == nil || a.Pivots.Parent == nil {
			return w, fmt.Errorf("smb connect did not link %08x under %08x", id, ids[parents[i]])
		}
	}
	// drain bookkeeping
	w.ts.CheckIn(w.nodes[0].id, w.nodes[0].k)
	w.ts.Rec.Take()
	return w, nil
}

// ---- task menu -------------------------------------------------------------------------

type variant struct {
	name  string
	issue func(w *world, target uint32, req uint32) any // returns panic value
	// the tasks (cmd, decrypted body) the target must finally see, in order
	want func(req uint32) []demonwire.Task
}

func le32(v uint32) []byte { return []byte{byte(v), byte(v >> 8), byte(v >> 16), byte(v >> 24)} }
func lebytes(b []byte) []byte {
	return append(le32(uint32(len(b))), b...)
}

var blob = bytes.Repeat([]byte{0xAB, 0x00, 0xCD}, 100)

func variants() []variant {
	tid := func(r uint32) string { return fmt.Sprintf("%08x", r) }
	return []variant{
		{"checkin (no arguments)", func(w *world, t, r uint32) any {
			return w.ts.Task(t, tid(r), agent.COMMAND_CHECKIN, nil)
		}, func(r uint32) []demonwire.Task { return []demonwire.Task{{Cmd: agent.COMMAND_CHECKIN, ReqID: r}} }},
		{"sleep (two integers)", func(w *world, t, r uint32) any {
			return w.ts.Task(t, tid(r), agent.COMMAND_SLEEP, map[string]any{"Arguments": "5;10"})
		}, func(r uint32) []demonwire.Task {
			return []demonwire.Task{{Cmd: agent.COMMAND_SLEEP, ReqID: r, Body: append(le32(5), le32(10)...)}}
		}},
		{"fs cd (UTF-16 string)", func(w *world, t, r uint32) any {
			return w.ts.Task(t, tid(r), agent.COMMAND_FS, map[string]any{"SubCommand": "cd", "Arguments": `C:\é x`})
		}, func(r uint32) []demonwire.Task {
			u := append(demonwire.UTF16LE(`C:\é x`), 0, 0) // UTF-16LE with terminator, as the Demon expects
			return []demonwire.Task{{Cmd: agent.COMMAND_FS, ReqID: r, Body: append(le32(4), lebytes(u)...)}}
		}},
		{"300-byte blob", func(w *world, t, r uint32) any {
			w.ts.Agent(t).AddJobToQueue(agent.Job{Command: 0x7777, RequestID: r, Data: []any{blob}})
			return nil
		}, func(r uint32) []demonwire.Task {
			return []demonwire.Task{{Cmd: 0x7777, ReqID: r, Body: lebytes(blob)}}
		}},
		{"upload (mem-file chunk + consumer)", func(w *world, t, r uint32) any {
			args := base64.StdEncoding.EncodeToString([]byte(`C:\f`)) + ";" + base64.StdEncoding.EncodeToString([]byte("file-content"))
			return w.ts.Task(t, tid(r), agent.COMMAND_FS, map[string]any{"SubCommand": "upload", "Arguments": args})
		}, nil},
		{"socket write (relay task)", func(w *world, t, r uint32) any {
			w.ts.Agent(t).AddJobToQueue(agent.Job{Command: agent.COMMAND_SOCKET, RequestID: r, Data: []any{agent.SOCKET_COMMAND_WRITE, int32(0x1234), []byte("relay-bytes")}})
			return nil
		}, func(r uint32) []demonwire.Task {
			b := append(le32(agent.SOCKET_COMMAND_WRITE), le32(0x1234)...)
			return []demonwire.Task{{Cmd: agent.COMMAND_SOCKET, ReqID: r, Body: append(b, lebytes([]byte("relay-bytes"))...)}}
		}},
	}
}

// unwrap plays every hop from the root down to target: each hop decrypts its own layer
// with its own key, must find COMMAND_PIVOT / SMB_COMMAND, the next hop's id and an
// opaque frame [id][len][package].  Returns the tasks the target finally reads.
func (w *world) unwrap(rootTasks []demonwire.Task, target int) ([]demonwire.Task, string) {
	p := w.path(target) // target ... root
	var final []demonwire.Task
	for _, t := range rootTasks {
		cur := t
		bad := ""
		for hop := len(p) - 1; hop > 0; hop-- {
			next := p[hop-1]
			if cur.Cmd != agent.COMMAND_PIVOT {
				bad = fmt.Sprintf("hop %08x received command %d, not a pivot command", w.nodes[p[hop]].id, cur.Cmd)
				break
			}
			sub, child, frame, ok := demonwire.ParsePivotCommandTask(cur.Body)
			if !ok || sub != agent.DEMON_PIVOT_SMB_COMMAND {
				bad = fmt.Sprintf("hop %08x cannot read its layer (sub=%d ok=%v): wrong key or framing", w.nodes[p[hop]].id, sub, ok)
				break
			}
			if child != w.nodes[next].id {
				bad = fmt.Sprintf("hop %08x is told to forward to %08x, the next hop is %08x", w.nodes[p[hop]].id, child, w.nodes[next].id)
				break
			}
			r := &demonwire.R{B: frame}
			fid := r.I32()
			pkg := r.Bytes()
			if r.Err || fid != w.nodes[next].id || len(r.B) != 0 {
				bad = fmt.Sprintf("pipe frame for %08x is malformed (id=%08x err=%v trailing=%d)", w.nodes[next].id, fid, r.Err, len(r.B))
				break
			}
			k, iv := w.key(next)
			ts, err := demonwire.ReadTasks(pkg, k, iv)
			if err != nil || len(ts) != 1 {
				bad = fmt.Sprintf("package for %08x does not hold exactly one task (%d, err=%v): one layer per hop", w.nodes[next].id, len(ts), err)
				break
			}
			cur = ts[0]
		}
		if bad != "" {
			return nil, bad
		}
		final = append(final, cur)
	}
	return final, ""
}

func idClass(id uint32) string {
	if id >= 0x80000000 {
		return "id>=0x80000000"
	}
	return "id<0x80000000"
}

// checkDown issues every variant for every non-root target of the chain.
func checkDown(r *ev.Run, w *world, shape string) {
	req := uint32(0x4100)
	for ti := 1; ti < len(w.nodes); ti++ {
		if w.nodes[ti].parent < 0 {
			continue // a second direct agent (link-history worlds)
		}
		if a := w.ts.Agent(w.nodes[ti].id); a != nil && !a.Active {
			continue // marked dead by the operator: such a session is not tasked (it may still relay)
		}
		path := w.path(ti)
		root := path[len(path)-1]
		for _, v := range variants() {
			req++
			target := w.nodes[ti].id
			detail := map[string]any{"shape": shape, "ids": idsHex(w), "target": fmt.Sprintf("%08x", target), "task": v.name}
			if p := v.issue(w, target, req); p != nil {
				r.Violate("down/panic/"+ev.Normalize(fmt.Sprint(p)), fmt.Sprintf("queueing %q for %08x panicked: %v", v.name, target, p), detail)
				continue
			}
			// every second fetch also carries a report the first hop sends on its own (request id
			// 0, as everything a Demon sends unasked): the pipe to a pivot the teamserver does not
			// know any more broke.  It is about nobody on this chain: the task still arrives
			var extra []demonwire.Sub
			if req%2 == 1 {
				rep := &demonwire.W{}
				rep.I32(agent.DEMON_PIVOT_SMB_DISCONNECT).I32(1).I32(0x0badf00d)
				extra = append(extra, demonwire.Sub{Cmd: agent.COMMAND_PIVOT, Body: rep.B})
				detail["fetch"] = "the first hop's request also carries an unsolicited SMB disconnect report about another pivot"
			}
			res, tasks, err := w.ts.CheckIn(w.nodes[root].id, w.nodes[root].k, extra...)
			r.Eval(1)
			if res.Panic != nil || err != nil {
				r.Violate("down/checkin-failed", fmt.Sprintf("first hop's check-in failed: panic=%v err=%v", res.Panic, err), detail)
				continue
			}
			var got []demonwire.Task
			for _, t := range tasks {
				if t.Cmd != demonwire.NoJob {
					got = append(got, t)
				}
			}
			if len(got) == 0 {
				// which id on the path is large?
				cls := "id<0x80000000"
				for _, pi := range w.path(ti) {
					if w.nodes[pi].id >= 0x80000000 && pi != 0 {
						cls = "id>=0x80000000"
					}
				}
				r.Violate("down/not-delivered/"+cls, fmt.Sprintf("task %q for %08x (path %v) was recorded but nothing reached the first hop", v.name, target, idsHex(w)), detail)
				continue
			}
			final, bad := w.unwrap(got, ti)
			if bad != "" {
				r.Violate("down/unwrap/"+strings.SplitN(bad, " ", 3)[0]+"-"+fmt.Sprint(len(w.path(ti))-1)+"hops", bad, detail)
				continue
			}
			if v.want != nil {
				want := v.want(req)
				if len(final) != len(want) {
					r.Violate("down/task-count", fmt.Sprintf("target reads %d tasks, want %d", len(final), len(want)), detail)
					continue
				}
				for i := range want {
					if final[i].Cmd != want[i].Cmd || final[i].ReqID != want[i].ReqID || !bytes.Equal(final[i].Body, want[i].Body) {
						r.Violate("down/task-differs/"+v.name, fmt.Sprintf("target reads cmd=%d req=%08x body=%x, the operator issued cmd=%d req=%08x body=%x", final[i].Cmd, final[i].ReqID, trunc(final[i].Body), want[i].Cmd, want[i].ReqID, trunc(want[i].Body)), detail)
					}
				}
			} else {
				// upload: chunk(s) first, consumer last, same request id on the consumer
				if len(final) < 2 || final[len(final)-1].Cmd != agent.COMMAND_FS || final[len(final)-1].ReqID != req || final[0].Cmd != agent.COMMAND_MEM_FILE {
					r.Violate("down/upload-order", fmt.Sprintf("target reads %d tasks, want mem-file chunk(s) then the upload command", len(final)), detail)
				}
			}
			r.Outcome(fmt.Sprintf("down/ok/%dhops/%s", len(w.path(ti))-1, v.name))
			if r.WantSample() && ti == len(w.nodes)-1 {
				r.Sample(detail)
			}
		}
	}
}

func trunc(b []byte) []byte {
	if len(b) > 32 {
		return b[:32]
	}
	return b
}

func idsHex(w *world) []string {
	var o []string
	for _, n := range w.nodes {
		o = append(o, fmt.Sprintf("%08x", n.id))
	}
	return o
}

// checkUp: relayed callbacks are attributed to, decrypted with the key of, and gated by
// the outstanding tasks of the agent named in the inner header.
func checkUp(r *ev.Run, w *world, shape string) {
	sleepBody := func() []byte { b := &demonwire.W{}; b.I32(7).I32(3); return b.B }
	for ti := 1; ti < len(w.nodes); ti++ {
		tgt := w.nodes[ti]
		par := w.nodes[tgt.parent]
		a := w.ts.Agent(tgt.id)
		pa := w.ts.Agent(par.id)
		type cse struct {
			name     string
			atTarget bool
			atParent bool
			keyOf    int // node index whose key encrypts the inner package
		}
		for ci, c := range []cse{
			{"outstanding at the child, child's key", true, false, ti},
			{"outstanding at the relaying parent only", false, true, ti},
			{"outstanding nowhere", false, false, ti},
			{"outstanding at the child, parent's key", true, false, tgt.parent},
		} {
			req := uint32(0x6000 + ti*16 + ci)
			a.Tasks, pa.Tasks = nil, nil
			a.Info.SleepDelay, pa.Info.SleepDelay = 2, 2
			if c.atTarget {
				a.AddRequest(agent.Job{RequestID: req, Command: agent.COMMAND_SLEEP})
			}
			if c.atParent {
				pa.AddRequest(agent.Job{RequestID: req, Command: agent.COMMAND_SLEEP})
			}
			w.ts.Rec.Take()
			// inner package built with the chosen key, then relayed by the real parent chain
			k, iv := w.key(c.keyOf)
			pkg := demonwire.CallbacksOnly(tgt.id, k, iv, demonwire.Sub{Cmd: agent.COMMAND_SLEEP, ReqID: req, Body: sleepBody()})
			b := &demonwire.W{}
			b.I32(agent.DEMON_PIVOT_SMB_COMMAND).Bytes(pkg)
			res := w.send(tgt.parent, demonwire.Sub{Cmd: agent.COMMAND_PIVOT, Body: b.B})
			r.Eval(1)
			detail := map[string]any{"shape": shape, "ids": idsHex(w), "callback_for": fmt.Sprintf("%08x", tgt.id), "relayed_by": fmt.Sprintf("%08x", par.id), "case": c.name}
			if res.Panic != nil {
				r.Violate("up/panic/"+res.Stack+"/"+ev.Normalize(fmt.Sprint(res.Panic)), fmt.Sprint(res.Panic), detail)
				continue
			}
			effects := w.ts.Rec.Take()
			var tgtConsole, anyPlain []string
			for _, e := range effects {
				if e.Call == "AgentConsole" && strings.Contains(e.Arg, "7 seconds with 3% jitter") {
					anyPlain = append(anyPlain, e.Arg)
					if strings.HasPrefix(e.Arg, a.NameID+",") {
						tgtConsole = append(tgtConsole, e.Arg)
					}
				}
			}
			switch ci {
			case 0:
				if len(tgtConsole) != 1 || a.Info.SleepDelay != 7 || len(anyPlain) != 1 {
					r.Violate("up/not-attributed-to-child", fmt.Sprintf("valid relayed callback: console entries for the child %v, all %v, child's sleep=%d", tgtConsole, anyPlain, a.Info.SleepDelay), detail)
				} else if pa.Info.SleepDelay != 2 {
					r.Violate("up/applied-to-parent", "the relayed callback changed the relaying parent's session", detail)
				} else {
					r.Outcome("up/accepted")
				}
			case 1, 2:
				if len(anyPlain) != 0 || a.Info.SleepDelay != 2 || pa.Info.SleepDelay != 2 {
					r.Violate(fmt.Sprintf("up/gate/%s", strings.ReplaceAll(c.name, " ", "-")), fmt.Sprintf("callback without an outstanding task at the child was acted upon: %v child sleep=%d parent sleep=%d", anyPlain, a.Info.SleepDelay, pa.Info.SleepDelay), detail)
				} else {
					r.Outcome("up/dropped/" + c.name)
				}
			case 3:
				if len(anyPlain) != 0 || a.Info.SleepDelay == 7 || pa.Info.SleepDelay == 7 {
					r.Violate("up/decrypted-with-relay-key", "a callback encrypted under the relaying parent's key was read in clear for the child", detail)
				} else {
					r.Outcome("up/wrong-key-not-readable")
				}
			}
		}
	}
}

type shapeT struct {
	name    string
	parents []int
}

func shapes(thorough bool) []shapeT {
	s := []shapeT{
		{"chain-1", []int{-1, 0}},
		{"chain-2", []int{-1, 0, 1}},
		{"chain-3", []int{-1, 0, 1, 2}},
	}
	s = append(s, shapeT{"chain-4", []int{-1, 0, 1, 2, 3}}, shapeT{"chain-5", []int{-1, 0, 1, 2, 3, 4}},
		shapeT{"tree-2x2", []int{-1, 0, 0, 1, 1, 2}})
	if !thorough {
		return s
	}
	// thorough: every pivot tree with 2..6 agents (every parent vector with parent[i] < i:
	// chains, stars and everything between; 1+2+6+24+120 shapes)
	s = nil
	var rec func(p []int, n int)
	rec = func(p []int, n int) {
		if len(p) == n {
			name := "tree"
			for _, x := range p[1:] {
				name += fmt.Sprintf("-%d", x)
			}
			s = append(s, shapeT{name, append([]int{}, p...)})
			return
		}
		for x := 0; x < len(p); x++ {
			rec(append(p, x), n)
		}
	}
	for n := 2; n <= 6; n++ {
		rec([]int{-1}, n)
	}
	return s
}

// fullAssignments: thorough assigns every ordered choice of distinct ids up to this many agents.
var fullAssignments = 4

// assignments: every ordered choice of n distinct ids from the domain for n<=4, a
// covering set (rotations + reversals) beyond.
func assignments(n int) [][]uint32 {
	var out [][]uint32
	if n <= fullAssignments {
		var rec func(cur []uint32, used uint)
		rec = func(cur []uint32, used uint) {
			if len(cur) == n {
				out = append(out, append([]uint32{}, cur...))
				return
			}
			for i, id := range idDomain {
				if used&(1<<i) == 0 {
					rec(append(cur, id), used|1<<i)
				}
			}
		}
		rec(nil, 0)
		return out
	}
	d := len(idDomain)
	for rot := 0; rot < d; rot++ {
		var a, b []uint32
		for i := 0; i < n; i++ {
			a = append(a, idDomain[(rot+i)%d])
			b = append(b, idDomain[(rot+d-i)%d])
		}
		out = append(out, a, b)
	}
	return out
}

// runLinkHistory: the route follows the link history.  A and B are direct agents; A links
// C, C links D, then B links C again (C moves below B), then A - the former parent, which
// sleeps longer - reports the disconnect of C late.  After every step every task variant
// for C and for D must arrive at the first hop of the route in force, wrapped for that route.
func runLinkHistory(r *ev.Run) {
	type variant struct {
		ids    []uint32
		dbfail bool // the database refuses the link row while C is being moved below B
	}
	for _, vr := range []variant{{[]uint32{0xa1, 0xb2, 0xc3, 0xd4}, false}, {[]uint32{0x80000001, 0x7fffffff, 0xdeadbeef, 0xffffffff}, false}, {[]uint32{0xa1, 0xb2, 0xc3, 0xd4}, true}} {
		ids := vr.ids
		w, err := build(ids, []int{-1, -1, 0, 2})
		if err != nil {
			r.Violate("history/build", err.Error(), map[string]any{"ids": fmt.Sprintf("%08x", ids)})
			w.ts.Close()
			continue
		}
		checkDown(r, w, "history: A<-C<-D, B")
		// B reports an SMB connect naming the existing agent C
		k, iv := w.key(2)
		inner := demonwire.Register(ids[2], k, iv, demonwire.DefaultMeta(ids[2]))
		b := &demonwire.W{}
		b.I32(agent.DEMON_PIVOT_SMB_CONNECT).I32(1).Bytes(inner)
		undo := func() {}
		if vr.dbfail {
			// routing is what the teamserver holds in memory about who is connected below whom:
			// it follows B's report whether or not the link row could be written
			if undo, err = w.ts.DBFault("TS_Links", "INSERT"); err != nil {
				r.Violate("harness/db-fault", err.Error(), nil)
			}
		}
		res := w.send(1, demonwire.Sub{Cmd: agent.COMMAND_PIVOT, Body: b.B})
		undo()
		if res.Panic != nil {
			r.Violate("history/panic/reconnect", fmt.Sprint(res.Panic), nil)
		}
		if c := w.ts.Agent(ids[2]); c == nil || c.Pivots.Parent == nil || c.Pivots.Parent.NameID != fmt.Sprintf("%08x", ids[1]) {
			r.Violate("history/reconnect-not-applied", "B's connect naming C did not move C below B", map[string]any{"ids": fmt.Sprintf("%08x", ids)})
			w.ts.Close()
			continue
		}
		w.nodes[2].parent = 1
		w.ts.CheckIn(ids[0], w.nodes[0].k)
		w.ts.CheckIn(ids[1], w.nodes[1].k)
		checkDown(r, w, "history: after C moved below B")
		// A's late disconnect report for C, which is no longer its child
		d := &demonwire.W{}
		d.I32(agent.DEMON_PIVOT_SMB_DISCONNECT).I32(1).I32(ids[2])
		if res := w.send(0, demonwire.Sub{Cmd: agent.COMMAND_PIVOT, Body: d.B}); res.Panic != nil {
			r.Violate("history/panic/stale-disconnect", fmt.Sprint(res.Panic), nil)
		}
		w.ts.CheckIn(ids[0], w.nodes[0].k)
		w.ts.CheckIn(ids[1], w.nodes[1].k)
		checkDown(r, w, "history: after the former parent's late disconnect report")
		// B reports that C went away and, later, that it is back (a reconnect of an existing
		// agent: C is linked below B again; its "disconnected" flag is only cleared by its next
		// check-in callback).  Then a new agent E links below C.  Tasks for D and E go B -> C -> ...
		dd := &demonwire.W{}
		dd.I32(agent.DEMON_PIVOT_SMB_DISCONNECT).I32(1).I32(ids[2])
		w.send(1, demonwire.Sub{Cmd: agent.COMMAND_PIVOT, Body: dd.B})
		rc := &demonwire.W{}
		rc.I32(agent.DEMON_PIVOT_SMB_CONNECT).I32(1).Bytes(inner)
		if res := w.send(1, demonwire.Sub{Cmd: agent.COMMAND_PIVOT, Body: rc.B}); res.Panic != nil {
			r.Violate("history/panic/reconnect-after-disconnect", fmt.Sprint(res.Panic), nil)
		}
		if c := w.ts.Agent(ids[2]); c == nil || c.Pivots.Parent == nil || c.Pivots.Parent.NameID != fmt.Sprintf("%08x", ids[1]) {
			r.Violate("history/reconnect-not-applied", "B's second connect naming C did not link C below B again", map[string]any{"ids": fmt.Sprintf("%08x", ids)})
			w.ts.Close()
			continue
		}
		w.ts.CheckIn(ids[1], w.nodes[1].k)
		checkDown(r, w, "history: after C was disconnected and reconnected below B")
		idE := ids[2] ^ 0x00010000
		w.nodes = append(w.nodes, node{id: idE, k: 9, parent: 2})
		ke, ive := w.key(len(w.nodes) - 1)
		eb := &demonwire.W{}
		eb.I32(agent.DEMON_PIVOT_SMB_CONNECT).I32(1).Bytes(demonwire.Register(idE, ke, ive, demonwire.DefaultMeta(idE)))
		if res := w.send(2, demonwire.Sub{Cmd: agent.COMMAND_PIVOT, Body: eb.B}); res.Panic != nil {
			r.Violate("history/panic/connect-behind-reconnected-hop", fmt.Sprint(res.Panic), nil)
		}
		if e := w.ts.Agent(idE); e == nil {
			w.nodes = w.nodes[:len(w.nodes)-1]
			r.Outcome("history/registration-behind-reconnected-hop-not-accepted")
		} else {
			w.ts.CheckIn(ids[1], w.nodes[1].k)
			checkDown(r, w, "history: new agent behind the reconnected hop")
			// the operator marks C dead (the session is flagged and unlinked, the implant keeps
			// relaying); a further agent F links below C meanwhile; then B reports C again
			// (reconnect).  Tasks for F go B -> C -> F.
			w.ts.T.DispatchEvent(packager.Package{Head: packager.Head{Event: packager.Type.Session.Type, User: "op1"}, Body: packager.Body{SubEvent: packager.Type.Session.MarkAsDead, Info: map[string]any{"AgentID": fmt.Sprintf("%08x", ids[2]), "Marked": "Dead"}}})
			idF := ids[2] ^ 0x00020000
			w.nodes = append(w.nodes, node{id: idF, k: 10, parent: 2})
			kf, ivf := w.key(len(w.nodes) - 1)
			fb := &demonwire.W{}
			fb.I32(agent.DEMON_PIVOT_SMB_CONNECT).I32(1).Bytes(demonwire.Register(idF, kf, ivf, demonwire.DefaultMeta(idF)))
			w.send(2, demonwire.Sub{Cmd: agent.COMMAND_PIVOT, Body: fb.B})
			rc2 := &demonwire.W{}
			rc2.I32(agent.DEMON_PIVOT_SMB_CONNECT).I32(1).Bytes(inner)
			w.send(1, demonwire.Sub{Cmd: agent.COMMAND_PIVOT, Body: rc2.B})
			c, f := w.ts.Agent(ids[2]), w.ts.Agent(idF)
			if f == nil || c == nil || c.Pivots.Parent == nil || c.Pivots.Parent.NameID != fmt.Sprintf("%08x", ids[1]) {
				// the teamserver did not take the registration / the reconnect: nothing to route
				w.nodes = w.nodes[:len(w.nodes)-1]
				r.Outcome("history/link-behind-dead-marked-hop-not-accepted")
			}
			w.ts.CheckIn(ids[1], w.nodes[1].k)
			if os.Getenv("VERIF_C08_DEBUG") != "" {
				for _, x := range []uint32{idE, idF} {
					if e := w.ts.Agent(x); e != nil {
						pn := "nil"
						if e.Pivots.Parent != nil {
							pn = e.Pivots.Parent.NameID + fmt.Sprintf("(active=%v)", e.Pivots.Parent.Active)
						}
						fmt.Fprintf(os.Stderr, "DBG %08x parent=%s active=%v\n", x, pn, e.Active)
					}
				}
			}
			checkDown(r, w, "history: agents linked below a hop while it was marked dead, after its reconnect")
		}
		w.ts.Close()
	}
	// an agent moves UP its own chain: A <- C <- D, then A itself reports the link to D.
	// D is now one hop behind A; tasks for D are wrapped once, for D.
	for _, ids := range [][]uint32{{0xa1, 0xb2, 0xc3, 0xd4}, {0x80000001, 0x7fffffff, 0xdeadbeef, 0xffffffff}} {
		w, err := build(ids, []int{-1, -1, 0, 2})
		if err != nil {
			r.Violate("history/build", err.Error(), map[string]any{"ids": fmt.Sprintf("%08x", ids)})
			w.ts.Close()
			continue
		}
		k, iv := w.key(3)
		inner := demonwire.Register(ids[3], k, iv, demonwire.DefaultMeta(ids[3]))
		b := &demonwire.W{}
		b.I32(agent.DEMON_PIVOT_SMB_CONNECT).I32(1).Bytes(inner)
		if res := w.send(0, demonwire.Sub{Cmd: agent.COMMAND_PIVOT, Body: b.B}); res.Panic != nil {
			r.Violate("history/panic/reconnect-up-the-chain", fmt.Sprint(res.Panic), nil)
		}
		if d := w.ts.Agent(ids[3]); d == nil || d.Pivots.Parent == nil || d.Pivots.Parent.NameID != fmt.Sprintf("%08x", ids[0]) {
			r.Violate("history/reconnect-not-applied", "A's connect naming D (two hops below A until then) did not move D directly below A", map[string]any{"ids": fmt.Sprintf("%08x", ids)})
			w.ts.Close()
			continue
		}
		w.nodes[3].parent = 0
		w.ts.CheckIn(ids[0], w.nodes[0].k)
		checkDown(r, w, "history: after D moved up its own chain, directly below A")
		w.ts.Close()
	}
}

// checkStoredRoute: the route a task takes is the chain of parents; the teamserver also
// keeps it in the link table and reads it back (Teamserver.ParentOf / LinksOf) to rebuild
// the chain when it starts.  For every agent of the chain what those two calls answer is
// the route in force - for every 32-bit id.
func checkStoredRoute(r *ev.Run, w *world, shape string) {
	for i, n := range w.nodes {
		a := w.ts.Agent(n.id)
		if a == nil {
			continue
		}
		detail := map[string]any{"shape": shape, "ids": idsHex(w), "agent": fmt.Sprintf("%08x", n.id)}
		pid, err := w.ts.T.ParentOf(a)
		switch {
		case n.parent < 0 && err == nil:
			r.Violate("stored-route/parent-of-a-direct-agent/"+idClass(n.id), fmt.Sprintf("the link table names %08x as the parent of the direct agent %08x", uint32(pid), n.id), detail)
		case n.parent >= 0 && (err != nil || uint32(pid) != w.nodes[n.parent].id):
			r.Violate("stored-route/parent/"+idClass(n.id), fmt.Sprintf("agent %08x is reached through %08x, the link table read back through Teamserver.ParentOf answers %08x (err=%v): after a restart its tasks do not take the chain", n.id, w.nodes[n.parent].id, uint32(pid), err), detail)
		}
		want := map[uint32]bool{}
		for j, c := range w.nodes {
			if c.parent == i && j != i {
				want[c.id] = true
			}
		}
		got := map[uint32]bool{}
		for _, l := range w.ts.T.LinksOf(a) {
			got[uint32(l)] = true
		}
		if fmt.Sprint(got) != fmt.Sprint(want) {
			r.Violate("stored-route/links/"+idClass(n.id), fmt.Sprintf("agent %08x relays for %v, Teamserver.LinksOf answers %v", n.id, want, got), detail)
		}
		r.Eval(1)
	}
	r.Outcome("stored-route/agrees")
}

func Run(r *ev.Run) {
	r.Rule = "pivot chains of depth 1..5 and one 2x2 tree; agent ids from {1,7fffffff,80000000,deadbeef,ffffffff,100} in every ordered assignment without repetition for <=4 agents (covering rotations beyond); distinct key/IV per agent; every chain is built through the real listener and real SMB-connect callbacks; for every non-root target x 6 task variants the first hop's check-in response is unwrapped hop by hop by the reference pipe framing; for every non-root agent 4 relayed-callback cases (outstanding at child / parent only / nowhere; child's / parent's key). distinct = outcome classes"
	r.Assume("the Demon's SMB framing is the demonwire transcription of TransportSmb.c / Command.c", "6 representative agent ids stand for all 32-bit ids (both sides of 0x80000000, the magic value, all-ones)")
	type job struct {
		sh  shapeT
		ids []uint32
	}
	var jobs []job
	if r.Thorough() {
		fullAssignments = 6
		r.Rule = "thorough: EVERY pivot tree of 2..6 agents (153 parent vectors), every ordered id assignment (all 6 ids); otherwise as quick: " + r.Rule
	}
	for _, sh := range shapes(r.Thorough()) {
		as := assignments(len(sh.parents))
		for _, a := range as {
			jobs = append(jobs, job{sh, a})
		}
	}
	r.Bounds["chains"] = len(jobs)
	if _, _, worker := par.Shard(); !worker {
		runLinkHistory(r)
		// a session that is being registered behind a parent while an operator already
		// tasks it: every interleaving within the preemption bound (instrumented build)
		b, dl := 2, 2*time.Minute
		if r.Thorough() {
			b, dl = 3, 8*time.Minute
		}
		pivreg.Run(r, b, dl)
	}
	par.RunStrict(r, par.Workers(), 8*time.Minute, func(i, n int, r *ev.Run) {
		for ji, j := range jobs {
			if ji%n != i {
				continue
			}
			w, err := build(j.ids, j.sh.parents)
			if err != nil {
				cls := "id<0x80000000"
				for _, id := range j.ids[1:] {
					if id >= 0x80000000 {
						cls = "id>=0x80000000"
					}
				}
				r.Violate("build/"+cls, err.Error(), map[string]any{"shape": j.sh.name, "ids": fmt.Sprintf("%08x", j.ids)})
				w.ts.Close()
				continue
			}
			checkDown(r, w, j.sh.name)
			checkUp(r, w, j.sh.name)
			checkStoredRoute(r, w, j.sh.name)
			w.ts.Close()
		}
	})
}
