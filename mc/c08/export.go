package c08

import (
	"verifmc/demonwire"
	"verifmc/seam"
)

// Exported wrappers so that other harnesses (C05's pivot-pair part) can build real
// pivot chains and deliver callbacks through them.

type World = world

func Build(ids []uint32, parents []int) (*World, error)    { return build(ids, parents) }
func (w *World) Send(i int, sub demonwire.Sub) seam.Result { return w.send(i, sub) }
func (w *World) TS() *seam.TS                              { return w.ts }
func (w *World) ID(i int) uint32                           { return w.nodes[i].id }
