package c19

import (
	"fmt"
)

// ---- syntax-independent configuration tree -----------------------------------

type VKind int

const (
	VNull VKind = iota
	VStr        // literal string (S holds the characters the value must have)
	VNum        // number (S holds a literal that is valid in both syntaxes)
	VBool
	VTuple
	VObject // ordered key/value pairs; keys are literal strings
	VExpr   // native expression (a traversal); JSON spelling "${S}"
	VName   // a bare name used by static analysis (dynamic's iterator); JSON spelling "S"
)

type Val struct {
	K     VKind
	S     string
	B     bool
	Elems []Val
	Keys  []string
}

func Str(s string) Val { return Val{K: VStr, S: s} }
func Num(s string) Val { return Val{K: VNum, S: s} }
func Bool(b bool) Val  { return Val{K: VBool, B: b} }
func Null() Val        { return Val{K: VNull} }
func Tuple(e ...Val) Val {
	return Val{K: VTuple, Elems: e}
}
func Obj(kv ...interface{}) Val {
	v := Val{K: VObject}
	for i := 0; i+1 < len(kv); i += 2 {
		v.Keys = append(v.Keys, kv[i].(string))
		v.Elems = append(v.Elems, kv[i+1].(Val))
	}
	return v
}

// Node is an item of a body: an attribute or a block.
type Node struct {
	// attribute
	IsBlock bool
	Name    string // attribute name or block type
	Val     Val
	// block
	Labels []string
	Body   []*Node

	// bookkeeping (not rendered)
	Group int   // schema item index (faults that add foreign items get their own group)
	IDs   []int // identities of the original block instances this node stands for
}

func attrNode(name string, v Val) *Node { return &Node{Name: name, Val: v} }

func (n *Node) clone() *Node {
	c := *n
	c.Labels = append([]string(nil), n.Labels...)
	c.IDs = append([]int(nil), n.IDs...)
	c.Body = cloneBody(n.Body)
	return &c
}

func cloneBody(b []*Node) []*Node {
	if b == nil {
		return nil
	}
	out := make([]*Node, len(b))
	for i, n := range b {
		out[i] = n.clone()
	}
	return out
}

// Config is one configuration for a schema.
type Config struct {
	Body  []*Node
	Fault string // "" for configurations generated as valid
	// restrictions on the rewrites that are meaning-preserving for this configuration
	NoJSON bool // contains something the JSON syntax cannot say (or says differently, by specification)
	Desc   string
}

// ---- value domains ---------------------------------------------------------------

const (
	strPlain   = "a"
	strInterp  = "v${x}w"                    // must be escaped in both syntaxes
	strDirect  = "%{if}"                     // ditto
	strEscapes = "l1\n\"q\"\\t é\n"          // quote, backslash, newline, non-ASCII; ends in newline (heredoc-able)
	strDollar  = "$${x} 100% $ {y} a$"       // text that already looks escaped
	strHere    = "h${x}\n  %{y} $${z} \\n\n" // heredoc-able, with introducers, a two-character \n and an indented line
)

func strDomain(class int) []Val {
	switch class {
	case 0:
		return []Val{Str(strPlain), Str(strInterp), Str(strDirect), Str(strEscapes), Str(""), Str(strDollar), Str(strHere), Num("7")}
	case 1:
		return []Val{Str(strPlain), Str(strInterp), Str(strEscapes)}
	}
	return []Val{Str(strPlain), Str(strInterp)}
}

func domain(t AType, class int) []Val {
	switch t {
	case TStr:
		return strDomain(class)
	case TNum:
		switch class {
		case 0:
			return []Val{Num("7"), Num("0"), Num("-2.5"), Num("0.1"), Num("1e21"), Num("12345678901234567890.5"), Str("8")}
		case 1:
			return []Val{Num("7"), Num("-2.5"), Num("0.1")}
		}
		return []Val{Num("7"), Num("-2.5")}
	case TBool:
		if class == 0 {
			return []Val{Bool(true), Bool(false), Str("true")}
		}
		return []Val{Bool(true), Bool(false)}
	case TList:
		switch class {
		case 0:
			return []Val{Tuple(Str("a")), Tuple(), Tuple(Str("a"), Str(strInterp)), Tuple(Str(strEscapes), Num("1"))}
		case 1:
			return []Val{Tuple(Str("a")), Tuple(), Tuple(Str("a"), Str(strInterp))}
		}
		return []Val{Tuple(Str("a")), Tuple(Str("b"), Str(strInterp))}
	case TMap:
		switch class {
		case 0:
			return []Val{Obj("k", Str("a")), Obj(), Obj("k", Str("a"), "k.2", Str(strDirect)), Obj(strInterp, Str("c"), "j", Str("d"))}
		case 1:
			return []Val{Obj("k", Str("a")), Obj(), Obj(strInterp, Str("c"), "j", Str("d"))}
		}
		return []Val{Obj("k", Str("a")), Obj("k.2", Str(strInterp), "j", Str("d"))}
	default:
		switch class {
		case 0:
			return []Val{Obj("a", Str("x"), "b", Num("1")), Obj("b", Num("2"), "a", Str(strInterp)), Obj("a", Num("3"), "b", Str("4"))}
		}
		return []Val{Obj("a", Str("x"), "b", Num("1")), Obj("b", Num("2"), "a", Str(strInterp))}
	}
}

// wrongValue is a value that does not convert to the attribute's type.
func wrongValue(t AType) Val {
	switch t {
	case TStr:
		return Tuple(Str("a"))
	case TNum:
		return Str("abc")
	case TBool:
		return Str("maybe")
	case TList:
		return Str("a")
	case TMap:
		return Str("a")
	default:
		return Obj("a", Str("x"))
	}
}

// ---- configuration enumeration ---------------------------------------------------

// attrChoices: the alternatives for one attribute (nil = absent).
func attrChoices(a AttrD, class int, withNull bool) []*Val {
	var out []*Val
	for _, v := range domain(a.T, class) {
		v := v
		out = append(out, &v)
	}
	if !a.Req {
		out = append(out, nil)
		if withNull {
			n := Null()
			out = append(out, &n)
		}
	}
	return out
}

// bodyVariants: the bodies a block instance can have (all valid).
func bodyVariants(inner []AttrD, class int) [][]*Node {
	// V0: required attributes with their first value, optional ones absent
	// V1: every attribute set, second values
	// V2: required attributes with their third (or last) value, optional ones with first value
	pick := func(a AttrD, i int) Val {
		d := domain(a.T, 1)
		return d[i%len(d)]
	}
	var v0, v1, v2 []*Node
	for _, a := range inner {
		if a.Req {
			v0 = append(v0, attrNode(a.Name, pick(a, 0)))
		}
		v1 = append(v1, attrNode(a.Name, pick(a, 1)))
		v2 = append(v2, attrNode(a.Name, pick(a, 2)))
	}
	if len(inner) == 0 {
		return [][]*Node{{}}
	}
	if class >= 2 {
		return [][]*Node{v0, v1}
	}
	return [][]*Node{v0, v1, v2}
}

var labelSets = [][]string{{"a", "a", "a", "a"}, {"b", "a", "a", "a"}, {"a", "b", "a", "a"}, {"a", "a", "a", "b"}}

// instanceAlphabet: the distinct block instances a block type can have.
func instanceAlphabet(b *BlockD, class int) []*Node {
	bodies := bodyVariants(b.Inner, class)
	var out []*Node
	mk := func(ls []string, body []*Node) *Node {
		return &Node{IsBlock: true, Name: b.Name, Labels: append([]string(nil), ls[:b.NLabels]...), Body: cloneBody(body)}
	}
	if b.NLabels == 0 {
		for _, bd := range bodies {
			out = append(out, mk(nil, bd))
		}
		return out
	}
	// (labels a.., body0) (labels b.., body1) (labels a.., body1) [(labels a b, last body)]
	out = append(out, mk(labelSets[0], bodies[0]))
	out = append(out, mk(labelSets[1], bodies[len(bodies)-1]))
	if len(bodies) > 1 {
		out = append(out, mk(labelSets[0], bodies[1]))
	}
	if b.NLabels == 2 && class < 2 {
		out = append(out, mk(labelSets[2], bodies[0]))
	}
	if b.NLabels == 4 {
		// blocks that share all labels but the last
		out = append(out, mk(labelSets[3], bodies[0]))
	}
	return out
}

// blockChoices: the alternatives for one block type: sequences of instances.
func blockChoices(b *BlockD, class int, maxRep int, few bool) [][]*Node {
	alpha := instanceAlphabet(b, class)
	var out [][]*Node
	if b.Mode != BSingleReq {
		out = append(out, nil)
	}
	for _, n := range alpha {
		out = append(out, []*Node{n})
	}
	if !b.Mode.repeated() {
		return out
	}
	var rec func(prefix []*Node, depth int)
	rec = func(prefix []*Node, depth int) {
		if depth >= 2 {
			out = append(out, append([]*Node(nil), prefix...))
		}
		if depth == maxRep {
			return
		}
		for _, n := range alpha {
			rec(append(prefix, n), depth+1)
		}
	}
	if few {
		// minimal: two different instances, two equal instances, (thorough: three)
		out = append(out, []*Node{alpha[0], alpha[1%len(alpha)]})
		out = append(out, []*Node{alpha[len(alpha)-1], alpha[0]})
		if len(alpha) > 1 {
			out = append(out, []*Node{alpha[1], alpha[1]})
		}
		if maxRep >= 3 {
			out = append(out, []*Node{alpha[0], alpha[len(alpha)-1], alpha[0]})
		}
		return out
	}
	rec(nil, 0)
	return out
}

// ConfigPlan bounds the configurations of one schema.
type ConfigPlan struct {
	Dom    int  // value domains: 0 full, 1 reduced, 2 minimal
	Null   bool // optional attributes may also be set to null
	Few    bool // repeated blocks: a short list of instance sequences instead of all sequences
	MaxRep int  // longest instance sequence
	// Select: 0 every combination of alternatives; 1 only combinations where every item
	// takes its first or second alternative, plus the one where every item takes its last;
	// 2 only combinations where every item takes its first, second or last alternative
	Select int
	// Faults: 0 single faults of every configuration; 1 of the configurations where
	// every item takes its first or second alternative; 2 of the first configuration
	// in which every item is present
	Faults int
}

// enumerateConfigs calls f for every configuration generated as valid plus the
// single-fault variants selected by the plan.
func enumerateConfigs(s *Schema, pl ConfigPlan, f func(*Config)) {
	choices := make([][][]*Node, len(s.Items)) // per item: alternatives, each a node sequence
	for i, it := range s.Items {
		if it.Attr != nil {
			for _, v := range attrChoices(*it.Attr, pl.Dom, pl.Null) {
				if v == nil {
					choices[i] = append(choices[i], nil)
				} else {
					choices[i] = append(choices[i], []*Node{attrNode(it.Attr.Name, *v)})
				}
			}
		} else {
			choices[i] = blockChoices(it.Block, pl.Dom, pl.MaxRep, pl.Few)
		}
	}
	idx := make([]int, len(s.Items))
	faultedOne := false
	var rec func(pos int)
	emit := func() {
		low, last, allPresent := true, true, true
		for i, j := range idx {
			if j > 1 {
				low = false
			}
			if j != len(choices[i])-1 {
				last = false
			}
			if len(choices[i][j]) == 0 {
				allPresent = false
			}
		}
		if pl.Select == 1 && !low && !last {
			return
		}
		if pl.Select == 2 {
			for i, j := range idx {
				if j > 1 && j != len(choices[i])-1 {
					return
				}
			}
		}
		var body []*Node
		for i := range s.Items {
			for _, n := range choices[i][idx[i]] {
				c := n.clone()
				c.Group = i
				body = append(body, c)
			}
		}
		cfg := &Config{Body: body, Desc: fmt.Sprint(idx)}
		f(cfg)
		switch pl.Faults {
		case 1:
			if !low {
				return
			}
		case 2:
			if faultedOne || !allPresent {
				return
			}
			faultedOne = true
		}
		for _, fc := range faultsOf(s, cfg) {
			f(fc)
		}
	}
	rec = func(pos int) {
		if pos == len(s.Items) {
			emit()
			return
		}
		for j := range choices[pos] {
			idx[pos] = j
			rec(pos + 1)
		}
	}
	rec(0)
}

// ---- single faults ---------------------------------------------------------------

func (c *Config) derive(fault string) *Config {
	return &Config{Body: cloneBody(c.Body), Fault: fault, Desc: c.Desc + "+" + fault, NoJSON: c.NoJSON}
}

func faultsOf(s *Schema, base *Config) []*Config {
	var out []*Config
	extraGroup := len(s.Items)
	// top level
	for i, n := range base.Body {
		it := s.Items[n.Group]
		if !n.IsBlock {
			if it.Attr.Req {
				c := base.derive("missing-required-attr")
				c.Body = append(c.Body[:i], c.Body[i+1:]...)
				out = append(out, c)
			}
			c := base.derive("wrong-type:" + it.Attr.T.String())
			c.Body[i].Val = wrongValue(it.Attr.T)
			out = append(out, c)

			c = base.derive("duplicate-attr")
			d := c.Body[i].clone()
			c.Body = append(c.Body, d) // at the end: other items may sit between the two definitions
			out = append(out, c)

			c = base.derive("attr-as-block")
			c.Body[i] = &Node{IsBlock: true, Name: n.Name, Group: n.Group, Body: []*Node{}}
			c.NoJSON = true // "x": {} is an attribute with an object value in JSON
			out = append(out, c)
			continue
		}
		b := it.Block
		// faults inside the first instance of every block type only (one fault per config,
		// and the instances of one type are interchangeable for this purpose) - and
		// also inside the last one, which differs when there are several
		first, last := true, true
		for j := 0; j < i; j++ {
			if base.Body[j].Group == n.Group {
				first = false
			}
		}
		for j := i + 1; j < len(base.Body); j++ {
			if base.Body[j].Group == n.Group {
				last = false
			}
		}
		if !first && !last {
			continue
		}
		for k, a := range n.Body {
			var ad AttrD
			for _, x := range b.Inner {
				if x.Name == a.Name {
					ad = x
				}
			}
			if ad.Req {
				c := base.derive("missing-required-inner")
				c.Body[i].Body = append(c.Body[i].Body[:k], c.Body[i].Body[k+1:]...)
				out = append(out, c)
			}
			c := base.derive("wrong-type-inner:" + ad.T.String())
			c.Body[i].Body[k].Val = wrongValue(ad.T)
			out = append(out, c)
			if k == 0 {
				c = base.derive("duplicate-inner-attr")
				c.Body[i].Body = append(c.Body[i].Body, c.Body[i].Body[k].clone())
				out = append(out, c)
			}
		}
		c := base.derive("unknown-inner-attr")
		c.Body[i].Body = append(c.Body[i].Body, attrNode("zz", Num("1")))
		out = append(out, c)

		c = base.derive("extra-label")
		c.Body[i].Labels = append(c.Body[i].Labels, "x")
		c.NoJSON = true // JSON has no way to write a label the schema does not ask for
		out = append(out, c)

		if b.NLabels > 0 {
			c = base.derive("missing-label")
			c.Body[i].Labels = c.Body[i].Labels[:len(c.Body[i].Labels)-1]
			c.NoJSON = true
			out = append(out, c)
		}
		if !b.Mode.repeated() && first {
			c = base.derive("duplicate-single-block")
			d := c.Body[i].clone()
			c.Body = append(c.Body, d)
			out = append(out, c)
		}
		if first {
			c = base.derive("inner-block-unexpected")
			c.Body[i].Body = append(c.Body[i].Body, &Node{IsBlock: true, Name: "zb", Body: []*Node{}})
			out = append(out, c)
		}
	}
	// schema items that are absent
	present := map[int]bool{}
	for _, n := range base.Body {
		present[n.Group] = true
	}
	for gi, it := range s.Items {
		if it.Block == nil {
			continue
		}
		if !present[gi] {
			c := base.derive("block-as-attr")
			c.Body = append(c.Body, &Node{Name: it.Block.Name, Val: Num("1"), Group: gi})
			out = append(out, c)
		} else if it.Block.Mode == BSingleReq {
			c := base.derive("missing-required-block")
			var nb []*Node
			for _, n := range c.Body {
				if n.Group != gi {
					nb = append(nb, n)
				}
			}
			c.Body = nb
			out = append(out, c)
		}
	}
	c := base.derive("unknown-attr")
	c.Body = append(c.Body, &Node{Name: "zz", Val: Str("1"), Group: extraGroup})
	out = append(out, c)
	c = base.derive("unknown-block")
	c.Body = append(c.Body, &Node{IsBlock: true, Name: "zb", Body: []*Node{attrNode("s", Str("a"))}, Group: extraGroup})
	out = append(out, c)
	return out
}
