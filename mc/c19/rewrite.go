package c19

import (
	"fmt"
	"strings"
)

// A rewrite is a point in the product of five independent dimensions; the identity
// in every dimension is the original (canonical native text, one file, no dynamic
// blocks, schema order).  "Single" rewrites are the points with exactly one
// non-identity coordinate, "pairs" those with exactly two.
//
//   P  order of the items        (permutation of the item groups, interleaving,
//                                  order of the attributes inside blocks)
//   D  dynamic blocks            (ext/dynblock)
//   S  split over files          (hcl.MergeFiles)
//   Y  syntax per file           (native / JSON in one of four spellings)
//   F  formatting                (comments, whitespace, line ends, hclwrite.Format …)

type POpt struct {
	Perm       []int // order of the groups (nil = identity)
	Interleave bool  // round-robin over the groups instead of group after group
	Inner      []int // permutation index pattern for the attributes inside blocks (nil = identity)
	RevFree    bool  // reverse the instances of the block types whose order is not part of the result
}

func (p POpt) id() bool { return p.Perm == nil && !p.Interleave && p.Inner == nil && !p.RevFree }
func (p POpt) String() string {
	if p.id() {
		return "-"
	}
	s := fmt.Sprint(p.Perm)
	if p.Interleave {
		s += "il"
	}
	if p.Inner != nil {
		s += "in" + fmt.Sprint(p.Inner)
	}
	if p.RevFree {
		s += "rev"
	}
	return s
}

type DOpt int

const (
	DNone       DOpt = iota
	DExpandOnly      // dynblock.Expand over a body without dynamic blocks
	DAll             // every eligible block type → one dynamic block over all its instances
	DEach            // every block → its own dynamic block with a one-element for_each
	DAllIter         // DAll with an explicit iterator name
	DFirstType       // only the first eligible type is rewritten, the others stay static
	DTail            // first instance stays static, the remaining ones become one dynamic block
	DMapEach         // DAll with for_each over a map instead of a tuple (key order = instance order)
	DHead            // all but the last instance become one dynamic block, the last one stays static
)

var doptNames = []string{"-", "expand-only", "dyn-all", "dyn-each", "dyn-all-iter", "dyn-first-type", "dyn-tail", "dyn-map", "dyn-head"}

func (d DOpt) String() string { return doptNames[d] }

type SOpt struct {
	Files  int
	Assign []int // item index → file (nil = one file)
	Empty  int   // 0 none, 1 an empty file first, 2 an empty file last
}

func (s SOpt) id() bool { return s.Assign == nil && s.Empty == 0 }
func (s SOpt) String() string {
	if s.id() {
		return "-"
	}
	return fmt.Sprintf("%d%v e%d", s.Files, s.Assign, s.Empty)
}

// YOpt: which files are JSON (bit i = file i; all ones = every file) and the spelling.
type YOpt struct {
	JSONMask uint
	Spell    JSpelling
	// Literal: "literal-only mode" of the JSON specification: both the original and
	// the rewrite are decoded with a nil evaluation context, and the JSON strings are
	// the exact characters (no template escaping).  Only with every file in JSON.
	Literal bool
}

func (y YOpt) id() bool { return y.JSONMask == 0 }
func (y YOpt) String() string {
	if y.id() {
		return "-"
	}
	m := fmt.Sprintf("%b", y.JSONMask)
	if y.JSONMask == ^uint(0) {
		m = "all"
	}
	if y.Literal {
		m += "/literal-mode"
	}
	return fmt.Sprintf("json-%s/%s", jspellNames[y.Spell], m)
}

type FOpt int

const (
	FNone FOpt = iota
	FComments
	FWhitespace
	FCRLF
	FMulti
	FHeredoc
	FOneLine
	FColon
	FUnicode
	FFmtCanon // hclwrite.Format over …
	FFmtWhitespace
	FFmtComments
	FFmtMulti
	FFmtHeredoc
	FFmtOneLine
	FHeredocInterp    // heredoc whose first character is written as an interpolation of a literal: ${"h"}...
	FFmtHeredocInterp // ... and formatted
	numFOpt
)

var foptNames = []string{"-", "comments", "whitespace", "crlf", "multiline", "heredoc", "oneline", "colon", "unicode",
	"fmt", "fmt-whitespace", "fmt-comments", "fmt-multiline", "fmt-heredoc", "fmt-oneline", "heredoc-interp", "fmt-heredoc-interp"}

func (f FOpt) String() string { return foptNames[f] }

func (f FOpt) nativeStyle() (NStyle, bool) {
	st := canonStyle
	format := false
	switch f {
	case FComments:
		st.Comments = true
	case FWhitespace:
		st = NStyle{Indent: "\t \t", Eq: "=", NL: "\n", Blank: true}
	case FCRLF:
		st.NL = "\r\n"
		st.Indent = "\t"
	case FMulti:
		st.MultiColl = true
	case FHeredoc:
		st.Heredoc = true
	case FOneLine:
		st.OneLine = true
	case FColon:
		st.ColonKeys = true
	case FUnicode:
		// JSON only (\u escapes for non-ASCII, "$" and "/").  Spelling a character by an
		// escape in the native syntax is not a comment/whitespace/formatting change, so it
		// is outside the statement (and \uNNNN is in fact rejected by this fork's scanner).
	case FFmtCanon:
		format = true
	case FFmtWhitespace:
		st = NStyle{Indent: "\t \t", Eq: "=", NL: "\n", Blank: true}
		format = true
	case FFmtComments:
		st.Comments = true
		st.Indent = ""
		format = true
	case FFmtMulti:
		st.MultiColl = true
		st.Indent = "     "
		st.Comments = true
		format = true
	case FFmtHeredoc:
		st.Heredoc = true
		st.Indent = "\t"
		st.Eq = "="
		format = true
	case FFmtOneLine:
		st.OneLine = true
		st.Eq = "   =  "
		format = true
	case FHeredocInterp:
		st.Heredoc = true
		st.HeredocInterp = true
	case FFmtHeredocInterp:
		st.Heredoc = true
		st.HeredocInterp = true
		format = true
	}
	return st, format
}

func (f FOpt) jsonStyle(sp JSpelling) JStyle {
	st := JStyle{Spell: sp}
	switch f {
	case FComments, FFmtComments:
		st.Comments = true
	case FWhitespace, FFmtWhitespace:
		st.Compact = true
	case FCRLF:
		st.CRLF = true
	case FUnicode:
		st.Unicode = true
	}
	return st
}

type Rewrite struct {
	P POpt
	D DOpt
	S SOpt
	Y YOpt
	F FOpt
}

func (rw Rewrite) String() string {
	return fmt.Sprintf("P=%s D=%s S=%s Y=%s F=%s", rw.P, rw.D, rw.S, rw.Y, rw.F)
}

// ---- applying a rewrite ----------------------------------------------------------

// SrcFile is one rendered file of a rewritten configuration.
type SrcFile struct {
	JSON bool   `json:"json"`
	Text string `json:"text"`
}

type Rendered struct {
	Files  []SrcFile
	Expand bool
	NilCtx bool // decode with a nil evaluation context (literal-only mode)
	// SkipGohclValue: blocks of an order-free type (set/map/object) were reordered;
	// gohcl decodes every repeated type into a slice, so only has-error is compared.
	SkipGohclValue bool
	// BothNestings: compare the step-by-step merge in both nesting directions (thorough)
	BothNestings bool
}

func (r *Rendered) key() string {
	var b strings.Builder
	if r.Expand {
		b.WriteString("E")
	}
	if r.NilCtx {
		b.WriteString("L")
	}
	for _, f := range r.Files {
		if f.JSON {
			b.WriteString("\x00J")
		} else {
			b.WriteString("\x00N")
		}
		b.WriteString(f.Text)
	}
	return b.String()
}

// numberBlocks gives every top-level block an identity.
func numberBlocks(body []*Node) {
	id := 0
	for _, n := range body {
		if n.IsBlock {
			n.IDs = []int{id}
			id++
		}
	}
}

func typeOrder(body []*Node) map[string][]int {
	out := map[string][]int{}
	for _, n := range body {
		if n.IsBlock {
			name := n.Name
			if name == "dynamic" && len(n.Labels) > 0 {
				name = n.Labels[0]
			}
			out[name] = append(out[name], n.IDs...)
		}
	}
	return out
}

func sameInts(a, b []int) bool {
	if len(a) != len(b) {
		return false
	}
	for i := range a {
		if a[i] != b[i] {
			return false
		}
	}
	return true
}

// Apply produces the rewritten sources, or ok=false when the rewrite is not
// applicable to (not meaning-preserving for) this configuration.
func Apply(s *Schema, cfg *Config, rw Rewrite, format func([]byte) []byte) (*Rendered, bool) {
	if !rw.Y.id() && cfg.NoJSON {
		return nil, false
	}
	if rw.Y.Literal && (rw.D != DNone || rw.Y.JSONMask != ^uint(0)) {
		return nil, false
	}
	body := cloneBody(cfg.Body)
	numberBlocks(body)
	orig := typeOrder(body)
	out := &Rendered{NilCtx: rw.Y.Literal}

	// D
	if rw.D != DNone {
		out.Expand = true
		var ok bool
		body, ok = applyDyn(s, body, rw.D)
		if !ok {
			return nil, false
		}
	}
	// P
	if !rw.P.id() {
		var ok bool
		body, ok = applyPerm(s, body, rw.P)
		if !ok {
			return nil, false
		}
	}
	// S
	files := [][]*Node{body}
	if !rw.S.id() {
		if rw.S.Assign != nil {
			if len(rw.S.Assign) != len(body) {
				return nil, false
			}
			files = make([][]*Node, rw.S.Files)
			for i, n := range body {
				files[rw.S.Assign[i]] = append(files[rw.S.Assign[i]], n)
			}
			for _, f := range files {
				if len(f) == 0 {
					return nil, false // partitions have no empty part; empty files are S.Empty
				}
			}
		}
		switch rw.S.Empty {
		case 1:
			files = append([][]*Node{nil}, files...)
		case 2:
			files = append(files, nil)
		}
	}
	// side condition: order of the blocks of every type in the merged result
	var merged []*Node
	for _, f := range files {
		merged = append(merged, f...)
	}
	now := typeOrder(merged)
	for name, ids := range orig {
		if sameInts(ids, now[name]) {
			continue
		}
		b := s.blockByName(name)
		if b == nil || b.Mode.ordered() {
			return nil, false
		}
		out.SkipGohclValue = true
	}
	// Y, F
	nst, doFormat := rw.F.nativeStyle()
	for i, f := range files {
		isJSON := rw.Y.JSONMask&(1<<uint(i)) != 0
		if rw.Y.JSONMask != 0 && rw.Y.JSONMask == ^uint(0) {
			isJSON = true
		}
		if isJSON {
			jst := rw.F.jsonStyle(rw.Y.Spell)
			jst.Literal = rw.Y.Literal
			var zero []string
			for _, it := range s.Items {
				// only for block types without labels: that is the case the specification
				// spells out ("foo": [] = zero blocks); with labels the implementation asks
				// for at least one label property and the specification does not say
				if it.Block == nil || it.Block.NLabels > 0 {
					continue
				}
				used := false
				for _, n := range f {
					if n.Name == it.Block.Name || (n.IsBlock && effType(n) == it.Block.Name) {
						used = true // also when the name is (wrongly) used by an attribute
					}
				}
				if !used {
					zero = append(zero, it.Block.Name)
				}
			}
			out.Files = append(out.Files, SrcFile{JSON: true, Text: RenderJSON(f, jst, zero)})
			continue
		}
		txt := RenderNative(f, nst)
		if doFormat {
			txt = string(format([]byte(txt)))
		}
		out.Files = append(out.Files, SrcFile{Text: txt})
	}
	return out, true
}

// ---- P ---------------------------------------------------------------------------

func applyPerm(s *Schema, body []*Node, p POpt) ([]*Node, bool) {
	// groups in order of first appearance
	var order []int
	groups := map[int][]*Node{}
	for _, n := range body {
		if _, ok := groups[n.Group]; !ok {
			order = append(order, n.Group)
		}
		groups[n.Group] = append(groups[n.Group], n)
	}
	if p.Perm != nil {
		if len(p.Perm) != len(order) {
			return nil, false
		}
		no := make([]int, len(order))
		for i, j := range p.Perm {
			no[i] = order[j]
		}
		order = no
	}
	if p.RevFree {
		any := false
		for _, g := range order {
			ns := groups[g]
			if len(ns) < 2 || !ns[0].IsBlock {
				continue
			}
			name := ns[0].Name
			if name == "dynamic" {
				continue
			}
			b := s.blockByName(name)
			if b == nil || b.Mode.ordered() {
				continue
			}
			rev := make([]*Node, len(ns))
			for i, n := range ns {
				rev[len(ns)-1-i] = n
			}
			groups[g] = rev
			any = true
		}
		if !any {
			return nil, false
		}
	}
	var out []*Node
	if p.Interleave {
		for round := 0; ; round++ {
			any := false
			for _, g := range order {
				if round < len(groups[g]) {
					out = append(out, groups[g][round])
					any = true
				}
			}
			if !any {
				break
			}
		}
	} else {
		for _, g := range order {
			out = append(out, groups[g]...)
		}
	}
	if p.Inner != nil {
		any := false
		for _, n := range out {
			if n.IsBlock && permuteBody(n, p.Inner) {
				any = true
			}
		}
		if !any {
			return nil, false
		}
	}
	return out, true
}

// permuteBody reorders the items of a block body by the pattern (applied to the
// first len(pattern) items; bodies shorter than the pattern are left alone).  For a
// dynamic block the pattern is applied to its content block as well.
func permuteBody(n *Node, pat []int) bool {
	changed := false
	if len(n.Body) >= len(pat) {
		nb := append([]*Node(nil), n.Body...)
		for i, j := range pat {
			nb[i] = n.Body[j]
			if i != j {
				changed = true
			}
		}
		n.Body = nb
	}
	for _, c := range n.Body {
		if c.IsBlock && c.Name == "content" && permuteBody(c, pat) {
			changed = true
		}
	}
	return changed
}

// ---- D ---------------------------------------------------------------------------

// dynamicFor builds one dynamic block standing for the given instances of one type.
// Every attribute is passed through <iterator>.value.<name>, labels through the
// "labels" argument.  Nested blocks of the instances (only produced by a fault) are
// copied into the content block, which is sound only if all instances have the same.
func dynamicFor(insts []*Node, iter string, asMap bool) *Node {
	first := insts[0]
	it := first.Name
	if iter != "" {
		it = iter
	}
	var elems []Val
	for _, in := range insts {
		o := Val{K: VObject}
		for li, l := range in.Labels {
			o.Keys = append(o.Keys, fmt.Sprintf("l%d", li))
			o.Elems = append(o.Elems, Str(l))
		}
		for _, a := range in.Body {
			if !a.IsBlock {
				o.Keys = append(o.Keys, a.Name)
				o.Elems = append(o.Elems, a.Val)
			}
		}
		elems = append(elems, o)
	}
	forEach := Val{K: VTuple, Elems: elems}
	if asMap {
		forEach = Val{K: VObject}
		for i, e := range elems {
			forEach.Keys = append(forEach.Keys, fmt.Sprintf("k%d", i))
			forEach.Elems = append(forEach.Elems, e)
		}
	}
	d := &Node{IsBlock: true, Name: "dynamic", Labels: []string{first.Name}, Group: first.Group}
	for _, in := range insts {
		d.IDs = append(d.IDs, in.IDs...)
	}
	d.Body = append(d.Body, attrNode("for_each", forEach))
	if iter != "" {
		d.Body = append(d.Body, attrNode("iterator", Val{K: VName, S: iter}))
	}
	if len(first.Labels) > 0 {
		var ls []Val
		for li := range first.Labels {
			ls = append(ls, Val{K: VExpr, S: fmt.Sprintf("%s.value.l%d", it, li)})
		}
		d.Body = append(d.Body, attrNode("labels", Val{K: VTuple, Elems: ls}))
	}
	content := &Node{IsBlock: true, Name: "content"}
	for _, a := range first.Body {
		if a.IsBlock {
			content.Body = append(content.Body, a.clone())
		} else {
			content.Body = append(content.Body, attrNode(a.Name, Val{K: VExpr, S: it + ".value." + a.Name}))
		}
	}
	d.Body = append(d.Body, content)
	return d
}

// uniform: same labels count, same attribute names in the same order (a duplicated
// attribute is not expressible as an object key), same nested blocks.
func uniformInstances(insts []*Node) bool {
	shape := func(n *Node) string {
		var b strings.Builder
		fmt.Fprintf(&b, "%d|", len(n.Labels))
		for _, a := range n.Body {
			if a.IsBlock {
				b.WriteString("B:" + a.Name + ";")
			} else {
				b.WriteString(a.Name + ";")
			}
		}
		return b.String()
	}
	for _, in := range insts {
		if shape(in) != shape(insts[0]) {
			return false
		}
	}
	return true
}

func dynExpressible(n *Node) bool {
	seen := map[string]bool{}
	for _, a := range n.Body {
		if a.IsBlock {
			continue
		}
		if seen[a.Name] || strings.HasPrefix(a.Name, "l") && len(a.Name) == 2 {
			return false
		}
		seen[a.Name] = true
	}
	return true
}

func applyDyn(s *Schema, body []*Node, d DOpt) ([]*Node, bool) {
	if d == DExpandOnly {
		return body, true
	}
	// instances per block type
	byType := map[string][]*Node{}
	var types []string
	for _, n := range body {
		if n.IsBlock && s.blockByName(n.Name) != nil {
			if _, ok := byType[n.Name]; !ok {
				types = append(types, n.Name)
			}
			byType[n.Name] = append(byType[n.Name], n)
		}
	}
	eligible := func(t string) bool {
		for _, in := range byType[t] {
			if !dynExpressible(in) {
				return false
			}
		}
		return uniformInstances(byType[t])
	}
	replaced := map[*Node]*Node{} // first instance → dynamic block
	dropped := map[*Node]bool{}
	any := false
	switch d {
	case DAll, DAllIter, DFirstType, DMapEach:
		n := 0
		for _, t := range types {
			if !eligible(t) {
				continue
			}
			n++
			if d == DFirstType && n > 1 {
				break
			}
			iter := ""
			if d == DAllIter {
				iter = "it"
			}
			insts := byType[t]
			replaced[insts[0]] = dynamicFor(insts, iter, d == DMapEach)
			for _, in := range insts[1:] {
				dropped[in] = true
			}
			any = true
		}
		if d == DFirstType && n < 2 {
			return nil, false // identical to DAll
		}
	case DEach:
		for _, t := range types {
			for _, in := range byType[t] {
				if dynExpressible(in) {
					replaced[in] = dynamicFor([]*Node{in}, "", false)
					any = true
				}
			}
		}
	case DHead:
		for _, t := range types {
			insts := byType[t]
			if len(insts) < 2 || !eligible(t) {
				continue
			}
			replaced[insts[0]] = dynamicFor(insts[:len(insts)-1], "", false)
			for _, in := range insts[1 : len(insts)-1] {
				dropped[in] = true
			}
			any = true
		}
	case DTail:
		for _, t := range types {
			insts := byType[t]
			if len(insts) < 2 || !eligible(t) {
				continue
			}
			replaced[insts[1]] = dynamicFor(insts[1:], "", false)
			for _, in := range insts[2:] {
				dropped[in] = true
			}
			any = true
		}
	}
	if !any {
		return nil, false
	}
	var out []*Node
	for _, n := range body {
		if dropped[n] {
			continue
		}
		if r, ok := replaced[n]; ok {
			out = append(out, r)
			continue
		}
		out = append(out, n)
	}
	return out, true
}

// ---- enumeration of the options of each dimension ----------------------------------

func permutations(n int) [][]int {
	var out [][]int
	cur := make([]int, 0, n)
	used := make([]bool, n)
	var rec func()
	rec = func() {
		if len(cur) == n {
			out = append(out, append([]int(nil), cur...))
			return
		}
		for i := 0; i < n; i++ {
			if !used[i] {
				used[i] = true
				cur = append(cur, i)
				rec()
				cur = cur[:len(cur)-1]
				used[i] = false
			}
		}
	}
	rec()
	return out
}

func isIdentity(p []int) bool {
	for i, j := range p {
		if i != j {
			return false
		}
	}
	return true
}

// Limits bound the option sets per tier.
type Limits struct {
	MaxPermGroups  int  // all permutations up to this many groups, a generating family above
	SplitFiles     int  // 2 or 3
	MaxSplitItems  int  // all assignments up to this many items, contiguous cuts above
	PairPermFamily bool // in pairs use only the generating family of permutations
	PairSplitCuts  bool // in pairs with P use only contiguous cuts
	MixedSpellings []JSpelling
	PairF          []FOpt // formatting options used in pairs (nil = all)
	PairsOnFaults  bool   // single-fault configurations get the pairs too (else only the single rewrites)
	// ExpandOnlyPairs: pair "Expand over a body without dynamic blocks" with P and F as
	// well (with S and Y it always is: those change the body implementation under it)
	ExpandOnlyPairs bool
	// BothNestings: step-by-step merges compared in both nesting directions
	BothNestings bool
}

func groupCount(body []*Node) int {
	seen := map[int]bool{}
	for _, n := range body {
		seen[n.Group] = true
	}
	return len(seen)
}

func permFamily(n int) [][]int {
	// reverse, rotate by one, swap of the first two, swap of the last two
	var out [][]int
	add := func(p []int) {
		if isIdentity(p) {
			return
		}
		for _, q := range out {
			if sameInts(p, q) {
				return
			}
		}
		out = append(out, p)
	}
	if n < 2 {
		return nil
	}
	rev := make([]int, n)
	rot := make([]int, n)
	sw1 := make([]int, n)
	sw2 := make([]int, n)
	for i := 0; i < n; i++ {
		rev[i] = n - 1 - i
		rot[i] = (i + 1) % n
		sw1[i] = i
		sw2[i] = i
	}
	sw1[0], sw1[1] = 1, 0
	sw2[n-1], sw2[n-2] = n-2, n-1
	add(rev)
	add(rot)
	add(sw1)
	add(sw2)
	return out
}

func pOptions(cfg *Config, lim Limits, family bool) []POpt {
	g := groupCount(cfg.Body)
	var out []POpt
	var perms [][]int
	if g <= lim.MaxPermGroups && !family {
		for _, p := range permutations(g) {
			if !isIdentity(p) {
				perms = append(perms, p)
			}
		}
	} else {
		perms = permFamily(g)
	}
	multi := false
	cnt := map[int]int{}
	for _, n := range cfg.Body {
		cnt[n.Group]++
		if cnt[n.Group] > 1 {
			multi = true
		}
	}
	for _, p := range perms {
		out = append(out, POpt{Perm: p})
	}
	if multi && g > 1 {
		out = append(out, POpt{Interleave: true})
		for _, p := range perms {
			out = append(out, POpt{Perm: p, Interleave: true})
		}
	}
	if multi {
		out = append(out, POpt{RevFree: true})
	}
	// inner attribute orders
	maxInner := 0
	for _, n := range cfg.Body {
		if n.IsBlock && len(n.Body) > maxInner {
			maxInner = len(n.Body)
		}
	}
	if maxInner > 3 {
		maxInner = 3
	}
	for k := 2; k <= maxInner; k++ {
		for _, p := range permutations(k) {
			if !isIdentity(p) && (k == 2 || p[k-1] != k-1) {
				out = append(out, POpt{Inner: p})
			}
		}
	}
	return out
}

func dOptions() []DOpt {
	return []DOpt{DExpandOnly, DAll, DEach, DAllIter, DFirstType, DTail, DMapEach, DHead}
}

// sOptions: assignments of the items (after D and P, so the item count is passed in).
func sOptions(n int, lim Limits, cutsOnly bool) []SOpt {
	out := []SOpt{{Empty: 1}, {Empty: 2}}
	if n < 2 {
		return out
	}
	for k := 2; k <= lim.SplitFiles && k <= n; k++ {
		if n <= lim.MaxSplitItems && !cutsOnly {
			// every surjective assignment
			asg := make([]int, n)
			var rec func(pos int)
			rec = func(pos int) {
				if pos == n {
					used := make([]bool, k)
					for _, a := range asg {
						used[a] = true
					}
					for _, u := range used {
						if !u {
							return
						}
					}
					out = append(out, SOpt{Files: k, Assign: append([]int(nil), asg...)})
					return
				}
				for f := 0; f < k; f++ {
					asg[pos] = f
					rec(pos + 1)
				}
			}
			rec(0)
			continue
		}
		// contiguous cuts in both file orders, plus odd/even
		if k == 2 {
			for cut := 1; cut < n; cut++ {
				a := make([]int, n)
				b := make([]int, n)
				for i := range a {
					if i >= cut {
						a[i] = 1
					} else {
						b[i] = 1
					}
				}
				out = append(out, SOpt{Files: 2, Assign: a}, SOpt{Files: 2, Assign: b})
			}
			if n > 2 {
				a := make([]int, n)
				for i := range a {
					a[i] = i % 2
				}
				out = append(out, SOpt{Files: 2, Assign: a})
			}
		} else {
			for c1 := 1; c1 < n; c1++ {
				for c2 := c1 + 1; c2 < n; c2++ {
					a := make([]int, n)
					for i := range a {
						switch {
						case i >= c2:
							a[i] = 2
						case i >= c1:
							a[i] = 1
						}
					}
					out = append(out, SOpt{Files: 3, Assign: a})
				}
			}
		}
	}
	return out
}

func yOptionsSingleFile() []YOpt {
	return []YOpt{{JSONMask: ^uint(0), Spell: JGroup}, {JSONMask: ^uint(0), Spell: JArray}, {JSONMask: ^uint(0), Spell: JDup},
		{JSONMask: ^uint(0), Spell: JTopArr}, {JSONMask: ^uint(0), Spell: JGroup, Literal: true}}
}

// yOptionsMulti: every file JSON (each spelling) or a proper non-empty subset of files.
func yOptionsMulti(files int, lim Limits) []YOpt {
	out := yOptionsSingleFile()
	for mask := uint(1); mask < (1<<uint(files))-1; mask++ {
		for _, sp := range lim.MixedSpellings {
			out = append(out, YOpt{JSONMask: mask, Spell: sp})
		}
	}
	return out
}

func fOptions() []FOpt {
	var out []FOpt
	for f := FOpt(1); f < numFOpt; f++ {
		out = append(out, f)
	}
	return out
}
