package c19

import (
	"strings"
)

// The JSON serialiser.  Written from json/spec.md, not from the code under test:
//
//   * a body is a JSON object (or, top level / label levels, an array of objects whose
//     properties are visited in order);
//   * an attribute is a property whose value is mapped as an expression: object →
//     object value (property names are templates too), array → tuple, number, bool,
//     null as themselves, string → a template in the native syntax, so literal text
//     has "${" and "%{" escaped as "$${" and "%%{"; backslash escapes are JSON's only;
//   * a block type is a property; one nested object level per label; after the labels
//     either one object (one block) or an array of objects (several blocks with equal
//     type and labels); arrays can be introduced at every level to keep the order;
//     the same property name may appear several times and all are kept in order;
//   * "//" properties of a body are comments.
//
// Three spellings of the block structure that denote the same block sequence:
//   JGroup  objects wherever the grouping keeps the order of the blocks of a type,
//           array spelling for a type whose order would otherwise change
//   JArray  arrays at every level, one element per block, in source order
//   JDup    one property per block in source order (duplicate property names)
// and JTopArr: the top-level body as an array of one-property objects (over JGroup).

type JSpelling int

const (
	JGroup JSpelling = iota
	JArray
	JDup
	JTopArr
)

var jspellNames = []string{"group", "array", "dup", "toparr"}

type JStyle struct {
	Spell    JSpelling
	Compact  bool
	Comments bool // "//" properties in bodies
	CRLF     bool
	Unicode  bool // non-ASCII and some ASCII as \u escapes
	Literal  bool // literal-only mode: strings are the exact characters, no template escaping
}

// jnode is a minimal JSON document model with ordered, repeatable properties.
type jnode struct {
	kind  byte // 'o' object, 'a' array, 'l' literal (already spelled)
	lit   string
	keys  []string
	elems []*jnode
	body  bool // object represents an HCL body (may carry "//" comments)
}

func jlit(s string) *jnode { return &jnode{kind: 'l', lit: s} }
func jobj() *jnode         { return &jnode{kind: 'o'} }
func jarr(e ...*jnode) *jnode {
	return &jnode{kind: 'a', elems: e}
}
func (o *jnode) set(k string, v *jnode) {
	o.keys = append(o.keys, k)
	o.elems = append(o.elems, v)
}

// jsonQuote spells the characters of s as a JSON string (RFC 7159).
func jsonQuote(s string, uni bool) string {
	var b strings.Builder
	b.WriteByte('"')
	for _, r := range s {
		switch {
		case r == '"':
			b.WriteString(`\"`)
		case r == '\\':
			b.WriteString(`\\`)
		case r == '\n':
			b.WriteString(`\n`)
		case r == '\r':
			b.WriteString(`\r`)
		case r == '\t':
			b.WriteString(`\t`)
		case r < 0x20 || (uni && (r >= 0x80 || r == '$' || r == '/') && r <= 0xffff):
			b.WriteString(`\u`)
			for sh := 12; sh >= 0; sh -= 4 {
				b.WriteByte(hexdigits[(r>>uint(sh))&15])
			}
		default:
			b.WriteRune(r)
		}
	}
	b.WriteByte('"')
	return b.String()
}

type jsonBuilder struct{ st JStyle }

func (jb *jsonBuilder) q(s string) string { return jsonQuote(s, jb.st.Unicode) }

// tmpl spells literal text as the content of a JSON string.
func (jb *jsonBuilder) tmpl(s string) string {
	if jb.st.Literal {
		return s
	}
	return templateEscape(s)
}

// expr maps a value to its JSON expression form.
func (jb *jsonBuilder) expr(v Val) *jnode {
	switch v.K {
	case VNull:
		return jlit("null")
	case VStr:
		return jlit(jb.q(jb.tmpl(v.S)))
	case VNum:
		return jlit(v.S)
	case VBool:
		if v.B {
			return jlit("true")
		}
		return jlit("false")
	case VTuple:
		a := jarr()
		for _, e := range v.Elems {
			a.elems = append(a.elems, jb.expr(e))
		}
		return a
	case VObject:
		o := jobj()
		for i, e := range v.Elems {
			o.set(jb.tmpl(v.Keys[i]), jb.expr(e))
		}
		return o
	case VExpr:
		return jlit(jb.q("${" + v.S + "}"))
	default: // VName
		return jlit(jb.q(v.S))
	}
}

// sameLabels reports whether two blocks have the same type and labels.
func sameLabels(a, b *Node) bool {
	if a.Name != b.Name || len(a.Labels) != len(b.Labels) {
		return false
	}
	for i := range a.Labels {
		if a.Labels[i] != b.Labels[i] {
			return false
		}
	}
	return true
}

// wrapLabels nests leaf under the labels from level `from` on.
func (jb *jsonBuilder) wrapLabels(labels []string, from int, leaf *jnode, arrays bool) *jnode {
	cur := leaf
	for i := len(labels) - 1; i >= from; i-- {
		o := jobj()
		o.set(labels[i], cur)
		cur = o
		if arrays {
			cur = jarr(cur)
		}
	}
	return cur
}

// groupTree builds the grouped-object spelling for the blocks of one type and returns
// it with the block order it denotes (depth-first over the property tree).
type ltree struct {
	keys   []string
	kids   []*ltree
	leaves []*Node
}

func (t *ltree) child(k string) *ltree {
	for i, x := range t.keys {
		if x == k {
			return t.kids[i]
		}
	}
	c := &ltree{}
	t.keys = append(t.keys, k)
	t.kids = append(t.kids, c)
	return c
}

func (t *ltree) order(out *[]*Node) {
	*out = append(*out, t.leaves...)
	for _, k := range t.kids {
		k.order(out)
	}
}

func (jb *jsonBuilder) treeJSON(t *ltree, depth, nlabels int) *jnode {
	if depth == nlabels {
		if len(t.leaves) == 1 {
			return jb.body(t.leaves[0].Body)
		}
		a := jarr()
		for _, l := range t.leaves {
			a.elems = append(a.elems, jb.body(l.Body))
		}
		return a
	}
	o := jobj()
	for i, k := range t.keys {
		o.set(k, jb.treeJSON(t.kids[i], depth+1, nlabels))
	}
	return o
}

// effType: a dynamic "T" block generates blocks of type T, so for the order of the
// blocks of a type it counts as T.
func effType(n *Node) string {
	if n.Name == "dynamic" && len(n.Labels) > 0 {
		return n.Labels[0]
	}
	return n.Name
}

// props returns the ordered property list that represents a body.  Grouping by
// property name must not change the order of the blocks of any (effective) type; if
// it would (a static T block after a dynamic "T" block that is grouped with an earlier
// dynamic block of another type), the body falls back to one property per block.
func (jb *jsonBuilder) props(items []*Node) *jnode {
	o, denoted := jb.propsSpelled(items, jb.st.Spell)
	if jb.st.Spell != JDup {
		want := map[string][]*Node{}
		got := map[string][]*Node{}
		for _, n := range items {
			if n.IsBlock {
				want[effType(n)] = append(want[effType(n)], n)
			}
		}
		for _, n := range denoted {
			got[effType(n)] = append(got[effType(n)], n)
		}
		same := true
		for t, w := range want {
			g := got[t]
			if len(g) != len(w) {
				same = false
				break
			}
			for i := range w {
				if g[i] != w[i] {
					same = false
				}
			}
		}
		if !same {
			o, _ = jb.propsSpelled(items, JDup)
		}
	}
	return o
}

func (jb *jsonBuilder) propsSpelled(items []*Node, spell JSpelling) (*jnode, []*Node) {
	o := jobj()
	o.body = true
	var denoted []*Node
	done := map[string]bool{}
	for i, n := range items {
		if !n.IsBlock {
			o.set(n.Name, jb.expr(n.Val))
			continue
		}
		switch spell {
		case JDup:
			o.set(n.Name, jb.wrapLabels(n.Labels, 0, jb.body(n.Body), false))
			denoted = append(denoted, n)
		case JArray:
			if done[n.Name] {
				continue
			}
			done[n.Name] = true
			a := jarr()
			for _, m := range items[i:] {
				if m.IsBlock && m.Name == n.Name {
					a.elems = append(a.elems, jb.wrapLabels(m.Labels, 0, jarr(jb.body(m.Body)), true).elems0())
					denoted = append(denoted, m)
				}
			}
			o.set(n.Name, a)
		default: // JGroup, JTopArr
			if done[n.Name] {
				continue
			}
			done[n.Name] = true
			var same []*Node
			uniform := true
			for _, m := range items[i:] {
				if m.IsBlock && m.Name == n.Name {
					same = append(same, m)
					if len(m.Labels) != len(n.Labels) {
						uniform = false
					}
				}
			}
			grouped := false
			if uniform {
				root := &ltree{}
				for _, m := range same {
					t := root
					for _, l := range m.Labels {
						t = t.child(l)
					}
					t.leaves = append(t.leaves, m)
				}
				var ord []*Node
				root.order(&ord)
				keeps := true
				for k := range ord {
					if ord[k] != same[k] {
						keeps = false
					}
				}
				if keeps {
					o.set(n.Name, jb.treeJSON(root, 0, len(n.Labels)))
					grouped = true
				}
			}
			if !grouped {
				// array spelling: one element per block keeps the order
				a := jarr()
				for _, m := range same {
					a.elems = append(a.elems, jb.wrapLabels(m.Labels, 0, jb.body(m.Body), false))
				}
				o.set(n.Name, a)
			}
			denoted = append(denoted, same...)
		}
	}
	return o, denoted
}

// elems0 unwraps the outermost one-element array made by wrapLabels(arrays=true) so
// that the caller can put the element into the per-type array.
func (n *jnode) elems0() *jnode {
	if n.kind == 'a' && len(n.elems) == 1 {
		return n.elems[0]
	}
	return n
}

func (jb *jsonBuilder) body(items []*Node) *jnode { return jb.props(items) }

// ---- output ----------------------------------------------------------------------

type jsonWriter struct {
	st  JStyle
	b   strings.Builder
	cmt int
}

func (w *jsonWriter) nl(ind int) {
	if w.st.Compact {
		return
	}
	if w.st.CRLF {
		w.b.WriteString("\r\n")
		w.b.WriteString(strings.Repeat("\t", ind))
		return
	}
	w.b.WriteString("\n")
	w.b.WriteString(strings.Repeat("  ", ind))
}

func (w *jsonWriter) write(n *jnode, ind int) {
	switch n.kind {
	case 'l':
		w.b.WriteString(n.lit)
	case 'a':
		if len(n.elems) == 0 {
			w.b.WriteString("[]")
			return
		}
		w.b.WriteString("[")
		for i, e := range n.elems {
			if i > 0 {
				w.b.WriteString(",")
			}
			w.nl(ind + 1)
			w.write(e, ind+1)
		}
		w.nl(ind)
		w.b.WriteString("]")
	case 'o':
		keys, elems := n.keys, n.elems
		if n.body && w.st.Comments {
			// a comment first, and one more in the middle (duplicate "//" is fine)
			w.cmt++
			keys = append([]string{"//"}, keys...)
			elems = append([]*jnode{jlit(`"a0 = ${zz} {"`)}, elems...)
			if len(n.keys) > 1 && w.cmt%2 == 0 {
				keys = append(keys, "//")
				elems = append(elems, jarr(jlit("1"), jlit(`"%{x}"`)))
			}
		}
		if len(keys) == 0 {
			w.b.WriteString("{}")
			return
		}
		w.b.WriteString("{")
		for i, k := range keys {
			if i > 0 {
				w.b.WriteString(",")
			}
			w.nl(ind + 1)
			w.b.WriteString(jsonQuote(k, w.st.Unicode))
			if w.st.Compact {
				w.b.WriteString(":")
			} else {
				w.b.WriteString(": ")
			}
			w.write(elems[i], ind+1)
		}
		w.nl(ind)
		w.b.WriteString("}")
	}
}

// RenderJSON spells a body in the JSON syntax.  zeroBlocks names block types of the
// schema without a block in this body; the array spelling writes them as the
// "degenerate definition of zero blocks" ("foo": []) that the specification allows.
func RenderJSON(items []*Node, st JStyle, zeroBlocks []string) string {
	jb := &jsonBuilder{st: st}
	top := jb.props(items)
	if st.Spell == JArray {
		for _, z := range zeroBlocks {
			top.set(z, jarr())
		}
	}
	if st.Spell == JTopArr {
		a := jarr()
		for i, k := range top.keys {
			o := jobj()
			o.body = true
			o.set(k, top.elems[i])
			a.elems = append(a.elems, o)
		}
		if len(a.elems) == 0 {
			a.elems = append(a.elems, &jnode{kind: 'o', body: true})
		}
		top = a
	}
	w := &jsonWriter{st: st}
	w.write(top, 0)
	if !st.Compact {
		w.nl(0)
	}
	return w.b.String()
}
