package c19

import (
	"fmt"
	"reflect"
	"regexp"
	"sort"
	"strings"

	hcl "Havoc/pkg/profile/yaotl"
	"Havoc/pkg/profile/yaotl/ext/dynblock"
	"Havoc/pkg/profile/yaotl/gohcl"
	"Havoc/pkg/profile/yaotl/hcldec"
	"Havoc/pkg/profile/yaotl/hclsyntax"
	hcljson "Havoc/pkg/profile/yaotl/json"

	"github.com/zclconf/go-cty/cty"

	"verifmc/ev"
)

// Decoded is what one spelling of a configuration decodes to.
type Decoded struct {
	// hcldec
	DecVal   cty.Value
	DecErr   bool
	DecDiags []string
	// gohcl
	GoVal   interface{}
	GoErr   bool
	GoDiags []string
	// parse
	ParseErr   bool
	ParseDiags []string
	Panic      string
	// MergeNest: the same files merged step by step (a body that is itself a merged body
	// passed to MergeBodies again, to the left or to the right of the others) decode
	// differently from the files merged in one call; empty if they agree.
	MergeNest        string
	MergeNestDecoder string
	// gohcl in two passes: block structs with a remain body, then the remain bodies
	TwoVal string
	TwoErr bool
	// hcldec in two passes: PartialDecode of the top-level arguments, then Decode of what it
	// left over against the block specs
	PDVal string
	PDErr bool
}

func diagSummaries(d hcl.Diagnostics) []string {
	var out []string
	for _, x := range d {
		if x.Severity == hcl.DiagError {
			out = append(out, x.Summary)
		}
	}
	return out
}

// Decode parses the files, merges them when there are several, wraps the body in
// dynblock.Expand when asked, and runs both decoders.  The evaluation context is
// empty but not nil: the JSON syntax interprets strings as templates only in "full
// expression mode", which the implementation selects by a non-nil context.
func Decode(s *Schema, r *Rendered) (d *Decoded) {
	d = &Decoded{}
	defer func() {
		if p := recover(); p != nil {
			d.Panic = ev.Normalize(fmt.Sprint(p))
		}
	}()
	ctx := &hcl.EvalContext{}
	if r.NilCtx {
		ctx = nil
	}
	var files []*hcl.File
	for i, f := range r.Files {
		var file *hcl.File
		var diags hcl.Diagnostics
		if f.JSON {
			file, diags = hcljson.Parse([]byte(f.Text), fmt.Sprintf("f%d.json", i))
		} else {
			file, diags = hclsyntax.ParseConfig([]byte(f.Text), fmt.Sprintf("f%d.hcl", i), hcl.Pos{Line: 1, Column: 1})
		}
		if diags.HasErrors() {
			d.ParseErr = true
			d.ParseDiags = append(d.ParseDiags, diagSummaries(diags)...)
		}
		if file == nil || file.Body == nil {
			d.ParseErr = true
			d.ParseDiags = append(d.ParseDiags, "no body")
			return d
		}
		files = append(files, file)
	}
	var body hcl.Body
	if len(files) == 1 {
		body = files[0].Body
	} else {
		body = hcl.MergeFiles(files)
	}
	if r.Expand {
		body = dynblock.Expand(body, ctx)
	}
	val, diags := hcldec.Decode(body, s.Spec, ctx)
	d.DecVal = val
	d.DecErr = diags.HasErrors()
	d.DecDiags = diagSummaries(diags)

	target := reflect.New(s.GoType)
	gdiags := gohcl.DecodeBody(body, ctx, target.Interface())
	d.GoVal = target.Elem().Interface()
	d.GoErr = gdiags.HasErrors()
	d.GoDiags = diagSummaries(gdiags)

	// two-pass gohcl: labels first, the rest of every block body afterwards
	func() {
		t1 := reflect.New(s.GoTypeRemain)
		g1 := gohcl.DecodeBody(body, ctx, t1.Interface())
		d.TwoErr = g1.HasErrors()
		if d.TwoErr {
			return
		}
		var parts []string
		root := t1.Elem()
		for i := 0; i < root.NumField(); i++ {
			it, ok := s.InnerTypes[i]
			if !ok {
				parts = append(parts, goString(root.Field(i).Interface()))
				continue
			}
			var blocks []reflect.Value
			f := root.Field(i)
			switch f.Kind() {
			case reflect.Ptr:
				if !f.IsNil() {
					blocks = append(blocks, f.Elem())
				}
			case reflect.Struct:
				blocks = append(blocks, f)
			case reflect.Slice:
				for j := 0; j < f.Len(); j++ {
					blocks = append(blocks, f.Index(j))
				}
			}
			for _, bv := range blocks {
				var lbl []string
				for k := 0; k < bv.NumField()-1; k++ {
					lbl = append(lbl, bv.Field(k).String())
				}
				rest, _ := bv.Field(bv.NumField() - 1).Interface().(hcl.Body)
				t2 := reflect.New(it)
				if rest != nil {
					if g2 := gohcl.DecodeBody(rest, ctx, t2.Interface()); g2.HasErrors() {
						d.TwoErr = true
						return
					}
				}
				parts = append(parts, fmt.Sprintf("F%d%q%s", i, lbl, goString(t2.Elem().Interface())))
			}
		}
		d.TwoVal = strings.Join(parts, "|")
	}()

	// two-pass hcldec: the arguments first, the blocks from the leftovers
	func() {
		top, ok := s.Spec.(hcldec.ObjectSpec)
		if !ok {
			return
		}
		first, rest := hcldec.ObjectSpec{}, hcldec.ObjectSpec{}
		for name, sp := range top {
			if _, isAttr := sp.(*hcldec.AttrSpec); isAttr {
				first[name] = sp
			} else {
				rest[name] = sp
			}
		}
		v1, remain, d1 := hcldec.PartialDecode(body, first, ctx)
		if d1.HasErrors() {
			d.PDErr = true
			return
		}
		v2, d2 := hcldec.Decode(remain, rest, ctx)
		if d2.HasErrors() {
			d.PDErr = true
			return
		}
		d.PDVal = v1.GoString() + " + " + v2.GoString()
	}()

	if len(files) >= 2 {
		var bodies []hcl.Body
		for _, f := range files {
			bodies = append(bodies, f.Body)
		}
		// left: ((f0 f1) f2 ... ) then one more (empty) body behind it; right: f0 (f1 ( ... ))
		left := hcl.MergeBodies(bodies[:2])
		for _, b := range bodies[2:] {
			left = hcl.MergeBodies([]hcl.Body{left, b})
		}
		left = hcl.MergeBodies([]hcl.Body{left, hcl.EmptyBody()})
		right := hcl.MergeBodies(bodies[len(bodies)-2:])
		for i := len(bodies) - 3; i >= 0; i-- {
			right = hcl.MergeBodies([]hcl.Body{bodies[i], right})
		}
		right = hcl.MergeBodies([]hcl.Body{hcl.EmptyBody(), right, hcl.EmptyBody()})
		alts := []struct {
			name string
			b    hcl.Body
		}{{"left-nested", left}, {"right-nested", right}}
		if !r.BothNestings {
			alts = alts[:1] // quick: one nesting (a merged body in front of further arguments)
		}
		for _, alt := range alts {
			ab := alt.b
			if r.Expand {
				ab = dynblock.Expand(ab, ctx)
			}
			v2, dg2 := hcldec.Decode(ab, s.Spec, ctx)
			if dg2.HasErrors() != d.DecErr || (!d.DecErr && !v2.RawEquals(d.DecVal)) {
				d.MergeNest, d.MergeNestDecoder = alt.name, "hcldec"
				break
			}
			t2 := reflect.New(s.GoType)
			g2 := gohcl.DecodeBody(ab, ctx, t2.Interface())
			if g2.HasErrors() != d.GoErr || (!d.GoErr && !reflect.DeepEqual(t2.Elem().Interface(), d.GoVal)) {
				d.MergeNest, d.MergeNestDecoder = alt.name, "gohcl"
				break
			}
		}
	}
	return d
}

func (d *Decoded) hasErrDec() bool { return d.ParseErr || d.DecErr }
func (d *Decoded) hasErrGo() bool  { return d.ParseErr || d.GoErr }

var reItemName = regexp.MustCompile(`\b[abl][0-9]\b`)

// Mismatch is one disagreement between the original and a rewrite.
type Mismatch struct {
	Clause  string // "value" | "has-error" | "panic"
	Decoder string // "hcldec" | "gohcl" | "-"
	Shape   string // what differs, narrow and deterministic
	What    string
}

func uniqSorted(xs []string) []string {
	m := map[string]bool{}
	for _, x := range xs {
		m[x] = true
	}
	var out []string
	for x := range m {
		out = append(out, x)
	}
	sort.Strings(out)
	return out
}

// Compare applies the oracle: has-error(original) == has-error(rewrite) for both
// decoders, and where both are error-free value(original) == value(rewrite).
func Compare(s *Schema, orig, rw *Decoded, skipGohclValue bool) []Mismatch {
	var out []Mismatch
	if orig.Panic != "" || rw.Panic != "" {
		if orig.Panic != rw.Panic {
			out = append(out, Mismatch{"panic", "-", "orig=" + short(orig.Panic) + "/rewrite=" + short(rw.Panic),
				fmt.Sprintf("panic differs: original %q, rewrite %q", orig.Panic, rw.Panic)})
		}
		return out
	}
	if rw.MergeNest != "" && !rw.ParseErr {
		out = append(out, Mismatch{"merge-nesting", rw.MergeNestDecoder, rw.MergeNest,
			"the files merged step by step (" + rw.MergeNest + ") decode differently from the same files merged in one MergeFiles call"})
	}
	if orig.hasErrDec() != rw.hasErrDec() {
		out = append(out, errMismatch("hcldec", orig.hasErrDec(), append(orig.ParseDiags, orig.DecDiags...), append(rw.ParseDiags, rw.DecDiags...)))
	} else if !orig.hasErrDec() {
		if !orig.DecVal.RawEquals(rw.DecVal) {
			path := diffPath(orig.DecVal, rw.DecVal)
			out = append(out, Mismatch{"value", "hcldec", s.itemKindAt(path),
				fmt.Sprintf("hcldec value differs at %s: original %s, rewrite %s", path, orig.DecVal.GoString(), rw.DecVal.GoString())})
		}
	}
	if (orig.ParseErr || orig.TwoErr) != (rw.ParseErr || rw.TwoErr) {
		out = append(out, Mismatch{"has-error", "gohcl-two-pass", "-",
			fmt.Sprintf("decoding in two passes (block labels, then the rest of each block body): original has error = %v, rewrite = %v", orig.ParseErr || orig.TwoErr, rw.ParseErr || rw.TwoErr)})
	} else if !orig.ParseErr && !orig.TwoErr && !skipGohclValue && orig.TwoVal != rw.TwoVal {
		out = append(out, Mismatch{"value", "gohcl-two-pass", "-", "two-pass gohcl value differs: original " + orig.TwoVal + ", rewrite " + rw.TwoVal})
	}
	if (orig.ParseErr || orig.PDErr) != (rw.ParseErr || rw.PDErr) {
		out = append(out, Mismatch{"has-error", "hcldec-two-pass", "-",
			fmt.Sprintf("decoding in two passes (PartialDecode of the arguments, then Decode of the leftovers against the blocks): original has error = %v, rewrite = %v", orig.ParseErr || orig.PDErr, rw.ParseErr || rw.PDErr)})
	} else if !orig.ParseErr && !orig.PDErr && orig.PDVal != rw.PDVal {
		out = append(out, Mismatch{"value", "hcldec-two-pass", "-", "two-pass hcldec value differs: original " + orig.PDVal + ", rewrite " + rw.PDVal})
	}
	if orig.hasErrGo() != rw.hasErrGo() {
		out = append(out, errMismatch("gohcl", orig.hasErrGo(), append(orig.ParseDiags, orig.GoDiags...), append(rw.ParseDiags, rw.GoDiags...)))
	} else if !orig.hasErrGo() && !skipGohclValue {
		if !reflect.DeepEqual(orig.GoVal, rw.GoVal) {
			path := goDiffField(s, orig.GoVal, rw.GoVal)
			out = append(out, Mismatch{"value", "gohcl", s.itemKindAt(path),
				fmt.Sprintf("gohcl value differs at %s: original %s, rewrite %s", path, goString(orig.GoVal), goString(rw.GoVal))})
		}
	}
	return out
}

func short(s string) string {
	if s == "" {
		return "none"
	}
	if len(s) > 60 {
		s = s[:60]
	}
	return s
}

func errMismatch(dec string, origErr bool, origDiags, rwDiags []string) Mismatch {
	// the shape names one diagnostic (the alphabetically first summary): the full set
	// varies with the configuration and would split one defect over many signatures
	first := func(d []string) string {
		var n []string
		for _, x := range d {
			n = append(n, reItemName.ReplaceAllString(x, "_")) // item names depend on the position in the schema
		}
		u := uniqSorted(n)
		if len(u) == 0 {
			return "-"
		}
		return u[0]
	}
	if origErr {
		return Mismatch{"has-error", dec, "invalid-becomes-valid:" + first(origDiags),
			fmt.Sprintf("%s: original has errors %v, rewrite has none", dec, uniqSorted(origDiags))}
	}
	return Mismatch{"has-error", dec, "valid-becomes-invalid:" + first(rwDiags),
		fmt.Sprintf("%s: original is error-free, rewrite has errors %v", dec, uniqSorted(rwDiags))}
}

// diffPath names the top-level attribute of the decoded object whose value differs.
func diffPath(a, b cty.Value) string {
	if a.IsNull() || b.IsNull() || !a.Type().IsObjectType() || !b.Type().IsObjectType() {
		return "(root)"
	}
	var names []string
	for n := range a.Type().AttributeTypes() {
		names = append(names, n)
	}
	sort.Strings(names)
	for _, n := range names {
		if !b.Type().HasAttribute(n) {
			return n
		}
		if !a.GetAttr(n).RawEquals(b.GetAttr(n)) {
			return n
		}
	}
	return "(root)"
}

func goDiffField(s *Schema, a, b interface{}) string {
	va, vb := reflect.ValueOf(a), reflect.ValueOf(b)
	for i := 0; i < va.NumField() && i < len(s.Items); i++ {
		if !reflect.DeepEqual(va.Field(i).Interface(), vb.Field(i).Interface()) {
			if s.Items[i].Attr != nil {
				return s.Items[i].Attr.Name
			}
			return s.Items[i].Block.Name
		}
	}
	return "(root)"
}

// itemKindAt maps an item name to its kind code (signatures name kinds, not names).
func (s *Schema) itemKindAt(name string) string {
	for i, it := range s.Items {
		if (it.Attr != nil && it.Attr.Name == name) || (it.Block != nil && it.Block.Name == name) {
			return s.Kinds[i].Code()
		}
	}
	return name
}

// goString prints a decoded Go value with pointers followed.
func goString(v interface{}) string {
	var b strings.Builder
	var rec func(rv reflect.Value)
	rec = func(rv reflect.Value) {
		switch rv.Kind() {
		case reflect.Ptr:
			if rv.IsNil() {
				b.WriteString("nil")
				return
			}
			b.WriteString("&")
			rec(rv.Elem())
		case reflect.Struct:
			b.WriteString("{")
			for i := 0; i < rv.NumField(); i++ {
				if i > 0 {
					b.WriteString(" ")
				}
				b.WriteString(rv.Type().Field(i).Name + ":")
				rec(rv.Field(i))
			}
			b.WriteString("}")
		case reflect.Slice:
			if rv.IsNil() {
				b.WriteString("nil")
				return
			}
			b.WriteString("[")
			for i := 0; i < rv.Len(); i++ {
				if i > 0 {
					b.WriteString(" ")
				}
				rec(rv.Index(i))
			}
			b.WriteString("]")
		case reflect.Map:
			if rv.IsNil() {
				b.WriteString("nil")
				return
			}
			keys := rv.MapKeys()
			sort.Slice(keys, func(i, j int) bool { return keys[i].String() < keys[j].String() })
			b.WriteString("map[")
			for i, k := range keys {
				if i > 0 {
					b.WriteString(" ")
				}
				fmt.Fprintf(&b, "%q:", k.String())
				rec(rv.MapIndex(k))
			}
			b.WriteString("]")
		case reflect.String:
			fmt.Fprintf(&b, "%q", rv.String())
		default:
			fmt.Fprintf(&b, "%v", rv.Interface())
		}
	}
	rec(reflect.ValueOf(v))
	return b.String()
}
