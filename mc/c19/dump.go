package c19

import (
	"fmt"
	"strings"

	"Havoc/pkg/profile/yaotl/hclwrite"
)

// Dump prints, for one schema (comma-separated kind codes), configuration number
// `which` with every single rewrite applied and what each decodes to.  Debug aid.
func Dump(codes string, which int, thorough bool) {
	var kinds []Kind
	for _, c := range strings.Split(codes, ",") {
		k, err := parseKind(c)
		if err != nil {
			fmt.Println(err)
			return
		}
		kinds = append(kinds, k)
	}
	s := NewSchema(kinds)
	lim := Limits{MaxPermGroups: 4, SplitFiles: 2, MaxSplitItems: 5}
	cp := ConfigPlan{Dom: 0, Null: true, MaxRep: 2}
	if len(kinds) >= 2 {
		cp = ConfigPlan{Dom: 2, Few: true, MaxRep: 2, Faults: 1}
	}
	i := -1
	enumerateConfigs(s, cp, func(cfg *Config) {
		i++
		if i != which {
			return
		}
		fmt.Printf("config %d %s fault=%q\n", i, cfg.Desc, cfg.Fault)
		show := func(rw Rewrite) {
			rr, ok := Apply(s, cfg, rw, hclwrite.Format)
			if !ok {
				fmt.Printf("--- %s: not applicable\n", rw)
				return
			}
			d := Decode(s, rr)
			fmt.Printf("--- %s (expand=%v skipgo=%v)\n", rw, rr.Expand, rr.SkipGohclValue)
			for _, f := range rr.Files {
				fmt.Printf("[json=%v]\n%s\n", f.JSON, f.Text)
			}
			fmt.Printf("  => parse=%v hcldec err=%v %v gohcl err=%v %v panic=%q\n", d.ParseDiags, d.DecErr, d.DecDiags, d.GoErr, d.GoDiags, d.Panic)
			if d.Panic == "" && !d.ParseErr {
				fmt.Printf("  => %s\n  => %s\n", d.DecVal.GoString(), goString(d.GoVal))
			}
		}
		show(Rewrite{})
		for _, p := range pOptions(cfg, lim, false) {
			show(Rewrite{P: p})
		}
		for _, d := range dOptions() {
			show(Rewrite{D: d})
		}
		for _, so := range sOptions(len(cfg.Body), lim, true) {
			show(Rewrite{S: so})
		}
		for _, y := range yOptionsSingleFile() {
			show(Rewrite{Y: y})
		}
		for _, f := range fOptions() {
			show(Rewrite{F: f})
		}
		show(Rewrite{D: DAll, Y: YOpt{JSONMask: ^uint(0), Spell: JGroup}})
		show(Rewrite{Y: YOpt{JSONMask: ^uint(0), Spell: JGroup}, F: FComments})
		show(Rewrite{Y: YOpt{JSONMask: ^uint(0), Spell: JArray}, F: FUnicode})
	})
	fmt.Printf("%d configurations\n", i+1)
}
