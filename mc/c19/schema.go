// Package c19: "Equivalent configurations decode to the same result".
//
// One schema description (Schema) is realised twice: as an hcldec.Spec and as a Go
// struct type built with reflect.StructOf carrying `yaotl:"…"` tags for gohcl.
package c19

import (
	hcl "Havoc/pkg/profile/yaotl"
	"fmt"
	"reflect"
	"strings"

	"Havoc/pkg/profile/yaotl/hcldec"

	"github.com/zclconf/go-cty/cty"
)

// AType is the type of an attribute.
type AType int

const (
	TStr AType = iota
	TNum
	TBool
	TList // list(string)
	TMap  // map(string)
	TObj  // object({a=string,b=number})
)

var atypeNames = []string{"string", "number", "bool", "list", "map", "object"}

func (t AType) String() string { return atypeNames[t] }

// AttrD describes one attribute of a body schema.
type AttrD struct {
	Name string
	T    AType
	Req  bool
}

// BMode says how the blocks of one type are decoded by hcldec.
type BMode int

const (
	BSingle    BMode = iota // BlockSpec, optional
	BSingleReq              // BlockSpec, required
	BList                   // BlockListSpec
	BSet                    // BlockSetSpec
	BMap                    // BlockMapSpec (labels are the keys)
	BTuple                  // BlockTupleSpec
	BObject                 // BlockObjectSpec (labels are the keys)
)

var bmodeNames = []string{"single", "singlereq", "list", "set", "map", "tuple", "object"}

func (m BMode) String() string { return bmodeNames[m] }

// ordered: the relative order of the blocks of this type is part of the hcldec result.
func (m BMode) ordered() bool { return m == BList || m == BTuple || m == BSingle || m == BSingleReq }
func (m BMode) repeated() bool {
	return m != BSingle && m != BSingleReq
}

// BlockD describes one block type of the top-level schema (one nested level).
type BlockD struct {
	Name    string
	Mode    BMode
	NLabels int
	Inner   []AttrD
	InnerID int
}

// ItemD is one schema item.
type ItemD struct {
	Attr  *AttrD
	Block *BlockD
}

// Kind is an element of the schema alphabet.
type Kind struct {
	IsBlock bool
	T       AType
	Req     bool
	Mode    BMode
	NLabels int
	Inner   int // index in innerSchemas
}

func (k Kind) Code() string {
	if !k.IsBlock {
		r := "opt"
		if k.Req {
			r = "req"
		}
		return "attr:" + k.T.String() + ":" + r
	}
	return fmt.Sprintf("block:%s:%d:i%d", k.Mode, k.NLabels, k.Inner)
}

func parseKind(code string) (Kind, error) {
	p := strings.Split(code, ":")
	if len(p) == 3 && p[0] == "attr" {
		for i, n := range atypeNames {
			if n == p[1] {
				return Kind{T: AType(i), Req: p[2] == "req"}, nil
			}
		}
	}
	if len(p) == 4 && p[0] == "block" {
		for i, n := range bmodeNames {
			if n == p[1] {
				var nl, in int
				fmt.Sscanf(p[2], "%d", &nl)
				fmt.Sscanf(p[3], "i%d", &in)
				if in < 0 || in >= len(innerSchemas) {
					break
				}
				return Kind{IsBlock: true, Mode: BMode(i), NLabels: nl, Inner: in}, nil
			}
		}
	}
	return Kind{}, fmt.Errorf("bad kind code %q", code)
}

// innerSchemas are the bodies a block type can have.
var innerSchemas = [][]AttrD{
	0: {},
	1: {{Name: "s", T: TStr, Req: true}},
	2: {{Name: "s", T: TStr, Req: true}, {Name: "n", T: TNum}},
	3: {{Name: "t", T: TList, Req: true}, {Name: "m", T: TMap}, {Name: "f", T: TBool}},
	4: {{Name: "o", T: TObj}, {Name: "s", T: TStr}},
}

// Schema is a top-level body schema with its two realisations.
type Schema struct {
	Items []ItemD
	Kinds []Kind
	Key   string

	Spec   hcldec.Spec
	GoType reflect.Type
	// two-pass decoding: GoTypeRemain has, for every block type, a struct of the labels and
	// the rest of the block body (`yaotl:",remain"`); InnerTypes[i] decodes that rest
	GoTypeRemain reflect.Type
	InnerTypes   map[int]reflect.Type
}

func (s *Schema) Codes() []string {
	out := make([]string, len(s.Kinds))
	for i, k := range s.Kinds {
		out[i] = k.Code()
	}
	return out
}

func (s *Schema) blockByName(name string) *BlockD {
	for _, it := range s.Items {
		if it.Block != nil && it.Block.Name == name {
			return it.Block
		}
	}
	return nil
}

// NewSchema builds the schema for a sequence of kinds; item i is named a<i> / b<i>.
func NewSchema(kinds []Kind) *Schema {
	s := &Schema{Kinds: kinds}
	var codes []string
	for i, k := range kinds {
		codes = append(codes, k.Code())
		if k.IsBlock {
			s.Items = append(s.Items, ItemD{Block: &BlockD{Name: fmt.Sprintf("b%d", i), Mode: k.Mode, NLabels: k.NLabels,
				Inner: innerSchemas[k.Inner], InnerID: k.Inner}})
		} else {
			s.Items = append(s.Items, ItemD{Attr: &AttrD{Name: fmt.Sprintf("a%d", i), T: k.T, Req: k.Req}})
		}
	}
	s.Key = strings.Join(codes, ",")
	s.Spec = s.buildSpec()
	s.GoType = s.buildGoType()
	s.GoTypeRemain, s.InnerTypes = s.buildGoTypeRemain()
	return s
}

// ---- hcldec realisation ---------------------------------------------------------

var objType = cty.Object(map[string]cty.Type{"a": cty.String, "b": cty.Number})

func ctyType(t AType) cty.Type {
	switch t {
	case TStr:
		return cty.String
	case TNum:
		return cty.Number
	case TBool:
		return cty.Bool
	case TList:
		return cty.List(cty.String)
	case TMap:
		return cty.Map(cty.String)
	default:
		return objType
	}
}

func labelName(i int) string { return fmt.Sprintf("l%d", i) }

func (s *Schema) buildSpec() hcldec.Spec {
	top := hcldec.ObjectSpec{}
	for _, it := range s.Items {
		if it.Attr != nil {
			top[it.Attr.Name] = &hcldec.AttrSpec{Name: it.Attr.Name, Type: ctyType(it.Attr.T), Required: it.Attr.Req}
			continue
		}
		b := it.Block
		nested := hcldec.ObjectSpec{}
		for _, a := range b.Inner {
			nested[a.Name] = &hcldec.AttrSpec{Name: a.Name, Type: ctyType(a.T), Required: a.Req}
		}
		var labels []string
		for i := 0; i < b.NLabels; i++ {
			labels = append(labels, labelName(i))
		}
		if b.Mode != BMap && b.Mode != BObject {
			for i, l := range labels {
				nested[l] = &hcldec.BlockLabelSpec{Index: i, Name: l}
			}
		}
		switch b.Mode {
		case BSingle:
			top[b.Name] = &hcldec.BlockSpec{TypeName: b.Name, Nested: nested}
		case BSingleReq:
			top[b.Name] = &hcldec.BlockSpec{TypeName: b.Name, Nested: nested, Required: true}
		case BList:
			top[b.Name] = &hcldec.BlockListSpec{TypeName: b.Name, Nested: nested}
		case BSet:
			top[b.Name] = &hcldec.BlockSetSpec{TypeName: b.Name, Nested: nested}
		case BTuple:
			top[b.Name] = &hcldec.BlockTupleSpec{TypeName: b.Name, Nested: nested}
		case BMap:
			top[b.Name] = &hcldec.BlockMapSpec{TypeName: b.Name, LabelNames: labels, Nested: nested}
		case BObject:
			top[b.Name] = &hcldec.BlockObjectSpec{TypeName: b.Name, LabelNames: labels, Nested: nested}
		}
	}
	return top
}

// ---- gohcl realisation ----------------------------------------------------------

type goObj struct {
	A string  `cty:"a"`
	B float64 `cty:"b"`
}

func goType(t AType) reflect.Type {
	switch t {
	case TStr:
		return reflect.TypeOf("")
	case TNum:
		return reflect.TypeOf(float64(0))
	case TBool:
		return reflect.TypeOf(false)
	case TList:
		return reflect.TypeOf([]string(nil))
	case TMap:
		return reflect.TypeOf(map[string]string(nil))
	default:
		return reflect.TypeOf(goObj{})
	}
}

func tag(name, kind string) reflect.StructTag {
	if kind == "" {
		return reflect.StructTag(fmt.Sprintf(`yaotl:"%s"`, name))
	}
	return reflect.StructTag(fmt.Sprintf(`yaotl:"%s,%s"`, name, kind))
}

func (s *Schema) buildGoType() reflect.Type {
	var fields []reflect.StructField
	for i, it := range s.Items {
		fname := fmt.Sprintf("F%d", i)
		if it.Attr != nil {
			// top-level attributes: required = plain value, optional = pointer
			t := goType(it.Attr.T)
			if !it.Attr.Req {
				t = reflect.PtrTo(t)
			}
			fields = append(fields, reflect.StructField{Name: fname, Type: t, Tag: tag(it.Attr.Name, "")})
			continue
		}
		b := it.Block
		var bf []reflect.StructField
		for li := 0; li < b.NLabels; li++ {
			bf = append(bf, reflect.StructField{Name: fmt.Sprintf("L%d", li), Type: reflect.TypeOf(""), Tag: tag(labelName(li), "label")})
		}
		for ai, a := range b.Inner {
			// inner attributes: required = plain value, optional = ",optional" for
			// scalars and pointer for the rest, so that both tag forms are exercised
			t := goType(a.T)
			kind := ""
			if !a.Req {
				if a.T == TStr || a.T == TNum || a.T == TBool {
					kind = "optional"
				} else {
					t = reflect.PtrTo(t)
				}
			}
			bf = append(bf, reflect.StructField{Name: fmt.Sprintf("A%d", ai), Type: t, Tag: tag(a.Name, kind)})
		}
		bt := reflect.StructOf(bf)
		var ft reflect.Type
		switch b.Mode {
		case BSingle:
			ft = reflect.PtrTo(bt)
		case BSingleReq:
			ft = bt
		default:
			ft = reflect.SliceOf(bt)
		}
		fields = append(fields, reflect.StructField{Name: fname, Type: ft, Tag: tag(b.Name, "block")})
	}
	return reflect.StructOf(fields)
}

var bodyType = reflect.TypeOf((*hcl.Body)(nil)).Elem()

// buildGoTypeRemain: like buildGoType, but a block struct holds its labels and the remaining
// body; the inner attributes are decoded from that body in a second pass.
func (s *Schema) buildGoTypeRemain() (reflect.Type, map[int]reflect.Type) {
	var fields []reflect.StructField
	inner := map[int]reflect.Type{}
	for i, it := range s.Items {
		fname := fmt.Sprintf("F%d", i)
		if it.Attr != nil {
			t := goType(it.Attr.T)
			if !it.Attr.Req {
				t = reflect.PtrTo(t)
			}
			fields = append(fields, reflect.StructField{Name: fname, Type: t, Tag: tag(it.Attr.Name, "")})
			continue
		}
		b := it.Block
		var bf, af []reflect.StructField
		for li := 0; li < b.NLabels; li++ {
			bf = append(bf, reflect.StructField{Name: fmt.Sprintf("L%d", li), Type: reflect.TypeOf(""), Tag: tag(labelName(li), "label")})
		}
		bf = append(bf, reflect.StructField{Name: "Rest", Type: bodyType, Tag: reflect.StructTag(`yaotl:",remain"`)})
		for ai, a := range b.Inner {
			t := goType(a.T)
			kind := ""
			if !a.Req {
				if a.T == TStr || a.T == TNum || a.T == TBool {
					kind = "optional"
				} else {
					t = reflect.PtrTo(t)
				}
			}
			af = append(af, reflect.StructField{Name: fmt.Sprintf("A%d", ai), Type: t, Tag: tag(a.Name, kind)})
		}
		inner[i] = reflect.StructOf(af)
		bt := reflect.StructOf(bf)
		var ft reflect.Type
		switch b.Mode {
		case BSingle:
			ft = reflect.PtrTo(bt)
		case BSingleReq:
			ft = bt
		default:
			ft = reflect.SliceOf(bt)
		}
		fields = append(fields, reflect.StructField{Name: fname, Type: ft, Tag: tag(b.Name, "block")})
	}
	return reflect.StructOf(fields), inner
}

// ---- schema enumeration ---------------------------------------------------------

// multisets enumerates all non-decreasing index sequences of length n over [0,k).
func multisets(k, n int, f func([]int)) {
	cur := make([]int, n)
	var rec func(pos, min int)
	rec = func(pos, min int) {
		if pos == n {
			f(append([]int(nil), cur...))
			return
		}
		for i := min; i < k; i++ {
			cur[pos] = i
			rec(pos+1, i)
		}
	}
	rec(0, 0)
}

func attrKinds(types []AType) []Kind {
	var out []Kind
	for _, t := range types {
		out = append(out, Kind{T: t, Req: true}, Kind{T: t, Req: false})
	}
	return out
}

var allATypes = []AType{TStr, TNum, TBool, TList, TMap, TObj}

// fullAlphabet: every attribute type required/optional; nested block optional and
// required; labelled blocks with 1 and 2 labels; repeated blocks as list, set, map
// (and, thorough, tuple and object).
func fullAlphabet(thorough bool) []Kind {
	ks := attrKinds(allATypes)
	ks = append(ks,
		Kind{IsBlock: true, Mode: BSingle, Inner: 2},
		Kind{IsBlock: true, Mode: BSingleReq, Inner: 2},
		Kind{IsBlock: true, Mode: BSingle, NLabels: 1, Inner: 2},
		Kind{IsBlock: true, Mode: BSingle, NLabels: 2, Inner: 1},
		Kind{IsBlock: true, Mode: BList, Inner: 2},
		Kind{IsBlock: true, Mode: BList, NLabels: 1, Inner: 2},
		Kind{IsBlock: true, Mode: BSet, Inner: 2},
		Kind{IsBlock: true, Mode: BMap, NLabels: 1, Inner: 2},
		Kind{IsBlock: true, Mode: BMap, NLabels: 2, Inner: 1},
		// four labels: the JSON spelling nests one object level per label
		Kind{IsBlock: true, Mode: BMap, NLabels: 4, Inner: 1},
		Kind{IsBlock: true, Mode: BList, NLabels: 4, Inner: 1},
	)
	if thorough {
		ks = append(ks,
			Kind{IsBlock: true, Mode: BTuple, Inner: 2},
			Kind{IsBlock: true, Mode: BObject, NLabels: 1, Inner: 2},
			Kind{IsBlock: true, Mode: BList, NLabels: 2, Inner: 1},
			Kind{IsBlock: true, Mode: BSet, NLabels: 1, Inner: 2},
			Kind{IsBlock: true, Mode: BList, Inner: 0},
			Kind{IsBlock: true, Mode: BList, Inner: 3},
			Kind{IsBlock: true, Mode: BSingle, Inner: 4},
			Kind{IsBlock: true, Mode: BMap, NLabels: 1, Inner: 3},
			Kind{IsBlock: true, Mode: BSet, Inner: 4},
		)
	}
	return ks
}

// coreAlphabet is the reduced alphabet used for the larger schemas.
func coreAlphabet(thorough bool) []Kind {
	ks := []Kind{
		{T: TStr, Req: true},
		{T: TNum, Req: false},
		{IsBlock: true, Mode: BSingle, Inner: 2},
		{IsBlock: true, Mode: BList, NLabels: 1, Inner: 2},
		{IsBlock: true, Mode: BSet, Inner: 2},
		{IsBlock: true, Mode: BMap, NLabels: 1, Inner: 2},
	}
	if thorough {
		ks = append(ks,
			Kind{T: TMap, Req: false},
			Kind{T: TList, Req: true},
			Kind{IsBlock: true, Mode: BList, Inner: 2},
			Kind{IsBlock: true, Mode: BSingleReq, NLabels: 1, Inner: 1},
		)
	}
	return ks
}

// SchemaPlan is one schema to explore with the bounds on its configurations and rewrites.
type SchemaPlan struct {
	Kinds []Kind
	Class int // 0: <=1 item, 1: 2 items, 2: 3..4 items
	CP    ConfigPlan
	Lim   Limits
}

var reducedPairF = []FOpt{FComments, FWhitespace, FHeredoc, FFmtWhitespace, FFmtMulti}

func enumerateSchemas(thorough bool) []SchemaPlan {
	var out []SchemaPlan
	seen := map[string]bool{}
	add := func(alpha []Kind, n, class int, cp ConfigPlan, lim Limits) {
		multisets(len(alpha), n, func(ix []int) {
			ks := make([]Kind, n)
			var codes []string
			for i, j := range ix {
				ks[i] = alpha[j]
				codes = append(codes, alpha[j].Code())
			}
			key := strings.Join(codes, ",")
			if seen[key] {
				return
			}
			seen[key] = true
			out = append(out, SchemaPlan{Kinds: ks, Class: class, CP: cp, Lim: lim})
		})
	}
	allSpell := []JSpelling{JGroup, JArray, JDup, JTopArr}
	full := fullAlphabet(thorough)
	core := coreAlphabet(thorough)
	if !thorough {
		small := Limits{MaxPermGroups: 4, SplitFiles: 2, MaxSplitItems: 5, MixedSpellings: allSpell, PairsOnFaults: true, ExpandOnlyPairs: true}
		mid := Limits{MaxPermGroups: 3, SplitFiles: 2, MaxSplitItems: 4, MixedSpellings: []JSpelling{JGroup, JDup},
			PairPermFamily: true, PairSplitCuts: true, PairF: reducedPairF}
		add(full, 0, 0, ConfigPlan{}, small)
		add(full, 1, 0, ConfigPlan{Dom: 0, Null: true, MaxRep: 2}, small)
		add(full, 2, 1, ConfigPlan{Dom: 2, Few: true, MaxRep: 2, Faults: 1}, mid)
		add(core, 3, 2, ConfigPlan{Dom: 2, Few: true, MaxRep: 2, Select: 1, Faults: 2}, mid)
		add(core, 4, 2, ConfigPlan{Dom: 2, Few: true, MaxRep: 2, Select: 1, Faults: 2}, mid)
		return out
	}
	small := Limits{MaxPermGroups: 4, SplitFiles: 3, MaxSplitItems: 6, MixedSpellings: allSpell, PairsOnFaults: true, ExpandOnlyPairs: true, BothNestings: true}
	two := Limits{MaxPermGroups: 4, SplitFiles: 3, MaxSplitItems: 5, MixedSpellings: allSpell, ExpandOnlyPairs: true, BothNestings: true}
	big := Limits{MaxPermGroups: 4, SplitFiles: 3, MaxSplitItems: 4, MixedSpellings: []JSpelling{JGroup, JDup},
		PairPermFamily: true, PairSplitCuts: true, PairF: reducedPairF, BothNestings: true}
	add(full, 0, 0, ConfigPlan{}, small)
	add(full, 1, 0, ConfigPlan{Dom: 0, Null: true, MaxRep: 3}, small)
	add(full, 2, 1, ConfigPlan{Dom: 2, Null: true, Few: true, MaxRep: 3, Faults: 1}, two)
	// (the four-label block types take part in the schemas of one and two items)
	var triples []Kind
	for _, k := range fullAlphabet(false) {
		if k.NLabels < 4 {
			triples = append(triples, k)
		}
	}
	add(triples, 3, 2, ConfigPlan{Dom: 2, Few: true, MaxRep: 2, Select: 1, Faults: 2}, big)
	add(core, 3, 2, ConfigPlan{Dom: 2, Few: true, MaxRep: 3, Select: 2, Faults: 2}, big)
	add(core, 4, 2, ConfigPlan{Dom: 2, Few: true, MaxRep: 2, Select: 1, Faults: 2}, big)
	return out
}
