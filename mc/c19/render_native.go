package c19

import (
	"strings"
	"unicode/utf8"
)

// NStyle selects a formatting of the native syntax.  All styles of one tree denote
// the same configuration: they differ only in comments, whitespace, line endings,
// the spelling of collection constructors (one line / several lines with trailing
// comma) and quoted-string versus heredoc spelling of strings that end in a newline.
type NStyle struct {
	Indent    string
	Eq        string
	NL        string
	Blank     bool // blank lines between items
	Comments  bool
	MultiColl bool // collections over several lines with trailing commas
	Heredoc   bool // strings ending in "\n" (directly the value of an attribute) as heredoc
	// HeredocInterp: the first character of such a heredoc is written as an interpolation
	// of a string literal (${"h"}...): a template sequence is the first token of the body
	HeredocInterp bool
	OneLine       bool // blocks with at most one attribute (and no nested block) on one line
	ColonKeys     bool // object constructor with ":" and quoted keys
	UniEscapes    bool // non-ASCII as \u escapes in quoted strings
}

var canonStyle = NStyle{Indent: "  ", Eq: " = ", NL: "\n"}

func isIdent(s string) bool {
	if s == "" {
		return false
	}
	for i, c := range s {
		switch {
		case c >= 'a' && c <= 'z', c >= 'A' && c <= 'Z', c == '_':
		case c >= '0' && c <= '9', c == '-':
			if i == 0 {
				return false
			}
		default:
			return false
		}
	}
	return true
}

// templateEscape makes literal text safe inside a template (quoted, heredoc or the
// content of a JSON string): the only introducers are "${" and "%{".
func templateEscape(s string) string {
	var b strings.Builder
	for i := 0; i < len(s); i++ {
		if (s[i] == '$' || s[i] == '%') && i+1 < len(s) && s[i+1] == '{' {
			b.WriteByte(s[i])
		}
		b.WriteByte(s[i])
	}
	return b.String()
}

const hexdigits = "0123456789abcdef"

// nativeQuote spells a literal string as a quoted template.
func nativeQuote(s string, uni bool) string {
	t := templateEscape(s)
	var b strings.Builder
	b.WriteByte('"')
	for _, r := range t {
		switch {
		case r == '"':
			b.WriteString(`\"`)
		case r == '\\':
			b.WriteString(`\\`)
		case r == '\n':
			b.WriteString(`\n`)
		case r == '\r':
			b.WriteString(`\r`)
		case r == '\t':
			b.WriteString(`\t`)
		case r >= 0x80 && uni && r <= 0xffff:
			b.WriteString(`\u`)
			for sh := 12; sh >= 0; sh -= 4 {
				b.WriteByte(hexdigits[(r>>uint(sh))&15])
			}
		default:
			b.WriteRune(r)
		}
	}
	b.WriteByte('"')
	return b.String()
}

type nativeWriter struct {
	st  NStyle
	b   strings.Builder
	cmt int
}

func (w *nativeWriter) nl() { w.b.WriteString(w.st.NL) }

func (w *nativeWriter) comment(ind string, kind int) {
	if !w.st.Comments {
		return
	}
	w.cmt++
	switch (w.cmt + kind) % 3 {
	case 0:
		w.b.WriteString(ind + "# a0 = \"zz\" {")
		w.nl()
	case 1:
		w.b.WriteString(ind + "// b0 \"x\" { s = 1 }")
		w.nl()
	default:
		w.b.WriteString(ind + "/* zz = 1" + w.st.NL + ind + "   } */")
		w.nl()
	}
}

func (w *nativeWriter) trail() {
	if !w.st.Comments {
		return
	}
	w.cmt++
	switch w.cmt % 3 {
	case 0:
		w.b.WriteString(" # t = 1")
	case 1:
		w.b.WriteString(" // }")
	default:
		w.b.WriteString(" /* x */")
	}
}

func heredocable(v Val) bool {
	if v.K != VStr || !strings.HasSuffix(v.S, "\n") || strings.Contains(v.S, "\r") {
		return false
	}
	for _, line := range strings.Split(strings.TrimSuffix(v.S, "\n"), "\n") {
		if strings.TrimSpace(line) == "EOT" {
			return false
		}
	}
	return utf8.ValidString(v.S)
}

func (w *nativeWriter) expr(v Val, ind string) {
	switch v.K {
	case VNull:
		w.b.WriteString("null")
	case VStr:
		w.b.WriteString(nativeQuote(v.S, w.st.UniEscapes))
	case VNum, VExpr, VName:
		w.b.WriteString(v.S)
	case VBool:
		if v.B {
			w.b.WriteString("true")
		} else {
			w.b.WriteString("false")
		}
	case VTuple:
		if len(v.Elems) == 0 {
			w.b.WriteString("[]")
			return
		}
		if w.st.MultiColl {
			w.b.WriteString("[")
			w.trail()
			w.nl()
			for _, e := range v.Elems {
				w.comment(ind+w.st.Indent, 0)
				w.b.WriteString(ind + w.st.Indent)
				w.expr(e, ind+w.st.Indent)
				w.b.WriteString(",")
				w.trail()
				w.nl()
			}
			w.b.WriteString(ind + "]")
			return
		}
		w.b.WriteString("[")
		for i, e := range v.Elems {
			if i > 0 {
				w.b.WriteString(", ")
			}
			w.expr(e, ind)
		}
		w.b.WriteString("]")
	case VObject:
		if len(v.Elems) == 0 {
			w.b.WriteString("{}")
			return
		}
		key := func(k string) string {
			if isIdent(k) && !w.st.ColonKeys {
				return k
			}
			return nativeQuote(k, w.st.UniEscapes)
		}
		eq := w.st.Eq
		if w.st.ColonKeys {
			eq = ": "
		}
		if w.st.MultiColl {
			w.b.WriteString("{")
			w.trail()
			w.nl()
			for i, e := range v.Elems {
				w.comment(ind+w.st.Indent, 1)
				w.b.WriteString(ind + w.st.Indent + key(v.Keys[i]) + eq)
				w.expr(e, ind+w.st.Indent)
				if i%2 == 0 {
					w.b.WriteString(",") // the separator may be a comma, a newline or both
				}
				w.trail()
				w.nl()
			}
			w.b.WriteString(ind + "}")
			return
		}
		w.b.WriteString("{")
		if w.st.Eq == " = " {
			w.b.WriteString(" ")
		}
		for i, e := range v.Elems {
			if i > 0 {
				w.b.WriteString(", ")
			}
			w.b.WriteString(key(v.Keys[i]) + eq)
			w.expr(e, ind)
		}
		if w.st.Eq == " = " {
			w.b.WriteString(" ")
		}
		w.b.WriteString("}")
	}
}

func (w *nativeWriter) attr(n *Node, ind string) {
	w.b.WriteString(ind + n.Name + w.st.Eq)
	if w.st.Heredoc && heredocable(n.Val) {
		w.b.WriteString("<<EOT")
		w.nl()
		body := templateEscape(strings.TrimSuffix(n.Val.S, "\n"))
		if w.st.HeredocInterp && len(body) > 0 && (body[0] >= 'a' && body[0] <= 'z' || body[0] >= 'A' && body[0] <= 'Z' || body[0] >= '0' && body[0] <= '9') {
			body = `${"` + body[:1] + `"}` + body[1:]
		}
		for _, line := range strings.Split(body, "\n") {
			w.b.WriteString(line)
			w.nl()
		}
		w.b.WriteString("EOT")
		w.nl()
		return
	}
	w.expr(n.Val, ind)
	w.trail()
	w.nl()
}

func (w *nativeWriter) body(items []*Node, ind string) {
	for i, n := range items {
		if w.st.Blank && i > 0 {
			w.nl()
			if i%2 == 0 {
				w.b.WriteString(" \t")
				w.nl()
			}
		}
		w.comment(ind, i)
		if !n.IsBlock {
			w.attr(n, ind)
			continue
		}
		w.b.WriteString(ind + n.Name)
		for _, l := range n.Labels {
			w.b.WriteString(" " + nativeQuote(l, false))
		}
		if w.st.Eq == "=" {
			w.b.WriteString("{")
		} else {
			w.b.WriteString(" {")
		}
		oneLine := w.st.OneLine && !w.st.Comments && (len(n.Body) == 0 || (len(n.Body) == 1 && !n.Body[0].IsBlock &&
			!(w.st.Heredoc && heredocable(n.Body[0].Val)) && !w.st.MultiColl))
		if oneLine {
			if len(n.Body) == 1 {
				w.b.WriteString(" " + n.Body[0].Name + w.st.Eq)
				w.expr(n.Body[0].Val, ind)
				w.b.WriteString(" ")
			}
			w.b.WriteString("}")
			w.nl()
			continue
		}
		w.trail()
		w.nl()
		w.body(n.Body, ind+w.st.Indent)
		w.comment(ind+w.st.Indent, 2)
		w.b.WriteString(ind + "}")
		w.trail()
		w.nl()
	}
}

// RenderNative spells a body in the native syntax.
func RenderNative(items []*Node, st NStyle) string {
	w := &nativeWriter{st: st}
	if st.Blank {
		w.nl()
		w.nl()
	}
	w.body(items, "")
	w.comment("", 1)
	if st.Blank {
		w.nl()
		w.b.WriteString("   ")
		w.nl()
	}
	return w.b.String()
}
