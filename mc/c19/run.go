package c19

import (
	"encoding/json"
	"fmt"
	"hash/fnv"
	"os"
	"runtime"
	"runtime/debug"
	"runtime/pprof"
	"sort"
	"strings"
	"sync"
	"sync/atomic"
	"time"

	"Havoc/pkg/profile/yaotl/hclwrite"
	"github.com/zclconf/go-cty/cty"

	"verifmc/ev"
)

// family names a rewrite dimension for signatures (without its parameters).
func families(rw Rewrite) []string {
	var d []string
	if !rw.P.id() {
		d = append(d, "reorder")
	}
	switch rw.D {
	case DNone:
	case DExpandOnly:
		d = append(d, "expand-only")
	default:
		d = append(d, "dynamic")
	}
	if !rw.S.id() {
		d = append(d, "split")
	}
	if !rw.Y.id() {
		d = append(d, "json")
	}
	if rw.F != FNone {
		if rw.F >= FFmtCanon {
			d = append(d, "hclwrite-format")
		} else {
			d = append(d, "format")
		}
	}
	return d
}

// Case is the replayable artefact of one comparison.
type Case struct {
	Schema   []string  `json:"schema"`
	Config   string    `json:"config"`
	Fault    string    `json:"fault,omitempty"`
	Rewrite  string    `json:"rewrite"`
	Original []SrcFile `json:"original"`
	Files    []SrcFile `json:"files"`
	Expand   bool      `json:"expand"`
	NilCtx   bool      `json:"nil_ctx,omitempty"`
	SkipGo   bool      `json:"skip_gohcl_value,omitempty"`
	What     string    `json:"what,omitempty"`
	Count    int       `json:"count,omitempty"`
}

type found struct {
	key  [3]int
	what string
	c    Case
	n    int
}

type collector struct {
	mu sync.Mutex
	m  map[string]*found
}

func less3(a, b [3]int) bool {
	for i := 0; i < 3; i++ {
		if a[i] != b[i] {
			return a[i] < b[i]
		}
	}
	return false
}

func (c *collector) add(sig string, key [3]int, what string, cs Case) {
	c.mu.Lock()
	defer c.mu.Unlock()
	f, ok := c.m[sig]
	if !ok {
		c.m[sig] = &found{key: key, what: what, c: cs, n: 1}
		return
	}
	f.n++
	if less3(key, f.key) {
		f.key, f.what, f.c = key, what, cs
	}
}

var countOnly = os.Getenv("C19_COUNT_ONLY") != ""

type localStats struct {
	evals, configs, valid, invalid, notApplicable, dups int64
	outcomes                                            map[string]struct{}
	byFamily                                            map[string]int64
	bySize                                              [5]int64
}

// exploreSchema runs every configuration × rewrite of one schema.
func exploreSchema(si int, plan SchemaPlan, thorough bool, col *collector, st *localStats, r *ev.Run, stop *int32) {
	s := NewSchema(plan.Kinds)
	lim := plan.Lim
	ci := -1
	enumerateConfigs(s, plan.CP, func(cfg *Config) {
		ci++
		if atomic.LoadInt32(stop) != 0 {
			return
		}
		exploreConfig(si, ci, s, cfg, lim, col, st, r)
	})
}

func hashKey(k string) [16]byte {
	h := fnv.New128a()
	h.Write([]byte(k))
	var out [16]byte
	copy(out[:], h.Sum(nil))
	return out
}

func exploreConfig(si, ci int, s *Schema, cfg *Config, lim Limits, col *collector, st *localStats, r *ev.Run) {
	st.configs++
	origR, ok := Apply(s, cfg, Rewrite{}, hclwrite.Format)
	if !ok {
		return
	}
	orig := Decode(s, origR)
	cls := "valid"
	switch {
	case orig.Panic != "":
		cls = "panic"
	case orig.ParseErr:
		cls = "parse-error"
	case orig.DecErr && orig.GoErr:
		cls = "invalid-both"
	case orig.DecErr:
		cls = "invalid-hcldec-only"
	case orig.GoErr:
		cls = "invalid-gohcl-only"
	}
	if cls == "valid" {
		st.valid++
	} else {
		st.invalid++
	}
	if cfg.Fault == "" && cls != "valid" {
		st.outcomes["generated-as-valid-but:"+cls] = struct{}{}
	}
	seen := map[[16]byte]struct{}{hashKey(origR.key()): {}}
	var origNil *Decoded // the original decoded in literal-only mode (nil context), on demand
	// mismatches already attributed to a single rewrite dimension of this configuration
	singleHit := map[string]bool{}
	ri := 0
	eval := func(rw Rewrite) {
		ri++
		rr, ok := Apply(s, cfg, rw, hclwrite.Format)
		if !ok {
			st.notApplicable++
			return
		}
		k := hashKey(rr.key())
		if _, dup := seen[k]; dup {
			st.dups++
			return
		}
		seen[k] = struct{}{}
		st.evals++
		if countOnly {
			st.byFamily[strings.Join(families(rw), "+")]++
			st.bySize[len(s.Items)]++
			return
		}
		rr.BothNestings = lim.BothNestings
		d := Decode(s, rr)
		orig := orig
		if rr.NilCtx {
			if origNil == nil {
				origNil = Decode(s, &Rendered{Files: origR.Files, NilCtx: true})
			}
			orig = origNil
		}
		fams := families(rw)
		fam := strings.Join(fams, "+")
		st.byFamily[fam]++
		st.bySize[len(s.Items)]++
		mm := Compare(s, orig, d, rr.SkipGohclValue)
		if len(mm) == 0 {
			st.outcomes[fam+"|"+cls+"|same"] = struct{}{}
			if len(s.Items) >= 2 && len(cfg.Body) >= 2 && ri%97 == 3 && r.WantSample() {
				r.Sample(map[string]any{"schema": s.Codes(), "rewrite": rw.String(), "class": cls, "original": origR.Files, "files": rr.Files})
			}
			return
		}
		for _, m := range mm {
			id := m.Clause + "/" + m.Decoder + "/" + m.Shape
			if len(fams) == 1 {
				singleHit[fams[0]+"|"+id] = true
			} else {
				attributed := false
				for _, f := range fams {
					if singleHit[f+"|"+id] {
						attributed = true
					}
				}
				if attributed {
					continue // the same disagreement is already reported for one of the two component rewrites alone
				}
			}
			st.outcomes[fam+"|"+cls+"|DIFF:"+m.Clause] = struct{}{}
			sig := m.Clause + "/" + m.Decoder + "/" + fam + "/" + m.Shape
			col.add(sig, [3]int{si, ci, ri}, m.What, Case{Schema: s.Codes(), Config: cfg.Desc, Fault: cfg.Fault, Rewrite: rw.String(),
				Original: origR.Files, Files: rr.Files, Expand: rr.Expand, NilCtx: rr.NilCtx, SkipGo: rr.SkipGohclValue, What: m.What})
		}
	}

	// ---- singles
	pAll := pOptions(cfg, lim, false)
	dAll := dOptions()
	fAll := fOptions()
	ySingle := yOptionsSingleFile()
	n := len(cfg.Body)
	for _, p := range pAll {
		eval(Rewrite{P: p})
	}
	for _, d := range dAll {
		eval(Rewrite{D: d})
	}
	for _, so := range sOptions(n, lim, false) {
		eval(Rewrite{S: so})
	}
	for _, y := range ySingle {
		eval(Rewrite{Y: y})
	}
	for _, f := range fAll {
		eval(Rewrite{F: f})
	}

	// ---- pairs
	if cfg.Fault != "" && !lim.PairsOnFaults {
		return
	}
	fPair := fAll
	if lim.PairF != nil {
		fPair = lim.PairF
	}
	pPair := pAll
	if lim.PairPermFamily {
		pPair = pOptions(cfg, lim, true)
	}
	for _, p := range pPair {
		for _, d := range dAll {
			if d == DExpandOnly && !lim.ExpandOnlyPairs {
				continue
			}
			eval(Rewrite{P: p, D: d})
		}
		for _, y := range ySingle {
			eval(Rewrite{P: p, Y: y})
		}
		for _, f := range fPair {
			eval(Rewrite{P: p, F: f})
		}
	}
	sForP := sOptions(n, lim, lim.PairSplitCuts)
	for _, p := range pPair {
		for _, so := range sForP {
			eval(Rewrite{P: p, S: so})
		}
	}
	for _, d := range dAll {
		for _, y := range ySingle {
			eval(Rewrite{D: d, Y: y})
		}
		for _, f := range fPair {
			if d == DExpandOnly && !lim.ExpandOnlyPairs {
				continue
			}
			eval(Rewrite{D: d, F: f})
		}
		// the item count after D decides the partitions
		body := cloneBody(cfg.Body)
		if nb, ok := applyDyn(s, body, d); ok {
			for _, so := range sOptions(len(nb), lim, false) {
				eval(Rewrite{D: d, S: so})
			}
		}
	}
	for _, so := range sOptions(n, lim, false) {
		files := so.Files
		if files == 0 {
			files = 1
		}
		if so.Empty != 0 {
			files++
		}
		for _, y := range yOptionsMulti(files, lim) {
			eval(Rewrite{S: so, Y: y})
		}
		for _, f := range fPair {
			eval(Rewrite{S: so, F: f})
		}
	}
	for _, y := range ySingle {
		for _, f := range fPair {
			eval(Rewrite{Y: y, F: f})
		}
	}
}

// Run is the entry point of the check.
func Run(r *ev.Run) {
	thorough := r.Thorough()
	plans := enumerateSchemas(thorough)
	runNested(r)
	deadline := 150 * time.Second
	if thorough {
		deadline = 18 * time.Minute
	}
	if v := os.Getenv("C19_DEADLINE_S"); v != "" {
		var sec int
		fmt.Sscanf(v, "%d", &sec)
		if sec > 0 {
			deadline = time.Duration(sec) * time.Second
		}
	}
	r.Rule = "schemas = multisets of <=2 items over the full kind alphabet and of 3..4 items over the core alphabet, each realised as hcldec.Spec and reflect.StructOf type; " +
		"configurations = product of per-item alternatives (domain values / absent / null; 0..2(3) block instances over labels {a,b} and 2..3 bodies) plus every single-fault variant; " +
		"rewrites = every point with one or two non-identity coordinates in the product of dimensions P(reorder) x D(dynamic) x S(split+MergeFiles) x Y(JSON spellings) x F(formatting, hclwrite.Format), " +
		"subject to the meaning-preservation side conditions; de-duplicated by rendered text; oracle: has-error and decoded value of both decoders equal to the canonical native single-file original"
	r.Bounds["schemas"] = len(plans)
	r.Bounds["max_schema_items"] = 4
	r.Bounds["labels"] = []string{"a", "b"}
	r.Bounds["max_block_instances"] = map[bool]int{false: 2, true: 3}[thorough]
	r.Bounds["split_files"] = map[bool]int{false: 2, true: 3}[thorough]
	r.Bounds["deadline_s"] = int(deadline.Seconds())
	r.Assume(
		"decoding uses an empty, non-nil hcl.EvalContext: the JSON syntax treats strings as templates only in full-expression mode, which the implementation selects by a non-nil context; the literal-only JSON rewrite decodes original and rewrite with a nil context",
		"configurations with a fault the JSON syntax cannot express (attribute written as block, extra or missing block label) are not rewritten to JSON",
		"values are compared only when both sides are error-free; with errors only has-error is compared",
		"gohcl decodes every repeated block type into a slice, so after a reordering of an order-free type (set/map/object in hcldec) only has-error is compared for gohcl",
	)

	if pf := os.Getenv("C19_CPUPROFILE"); pf != "" {
		if f, err := os.Create(pf); err == nil {
			pprof.StartCPUProfile(f)
			defer pprof.StopCPUProfile()
		}
	}
	debug.SetGCPercent(400)
	col := &collector{m: map[string]*found{}}
	workers := runtime.NumCPU()
	if workers > 32 {
		workers = 32
	}
	var stop int32
	var next int64 = -1
	var done int64
	stats := make([]*localStats, workers)
	var wg sync.WaitGroup
	// Schemas are handed out in a fixed stride order, so that a run cut by the deadline
	// has covered a spread of the schema list rather than a prefix.  The order does
	// not influence the result of a complete run.
	order := make([]int, len(plans))
	stride := 7919
	gcd := func(a, b int) int {
		for b != 0 {
			a, b = b, a%b
		}
		return a
	}
	for len(plans) > 1 && gcd(stride, len(plans)) != 1 {
		stride++
	}
	for i := range order {
		order[i] = (i * stride) % len(plans)
	}
	for w := 0; w < workers; w++ {
		st := &localStats{outcomes: map[string]struct{}{}, byFamily: map[string]int64{}}
		stats[w] = st
		wg.Add(1)
		go func() {
			defer wg.Done()
			for {
				i := atomic.AddInt64(&next, 1)
				if int(i) >= len(order) || atomic.LoadInt32(&stop) != 0 {
					return
				}
				exploreSchema(order[i], plans[order[i]], thorough, col, st, r, &stop)
				if atomic.LoadInt32(&stop) == 0 {
					atomic.AddInt64(&done, 1)
				}
			}
		}()
	}
	finished := make(chan struct{})
	go func() { wg.Wait(); close(finished) }()
	select {
	case <-finished:
	case <-time.After(deadline):
		atomic.StoreInt32(&stop, 1)
		<-finished
		r.NotExhaustive(fmt.Sprintf("internal deadline of %v reached after %d of %d schemas", deadline, atomic.LoadInt64(&done), len(plans)))
	}

	var tot localStats
	tot.byFamily = map[string]int64{}
	for _, st := range stats {
		tot.evals += st.evals
		tot.configs += st.configs
		tot.valid += st.valid
		tot.invalid += st.invalid
		tot.notApplicable += st.notApplicable
		tot.dups += st.dups
		for o := range st.outcomes {
			r.Outcome(o)
		}
		for f, n := range st.byFamily {
			tot.byFamily[f] += n
		}
		for i, n := range st.bySize {
			tot.bySize[i] += n
		}
	}
	r.Eval(int(tot.evals))
	r.Extra["configurations"] = tot.configs
	r.Extra["configurations_valid"] = tot.valid
	r.Extra["configurations_invalid"] = tot.invalid
	r.Extra["rewrites_not_applicable"] = tot.notApplicable
	r.Extra["rewrites_duplicate_text"] = tot.dups
	r.Extra["schemas_completed"] = atomic.LoadInt64(&done)
	r.Extra["comparisons_by_rewrite_family"] = tot.byFamily
	r.Extra["comparisons_by_schema_size"] = tot.bySize

	sigs := make([]string, 0, len(col.m))
	for s := range col.m {
		sigs = append(sigs, s)
	}
	sort.Strings(sigs)
	for _, sig := range sigs {
		f := col.m[sig]
		f.c.Count = f.n
		r.Violate(sig, f.what, f.c)
	}
}

// Replay re-runs the comparison stored in a replay file; returns the exit code.
func Replay(path string) int {
	b, err := os.ReadFile(path)
	if err != nil {
		fmt.Fprintln(os.Stderr, err)
		return 2
	}
	var doc struct {
		Signature string `json:"signature"`
		Detail    Case   `json:"detail"`
	}
	if err := json.Unmarshal(b, &doc); err != nil {
		fmt.Fprintln(os.Stderr, err)
		return 2
	}
	var kinds []Kind
	for _, c := range doc.Detail.Schema {
		k, err := parseKind(c)
		if err != nil {
			fmt.Fprintln(os.Stderr, err)
			return 2
		}
		kinds = append(kinds, k)
	}
	s := NewSchema(kinds)
	orig := Decode(s, &Rendered{Files: doc.Detail.Original, NilCtx: doc.Detail.NilCtx})
	rw := Decode(s, &Rendered{Files: doc.Detail.Files, Expand: doc.Detail.Expand, NilCtx: doc.Detail.NilCtx})
	mm := Compare(s, orig, rw, doc.Detail.SkipGo)
	fmt.Printf("replay %s\n schema: %v\n rewrite: %s\n", doc.Signature, doc.Detail.Schema, doc.Detail.Rewrite)
	for i, f := range doc.Detail.Original {
		fmt.Printf(" original file %d (json=%v):\n%s\n", i, f.JSON, f.Text)
	}
	for i, f := range doc.Detail.Files {
		fmt.Printf(" rewritten file %d (json=%v):\n%s\n", i, f.JSON, f.Text)
	}
	fmt.Printf(" original: hcldec err=%v %v value=%s | gohcl err=%v %v value=%s | parse %v\n", orig.DecErr, orig.DecDiags, safeGoString(orig), orig.GoErr, orig.GoDiags, goStringSafe(orig.GoVal), orig.ParseDiags)
	fmt.Printf(" rewrite : hcldec err=%v %v value=%s | gohcl err=%v %v value=%s | parse %v\n", rw.DecErr, rw.DecDiags, safeGoString(rw), rw.GoErr, rw.GoDiags, goStringSafe(rw.GoVal), rw.ParseDiags)
	if len(mm) == 0 {
		fmt.Println("REPLAY: no disagreement on this tree")
		return 0
	}
	for _, m := range mm {
		fmt.Printf("REPLAY: VIOLATION %s/%s/%s — %s\n", m.Clause, m.Decoder, m.Shape, m.What)
	}
	return 1
}

func safeGoString(d *Decoded) string {
	if d.DecVal == cty.NilVal {
		return "-"
	}
	return d.DecVal.GoString()
}

func goStringSafe(v interface{}) string {
	if v == nil {
		return "-"
	}
	return goString(v)
}
