package c07

import (
	"fmt"
	"os"
	"os/exec"
	"path/filepath"
	"runtime"
	"strconv"
	"strings"
	"sync"
	"time"

	"verifmc/ev"
	"verifmc/seam"
)

// A unit is one piece of the bounded space handled by one worker process (the
// teamserver has process-wide state: logr.LogrInstance, the logger).
//
//	prod:<fs|bof>:<k>:<K>   file names with index = k mod K through one transport
//	svc:<k>:<K>             file names (same shard rule) x every service agent id
//	shot                    screenshot cases
//	hist:<cfg>:<first>      history BFS of one transport configuration below one first operation
type unit string

func tierParams(thorough bool) (maxSeg, shards int, budget time.Duration) {
	maxSeg, shards, budget = 3, 8, 70*time.Second
	if thorough {
		maxSeg, shards, budget = 4, 24, 17*time.Minute
	}
	if n, err := strconv.Atoi(os.Getenv("VERIF_C07_BUDGET")); err == nil && n > 0 {
		budget = time.Duration(n) * time.Second // for a busy machine
	}
	return
}

func units(thorough bool) []unit {
	_, shards, _ := tierParams(thorough)
	var us []unit
	// Round-robin over the three kinds of work so that, when a busy machine makes the
	// deadline cut the run, every clause of the property has had its share.
	var hist, svc, prod []unit
	for _, c := range histCfgs {
		for f := 0; f < 3*nTransfers+2; f++ {
			hist = append(hist, unit(fmt.Sprintf("hist:%s:%d", c.name, f)))
		}
	}
	for k := 0; k < shards; k++ {
		svc = append(svc, unit(fmt.Sprintf("svc:%d:%d", k, shards)))
		prod = append(prod, unit(fmt.Sprintf("prod:fs:%d:%d", k, shards)), unit(fmt.Sprintf("prod:bof:%d:%d", k, shards)))
	}
	us = append(us, "shot", "fault")
	for i := 0; i < len(hist) || i < len(svc) || i < len(prod); i++ {
		for _, l := range [][]unit{hist, svc, prod} {
			if i < len(l) {
				us = append(us, l[i])
			}
		}
	}
	return us
}

func Run(r *ev.Run) {
	if u := os.Getenv("VERIF_C07_UNIT"); u != "" {
		worker(r, unit(u))
		return
	}
	maxSeg, _, budget := tierParams(r.Thorough())
	start := time.Now()
	deadline := start.Add(budget)
	names := fileNames(maxSeg)
	nx := nTransfers
	depths := map[string]int{}
	for _, c := range histCfgs {
		depths[c.name] = c.depth(r.Thorough())
	}
	r.Rule = fmt.Sprintf("(1) name product: every sequence of 1..%d segments over {a, .., ., empty, Download, Download2, own id, other agent's id, a\\x00, 300*a} joined by every mix of / and \\, behind each prefix {none, C:\\, C:/, C:}, plus 112 deep-escape names (4..10 levels of ..), de-duplicated (%d names), each sent as open+write+write+close through COMMAND_FS/download and through BEACON_OUTPUT CALLBACK_FILE*; (2) the same names x %d service AgentIDs through service.dispatch AgentOutput/download; (3) screenshot callbacks; (4) explicit-state BFS over open/write/close of %d transfers (two ids of one agent with different files, a third id of that agent sharing a name with the first, the same id and name on a second agent) plus write/close of a never-opened id, in 4 transport configurations (depth per configuration %v), states de-duplicated by (model, files on disk)", maxSeg, len(names), len(serviceIDs()), nx, depths)
	r.Bounds["name_segments_max"] = maxSeg
	r.Bounds["file_names"] = len(names)
	r.Bounds["service_agent_ids"] = len(serviceIDs())
	r.Bounds["history_depth"] = depths
	r.Bounds["history_transfers"] = nx
	r.Bounds["history_transport_configs"] = len(histCfgs)
	r.Assume(
		"the teamserver runs on a POSIX file system (as the project requires); '\\' is an ordinary file-name byte for the service path",
		"an agent's own loot area is loot/agents/<NameID>/{Download/**, Screenshots/**, Console_<NameID>.log} and the directory loot/agents/<NameID> itself",
		"a service AgentID that is not a single directory name (empty, ., .., contains /) designates no agent: nothing may be created for it",
		"opening a file id that is still open is outside the statement: containment is checked for that step, the history is not extended",
		"console logs are excluded from 'a dropped chunk changes nothing' (the teamserver logs an error line there), but the chunk bytes must not occur in any file",
	)

	us := units(r.Thorough())
	dir, err := os.MkdirTemp(seam.BaseTmp(), "c07-parts-")
	if err != nil {
		panic(err)
	}
	defer os.RemoveAll(dir)
	par := runtime.NumCPU()
	if par > 16 {
		par = 16
	}
	type res struct {
		err  error
		tail string
	}
	results := make([]res, len(us))
	sem := make(chan struct{}, par)
	var wg sync.WaitGroup
	for i, u := range us {
		wg.Add(1)
		sem <- struct{}{}
		go func(i int, u unit) {
			defer wg.Done()
			defer func() { <-sem }()
			cmd := exec.Command(os.Args[0])
			cmd.Env = append(os.Environ(), "VERIF_C07_UNIT="+string(u), "VERIF_C07_OUT="+filepath.Join(dir, strconv.Itoa(i)+".json"),
				"VERIF_C07_DEADLINE="+strconv.FormatInt(deadline.UnixNano(), 10))
			t0 := time.Now()
			out, err := cmd.CombinedOutput()
			if os.Getenv("VERIF_C07_VERBOSE") != "" {
				fmt.Fprintf(os.Stderr, "unit %-28s %6.1fs (started at %5.1fs)\n", u, time.Since(t0).Seconds(), t0.Sub(start).Seconds())
			}
			t := string(out)
			if len(t) > 600 {
				t = t[len(t)-600:]
			}
			results[i] = res{err, t}
		}(i, u)
	}
	wg.Wait()
	died := 0
	for i, u := range us {
		if results[i].err != nil {
			died++
			fmt.Fprintf(os.Stderr, "C07: worker for unit %s failed: %v\n%s\n", u, results[i].err, results[i].tail)
			r.NotExhaustive(fmt.Sprintf("worker for unit %s ended abnormally (%v)", u, results[i].err))
			continue
		}
		if err := r.MergePartialFile(filepath.Join(dir, strconv.Itoa(i)+".json")); err != nil {
			died++
			fmt.Fprintf(os.Stderr, "C07: no result from unit %s: %v\n", u, err)
			r.NotExhaustive(fmt.Sprintf("no result from unit %s", u))
		}
	}
	r.AddStates(1, 0, 0) // the empty history, root of every first-operation shard
	r.Note("history states are de-duplicated inside each (configuration, first operation) shard; the totals are sums over %d shards", len(histCfgs)*(3*nx+2))
	if died > 0 {
		r.Extra["harness_error"] = fmt.Sprintf("%d worker(s) ended abnormally — no verdict for their share", died)
		HarnessError = true
	}
}

// HarnessError is set when a worker process died (the code under test can end the
// process through log.Fatal): main exits 2 instead of reporting a clean pass.
var HarnessError bool

func worker(r *ev.Run, u unit) {
	var deadline time.Time
	if n, err := strconv.ParseInt(os.Getenv("VERIF_C07_DEADLINE"), 10, 64); err == nil {
		deadline = time.Unix(0, n)
	}
	maxSeg, _, _ := tierParams(r.Thorough())
	w := newWorld()
	defer w.close()
	f := strings.Split(string(u), ":")
	if f[len(f)-1] == "0" || (len(f) == 4 && f[2] == "0") || (f[0] == "svc" && f[1] == "0") {
		w.sampleBudget = 1 // the first shard of every kind contributes one sample
	}
	atoi := func(s string) int { n, _ := strconv.Atoi(s); return n }
	switch f[0] {
	case "fault":
		runWriteFault(r, w)
	case "prod":
		k, K := atoi(f[2]), atoi(f[3])
		for i, n := range fileNames(maxSeg) {
			if i%K != k {
				continue
			}
			if pastDeadline(deadline) {
				r.NotExhaustive(fmt.Sprintf("unit %s stopped by the deadline at name %d", u, i))
				break
			}
			productCase(r, w, f[1], n)
			r.Eval(1)
		}
	case "svc":
		k, K := atoi(f[1]), atoi(f[2])
		ids := serviceIDs()
	outer:
		for i, n := range fileNames(maxSeg) {
			if i%K != k {
				continue
			}
			for _, id := range ids {
				if pastDeadline(deadline) {
					r.NotExhaustive(fmt.Sprintf("unit %s stopped by the deadline at name %d", u, i))
					break outer
				}
				serviceCase(r, w, id, n)
				r.Eval(1)
			}
		}
	case "shot":
		screenshotCases(r, w)
	case "hist":
		for _, c := range histCfgs {
			if c.name == f[1] {
				runHist(r, w, c, atoi(f[2]), deadline)
			}
		}
	case "probe": // VERIF_C07_UNIT=probe:<service agent id, Go-quoted>: one service case, for the notes
		id, err := strconv.Unquote(strings.TrimPrefix(string(u), "probe:"))
		if err != nil {
			panic(err)
		}
		serviceCase(r, w, id, "x")
		fmt.Printf("service id %q survived; violations so far: %d\n", id, r.ViolationCount())
	default:
		panic("c07: unknown unit " + string(u))
	}
	if err := r.WritePartial(os.Getenv("VERIF_C07_OUT")); err != nil {
		panic(err)
	}
}
