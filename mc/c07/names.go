package c07

import "strings"

// atoms of the file-name grammar
func atoms() []string {
	return []string{"a", "..", ".", "", "Download", "Download2", nameA, nameB, "a\x00", strings.Repeat("a", 300)}
}

var prefixes = []string{"", `C:\`, "C:/", "C:"}

// fileNames enumerates every sequence of 1..maxSeg atoms joined by every mix of '/'
// and '\', behind every prefix, plus the deep-escape names; first occurrence order,
// de-duplicated.
func fileNames(maxSeg int) []string {
	at := atoms()
	seen := map[string]bool{}
	var out []string
	add := func(s string) {
		if !seen[s] {
			seen[s] = true
			out = append(out, s)
		}
	}
	add("")
	seps := []string{`\`, "/"}
	var rec func(cur string, k int)
	rec = func(cur string, k int) {
		for _, p := range prefixes {
			add(p + cur)
		}
		if k == maxSeg {
			return
		}
		for _, s := range seps {
			for _, a := range at {
				rec(cur+s+a, k+1)
			}
		}
	}
	for _, a := range at {
		rec(a, 1)
	}
	for _, n := range deepNames() {
		add(n)
	}
	return out
}

// deepNames climb 4..10 levels (further than the 4-segment grammar can) towards the
// decoys and the directories above the teamserver root.
func deepNames() []string {
	var out []string
	for d := 4; d <= 10; d++ {
		for _, s := range []string{`\`, "/"} {
			up := strings.Repeat(".."+s, d)
			for _, tail := range []string{"x", "Download2" + s + "x", "other" + s + "x", "w" + s + "other" + s + "x"} {
				out = append(out, up+tail)
				out = append(out, "a"+s+up+tail)
			}
		}
	}
	return out
}

// serviceIDs: the AgentID field of a third-party agent service message.  Ids such as
// "<A>/", "./<A>", "<A>/../<B>" or "<A>\x00" are left out: they make DemonAddOutput
// reach log.Fatal (the teamserver process exits), which ends the worker; that is an
// availability matter outside this property (see notes).
func serviceIDs() []string {
	return []string{nameA, nameB, "..", "../x", "", "a/b", ".", nameB + "/Download",
		"../agents/" + nameA, "../" + nameA, "Download"}
}
