// Package c07: "Loot stays inside the agent's loot folder and equals what was sent".
//
// world.go: one real in-process teamserver per worker process, rooted several
// directories below a private base directory so that a path escaping many levels
// upwards is still inside the listed area; decoy directories; reset between cases;
// the callback encoders (Demon side) for the two download transports.
package c07

import (
	"encoding/base64"
	"encoding/binary"
	"fmt"
	"os"
	"path/filepath"
	"runtime"
	"sort"
	"strings"

	"Havoc/pkg/agent"

	"verifmc/demonwire"
	"verifmc/seam"
)

const (
	idA = 0x00c07a01 // "own" agent
	idB = 0x00c07b02 // the other agent

	cmdFS         = 15
	cmdScreenshot = 2510
	cmdBeaconOut  = 94
	cbFile        = 0x02
	cbFileWrite   = 0x08
	cbFileClose   = 0x09

	padDepth = 6 // directories between the private base and the teamserver root
)

var (
	nameA = fmt.Sprintf("%08x", idA)
	nameB = fmt.Sprintf("%08x", idB)
)

type world struct {
	ts           *seam.TS
	base         string // private base; everything below it is listed
	rootRel      string // ts.Root relative to base
	ids          [2]uint32
	names        [2]string
	free         [2][]uint32 // outstanding request ids handed to the agent, not yet used up
	seq          uint32
	pristine     tree
	posts        int
	sampleBudget int               // how many cases this worker may still put into the evidence samples
	bind         map[string]string // agent/name -> the file an accepted open of that name was seen to create
}

func newWorld() *world {
	base, err := os.MkdirTemp(seam.BaseTmp(), "c07-")
	if err != nil {
		panic(err)
	}
	pad := base
	for i := 1; i <= padDepth; i++ {
		pad = filepath.Join(pad, fmt.Sprintf("p%d", i))
	}
	if err := os.MkdirAll(pad, 0o755); err != nil {
		panic(err)
	}
	os.Setenv("TMPDIR", pad)
	w := &world{bind: map[string]string{}, base: base, ids: [2]uint32{idA, idB}, names: [2]string{nameA, nameB}}
	w.ts = seam.New(seam.Options{Service: true})
	w.rootRel, _ = filepath.Rel(base, w.ts.Root)
	w.ts.MustRegister(idA, 1)
	w.ts.MustRegister(idB, 2)
	w.ts.HTTP.Teamserver = skipRowRefresh{w.ts.Rec}
	return w
}

// skipRowRefresh leaves out one effect of every check-in: rewriting the agent's row
// in SQLite with the new last-call-in time (half of the cost of a request).  The
// row is not part of the loot tree and the SQLite files are not listed.
type skipRowRefresh struct{ *seam.Recorder }

func (skipRowRefresh) AgentUpdate(*agent.Agent) {}

func (w *world) close() {
	w.ts.Close()
	os.RemoveAll(w.base)
}

// ---------------------------------------------------------------------------
// listing

// tree maps a path to "dir" or "file:"+content.  Paths below the teamserver root
// are relative to it ("w/loot/..."); anything else below the private base is
// "<above-root>/p1/...".  The pad chain, the root itself and the SQLite files are
// not listed.
type tree map[string]string

const aboveRoot = "<above-root>"

func (w *world) snap() tree {
	t := tree{}
	// the pad chain: each pad directory must hold exactly its successor
	dir, rel := w.base, ""
	for _, c := range strings.Split(w.rootRel, "/") {
		ents, _ := os.ReadDir(dir)
		for _, e := range ents {
			if e.Name() != c {
				w.walk(t, filepath.Join(dir, e.Name()), aboveRoot+"/"+rel+e.Name(), e)
			}
		}
		dir = filepath.Join(dir, c)
		rel += c + "/"
	}
	ents, _ := os.ReadDir(w.ts.Root)
	for _, e := range ents {
		if strings.HasPrefix(e.Name(), "ts.db") {
			continue
		}
		w.walk(t, filepath.Join(w.ts.Root, e.Name()), e.Name(), e)
	}
	return t
}

func (w *world) walk(t tree, abs, key string, e os.DirEntry) {
	switch {
	case e.IsDir():
		t[key] = "dir"
		ents, _ := os.ReadDir(abs)
		for _, c := range ents {
			w.walk(t, abs+"/"+c.Name(), key+"/"+c.Name(), c)
		}
	case e.Type().IsRegular():
		b, _ := os.ReadFile(abs)
		t[key] = "file:" + string(b)
	default:
		t[key] = "special:" + e.Type().String()
	}
}

func (w *world) abs(key string) string {
	if strings.HasPrefix(key, aboveRoot+"/") {
		return filepath.Join(w.base, key[len(aboveRoot)+1:])
	}
	return filepath.Join(w.ts.Root, key)
}

type delta struct {
	Added, Changed, Removed []string
}

func (d delta) empty() bool { return len(d.Added)+len(d.Changed)+len(d.Removed) == 0 }

func diffTrees(before, after tree) delta {
	var d delta
	for p, v := range after {
		if o, ok := before[p]; !ok {
			d.Added = append(d.Added, p)
		} else if o != v {
			d.Changed = append(d.Changed, p)
		}
	}
	for p := range before {
		if _, ok := after[p]; !ok {
			d.Removed = append(d.Removed, p)
		}
	}
	sort.Strings(d.Added)
	sort.Strings(d.Changed)
	sort.Strings(d.Removed)
	return d
}

// ---------------------------------------------------------------------------
// reset and decoys

var skeleton = map[string]bool{"w": true, "w/loot": true, "w/loot/agents": true, "w/loot/listener": true}

// decoys: sibling directories whose names extend the legitimate ones, the other
// agent's tree, and directories further up that a traversal could reach.
func (w *world) decoys() map[string]string {
	return map[string]string{
		"w/other/":                "",
		"w/loot/Download/":        "",
		"w/loot/agents/Download/": "",
		"w/loot/agents/" + nameA + "/Download2/keep":                  "decoy",
		"w/loot/agents/" + nameB + "/Download/keep":                   "decoy",
		"w/loot/agents/" + nameB + "/Download2/":                      "",
		"w/loot/agents/" + nameB + "/Download/Console_" + nameB + "/": "",
	}
}

func (w *world) reset() {
	for _, a := range w.ts.T.Agents.Agents {
		for _, d := range a.Downloads {
			if d != nil && d.File != nil {
				d.File.Close()
			}
		}
		a.Downloads = nil
	}
	w.ts.T.EventsList = nil // housekeeping: the operator event log grows with every message
	if w.pristine == nil {
		w.pristine = tree{}
		for p := range skeleton {
			w.pristine[p] = "dir"
		}
		for p, c := range w.decoys() {
			if strings.HasSuffix(p, "/") {
				p = strings.TrimSuffix(p, "/")
				w.pristine[p] = "dir"
			} else {
				w.pristine[p] = "file:" + c
			}
			for d := filepath.Dir(p); d != "."; d = filepath.Dir(d) {
				w.pristine[d] = "dir"
			}
		}
	}
	d := diffTrees(w.pristine, w.snap())
	for _, p := range d.Added {
		os.RemoveAll(w.abs(p)) // children of a removed directory: no-op
	}
	for _, p := range d.Changed {
		os.RemoveAll(w.abs(p))
	}
	restore := append(append([]string{}, d.Changed...), d.Removed...)
	sort.Strings(restore) // parents first
	for _, p := range restore {
		var err error
		if v := w.pristine[p]; v == "dir" {
			err = os.MkdirAll(w.abs(p), 0o755)
		} else {
			err = os.WriteFile(w.abs(p), []byte(strings.TrimPrefix(v, "file:")), 0o644)
		}
		if err != nil {
			panic(err)
		}
	}
	w.ts.Rec.Take()
}

// ---------------------------------------------------------------------------
// request ids: callbacks are only dispatched for request ids the teamserver issued,
// so the harness queues real download tasks and lets the agent fetch them.

func (w *world) req(ag int) uint32 {
	if len(w.free[ag]) == 0 {
		a := w.ts.Agent(w.ids[ag])
		for i := 0; i < 24; i++ {
			w.seq++
			id := 0x10000000 + w.seq
			n := len(a.Tasks)
			p := w.ts.Task(w.ids[ag], fmt.Sprintf("%08x", id), cmdFS, map[string]any{
				"SubCommand": "download",
				"Arguments":  base64.StdEncoding.EncodeToString([]byte(`C:\loot\f`)) + ";",
			})
			if p != nil || len(a.Tasks) != n+1 || a.Tasks[n].RequestID != id {
				panic(fmt.Sprintf("c07: could not queue a download task (panic=%v)", p))
			}
			w.free[ag] = append(w.free[ag], id)
		}
		// the agent fetches the queued jobs
		for i := 0; i < 8 && len(a.JobQueue) > 0; i++ {
			if r, _, _ := w.ts.CheckIn(w.ids[ag], byte(ag+1)); r.Status != 200 {
				panic("c07: check-in failed")
			}
		}
		w.ts.Rec.Take()
	}
	id := w.free[ag][0]
	w.free[ag] = w.free[ag][1:]
	return id
}

func (w *world) giveBack(ag int, id uint32) { w.free[ag] = append(w.free[ag], id) }

// ---------------------------------------------------------------------------
// callbacks exactly as the Demon builds them

func be32(v uint32) []byte {
	b := make([]byte, 4)
	binary.BigEndian.PutUint32(b, v)
	return b
}

// Command.c (COMMAND_FS / download) and Download.c
func fsOpen(req, fileID uint32, size uint64, name string) demonwire.Sub {
	w := &demonwire.W{}
	w.I32(2).I32(0).I32(fileID).I64(size).WStr(name)
	return demonwire.Sub{Cmd: cmdFS, ReqID: req, Body: w.B}
}
func fsWrite(req, fileID uint32, chunk []byte) demonwire.Sub {
	w := &demonwire.W{}
	w.I32(2).I32(1).I32(fileID).Bytes(chunk)
	return demonwire.Sub{Cmd: cmdFS, ReqID: req, Body: w.B}
}
func fsClose(req, fileID uint32) demonwire.Sub {
	w := &demonwire.W{}
	w.I32(2).I32(2).I32(fileID).I32(0)
	return demonwire.Sub{Cmd: cmdFS, ReqID: req, Body: w.B}
}

// ObjectApi.c BeaconOutput( CALLBACK_FILE* ) as object files (BOFs) use it
func bofOpen(req, fileID uint32, size uint32, name string) demonwire.Sub {
	w := &demonwire.W{}
	d := append(be32(fileID), be32(size)...)
	d = append(d, name...)
	w.I32(cbFile).Bytes(d)
	return demonwire.Sub{Cmd: cmdBeaconOut, ReqID: req, Body: w.B}
}
func bofWrite(req, fileID uint32, chunk []byte) demonwire.Sub {
	w := &demonwire.W{}
	w.I32(cbFileWrite).Bytes(append(be32(fileID), chunk...))
	return demonwire.Sub{Cmd: cmdBeaconOut, ReqID: req, Body: w.B}
}
func bofClose(req, fileID uint32) demonwire.Sub {
	w := &demonwire.W{}
	w.I32(cbFileClose).Bytes(be32(fileID))
	return demonwire.Sub{Cmd: cmdBeaconOut, ReqID: req, Body: w.B}
}

func screenshot(req uint32, ok bool, bmp []byte) demonwire.Sub {
	w := &demonwire.W{}
	if ok {
		w.I32(1).Bytes(bmp)
	} else {
		w.I32(0)
	}
	return demonwire.Sub{Cmd: cmdScreenshot, ReqID: req, Body: w.B}
}

// post sends one callback of agent ag through the HTTP listener and returns the
// listener's result and what the teamserver told the operators.
func (w *world) post(ag int, sub demonwire.Sub) (seam.Result, []seam.Effect) {
	// The console-log writers of the teamserver never close the file they open; the
	// descriptors are only released by finalizers.  Collect regularly so that a long
	// enumeration does not run into the descriptor limit (log.Fatal in logr).
	if w.posts++; w.posts%128 == 0 {
		runtime.GC()
	}
	w.ts.Rec.Take()
	res, _, _ := w.ts.CheckIn(w.ids[ag], byte(ag+1), sub)
	return res, seam.Significant(w.ts.Rec.Take())
}

// verdictOf reads the operator-visible answer to a download open.
func verdictOf(eff []seam.Effect) (accepted bool, class string) {
	class = "ignored"
	for _, e := range eff {
		if e.Call != "AgentConsole" {
			continue
		}
		if strings.Contains(e.Arg, `MiscType="download"`) {
			return true, "accepted"
		}
		if strings.Contains(e.Arg, `Type="Error"`) {
			class = "rejected:" + errClass(e.Arg)
		}
	}
	return false, class
}

func errClass(arg string) string {
	i := strings.Index(arg, `Message="`)
	if i < 0 {
		return "?"
	}
	msg := arg[i+9:]
	if j := strings.Index(msg, `";`); j >= 0 {
		msg = msg[:j]
	}
	switch {
	case strings.HasPrefix(msg, "File didn't started"):
		return "not-under-download-dir"
	case strings.HasPrefix(msg, "Failed to create Logr demon download path"):
		return "mkdir:" + lastErrno(msg)
	case strings.HasPrefix(msg, "Failed to create file"):
		return "create:" + lastErrno(msg)
	}
	// any other wording (a repaired tree may phrase refusals differently)
	if k := strings.IndexAny(msg, ":/"); k > 0 {
		msg = msg[:k]
	}
	if len(msg) > 40 {
		msg = msg[:40]
	}
	return msg
}

func lastErrno(msg string) string {
	if i := strings.LastIndex(msg, ": "); i >= 0 {
		return msg[i+2:]
	}
	return "?"
}
