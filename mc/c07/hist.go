package c07

import (
	"Havoc/pkg/agent"
	"fmt"
	"os"
	"sort"
	"strconv"
	"strings"
	"time"

	"verifmc/demonwire"
	"verifmc/ev"
	"verifmc/explore"
)

// Explicit-state search over open/write/close histories.
//
// Transfers: T0 = (A, id 0x11, "f"), T1 = (A, id 0x22, `d\g`) — two ids of one agent
// with different files; T2 = (B, id 0x11, "f") — the same id and name on a second
// agent; T3 = (A, id 0x33, "f\x00") — a third id of A sharing T0's name, spelled with a
// NUL terminator (the BOF transport passes the name raw).  U = (A, id
// 0x99) is never opened.
// Operations: open(T), write(T), close(T) for every transfer, write(U), close(U).
// The k-th write operation of transfer t carries the chunk "<t.k>", so arrival order
// is visible in the file.
//
// Reference model (naive): a transfer is open between an accepted open and its
// close; while open its file holds the concatenation of its chunks; a write or close
// for an id that is not open changes nothing; whatever a step of agent X creates or
// modifies is inside X's loot area.  The file a transfer owns is learnt from the
// step that opened it (the file that appeared), not computed from the name.

type xferDef struct {
	ag   int
	id   uint32
	name string
}

type histCfg struct {
	name              string
	open, write, clos string // transport of each operation kind: "fs" | "bof"
	quick, thorough   int    // search depth per tier
}

var histCfgs = []histCfg{
	{"fs", "fs", "fs", "fs", 5, 7},
	{"bof", "bof", "bof", "bof", 5, 6},
	{"fs-open+bof-write", "fs", "bof", "fs", 4, 6},
	{"bof-open+fs-write", "bof", "fs", "bof", 4, 6},
}

func (c histCfg) depth(thorough bool) int {
	d := c.quick
	if thorough {
		d = c.thorough
	}
	if n, err := strconv.Atoi(os.Getenv("VERIF_C07_DEPTH")); err == nil && n > 0 {
		d = n // experiments only
	}
	return d
}

type mxfer struct {
	open    bool
	opened  int // sequence number of the accepted open (0 = never)
	closed  bool
	writes  int
	content string
	path    string
	req     uint32
}

type histRun struct {
	r      *ev.Run
	w      *world
	cfg    histCfg
	xfers  []xferDef // last one is U
	labels []string
}

const nTransfers = 4

func newHistRun(r *ev.Run, w *world, cfg histCfg) *histRun {
	h := &histRun{r: r, w: w, cfg: cfg}
	h.xfers = []xferDef{{0, 0x11, "f"}, {0, 0x22, `d\g`}, {1, 0x11, "f"}, {0, 0x33, "f\x00"}, {0, 0x99, ""}}
	u := len(h.xfers) - 1
	for t := range h.xfers[:u] {
		h.labels = append(h.labels, fmt.Sprintf("open(T%d)", t), fmt.Sprintf("write(T%d)", t), fmt.Sprintf("close(T%d)", t))
	}
	h.labels = append(h.labels, "write(U)", "close(U)")
	// an open for T0's file id with a name that must be refused (it climbs out of the loot
	// folder), sent while T0 is running: nothing may change, T0's later chunks still count
	h.labels = append(h.labels, "refused-open(id of T0)+write(T0)")
	// the agent confirms "transfer remove" for T0 (found) but has not closed it yet; then a
	// second transfer asks for T0's file: T0 is still running, its file is still taken
	h.labels = append(h.labels, "transfer-remove-reply(T0, found)+open(T3)")
	// the agent answers "transfer list" while T0 is running, then sends T0's next chunk.  The
	// Demon's list holds the downloads its COMMAND_FS code tracks: the running transfers of
	// that agent if this configuration opens them with COMMAND_FS, none if a BOF opens them
	h.labels = append(h.labels, "transfer-list-reply(what the Demon tracks)+write(T0)")
	// an open under T0's file id whose local file cannot be created (a name component longer
	// than the file system takes), while T0 is not running: refused, nothing changes - and
	// nothing of it is left behind for the proper open of T0 that may follow
	h.labels = append(h.labels, "open-that-cannot-be-created(id of T0)")
	return h
}

const escapingName = `..\..\..\..\..\..\..\c07-escape`

func (h *histRun) nOps() int { return len(h.labels) }

// decode an operation index
func (h *histRun) decode(op int) (t int, kind string) {
	u := len(h.xfers) - 1
	if op == 3*u+2 {
		return 0, "refused-open"
	}
	if op == 3*u+3 {
		return 0, "remove-reply"
	}
	if op == 3*u+4 {
		return 0, "list-reply"
	}
	if op == 3*u+5 {
		return 0, "uncreatable-open"
	}
	if op >= 3*u {
		return u, []string{"write", "close"}[op-3*u]
	}
	return op / 3, []string{"open", "write", "close"}[op%3]
}

func (h *histRun) describe(hist []int) []string {
	out := make([]string, len(hist))
	for i, op := range hist {
		out[i] = h.labels[op]
	}
	return out
}

func (h *histRun) legend() map[string]string {
	m := map[string]string{"transports": fmt.Sprintf("open=%s write=%s close=%s", h.cfg.open, h.cfg.write, h.cfg.clos)}
	for t, x := range h.xfers {
		n := fmt.Sprintf("T%d", t)
		if t == len(h.xfers)-1 {
			n = "U"
		}
		m[n] = fmt.Sprintf("agent %s file id %#x name %q", h.w.names[x.ag], x.id, x.name)
	}
	return m
}

// step replays hist on a reset world, checking every step; returns the canonical
// state reached.
func (h *histRun) step(hist []int) explore.StepResult {
	w := h.w
	w.reset()
	m := make([]*mxfer, len(h.xfers))
	for i := range m {
		m[i] = &mxfer{}
	}
	seq := 0
	refusedCreate := false // an open under T0's id failed at the creation of its file (invisible in files and model: kept in the state key)
	var last tree
	fail := func(sig, what string, extra map[string]any) explore.StepResult {
		d := map[string]any{"history": h.describe(hist), "legend": h.legend()}
		for k, v := range extra {
			d[k] = v
		}
		h.r.Violate(sig, what, d)
		h.r.Outcome("hist/violation:" + sig)
		return explore.StepResult{OK: false}
	}
	for i, op := range hist {
		t, kind := h.decode(op)
		x, mt := h.xfers[t], m[t]
		if kind == "remove-reply" {
			// compound operation: the agent's answer to "transfer remove <T0>" (its own request
			// id), then the open of T3 (judged as an open)
			rr := (&demonwire.W{}).I32(agent.DEMON_COMMAND_TRANSFER_REMOVE).I32(1).I32(x.id).B
			w.post(x.ag, demonwire.Sub{Cmd: agent.COMMAND_TRANSFER, ReqID: w.req(x.ag), Body: rr})
			t, kind = 3, "open"
			x, mt = h.xfers[t], m[t]
		}
		if kind == "uncreatable-open" {
			refusedCreate = true
			long := strings.Repeat("n", 300) + ".bin"
			rq := w.req(x.ag)
			var bad demonwire.Sub
			if h.cfg.open == "fs" {
				bad = fsOpen(rq, x.id, 64, long)
			} else {
				bad = bofOpen(rq, x.id, 64, long)
			}
			last := i == len(hist)-1
			var b0 tree
			if last {
				b0 = w.snap()
			}
			_, eff0 := w.post(x.ag, bad)
			if h.cfg.open == "bof" {
				w.giveBack(x.ag, rq)
			}
			if last {
				a0 := w.snap()
				d0 := diffTrees(b0, a0)
				at := map[string]any{"failing_step": i, "operation": h.labels[op]}
				if b := contain(d0, w.names[x.ag], known); b != nil {
					at["breach"] = b
					return fail("escape/history/"+b.Zone, fmt.Sprintf("an open of agent %s whose file cannot be created %s %s", w.names[x.ag], b.Kind, b.Path), at)
				}
				if accepted, _ := verdictOf(eff0); accepted {
					return fail("content/uncreatable-open-accepted", "an open whose local file could not be created was reported as started", at)
				}
				for _, p := range d0.Added {
					if strings.HasPrefix(a0[p], "file:") && !isConsoleLog(p) {
						at["file"] = p
						return fail("stray-write/uncreatable-open", "an open that was refused left a file behind", at)
					}
				}
				h.r.Outcome("hist/uncreatable-open-refused")
			}
			continue
		}
		if kind == "list-reply" {
			lr := (&demonwire.W{}).I32(agent.DEMON_COMMAND_TRANSFER_LIST)
			if h.cfg.open == "fs" {
				for u, y := range h.xfers {
					if y.ag == x.ag && m[u].open {
						lr.I32(y.id).I32(uint32(len(m[u].content))).I32(agent.DOWNLOAD_STATE_RUNNING)
					}
				}
			}
			w.post(x.ag, demonwire.Sub{Cmd: agent.COMMAND_TRANSFER, ReqID: w.req(x.ag), Body: lr.B})
			kind = "write"
		}
		if mt.req == 0 {
			mt.req = w.req(x.ag) // a transfer keeps its request id from open to close (Download.c)
		}
		var sub demonwire.Sub
		var tr string
		chunk := ""
		if kind == "refused-open" {
			// compound operation: the refused open, then one more chunk of T0 (judged as a write)
			var bad demonwire.Sub
			if h.cfg.open == "fs" {
				bad = fsOpen(mt.req, x.id, 64, escapingName)
			} else {
				bad = bofOpen(mt.req, x.id, 64, escapingName)
			}
			last := i == len(hist)-1
			var b0 tree
			if last {
				b0 = w.snap()
			}
			_, eff0 := w.post(x.ag, bad)
			if last {
				a0 := w.snap()
				d0 := diffTrees(b0, a0)
				at := map[string]any{"failing_step": i, "operation": h.labels[op]}
				if b := contain(d0, w.names[x.ag], known); b != nil {
					at["breach"] = b
					return fail("escape/history/"+b.Zone, fmt.Sprintf("a refused open of agent %s %s %s", w.names[x.ag], b.Kind, b.Path), at)
				}
				if accepted, _ := verdictOf(eff0); accepted {
					return fail("content/escaping-open-accepted", "an open whose name leaves the loot folder was accepted", at)
				}
				if q := withoutLogs(d0); !q.empty() {
					at["delta"] = q
					return fail("stray-write/refused-open", "a refused open changed files", at)
				}
				h.r.Outcome("hist/refused-open-of-a-running-id")
			}
			kind = "write"
		}
		switch kind {
		case "open":
			tr = h.cfg.open
			if tr == "fs" {
				sub = fsOpen(mt.req, x.id, 64, x.name)
			} else {
				sub = bofOpen(mt.req, x.id, 64, x.name)
			}
		case "write":
			tr = h.cfg.write
			mt.writes++
			chunk = fmt.Sprintf("<%d.%d>", t, mt.writes)
			if tr == "fs" {
				sub = fsWrite(mt.req, x.id, []byte(chunk))
			} else {
				sub = bofWrite(mt.req, x.id, []byte(chunk))
			}
		case "close":
			tr = h.cfg.clos
			if tr == "fs" {
				sub = fsClose(mt.req, x.id)
			} else {
				sub = bofClose(mt.req, x.id)
			}
		}
		// Only the last step of a history is judged (its prefixes were judged when they
		// were the frontier); earlier steps are replayed without listings, except an
		// open whose file is not yet known.
		// a NUL terminator is not part of a file name (T3 spells T0's name with one)
		key := w.names[x.ag] + "/" + strings.TrimRight(x.name, "\x00")
		conflict := false
		for u, y := range h.xfers {
			if u != t && y.ag == x.ag && strings.TrimRight(y.name, "\x00") == strings.TrimRight(x.name, "\x00") && m[u].open {
				conflict = true
			}
		}
		judged := i == len(hist)-1 || (kind == "open" && (conflict || w.bind[key] == ""))
		var before, after tree
		if judged {
			before = w.snap()
		}
		_, eff := w.post(x.ag, sub)
		if kind == "close" {
			if tr == "bof" {
				w.giveBack(x.ag, mt.req)
			}
			mt.req = 0 // COMMAND_FS close completes the request
		}
		if !judged {
			switch kind {
			case "open":
				if mt.open {
					panic("c07: replay reached a pruned state")
				}
				if ok, _ := verdictOf(eff); ok {
					seq++
					mt.open, mt.closed, mt.opened, mt.content, mt.path = true, false, seq, "", w.bind[key]
				}
			case "write":
				if mt.open {
					mt.content += chunk
				}
			case "close":
				if mt.open {
					mt.open, mt.closed = false, true
				}
			}
			continue
		}
		after = w.snap()
		last = after
		d := diffTrees(before, after)
		at := map[string]any{"failing_step": i, "operation": h.labels[op]}
		if b := contain(d, w.names[x.ag], known); b != nil {
			at["breach"] = b
			sig := "escape/history/" + b.Zone
			if b.Kind == "removed" {
				sig = "removed/history/" + b.Zone
			}
			return fail(sig, fmt.Sprintf("a %s of agent %s %s %s", kind, w.names[x.ag], b.Kind, b.Path), at)
		}
		quiet := withoutLogs(d)
		switch kind {
		case "open":
			if mt.open {
				// opening an id that is still open: the statement does not say which
				// transfer later chunks belong to; containment was checked, stop here.
				h.r.Outcome("hist/reopen-of-open-id(not explored further)")
				return explore.StepResult{OK: false}
			}
			accepted, class := verdictOf(eff)
			if !accepted {
				if !conflict {
					at["answer"] = class
					return fail("content/open-refused", fmt.Sprintf("the open of an ordinary file name %q with no other transfer of that name in progress was not accepted (%s)", x.name, class), at)
				}
				h.r.Outcome("hist/open-refused-while-same-name-in-progress")
				if !quiet.empty() {
					at["delta"] = quiet
					return fail("stray-write/refused-open", "a refused open changed files", at)
				}
				break
			}
			files := newFiles(d, after)
			switch {
			case len(files) == 1:
				mt.path = files[0]
				if !conflict {
					w.bind[key] = files[0]
				}
			case len(files) == 0 && w.bind[key] != "" && before[w.bind[key]] != "":
				mt.path = w.bind[key] // same name as an earlier transfer: its file is reused
			default:
				at["new_files"] = files
				return fail("content/accepted-open-without-one-file", "an accepted open did not yield exactly one file", at)
			}
			seq++
			mt.open, mt.closed, mt.opened, mt.content = true, false, seq, ""
		case "write":
			if mt.open {
				mt.content += chunk
				break
			}
			why := "unknown-id"
			if mt.closed {
				why = "closed-id"
			}
			if !quiet.empty() {
				at["delta"] = quiet
				return fail("stray-write/"+why, fmt.Sprintf("a chunk for a file id that is not open (%s) changed files", why), at)
			}
			if p := appearsAnywhere(after, chunk); p != "" {
				at["file"] = p
				return fail("stray-write/"+why, fmt.Sprintf("a chunk for a file id that is not open (%s) was written to %s", why, p), at)
			}
			h.r.Outcome("hist/write-dropped:" + why)
		case "close":
			if !mt.open && !quiet.empty() {
				at["delta"] = quiet
				return fail("stray-close", "a close for a file id that is not open changed files", at)
			}
		}
		// content of every open transfer (including one closed by this step)
		for u, y := range m {
			if !y.open {
				continue
			}
			if after[y.path] == "file:"+y.content {
				continue
			}
			sig := "content/mismatch"
			for v, z := range m {
				if v != u && z.path == y.path && h.xfers[v].ag == h.xfers[u].ag && z.opened > 0 && (z.open || z.opened > y.opened) {
					sig = "content/two-transfers-one-local-file"
				}
			}
			at["transfer"] = fmt.Sprintf("T%d", u)
			at["file"], at["want"], at["got"] = y.path, y.content, strings.TrimPrefix(after[y.path], "file:")
			return fail(sig, fmt.Sprintf("after %s the file of transfer T%d holds %q, the chunks sent for it so far are %q", h.labels[op], u, at["got"], y.content), at)
		}
		if kind == "close" && mt.open {
			mt.open, mt.closed = false, true
			h.r.Outcome(fmt.Sprintf("hist/closed-with-%d-chunks", strings.Count(mt.content, "<")))
		}
	}
	// canonical key: model + what is on disk (console logs carry wall-clock stamps)
	var b strings.Builder
	if refusedCreate {
		b.WriteString("refused-create|")
	}
	for t, y := range m {
		fmt.Fprintf(&b, "T%d:%v/%v/%v/%d/%q/%s|", t, y.open, y.closed, y.opened > 0, y.writes, y.content, y.path)
		for v, z := range m {
			if v > t && z.path == y.path && y.opened > 0 && z.opened > 0 {
				fmt.Fprintf(&b, "T%d<T%d:%v|", t, v, y.opened < z.opened)
			}
		}
	}
	final := last
	if final == nil {
		final = w.snap()
	}
	paths := make([]string, 0, len(final))
	for p := range final {
		if !isConsoleLog(p) {
			paths = append(paths, p)
		}
	}
	sort.Strings(paths)
	for _, p := range paths {
		fmt.Fprintf(&b, "%s=%q|", p, final[p])
	}
	if len(hist) >= 5 && w.sampleBudget > 0 && len(final) > len(w.pristine)+3 {
		w.sampleBudget--
		files := map[string]string{}
		for _, p := range paths {
			if strings.HasPrefix(final[p], "file:") && !strings.HasSuffix(p, "/keep") {
				files[p] = strings.TrimPrefix(final[p], "file:")
			}
		}
		h.r.Sample(map[string]any{"history": h.describe(hist), "transports": h.cfg.name, "files_afterwards": files})
	}
	var en []int
	for i := 0; i < h.nOps(); i++ {
		if _, k := h.decode(i); k == "refused-open" && !m[0].open {
			continue // only meaningful while T0 is running
		}
		if _, k := h.decode(i); k == "remove-reply" && (!m[0].open || m[3].open) {
			continue // only meaningful while T0 is running and T3 is not
		}
		if _, k := h.decode(i); k == "list-reply" && !m[0].open {
			continue // only meaningful while T0 is running
		}
		if _, k := h.decode(i); k == "uncreatable-open" && (m[0].open || m[0].opened > 0 || refusedCreate) {
			continue // offered before T0's first open only
		}
		en = append(en, i)
	}
	return explore.StepResult{Key: b.String(), Enabled: en, OK: true}
}

// runHist runs the BFS for one transport configuration below the first operation
// `first` (-1 = whole tree).
func runHist(r *ev.Run, w *world, cfg histCfg, first int, deadline time.Time) {
	depth := cfg.depth(r.Thorough())
	h := newHistRun(r, w, cfg)
	b := &explore.BFS{MaxDepth: depth, Deadline: deadline}
	if first < 0 {
		b.Run(h.step)
	} else {
		b.MaxDepth = depth - 1
		b.Run(func(hist []int) explore.StepResult {
			return h.step(append([]int{first}, hist...))
		})
	}
	r.Eval(int(b.Transitions))
	r.AddStates(b.States, b.Transitions, b.Transitions)
	if b.Capped {
		r.NotExhaustive(fmt.Sprintf("history search %s/first=%d stopped by the deadline at depth %d", cfg.name, first, b.Depth))
	}
}
