package c07

import (
	"encoding/base64"
	"fmt"
	"runtime"
	"strings"
	"time"

	"Havoc/pkg/service"

	"verifmc/demonwire"
	"verifmc/ev"
)

var known = map[string]bool{nameA: true, nameB: true}

const (
	chunk1 = "<c07:first-chunk>"
	chunk2 = "<c07:second-chunk>"
)

// productCase: one file name through one transport: open, two writes, close, all as
// real callbacks of agent A; containment after every step, content at the end.
func productCase(r *ev.Run, w *world, transport, name string) {
	w.reset()
	req := w.req(0)
	const fid = 0x5a17
	var steps []demonwire.Sub
	if transport == "fs" {
		steps = []demonwire.Sub{fsOpen(req, fid, 35, name), fsWrite(req, fid, []byte(chunk1)), fsWrite(req, fid, []byte(chunk2)), fsClose(req, fid)}
	} else {
		steps = []demonwire.Sub{bofOpen(req, fid, 35, name), bofWrite(req, fid, []byte(chunk1)), bofWrite(req, fid, []byte(chunk2)), bofClose(req, fid)}
	}
	detail := func() map[string]any {
		return map[string]any{"transport": transport, "file_name": name, "file_name_quoted": quoted(name), "agent": nameA}
	}
	first := w.snap()
	before := first
	accepted, class := false, ""
	for i, s := range steps {
		res, eff := w.post(0, s)
		after := w.snap()
		if res.Panic != nil {
			class = "panic:" + res.Stack
		}
		if b := contain(diffTrees(before, after), nameA, known); b != nil {
			d := detail()
			d["step"] = []string{"open", "write", "write", "close"}[i]
			violateEscape(r, "agent-download", false, b, d)
			r.Outcome(transport + "/escape:" + b.Zone)
			if transport == "bof" {
				w.giveBack(0, req)
			}
			return
		}
		if i == 0 {
			accepted, class = verdictOf(eff)
			if res.Panic != nil {
				class = "panic:" + res.Stack
			}
		}
		before = after
	}
	if transport == "bof" {
		w.giveBack(0, req) // BEACON_OUTPUT does not use up the request id
	}
	d := diffTrees(first, before)
	files := newFiles(d, before)
	want := "file:" + chunk1 + chunk2
	switch {
	case accepted && len(files) != 1:
		dd := detail()
		dd["new_files"] = files
		r.Violate("content/accepted-open-without-one-file", fmt.Sprintf("the teamserver announced the download of %s but %d new files exist afterwards", quoted(name), len(files)), dd)
	case accepted && before[files[0]] != want:
		dd := detail()
		dd["file"], dd["got"], dd["want"] = files[0], before[files[0]], want
		r.Violate("content/single-transfer", fmt.Sprintf("download %s: content differs from the chunks sent", quoted(name)), dd)
	case !accepted:
		if len(files) != 0 {
			dd := detail()
			dd["new_files"] = files
			r.Violate("stray-write/refused-open", fmt.Sprintf("the open of %s was refused (%s) but files were created", quoted(name), class), dd)
		} else if p := appearsAnywhere(before, chunk1); p != "" {
			dd := detail()
			dd["file"] = p
			r.Violate("stray-write/refused-open", fmt.Sprintf("the open of %s was refused (%s) but its chunks were written to %s", quoted(name), class, p), dd)
		}
	}
	depth := ""
	if accepted && len(files) == 1 {
		depth = fmt.Sprintf("@depth%d", strings.Count(files[0], "/")-5)
	}
	r.Outcome(transport + "/" + class + depth)
	if w.sampleBudget > 0 && accepted && depth != "@depth0" {
		w.sampleBudget--
		r.Sample(map[string]any{"seam": "agent download via " + transport, "file_name": quoted(name), "outcome": class + depth, "new_files": files})
	}
}

// serviceCase: a third-party agent service reports a downloaded file for AgentID.
func serviceCase(r *ev.Run, w *world, id, name string) {
	w.reset()
	content := "<c07:service-content>"
	msg := map[string]map[string]any{
		"Head": {"Type": service.HeadAgent},
		"Body": {"Type": service.BodyAgentOutput, "AgentID": id,
			"Callback": map[string]any{"MiscType": "download", "FileName": name, "Content": base64.StdEncoding.EncodeToString([]byte(content))}},
	}
	before := w.snap()
	var pan any
	func() {
		defer func() { pan = recover() }()
		if w.posts++; w.posts%128 == 0 {
			runtime.GC() // see world.post
		}
		w.ts.T.Service.VerifDispatch(msg, nil)
	}()
	after := w.snap()
	owner, crafted := id, false
	if !plainID(id) {
		owner, crafted = "", true
	}
	detail := map[string]any{"seam": "service AgentOutput/download", "agent_id": id, "file_name": name, "file_name_quoted": quoted(name)}
	d := diffTrees(before, after)
	kn := map[string]bool{nameA: true, nameB: true, "Download": true}
	if b := contain(d, owner, kn); b != nil {
		violateEscape(r, "service-download", crafted, b, detail)
		r.Outcome("svc/escape:" + b.Zone)
		return
	}
	files := newFiles(d, after)
	class := "nothing-stored"
	switch {
	case pan != nil:
		class = "panic"
	case len(files) > 1:
		detail["new_files"] = files
		r.Violate("content/service-several-files", "one reported file produced several files", detail)
	case len(files) == 1 && after[files[0]] != "file:"+content:
		detail["file"], detail["got"] = files[0], after[files[0]]
		r.Violate("content/service", "stored file differs from the reported content", detail)
	case len(files) == 1:
		class = "stored"
	}
	idc := "plain-id"
	if crafted {
		idc = "crafted-id"
	}
	r.Outcome("svc/" + idc + "/" + class)
	if w.sampleBudget > 0 && class == "stored" && strings.Contains(name, "/") {
		w.sampleBudget--
		r.Sample(map[string]any{"seam": "service AgentOutput/download", "agent_id": id, "file_name": quoted(name), "outcome": class, "new_files": files})
	}
}

// a 1x1 24-bit BMP
func tinyBMP() []byte {
	b := make([]byte, 58)
	copy(b, "BM")
	le := func(o int, v uint32) { b[o], b[o+1], b[o+2], b[o+3] = byte(v), byte(v>>8), byte(v>>16), byte(v>>24) }
	le(2, 58)
	le(10, 54)
	le(14, 40)
	le(18, 1)
	le(22, 1)
	b[26] = 1
	b[28] = 24
	le(34, 4)
	b[54], b[55], b[56] = 0x10, 0x20, 0x30
	return b
}

// screenshotCases: the screenshot name is chosen by the teamserver; the agent
// controls only the bytes.  Every new path must be under the agent's Screenshots.
func screenshotCases(r *ev.Run, w *world) {
	cases := []struct {
		label string
		ok    bool
		data  []byte
	}{
		{"valid-bmp", true, tinyBMP()},
		{"garbage", true, []byte("../../not a bitmap/\x00\\..\\")},
		{"empty", true, nil},
		{"failed", false, nil},
		{"truncated-bmp", true, tinyBMP()[:30]},
	}
	for ag := 0; ag < 2; ag++ {
		for _, c := range cases {
			w.reset()
			req := w.req(ag)
			before := w.snap()
			res, _ := w.post(ag, screenshot(req, c.ok, c.data))
			after := w.snap()
			r.Eval(1)
			d := diffTrees(before, after)
			detail := map[string]any{"seam": "COMMAND_SCREENSHOT", "agent": w.names[ag], "case": c.label}
			if b := contain(d, w.names[ag], known); b != nil {
				violateEscape(r, "screenshot", false, b, detail)
				continue
			}
			files := newFiles(d, after)
			class := fmt.Sprintf("%d-files", len(files))
			for _, f := range files {
				if !strings.HasPrefix(f, "w/loot/agents/"+w.names[ag]+"/Screenshots/") {
					detail["file"] = f
					r.Violate("escape/screenshot/not-under-screenshots", "a screenshot was stored outside Screenshots/", detail)
				}
			}
			if res.Panic != nil {
				class = "panic"
			}
			r.Outcome("shot/" + c.label + "/" + class)
		}
	}
}

func pastDeadline(dl time.Time) bool { return !dl.IsZero() && time.Now().After(dl) }
