package c07

import (
	"fmt"
	"os"
	"path/filepath"

	"verifmc/demonwire"
	"verifmc/ev"
)

// Part 5: a write that fails.  A transfer is opened and gets a chunk; then the file behind
// its handle is exchanged for /dev/full (the file can be opened and created, every write
// fails with ENOSPC: a full disk), and two more chunks arrive.  Whatever the teamserver
// does about the failed writes (give up, re-create the file and retry), nothing may be
// created or changed outside the agent's own download directory - in particular not at the
// path the AGENT gave, which the process could reach from its working directory (relative
// names) or anywhere (absolute names).  The working directory is inside the listed area.
func runWriteFault(r *ev.Run, w *world) {
	if _, err := os.Stat("/dev/full"); err != nil {
		r.NotExhaustive("part 5 (write fault) not run: no /dev/full")
		return
	}
	cwd := filepath.Join(w.ts.Root, "cwd")
	os.MkdirAll(cwd, 0o755)
	old, _ := os.Getwd()
	if err := os.Chdir(cwd); err != nil {
		r.NotExhaustive("part 5 not run: " + err.Error())
		return
	}
	defer os.Chdir(old)
	abs := filepath.Join(w.ts.Root, "outside", "report.txt")
	os.MkdirAll(filepath.Dir(abs), 0o755)
	names := []string{`C:\Users\bob\notes.txt`, abs, "plain.txt", `sub\dir\x.bin`}
	for _, tr := range []string{"fs", "bof"} {
		for ni, name := range names {
			w.reset()
			os.MkdirAll(cwd, 0o755)
			os.MkdirAll(filepath.Dir(abs), 0o755)
			id := uint32(0x500 + ni)
			req := w.req(0)
			open, wr := fsOpen, fsWrite
			if tr == "bof" {
				open = func(req, id uint32, size uint64, n string) demonwire.Sub { return bofOpen(req, id, uint32(size), n) }
				wr = bofWrite
			}
			_, eff := w.post(0, open(req, id, 64, name))
			if ok, _ := verdictOf(eff); !ok {
				r.Outcome("write-fault/open-refused")
				continue
			}
			w.post(0, wr(req, id, []byte("AAAA")))
			swapped := false
			for _, d := range w.ts.Agent(w.ids[0]).Downloads {
				if d.FileID == int(id) && d.File != nil {
					d.File.Close()
					os.Remove(d.LocalFile)
					if os.Symlink("/dev/full", d.LocalFile) == nil {
						if f, err := os.OpenFile(d.LocalFile, os.O_WRONLY, 0); err == nil {
							d.File = f
							swapped = true
						}
					}
				}
			}
			if !swapped {
				r.NotExhaustive("part 5: could not exchange the transfer's file for the full device")
				continue
			}
			before := w.snap()
			w.post(0, wr(req, id, []byte("BBBB")))
			w.post(0, wr(req, id, []byte("CCCC")))
			after := w.snap()
			r.Eval(1)
			d := diffTrees(before, after)
			at := map[string]any{"transport": tr, "announced_name": name, "delta": d}
			if b := contain(d, w.names[0], known); b != nil {
				at["breach"] = b
				r.Violate("escape/write-fault/"+b.Zone, fmt.Sprintf("after a failed write to the local copy, a chunk of the transfer announced as %q %s %s", name, b.Kind, b.Path), at)
				continue
			}
			r.Outcome("write-fault/contained/" + tr)
		}
	}
}
