package c07

import (
	"fmt"
	"strings"

	"verifmc/ev"
)

// plainID reports whether an agent id names exactly one directory entry of agents/.
// Any other id (empty, ".", "..", containing a separator) is "crafted": there is no
// agent directory it may legitimately designate.
func plainID(id string) bool {
	return id != "" && id != "." && id != ".." && !strings.ContainsAny(id, "/\x00")
}

// zone classifies a path (as listed by world.snap) relative to the loot area of the
// agent `owner`.  "" = allowed: the agent directory itself, its Download and
// Screenshots subtrees, its console log.  Everything else gets the name of the
// place it is in.  owner "" allows nothing.
func zone(path, owner string, known map[string]bool) string {
	if strings.HasPrefix(path, aboveRoot) {
		return "above-teamserver-root"
	}
	c := strings.Split(path, "/")
	switch {
	case c[0] != "w":
		return "teamserver-root"
	case len(c) < 2 || c[1] != "loot":
		return "outside-loot"
	case len(c) < 3 || c[2] != "agents":
		return "loot-root"
	case len(c) == 3:
		return "agents-dir"
	case c[3] != owner || owner == "":
		if known[c[3]] {
			return "other-agent"
		}
		return "agents-dir"
	case len(c) == 4:
		return ""
	case c[4] == "Download" || c[4] == "Screenshots":
		return ""
	case len(c) == 5 && c[4] == "Console_"+owner+".log":
		return ""
	}
	return "agent-dir-sibling"
}

type breach struct {
	Zone string `json:"zone"`
	Path string `json:"path"`
	Kind string `json:"kind"` // created | modified | removed
}

// contain checks one step: everything created or modified must be in owner's zone,
// nothing may disappear.
func contain(d delta, owner string, known map[string]bool) *breach {
	for _, p := range d.Added {
		if z := zone(p, owner, known); z != "" {
			return &breach{z, p, "created"}
		}
	}
	for _, p := range d.Changed {
		if z := zone(p, owner, known); z != "" {
			return &breach{z, p, "modified"}
		}
	}
	for _, p := range d.Removed {
		z := zone(p, owner, known)
		if z == "" {
			z = "own-loot"
		}
		return &breach{z, p, "removed"}
	}
	return nil
}

func isConsoleLog(p string) bool {
	i := strings.LastIndex(p, "/")
	return strings.HasPrefix(p[i+1:], "Console_") && strings.HasSuffix(p, ".log")
}

// withoutLogs drops console logs from a delta (they legitimately grow on every
// operator-visible message).
func withoutLogs(d delta) delta {
	f := func(in []string) (out []string) {
		for _, p := range in {
			if !isConsoleLog(p) {
				out = append(out, p)
			}
		}
		return
	}
	return delta{f(d.Added), f(d.Changed), f(d.Removed)}
}

func newFiles(d delta, after tree) (out []string) {
	for _, p := range d.Added {
		if strings.HasPrefix(after[p], "file:") && !isConsoleLog(p) {
			out = append(out, p)
		}
	}
	return
}

// appearsAnywhere: does marker occur in any listed file?
func appearsAnywhere(t tree, marker string) string {
	for p, v := range t {
		if strings.HasPrefix(v, "file:") && strings.Contains(v, marker) {
			return p
		}
	}
	return ""
}

func quoted(s string) string {
	if len(s) > 120 {
		return fmt.Sprintf("%q…(%d bytes)", s[:60], len(s))
	}
	return fmt.Sprintf("%q", s)
}

func violateEscape(r *ev.Run, seamName string, crafted bool, b *breach, detail map[string]any) {
	sig := "escape/" + seamName + "/"
	if crafted {
		sig += "crafted-id/"
	}
	sig += b.Zone
	if b.Kind == "removed" {
		sig = "removed/" + seamName + "/" + b.Zone
	}
	detail["breach"] = b
	r.Violate(sig, fmt.Sprintf("%s: a path outside the agent's download/screenshot/log area was %s: %s", seamName, b.Kind, b.Path), detail)
}
