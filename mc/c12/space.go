// Package c12: "An HTTP listener serves only requests that match its profile".
//
// The bounded space is the full product listener configuration x request.  Everything
// in this file is the alphabet; ref.go is the reference predicate (written from the
// property statement, not from http.go); run.go executes every cell on the real
// (*HTTP).request behind the real gin routes of a real in-process teamserver.
package c12

import (
	"strings"
)

// ---------------------------------------------------------------------------
// configurations

type labelled struct {
	Label string
	V     []string
}

// Config is one listener profile (the fields of handlers.HTTPConfig the property is about).
type Config struct {
	Uris        []string `json:"uris"`
	UserAgent   string   `json:"user_agent"`
	Headers     []string `json:"headers"`
	RespHeaders []string `json:"response_headers"`
	BehindRedir bool     `json:"behind_redirector"`

	UrisLabel string `json:"uris_label"`
	HdrLabel  string `json:"headers_label"`
	RespLabel string `json:"response_label"`
}

func uriSets(thorough bool) []labelled {
	s := []labelled{
		{"none", nil},
		{"empty", []string{""}},
		{"one", []string{"/a"}},
		{"two-query", []string{"/a", "/b?x=1"}},
	}
	if thorough {
		s = append(s,
			labelled{"empty-and-one", []string{"", "/a"}},
			labelled{"query-only", []string{"/b?x=1"}},
		)
	}
	return s
}

func headerSets(thorough bool) []labelled {
	s := []labelled{
		{"none", nil},
		{"plain", []string{"X-A: b"}},
		{"inner-sep", []string{"X-A: b: c"}},
		{"no-space", []string{"X-A:b"}},
		{"ignored", []string{"Connection: close"}},
		{"two", []string{"x-a: B", "X-C: d"}},
		{"ignored-first", []string{"Connection: close", "X-A: b"}},
	}
	if thorough {
		s = append(s,
			labelled{"ignored-between", []string{"X-A: b", "Accept-Encoding: gzip", "X-C: d"}},
			labelled{"inner-colon", []string{"X-A: b:c"}},
			labelled{"inner-sep-twice", []string{"X-A: b: c: d"}},
			labelled{"no-colon", []string{"Bad"}},
		)
	}
	return s
}

func respSets(thorough bool) []labelled {
	s := []labelled{
		{"none", nil},
		{"plain", []string{"S: v"}},
		{"url", []string{"L: http://h/p"}},
		{"no-space-colon", []string{"N:a:b"}},
		{"colon-then-separator", []string{"T:a: b", "W:\tv"}},
		{"no-colon", []string{"Bad"}},
	}
	if thorough {
		s = append(s,
			labelled{"two", []string{"S: v", "T: w x"}},
			labelled{"inner-sep", []string{"P: a: b"}},
		)
	}
	return s
}

// Configs is the full product of the five configuration features.
func Configs(thorough bool) []Config {
	var out []Config
	for _, u := range uriSets(thorough) {
		for _, ua := range []string{"", "UA"} {
			for _, h := range headerSets(thorough) {
				for _, rh := range respSets(thorough) {
					for _, br := range []bool{false, true} {
						out = append(out, Config{Uris: u.V, UserAgent: ua, Headers: h.V, RespHeaders: rh.V, BehindRedir: br,
							UrisLabel: u.Label, HdrLabel: h.Label, RespLabel: rh.Label})
					}
				}
			}
		}
	}
	return out
}

// ---------------------------------------------------------------------------
// requests

// Request is one cell of the request alphabet.
type Request struct {
	Method  string      `json:"method"`
	URI     string      `json:"uri"`
	UA      *string     `json:"user_agent"` // nil = no User-Agent header
	Headers [][2]string `json:"headers"`    // in addition to User-Agent / X-Forwarded-For
	Peer    string      `json:"peer"`       // RemoteAddr
	XFF     string      `json:"x_forwarded_for"`
	Body    string      `json:"body"` // checkin | register | garbage | junk

	HdrVariant string `json:"headers_variant"`
	UAVariant  string `json:"ua_variant"`
}

// Alphabet is the request alphabet of a tier.
type Alphabet struct {
	Methods, Paths, Peers, XFFs, Bodies []string
}

func RequestAlphabet(thorough bool) Alphabet {
	a := Alphabet{
		Methods: []string{"POST", "GET", "PUT", "HEAD"},
		Paths:   []string{"/", "/a", "/a/", "/b?x=1", "/a?q", "/A", "/b", "/ab"},
		Peers:   []string{"1.2.3.4:5", "[::1]:5", "[2001:db8::1]:5", "[fe80::1%eth0]:5"},
		// the header is whatever the redirector wrote: one address, or the hop list of a chain
		XFFs: []string{"", "9.9.9.9", "203.0.113.7, 172.16.4.9"},
		// garbage must stay immediately before junk (run.go infers junk's admission from it)
		Bodies: []string{"checkin", "register", "garbage", "junk"},
	}
	if thorough {
		a.Paths = append(a.Paths, "/a?")
		a.XFFs = append(a.XFFs, "2001:db8::7", "fe80::7%eth1")
	}
	return a
}

type uaVariant struct {
	Label string
	V     *string
}

func sp(s string) *string { return &s }

// UAVariants are relative to the only user agent the configurations use ("UA").
var UAVariants = []uaVariant{
	{"absent", nil},
	{"exact", sp("UA")},
	{"other-case", sp("ua")},
	{"trailing-blank", sp("UA ")},
	{"longer", sp("UAx")},
	{"shorter", sp("U")},
}

type hdrVariant struct {
	Label string
	H     [][2]string
}

func swapCase(s string) string {
	b := []byte(s)
	for i, c := range b {
		switch {
		case c >= 'a' && c <= 'z':
			b[i] = c - 32
		case c >= 'A' && c <= 'Z':
			b[i] = c + 32
		}
	}
	return string(b)
}

// splitEntry cuts a configured "Name: value" line at its FIRST separator (the
// reading of the property statement: one name, the rest is the value).
func splitEntry(e string) (name, value string, ok bool) {
	if i := strings.Index(e, ": "); i > 0 {
		return e[:i], e[i+2:], true
	}
	if i := strings.Index(e, ":"); i > 0 {
		return e[:i], strings.TrimSpace(e[i+1:]), true
	}
	return "", "", false
}

func cutValue(v string) (string, bool) {
	if i := strings.Index(v, ": "); i >= 0 {
		return v[:i], true
	}
	if i := strings.Index(v, ":"); i >= 0 {
		return v[:i], true
	}
	if len(v) > 0 {
		return v[:len(v)-1], false
	}
	return v, false
}

// HeaderVariants derives the request header sets from the configured headers: none,
// exact, names in the other case, values in the other case, values shortened (cut at
// an inner separator when there is one), values lengthened, exact plus an unrelated
// header, only the first / only the last configured header, exact without the
// documented-ignored headers.  Variants that coincide for this configuration are
// de-duplicated (first label wins).
func HeaderVariants(cfgHeaders []string) []hdrVariant {
	type nv struct{ n, v string }
	var es []nv
	for _, e := range cfgHeaders {
		if n, v, ok := splitEntry(e); ok {
			es = append(es, nv{n, v})
		}
	}
	mk := func(f func(i int, e nv) (nv, bool)) [][2]string {
		var h [][2]string
		for i, e := range es {
			if x, keep := f(i, e); keep {
				h = append(h, [2]string{x.n, x.v})
			}
		}
		return h
	}
	exact := mk(func(_ int, e nv) (nv, bool) { return e, true })
	anyInner := false
	short := mk(func(_ int, e nv) (nv, bool) {
		v, inner := cutValue(e.v)
		anyInner = anyInner || inner
		return nv{e.n, v}, true
	})
	shortLabel := "value-short"
	if anyInner {
		shortLabel = "cut-at-inner-sep"
	}
	vs := []hdrVariant{
		{"none", nil},
		{"exact", exact},
		{"name-case", mk(func(_ int, e nv) (nv, bool) { return nv{swapCase(e.n), e.v}, true })},
		{"value-case", mk(func(_ int, e nv) (nv, bool) { return nv{e.n, swapCase(e.v)}, true })},
		{shortLabel, short},
		{"value-long", mk(func(_ int, e nv) (nv, bool) { return nv{e.n, e.v + "x"}, true })},
		{"extra", append(append([][2]string{}, exact...), [2]string{"X-Z", "z"})},
		{"first-only", mk(func(i int, e nv) (nv, bool) { return e, i == 0 })},
		{"last-only", mk(func(i int, e nv) (nv, bool) { return e, i == len(es)-1 })},
		{"without-ignored", mk(func(_ int, e nv) (nv, bool) { return e, !isIgnoredName(e.n) })},
	}
	seen := map[string]bool{}
	var out []hdrVariant
	for _, v := range vs {
		k := canonHeaders(v.H)
		if seen[k] {
			continue
		}
		seen[k] = true
		out = append(out, v)
	}
	return out
}

func canonHeaders(h [][2]string) string {
	var b strings.Builder
	for _, p := range h {
		// what the Go HTTP server would hand to the handler: canonical names
		b.WriteString(strings.ToLower(p[0]))
		b.WriteString("\x00")
		b.WriteString(p[1])
		b.WriteString("\x01")
	}
	return b.String()
}

// Requests enumerates the request cells for one configuration.
//
// full (thorough tier): the full product of all seven request features.
//
// !full (quick tier): the union of two sub-products -
//
//	A: method x URI x User-Agent variant x header variant x body, from the first peer
//	   without X-Forwarded-For (every feature the admission decision may look at);
//	B: every other (peer, X-Forwarded-For) pair x POST x URI x User-Agent in {absent,
//	   exact} x header variant in {none, exact} x body (the sender-address features
//	   crossed with every cell in which a request can be admitted).
func Requests(cfg Config, a Alphabet, full bool) []Request {
	hvs := HeaderVariants(cfg.Headers)
	var out []Request
	add := func(m, p string, ua uaVariant, hv hdrVariant, peer, xff string) {
		for _, b := range a.Bodies {
			out = append(out, Request{Method: m, URI: p, UA: ua.V, Headers: hv.H, Peer: peer, XFF: xff, Body: b,
				HdrVariant: hv.Label, UAVariant: ua.Label})
		}
	}
	for _, m := range a.Methods {
		for _, p := range a.Paths {
			for _, ua := range UAVariants {
				for _, hv := range hvs {
					for pi, peer := range a.Peers {
						for xi, xff := range a.XFFs {
							first := pi == 0 && xi == 0
							switch {
							case full, first:
								add(m, p, ua, hv, peer, xff)
							case m == "POST" && (ua.Label == "absent" || ua.Label == "exact") && (hv.Label == "none" || hv.Label == "exact"):
								add(m, p, ua, hv, peer, xff)
							}
						}
					}
				}
			}
		}
	}
	return out
}
