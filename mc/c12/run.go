package c12

import (
	"bytes"
	"encoding/json"
	"fmt"
	"net/http/httptest"
	"os"
	"os/exec"
	"path/filepath"
	"runtime"
	"runtime/pprof"
	"strconv"
	"strings"
	"sync"
	"time"

	"Havoc/pkg/agent"
	"Havoc/pkg/handlers"

	"verifmc/demonwire"
	"verifmc/ev"
	"verifmc/seam"
)

const (
	knownAgent = 0x0A0A0A0A // registered before the product starts; "checkin" body
	newAgent   = 0x0B0B0B0B // "register" body; removed again after every served registration
	ghostAgent = 0x0C0C0C0C // "garbage" body: well-formed header, unknown agent, not a registration
	shards     = 16         // fixed, so that the first counterexample per signature is the same on every machine
)

// probe wraps the seam recorder (which wraps the real teamserver) and counts the
// lookups the agent protocol starts with; together with the recorder's log this is
// "the request reached the agent protocol".
type probe struct {
	*seam.Recorder
	lookups int
}

func (p *probe) AgentExist(id int) bool { p.lookups++; return p.Recorder.AgentExist(id) }
func (p *probe) AgentInstance(id int) *agent.Agent {
	p.lookups++
	return p.Recorder.AgentInstance(id)
}
func (p *probe) ServiceAgentExist(m int) bool { p.lookups++; return p.Recorder.ServiceAgentExist(m) }
func (p *probe) ServiceAgent(m int) agent.ServiceAgentInterface {
	p.lookups++
	return p.Recorder.ServiceAgent(m)
}

// EventListenerError is raised asynchronously (from the goroutine Start spawns) when a
// started listener's socket cannot be bound; it is not part of the agent protocol and
// must not touch the log or the event list concurrently with the enumeration.
func (p *probe) EventListenerError(n string, err error) {}

type world struct {
	alpha  Alphabet
	full   bool
	ts     *seam.TS
	p      *probe
	base   string // canonical snapshot with knownAgent registered
	events int
	bodies map[string][]byte
}

func newWorld(thorough bool) *world {
	w := &world{ts: seam.New(seam.Options{}), alpha: RequestAlphabet(thorough), full: thorough}
	w.ts.MustRegister(knownAgent, 1)
	w.ts.Rec.Take()
	w.p = &probe{Recorder: w.ts.Rec}
	w.events = len(w.ts.T.EventsList)
	w.bodies = newWorldBodies()
	w.base = w.ts.Snap(true).String()
	return w
}

func newWorldBodies() map[string][]byte {
	garbage := &demonwire.W{}
	garbage.I32(0x41414141)
	return map[string][]byte{
		"checkin":  demonwire.CheckIn(knownAgent, seam.Key(1), seam.IV(1)),
		"register": demonwire.Register(newAgent, seam.Key(2), seam.IV(2), demonwire.DefaultMeta(newAgent)),
		"garbage":  demonwire.Header(demonwire.Magic, ghostAgent, demonwire.GetJob, 0, garbage.B),
		"junk":     []byte("hello"),
	}
}

// forget removes the session a served registration created, so that every cell starts
// from the same state.
func (w *world) forget() {
	t := w.ts.T
	kept := t.Agents.Agents[:0]
	for _, a := range t.Agents.Agents {
		if a.NameID != fmt.Sprintf("%08x", newAgent) {
			kept = append(kept, a)
		}
	}
	t.Agents.Agents = kept
	if t.DB != nil {
		t.DB.AgentRemove(newAgent)
	}
	if len(t.EventsList) > w.events {
		t.EventsList = t.EventsList[:w.events]
	}
}

type observed struct {
	Status     int                 `json:"status"`
	Reached    bool                `json:"reached"`
	Lookups    int                 `json:"lookups"`
	Calls      []string            `json:"teamserver_calls,omitempty"`
	RespHeader map[string][]string `json:"response_headers,omitempty"`
	Session    bool                `json:"session_created"`
	ExternalIP string              `json:"external_ip,omitempty"`
	Panic      string              `json:"panic,omitempty"`
}

func (w *world) fire(h *handlers.HTTP, q Request) observed {
	req := httptest.NewRequest(q.Method, q.URI, bytes.NewReader(w.bodies[q.Body]))
	req.RemoteAddr = q.Peer
	if q.UA != nil {
		req.Header.Set("User-Agent", *q.UA)
	}
	for _, p := range q.Headers {
		req.Header.Set(p[0], p[1])
	}
	if q.XFF != "" {
		req.Header.Set("X-Forwarded-For", q.XFF)
	}
	w.p.lookups = 0
	w.ts.Rec.Take()
	res := seam.Serve(h.GinEngine, req)
	log := w.ts.Rec.Take()
	o := observed{Status: res.Status, Lookups: w.p.lookups, RespHeader: res.Header}
	for _, e := range log {
		o.Calls = append(o.Calls, e.String())
	}
	o.Reached = o.Lookups > 0 || len(log) > 0
	if res.Panic != nil {
		o.Panic = ev.Normalize(fmt.Sprint(res.Panic)) + " @" + res.Stack
	}
	if a := w.ts.Agent(newAgent); a != nil {
		o.Session = true
		if a.Info != nil {
			o.ExternalIP = a.Info.ExternalIP
		}
		w.forget()
	}
	return o
}

// blame re-runs a refused request against the configuration with one feature removed
// at a time and names the first feature whose removal lets it through.
func (w *world) blame(c Config, q Request) string {
	for _, f := range []string{"header", "uri", "user-agent"} {
		d := c
		switch f {
		case "header":
			d.Headers = nil
		case "uri":
			d.Uris = nil
		case "user-agent":
			d.UserAgent = ""
		}
		if w.fire(listener(d, w.p), q).Reached {
			return f
		}
	}
	return "unattributed"
}

func listener(c Config, p *probe) *handlers.HTTP {
	cfg := handlers.HTTPConfig{Name: "http", Hosts: []string{"127.0.0.1"}, HostBind: "127.0.0.1", PortBind: "0",
		BehindRedir: c.BehindRedir, UserAgent: c.UserAgent, Headers: c.Headers, Uris: c.Uris}
	cfg.Response.Headers = c.RespHeaders
	return seam.NewHTTP(cfg, p)
}

type cell struct {
	Config   Config   `json:"config"`
	Request  Request  `json:"request"`
	Expect   string   `json:"reference_verdict"`
	Clause   string   `json:"unsatisfied_clause,omitempty"`
	Observed observed `json:"observed"`
	Note     string   `json:"note,omitempty"`
}

// judgeCell applies every clause of the oracle to one executed cell.
// implAdmitted: the listener let the request through to the protocol (o.Reached, or for
// the unobservable "junk" body what the same request with the "garbage" body did).
// blame names the configuration feature whose removal makes the listener serve a
// refused request (diagnosis for the signature only).
func judgeCell(r *ev.Run, c Config, q Request, o observed, implAdmitted bool, blame func() string) {
	v, clause := Judge(c, q)
	mk := func(note string) cell {
		return cell{Config: c, Request: q, Expect: v.String(), Clause: clause, Observed: o, Note: note}
	}
	cfgKey := func() string {
		return fmt.Sprintf("uris=%s,ua=%s,headers=%s", c.UrisLabel, map[bool]string{false: "unset", true: "set"}[c.UserAgent != ""], c.HdrLabel)
	}
	reqKey := func() string {
		return fmt.Sprintf("%s,uri=%s,ua=%s,headers=%s", q.Method, q.URI, q.UAVariant, q.HdrVariant)
	}

	if o.Panic != "" {
		r.Violate("panic/"+o.Panic, "the listener's handler panicked", mk(""))
		return
	}
	observable := q.Body != "junk" // a body the protocol rejects before its first lookup leaves no trace
	class := v.String()
	if v != Admit {
		class += ":" + clause
	}
	r.Outcome(fmt.Sprintf("%s|%s|%s|reached=%v|status=%d|session=%v", class, q.Method, q.Body, o.Reached, o.Status, o.Session))

	// (1) reached => the request matches the profile
	if o.Reached && v == Refuse {
		sig := "reached-not-matching/" + clause
		switch clause {
		case "method":
			sig += "/" + q.Method
		case "uri":
			sig += "/cfg=" + c.UrisLabel + "/req=" + q.URI
		case "user-agent":
			sig += "/req=" + q.UAVariant
		case "header":
			sig += "/cfg=" + c.HdrLabel + "/req=" + q.HdrVariant
		}
		r.Violate(sig, fmt.Sprintf("a request that does not match the listener profile (%s) reached the agent protocol [%s ; %s ; body=%s ; status %d ; session created: %v]",
			clause, cfgKey(), reqKey(), q.Body, o.Status, o.Session), mk(""))
	}
	// (2) not reached => decoy 404 (the "changes nothing" half is checked per block, see runConfig)
	if !o.Reached && o.Status != 404 {
		r.Violate(fmt.Sprintf("refused-not-404/%s/status=%d", q.Method, o.Status),
			"a request that did not reach the agent protocol was not answered with 404", mk(""))
	}
	if !o.Reached && o.Session {
		r.Violate("refused-but-session-created", "a session exists although no teamserver call was observed", mk(""))
	}
	// (3) matches => served
	if v == Admit && observable && !o.Reached {
		sig := "matching-refused/"
		switch b := blame(); b {
		case "header":
			sig += "header/cfg=" + c.HdrLabel + "/req=" + q.HdrVariant
		case "uri":
			sig += "uri/cfg=" + c.UrisLabel + "/req=" + q.URI
		case "user-agent":
			sig += "user-agent/req=" + q.UAVariant
		default:
			sig += b + "/" + cfgKey()
		}
		r.Violate(sig, fmt.Sprintf("a request that matches the listener profile was refused [%s ; %s ; body=%s ; status %d]", cfgKey(), reqKey(), q.Body, o.Status), mk(""))
	}
	if v == Admit && o.Reached {
		switch q.Body {
		case "checkin":
			if o.Status != 200 {
				r.Violate(fmt.Sprintf("matching-not-served/checkin/status=%d", o.Status), "a matching check-in of a registered agent was not answered with 200", mk(""))
			}
		case "register":
			if o.Status != 200 || !o.Session {
				r.Violate(fmt.Sprintf("matching-not-served/register/status=%d/session=%v", o.Status, o.Session), "a matching registration did not create the session", mk(""))
			}
		}
	}
	// (4) every answer to an admitted request carries the configured response headers
	if v != Refuse && implAdmitted {
		for _, want := range WantRespHeaders(c) {
			got, present := o.RespHeader[httpCanon(want.Name)]
			switch {
			case !present && !want.Required:
			case !present:
				r.Violate("response-header/missing/cfg="+c.RespLabel,
					fmt.Sprintf("the answer to an admitted request lacks the configured response header %q", want.Name), mk(""))
			case len(got) == 1 && strings.TrimSpace(got[0]) == want.Value:
			case len(got) == 1 && strings.HasPrefix(want.Value, strings.TrimSpace(got[0])+":"):
				r.Violate("response-header/value-cut-at-colon/cfg="+c.RespLabel,
					fmt.Sprintf("configured response header %q: %q is sent as %q (cut at the second ':')", want.Name, want.Value, strings.TrimSpace(got[0])), mk(""))
			default:
				r.Violate("response-header/wrong-value/cfg="+c.RespLabel,
					fmt.Sprintf("configured response header %q: %q is sent as %q", want.Name, want.Value, got), mk(""))
			}
		}
	}
	// (5) sender address of a new session
	if o.Session {
		want := WantExternalIP(c, q)
		ok := false
		for _, x := range want {
			ok = ok || x == o.ExternalIP
		}
		if !ok {
			host := PeerHost(q.Peer)
			fam := "ipv4"
			if strings.HasPrefix(q.Peer, "[") {
				fam = "ipv6"
			}
			sig := ""
			switch {
			case !c.BehindRedir && q.XFF != "" && o.ExternalIP == q.XFF:
				sig = "external-ip/forwarded-for-trusted-without-redirector"
			case c.BehindRedir && q.XFF != "" && strings.HasPrefix("["+host, o.ExternalIP) && o.ExternalIP != "":
				sig = "external-ip/peer-recorded-behind-redirector"
			case c.BehindRedir && q.XFF != "":
				sig = "external-ip/forwarded-for-not-recorded"
			case fam == "ipv6" && o.ExternalIP != "" && strings.HasPrefix("["+host+"]", o.ExternalIP):
				sig = "external-ip/ipv6-peer-truncated"
			default:
				sig = "external-ip/wrong/" + fam
			}
			r.Violate(sig, fmt.Sprintf("new session from peer %s (X-Forwarded-For %q, behind redirector: %v) recorded ExternalIP %q, want %q",
				q.Peer, q.XFF, c.BehindRedir, o.ExternalIP, want), mk(""))
		}
	}
}

func httpCanon(n string) string {
	// textproto canonical form for the token names used here
	b := []byte(strings.ToLower(n))
	up := true
	for i, c := range b {
		if up && c >= 'a' && c <= 'z' {
			b[i] = c - 32
		}
		up = c == '-'
	}
	return string(b)
}

// runConfig executes every request of the product against one configuration.  The
// full snapshot (sessions, database rows, file tree) is compared with the baseline at
// the end of the block; when it differs the block is replayed with a comparison after
// every request to name the request that changed it.
func (w *world) runConfig(r *ev.Run, c Config, sample bool) {
	reqs := Requests(c, w.alpha, w.full)
	pass := func(perRequest bool) bool {
		h := listener(c, w.p)
		sibling := false
		for i, q := range reqs {
			o := w.fire(h, q)
			implAdmitted := o.Reached
			switch q.Body {
			case "garbage":
				sibling = o.Reached
			case "junk":
				implAdmitted = sibling // Bodies order: garbage immediately precedes junk
			}
			if !perRequest {
				r.Eval(1)
				judgeCell(r, c, q, o, implAdmitted, func() string { return w.blame(c, q) })
				if sample && i%977 == 0 {
					v, cl := Judge(c, q)
					r.Sample(cell{Config: c, Request: q, Expect: v.String(), Clause: cl, Observed: o})
				}
			}
			if !o.Reached && len(w.ts.T.Agents.Agents) != 1 {
				r.Violate("refused-changed-state/sessions", "the number of sessions changed after a request that made no teamserver call", cell{Config: c, Request: q, Observed: o})
			}
			if perRequest {
				if now := w.ts.Snap(true).String(); now != w.base {
					v, cl := Judge(c, q)
					what := "refused-changed-state/" + q.Method
					if o.Reached {
						what = "served-left-residue/" + q.Body
					}
					r.Violate(what, "the teamserver state (sessions, database, files) differs from the baseline after this request",
						cell{Config: c, Request: q, Expect: v.String(), Clause: cl, Observed: o, Note: "baseline: " + w.base + " now: " + now})
					return false
				}
			}
		}
		return w.ts.Snap(true).String() == w.base
	}
	if !pass(false) {
		if pass(true) {
			r.Violate("state-changed/not-attributable", "the state differed from the baseline after the block but not after any single request of the replay", c)
		}
		// re-establish the baseline for the following blocks
		w.base = w.ts.Snap(true).String()
	}
}

// startedListeners runs the admission sub-product (every method incl. ones without a
// route x URI x User-Agent x header variant x body) against listeners brought up by
// the real (*HTTP).Start - the routes are the ones Start registers, not the ones the
// seam registers.  The socket Start binds (127.0.0.1, ephemeral port) is not used.
func (w *world) startedListeners(r *ev.Run) {
	cfgs := []Config{
		{UrisLabel: "none", HdrLabel: "none", RespLabel: "none"},
		{Uris: []string{"/a"}, UserAgent: "UA", Headers: []string{"X-A: b"}, RespHeaders: []string{"S: v"},
			UrisLabel: "one", HdrLabel: "plain", RespLabel: "plain"},
	}
	a := w.alpha
	a.Methods = []string{"POST", "GET", "PUT", "HEAD", "DELETE", "PATCH", "OPTIONS"}
	a.Peers, a.XFFs = a.Peers[:1], a.XFFs[:1]
	for i, c := range cfgs {
		h := handlers.NewConfigHttp()
		l := listener(c, w.p)
		h.Config = l.Config
		h.Config.Name = fmt.Sprintf("started%d", i)
		h.Teamserver = w.p
		h.Start()
		w.ts.Rec.Take()
		base := w.ts.Snap(true).String()
		sibling := false
		for _, q := range Requests(c, a, true) {
			o := w.fire(h, q)
			implAdmitted := o.Reached
			switch q.Body {
			case "garbage":
				sibling = o.Reached
			case "junk":
				implAdmitted = sibling
			}
			r.Eval(1)
			judgeCell(r, c, q, o, implAdmitted, func() string { return "started-listener" })
		}
		if now := w.ts.Snap(true).String(); now != base {
			r.Violate("state-changed/started-listener", "the teamserver state differs from the baseline after the started-listener block", c)
		}
	}
	w.base = w.ts.Snap(true).String()
	w.events = len(w.ts.T.EventsList)
}

// ---------------------------------------------------------------------------

func describe(r *ev.Run) []Config {
	cfgs := Configs(r.Thorough())
	r.Rule = "every listener configuration (full product Uris x UserAgent x Headers x Response.Headers x BehindRedir) x every request; "
	if r.Thorough() {
		r.Rule += "requests = full product method x request-URI x User-Agent variant x header-set variant (derived from the configured headers) x peer x X-Forwarded-For x body kind; "
	} else {
		r.Rule += "requests = union of (A) full product method x request-URI x User-Agent variant x header-set variant x body kind from the first peer without X-Forwarded-For and " +
			"(B) every other (peer, X-Forwarded-For) pair x POST x request-URI x User-Agent {absent, exact} x header set {none, exact} x body kind; "
	}
	r.Rule += "plus 2 configurations brought up by the real Start() x 7 methods x URI x User-Agent x header variant x body; each cell executed on the real (*HTTP).request behind the listener's gin routes of a real in-process teamserver; reference predicate Judge decides admit/open/refuse"
	r.Bounds["configurations"] = len(cfgs)
	r.Bounds["uris"] = len(uriSets(r.Thorough()))
	r.Bounds["header_sets"] = len(headerSets(r.Thorough()))
	r.Bounds["response_header_sets"] = len(respSets(r.Thorough()))
	a := RequestAlphabet(r.Thorough())
	r.Bounds["methods"] = a.Methods
	r.Bounds["request_uris"] = a.Paths
	r.Bounds["user_agent_variants"] = len(UAVariants)
	r.Bounds["header_variants_max"] = 10
	r.Bounds["peers"] = a.Peers
	r.Bounds["x_forwarded_for"] = a.XFFs
	r.Bounds["bodies"] = a.Bodies
	return cfgs
}

func Run(r *ev.Run) {
	for i, a := range os.Args {
		if a == "--replay" && i+1 < len(os.Args) {
			replay(r, os.Args[i+1])
			return
		}
	}
	cfgs := describe(r)
	r.Assume(
		"requests enter at the listener's gin engine (httptest), not through a socket: header names arrive canonicalised as net/http would deliver them, values are not trimmed",
		"'reached the agent protocol' = any call on the agent.TeamServer interface (AgentExist/AgentInstance/ServiceAgentExist lookups counted, all others logged by the recorder); a body the protocol rejects before its first lookup ('junk') is only checked for 404 / no change / response headers",
		"cells the statement leaves open (value differing only in case, the two documented-ignored headers, entries without ': ', path equal but query different, user agent with surrounding blanks) may be served or refused",
		"state comparison (sessions, database rows, file tree) is made once per configuration block and attributed by replaying the block; LastCallIn is excluded from the snapshot",
	)
	if w := os.Getenv("VERIF_WORKER"); w != "" {
		var i, n int
		fmt.Sscanf(w, "%d/%d", &i, &n)
		worker(r, cfgs, i, n)
		if err := r.WritePartial(os.Getenv("VERIF_PARTIAL")); err != nil {
			fmt.Fprintln(os.Stderr, "c12 worker:", err)
			os.Exit(3)
		}
		os.Exit(0)
	}
	coordinate(r)
}

func deadline(r *ev.Run) time.Duration {
	if d, err := strconv.Atoi(os.Getenv("VERIF_C12_DEADLINE_S")); err == nil && d > 0 {
		return time.Duration(d) * time.Second
	}
	if r.Thorough() {
		return 17 * time.Minute
	}
	return 75 * time.Second
}

func worker(r *ev.Run, cfgs []Config, i, n int) {
	if p := os.Getenv("VERIF_C12_PROF"); p != "" && i == 0 {
		f, _ := os.Create(p)
		pprof.StartCPUProfile(f)
		defer pprof.StopCPUProfile()
	}
	start := time.Now()
	limit := deadline(r)
	w := newWorld(r.Thorough())
	defer w.ts.Close()
	if i == 0 {
		w.startedListeners(r)
	}
	if i == 1%n {
		editedListeners(r, r.Thorough())
	}
	// Configurations are visited in a fixed stride permutation of the product order, so
	// that a run stopped by the deadline has seen every value of every feature rather
	// than only the first Uris sets.
	stride := 611 // coprime to 480 and 1680
	for gcd(stride, len(cfgs)) != 1 {
		stride++
	}
	for k := range cfgs {
		if k%n != i {
			continue
		}
		if time.Since(start) > limit {
			r.NotExhaustive(fmt.Sprintf("worker %d/%d stopped at position %d of %d (stride-%d order) after %s", i, n, k, len(cfgs), stride, limit))
			break
		}
		w.runConfig(r, cfgs[(k*stride)%len(cfgs)], i == 0)
	}
}

func gcd(a, b int) int {
	for b != 0 {
		a, b = b, a%b
	}
	return a
}

func coordinate(r *ev.Run) {
	dir, err := os.MkdirTemp(seam.BaseTmp(), "verif-c12-")
	if err != nil {
		panic(err)
	}
	defer os.RemoveAll(dir)
	par := runtime.NumCPU()
	if par > shards {
		par = shards
	}
	sem := make(chan struct{}, par)
	var wg sync.WaitGroup
	errs := make([]error, shards)
	for i := 0; i < shards; i++ {
		wg.Add(1)
		go func(i int) {
			defer wg.Done()
			sem <- struct{}{}
			defer func() { <-sem }()
			cmd := exec.Command(os.Args[0])
			cmd.Env = append(os.Environ(), fmt.Sprintf("VERIF_WORKER=%d/%d", i, shards), "VERIF_PARTIAL="+filepath.Join(dir, fmt.Sprintf("p%02d.json", i)))
			cmd.Stderr = os.Stderr
			errs[i] = cmd.Run()
		}(i)
	}
	wg.Wait()
	for i := 0; i < shards; i++ {
		if errs[i] != nil {
			r.NotExhaustive(fmt.Sprintf("worker %d failed: %v", i, errs[i]))
			r.Violate("harness/worker-failed", "a worker subprocess did not finish (crash of the code under test outside a handler, or harness error)", fmt.Sprint(errs[i]))
			continue
		}
		if err := r.MergePartialFile(filepath.Join(dir, fmt.Sprintf("p%02d.json", i))); err != nil {
			r.NotExhaustive(fmt.Sprintf("partial of worker %d unreadable: %v", i, err))
			r.Violate("harness/worker-failed", "partial result unreadable", err.Error())
		}
	}
}

// replay re-executes the cell stored in a replay file and prints reference and observation.
func replay(r *ev.Run, path string) {
	if os.Getenv("VERIF_EVIDENCE") == "" {
		// a single-cell replay must not overwrite the tier's evidence file
		os.Setenv("VERIF_EVIDENCE", filepath.Join(os.TempDir(), "C12-replay-evidence.json"))
	}
	b, err := os.ReadFile(path)
	if err != nil {
		fmt.Fprintln(os.Stderr, err)
		os.Exit(2)
	}
	var f struct {
		Detail cell `json:"detail"`
	}
	if err := json.Unmarshal(b, &f); err != nil {
		fmt.Fprintln(os.Stderr, err)
		os.Exit(2)
	}
	describe(r)
	w := newWorld(r.Thorough())
	defer w.ts.Close()
	c, q := f.Detail.Config, f.Detail.Request
	o := w.fire(listener(c, w.p), q)
	v, cl := Judge(c, q)
	out, _ := json.MarshalIndent(cell{Config: c, Request: q, Expect: v.String(), Clause: cl, Observed: o}, "", " ")
	fmt.Println(string(out))
	r.Eval(1)
	admitted := o.Reached
	if q.Body == "junk" {
		g := q
		g.Body = "garbage"
		admitted = w.fire(listener(c, w.p), g).Reached
	}
	judgeCell(r, c, q, o, admitted, func() string { return w.blame(c, q) })
	r.Outcome("replay")
	r.NotExhaustive("replay of a single cell")
}
