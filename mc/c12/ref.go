package c12

import (
	"net"
	"strings"
)

// The reference predicate, written from the property statement:
//
//   a request reaches the agent protocol only if it is a POST whose path is one of the
//   listener's configured URIs (when any are configured), whose User-Agent equals the
//   configured one (when configured) and which carries every configured request header
//   with the configured value.
//
// Where the statement (together with what the code documents) leaves a cell open the
// predicate is three-valued; an open cell may be served or refused:
//
//   * header NAME lookup is ASCII-case-insensitive (HTTP);
//   * header VALUE differing from the configured one only in letter case: the code's
//     comment documents the comparison as case-insensitive, the statement says "the
//     configured value" -> open;
//   * the two headers the code documents as ignored ("Connection", "Accept-Encoding"),
//     when the request does not carry them exactly -> open;
//   * a configured entry that is not of the form "Name: value" (no ": ") -> open;
//     an entry without any colon constrains nothing;
//   * the request-URI with its query differs from every configured URI but its path
//     alone is a configured URI ("/a?q" against "/a") -> open;
//   * a User-Agent that differs only by surrounding blanks (cannot arrive that way over
//     a real connection) -> open.

type Verdict int

const (
	Refuse Verdict = iota // must not reach the agent protocol
	Open                  // either
	Admit                 // must be served
)

func (v Verdict) String() string { return [...]string{"refuse", "open", "admit"}[v] }

var ignoredNames = []string{"Connection", "Accept-Encoding"}

func isIgnoredName(n string) bool {
	for _, i := range ignoredNames {
		if strings.EqualFold(n, i) {
			return true
		}
	}
	return false
}

func lookup(h [][2]string, name string) (string, bool) {
	for _, p := range h {
		if strings.EqualFold(p[0], name) {
			return p[1], true
		}
	}
	return "", false
}

func pathOf(uri string) string {
	if i := strings.IndexByte(uri, '?'); i >= 0 {
		return uri[:i]
	}
	return uri
}

// Judge returns the verdict and, when it is not Admit, the first clause that is not
// fully satisfied (for outcome classes and signatures).
func Judge(c Config, q Request) (Verdict, string) {
	v, clause := Admit, ""
	note := func(x Verdict, cl string) {
		if x < v {
			v = x
			clause = cl
		}
	}
	// POST
	if q.Method != "POST" {
		return Refuse, "method"
	}
	// URI
	var uris []string
	for _, u := range c.Uris {
		if u != "" {
			uris = append(uris, u)
		}
	}
	if len(uris) > 0 {
		x := Refuse
		for _, u := range uris {
			if q.URI == u {
				x = Admit
				break
			}
			if pathOf(q.URI) == u {
				x = Open
			}
		}
		note(x, "uri")
	}
	// User-Agent
	if c.UserAgent != "" {
		switch {
		case q.UA != nil && *q.UA == c.UserAgent:
		case q.UA != nil && strings.TrimSpace(*q.UA) == c.UserAgent:
			note(Open, "user-agent")
		default:
			note(Refuse, "user-agent")
		}
	}
	// headers
	for _, e := range c.Headers {
		name, value, ok := splitEntry(e)
		if !ok {
			continue
		}
		got, present := lookup(q.Headers, name)
		if present && got == value {
			continue
		}
		wellFormed := strings.Contains(e, ": ")
		switch {
		case !wellFormed, isIgnoredName(name):
			note(Open, "header")
		case present && strings.EqualFold(got, value):
			note(Open, "header")
		default:
			note(Refuse, "header")
		}
	}
	return v, clause
}

// RespHeader is one configured response header the answer must carry.
type RespHeader struct {
	Name, Value string
	Required    bool // every entry that has a name and a colon: "Name:value" is a header line as good as "Name: value"
}

func WantRespHeaders(c Config) []RespHeader {
	var out []RespHeader
	for _, e := range c.RespHeaders {
		// a response header line is "name ':' value": the name ends at the FIRST colon (a
		// header name cannot hold one), blanks around the value do not count
		i := strings.Index(e, ":")
		if i <= 0 {
			continue
		}
		n, v := e[:i], e[i+1:]
		out = append(out, RespHeader{Name: strings.TrimSpace(n), Value: strings.TrimSpace(v), Required: true})
	}
	return out
}

// WantExternalIP: the peer host, or the forwarded-for header iff behind a redirector.
// With a redirector profile and no such header the statement names no value: the
// empty string and the peer host are both accepted.
func WantExternalIP(c Config, q Request) []string {
	host := PeerHost(q.Peer)
	if !c.BehindRedir {
		return []string{host}
	}
	if q.XFF != "" {
		return []string{q.XFF}
	}
	return []string{"", host}
}

// PeerHost is the host part of a "host:port" / "[v6host]:port" peer address.
func PeerHost(peer string) string {
	host, _, err := net.SplitHostPort(peer)
	if err != nil {
		return peer
	}
	return host
}
