package c12

import (
	"fmt"
	"os"
	"strings"

	"Havoc/pkg/handlers"
	"Havoc/pkg/packager"

	"verifmc/ev"
	"verifmc/seam"
)

// editedListeners: the gate and the recorded sender address of a listener that was
// created and then edited by an operator (Listener.Add / Listener.Edit through the real
// DispatchEvent), for a profile that trusts X-Forwarded-For and for one that does not.
// The requests are the (B) sub-product (every (peer, X-Forwarded-For) pair) plus the
// admission sub-product, judged against the configuration in force: the one of the Add
// before the edit, the edited one afterwards.  "Behind a redirector" is a property of the
// profile, not of the operator's form: it must be the same before and after the edit.
func editedListeners(r *ev.Run, thorough bool) {
	for _, trust := range []bool{false, true} {
		w := &world{ts: seam.New(seam.Options{TrustXFF: trust}), alpha: RequestAlphabet(thorough), full: thorough}
		func() {
			defer w.ts.Close()
			w.ts.MustRegister(knownAgent, 1)
			w.ts.Rec.Take()
			w.p = &probe{Recorder: w.ts.Rec}
			w.events = len(w.ts.T.EventsList)
			w.bodies = newWorldBodies()
			name := fmt.Sprintf("edited-%v", trust)
			info := map[string]any{"Protocol": "Http", "Name": name,
				"Hosts": "127.0.0.1", "HostBind": "127.0.0.1", "HostRotation": "round-robin", "PortBind": "0", "PortConn": "",
				"Headers": "X-A: b", "Uris": "/a", "HostHeader": "", "UserAgent": "UA", "Secure": "false", "Proxy Enabled": "false"}
			dispatch := func(sub int, info map[string]any) (err string) {
				defer func() {
					if p := recover(); p != nil {
						err = fmt.Sprint(p) + " @" + seam.StackTop()
					}
				}()
				w.ts.T.DispatchEvent(packager.Package{Head: packager.Head{Event: packager.Type.Listener.Type, User: "op1"}, Body: packager.Body{SubEvent: sub, Info: info}})
				return ""
			}
			find := func() *handlers.HTTP {
				for _, l := range w.ts.T.Listeners {
					if h, ok := l.Config.(*handlers.HTTP); ok && l.Name == name {
						return h
					}
				}
				return nil
			}
			block := func(stage string, c Config) {
				h := find()
				if h == nil {
					r.Violate("edited-listener/"+stage+"/not-running", "the listener is not in the teamserver's list", name)
					return
				}
				h.Teamserver = w.p
				w.events = len(w.ts.T.EventsList)
				sibling := false
				for _, q := range Requests(c, w.alpha, w.full) {
					o := w.fire(h, q)
					implAdmitted := o.Reached
					switch q.Body {
					case "garbage":
						sibling = o.Reached
					case "junk":
						implAdmitted = sibling
					}
					r.Eval(1)
					if os.Getenv("VERIF_C12_DEBUG") != "" && q.Body == "register" && q.XFF != "" {
						fmt.Fprintf(os.Stderr, "DBG %s trust=%v cfgBR=%v %s %s ua=%s hdr=%s peer=%s xff=%s -> reached=%v session=%v ip=%q\n", stage, trust, h.Config.BehindRedir, q.Method, q.URI, q.UAVariant, q.HdrVariant, q.Peer, q.XFF, o.Reached, o.Session, o.ExternalIP)
					}
					judgeCell(r, c, q, o, implAdmitted, func() string { return "edited-listener:" + stage })
				}
			}
			if e := dispatch(packager.Type.Listener.Add, info); e != "" {
				r.Violate("panic/listener-add", "Listener.Add panicked", e)
				return
			}
			c1 := Config{Uris: []string{"/a"}, UserAgent: "UA", Headers: []string{"X-A: b"}, BehindRedir: trust,
				UrisLabel: "one", HdrLabel: "plain", RespLabel: "none"}
			block("added", c1)
			edit := map[string]any{} // the client sends the whole form again
			for k, v := range info {
				edit[k] = v
			}
			edit["Headers"], edit["Uris"] = "X-C: d", "/b" // values the request alphabet reaches
			if e := dispatch(packager.Type.Listener.Edit, edit); e != "" {
				r.Violate("panic/listener-edit", "Listener.Edit panicked", e)
				return
			}
			if h := find(); h == nil || strings.Join(h.Config.Headers, ",") != "X-C: d" || strings.Join(h.Config.Uris, ",") != "/b" {
				r.NotExhaustive("the edit did not reach the running listener (edited-listener block judged against the edited configuration anyway)")
			}
			c2 := Config{Uris: []string{"/b"}, UserAgent: "UA", Headers: []string{"X-C: d"}, BehindRedir: trust,
				UrisLabel: "one", HdrLabel: "plain", RespLabel: "none"}
			block("edited", c2)

			// the operator's form, as DispatchEvent turns it into a configuration: every shape of
			// the URI / header / user-agent fields (one-character URI, several, none)
			forms := []struct {
				label, uris, headers, ua string
				cfg                      Config
			}{
				{"root-only", "/", "X-A: b", "UA", Config{Uris: []string{"/"}, UserAgent: "UA", Headers: []string{"X-A: b"}, UrisLabel: "root", HdrLabel: "plain"}},
				{"root-and-b", "/, /b", "X-A: b", "UA", Config{Uris: []string{"/", "/b"}, UserAgent: "UA", Headers: []string{"X-A: b"}, UrisLabel: "root+b", HdrLabel: "plain"}},
				{"no-uris", "", "X-A: b", "UA", Config{UserAgent: "UA", Headers: []string{"X-A: b"}, UrisLabel: "none", HdrLabel: "plain"}},
				{"no-headers", "/a", "", "UA", Config{Uris: []string{"/a"}, UserAgent: "UA", UrisLabel: "one", HdrLabel: "none"}},
				{"no-user-agent", "/a", "X-A: b", "", Config{Uris: []string{"/a"}, Headers: []string{"X-A: b"}, UrisLabel: "one", HdrLabel: "plain"}},
				{"two-headers", "/a", "X-A: b, X-C: d", "UA", Config{Uris: []string{"/a"}, UserAgent: "UA", Headers: []string{"X-A: b", "X-C: d"}, UrisLabel: "one", HdrLabel: "two"}},
			}
			for _, f := range forms {
				name = fmt.Sprintf("form-%s-%v", f.label, trust)
				add := map[string]any{}
				for k, v := range info {
					add[k] = v
				}
				add["Name"], add["Uris"], add["Headers"], add["UserAgent"] = name, f.uris, f.headers, f.ua
				if e := dispatch(packager.Type.Listener.Add, add); e != "" {
					r.Violate("panic/listener-add", "Listener.Add panicked", e)
					continue
				}
				cfg := f.cfg
				cfg.BehindRedir, cfg.RespLabel = trust, "none"
				block("form:"+f.label, cfg)
			}
		}()
	}
}
