package c20

// docmodel.go: the reference model of a document under edits.  It is deliberately
// naive: an ordered list of items (attributes and blocks, blocks holding a list of
// their own) plus the flat list of comments; an edit changes exactly the item it
// names.  The initial model of a base file comes from the native parser and lexer
// of the *source*; the writer under test is never consulted.

import (
	"fmt"
	"strings"

	hcl "Havoc/pkg/profile/yaotl"
	"Havoc/pkg/profile/yaotl/hclsyntax"
	"github.com/zclconf/go-cty/cty"
)

type mComment struct {
	text     string
	required bool // false once the edit history may legitimately have dropped it
}

type mVal struct {
	orig    bool   // untouched since the base file
	tree    string // orig / raw / traversal: expected expression tree
	text    string // orig: expression source modulo blanks
	lit     bool
	litVal  cty.Value // literal: the value the expression must evaluate to
	litDesc string
}

type mItem struct {
	block      bool
	name       string
	labels     []string
	headerText string // untouched block header modulo blanks ("" once type or labels were set)
	val        mVal
	body       *mBody
	owned      []*mComment // lead, inner and line comments: go (or may go) with the item
	inner      []*mComment // inside the expression / between the header tokens
}

type mBody struct {
	items    []*mItem
	comments []*mComment // every comment inside the body, nested ones included
}

type Model struct {
	root     *mBody
	comments []*mComment // source order
}

// NewModel builds the model of a base file.
func NewModel(src []byte) (*Model, error) {
	f, diags := hclsyntax.ParseConfig(src, "f", hcl.InitialPos)
	if diags.HasErrors() {
		return nil, diagErr(diags)
	}
	toks, _ := hclsyntax.LexConfig(src, "f", hcl.InitialPos)
	m := &Model{}
	cm := map[int]*mComment{} // token index -> comment
	for i, t := range toks {
		if t.Type == hclsyntax.TokenComment {
			c := &mComment{text: strings.TrimRight(string(t.Bytes), "\r\n"), required: true}
			cm[i] = c
			m.comments = append(m.comments, c)
		}
	}
	b := &modelBuilder{src: src, toks: toks, cm: cm}
	m.root = b.body(f.Body.(*hclsyntax.Body), 0, len(toks))
	return m, nil
}

// Clone copies the model (items, bodies and comments; values are immutable).
func (m *Model) Clone() *Model {
	cm := make(map[*mComment]*mComment, len(m.comments))
	n := &Model{comments: make([]*mComment, len(m.comments))}
	for i, c := range m.comments {
		cc := *c
		n.comments[i] = &cc
		cm[c] = &cc
	}
	mapc := func(cs []*mComment) []*mComment {
		if cs == nil {
			return nil
		}
		out := make([]*mComment, len(cs))
		for i, c := range cs {
			out[i] = cm[c]
		}
		return out
	}
	var body func(b *mBody) *mBody
	body = func(b *mBody) *mBody {
		if b == nil {
			return nil
		}
		nb := &mBody{comments: mapc(b.comments), items: make([]*mItem, len(b.items))}
		for i, it := range b.items {
			ni := *it
			ni.labels = append([]string(nil), it.labels...)
			ni.owned = mapc(it.owned)
			ni.inner = mapc(it.inner)
			ni.body = body(it.body)
			nb.items[i] = &ni
		}
		return nb
	}
	n.root = body(m.root)
	return n
}

type modelBuilder struct {
	src  []byte
	toks hclsyntax.Tokens
	cm   map[int]*mComment
}

// tokAt returns the index of the first token starting at or after byte off.
func (b *modelBuilder) tokAt(off int) int {
	lo, hi := 0, len(b.toks)
	for lo < hi {
		mid := (lo + hi) / 2
		if b.toks[mid].Range.Start.Byte < off {
			lo = mid + 1
		} else {
			hi = mid
		}
	}
	return lo
}

func (b *modelBuilder) collect(from, to int) []*mComment {
	var cs []*mComment
	for i := from; i < to; i++ {
		if c, ok := b.cm[i]; ok {
			cs = append(cs, c)
		}
	}
	return cs
}

// body models the items of nb whose tokens lie in [from,to).
func (b *modelBuilder) body(nb *hclsyntax.Body, from, to int) *mBody {
	doc := docOf(nb, b.src, false)
	mb := &mBody{comments: b.collect(from, to)}
	type nat struct {
		attr  *hclsyntax.Attribute
		block *hclsyntax.Block
	}
	byStart := map[int]nat{}
	for _, a := range nb.Attributes {
		byStart[a.SrcRange.Start.Byte] = nat{attr: a}
	}
	for _, bl := range nb.Blocks {
		byStart[bl.Range().Start.Byte] = nat{block: bl}
	}
	floor := from // lead comments may not reach back over the previous item's line
	for _, p := range doc.Items {
		n := byStart[p.Start]
		first := b.tokAt(p.Start)
		var endByte int
		if n.attr != nil {
			endByte = n.attr.Expr.Range().End.Byte
		} else {
			endByte = n.block.CloseBraceRange.End.Byte
		}
		after := b.tokAt(endByte)
		lead := first
		for lead-1 >= floor && b.toks[lead-1].Type == hclsyntax.TokenComment {
			lead--
		}
		line := after
		for line < to && b.toks[line].Type == hclsyntax.TokenComment {
			bs := b.toks[line].Bytes
			line++
			if len(bs) > 0 && bs[len(bs)-1] == '\n' {
				break
			}
		}
		it := &mItem{name: p.Name, owned: b.collect(lead, line)}
		if n.attr != nil {
			it.val = mVal{orig: true, tree: p.Tree, text: p.Text}
			it.inner = b.collect(first, after)
		} else {
			bl := n.block
			it.block = true
			it.labels = append([]string(nil), bl.Labels...)
			it.headerText = p.Text
			open := b.tokAt(bl.OpenBraceRange.End.Byte)
			cls := b.tokAt(bl.CloseBraceRange.Start.Byte)
			it.inner = b.collect(first, open)
			it.body = b.body(bl.Body, open, cls)
		}
		mb.items = append(mb.items, it)
		floor = line
	}
	return mb
}

// ---------------------------------------------------------------------------
// edits on the model

func (b *mBody) attr(name string) (int, *mItem) {
	for i, it := range b.items {
		if !it.block && it.name == name {
			return i, it
		}
	}
	return -1, nil
}

func (b *mBody) blocks() []*mItem {
	var bs []*mItem
	for _, it := range b.items {
		if it.block {
			bs = append(bs, it)
		}
	}
	return bs
}

func optional(cs []*mComment) {
	for _, c := range cs {
		c.required = false
	}
}

func (b *mBody) setAttr(name string, v mVal) {
	if _, it := b.attr(name); it != nil {
		it.val = v
		optional(it.inner) // a comment inside the replaced expression goes with it
		return
	}
	b.items = append(b.items, &mItem{name: name, val: v})
}

func (b *mBody) removeAttr(name string) {
	if i, it := b.attr(name); it != nil {
		optional(it.owned)
		b.items = append(b.items[:i:i], b.items[i+1:]...)
	}
}

func (b *mBody) appendBlock(typ string, labels []string) {
	b.items = append(b.items, &mItem{block: true, name: typ, labels: append([]string{}, labels...), body: &mBody{}})
}

func (b *mBody) removeBlock(it *mItem) {
	for i, x := range b.items {
		if x == it {
			optional(it.owned)
			b.items = append(b.items[:i:i], b.items[i+1:]...)
			return
		}
	}
}

func (b *mBody) clear() {
	optional(b.comments)
	b.items = nil
}

// ---------------------------------------------------------------------------
// comparing the model with what the re-parsed output shows

// expectLiteral is the value a literal written for v evaluates to: the native syntax
// has only tuple and object constructors and an untyped null.
func expectLiteral(v cty.Value) cty.Value {
	switch {
	case v.IsNull():
		return cty.NullVal(cty.DynamicPseudoType)
	case v.Type().IsListType() || v.Type().IsSetType() || v.Type().IsTupleType():
		var es []cty.Value
		for it := v.ElementIterator(); it.Next(); {
			_, e := it.Element()
			es = append(es, expectLiteral(e))
		}
		if len(es) == 0 {
			return cty.EmptyTupleVal
		}
		return cty.TupleVal(es)
	case v.Type().IsMapType() || v.Type().IsObjectType():
		es := map[string]cty.Value{}
		for it := v.ElementIterator(); it.Next(); {
			k, e := it.Element()
			es[k.AsString()] = expectLiteral(e)
		}
		if len(es) == 0 {
			return cty.EmptyObjectVal
		}
		return cty.ObjectVal(es)
	}
	return v
}

// diff returns "" when the parsed document shows exactly the model's items, in
// order, with the expected names, labels and values; else the first difference.
func (b *mBody) diff(p *PDoc, path string) string {
	for i := 0; i < len(b.items) || i < len(p.Items); i++ {
		if i >= len(p.Items) {
			return fmt.Sprintf("%s: item %d (%s) is missing from the output", path, i, b.items[i].describe())
		}
		if i >= len(b.items) {
			return fmt.Sprintf("%s: output has an extra item %d (%s)", path, i, p.Items[i].describe())
		}
		m, a := b.items[i], p.Items[i]
		where := fmt.Sprintf("%s[%d]", path, i)
		if m.block != a.Block || m.name != a.Name {
			return fmt.Sprintf("%s: expected %s, output has %s", where, m.describe(), a.describe())
		}
		if m.block {
			if !sameStrings(m.labels, a.Labels) {
				return fmt.Sprintf("%s: block %s: expected labels %q, output has %q", where, m.name, m.labels, a.Labels)
			}
			if m.headerText != "" && m.headerText != a.Text {
				return fmt.Sprintf("%s: untouched block header changed: %q -> %q", where, m.headerText, a.Text)
			}
			if d := m.body.diff(a.Body, where+"."+m.name); d != "" {
				return d
			}
			continue
		}
		switch {
		case m.val.orig:
			if m.val.tree != a.Tree {
				return fmt.Sprintf("%s: untouched attribute %s now parses differently: %s -> %s", where, m.name, m.val.tree, a.Tree)
			}
			if m.val.text != a.Text {
				return fmt.Sprintf("%s: untouched attribute %s: expression text changed: %q -> %q", where, m.name, m.val.text, a.Text)
			}
		case m.val.lit:
			got, diags := a.expr.Value(nil)
			if diags.HasErrors() {
				return fmt.Sprintf("%s: attribute %s set to %s does not evaluate: %v", where, m.name, m.val.litDesc, diagErr(diags))
			}
			if !got.RawEquals(m.val.litVal) {
				return fmt.Sprintf("%s: attribute %s set to %s reads back as %s", where, m.name, m.val.litVal.GoString(), got.GoString())
			}
		default:
			if m.val.tree != a.Tree {
				return fmt.Sprintf("%s: attribute %s: expected expression %s, output has %s", where, m.name, m.val.tree, a.Tree)
			}
		}
	}
	return ""
}

func (m *mItem) describe() string {
	if m.block {
		return fmt.Sprintf("block %s %q", m.name, m.labels)
	}
	return "attribute " + m.name
}

func (p *PItem) describe() string {
	if p.Block {
		return fmt.Sprintf("block %s %q", p.Name, p.Labels)
	}
	return "attribute " + p.Name
}

func sameStrings(a, b []string) bool {
	if len(a) != len(b) {
		return false
	}
	for i := range a {
		if a[i] != b[i] {
			return false
		}
	}
	return true
}

// commentDiff: every required comment must survive, in order, and the output may
// hold no comment the model does not know (must ⊆ out ⊆ may, as subsequences).
func (m *Model) commentDiff(out []string) string {
	var must, may []string
	for _, c := range m.comments {
		may = append(may, c.text)
		if c.required {
			must = append(must, c.text)
		}
	}
	if c, ok := subsequence(must, out); !ok {
		return fmt.Sprintf("comment %q was lost or moved (output has %q)", c, out)
	}
	if c, ok := subsequence(out, may); !ok {
		return fmt.Sprintf("output has comment %q that the source did not have there (source %q)", c, may)
	}
	return ""
}

// subsequence reports whether small occurs in big in order; else the first element
// of small that does not.
func subsequence(small, big []string) (string, bool) {
	j := 0
	for _, s := range small {
		for j < len(big) && big[j] != s {
			j++
		}
		if j == len(big) {
			return s, false
		}
		j++
	}
	return "", true
}
