package c20

// files.go: part (a) -- the product enumeration of source files and the three
// per-file oracles (lossless token round trip, formatting).

import (
	"bytes"
	"fmt"
	"os"
	"sort"
	"sync"
	"sync/atomic"
	"time"

	hcl "Havoc/pkg/profile/yaotl"
	"Havoc/pkg/profile/yaotl/hclwrite"
	"verifmc/ev"
)

// fileFinding is one failed clause for one file.
type fileFinding struct {
	Sig    string
	What   string
	Detail map[string]any
}

// CheckFile runs every per-file oracle; it never panics.
func CheckFile(f File) (out []fileFinding) {
	add := func(clause, what string, extra map[string]any) {
		d := map[string]any{"kind": "file", "desc": f.Desc, "src": string(f.Src)}
		for k, v := range extra {
			d[k] = v
		}
		out = append(out, fileFinding{Sig: "file/" + clause, What: what, Detail: d})
	}
	defer func() {
		if e := recover(); e != nil {
			add("panic/"+ev.Normalize(fmt.Sprint(e)), fmt.Sprintf("panic while rewriting %q: %v", f.Src, e), nil)
		}
	}()

	srcDoc, err := Parse(f.Src)
	if err != nil {
		// the generator only writes valid files; anything else is a harness bug
		panic(harnessBug{fmt.Sprintf("generated file does not parse (%s): %v\n%s", f.Desc, err, f.Src)})
	}

	// (1) load into the writer and serialise the tokens, unformatted
	wf, diags := hclwrite.ParseConfig(f.Src, "f", hcl.InitialPos)
	if diags.HasErrors() {
		add("writer-rejects", fmt.Sprintf("hclwrite.ParseConfig rejects a file the native parser accepts: %v", diagErr(diags)), nil)
		return
	}
	raw := wf.BuildTokens(nil).Bytes()
	if !bytes.Equal(raw, f.Detab) {
		add("tokens-not-lossless", fmt.Sprintf("ParseConfig(src) serialised token by token differs from src (tabs between tokens as spaces): got %q want %q", raw, f.Detab),
			map[string]any{"got": string(raw), "want": string(f.Detab)})
	}

	// (2) the formatter, stand-alone and as applied by File.Bytes
	fmted := hclwrite.Format(f.Src)
	checkFormatted(f, srcDoc, fmted, "Format", add)
	fb := wf.Bytes()
	if !bytes.Equal(fb, fmted) {
		checkFormatted(f, srcDoc, fb, "File.Bytes", add)
	}
	return
}

func checkFormatted(f File, srcDoc *PDoc, fmted []byte, who string, add func(string, string, map[string]any)) {
	x := map[string]any{"formatted": string(fmted), "by": who}
	// only blanks, tabs (and so indentation) may differ: the token texts appear
	// verbatim, in order, with nothing but blanks and tabs between them
	if at, ok := onlyLayoutDiffers(fmted, f.Chunks); !ok {
		add("format-changes-text", fmt.Sprintf("%s changed more than spaces, tabs and indentation (at output byte %d): %q -> %q", who, at, f.Src, fmted), x)
		return
	}
	again := hclwrite.Format(fmted)
	if !bytes.Equal(again, fmted) {
		x["formatted_twice"] = string(again)
		add("format-not-idempotent", fmt.Sprintf("Format(%s(x)) != %s(x): %q then %q", who, who, fmted, again), x)
	}
	if bytes.Equal(fmted, f.Src) {
		return
	}
	fdoc, err := Parse(fmted)
	if err != nil {
		add("formatted-does-not-parse", fmt.Sprintf("%s output does not parse: %v: %q", who, err, fmted), x)
		return
	}
	if a, b := srcDoc.String(), fdoc.String(); a != b {
		x["tree_src"], x["tree_formatted"] = a, b
		add("format-changes-meaning", fmt.Sprintf("%s output parses to a different tree or decodes to different values: %q -> %q", who, f.Src, fmted), x)
	}
}

// onlyLayoutDiffers matches out against ws* chunk ws* chunk ... ws*.
func onlyLayoutDiffers(out []byte, chunks [][]byte) (int, bool) {
	p := 0
	skip := func() {
		for p < len(out) && (out[p] == ' ' || out[p] == '\t') {
			p++
		}
	}
	for _, c := range chunks {
		// a chunk may itself start with blanks (token text such as heredoc
		// lines); try it at the current position first, then after the layout
		if !bytes.HasPrefix(out[p:], c) {
			skip()
			if !bytes.HasPrefix(out[p:], c) {
				return p, false
			}
		}
		p += len(c)
	}
	skip()
	return p, p == len(out)
}

type harnessBug struct{ msg string }

func (h harnessBug) String() string { return "harness bug: " + h.msg }

// ---------------------------------------------------------------------------

type fileSpace struct {
	alphabet []int
	maxLen   int
}

// enumerate calls fn for every item sequence of the space, in a fixed order.
func (s fileSpace) sequences(fn func(seq []int)) {
	seq := make([]int, 0, s.maxLen)
	var rec func()
	rec = func() {
		fn(seq)
		if len(seq) == s.maxLen {
			return
		}
		for _, a := range s.alphabet {
			seq = append(seq, a)
			rec()
			seq = seq[:len(seq)-1]
		}
	}
	rec()
}

// runFiles enumerates the file spaces over a pool of goroutines.  A job is one
// prefix of up to two items and all its extensions; findings are kept per job and
// reported in job order, so the report does not depend on scheduling.
func runFiles(r *ev.Run, spaces []fileSpace, workers int, deadline time.Time) {
	type job struct {
		space  int
		prefix []int
	}
	type sigAgg struct {
		first fileFinding
		n     int
	}
	var jobs []job
	for si, sp := range spaces {
		fileSpace{sp.alphabet, min(2, sp.maxLen)}.sequences(func(seq []int) {
			jobs = append(jobs, job{si, append([]int(nil), seq...)})
		})
	}
	// shortest files first, so that the reported counterexample is a small one
	sort.SliceStable(jobs, func(i, j int) bool {
		if jobs[i].space != jobs[j].space {
			return jobs[i].space < jobs[j].space
		}
		return len(jobs[i].prefix) < len(jobs[j].prefix)
	})
	results := make([]map[string]*sigAgg, len(jobs))
	sigOrder := make([][]string, len(jobs))
	var files, invalidVariants int64
	var capped atomic.Bool
	outcome := newOutcomeSet()
	var bug atomic.Value

	// the variant without the final newline concerns the last item only: it is
	// generated below the longest length of a space (and for single items)
	inSpace := func(sp fileSpace, seq []int, nl bool) bool {
		if len(seq) > sp.maxLen || !subset(seq, sp.alphabet) {
			return false
		}
		return nl || len(seq) < sp.maxLen || len(seq) <= 1
	}
	one := func(ji int, seq []int) {
		for st := Style(0); st <= Wide; st++ {
			if st == Wide && len(seq) > 2 {
				continue
			}
			for _, nl := range []bool{true, false} {
				if !inSpace(spaces[jobs[ji].space], seq, nl) {
					continue
				}
				covered := false
				for _, prev := range spaces[:jobs[ji].space] {
					// a later space repeats short sequences of an earlier one
					covered = covered || inSpace(prev, seq, nl)
				}
				if covered {
					continue
				}
				f, ok := Render(seq, st, nl)
				if !ok {
					atomic.AddInt64(&invalidVariants, 1)
					continue
				}
				atomic.AddInt64(&files, 1)
				fs := CheckFile(f)
				if len(fs) == 0 {
					outcome.add(fileOutcome(f, seq))
				}
				for _, x := range fs {
					outcome.add("violated:" + x.Sig)
					if results[ji] == nil {
						results[ji] = map[string]*sigAgg{}
					}
					if a, ok := results[ji][x.Sig]; ok {
						a.n++
					} else {
						results[ji][x.Sig] = &sigAgg{first: x, n: 1}
						sigOrder[ji] = append(sigOrder[ji], x.Sig)
					}
				}
			}
		}
	}
	pool := &workPool{n: workers}
	func() {
		defer func() {
			if e := recover(); e != nil {
				bug.Store(fmt.Sprint(e))
			}
		}()
		pool.run(len(jobs), func(ji int) {
			if capped.Load() {
				return
			}
			if time.Now().After(deadline) {
				capped.Store(true)
				return
			}
			j := jobs[ji]
			sp := spaces[j.space]
			if len(j.prefix) < 2 || sp.maxLen <= 2 {
				one(ji, j.prefix)
				return
			}
			seq := append(make([]int, 0, sp.maxLen), j.prefix...)
			var rec func()
			rec = func() {
				one(ji, seq)
				if len(seq) == sp.maxLen {
					return
				}
				for _, a := range sp.alphabet {
					seq = append(seq, a)
					rec()
					seq = seq[:len(seq)-1]
				}
			}
			rec()
		})
	}()
	if b := bug.Load(); b != nil {
		fmt.Println("HARNESS-ERROR:", b)
		os.Exit(2)
	}
	for ji := range jobs {
		for _, sig := range sigOrder[ji] {
			a := results[ji][sig]
			for k := 0; k < a.n; k++ {
				r.Violate(a.first.Sig, a.first.What, a.first.Detail)
			}
		}
	}
	r.Eval(int(files))
	for _, o := range outcome.list() {
		r.Outcome(o)
	}
	r.Bounds["files_checked"] = files
	r.Bounds["file_variants_not_in_language"] = invalidVariants
	if capped.Load() {
		r.NotExhaustive("file enumeration stopped at its internal deadline")
	}
}

func subset(seq, alphabet []int) bool {
	for _, s := range seq {
		found := false
		for _, a := range alphabet {
			if a == s {
				found = true
				break
			}
		}
		if !found {
			return false
		}
	}
	return true
}

// fileOutcome is the class of a passing file: which item kinds it mixes, its style
// and whether the formatter had anything to do.
func fileOutcome(f File, seq []int) string {
	var kinds [4]bool
	for _, s := range seq {
		kinds[Alphabet[s].Kind] = true
	}
	k := ""
	for i, n := range []string{"attr", "block", "comment", "blank"} {
		if kinds[i] {
			k += n + "+"
		}
	}
	if k == "" {
		k = "empty+"
	}
	return "ok:" + k + f.Desc[:bytes.IndexByte([]byte(f.Desc), '/')]
}

type outcomeSet struct {
	mu sync.Mutex
	m  map[string]struct{}
}

func newOutcomeSet() *outcomeSet { return &outcomeSet{m: map[string]struct{}{}} }
func (o *outcomeSet) add(s string) {
	o.mu.Lock()
	o.m[s] = struct{}{}
	o.mu.Unlock()
}
func (o *outcomeSet) list() []string {
	o.mu.Lock()
	defer o.mu.Unlock()
	var l []string
	for k := range o.m {
		l = append(l, k)
	}
	return l
}
