package c20

// dump.go: what a source text *means*, extracted with the native parser
// (hclsyntax) and printed without any source position: the ordered list of body
// items, the syntax tree of every expression modulo ranges, and the value every
// attribute decodes to in a fixed evaluation context.

import (
	"fmt"
	"math/big"
	"reflect"
	"sort"
	"strconv"
	"strings"

	hcl "Havoc/pkg/profile/yaotl"
	"Havoc/pkg/profile/yaotl/hclsyntax"
	"github.com/zclconf/go-cty/cty"
	"github.com/zclconf/go-cty/cty/function"
)

// PItem is one parsed body item (attribute or block) in source order.
type PItem struct {
	Block  bool
	Name   string   // attribute name or block type
	Labels []string // blocks
	Tree   string   // attribute: expression tree modulo ranges
	Text   string   // attribute: expression source with blanks and tabs removed; block: header likewise
	Value  string   // attribute: decoded value (or the error summaries)
	Body   *PDoc    // blocks
	Start  int      // byte offset of the item in its source
	End    int
	expr   hclsyntax.Expression
}

type PDoc struct {
	Items []*PItem
	Start int
	End   int
}

// Parse parses src natively; the error is the first diagnostic.
func Parse(src []byte) (*PDoc, error) {
	return parse(src, true)
}

// ParseNoValues is Parse without decoding the attribute values.
func ParseNoValues(src []byte) (*PDoc, error) {
	return parse(src, false)
}

func parse(src []byte, values bool) (*PDoc, error) {
	f, diags := hclsyntax.ParseConfig(src, "f", hcl.InitialPos)
	if diags.HasErrors() {
		return nil, diagErr(diags)
	}
	return docOf(f.Body.(*hclsyntax.Body), src, values), nil
}

func diagErr(diags hcl.Diagnostics) error {
	for _, d := range diags {
		if d.Severity == hcl.DiagError {
			return fmt.Errorf("%s; %s", d.Summary, d.Detail)
		}
	}
	return nil
}

func diagSummary(diags hcl.Diagnostics) string {
	for _, d := range diags {
		if d.Severity == hcl.DiagError {
			return d.Summary
		}
	}
	return ""
}

func docOf(b *hclsyntax.Body, src []byte, values bool) *PDoc {
	d := &PDoc{Start: b.SrcRange.Start.Byte, End: b.SrcRange.End.Byte}
	for _, a := range b.Attributes {
		it := &PItem{Name: a.Name, Start: a.SrcRange.Start.Byte, End: a.SrcRange.End.Byte, expr: a.Expr}
		it.Tree = TreeOf(a.Expr)
		r := a.Expr.Range()
		it.Text = stripBlanks(src[r.Start.Byte:r.End.Byte])
		if values {
			it.Value = valueOf(a.Expr)
		}
		d.Items = append(d.Items, it)
	}
	for _, bl := range b.Blocks {
		it := &PItem{Block: true, Name: bl.Type, Labels: append([]string(nil), bl.Labels...),
			Start: bl.Range().Start.Byte, End: bl.Range().End.Byte}
		it.Text = stripBlanks(src[bl.TypeRange.Start.Byte:bl.OpenBraceRange.End.Byte])
		it.Body = docOf(bl.Body, src, values)
		d.Items = append(d.Items, it)
	}
	sort.SliceStable(d.Items, func(i, j int) bool { return d.Items[i].Start < d.Items[j].Start })
	return d
}

func stripBlanks(b []byte) string {
	var sb strings.Builder
	for _, c := range b {
		if c != ' ' && c != '\t' {
			sb.WriteByte(c)
		}
	}
	return sb.String()
}

// String prints the whole document: order, names, labels, trees and values.
func (d *PDoc) String() string {
	var sb strings.Builder
	d.write(&sb, 0)
	return sb.String()
}

func (d *PDoc) write(sb *strings.Builder, depth int) {
	ind := strings.Repeat("  ", depth)
	for _, it := range d.Items {
		if it.Block {
			fmt.Fprintf(sb, "%sblock %s %q {\n", ind, it.Name, it.Labels)
			it.Body.write(sb, depth+1)
			fmt.Fprintf(sb, "%s}\n", ind)
		} else {
			fmt.Fprintf(sb, "%sattr %s tree=%s value=%s\n", ind, it.Name, it.Tree, it.Value)
		}
	}
}

// ---------------------------------------------------------------------------
// expression tree modulo ranges

var (
	tRange  = reflect.TypeOf(hcl.Range{})
	tPos    = reflect.TypeOf(hcl.Pos{})
	tValue  = reflect.TypeOf(cty.Value{})
	tType   = reflect.TypeOf(cty.Type{})
	tFunc   = reflect.TypeOf(function.Function{})
	tOpPtr  = reflect.TypeOf((*hclsyntax.Operation)(nil))
	opNames = map[*hclsyntax.Operation]string{
		hclsyntax.OpLogicalOr: "||", hclsyntax.OpLogicalAnd: "&&", hclsyntax.OpLogicalNot: "!",
		hclsyntax.OpEqual: "==", hclsyntax.OpNotEqual: "!=", hclsyntax.OpGreaterThan: ">",
		hclsyntax.OpGreaterThanOrEqual: ">=", hclsyntax.OpLessThan: "<", hclsyntax.OpLessThanOrEqual: "<=",
		hclsyntax.OpAdd: "+", hclsyntax.OpSubtract: "-", hclsyntax.OpMultiply: "*", hclsyntax.OpDivide: "/",
		hclsyntax.OpModulo: "%", hclsyntax.OpNegate: "neg",
	}
)

// TreeOf prints an expression's syntax tree without positions.
func TreeOf(e hclsyntax.Expression) string {
	var sb strings.Builder
	dump(&sb, reflect.ValueOf(e), 0)
	return sb.String()
}

func skipType(t reflect.Type) bool {
	switch t {
	case tRange, tPos, tFunc:
		return true
	}
	if t.Kind() == reflect.Ptr || t.Kind() == reflect.Slice {
		return skipType(t.Elem())
	}
	return false
}

func dump(sb *strings.Builder, v reflect.Value, depth int) {
	if depth > 60 {
		sb.WriteString("<deep>")
		return
	}
	if !v.IsValid() {
		sb.WriteString("nil")
		return
	}
	t := v.Type()
	switch t {
	case tValue:
		writeValue(sb, v.Interface().(cty.Value))
		return
	case tType:
		sb.WriteString(v.Interface().(cty.Type).GoString())
		return
	case tOpPtr:
		op := v.Interface().(*hclsyntax.Operation)
		if n, ok := opNames[op]; ok {
			sb.WriteString("op" + n)
		} else {
			sb.WriteString("op?")
		}
		return
	}
	switch v.Kind() {
	case reflect.Interface, reflect.Ptr:
		if v.IsNil() {
			sb.WriteString("nil")
			return
		}
		dump(sb, v.Elem(), depth+1)
	case reflect.Struct:
		sb.WriteString(t.Name())
		sb.WriteByte('{')
		first := true
		for i := 0; i < t.NumField(); i++ {
			f := t.Field(i)
			if f.PkgPath != "" || skipType(f.Type) {
				continue
			}
			if !first {
				sb.WriteByte(' ')
			}
			first = false
			sb.WriteString(f.Name)
			sb.WriteByte(':')
			dump(sb, v.Field(i), depth+1)
		}
		sb.WriteByte('}')
	case reflect.Slice, reflect.Array:
		sb.WriteByte('[')
		for i := 0; i < v.Len(); i++ {
			if i > 0 {
				sb.WriteByte(' ')
			}
			dump(sb, v.Index(i), depth+1)
		}
		sb.WriteByte(']')
	case reflect.Map:
		keys := v.MapKeys()
		sort.Slice(keys, func(i, j int) bool { return fmt.Sprint(keys[i]) < fmt.Sprint(keys[j]) })
		sb.WriteString("map[")
		for _, k := range keys {
			fmt.Fprintf(sb, "%v:", k)
			dump(sb, v.MapIndex(k), depth+1)
			sb.WriteByte(' ')
		}
		sb.WriteByte(']')
	case reflect.String:
		fmt.Fprintf(sb, "%q", v.String())
	case reflect.Bool:
		fmt.Fprintf(sb, "%v", v.Bool())
	case reflect.Int, reflect.Int8, reflect.Int16, reflect.Int32, reflect.Int64:
		fmt.Fprintf(sb, "%d", v.Int())
	case reflect.Uint, reflect.Uint8, reflect.Uint16, reflect.Uint32, reflect.Uint64:
		fmt.Fprintf(sb, "%d", v.Uint())
	default:
		fmt.Fprintf(sb, "<%s>", v.Kind())
	}
}

// ---------------------------------------------------------------------------
// decoding

var evalCtx = newEvalCtx()

func newEvalCtx() *hcl.EvalContext {
	count := function.New(&function.Spec{
		VarParam: &function.Parameter{Name: "xs", Type: cty.DynamicPseudoType, AllowNull: true},
		Type:     function.StaticReturnType(cty.Number),
		Impl: func(args []cty.Value, _ cty.Type) (cty.Value, error) {
			return cty.NumberIntVal(int64(len(args))), nil
		},
	})
	return &hcl.EvalContext{
		Variables: map[string]cty.Value{
			"b": cty.ObjectVal(map[string]cty.Value{"c": cty.TupleVal([]cty.Value{
				cty.ObjectVal(map[string]cty.Value{"d": cty.ObjectVal(map[string]cty.Value{"k": cty.StringVal("deep")})})})}),
			"c": cty.ObjectVal(map[string]cty.Value{"d": cty.StringVal("cd")}),
			"d": cty.NumberIntVal(3),
			"e": cty.True,
			"m": cty.ObjectVal(map[string]cty.Value{"p": cty.NumberIntVal(1), "q": cty.NumberIntVal(2)}),
			"y": cty.TupleVal([]cty.Value{cty.NumberIntVal(1), cty.NumberIntVal(2)}),
		},
		Functions: map[string]function.Function{"f": count, "g": count},
	}
}

func valueOf(e hclsyntax.Expression) string {
	v, diags := e.Value(evalCtx)
	if diags.HasErrors() {
		var ss []string
		for _, d := range diags {
			ss = append(ss, d.Summary)
		}
		return "error(" + strings.Join(ss, "|") + ")"
	}
	var sb strings.Builder
	writeValue(&sb, v)
	return sb.String()
}

// writeValue prints a value with its type structure.  (cty's GoString is exact but
// formats every number through a 512-bit shortest-decimal search; numbers here are
// printed from their float64 image plus, when that is inexact, the full text.)
func writeValue(sb *strings.Builder, v cty.Value) {
	if v.IsMarked() {
		v, _ = v.Unmark()
		sb.WriteString("marked:")
	}
	t := v.Type()
	switch {
	case !v.IsKnown():
		sb.WriteString("unknown(" + t.FriendlyName() + ")")
	case v.IsNull():
		sb.WriteString("null(" + t.FriendlyName() + ")")
	case t == cty.String:
		fmt.Fprintf(sb, "%q", v.AsString())
	case t == cty.Bool:
		if v.True() {
			sb.WriteString("true")
		} else {
			sb.WriteString("false")
		}
	case t == cty.Number:
		bf := v.AsBigFloat()
		f, acc := bf.Float64()
		sb.WriteString("num:")
		sb.WriteString(strconv.FormatFloat(f, 'g', -1, 64))
		if acc != big.Exact {
			sb.WriteString("~" + bf.Text('g', 40))
		}
	case t.IsTupleType() || t.IsListType() || t.IsSetType():
		switch {
		case t.IsTupleType():
			sb.WriteString("tuple[")
		case t.IsListType():
			sb.WriteString("list[")
		default:
			sb.WriteString("set[")
		}
		for it := v.ElementIterator(); it.Next(); {
			_, e := it.Element()
			writeValue(sb, e)
			sb.WriteByte(',')
		}
		sb.WriteByte(']')
	case t.IsObjectType() || t.IsMapType():
		if t.IsObjectType() {
			sb.WriteString("object{")
		} else {
			sb.WriteString("map{")
		}
		for it := v.ElementIterator(); it.Next(); {
			k, e := it.Element()
			fmt.Fprintf(sb, "%q=", k.AsString())
			writeValue(sb, e)
			sb.WriteByte(',')
		}
		sb.WriteByte('}')
	default:
		sb.WriteString(v.GoString())
	}
}

// Comments returns the text of every comment token of src in order, without the
// line end that # and // comments carry.
func Comments(src []byte) []string {
	toks, _ := hclsyntax.LexConfig(src, "f", hcl.InitialPos)
	var out []string
	for _, t := range toks {
		if t.Type == hclsyntax.TokenComment {
			out = append(out, strings.TrimRight(string(t.Bytes), "\r\n"))
		}
	}
	return out
}
