package c20

// edits.go: part (b) -- explicit-state search over edit histories.  Every transition
// is executed on real hclwrite objects (a fresh File parsed from the base, the
// history replayed through the public API) and on the docmodel; the state is the
// output text, and after the last edit of every history the output is re-parsed
// natively and compared with the model.

import (
	"bytes"
	"crypto/sha256"
	"fmt"
	"sort"
	"strings"
	"sync"
	"sync/atomic"
	"time"
	"unicode"

	hcl "Havoc/pkg/profile/yaotl"
	"Havoc/pkg/profile/yaotl/gohcl"
	"Havoc/pkg/profile/yaotl/hclsyntax"
	"Havoc/pkg/profile/yaotl/hclwrite"
	"github.com/zclconf/go-cty/cty"
	"verifmc/ev"
)

// Value domain of SetAttributeValue.
type valueSpec struct {
	ID    string
	V     cty.Value
	Quick bool
}

var Values = []valueSpec{
	// numbers a float64 cannot hold: what is written must be the number that was set
	{"num", cty.MustParseNumberVal("18446744073709551615"), true},
	{"str-meta", cty.StringVal("q\"b\\s\n\t\r${x}%{y}$${ %%{ $ %"), true},
	{"str-unicode", cty.StringVal("\u00e9\U0001f600  z\u4e16"), true},
	{"str-nonprint", cty.StringVal("a\x01b\u2028c\U000e0001d\x7f\u00a0e"), true},
	{"tuple", cty.TupleVal([]cty.Value{cty.MustParseNumberVal("9007199254740993"), cty.StringVal("a"), cty.TupleVal([]cty.Value{cty.True})}), true},
	{"object", cty.ObjectVal(map[string]cty.Value{"k": cty.NumberIntVal(1), "odd key": cty.StringVal("v"), "n": cty.EmptyObjectVal}), true},
	{"str-plain", cty.StringVal("plain"), false},
	{"str-empty", cty.StringVal(""), false},
	{"negfraction", cty.MustParseNumberVal("-12.5e-3"), false}, // decimal, as a configuration would give it (a float64 image of 0.0125 is a different number)
	{"longfraction", cty.MustParseNumberVal("0.1234567890123456789012345"), false},
	{"smallnum", cty.NumberIntVal(7), false},
	{"bool", cty.False, false},
	{"null", cty.NullVal(cty.String), false},
	{"list", cty.ListVal([]cty.Value{cty.StringVal("x"), cty.StringVal("y")}), false},
	{"map", cty.MapVal(map[string]cty.Value{"a": cty.NumberIntVal(1), "b": cty.NumberIntVal(2)}), false},
	{"emptytuple", cty.EmptyTupleVal, false},
	{"emptyobject", cty.EmptyObjectVal, false},
}

type labelSpec struct {
	ID     string
	Labels []string
	Quick  bool
}

var LabelSets = []labelSpec{
	{"none", nil, true},
	{"one", []string{"l"}, true},
	{"two-meta", []string{"a b", "q\"u\\o${t}e"}, true},
	{"nonprint", []string{"x\x01y"}, true},
	{"empty-string", []string{""}, false},
	{"unicode", []string{"é😀"}, false},
}

// encStruct is what gohcl.EncodeIntoBody is given: a required attribute, an optional one of
// a plain type, optional ones behind pointers (a pointer that is set is a value that was
// given, whatever the value is), and one that is not set.
type encStruct struct {
	Zz    string  `yaotl:"zz"`
	Opt   int     `yaotl:"opt,optional"`
	Flag  *bool   `yaotl:"flag,optional"`
	Cnt   *int    `yaotl:"cnt,optional"`
	Note  *string `yaotl:"note,optional"`
	Unset *string `yaotl:"unset,optional"`
}

type encField struct {
	Name string
	V    cty.Value
}

// encValue returns the struct of a variant and the attributes it says to set, in order.
func encValue(id string) (*encStruct, []encField) {
	f, c, n := false, 0, ""
	v := &encStruct{Zz: "", Opt: 0, Flag: &f, Cnt: &c, Note: &n}
	if id == "values" {
		f, c, n = true, 3, "n"
		v.Zz, v.Opt = "v", 5
	}
	return v, []encField{{"zz", cty.StringVal(v.Zz)}, {"opt", cty.NumberIntVal(int64(v.Opt))}, {"flag", cty.BoolVal(f)}, {"cnt", cty.NumberIntVal(int64(c))}, {"note", cty.StringVal(n)}}
}

// Op is one edit through the public API.
type Op struct {
	Kind   string   `json:"kind"`
	Nested bool     `json:"nested,omitempty"` // target the body of the root's first block instead of the root
	Name   string   `json:"name,omitempty"`   // attribute name / block type
	Val    string   `json:"val,omitempty"`    // value id
	Labels string   `json:"labels,omitempty"` // label set id
	Index  int      `json:"index,omitempty"`  // which block of the target body
	Raw    string   `json:"raw,omitempty"`
	labels []string // resolved
	val    cty.Value
}

func (o Op) String() string {
	t := "root"
	if o.Nested {
		t = "nested"
	}
	switch o.Kind {
	case "SetAttributeValue":
		return fmt.Sprintf("%s.SetAttributeValue(%s, %s)", t, o.Name, o.Val)
	case "SetAttributeRaw", "SetAttributeTraversal":
		return fmt.Sprintf("%s.%s(%s, %s)", t, o.Kind, o.Name, o.Raw)
	case "RemoveAttribute":
		return fmt.Sprintf("%s.RemoveAttribute(%s)", t, o.Name)
	case "EncodeIntoBody":
		return fmt.Sprintf("gohcl.EncodeIntoBody(struct with %s, %s)", o.Raw, t)
	case "EncodeAsBlock":
		return fmt.Sprintf("%s.AppendBlock(gohcl.EncodeAsBlock(struct with %s, %s))", t, o.Raw, o.Name)
	case "AppendNewBlock":
		return fmt.Sprintf("%s.AppendNewBlock(%s, %s)", t, o.Name, o.Labels)
	case "RemoveBlock":
		return fmt.Sprintf("%s.RemoveBlock(#%d)", t, o.Index)
	case "SetLabels":
		return fmt.Sprintf("%s.Blocks()[%d].SetLabels(%s)", t, o.Index, o.Labels)
	case "SetType":
		return fmt.Sprintf("%s.Blocks()[%d].SetType(%s)", t, o.Index, o.Name)
	}
	return t + "." + o.Kind + "()"
}

// effect names what the edit does, for signatures.
func (o Op) effect(existed bool) string {
	switch o.Kind {
	case "SetAttributeValue", "SetAttributeRaw", "SetAttributeTraversal":
		if existed {
			return "replace-attribute"
		}
		return "add-attribute"
	case "RemoveAttribute":
		return "remove-attribute"
	case "EncodeIntoBody":
		return "encode-struct"
	case "EncodeAsBlock":
		return "encode-struct-as-block"
	case "AppendNewBlock":
		return "add-block"
	case "RemoveBlock":
		return "remove-block"
	case "SetLabels":
		return "set-labels"
	case "SetType":
		return "set-type"
	case "AppendNewline":
		return "append-newline"
	case "Clear":
		return "clear"
	}
	return o.Kind
}

const (
	rawSrc  = `f(x) + 1`
	travSrc = `b.c[0]["k"]`
)

func rawTokens() hclwrite.Tokens {
	return hclwrite.Tokens{
		{Type: hclsyntax.TokenIdent, Bytes: []byte("f")},
		{Type: hclsyntax.TokenOParen, Bytes: []byte("(")},
		{Type: hclsyntax.TokenIdent, Bytes: []byte("x")},
		{Type: hclsyntax.TokenCParen, Bytes: []byte(")")},
		{Type: hclsyntax.TokenPlus, Bytes: []byte("+")},
		{Type: hclsyntax.TokenNumberLit, Bytes: []byte("1")},
	}
}

func travValue() hcl.Traversal {
	return hcl.Traversal{
		hcl.TraverseRoot{Name: "b"},
		hcl.TraverseAttr{Name: "c"},
		hcl.TraverseIndex{Key: cty.NumberIntVal(0)},
		hcl.TraverseIndex{Key: cty.StringVal("k")},
	}
}

func exprTree(src string) string {
	e, diags := hclsyntax.ParseExpression([]byte(src), "e", hcl.InitialPos)
	if diags.HasErrors() {
		panic(harnessBug{"expected expression does not parse: " + src})
	}
	return TreeOf(e)
}

var (
	rawTree  = exprTree(rawSrc)
	travTree = exprTree(travSrc)
)

// Base is a starting file of the search with its edit alphabet.
type Base struct {
	Name  string
	Src   []byte
	Ops   []Op
	model *Model // of Src, built once; every replay works on a clone
}

// buildOps is the edit alphabet for a base: the same operations on the root body and
// on the body of the root's first block, naming the first and the last attribute
// the base has there and one name it does not have.
func buildOps(src []byte, thorough bool) []Op {
	m, err := NewModel(src)
	if err != nil {
		panic(harnessBug{fmt.Sprintf("base does not parse: %v\n%s", err, src)})
	}
	var ops []Op
	for _, nested := range []bool{false, true} {
		body := m.root
		if nested {
			bs := body.blocks()
			if len(bs) == 0 {
				// a block may still be appended later; the nested alphabet then
				// names only new attributes
				body = &mBody{}
			} else {
				body = bs[0].body
			}
		}
		names := []string{"zz"}
		var attrs []string
		for _, it := range body.items {
			if !it.block {
				attrs = append(attrs, it.name)
			}
		}
		if len(attrs) > 0 {
			names = append(names, attrs[0])
			if l := attrs[len(attrs)-1]; l != attrs[0] {
				names = append(names, l)
			}
		}
		for _, n := range names {
			for _, v := range Values {
				if v.Quick || thorough {
					ops = append(ops, Op{Kind: "SetAttributeValue", Nested: nested, Name: n, Val: v.ID})
				}
			}
			ops = append(ops, Op{Kind: "SetAttributeRaw", Nested: nested, Name: n, Raw: rawSrc})
			ops = append(ops, Op{Kind: "SetAttributeTraversal", Nested: nested, Name: n, Raw: travSrc})
			ops = append(ops, Op{Kind: "RemoveAttribute", Nested: nested, Name: n})
		}
		// a name that is a proper prefix of an existing attribute's name (names are looked up
		// whole): setting it adds a new attribute, removing it removes nothing
		if len(attrs) > 0 && len(attrs[0]) > 1 {
			pre := attrs[0][:len(attrs[0])-1]
			taken := false
			for _, a := range attrs {
				taken = taken || a == pre
			}
			if !taken {
				for _, v := range Values {
					if v.Quick || thorough {
						ops = append(ops, Op{Kind: "SetAttributeValue", Nested: nested, Name: pre, Val: v.ID})
						break
					}
				}
				ops = append(ops, Op{Kind: "RemoveAttribute", Nested: nested, Name: pre})
			}
		}
		for _, l := range LabelSets {
			if l.Quick || thorough {
				ops = append(ops, Op{Kind: "AppendNewBlock", Nested: nested, Name: "nb", Labels: l.ID})
				ops = append(ops, Op{Kind: "SetLabels", Nested: nested, Index: 0, Labels: l.ID})
			}
		}
		ops = append(ops, Op{Kind: "RemoveBlock", Nested: nested, Index: 0})
		ops = append(ops, Op{Kind: "RemoveBlock", Nested: nested, Index: 1})
		ops = append(ops, Op{Kind: "SetType", Nested: nested, Index: 0, Name: "renamed"})
		ops = append(ops, Op{Kind: "AppendNewline", Nested: nested})
		ops = append(ops, Op{Kind: "Clear", Nested: nested})
		// a struct encoded into the body: every attribute it sets must be there afterwards,
		// zero values included
		// (EncodeIntoBody replaces the body's contents; for a nested body that is the known
		// write-after-Clear defect, so the struct goes into a new block there)
		for _, id := range []string{"zeros", "values"} {
			if nested {
				ops = append(ops, Op{Kind: "EncodeAsBlock", Name: "eb", Raw: id})
			} else {
				ops = append(ops, Op{Kind: "EncodeIntoBody", Raw: id})
			}
		}
	}
	for i := range ops {
		ops[i].resolve()
	}
	return ops
}

func (o *Op) resolve() {
	if o.Val != "" {
		found := false
		for _, v := range Values {
			if v.ID == o.Val {
				o.val, found = v.V, true
			}
		}
		if !found {
			panic(harnessBug{"unknown value id " + o.Val})
		}
	}
	if o.Labels != "" {
		found := false
		for _, l := range LabelSets {
			if l.ID == o.Labels {
				o.labels, found = l.Labels, true
			}
		}
		if !found {
			panic(harnessBug{"unknown label set id " + o.Labels})
		}
	}
}

// ---------------------------------------------------------------------------
// one replay

type editFinding struct {
	Sig, What string
}

type stepResult struct {
	enabled bool   // the last op had a target in the model
	out     []byte // output after the history (nil when a finding prunes the state)
	finding *editFinding
}

// applyModel applies op to the model; ok=false when its target does not exist.
func applyModel(m *Model, o *Op) (existed bool, ok bool) {
	body := m.root
	if o.Nested {
		bs := body.blocks()
		if len(bs) == 0 {
			return false, false
		}
		body = bs[0].body
	}
	switch o.Kind {
	case "SetAttributeValue":
		_, it := body.attr(o.Name)
		body.setAttr(o.Name, mVal{lit: true, litVal: expectLiteral(o.val), litDesc: o.Val})
		return it != nil, true
	case "SetAttributeRaw":
		_, it := body.attr(o.Name)
		body.setAttr(o.Name, mVal{tree: rawTree})
		return it != nil, true
	case "SetAttributeTraversal":
		_, it := body.attr(o.Name)
		body.setAttr(o.Name, mVal{tree: travTree})
		return it != nil, true
	case "RemoveAttribute":
		_, it := body.attr(o.Name)
		body.removeAttr(o.Name)
		return it != nil, true
	case "AppendNewBlock":
		body.appendBlock(o.Name, o.labels)
		return false, true
	case "RemoveBlock", "SetLabels", "SetType":
		bs := body.blocks()
		if o.Index >= len(bs) {
			return false, false
		}
		it := bs[o.Index]
		switch o.Kind {
		case "RemoveBlock":
			body.removeBlock(it)
		case "SetLabels":
			it.labels = append([]string{}, o.labels...)
			it.headerText = ""
			optional(it.inner)
		case "SetType":
			it.name = o.Name
			it.headerText = ""
		}
		return true, true
	case "AppendNewline":
		return false, true
	case "Clear":
		body.clear()
		return false, true
	case "EncodeIntoBody", "EncodeAsBlock":
		_, fields := encValue(o.Raw)
		had := len(body.items) > 0
		if o.Kind == "EncodeAsBlock" {
			body.appendBlock(o.Name, nil)
			body, had = body.items[len(body.items)-1].body, false
		} else {
			body.clear() // "replaces the contents of the given Body"
		}
		for _, f := range fields {
			body.setAttr(f.Name, mVal{lit: true, litVal: expectLiteral(f.V), litDesc: o.Raw + "." + f.Name})
		}
		return had, true
	}
	panic(harnessBug{"unknown op kind " + o.Kind})
}

// applyReal applies op to the writer's objects.
func applyReal(f *hclwrite.File, o *Op) {
	body := f.Body()
	if o.Nested {
		body = body.Blocks()[0].Body()
	}
	switch o.Kind {
	case "SetAttributeValue":
		body.SetAttributeValue(o.Name, o.val)
	case "SetAttributeRaw":
		// what is handed in stays the caller's: once the call has returned the caller
		// overwrites its token slice (the scratch-buffer idiom); the file keeps what was set
		toks := rawTokens()
		body.SetAttributeRaw(o.Name, toks)
		for i := range toks {
			toks[i] = &hclwrite.Token{Type: hclsyntax.TokenIdent, Bytes: []byte("OVERWRITTEN_BY_THE_CALLER")}
		}
	case "SetAttributeTraversal":
		tr := travValue()
		body.SetAttributeTraversal(o.Name, tr)
		for i := range tr {
			tr[i] = hcl.TraverseAttr{Name: "OVERWRITTEN_BY_THE_CALLER"}
		}
	case "RemoveAttribute":
		body.RemoveAttribute(o.Name)
	case "AppendNewBlock":
		ls := append([]string{}, o.labels...)
		body.AppendNewBlock(o.Name, ls)
		for i := range ls {
			ls[i] = "OVERWRITTEN_BY_THE_CALLER"
		}
	case "RemoveBlock":
		body.RemoveBlock(body.Blocks()[o.Index])
	case "SetLabels":
		ls := append([]string{}, o.labels...)
		body.Blocks()[o.Index].SetLabels(ls)
		for i := range ls {
			ls[i] = "OVERWRITTEN_BY_THE_CALLER"
		}
	case "SetType":
		body.Blocks()[o.Index].SetType(o.Name)
	case "AppendNewline":
		body.AppendNewline()
	case "Clear":
		body.Clear()
	case "EncodeIntoBody":
		v, _ := encValue(o.Raw)
		gohcl.EncodeIntoBody(v, body)
	case "EncodeAsBlock":
		v, _ := encValue(o.Raw)
		body.AppendBlock(gohcl.EncodeAsBlock(v, o.Name))
	}
}

// Replay executes hist on a fresh File and a fresh model and checks the last step.
func Replay(base *Base, hist []int) (res stepResult) {
	if base.model == nil {
		bm, err := NewModel(base.Src)
		if err != nil {
			panic(harnessBug{"base does not parse: " + err.Error()})
		}
		base.model = bm
	}
	m := base.model.Clone()
	var last *Op
	existed := false
	var f *hclwrite.File
	fail := func(clause, what string) {
		res.out = nil
		if last == nil {
			res.finding = &editFinding{Sig: "edit/base/" + clause, What: what}
			return
		}
		eff := last.effect(existed)
		sig := "edit/" + eff + "/" + clause
		shape := ""
		switch eff {
		case "add-attribute", "add-block":
			shape = bodyShape(preState(base, hist), last.Nested)
		case "append-newline":
			if last.Nested {
				shape = bodyShape(preState(base, hist), true)
			}
		}
		switch {
		case shape != "":
			// a new item written into a body whose last line is open: whatever
			// goes wrong then is that one defect
			sig = "edit/" + eff + "/" + shape
		case strings.HasSuffix(clause, "invalid-escape-sequence") && last.writesNonPrintable():
			sig += "/written-string-has-nonprintable-rune"
		case clause == "items-differ" && clearedBefore(base, hist):
			sig += "/after-clear"
		}
		res.finding = &editFinding{Sig: sig, What: what}
	}
	defer func() {
		if e := recover(); e != nil {
			if hb, ok := e.(harnessBug); ok {
				panic(hb)
			}
			fail("panic/"+slug(ev.Normalize(fmt.Sprint(e))), fmt.Sprintf("panic: %v", e))
		}
	}()
	var diags hcl.Diagnostics
	f, diags = hclwrite.ParseConfig(base.Src, "f", hcl.InitialPos)
	if diags.HasErrors() {
		panic(harnessBug{"writer rejects base: " + diagErr(diags).Error()})
	}
	res.enabled = true
	for i, ix := range hist {
		op := &base.Ops[ix]
		if i == len(hist)-1 {
			last = op
		}
		ex, ok := applyModel(m, op)
		if !ok {
			res.enabled = false
			return
		}
		existed = ex
		applyReal(f, op)
	}
	out := f.Bytes()
	res.out = out

	doc, err := ParseNoValues(out)
	if err != nil {
		s := err.Error()
		if i := strings.Index(s, ";"); i > 0 {
			s = s[:i]
		}
		fail("reparse-error/"+slug(s), fmt.Sprintf("the output of the edit does not parse: %v\noutput: %q", err, out))
		return
	}
	if d := m.root.diff(doc, "root"); d != "" {
		fail("items-differ", fmt.Sprintf("re-parsing the output does not show exactly the edited document: %s\noutput: %q", d, out))
		return
	}
	if d := m.commentDiff(Comments(out)); d != "" {
		fail("comments-differ", fmt.Sprintf("%s\noutput: %q", d, out))
		return
	}
	// the output as an input of the formatter.  (File.Bytes() need not be a fixed
	// point of Format: a comment token without line end followed by a generated
	// newline token is laid out differently from the same text lexed afresh.  The
	// statement asks for layout-only, idempotent, meaning-preserving formatting.)
	if fo := hclwrite.Format(out); !bytes.Equal(fo, out) {
		if stripBlanks(fo) != stripBlanks(out) {
			fail("format-of-output-changes-text", fmt.Sprintf("Format changed more than spaces and tabs of an edit's output: %q -> %q", out, fo))
			return
		}
		if again := hclwrite.Format(fo); !bytes.Equal(again, fo) {
			fail("format-of-output-not-idempotent", fmt.Sprintf("Format is not idempotent on an edit's output: %q -> %q -> %q", out, fo, again))
			return
		}
		fdoc, err := ParseNoValues(fo)
		if err != nil || fdoc.String() != doc.String() {
			fail("format-of-output-changes-meaning", fmt.Sprintf("Format changed the tree of an edit's output: %q -> %q", out, fo))
			return
		}
	}
	return
}

// preState is the output text before the last edit of hist.
func preState(base *Base, hist []int) (pre []byte) {
	defer func() { recover() }()
	f, diags := hclwrite.ParseConfig(base.Src, "f", hcl.InitialPos)
	if diags.HasErrors() {
		return nil
	}
	for _, ix := range hist[:len(hist)-1] {
		applyReal(f, &base.Ops[ix])
	}
	return f.Bytes()
}

func (o *Op) writesNonPrintable() bool {
	if o.Val != "" && hasNonPrintable(o.val) {
		return true
	}
	return stringsNonPrintable(o.labels)
}

// clearedBefore: an earlier edit of the history cleared the body the last edit targets.
func clearedBefore(base *Base, hist []int) bool {
	last := base.Ops[hist[len(hist)-1]]
	for _, ix := range hist[:len(hist)-1] {
		if o := base.Ops[ix]; o.Kind == "Clear" && (o.Nested == last.Nested || !o.Nested) {
			return true
		}
	}
	return false
}

// bodyShape describes the layout of the body that receives a new item, read off the
// output before the edit: "" when the body's last line is properly terminated.
func bodyShape(pre []byte, nested bool) string {
	f, diags := hclsyntax.ParseConfig(pre, "f", hcl.InitialPos)
	if diags.HasErrors() {
		return ""
	}
	body := f.Body.(*hclsyntax.Body)
	if !nested {
		if len(pre) == 0 || pre[len(pre)-1] == '\n' {
			return ""
		}
		toks, _ := hclsyntax.LexConfig(pre, "f", hcl.InitialPos)
		if len(toks) >= 2 && toks[len(toks)-2].Type == hclsyntax.TokenComment {
			return "body=ends-in-unterminated-comment"
		}
		return "body=last-line-unterminated"
	}
	var first *hclsyntax.Block
	for _, b := range body.Blocks {
		if first == nil || b.Range().Start.Byte < first.Range().Start.Byte {
			first = b
		}
	}
	if first == nil {
		return ""
	}
	toks, _ := hclsyntax.LexConfig(pre, "f", hcl.InitialPos)
	for i, t := range toks {
		if t.Range.Start.Byte == first.OpenBraceRange.Start.Byte && i+1 < len(toks) {
			n := toks[i+1]
			if n.Type == hclsyntax.TokenNewline || (n.Type == hclsyntax.TokenComment && bytes.HasSuffix(n.Bytes, []byte("\n"))) {
				return ""
			}
			return "body=single-line-block"
		}
	}
	return ""
}

func hasNonPrintable(v cty.Value) bool {
	found := false
	cty.Walk(v, func(_ cty.Path, x cty.Value) (bool, error) {
		if x.IsKnown() && !x.IsNull() && x.Type() == cty.String && stringsNonPrintable([]string{x.AsString()}) {
			found = true
		}
		return true, nil
	})
	return found
}

func stringsNonPrintable(ss []string) bool {
	for _, s := range ss {
		for _, r := range s {
			switch r {
			case '\n', '\r', '\t':
			default:
				if !unicode.IsPrint(r) {
					return true
				}
			}
		}
	}
	return false
}

func slug(s string) string {
	var sb strings.Builder
	dash := false
	for _, c := range strings.ToLower(s) {
		switch {
		case c >= 'a' && c <= 'z', c >= '0' && c <= '9':
			sb.WriteRune(c)
			dash = false
		default:
			if !dash && sb.Len() > 0 {
				sb.WriteByte('-')
				dash = true
			}
		}
	}
	out := strings.TrimRight(sb.String(), "-")
	if len(out) > 70 {
		out = out[:70]
	}
	return out
}

// ---------------------------------------------------------------------------
// the search

type bfsStats struct {
	States, Transitions int64
	Depth               int
	Capped              bool
}

type histDetail struct {
	Kind    string   `json:"kind"`
	Base    string   `json:"base"`
	Src     string   `json:"src"`
	History []Op     `json:"history"`
	Text    []string `json:"history_text"`
}

func detailOf(base *Base, hist []int) histDetail {
	d := histDetail{Kind: "edit", Base: base.Name, Src: string(base.Src)}
	for _, ix := range hist {
		d.History = append(d.History, base.Ops[ix])
		d.Text = append(d.Text, base.Ops[ix].String())
	}
	return d
}

// searchBase runs a level-synchronous BFS from one base.  The transitions of a
// level are executed by the worker pool; results are merged in history order, so
// the set of states, the counts and the reported violations do not depend on timing.
func searchBase(r *ev.Run, base *Base, maxDepth int, pool *workPool, deadline time.Time, outcomes *outcomeSet) bfsStats {
	var st bfsStats
	root := Replay(base, nil)
	st.Transitions++
	if root.finding != nil {
		r.Violate(root.finding.Sig, root.finding.What, detailOf(base, nil))
		return st
	}
	seen := map[[16]byte]struct{}{stateKey(root.out): {}}
	st.States = 1
	frontier := [][]int{nil}
	nops := len(base.Ops)
	const chunk = 1 << 15 // transitions executed before their results are merged and dropped
	const maxStates = 4 << 20
	for depth := 0; depth < maxDepth && len(frontier) > 0; depth++ {
		var next [][]int
		total := len(frontier) * nops
		results := make([]stepResult, min(chunk, total))
		for off := 0; off < total; off += chunk {
			n := min(chunk, total-off)
			var capped atomic.Bool
			pool.run(n, func(i int) {
				if capped.Load() {
					return
				}
				if i%64 == 0 && time.Now().After(deadline) {
					capped.Store(true)
					return
				}
				t := off + i
				h := frontier[t/nops]
				nh := make([]int, len(h)+1)
				copy(nh, h)
				nh[len(h)] = t % nops
				results[i] = Replay(base, nh)
			})
			if capped.Load() || len(seen) > maxStates {
				st.Capped = true
				return st
			}
			for i := 0; i < n; i++ {
				res := &results[i]
				if !res.enabled {
					continue
				}
				t := off + i
				st.Transitions++
				last := base.Ops[t%nops]
				if res.finding != nil {
					h := append(append([]int(nil), frontier[t/nops]...), t%nops)
					outcomes.add("violated:" + res.finding.Sig)
					r.Violate(res.finding.Sig, fmt.Sprintf("base %s, history %v: %s", base.Name, detailOf(base, h).Text, res.finding.What), detailOf(base, h))
					continue
				}
				k := stateKey(res.out)
				res.out = nil
				if _, ok := seen[k]; ok {
					outcomes.add("ok:" + last.Kind + ":state-seen-before")
					continue
				}
				outcomes.add("ok:" + last.Kind + ":new-state")
				seen[k] = struct{}{}
				st.States++
				if depth+1 < maxDepth {
					next = append(next, append(append(make([]int, 0, len(frontier[t/nops])+1), frontier[t/nops]...), t%nops))
				}
			}
		}
		st.Depth = depth + 1
		frontier = next
	}
	return st
}

// stateKey identifies a state -- the output text -- by a 128-bit hash of it.
func stateKey(out []byte) (k [16]byte) {
	h := sha256.Sum256(out)
	copy(k[:], h[:16])
	return
}

// workPool runs index ranges over a fixed number of goroutines.
type workPool struct{ n int }

func (p *workPool) run(n int, fn func(i int)) {
	var next int64 = -1
	var wg sync.WaitGroup
	var pan atomic.Value
	for w := 0; w < p.n; w++ {
		wg.Add(1)
		go func() {
			defer wg.Done()
			defer func() {
				if e := recover(); e != nil {
					pan.Store(fmt.Sprint(e))
				}
			}()
			for {
				i := int(atomic.AddInt64(&next, 1))
				if i >= n {
					return
				}
				fn(i)
			}
		}()
	}
	wg.Wait()
	if e := pan.Load(); e != nil {
		panic("c20 worker: " + e.(string))
	}
}

func sortedKeys(m map[string]int64) []string {
	var ks []string
	for k := range m {
		ks = append(ks, k)
	}
	sort.Strings(ks)
	return ks
}
