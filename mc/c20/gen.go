// Package c20: "Rewriting a configuration file never damages it" (hclwrite).
//
// gen.go: the source-file generator.  A file is a sequence of body items drawn from
// a fixed alphabet; every item is a template whose inter-token gaps are written as
// marker runes, so the generator knows -- without asking any lexer -- which bytes are
// token text and which are layout:
//
//	§  mandatory gap   (two words that would fuse without it)
//	·  optional gap whose canonical form is one space  (around =, operators, after ,)
//	¦  optional gap whose canonical form is nothing    (inside brackets, around .)
//	»  one level of indentation (only directly after a newline)
//	@  the attribute name of the item (made unique per position)
//
// Three spacing styles render the markers: canonical, tight (nothing wherever the
// language allows) and loose (tabs and runs of blanks, varied deterministically).
package c20

import (
	"strconv"
	"strings"
)

type itemKind int

const (
	kAttr itemKind = iota
	kBlock
	kComment
	kBlank
)

// Item is one letter of the alphabet.
type Item struct {
	ID     string
	Kind   itemKind
	Name   string // attribute base name (attributes only)
	Tmpl   string
	NeedNL bool // the language needs a newline after this item even at end of file
	Core   bool // member of the smaller alphabet used for the longest sequences
}

// The alphabet.  Attribute names differ in length so that the formatter's column
// alignment has work to do; strings carry in-token blanks and tabs, raw control
// and non-BMP runes, and every escape the scanner of this fork understands.
var Alphabet = []Item{
	// attributes, one per expression kind
	{ID: "num", Kind: kAttr, Name: "n", Core: true, Tmpl: "¦@·=·1¦\n"},
	{ID: "float", Kind: kAttr, Name: "fl", Tmpl: "@·=·-12.50e2\n"},
	{ID: "str", Kind: kAttr, Name: "name", Core: true, Tmpl: "@·=·\"s  p\tq\"\n"},
	{ID: "strspecial", Kind: kAttr, Name: "sp", Tmpl: "@·=·\"é😀\x01 \\n\\t \\\\ $${x} %%{y} \\\"q\\\"  \"\n"},
	{ID: "tmpl", Kind: kAttr, Name: "tm", Core: true, Tmpl: "@·=·\"x${¦b¦}y ${·c¦.¦d·} %{·if§e·}z%{·endif·}\"\n"},
	{ID: "tmplstrip", Kind: kAttr, Name: "ts", Tmpl: "@·=·\"x ${~¦d¦~} y${·{·k·=·1·}¦.¦k·}\"\n"},
	{ID: "heredoc", Kind: kAttr, Name: "here", Core: true, NeedNL: true, Tmpl: "@·=·<<EOT\n${¦d¦} line one\n  two ${¦b¦.¦c¦[¦0¦]¦} \t\n\tEOT x\nEOT\n"},
	{ID: "heredocind", Kind: kAttr, Name: "hi", NeedNL: true, Tmpl: "@·=·<<-EOT\n    x\n  y %{·if§e·}t%{·endif·}\n  EOT\n"},
	{ID: "list", Kind: kAttr, Name: "li", Tmpl: "@·=·[¦1¦,·-2¦,·\"x\"¦]\n"},
	{ID: "listml", Kind: kAttr, Name: "lm", Tmpl: "@·=·[\n»1¦,\n»[¦2¦,·3¦]¦,¦\n]\n"},
	{ID: "obj", Kind: kAttr, Name: "ob", Tmpl: "@·=·{·k·=·1¦,·j·=·\"v\"·}\n"},
	{ID: "objml", Kind: kAttr, Name: "object_ml", Core: true, Tmpl: "@·=·{\n»k·=·1\n»\"j j\"·:·[¦]\n»long_key·=·{¦}·# oc\n}\n"},
	{ID: "call", Kind: kAttr, Name: "ca", Core: true, Tmpl: "@·=·f¦(¦1¦,·b¦,·g¦(¦y¦...¦)¦)\n"},
	{ID: "trav", Kind: kAttr, Name: "tr", Tmpl: "@·=·b¦.¦c¦[¦0¦]¦.¦d¦[¦\"k\"¦]\n"},
	// index keys that are neither a string nor a number literal
	{ID: "travkeys", Kind: kAttr, Name: "tk", Tmpl: "@·=·b¦[¦true¦]¦[·null·]¦.¦c¦[¦-1¦]\n"},
	{ID: "cond", Kind: kAttr, Name: "co", Tmpl: "@·=·e·?·1·:·-2\n"},
	{ID: "ops", Kind: kAttr, Name: "op", Core: true, Tmpl: "@·=·-d·+·2·*·(¦d·-·-1¦)·%·2·>=·3·&&·!e·||·d·==·d·/·1\n"},
	{ID: "for", Kind: kAttr, Name: "fo", Tmpl: "@·=·[¦for§x§in§y·:·x·*·2§if§x·!=·1¦]\n"},
	{ID: "forobj", Kind: kAttr, Name: "fob", Tmpl: "@·=·{·for§k¦,·v§in§m·:·k·=>·v¦...·}\n"},
	{ID: "splat", Kind: kAttr, Name: "spl", Tmpl: "@·=·[¦y¦[¦*¦]¦,·y¦.¦*¦]\n"},
	{ID: "midcomment", Kind: kAttr, Name: "mc", Tmpl: "@·=·1·/* mid */·+·2\n"},
	{ID: "precomment", Kind: kAttr, Name: "pc", Tmpl: "@·=·/* pre */·[¦]\n"},
	// comments between the tokens of a traversal, an index, a call and an interpolation
	{ID: "exprcomments", Kind: kAttr, Name: "ec", Tmpl: "@·=·f¦(¦b·/* tc */·.c¦[·/* ic */·0¦]¦,·/* ac */·\"${·/* in tmpl */·d·}\"¦)\n"},
	{ID: "parenml", Kind: kAttr, Name: "pm", Tmpl: "@·=·(\n»1·+\n»2\n)\n"},
	{ID: "null", Kind: kAttr, Name: "a_rather_long_name", Tmpl: "@·=·null\n"},
	// a name more than 40 columns longer than its neighbours' (alignment gaps wider than the
	// serialiser's chunk of blanks) and a block nest deeper than 20 levels (indentation wider than it)
	{ID: "verylongname", Kind: kAttr, Name: "an_attribute_name_that_is_a_good_deal_longer_than_forty_columns", Tmpl: "@·=·1·# vl\n"},
	// attributes with attached comments
	{ID: "trailhash", Kind: kAttr, Name: "th", Core: true, Tmpl: "@·=·1·# trail  hash\tx\n"},
	{ID: "trailslash", Kind: kAttr, Name: "tsl", Tmpl: "@·=·\"v\"·// trail slash\n"},
	{ID: "trailinline", Kind: kAttr, Name: "ti", Tmpl: "@·=·true·/* trail inline */¦\n"},
	{ID: "leadattr", Kind: kAttr, Name: "le", Core: true, Tmpl: "# lead one\n// lead two\n@·=·[¦]\n"},
	{ID: "leadinline", Kind: kAttr, Name: "lin", Tmpl: "/* before */·@·=·{¦}\n"},
	// blocks
	{ID: "blkone", Kind: kBlock, Core: true, Tmpl: "blk·{¦}\n"},
	{ID: "blkml", Kind: kBlock, Tmpl: "¦blk·{\n¦}¦\n"},
	{ID: "blkquoted", Kind: kBlock, Core: true, Tmpl: "blk·\"l1\"·\"l 2\"·{\n}\n"},
	{ID: "blkbare", Kind: kBlock, Tmpl: "blk§l1§l2·\"q\"·{\n}\n"},
	{ID: "blktypecomment", Kind: kBlock, Tmpl: "blk·/* after type */·\"a\"·/* after label */·{\n}\n"},
	{ID: "blklabcomment", Kind: kBlock, Tmpl: "blk·\"a\"·/* between */·b·{\n}·# after brace\n"},
	{ID: "blkoneline", Kind: kBlock, Core: true, Tmpl: "blk·{·x·=·1·}\n"},
	{ID: "blktrailinline", Kind: kBlock, Tmpl: "blk·\"t\"·{\n»k·=·1\n}·/* after brace, inline */\n"},
	{ID: "blkonelinetrail", Kind: kBlock, Tmpl: "blk·{·x·=·1·}·/* one-line, inline */¦\n"},
	{ID: "nested", Kind: kBlock, Core: true, Tmpl: "outer·\"o\"·{\n»x·=·1\n»inner·{\n»»y·=·\"v\"·# ny\n»»zzz·=·2\n»}\n\n»w·=·[¦]\n}\n"},
	{ID: "deepnest", Kind: kBlock, Tmpl: "deep·{\n»d·{\n»»d·{\n»»»d·{\n»»»»d·{\n»»»»»d·{\n»»»»»»d·{\n»»»»»»»d·{\n»»»»»»»»d·{\n»»»»»»»»»d·{\n»»»»»»»»»»d·{\n»»»»»»»»»»»d·{\n»»»»»»»»»»»»d·{\n»»»»»»»»»»»»»d·{\n»»»»»»»»»»»»»»d·{\n»»»»»»»»»»»»»»»d·{\n»»»»»»»»»»»»»»»»d·{\n»»»»»»»»»»»»»»»»»d·{\n»»»»»»»»»»»»»»»»»»d·{\n»»»»»»»»»»»»»»»»»»»d·{\n»»»»»»»»»»»»»»»»»»»»d·{\n»»»»»»»»»»»»»»»»»»»»»d·{\n»»»»»»»»»»»»»»»»»»»»»»k·=·1\n»»»»»»»»»»»»»»»»»»»»»»longer_key·=·2·# dk\n»»»»»»»»»»»»»»»»»»»»»}\n»»»»»»»»»»»»»»»»»»»»}\n»»»»»»»»»»»»»»»»»»»}\n»»»»»»»»»»»»»»»»»»}\n»»»»»»»»»»»»»»»»»}\n»»»»»»»»»»»»»»»»}\n»»»»»»»»»»»»»»»}\n»»»»»»»»»»»»»»}\n»»»»»»»»»»»»»}\n»»»»»»»»»»»»}\n»»»»»»»»»»»}\n»»»»»»»»»»}\n»»»»»»»»»}\n»»»»»»»»}\n»»»»»»»}\n»»»»»»}\n»»»»»}\n»»»»}\n»»»}\n»»}\n»}\n}\n"},
	{ID: "blkbody", Kind: kBlock, Tmpl: "blk·{\n»# in body\n\n»k·=·1\n»/* tail */\n}\n"},
	// comments and blank lines of their own
	{ID: "hash", Kind: kComment, Core: true, Tmpl: "¦# hash  comment\ttab\n"},
	{ID: "slash", Kind: kComment, Tmpl: "// slash comment\n"},
	{ID: "inline", Kind: kComment, Core: true, Tmpl: "/* inline */\n"},
	{ID: "multiline", Kind: kComment, Tmpl: "/* multi\n   line */¦\n"},
	{ID: "blank", Kind: kBlank, Core: true, Tmpl: "\n"},
}

// Style of the inter-token gaps.
type Style int

const (
	Canonical Style = iota
	Tight
	Loose
	NStyles
	// Wide: every gap is a run of more than 40 blanks (the serialiser writes runs of blanks
	// in chunks).  Not one of the NStyles of the edit sweep; the file part renders it for
	// sequences of up to two items.
	Wide Style = NStyles
)

func (s Style) String() string { return [...]string{"canonical", "tight", "loose", "wide"}[s] }

var (
	looseM = []string{"\t", "  ", " \t", "\t "}
	looseO = []string{"\t", "   ", "\t ", " "}
	looseZ = []string{" ", "\t", "", "  "}
	looseI = []string{"\t", "   ", " \t", "      "}

	wideM = []string{strings.Repeat(" ", 41), strings.Repeat(" ", 97)}
	wideO = []string{strings.Repeat(" ", 41), strings.Repeat(" ", 64), strings.Repeat(" ", 40)}
	wideZ = []string{"", strings.Repeat(" ", 41), "", strings.Repeat(" ", 80)}
	wideI = []string{strings.Repeat(" ", 43), strings.Repeat(" ", 81)}
)

// File is one generated source text together with what the generator knows about it.
type File struct {
	Src    []byte   // the text
	Detab  []byte   // the text with every tab *inside a gap* replaced by a space
	Chunks [][]byte // the token text between gaps, in order
	Desc   string   // "style/eof/item,item,..."
}

// Render builds the file for the item sequence in the given style.  finalNL=false
// removes the newline that ends the last line (when the language allows).
func Render(items []int, st Style, finalNL bool) (File, bool) {
	var src, detab, chunk []byte
	var chunks [][]byte
	n := 0 // gap counter for the loose style
	flush := func() {
		if len(chunk) > 0 {
			chunks = append(chunks, chunk)
			chunk = nil
		}
	}
	gap := func(canon, tight string, loose []string) {
		var g string
		switch st {
		case Canonical:
			g = canon
		case Tight:
			g = tight
		case Wide:
			w := wideO
			switch &loose[0] {
			case &looseM[0]:
				w = wideM
			case &looseZ[0]:
				w = wideZ
			case &looseI[0]:
				w = wideI
			}
			g = w[n%len(w)]
			n++
		default:
			g = loose[n%len(loose)]
			n++
		}
		flush()
		src = append(src, g...)
		detab = append(detab, strings.ReplaceAll(g, "\t", " ")...)
	}
	ids := make([]string, len(items))
	for pos, ix := range items {
		it := &Alphabet[ix]
		ids[pos] = it.ID
		t := it.Tmpl
		if pos == len(items)-1 && !finalNL {
			if it.NeedNL || !strings.HasSuffix(t, "\n") {
				return File{}, false
			}
			t = t[:len(t)-1]
			if it.Kind == kBlank {
				// a file ending in a blank line without its newline is the same
				// file as without the blank line
				return File{}, false
			}
		}
		name := it.Name + strconv.Itoa(pos)
		for _, r := range t {
			switch r {
			case '§':
				gap(" ", " ", looseM)
			case '·':
				gap(" ", "", looseO)
			case '¦':
				gap("", "", looseZ)
			case '»':
				gap("  ", "", looseI)
			case '@':
				chunk = append(chunk, name...)
				src = append(src, name...)
				detab = append(detab, name...)
			default:
				var b [4]byte
				k := encodeRune(b[:], r)
				chunk = append(chunk, b[:k]...)
				src = append(src, b[:k]...)
				detab = append(detab, b[:k]...)
			}
		}
	}
	flush()
	nl := "nl"
	if !finalNL {
		nl = "nonl"
	}
	return File{Src: src, Detab: detab, Chunks: chunks, Desc: st.String() + "/" + nl + "/" + strings.Join(ids, ",")}, true
}

func encodeRune(b []byte, r rune) int {
	s := string(r)
	return copy(b, s)
}

// AlphabetIndex returns the indices of the whole or of the core alphabet.
func AlphabetIndex(coreOnly bool) []int {
	var ix []int
	for i := range Alphabet {
		if !coreOnly || Alphabet[i].Core {
			ix = append(ix, i)
		}
	}
	return ix
}

func itemIndex(id string) int {
	for i := range Alphabet {
		if Alphabet[i].ID == id {
			return i
		}
	}
	panic("c20: no item " + id)
}
