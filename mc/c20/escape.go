package c20

import (
	"fmt"
	"strings"

	hcl "Havoc/pkg/profile/yaotl"
	"Havoc/pkg/profile/yaotl/hclsyntax"
	"Havoc/pkg/profile/yaotl/hclwrite"
	"github.com/zclconf/go-cty/cty"

	"verifmc/ev"
)

// (c) "programmatic edits do what they say" for every string: every string over the
// escape-relevant alphabet up to the length bound is written through the public API in
// every position a string can take (attribute value in a new file and in a parsed file,
// tuple element, object key, block label); the output is re-parsed natively and must give
// the string back, and the rest of the parsed file must be untouched.
var escapeAlphabet = []byte{'$', '%', '{', '}', '"', '\\', 'a', '\n'}

func escapeClass(s string) string {
	switch {
	case strings.HasSuffix(s, "${") || strings.HasSuffix(s, "%{"):
		return "trailing-introducer"
	case strings.Contains(s, "${") || strings.Contains(s, "%{"):
		return "inner-introducer"
	case strings.HasSuffix(s, "$") || strings.HasSuffix(s, "%"):
		return "trailing-symbol"
	case strings.ContainsAny(s, "\"\\"):
		return "quote-or-backslash"
	case strings.Contains(s, "\n"):
		return "newline"
	}
	return "plain"
}

func escapeProduct(r *ev.Run, maxLen int) {
	r.Bounds["escape_alphabet"] = string(escapeAlphabet)
	r.Bounds["escape_string_len"] = maxLen
	var n int64
	const parsedSrc = "x = 1\nb \"l\" {\n  y = [\"k\"]\n}\n"
	check := func(pos, s string, build func() []byte, read func(body *hclsyntax.Body) (string, bool)) {
		n++
		var out []byte
		var got string
		var okRead bool
		what := ""
		func() {
			defer func() {
				if p := recover(); p != nil {
					what = "panic: " + ev.Normalize(fmt.Sprint(p))
				}
			}()
			out = build()
			f, diags := hclsyntax.ParseConfig(out, "out.hcl", hcl.InitialPos)
			if diags.HasErrors() {
				what = "output-does-not-parse"
				return
			}
			body := f.Body.(*hclsyntax.Body)
			got, okRead = read(body)
			switch {
			case !okRead:
				what = "written-item-missing"
			case got != s:
				what = "value-differs"
			}
			if pos == "attr-in-parsed-file" && what == "" {
				if a := body.Attributes["x"]; a == nil || len(body.Blocks) != 1 || body.Blocks[0].Type != "b" || len(body.Blocks[0].Labels) != 1 || body.Blocks[0].Labels[0] != "l" || body.Blocks[0].Body.Attributes["y"] == nil {
					what = "rest-of-file-damaged"
				}
			}
		}()
		r.Outcome("escape/" + pos + "/" + escapeClass(s) + "/" + map[bool]string{true: "ok", false: "bad"}[what == ""])
		if what != "" {
			r.Violate("escape/"+pos+"/"+escapeClass(s)+"/"+what, fmt.Sprintf("the string %q written as %s comes back as %q (%s)", s, pos, got, what),
				map[string]any{"string": s, "position": pos, "output": string(out), "read_back": got})
		}
	}
	strAttr := func(name string) func(*hclsyntax.Body) (string, bool) {
		return func(b *hclsyntax.Body) (string, bool) {
			a := b.Attributes[name]
			if a == nil {
				return "", false
			}
			v, d := a.Expr.Value(nil)
			if d.HasErrors() || v.IsNull() || !v.Type().Equals(cty.String) {
				return "", false
			}
			return v.AsString(), true
		}
	}
	var rec func(prefix []byte)
	rec = func(prefix []byte) {
		if len(prefix) > 0 {
			s := string(prefix)
			check("attr-in-new-file", s, func() []byte {
				f := hclwrite.NewEmptyFile()
				f.Body().SetAttributeValue("a", cty.StringVal(s))
				return f.Bytes()
			}, strAttr("a"))
			check("attr-in-parsed-file", s, func() []byte {
				f, _ := hclwrite.ParseConfig([]byte(parsedSrc), "in.hcl", hcl.InitialPos)
				f.Body().SetAttributeValue("a", cty.StringVal(s))
				return f.Bytes()
			}, strAttr("a"))
			check("tuple-element", s, func() []byte {
				f := hclwrite.NewEmptyFile()
				f.Body().SetAttributeValue("a", cty.TupleVal([]cty.Value{cty.StringVal("z"), cty.StringVal(s)}))
				return f.Bytes()
			}, func(b *hclsyntax.Body) (string, bool) {
				a := b.Attributes["a"]
				if a == nil {
					return "", false
				}
				v, d := a.Expr.Value(nil)
				if d.HasErrors() || !v.Type().IsTupleType() || v.LengthInt() != 2 {
					return "", false
				}
				e := v.Index(cty.NumberIntVal(1))
				if e.IsNull() || !e.Type().Equals(cty.String) {
					return "", false
				}
				return e.AsString(), true
			})
			check("object-key", s, func() []byte {
				f := hclwrite.NewEmptyFile()
				f.Body().SetAttributeValue("a", cty.ObjectVal(map[string]cty.Value{s: cty.NumberIntVal(1)}))
				return f.Bytes()
			}, func(b *hclsyntax.Body) (string, bool) {
				a := b.Attributes["a"]
				if a == nil {
					return "", false
				}
				v, d := a.Expr.Value(nil)
				if d.HasErrors() || !v.Type().IsObjectType() || v.LengthInt() != 1 {
					return "", false
				}
				for k := range v.Type().AttributeTypes() {
					return k, true
				}
				return "", false
			})
			check("block-label", s, func() []byte {
				f := hclwrite.NewEmptyFile()
				f.Body().AppendNewBlock("blk", []string{"first", s})
				return f.Bytes()
			}, func(b *hclsyntax.Body) (string, bool) {
				if len(b.Blocks) != 1 || len(b.Blocks[0].Labels) != 2 || b.Blocks[0].Labels[0] != "first" {
					return "", false
				}
				return b.Blocks[0].Labels[1], true
			})
		}
		if len(prefix) == maxLen {
			return
		}
		for _, c := range escapeAlphabet {
			rec(append(prefix, c))
		}
	}
	rec(nil)
	r.Eval(int(n))
	r.Extra["escape_product"] = map[string]any{"strings_x_positions": n, "positions": []string{"attr-in-new-file", "attr-in-parsed-file", "tuple-element", "object-key", "block-label"}}
}
