package c20

import (
	"encoding/json"
	"fmt"
	"os"
	"runtime"
	"runtime/debug"
	"runtime/pprof"
	"strconv"
	"strings"
	"sync/atomic"
	"syscall"
	"time"

	"Havoc/pkg/profile/yaotl/hclwrite"
	"verifmc/ev"
)

type baseSpec struct {
	name  string
	items []string
	style Style
	nl    bool
	quick bool // searched in the quick tier too
	deep  bool // small enough for one more level (thorough tier, quick edit alphabet)
}

// The base files of the edit search, written with the same alphabet.
var baseSpecs = []baseSpec{
	{"empty", nil, Canonical, true, true, true},
	{"attrs", []string{"num", "str", "trailhash"}, Canonical, true, true, true},
	{"comments", []string{"hash", "blank", "leadattr", "trailslash", "inline", "null"}, Canonical, true, true, false},
	{"no-final-newline", []string{"num", "str"}, Loose, false, true, true},
	{"ends-in-comment", []string{"num", "hash"}, Canonical, false, true, true},
	{"blocks", []string{"blkquoted", "num", "blkbare"}, Canonical, true, true, false},
	{"nested", []string{"nested", "num"}, Canonical, true, false, false},
	{"nested-loose", []string{"leadattr", "nested"}, Loose, true, true, false},
	{"single-line-block", []string{"blkoneline", "str"}, Canonical, true, true, true},
	{"empty-block", []string{"blkone"}, Canonical, true, true, true},
	{"heredoc", []string{"heredoc", "blkbody", "trailinline"}, Canonical, true, false, false},
	{"label-comment", []string{"blklabcomment", "objml", "midcomment"}, Canonical, true, false, false},
	{"tight", []string{"tmpl", "blkbody", "ops"}, Tight, true, false, false},
}

func makeBase(name string, items []int, st Style, nl bool, thorough bool) (*Base, bool) {
	f, ok := Render(items, st, nl)
	if !ok {
		return nil, false
	}
	return &Base{Name: name + "(" + f.Desc + ")", Src: f.Src, Ops: buildOps(f.Src, thorough)}, true
}

func Run(r *ev.Run) {
	for i, a := range os.Args {
		if a == "--replay" && i+1 < len(os.Args) {
			replayFile(r, os.Args[i+1])
			return
		}
	}
	if pf := os.Getenv("C20_PROF"); pf != "" {
		fh, _ := os.Create(pf)
		pprof.StartCPUProfile(fh)
		defer pprof.StopCPUProfile()
	}
	if os.Getenv("C20_BENCH") != "" {
		if pf := os.Getenv("C20_PROF"); pf != "" {
			fh, _ := os.Create(pf)
			pprof.StartCPUProfile(fh)
			defer pprof.StopCPUProfile()
		}
		bench()
		pprof.StopCPUProfile()
		os.Exit(0)
	}
	// the live heap is tiny and the allocation rate high: collect less often
	debug.SetGCPercent(800)
	debug.SetMemoryLimit(6 << 30)
	start := time.Now()
	workers := runtime.NumCPU()
	if workers > 32 {
		workers = 32
	}
	thorough := r.Thorough()

	full, core := AlphabetIndex(false), AlphabetIndex(true)
	spaces := []fileSpace{{full, 3}, {core, 4}}
	sweepLen, bfsDepth := 2, 3
	budget := 150 * time.Second
	if thorough {
		// (sequences of four items over the full alphabet - 48^4 x styles - do not fit the budget:
		// the thorough tier deepens the core alphabet and the edit searches)
		spaces = []fileSpace{{full, 3}, {core, 5}}
		sweepLen, bfsDepth = 2, 3
		budget = 18 * time.Minute
	}
	envInt := func(k string, p *int) {
		if v, err := strconv.Atoi(os.Getenv(k)); err == nil {
			*p = v
		}
	}
	// development overrides (smaller bounds for a fast look); never set by run.sh
	envInt("C20_FILE_LEN_FULL", &spaces[0].maxLen)
	envInt("C20_FILE_LEN_CORE", &spaces[1].maxLen)
	envInt("C20_SWEEP_LEN", &sweepLen)
	envInt("C20_DEPTH", &bfsDepth)
	if v, err := strconv.Atoi(os.Getenv("C20_BUDGET_S")); err == nil {
		budget = time.Duration(v) * time.Second
	}
	deadline := start.Add(budget)
	fileDeadline := start.Add(budget * 45 / 100)

	r.Rule = "(a) every sequence of body items up to file_len_full over the full item alphabet and up to file_len_core over the core alphabet, each rendered in 3 spacing styles (and, up to two items, in a fourth whose every gap is a run of more than 40 blanks), with the final newline and (below the longest length) without it: token round trip is lossless, Format changes layout only / is idempotent / keeps the tree / keeps the decoded values; " +
		"(b1) every single edit of the edit alphabet applied to every file of (a) of up to sweep_file_len items; (b2) breadth-first search over all edit histories up to edit_depth from each base file, states de-duplicated by output text; every transition runs on real hclwrite objects and on the docmodel, the output is re-parsed natively and compared with the model"
	r.Bounds["alphabet_full"] = len(full)
	r.Bounds["alphabet_core"] = len(core)
	r.Bounds["file_len_full"] = spaces[0].maxLen
	r.Bounds["file_len_core"] = spaces[1].maxLen
	r.Bounds["styles"] = int(NStyles)
	r.Bounds["sweep_file_len"] = sweepLen
	r.Bounds["edit_depth"] = bfsDepth
	r.Assume(
		"source files are sequences of the listed item templates; expression forms, comment placements and spacings outside the alphabet are not covered",
		"the native parser and lexer (hclsyntax) are trusted to say what a text means: the oracle compares parse(source) with parse(output), it does not judge the parser",
		"values written by SetAttributeValue range over the listed value domain; block labels over the listed label sets",
		"a comment attached to an item (directly above it, on its line, or inside it) may disappear when that item is removed or its expression/labels are replaced; every other comment must survive in order",
		"position of a newly added item is only required to be after all existing items of its body",
	)

	// (c) first: it is cheap and independent of the budget of (a) and (b)
	escLen := 4
	if thorough {
		escLen = 5
	}
	escapeProduct(r, escLen)
	r.Rule += "; (c) every string over the escape-relevant alphabet up to escape_string_len written as attribute value (new and parsed file), tuple element, object key and block label, re-parsed natively and compared"

	// (a)
	runFiles(r, spaces, workers, fileDeadline)
	for _, s := range [][]string{{"leadattr", "tmpl"}, {"nested", "trailhash", "obj"}, {"heredoc", "blkoneline"}} {
		var ix []int
		for _, id := range s {
			ix = append(ix, itemIndex(id))
		}
		f, _ := Render(ix, Loose, true)
		verdict := "lossless; Format changes layout only, is idempotent, keeps tree and values"
		if fs := CheckFile(f); len(fs) > 0 {
			verdict = "violates " + fs[0].Sig
		}
		r.Sample(map[string]any{"file": f.Desc, "src": string(f.Src), "formatted": string(formatOrEmpty(f.Src)), "verdict": verdict})
	}

	// (b)
	pool := &workPool{n: workers}
	outcomes := newOutcomeSet()
	var states, transitions int64
	perBase := map[string]any{}

	baseOf := func(bs baseSpec, fullOps bool) *Base {
		var ix []int
		for _, id := range bs.items {
			ix = append(ix, itemIndex(id))
		}
		base, ok := makeBase(bs.name, ix, bs.style, bs.nl, fullOps)
		if !ok {
			panic("c20: base " + bs.name + " cannot be rendered")
		}
		return base
	}

	// (b2, first two levels) so that a run cut short by its deadline has at least
	// looked at every pair of edits from every base
	shallowDepth := min(2, bfsDepth)
	shallow := map[string]bfsStats{}
	nBases := 0
	for _, bs := range baseSpecs {
		if !thorough && !bs.quick {
			continue
		}
		nBases++
		shallow[bs.name] = searchBase(r, baseOf(bs, thorough), shallowDepth, pool, deadline, outcomes)
	}

	// (b1) single edits from every short file
	sw := sweep(r, full, sweepLen, thorough, pool, deadline, outcomes)
	states += sw.States
	transitions += sw.Transitions
	r.Bounds["sweep_files"] = sw.Files
	if sw.Capped {
		r.NotExhaustive("single-edit sweep stopped at the internal deadline")
	}

	// (b2) histories from the base files, full depth
	for _, bs := range baseSpecs {
		if !thorough && !bs.quick {
			continue
		}
		type pass struct {
			label   string
			depth   int
			fullOps bool
		}
		passes := []pass{{"", bfsDepth, thorough}}
		if thorough && bs.deep {
			passes = append(passes, pass{"+1 level, quick edit alphabet", bfsDepth + 1, false})
		}
		for pi, ps := range passes {
			base := baseOf(bs, ps.fullOps)
			st := searchBase(r, base, ps.depth, pool, deadline, outcomes)
			capped := st.Capped
			if pi == 0 && st.Depth < shallow[bs.name].Depth {
				st = shallow[bs.name] // the first pass got further than the cut-short one
			}
			if capped {
				r.NotExhaustive("edit search from base " + bs.name + ps.label + " stopped at the internal deadline (depth " + fmt.Sprint(st.Depth) + " of " + fmt.Sprint(ps.depth) + " complete)")
			}
			states += st.States
			transitions += st.Transitions
			perBase[bs.name+ps.label] = map[string]any{"ops": len(base.Ops), "states": st.States, "transitions": st.Transitions, "depth": st.Depth}
			if r.WantSample() && st.States > 1 {
				h := []int{0}
				res := Replay(base, h)
				r.Sample(map[string]any{"base": base.Name, "src": string(base.Src), "history": detailOf(base, h).Text, "output": string(res.out), "verdict": "re-parsed output equals docmodel"})
			}
		}
	}
	r.Bounds["bases"] = nBases
	r.AddStates(states, transitions, transitions)
	r.Eval(int(transitions))
	for _, o := range outcomes.list() {
		r.Outcome(o)
	}
	r.Extra["edit_search_per_base"] = perBase
	var ru syscall.Rusage
	syscall.Getrusage(syscall.RUSAGE_SELF, &ru)
	r.Extra["cpu_s"] = float64(ru.Utime.Nano()+ru.Stime.Nano()) / 1e9
	r.Extra["workers"] = workers
}

func formatOrEmpty(src []byte) (out []byte) {
	defer func() { recover() }()
	return hclwrite.Format(src)
}

// sweep applies every single edit to every file of up to maxLen items.
type sweepStats struct {
	Files, States, Transitions int64
	Capped                     bool
}

func sweep(r *ev.Run, alphabet []int, maxLen int, thorough bool, pool *workPool, deadline time.Time, outcomes *outcomeSet) sweepStats {
	var st sweepStats
	var bases []*Base
	fileSpace{alphabet, maxLen}.sequences(func(seq []int) {
		for s := Style(0); s < NStyles; s++ {
			for _, nl := range []bool{true, false} {
				f, ok := Render(seq, s, nl)
				if !ok {
					continue
				}
				bases = append(bases, &Base{Name: "sweep(" + f.Desc + ")", Src: f.Src})
			}
		}
	})
	st.Files = int64(len(bases))
	type agg struct {
		transitions, states int64
		outcomes            []string
		findings            []struct {
			hist []int
			f    *editFinding
		}
	}
	results := make([]*agg, len(bases))
	var capped atomic.Bool
	pool.run(len(bases), func(i int) {
		if time.Now().After(deadline) {
			capped.Store(true)
			return
		}
		b := bases[i]
		b.Ops = buildOps(b.Src, thorough)
		a := &agg{}
		seen := map[[16]byte]struct{}{}
		one := func(h []int) bool {
			res := Replay(b, h)
			if !res.enabled {
				return true
			}
			a.transitions++
			kind := "base"
			if len(h) > 0 {
				kind = b.Ops[h[0]].Kind
			}
			if res.finding != nil {
				a.outcomes = append(a.outcomes, "violated:"+res.finding.Sig)
				a.findings = append(a.findings, struct {
					hist []int
					f    *editFinding
				}{h, res.finding})
				return false
			}
			k := stateKey(res.out)
			if _, ok := seen[k]; ok {
				a.outcomes = append(a.outcomes, "ok:"+kind+":state-seen-before")
			} else {
				seen[k] = struct{}{}
				a.states++
				a.outcomes = append(a.outcomes, "ok:"+kind+":new-state")
			}
			return true
		}
		if one(nil) {
			for op := range b.Ops {
				one([]int{op})
			}
		}
		results[i] = a
	})
	st.Capped = capped.Load()
	for i, a := range results {
		if a == nil {
			continue
		}
		st.Transitions += a.transitions
		st.States += a.states
		for _, o := range a.outcomes {
			outcomes.add(o)
		}
		for _, x := range a.findings {
			r.Violate(x.f.Sig, fmt.Sprintf("file %s, edit %v: %s", bases[i].Name, detailOf(bases[i], x.hist).Text, x.f.What), detailOf(bases[i], x.hist))
		}
		bases[i].Ops, bases[i].model = nil, nil
		results[i] = nil
	}
	return st
}

// ---------------------------------------------------------------------------

func replayFile(r *ev.Run, path string) {
	if os.Getenv("VERIF_EVIDENCE") == "" {
		// a replay must not overwrite the evidence of the real run
		os.Setenv("VERIF_EVIDENCE", ev.Root()+"/evidence/C20.replay.json")
	}
	b, err := os.ReadFile(path)
	if err != nil {
		fmt.Println("cannot read replay file:", err)
		os.Exit(2)
	}
	var rep struct {
		Signature string          `json:"signature"`
		Detail    json.RawMessage `json:"detail"`
	}
	if err := json.Unmarshal(b, &rep); err != nil {
		fmt.Println("bad replay file:", err)
		os.Exit(2)
	}
	var kind struct {
		Kind string `json:"kind"`
		Desc string `json:"desc"`
	}
	json.Unmarshal(rep.Detail, &kind)
	r.Rule = "replay of " + path
	switch kind.Kind {
	case "file":
		parts := strings.SplitN(kind.Desc, "/", 3)
		if len(parts) != 3 {
			fmt.Println("bad file description", kind.Desc)
			os.Exit(2)
		}
		var st Style
		for s := Style(0); s <= Wide; s++ {
			if s.String() == parts[0] {
				st = s
			}
		}
		var ix []int
		if parts[2] != "" {
			for _, id := range strings.Split(parts[2], ",") {
				ix = append(ix, itemIndex(id))
			}
		}
		f, ok := Render(ix, st, parts[1] == "nl")
		if !ok {
			fmt.Println("file cannot be rendered")
			os.Exit(2)
		}
		fmt.Printf("replaying file %s\n%s\n", f.Desc, f.Src)
		r.Eval(1)
		fs := CheckFile(f)
		for _, x := range fs {
			r.Violate(x.Sig, x.What, x.Detail)
		}
		r.Outcome(fmt.Sprintf("findings=%d", len(fs)))
	case "edit":
		var d histDetail
		json.Unmarshal(rep.Detail, &d)
		base := &Base{Name: d.Base, Src: []byte(d.Src), Ops: d.History}
		var h []int
		for i := range base.Ops {
			base.Ops[i].resolve()
			h = append(h, i)
		}
		fmt.Printf("replaying %v on\n%s\n", d.Text, d.Src)
		res := Replay(base, h)
		r.Eval(1)
		r.AddStates(1, 1, 1)
		if res.finding != nil {
			r.Violate(res.finding.Sig, res.finding.What, d)
			r.Outcome("violated")
		} else {
			fmt.Printf("output:\n%s\n", res.out)
			r.Outcome("held")
		}
	default:
		fmt.Println("unknown replay kind", kind.Kind)
		os.Exit(2)
	}
	r.Outcome("replay")
}

// bench prints single-thread costs (development aid: C20_BENCH=1).
func bench() {
	full := AlphabetIndex(false)
	var files []File
	fileSpace{full, 2}.sequences(func(seq []int) {
		if f, ok := Render(seq, Loose, true); ok && len(files) < 1500 {
			files = append(files, f)
		}
	})
	cpu := func() time.Duration {
		var ru syscall.Rusage
		syscall.Getrusage(syscall.RUSAGE_SELF, &ru)
		return time.Duration(ru.Utime.Nano() + ru.Stime.Nano())
	}
	t := time.Now()
	c := cpu()
	for _, f := range files {
		CheckFile(f)
	}
	fmt.Printf("CheckFile: %d files, %.0f us/file wall, %.0f us/file cpu\n", len(files), float64(time.Since(t).Microseconds())/float64(len(files)), float64((cpu()-c).Microseconds())/float64(len(files)))
	c = cpu()
	ix := []int{itemIndex("nested"), itemIndex("num")}
	base, _ := makeBase("bench", ix, Canonical, true, false)
	n := 0
	t = time.Now()
	for a := range base.Ops {
		for b := 0; b < len(base.Ops) && n < 3000; b += 3 {
			Replay(base, []int{a, b})
			n++
		}
	}
	fmt.Printf("Replay depth 2: %d, %.0f us/transition wall, %.0f cpu (ops=%d)\n", n, float64(time.Since(t).Microseconds())/float64(n), float64((cpu()-c).Microseconds())/float64(n), len(base.Ops))
}
