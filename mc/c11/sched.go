package c11

import (
	"errors"
	"fmt"
	"os"
	"sort"
	"strings"
	"time"

	"Havoc/cmd/server"
	"Havoc/pkg/events"
	"Havoc/pkg/handlers"
	"Havoc/pkg/packager"

	"verifmc/ev"
	"verifmc/explore"
	"verifmc/fake"
	"verifmc/par"
	"verifmc/seam"
	"verifmc/vsched"
)

func preAuth(t *server.Teamserver, id, user string) *fake.WS {
	ws := fake.NewWS(id)
	t.Clients.Store(id, &server.Client{ClientID: id, Username: user, GlobalIP: "10.1.1.1:5", Connection: ws.Conn, Packager: packager.NewPackager(), Authenticated: true})
	return ws
}

func tags(ws *fake.WS) ([]string, string) {
	c := &cli{ws: ws}
	return received(c)
}

// Part 2: fault sequences.  U and V are authenticated.  The driver records four
// console events, one agent check-in (an agent request that broadcasts) and one more
// event.  U's transport fails at write index w with fault f (every w, every f) and
// stays failed (a cut connection) or recovers (a single lost write); the scheduler
// explores the interleavings of a second broadcaster.  Everything must finish: no
// deadlock, no mutex held, V's stream complete and in order.
func runFaults(r *ev.Run) (int64, int64) {
	type fault struct {
		name    string
		partial bool
		sticky  bool
	}
	faults := []fault{{"error-before-write", false, true}, {"error-after-partial-frame", true, true}, {"single-failed-write", false, false}}
	bound := 1
	if r.Thorough() {
		bound = 2
	}
	var exec, points int64
	outcomes := map[string]bool{}
	for _, f := range faults {
		f := f
		t := explore.Tree{Bound: bound, Deadline: time.Now().Add(treeDeadline(r))}
		t.RunShard(treeShard, treeShards, func(c *explore.Chooser) {
			ts := seam.New(seam.Options{})
			defer ts.Close()
			ts.MustRegister(idA, 1)
			u := preAuth(ts.T, "U", "op1")
			v := preAuth(ts.T, "V", "op2")
			// the write index at which U's transport fails: a choice (0 = never)
			const maxW = 8
			w := c.Choose(maxW+1, "fault-at-write") - 1
			failed := false
			u.Raw.OnWrite = func(n int, p []byte) (int, error) {
				if w < 0 {
					return 0, nil
				}
				if n == w || (failed && f.sticky) {
					failed = true
					if f.partial && n == w {
						return len(p) / 2, errors.New("write: broken pipe")
					}
					return 0, errors.New("write: broken pipe")
				}
				return 0, nil
			}
			s := vsched.New(c, 20000, "EventsList", "Clients")
			s.SpinFree = 16
			var want []string
			s.Spawn("driver", func() {
				for i := 0; i < 4; i++ {
					m := fmt.Sprintf("m%d", i)
					ts.T.AgentConsole(fmt.Sprintf("%08x", idA), 0x80, map[string]string{"Type": "Good", "Message": m})
					want = append(want, fmt.Sprintf("out:%08x:%s", idA, m))
				}
				ts.CheckIn(idA, 1)
				want = append(want, fmt.Sprintf("callin:%08x", idA))
				ts.T.AgentConsole(fmt.Sprintf("%08x", idA), 0x80, map[string]string{"Type": "Good", "Message": "last"})
				want = append(want, fmt.Sprintf("out:%08x:last", idA))
			})
			s.Spawn("operator", func() {
				ts.T.EventBroadcast("V", packager.Package{Head: packager.Head{Event: 4}, Body: packager.Body{SubEvent: 1, Info: map[string]any{"Message": "side"}}})
			})
			s.Run()
			got, bad := tags(v)
			detail := map[string]any{"fault": f.name, "fault_at_write": w, "choices": c.Choices(), "schedule_tail": tail(s.Trace, 30), "v_received": got}
			obs := fmt.Sprintf("%s/w=%d/v=%d", f.name, w, len(got))
			outcomes[obs] = true
			switch {
			case len(s.Panics) > 0:
				r.Violate("fault/panic/"+ev.Normalize(s.Panics[0]), s.Panics[0], detail)
			case s.Deadlock:
				r.Violate("fault/deadlock/"+f.name, "a failed operator connection blocks the others: "+s.DeadlockWhy, detail)
			case s.HorizonHit:
				r.Violate("fault/horizon", "did not finish", detail)
			case len(s.Held()) > 0:
				r.Violate("fault/lock-held/"+f.name, fmt.Sprintf("mutex still held at the end: %v", s.Held()), detail)
			case bad != "":
				r.Violate("fault/frame", bad, detail)
			case strings.Join(got, "|") != strings.Join(want, "|"):
				r.Violate("fault/healthy-operator-stream/"+f.name, fmt.Sprintf("V received %v, expected %v", got, want), detail)
			}
			if r.WantSample() && w == 3 {
				r.Sample(map[string]any{"fault": f.name, "fault_at_write": w, "choices": c.Choices()})
			}
		})
		if t.Err != nil {
			r.Violate("harness/nondeterminism", t.Err.Error(), nil)
		}
		if t.Capped {
			r.NotExhaustive("fault exploration stopped by the internal deadline")
		}
		exec += t.Executions
		points += t.Points
	}
	for o := range outcomes {
		r.Outcome("fault/" + o)
	}
	r.Extra["faults"+shardSuffix()] = map[string]any{"executions": exec, "choice_points": points, "fault_kinds": []string{"error-before-write", "error-after-partial-frame", "single-failed-write"}, "write_indexes": "0..7 and none", "deviation_bound": bound}
	return exec, points
}

func tail(s []string, n int) []string {
	if len(s) > n {
		return s[len(s)-n:]
	}
	return s
}

// Part 3: concurrent broadcasters and a connecting client.
func runSchedules(r *ev.Run) (int64, int64) {
	bound := 2
	if r.Thorough() {
		bound = 3
	}
	r.Bounds["preemption_bound"] = bound
	var exec, points int64
	outcomes := map[string]bool{}
	for _, withJoin := range []bool{false, true} {
		withJoin := withJoin
		b := bound
		if withJoin {
			b = bound - 1 // four threads and ~100 points per execution: one preemption less
		}
		t := explore.Tree{Bound: b, Deadline: time.Now().Add(treeDeadline(r))}
		t.RunShard(treeShard, treeShards, func(c *explore.Chooser) {
			ts := seam.New(seam.Options{})
			defer ts.Close()
			ts.MustRegister(idA, 1)
			v := preAuth(ts.T, "V", "op2")
			base := len(ts.T.EventsList)
			s := vsched.New(c, 20000, "EventsList", "Clients", "Authenticated", "sync.Mutex")
			s.SpinFree = 16
			aid := fmt.Sprintf("%08x", idA)
			opDone, lsDone := false, false
			s.Spawn("operator", func() {
				ts.T.AgentConsole(aid, 0x80, map[string]string{"Type": "Good", "Message": "o1"})
				ts.T.AgentConsole(aid, 0x80, map[string]string{"Type": "Good", "Message": "o2"})
				opDone = true
			})
			s.Spawn("listener", func() {
				ts.T.AgentConsole(aid, 0x80, map[string]string{"Type": "Good", "Message": "l1"})
				lsDone = true
			})
			var u *fake.WS
			if withJoin {
				u = fake.NewWS("U")
				ts.T.Clients.Store("U", &server.Client{GlobalIP: "10.1.1.1:5", Connection: u.Conn, Packager: packager.NewPackager()})
				login := fmt.Sprintf(`{"Head":{"Event":1,"User":"op1"},"Body":{"SubEvent":3,"Info":{"User":"op1","Password":"%s"}}}`, digest("pw1"))
				u.SendText(login)
				s.Spawn("join-U", func() { ts.T.VerifHandleRequest("U") })
				// U stays connected until both broadcasters are done
				s.Spawn("closer", func() {
					s.Block("closer waits for the broadcasters", func() bool { return opDone && lsDone })
					u.Raw.ClosePeer()
				})
			}
			s.Run()
			var log []string
			for _, e := range ts.T.EventsList[min(base, len(ts.T.EventsList)):] {
				log = append(log, tagOf(e))
			}
			got, bad := tags(v)
			detail := map[string]any{"joining_client": withJoin, "choices": c.Choices(), "schedule_tail": tail(s.Trace, 40), "retained": log, "v_received": got}
			want := []string{"out:" + aid + ":l1", "out:" + aid + ":o1", "out:" + aid + ":o2"}
			count := func(l []string, x string) int {
				n := 0
				for _, y := range l {
					if y == x {
						n++
					}
				}
				return n
			}
			obs := fmt.Sprintf("join=%v log=%v v=%v", withJoin, log, got)
			outcomes[obs] = true
			switch {
			case len(s.Panics) > 0:
				r.Violate("sched/panic/"+ev.Normalize(s.Panics[0]), s.Panics[0], detail)
				return
			case s.Deadlock:
				r.Violate("sched/deadlock", s.DeadlockWhy, detail)
				return
			case s.HorizonHit:
				r.Violate("sched/horizon", "did not finish", detail)
				return
			case len(s.Held()) > 0:
				r.Violate("sched/lock-held", fmt.Sprint(s.Held()), detail)
				return
			case bad != "":
				r.Violate("sched/frame", bad, detail)
				return
			}
			for _, x := range want {
				if n := count(log, x); n != 1 {
					r.Violate("sched/retained-log-lost-or-duplicated", fmt.Sprintf("event %s is %d times in the retained log %v (concurrent EventAppend)", x, n, log), detail)
					return
				}
				if n := count(got, x); n != 1 {
					r.Violate("sched/broadcast-not-exactly-once", fmt.Sprintf("authenticated operator V received event %s %d times: %v", x, n, got), detail)
					return
				}
			}
			// per-thread order is preserved at V
			if idx(got, want[1]) > idx(got, want[2]) {
				r.Violate("sched/order", fmt.Sprintf("V received o2 before o1: %v", got), detail)
			}
			if withJoin {
				ug, ubad := tags(u)
				if ubad != "" {
					r.Violate("sched/frame", ubad, detail)
					return
				}
				detail["u_received"] = ug
				for _, x := range want {
					if n := count(ug, x); n == 0 {
						r.Violate("sched/joining-operator-misses-event", fmt.Sprintf("U authenticated during the broadcasts and never received %s: %v", x, ug), detail)
						return
					} else if n > 1 {
						// an event retained before U's replay and broadcast after U authenticated arrives
						// twice (replay + live broadcast).  Both clauses of the statement are met
						// literally, so this is recorded as an outcome, not a violation.
						outcomes["joining operator sees an event twice (replay + live)"] = true
					}
				}
			}
			if r.WantSample() && len(c.Choices()) > 4 && c.Choices()[3] != 0 {
				r.Sample(map[string]any{"joining_client": withJoin, "choices": c.Choices(), "retained": log})
			}
		})
		if t.Err != nil {
			r.Violate("harness/nondeterminism", t.Err.Error(), nil)
		}
		if t.Capped {
			r.NotExhaustive("schedule exploration stopped by the internal deadline")
		}
		exec += t.Executions
		points += t.Points
		r.Extra[fmt.Sprintf("schedules_join=%v", withJoin)+shardSuffix()] = map[string]any{"preemption_bound": b, "executions": t.Executions, "choice_points": t.Points, "max_depth": t.MaxDepth}
	}
	var os []string
	for o := range outcomes {
		os = append(os, o)
	}
	sort.Strings(os)
	for _, o := range os {
		r.Outcome("sched/" + o)
	}
	return exec, points
}

// Part 3b: an operator's replay races with the removal of a listener whose add event
// lies in the middle of the retained log.  Every retained chat event was recorded
// before the operator logged in and none is broadcast again, so each must arrive
// exactly once and in order, wherever the pruning lands relative to the replay.
func runReplayVsRemove(r *ev.Run) (int64, int64) {
	bound := 2
	if r.Thorough() {
		bound = 3
	}
	outcomes := map[string]bool{}
	t := explore.Tree{Bound: bound, Deadline: time.Now().Add(treeDeadline(r))}
	t.RunShard(treeShard, treeShards, func(c *explore.Chooser) {
		ts := seam.New(seam.Options{})
		defer ts.Close()
		chat := func(i int) {
			ts.T.EventAppend(packager.Package{Head: packager.Head{Event: 4, User: "op2"}, Body: packager.Body{SubEvent: 1, Info: map[string]any{"User": "op2", "Message": fmt.Sprintf("c%d", i)}}})
		}
		chat(0)
		if err := ts.T.ListenerStart(handlers.LISTENER_PIVOT_SMB, handlers.SMBConfig{Name: "L1", PipeName: "p"}); err != nil {
			panic(err)
		}
		chat(2)
		chat(3)
		chat(4)
		u := fake.NewWS("U")
		ts.T.Clients.Store("U", &server.Client{GlobalIP: "10.1.1.1:5", Connection: u.Conn, Packager: packager.NewPackager()})
		u.SendText(fmt.Sprintf(`{"Head":{"Event":1,"User":"op1"},"Body":{"SubEvent":3,"Info":{"User":"op1","Password":"%s"}}}`, digest("pw1")))
		s := vsched.New(c, 20000, "EventsList", "Listeners", "sync.Mutex")
		s.SpinFree = 16
		rmDone := false
		s.Spawn("join-U", func() { ts.T.VerifHandleRequest("U") })
		s.Spawn("remover", func() {
			dispatch(ts.T, packager.Type.Listener.Type, packager.Type.Listener.Remove, map[string]any{"Name": "L1"})
			rmDone = true
		})
		s.Spawn("closer", func() {
			s.Block("closer waits for the removal", func() bool { return rmDone && idle(u.Raw) })
			u.Raw.ClosePeer()
		})
		s.Run()
		got, bad := tags(u)
		var chats []string
		for _, g := range got {
			if strings.HasPrefix(g, "chat:") {
				chats = append(chats, g)
			}
		}
		obs := strings.Join(got, " ")
		outcomes[obs] = true
		detail := map[string]any{"choices": c.Choices(), "schedule_tail": tail(s.Trace, 40), "u_received": got}
		switch {
		case len(s.Panics) > 0:
			r.Violate("replay-vs-remove/panic/"+ev.Normalize(s.Panics[0]), s.Panics[0], detail)
		case s.Deadlock:
			r.Violate("replay-vs-remove/deadlock", s.DeadlockWhy, detail)
		case s.HorizonHit:
			r.Violate("replay-vs-remove/horizon", "did not finish", detail)
		case bad != "":
			r.Violate("replay-vs-remove/frame", bad, detail)
		case strings.Join(chats, " ") != "chat:c0 chat:c2 chat:c3 chat:c4":
			r.Violate("replay-vs-remove/retained-events", fmt.Sprintf("the operator's replay delivered the retained chat events as %v, recorded were [c0 c2 c3 c4]", chats), detail)
		}
		if r.WantSample() && len(c.Choices()) > 5 && c.Choices()[4] != 0 {
			r.Sample(map[string]any{"scenario": "replay vs listener removal", "choices": c.Choices(), "observed": obs})
		}
	})
	if t.Err != nil {
		r.Violate("harness/nondeterminism", t.Err.Error(), nil)
	}
	if t.Capped {
		r.NotExhaustive("replay-vs-remove exploration stopped by the internal deadline")
	}
	for o := range outcomes {
		r.Outcome("replay-vs-remove/" + o)
	}
	r.Extra["replay_vs_remove"+shardSuffix()] = map[string]any{"preemption_bound": bound, "executions": t.Executions, "choice_points": t.Points, "distinct_observations": len(outcomes)}
	return t.Executions, t.Points
}

func idx(l []string, x string) int {
	for i, y := range l {
		if y == x {
			return i
		}
	}
	return -1
}

func Run(r *ev.Run) {
	r.Rule = "(1) explicit-state BFS over record/broadcast/remove/connect/disconnect histories: every transition replayed on a fresh real teamserver with real handler goroutines parked on scripted websocket connections under the controlled scheduler (default schedule), each operator's received frames compared with an event-log reference model after every step; (2) every write index x fault kind on one operator's transport x interleavings of a second broadcaster; (3) every schedule within the preemption bound of two concurrent broadcasters (and a joining operator); (7) a stall that lasts: one operator's transport takes no bytes from write index w on until a thread that only records and the replay to a third operator are done - every w, every schedule within the bound. distinct = distinct observations"
	r.Assume("a stalled transport is modelled as an arbitrarily delayed write that finally fails (what TCP delivers); in part 7 the delay lasts until every thread that does not write to the stalled operator has finished (threads that do write to it wait, as a synchronous broadcast must)",
		"2 operators, 2 agents, 2 listener names; preemption bound as reported")
	if os.Getenv("VERIF_RACE_PASS") != "" {
		runFree(r)
		return
	}
	if inBFS() {
		runHistories(r) // worker: processes its shard and exits
		return
	}
	if !vsched.Instrumented {
		r.Violate("harness/not-instrumented", "C11 needs the sched build", nil)
		return
	}
	if _, _, worker := par.Shard(); !worker {
		res := runHistories(r)
		r.Extra["histories"] = map[string]any{"states": res.States, "transitions": res.Transitions, "depth_completed": res.Depth, "new_states_by_depth": res.ByDepth}
		if res.Capped {
			r.NotExhaustive(fmt.Sprintf("history BFS stopped by the internal deadline after depth %d", res.Depth))
		}
		r.AddStates(res.States, res.Transitions, res.Transitions)
	}
	// the four schedule/fault parts, each schedule tree split over treeParts worker processes
	parts := []func(*ev.Run) (int64, int64){runFaults, runSchedules, runReplayVsRemove, runJoinVsRegister, runRemoveVsRecord, runStall}
	const treeParts = 4
	r.Bounds["schedule_tree_shards"] = treeParts
	par.Run(r, len(parts)*treeParts, 40*time.Minute, func(i, n int, r *ev.Run) {
		if n == 1 {
			for _, f := range parts {
				e, p := f(r)
				r.Eval(int(e))
				r.AddStates(p, p, e)
			}
			return
		}
		treeShard, treeShards = i%treeParts, treeParts
		e, p := parts[i/treeParts](r)
		r.Eval(int(e))
		r.AddStates(p, p, e)
	})
}

// Every schedule tree of parts 2 and 3 is explored in shards (explore.Tree.RunShard).
var treeShard, treeShards = 0, 1

func shardSuffix() string {
	if treeShards <= 1 {
		return ""
	}
	return fmt.Sprintf("/shard_%d_of_%d", treeShard, treeShards)
}

func treeDeadline(r *ev.Run) time.Duration {
	if r.Thorough() {
		return 12 * time.Minute
	}
	return 4 * time.Minute
}

func inBFS() bool { return parTag() != "" }

// Part 3c: an operator authenticates while the listener registers a new agent.  The
// live sessions are replayed from the session table, not from the retained log (the
// free-running race pass named the table as a racy location no other scenario
// explored): whatever the interleaving, the operator who is already in must be told
// exactly once, the one who is joining at least once, and nothing may panic or block.
func runJoinVsRegister(r *ev.Run) (int64, int64) {
	bound := 2
	if r.Thorough() {
		bound = 3
	}
	r.Bounds["preemption_bound_join_vs_register"] = bound
	outcomes := map[string]bool{}
	const idB = 0x00c11b02
	t := explore.Tree{Bound: bound, Deadline: time.Now().Add(treeDeadline(r))}
	t.RunShard(treeShard, treeShards, func(c *explore.Chooser) {
		ts := seam.New(seam.Options{})
		defer ts.Close()
		ts.MustRegister(idA, 1)
		v := preAuth(ts.T, "V", "op2")
		s := vsched.New(c, 20000, "EventsList", "Clients", "Authenticated", "Agents", "sync.Mutex")
		s.SpinFree = 16
		u := fake.NewWS("U")
		ts.T.Clients.Store("U", &server.Client{GlobalIP: "10.1.1.1:5", Connection: u.Conn, Packager: packager.NewPackager()})
		u.SendText(fmt.Sprintf(`{"Head":{"Event":1,"User":"op1"},"Body":{"SubEvent":3,"Info":{"User":"op1","Password":"%s"}}}`, digest("pw1")))
		regDone := false
		regBad := ""
		s.Spawn("join-U", func() { ts.T.VerifHandleRequest("U") })
		s.Spawn("listener", func() {
			if res := ts.Register(idB, 2); res.Panic != nil || res.Status != 200 {
				regBad = fmt.Sprintf("registration: status=%d panic=%v", res.Status, res.Panic)
			}
			regDone = true
		})
		s.Spawn("closer", func() {
			s.Block("closer waits for the registration and for U's replay", func() bool { return regDone && idle(u.Raw) })
			u.Raw.ClosePeer()
		})
		s.Run()
		vg, vbad := tags(v)
		ug, ubad := tags(u)
		tagB := fmt.Sprintf("new:%08x", idB)
		count := func(l []string, x string) int {
			n := 0
			for _, y := range l {
				if y == x {
					n++
				}
			}
			return n
		}
		obs := fmt.Sprintf("v:new(B)=%d u:new(B)=%d u:new(A)=%d", count(vg, tagB), count(ug, tagB), count(ug, fmt.Sprintf("new:%08x", idA)))
		outcomes[obs] = true
		detail := map[string]any{"choices": c.Choices(), "schedule_tail": tail(s.Trace, 40), "v_received": vg, "u_received": ug}
		switch {
		case len(s.Panics) > 0:
			r.Violate("sched/panic/"+ev.Normalize(s.Panics[0]), s.Panics[0], detail)
		case regBad != "":
			r.Violate("sched/registration-failed-during-join", regBad, detail)
		case s.Deadlock:
			r.Violate("sched/deadlock", s.DeadlockWhy, detail)
		case s.HorizonHit:
			r.Violate("sched/horizon", "did not finish", detail)
		case len(s.Held()) > 0:
			r.Violate("sched/lock-held", fmt.Sprint(s.Held()), detail)
		case vbad != "" || ubad != "":
			r.Violate("sched/frame", vbad+ubad, detail)
		case count(vg, tagB) != 1:
			r.Violate("sched/broadcast-not-exactly-once", fmt.Sprintf("authenticated operator V was told %d times about the new session: %v", count(vg, tagB), vg), detail)
		case count(ug, tagB) == 0:
			r.Violate("sched/joining-operator-misses-session", fmt.Sprintf("U authenticated while the agent registered and was never told about it: %v", ug), detail)
		case count(ug, fmt.Sprintf("new:%08x", idA)) != 1:
			r.Violate("sched/joining-operator-replay-sessions", fmt.Sprintf("U's replay must hold the session that existed before exactly once: %v", ug), detail)
		}
	})
	if t.Err != nil {
		r.Violate("harness/nondeterminism", t.Err.Error(), nil)
	}
	if t.Capped {
		r.NotExhaustive("join-vs-register scenario stopped by the internal deadline")
	}
	for o := range outcomes {
		r.Outcome("sched-join-register/" + o)
	}
	r.Extra["schedules_join_vs_register"+shardSuffix()] = map[string]any{"executions": t.Executions, "choice_points": t.Points, "distinct_observations": len(outcomes), "preemption_bound": bound}
	return t.Executions, t.Points
}

// Part 3d: an event is recorded while a listener is being removed.  The removal prunes the
// listener's add event from the retained log; whatever is recorded meanwhile must stay.
// On every schedule: afterwards the retained log holds every chat event exactly once and
// in order, and no add event of the removed listener.
func runRemoveVsRecord(r *ev.Run) (int64, int64) {
	bound := 2
	if r.Thorough() {
		bound = 3
	}
	outcomes := map[string]bool{}
	t := explore.Tree{Bound: bound, Deadline: time.Now().Add(treeDeadline(r))}
	t.RunShard(treeShard, treeShards, func(c *explore.Chooser) {
		ts := seam.New(seam.Options{})
		defer ts.Close()
		chat := func(i int) {
			ts.T.EventAppend(packager.Package{Head: packager.Head{Event: 4, User: "op2"}, Body: packager.Body{SubEvent: 1, Info: map[string]any{"User": "op2", "Message": fmt.Sprintf("c%d", i)}}})
		}
		chat(0)
		if err := ts.T.ListenerStart(handlers.LISTENER_PIVOT_SMB, handlers.SMBConfig{Name: "L1", PipeName: "p"}); err != nil {
			panic(err)
		}
		chat(1)
		s := vsched.New(c, 20000, "EventsList", "Listeners", "sync.Mutex")
		s.SpinFree = 16
		s.Spawn("remover", func() {
			dispatch(ts.T, packager.Type.Listener.Type, packager.Type.Listener.Remove, map[string]any{"Name": "L1"})
		})
		s.Spawn("recorder", func() {
			chat(2)
			chat(3)
		})
		s.Run()
		var chats, adds []string
		for _, e := range ts.T.EventsList {
			tg := tagOf(e)
			if strings.HasPrefix(tg, "chat:") {
				chats = append(chats, strings.TrimPrefix(tg, "chat:"))
			}
			if strings.HasPrefix(tg, "ladd:L1") {
				adds = append(adds, tg)
			}
		}
		obs := fmt.Sprintf("chats=%v adds=%v", chats, adds)
		outcomes[obs] = true
		detail := map[string]any{"choices": c.Choices(), "schedule_tail": tail(s.Trace, 40), "observed": obs}
		switch {
		case len(s.Panics) > 0:
			r.Violate("remove-vs-record/panic/"+ev.Normalize(s.Panics[0]), s.Panics[0], detail)
		case s.Deadlock:
			r.Violate("remove-vs-record/deadlock", s.DeadlockWhy, detail)
		case s.HorizonHit:
			r.Violate("remove-vs-record/horizon", "did not finish", detail)
		case len(s.Held()) > 0:
			r.Violate("remove-vs-record/lock-held", fmt.Sprint(s.Held()), detail)
		case strings.Join(chats, " ") != "c0 c1 c2 c3":
			r.Violate("remove-vs-record/retained-events", fmt.Sprintf("recorded were c0 c1 (before) and c2 c3 (during the removal); the retained log holds %v", chats), detail)
		case len(adds) != 0:
			r.Violate("remove-vs-record/removed-listener-still-advertised", fmt.Sprintf("the retained log still holds %v", adds), detail)
		}
	})
	if t.Err != nil {
		r.Violate("harness/nondeterminism", t.Err.Error(), nil)
	}
	if t.Capped {
		r.NotExhaustive("remove-vs-record exploration stopped by the internal deadline")
	}
	for o := range outcomes {
		r.Outcome("remove-vs-record/" + o)
	}
	r.Extra["remove_vs_record"+shardSuffix()] = map[string]any{"preemption_bound": bound, "executions": t.Executions, "choice_points": t.Points, "distinct_observations": len(outcomes)}
	return t.Executions, t.Points
}

// Part 7: a stall that lasts.  U's transport stops taking bytes at write index w (every w)
// and stays that way until everybody who has no business with U is done: a thread that
// only records an event, and the replay of the retained events to a third operator W.
// Threads that write to U (a listener error being reported, a console line being
// broadcast) may wait for U - that is what a synchronous broadcast means - but what they
// hold while they wait must not keep the others from finishing: with no enabled thread
// left while the recorder or W's replay is unfinished, the stalled operator blocks
// somebody it should not.  (Implied by the statement's "all still complete"; the
// finite-delay model of part 2 cannot see it, because there everything finishes once
// the write fails.)
func runStall(r *ev.Run) (int64, int64) {
	bound := 1
	if r.Thorough() {
		bound = 2
	}
	var exec, points int64
	outcomes := map[string]bool{}
	t := explore.Tree{Bound: bound, Deadline: time.Now().Add(treeDeadline(r))}
	t.RunShard(treeShard, treeShards, func(c *explore.Chooser) {
		ts := seam.New(seam.Options{})
		defer ts.Close()
		ts.MustRegister(idA, 1)
		ts.T.ListenerStart(handlers.LISTENER_PIVOT_SMB, handlers.SMBConfig{Name: "n1", PipeName: "p"})
		ts.T.EventAppend(ts.T.ListenerAdd("", handlers.LISTENER_PIVOT_SMB, ts.T.Listeners[0].Config))
		u := preAuth(ts.T, "U", "op1")
		v := preAuth(ts.T, "V", "op2")
		wcl := preAuth(ts.T, "W", "op3")
		const maxW = 3
		w := c.Choose(maxW, "stall-at-write")
		var s *vsched.Sched
		recorderDone, replayDone := false, false
		stalled := false
		u.Raw.OnWrite = func(n int, p []byte) (int, error) {
			if n >= w {
				if !stalled {
					stalled = true
					s.Block("U's transport takes no bytes until the recorder and W's replay are done", func() bool { return recorderDone && replayDone })
				}
				return 0, errors.New("write: connection timed out")
			}
			return 0, nil
		}
		s = vsched.New(c, 20000, "EventsList", "Clients")
		s.SpinFree = 16
		s.Spawn("listener-error", func() { ts.T.EventListenerError("n1", errors.New("listen: boom")) })
		s.Spawn("broadcaster", func() {
			ts.T.AgentConsole(fmt.Sprintf("%08x", idA), 0x80, map[string]string{"Type": "Good", "Message": "m"})
		})
		s.Spawn("recorder", func() {
			ts.T.EventAppend(events.ChatLog.NewUserConnected("x"))
			recorderDone = true
		})
		s.Spawn("replay-to-W", func() {
			ts.T.SendAllPackagesToNewClient("W")
			replayDone = true
		})
		s.Run()
		gotW, _ := tags(wcl)
		gotV, badV := tags(v)
		detail := map[string]any{"stall_at_write": w, "choices": c.Choices(), "schedule_tail": tail(s.Trace, 40), "recorder_done": recorderDone, "replay_to_W_done": replayDone, "v_received": gotV, "w_received": gotW}
		outcomes[fmt.Sprintf("w=%d/stalled=%v/v=%d/w=%d", w, stalled, len(gotV), len(gotW))] = true
		switch {
		case len(s.Panics) > 0:
			r.Violate("stall/panic/"+ev.Normalize(s.Panics[0]), s.Panics[0], detail)
		case s.Deadlock && (!recorderDone || !replayDone):
			r.Violate("stall/blocks-a-thread-that-does-not-write-to-the-stalled-operator", fmt.Sprintf("while U's transport is stalled, recording an event (done=%v) or the replay to another operator (done=%v) cannot finish: %s", recorderDone, replayDone, s.DeadlockWhy), detail)
		case s.Deadlock:
			r.Violate("stall/deadlock", s.DeadlockWhy, detail)
		case s.HorizonHit:
			r.Violate("stall/horizon", "did not finish", detail)
		case len(s.Held()) > 0:
			r.Violate("stall/lock-held", fmt.Sprintf("mutex still held at the end: %v", s.Held()), detail)
		case badV != "":
			r.Violate("stall/frame", badV, detail)
		}
	})
	if t.Err != nil {
		r.Violate("harness/nondeterminism", t.Err.Error(), nil)
	}
	if t.Capped {
		r.NotExhaustive("stall exploration stopped by the internal deadline")
	}
	exec += t.Executions
	points += t.Points
	for o := range outcomes {
		r.Outcome("stall/" + o)
	}
	r.Extra["stall"+shardSuffix()] = map[string]any{"executions": exec, "choice_points": points, "stall_at_write": "0..2", "deviation_bound": bound}
	return exec, points
}
