package c11

import (
	"fmt"
	"sync"
	"time"

	"Havoc/cmd/server"
	"Havoc/pkg/events"
	"Havoc/pkg/handlers"
	"Havoc/pkg/packager"

	"verifmc/ev"
	"verifmc/fake"
	"verifmc/seam"
)

// runFree is the auxiliary free-running race pass for the operator-facing side (C06 and
// C11 share it): two operators log in through the real per-connection handler on
// blocking scripted websocket connections, while a listener goroutine registers an agent
// and checks in, a second goroutine records and broadcasts console events, a listener is
// added and removed, and one operator's peer goes away - on real goroutines in a binary
// built with the race detector (plain build).  It decides nothing; tools/race_report.py
// compares the reported locations with the scheduling points of the instrumented build.
func runFree(r *ev.Run) {
	for it := 0; it < 30; it++ {
		ts := seam.New(seam.Options{})
		join := func(id, user, pw string) *fake.WS {
			u := fake.NewWS(id)
			u.Raw.Blocking = true
			ts.T.Clients.Store(id, &server.Client{ClientID: id, GlobalIP: "10.1.1.1:5", Connection: u.Conn, Packager: packager.NewPackager()})
			u.SendText(fmt.Sprintf(`{"Head":{"Event":1,"User":"%s"},"Body":{"SubEvent":3,"Info":{"User":"%s","Password":"%s"}}}`, user, user, digest(pw)))
			return u
		}
		var wg sync.WaitGroup
		run := func(f func()) {
			wg.Add(1)
			go func() {
				defer wg.Done()
				defer func() { recover() }()
				f()
			}()
		}
		u := join("U", "op1", "pw1")
		v := join("V", "op2", "pw2")
		run(func() { ts.T.VerifHandleRequest("U") })
		run(func() { ts.T.VerifHandleRequest("V") })
		run(func() {
			ts.Register(idA, 1)
			for i := 0; i < 10; i++ {
				ts.CheckIn(idA, 1)
			}
		})
		run(func() {
			for i := 0; i < 10; i++ {
				pk := events.ChatLog.NewUserConnected(fmt.Sprintf("x%d", i))
				ts.T.EventAppend(pk)
				ts.T.EventBroadcast("", pk)
			}
		})
		run(func() {
			ts.T.ListenerStart(handlers.LISTENER_PIVOT_SMB, handlers.SMBConfig{Name: "L1", PipeName: "p"})
			time.Sleep(time.Millisecond)
			dispatch(ts.T, packager.Type.Listener.Type, packager.Type.Listener.Remove, map[string]any{"Name": "L1"})
		})
		run(func() {
			time.Sleep(time.Duration(it%4) * time.Millisecond)
			u.Raw.ClosePeer()
		})
		time.Sleep(30 * time.Millisecond)
		v.Raw.ClosePeer()
		done := make(chan struct{})
		go func() { wg.Wait(); close(done) }()
		select {
		case <-done:
		case <-time.After(5 * time.Second):
		}
		ts.Close()
		r.Eval(1)
	}
	r.NotExhaustive("free-running race pass: auxiliary, samples schedules; decides nothing")
}
