// Package c11: "Operators get the full event stream in order; a dead one blocks nobody".
package c11

import (
	"Havoc/pkg/agent"
	"encoding/base64"
	"encoding/hex"
	"encoding/json"
	"errors"
	"fmt"
	"strings"
	"time"
	"verifmc/demonwire"

	"Havoc/cmd/server"
	"Havoc/pkg/handlers"
	"Havoc/pkg/packager"

	"golang.org/x/crypto/sha3"

	"verifmc/ev"
	"verifmc/explore"
	"verifmc/fake"
	"verifmc/par"
	"verifmc/seam"
	"verifmc/vsched"
)

func digest(pw string) string {
	h := sha3.New256()
	h.Write([]byte(pw))
	return hex.EncodeToString(h.Sum(nil))
}

const (
	idA = 0xa001
	idB = 0xb002
	idC = 0xc003
)

// tagOf reduces a package to what identifies the event for the oracle.
func tagOf(pk packager.Package) string {
	s := func(k string) string { return fmt.Sprint(pk.Body.Info[k]) }
	switch [2]int{pk.Head.Event, pk.Body.SubEvent} {
	case [2]int{1, 1}:
		return "auth-ok"
	case [2]int{1, 2}:
		return "auth-err"
	case [2]int{7, 4}:
		out, _ := base64.StdEncoding.DecodeString(s("Output"))
		var m map[string]string
		json.Unmarshal(out, &m)
		msg := m["Message"]
		if msg == "" {
			msg = "?"
		}
		if s("CommandID") == "10" {
			return "callin:" + s("DemonID")
		}
		return "out:" + s("DemonID") + ":" + msg
	case [2]int{7, 1}:
		return "new:" + s("NameID")
	case [2]int{7, 5}:
		return "mark:" + s("AgentID") + ":" + s("Marked")
	case [2]int{4, 4}:
		return "user+:" + s("User")
	case [2]int{4, 5}:
		return "user-:" + s("User")
	case [2]int{4, 1}:
		return "chat:" + s("Message")
	case [2]int{2, 1}:
		return "ladd:" + s("Name") + ":" + s("Status")
	case [2]int{2, 3}:
		return "lrm:" + s("Name")
	case [2]int{2, 5}:
		return "lerr:" + s("Name")
	}
	return fmt.Sprintf("ev:%d/%d", pk.Head.Event, pk.Body.SubEvent)
}

type cli struct {
	id, user, pass string
	ws             *fake.WS
	expected       []string
	connected      bool
	opened         bool // upgraded and registered, first message not sent yet
	done           bool
}

type world struct {
	ts        *seam.TS
	s         *vsched.Sched
	clients   map[string]*cli
	order     []string
	retained  []string
	agents    []uint32
	active    map[uint32]bool
	listeners map[string]bool
	n         int
	// a failed connection has no effect in the model; whether one happened while somebody
	// was connected or between upgrade and login is still part of the state key, or the
	// search would merge "V opened" with "V opened, then a stranger failed" and never
	// look at V's login after the stranger
	strays map[string]bool
}

func newWorld() *world {
	ts := seam.New(seam.Options{})
	ts.MustRegister(idA, 1)
	w := &world{ts: ts, clients: map[string]*cli{}, agents: []uint32{idA}, active: map[uint32]bool{idA: true}, listeners: map[string]bool{}}
	for _, u := range []struct{ id, user, pass string }{{"U", "op1", "pw1"}, {"V", "op2", "pw2"}} {
		w.clients[u.id] = &cli{id: u.id, user: u.user, pass: u.pass}
		w.order = append(w.order, u.id)
	}
	return w
}

func (w *world) hasAgent(id uint32) bool {
	for _, a := range w.agents {
		if a == id {
			return true
		}
	}
	return false
}

func (w *world) authed() []*cli {
	var out []*cli
	for _, id := range w.order {
		if w.clients[id].connected {
			out = append(out, w.clients[id])
		}
	}
	return out
}

func (w *world) bcast(tag string, except string) {
	for _, c := range w.authed() {
		if c.id != except {
			c.expected = append(c.expected, tag)
		}
	}
}

func idle(c *fake.Conn) bool { return c.Waiting && len(c.PendingIn()) == 0 }

type op struct {
	name string
	arg  string
}

func alphabet() []op {
	return []op{
		{"console", ""}, {"connect", "U"}, {"connect", "V"}, {"disconnect", "U"}, {"disconnect", "V"},
		{"chat", "U"}, {"ladd", "n1"}, {"lrm", "n1"}, {"register", ""}, {"markdead", "A"}, {"lerr", "n1"}, {"ladd", "n2"}, {"checkin", ""},
		{"pivot-register", ""},
		// a login in two steps (the websocket is up and registered, the first message comes
		// later), and connections that fail before they ever log in: they may disturb nobody,
		// in particular not a connection that is between its upgrade and its login
		{"open", "V"}, {"login", "V"}, {"stray-close", ""}, {"stray-unknown-user", ""},
		// an authenticated operator sends a frame that is no event at all ({} / plain text):
		// nothing is recorded or distributed, and everything afterwards works as before
		{"junk-object", "U"}, {"junk-text", "V"},
	}
}

func (w *world) enabled() []int {
	var out []int
	for i, o := range alphabet() {
		switch o.name {
		case "connect", "open":
			if w.clients[o.arg].connected || w.clients[o.arg].opened {
				continue
			}
		case "login":
			if !w.clients[o.arg].opened {
				continue
			}
		case "disconnect":
			if !w.clients[o.arg].connected && !w.clients[o.arg].opened {
				continue
			}
		case "chat", "junk-object", "junk-text":
			if !w.clients[o.arg].connected {
				continue
			}
		case "register":
			if w.active[idB] || w.hasAgent(idB) {
				continue
			}
		case "pivot-register":
			if w.hasAgent(idC) || !w.active[idA] {
				continue
			}
		}
		out = append(out, i)
	}
	return out
}

func dispatch(t *server.Teamserver, ev, sub int, info map[string]any) {
	t.DispatchEvent(packager.Package{Head: packager.Head{Event: ev, User: "op1"}, Body: packager.Body{SubEvent: sub, Info: info}})
}

// apply runs in the driver thread (managed by the scheduler).
func (w *world) apply(o op) {
	t := w.ts.T
	w.n++
	switch o.name {
	case "console":
		msg := fmt.Sprintf("m%d", w.n)
		t.AgentConsole(fmt.Sprintf("%08x", idA), 0x80, map[string]string{"Type": "Good", "Message": msg})
		tag := fmt.Sprintf("out:%08x:%s", idA, msg)
		w.retained = append(w.retained, tag)
		w.bcast(tag, "")
	case "connect", "open", "login":
		c := w.clients[o.arg]
		if o.name != "login" {
			c.ws = fake.NewWS(c.id)
			c.done = false
			c.expected = nil
			t.Clients.Store(c.id, &server.Client{GlobalIP: "10.1.1.1:5", Connection: c.ws.Conn, Packager: packager.NewPackager()})
		}
		if o.name == "open" {
			vsched.Go(func() { t.VerifHandleRequest(c.id); c.done = true })
			w.s.Block("driver waits for "+c.id, func() bool { return idle(c.ws.Raw) || c.done })
			c.opened = true
			break
		}
		login, _ := json.Marshal(map[string]any{"Head": map[string]any{"Event": 1, "User": c.user}, "Body": map[string]any{"SubEvent": 3, "Info": map[string]any{"User": c.user, "Password": digest(c.pass)}}})
		c.ws.SendText(string(login))
		if o.name == "connect" {
			vsched.Go(func() { t.VerifHandleRequest(c.id); c.done = true })
		}
		c.opened = false
		w.s.Block("driver waits for "+c.id, func() bool { return idle(c.ws.Raw) || c.done })
		// model
		c.expected = append(c.expected, "auth-ok")
		nu := "user+:" + c.user
		w.retained = append(w.retained, nu)
		w.bcast(nu, c.id)
		c.connected = true
		c.expected = append(c.expected, w.retained...)
		for _, a := range w.agents {
			if w.active[a] {
				c.expected = append(c.expected, fmt.Sprintf("new:%08x", a))
			}
		}
	case "stray-close", "stray-unknown-user":
		// a connection of nobody: it goes away before its first message, or names a user the
		// profile does not know.  Model: no effect on anybody.
		id := fmt.Sprintf("W%d", w.n)
		if len(w.authed()) > 0 || w.clients["V"].opened || w.clients["U"].opened {
			if w.strays == nil {
				w.strays = map[string]bool{}
			}
			w.strays[o.name] = true
		}
		ws := fake.NewWS(id)
		done := false
		t.Clients.Store(id, &server.Client{GlobalIP: "10.9.9.9:5", Connection: ws.Conn, Packager: packager.NewPackager()})
		if o.name == "stray-unknown-user" {
			login, _ := json.Marshal(map[string]any{"Head": map[string]any{"Event": 1, "User": "mallory"}, "Body": map[string]any{"SubEvent": 3, "Info": map[string]any{"User": "mallory", "Password": digest("pw1")}}})
			ws.SendText(string(login))
		}
		vsched.Go(func() { t.VerifHandleRequest(id); done = true })
		w.s.Block("driver waits for "+id, func() bool { return idle(ws.Raw) || done })
		ws.Raw.ClosePeer()
		w.s.Block("driver waits for end of "+id, func() bool { return done })
	case "disconnect":
		c := w.clients[o.arg]
		c.ws.Raw.ClosePeer()
		w.s.Block("driver waits for end of "+c.id, func() bool { return c.done })
		if c.opened { // never logged in: nobody is told
			c.opened = false
			break
		}
		c.connected = false
		tag := "user-:" + c.user
		w.retained = append(w.retained, tag)
		w.bcast(tag, c.id)
	case "junk-object", "junk-text":
		c := w.clients[o.arg]
		if o.name == "junk-object" {
			c.ws.SendText("{}")
		} else {
			c.ws.SendText("hello, not json")
		}
		w.s.Block("driver waits for "+c.id, func() bool { return idle(c.ws.Raw) || c.done })
		if w.strays == nil {
			w.strays = map[string]bool{}
		}
		w.strays[o.name] = true // no effect in the model, but part of the state key (see strays)
	case "chat":
		c := w.clients[o.arg]
		msg := fmt.Sprintf("c%d", w.n)
		b, _ := json.Marshal(map[string]any{"Head": map[string]any{"Event": 4, "User": c.user}, "Body": map[string]any{"SubEvent": 1, "Info": map[string]any{"User": c.user, "Message": msg}}})
		c.ws.SendText(string(b))
		w.s.Block("driver waits for "+c.id, func() bool { return idle(c.ws.Raw) || c.done })
		tag := "chat:" + msg
		w.retained = append(w.retained, tag)
		w.bcast(tag, "")
	case "ladd":
		err := t.ListenerStart(handlers.LISTENER_PIVOT_SMB, handlers.SMBConfig{Name: o.arg, PipeName: "p"})
		if !w.listeners[o.arg] {
			if err != nil {
				panic("model: listener start failed: " + err.Error())
			}
			w.listeners[o.arg] = true
			tag := "ladd:" + o.arg + ":Online"
			w.retained = append(w.retained, tag)
			w.bcast(tag, "")
		}
	case "lrm":
		dispatch(t, packager.Type.Listener.Type, packager.Type.Listener.Remove, map[string]any{"Name": o.arg})
		if w.listeners[o.arg] {
			delete(w.listeners, o.arg)
			for i, r := range w.retained {
				if strings.HasPrefix(r, "ladd:"+o.arg+":") {
					w.retained = append(append([]string{}, w.retained[:i]...), w.retained[i+1:]...)
					break
				}
			}
		}
		tag := "lrm:" + o.arg
		w.retained = append(w.retained, tag)
		w.bcast(tag, "")
	case "lerr":
		t.EventListenerError(o.arg, errors.New("listen: boom"))
		tag := "lerr:" + o.arg
		w.retained = append(w.retained, tag)
		w.bcast(tag, "")
		for i, r := range w.retained {
			if strings.HasPrefix(r, "ladd:"+o.arg+":") {
				w.retained[i] = "ladd:" + o.arg + ":Offline"
			}
		}
	case "register":
		w.ts.Register(idB, 2)
		w.agents = append(w.agents, idB)
		w.active[idB] = true
		w.bcast(fmt.Sprintf("new:%08x", idB), "")
	case "pivot-register":
		// a new session behind A: A relays the registration of C in an SMB connect callback
		b := &demonwire.W{}
		b.I32(agent.DEMON_PIVOT_SMB_CONNECT).I32(1).Bytes(demonwire.Register(idC, seam.Key(3), seam.IV(3), demonwire.DefaultMeta(idC)))
		w.ts.CheckIn(idA, 1, demonwire.Sub{Cmd: agent.COMMAND_PIVOT, Body: b.B})
		w.agents = append(w.agents, idC)
		w.active[idC] = true
		// in the order the teamserver produces them: A's call-in notice, the one-shot new-session
		// event of C, and a retained console line on A
		w.bcast(fmt.Sprintf("callin:%08x", idA), "")
		w.bcast(fmt.Sprintf("new:%08x", idC), "")
		line := fmt.Sprintf("out:%08x:[SMB] Connected to pivot agent [%08x]-<>-<>-[%08x]", idA, idA, idC)
		w.retained = append(w.retained, line)
		w.bcast(line, "")
	case "markdead":
		dispatch(t, packager.Type.Session.Type, packager.Type.Session.MarkAsDead, map[string]any{"AgentID": fmt.Sprintf("%08x", idA), "Marked": "Dead"})
		w.active[idA] = false
		if w.hasAgent(idC) {
			w.active[idC] = false // a session behind a dead one is unreachable: it is flagged with its parent
		}
		tag := fmt.Sprintf("mark:%08x:Dead", idA)
		w.retained = append(w.retained, tag)
		w.bcast(tag, "")
	case "checkin":
		// an agent request: its last-call-in notice is broadcast but not retained
		w.ts.CheckIn(idA, 1)
		w.bcast(fmt.Sprintf("callin:%08x", idA), "")
	}
}

func received(c *cli) ([]string, string) {
	frames, rest := c.ws.Frames()
	var out []string
	for _, f := range frames {
		if f.Opcode == 8 {
			continue
		}
		if !f.Fin || f.Opcode != 2 {
			return out, fmt.Sprintf("frame with opcode %d fin=%v: an event must be one whole binary frame", f.Opcode, f.Fin)
		}
		var pk packager.Package
		if err := json.Unmarshal(f.Payload, &pk); err != nil {
			return out, "frame does not hold one whole JSON package: " + err.Error()
		}
		out = append(out, tagOf(pk))
	}
	if rest != 0 {
		return out, fmt.Sprintf("%d trailing bytes do not form a whole frame", rest)
	}
	return out, ""
}

func (w *world) check() (string, string) {
	for _, id := range w.order {
		c := w.clients[id]
		if c.ws != nil && c.opened {
			if got, _ := received(c); len(got) > 0 {
				return "extra-event", fmt.Sprintf("connection %s has not logged in yet and received %v", id, got)
			}
		}
		if c.ws == nil || !c.connected {
			continue
		}
		got, bad := received(c)
		if bad != "" {
			return "frame", id + ": " + bad
		}
		if strings.Join(got, "|") != strings.Join(c.expected, "|") {
			return classify(got, c.expected), fmt.Sprintf("operator %s received %v, the event-log model says %v", id, got, c.expected)
		}
	}
	// the retained log itself
	var log []string
	for _, e := range w.ts.T.EventsList {
		log = append(log, tagOf(e))
	}
	if strings.Join(log, "|") != strings.Join(w.retained, "|") {
		return "retained-log", fmt.Sprintf("retained events are %v, the model says %v", log, w.retained)
	}
	return "", ""
}

func classify(got, want []string) string {
	if len(got) < len(want) {
		return "missing-event"
	}
	if len(got) > len(want) {
		return "extra-event"
	}
	return "order-or-content"
}

func (w *world) key() string {
	var cs []string
	for _, c := range w.authed() {
		cs = append(cs, c.id)
	}
	for _, id := range w.order {
		if w.clients[id].opened {
			cs = append(cs, id+"(opened)")
		}
	}
	// content markers (m12, c7) are renamed away: the oracle never depends on them
	var ret []string
	for _, r := range w.retained {
		if i := strings.LastIndex(r, ":"); i >= 0 && (strings.HasPrefix(r, "out:") || strings.HasPrefix(r, "chat:")) {
			r = r[:i]
		}
		ret = append(ret, r)
	}
	if len(w.authed()) == 0 && !w.clients["V"].opened && !w.clients["U"].opened {
		w.strays = nil // nobody left whom an earlier stranger could have disturbed
	}
	// the shape of the implementation's own tables rides along (a function of the above as
	// long as they follow the model: it adds no states then, and keeps apart states in which
	// they do not - merged, such a state would never be looked at again)
	nClients := 0
	w.ts.T.Clients.Range(func(_, _ any) bool { nClients++; return true })
	w.ts.T.EventsMtx.Lock()
	nEvents := len(w.ts.T.EventsList)
	w.ts.T.EventsMtx.Unlock()
	return fmt.Sprintf("%v|%v|%v|%v|%v|impl:%d,%d", ret, cs, w.active, w.listeners, w.strays, nClients, nEvents-len(w.retained))
}

// runHistory replays hist under the scheduler with the default schedule and checks the
// oracle after every op.
func runHistory(r *ev.Run, hist []int) (string, []int, bool) {
	alpha := alphabet()
	w := newWorld()
	defer w.ts.Close()
	c, _ := explore.Replay(nil, func(*explore.Chooser) {})
	w.s = vsched.New(c, 200000)
	ok := true
	var hn []string
	w.s.Spawn("driver", func() {
		for i, oi := range hist {
			o := alpha[oi]
			hn = append(hn, o.name+"("+o.arg+")")
			w.apply(o)
			clause, what := w.check()
			if clause != "" {
				if i == len(hist)-1 {
					r.Violate("hist/"+clause+"/after:"+o.name, what, map[string]any{"history": hn})
				}
				ok = false
				break
			}
			if i == len(hist)-1 {
				r.Outcome("hist/ok/" + o.name)
			}
		}
		// let every handler finish
		for _, id := range w.order {
			if c := w.clients[id]; c.ws != nil {
				c.ws.Raw.ClosePeer()
			}
		}
	})
	w.s.Run()
	r.Eval(1)
	if len(w.s.Panics) > 0 {
		r.Violate("hist/panic/"+ev.Normalize(w.s.Panics[0]), w.s.Panics[0], map[string]any{"history": hn})
		return "", nil, false
	}
	if w.s.Deadlock {
		r.Violate("hist/deadlock", w.s.DeadlockWhy, map[string]any{"history": hn})
		return "", nil, false
	}
	if w.s.HorizonHit {
		r.Violate("hist/horizon", "history did not finish within the horizon", map[string]any{"history": hn})
		return "", nil, false
	}
	if held := w.s.Held(); len(held) > 0 {
		r.Violate("hist/lock-held", fmt.Sprint(held), map[string]any{"history": hn})
		return "", nil, false
	}
	if !ok {
		return "", nil, false
	}
	if r.WantSample() && len(hist) >= 3 {
		r.Sample(map[string]any{"history": hn})
	}
	return w.key(), w.enabled(), true
}

func runHistories(r *ev.Run) par.BFSResult {
	depth := 4
	dl := 60 * time.Second
	if r.Thorough() {
		depth = 6
		dl = 12 * time.Minute
	}
	r.Bounds["history_depth"] = depth
	res := par.BFS(r, "c11hist", depth, par.Workers(), time.Now().Add(dl), func(h []int) (string, []int, bool) { return runHistory(r, h) })
	return res
}
