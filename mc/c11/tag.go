package c11

import "verifmc/par"

func parTag() string { return par.InBFSWorker() }
