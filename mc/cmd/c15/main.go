package main

import (
	"os"

	"verifmc/c15"
	"verifmc/ev"
)

func main() {
	r := ev.New("C15", "model_checking")
	c15.Run(r)
	os.Exit(r.Finish())
}
