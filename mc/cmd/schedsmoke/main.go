package main

import (
	"fmt"

	"Havoc/pkg/agent"

	"verifmc/explore"
	"verifmc/seam"
	"verifmc/vsched"
)

func main() {
	fmt.Println("instrumented:", vsched.Instrumented)
	outcomes := map[string]int{}
	t := explore.Tree{Bound: 2}
	t.Run(func(c *explore.Chooser) {
		a := &agent.Agent{NameID: "00000001", Info: &agent.AgentInfo{}}
		s := vsched.New(c, 500, "JobQueue", "Tasks")
		var got []agent.Job
		s.Spawn("op", func() {
			a.AddJobToQueue(agent.Job{Command: 1, RequestID: 1})
			a.AddJobToQueue(agent.Job{Command: 1, RequestID: 2})
		})
		s.Spawn("relay", func() { a.AddJobToQueue(agent.Job{Command: 1, RequestID: 3}) })
		s.Spawn("listener", func() {
			got = append(got, a.GetQueuedJobs()...)
			got = append(got, a.GetQueuedJobs()...)
		})
		s.Run()
		key := fmt.Sprint("got=", ids(got), " rest=", ids(a.JobQueue), " dl=", s.Deadlock, " hz=", s.HorizonHit, s.Panics)
		outcomes[key]++
	})
	fmt.Println("executions", t.Executions, "err", t.Err)
	for k, v := range outcomes {
		fmt.Println(v, k)
	}
	_ = seam.Quiet
}

func ids(js []agent.Job) []uint32 {
	var o []uint32
	for _, j := range js {
		o = append(o, j.RequestID)
	}
	return o
}
