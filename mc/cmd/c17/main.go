// Command c17 checks property C17: the yaotl parsers accept any input without crashing
// and report sane positions.  See /verif/notes/C17.md.
package main

import (
	"os"

	"verifmc/c17"
	"verifmc/ev"
)

func main() {
	if c17.SingleInputMode() {
		return
	}
	r := ev.New("C17", "exploration")
	c17.Run(r)
	os.Exit(r.Finish())
}
