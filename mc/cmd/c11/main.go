package main

import (
	"os"

	"verifmc/c11"
	"verifmc/ev"
)

func main() {
	r := ev.New("C11", "model_checking")
	c11.Run(r)
	os.Exit(r.Finish())
}
