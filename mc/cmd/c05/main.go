package main

import (
	"os"

	"verifmc/c05"
	"verifmc/ev"
)

func main() {
	r := ev.New("C05", "model_checking")
	c05.Run(r)
	os.Exit(r.Finish())
}
