package main

import (
	"os"
	"strconv"

	"verifmc/c19"
	"verifmc/ev"
)

func main() {
	for i, a := range os.Args[1:] {
		if a == "--replay" && i+2 < len(os.Args) {
			os.Exit(c19.Replay(os.Args[i+2]))
		}
	}
	if len(os.Args) >= 4 && os.Args[1] == "--dump" {
		n, _ := strconv.Atoi(os.Args[3])
		c19.Dump(os.Args[2], n, os.Getenv("VERIF_TIER") == "thorough")
		return
	}
	r := ev.New("C19", "exploration")
	c19.Run(r)
	os.Exit(r.Finish())
}
