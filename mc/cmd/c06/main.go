package main

import (
	"os"

	"verifmc/c06"
	"verifmc/ev"
)

func main() {
	r := ev.New("C06", "model_checking")
	c06.Run(r)
	os.Exit(r.Finish())
}
