package main

import (
	"os"

	"verifmc/c04"
	"verifmc/ev"
)

func main() {
	r := ev.New("C04", "model_checking")
	c04.Run(r)
	os.Exit(r.Finish())
}
