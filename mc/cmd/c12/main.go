package main

import (
	"os"

	"verifmc/c12"
	"verifmc/ev"
)

func main() {
	r := ev.New("C12", "exploration")
	c12.Run(r)
	os.Exit(r.Finish())
}
