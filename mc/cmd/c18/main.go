// Command c18 checks property C18 (yaotl expressions and templates evaluate as the
// language defines).  Extra flags for debugging:
//   c18 --expr '<source>'      evaluate source with the real code as an expression
//   c18 --template '<source>'  ... as a bare template
//   c18 --attr '<source>'      ... as the value of an attribute in a body
package main

import (
	"fmt"
	"os"

	"verifmc/c18"
	"verifmc/ev"
)

func main() {
	if len(os.Args) == 3 {
		switch os.Args[1] {
		case "--expr":
			fmt.Println(c18.Explain(os.Args[2], c18.AsExpr))
			return
		case "--template":
			fmt.Println(c18.Explain(os.Args[2], c18.AsTemplate))
			return
		case "--attr":
			fmt.Println(c18.Explain(os.Args[2], c18.AsAttr))
			return
		}
	}
	r := ev.New("C18", "exploration")
	c18.Run(r)
	os.Exit(r.Finish())
}
