package main

import (
	"os"

	"verifmc/c08"
	"verifmc/ev"
)

func main() {
	r := ev.New("C08", "exploration")
	c08.Run(r)
	os.Exit(r.Finish())
}
