package main

import (
	"os"

	"verifmc/c13"
	"verifmc/ev"
)

func main() {
	r := ev.New("C13", "exploration")
	c13.Run(r)
	os.Exit(r.Finish())
}
