package main

import (
	"os"

	"verifmc/c10"
	"verifmc/ev"
)

func main() {
	r := ev.New("C10", "fault_enumeration")
	c10.Main(r) // worker / restore modes never return
	os.Exit(r.Finish())
}
