package main

import (
	"os"

	"verifmc/c20"
	"verifmc/ev"
)

func main() {
	r := ev.New("C20", "model_checking")
	c20.Run(r)
	os.Exit(r.Finish())
}
