package main

import (
	"fmt"

	"verifmc/demonwire"
	"verifmc/seam"
)

func main() {
	ts := seam.New(seam.Options{})
	defer ts.Close()
	r := ts.Register(0x1234, 1)
	fmt.Println("register", r.Status, len(r.Body), r.Panic)
	fmt.Println(ts.Rec.Take())
	p := ts.Task(0x1234, "0000abcd", 11, map[string]any{"Arguments": "5;10"})
	fmt.Println("task panic", p, len(ts.Agent(0x1234).JobQueue))
	res, tasks, err := ts.CheckIn(0x1234, 1)
	fmt.Println(res.Status, tasks, err)
	fmt.Println(seam.Significant(ts.Rec.Take()))
	w := &demonwire.W{}
	w.I32(7).I32(3)
	res, tasks, err = ts.CheckIn(0x1234, 1, demonwire.Sub{Cmd: 11, ReqID: 0xabcd, Body: w.B})
	fmt.Println(res.Status, tasks, err, seam.Significant(ts.Rec.Take()))
	fmt.Println(ts.Snap(true))
}
