package main

import (
	"os"

	"verifmc/c03"
	"verifmc/ev"
)

func main() {
	r := ev.New("C03", "exploration")
	c03.Run(r)
	os.Exit(r.Finish())
}
