package main

import (
	"os"

	"verifmc/c01"
	"verifmc/ev"
)

func main() {
	r := ev.New("C01", "exploration")
	c01.Run(r) // in an executor process (see c01/supervise.go) this does not return
	os.Exit(r.Finish())
}
