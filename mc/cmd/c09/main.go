package main

import (
	"os"

	"verifmc/c09"
	"verifmc/ev"
)

func main() {
	r := ev.New("C09", "model_checking")
	c09.Run(r)
	os.Exit(r.Finish())
}
