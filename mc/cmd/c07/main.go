package main

import (
	"os"
	"runtime/pprof"

	"verifmc/c07"
	"verifmc/ev"
)

func main() {
	// model_checking: the deciding part for the content clause is an explicit-state
	// search over transfer histories with a reference model, every transition executed
	// on the real teamserver; the containment clause is an exhaustive name product.
	if p := os.Getenv("VERIF_C07_PROF"); p != "" {
		f, _ := os.Create(p)
		pprof.StartCPUProfile(f)
		defer pprof.StopCPUProfile()
	}
	r := ev.New("C07", "model_checking")
	c07.Run(r)
	if os.Getenv("VERIF_C07_UNIT") != "" {
		return // worker: partial result already written
	}
	code := r.Finish()
	if code == 0 && c07.HarnessError {
		code = 2
	}
	os.Exit(code)
}
