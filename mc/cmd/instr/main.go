// instr generates the "sched" overlay: instrumented copies of the concurrency-relevant
// packages of the repository's current working tree (DESIGN.md §3.1).
//
//	sync      -> verifmc/vsync      (every lock operation a scheduling point)
//	math/rand -> verifmc/vrand      (deterministic)
//	go f(x)   -> vsched.Go(...)     (arguments evaluated eagerly, as the go statement does)
//	vsched.Point("Field,..@file:line") before every statement that mentions a tracked
//	          field (fields of the shared struct types, derived from the tree)
//	read-modify-write splitting of assignments that read and write the same tracked
//	          field (the atomicity Go gives an unsynchronised statement: none)
//	vsched.Tick(spin) at the top of every loop body
package main

import (
	"bytes"
	"encoding/json"
	"flag"
	"fmt"
	"go/ast"
	"go/format"
	"go/parser"
	"go/token"
	"os"
	"path/filepath"
	"sort"
	"strconv"
	"strings"
)

var pkgs = []string{"pkg/agent", "pkg/handlers", "cmd/server", "pkg/service", "pkg/socks"}

// struct types whose fields are shared between goroutines
var trackedTypes = map[string]bool{"Agent": true, "Pivots": true, "Teamserver": true, "Client": true, "Service": true,
	"ClientService": true, "Socks": true, "SocksClient": true, "PortFwd": true, "Download": true, "Agents": true, "SocksServer": true}

func main() {
	repo := flag.String("repo", "/repo", "repository root")
	out := flag.String("out", "", "output dir for rewritten sources")
	overlay := flag.String("overlay", "", "overlay json to write")
	plain := flag.String("plain", "", "plain overlay json to merge")
	flag.Parse()
	os.RemoveAll(*out)
	os.MkdirAll(*out, 0o755)
	repl := map[string]string{}
	if *plain != "" {
		var p struct{ Replace map[string]string }
		b, err := os.ReadFile(*plain)
		if err == nil && json.Unmarshal(b, &p) == nil {
			for k, v := range p.Replace {
				repl[k] = v
			}
		}
	}
	// pass 1: tracked field names from struct declarations of the current tree
	tracked := map[string]bool{}
	fset := token.NewFileSet()
	type pf struct {
		path string
		f    *ast.File
		pkg  string
	}
	var files []pf
	for _, p := range pkgs {
		dir := filepath.Join(*repo, "teamserver", p)
		ents, err := os.ReadDir(dir)
		if err != nil {
			fmt.Fprintln(os.Stderr, "instr:", err)
			os.Exit(1)
		}
		for _, e := range ents {
			n := e.Name()
			if !strings.HasSuffix(n, ".go") || strings.HasSuffix(n, "_test.go") {
				continue
			}
			path := filepath.Join(dir, n)
			f, err := parser.ParseFile(fset, path, nil, parser.ParseComments)
			if err != nil {
				fmt.Fprintln(os.Stderr, "instr: parse:", err)
				os.Exit(1)
			}
			files = append(files, pf{path, f, p})
			ast.Inspect(f, func(n ast.Node) bool {
				ts, ok := n.(*ast.TypeSpec)
				if !ok || !trackedTypes[ts.Name.Name] {
					return true
				}
				st, ok := ts.Type.(*ast.StructType)
				if !ok {
					return true
				}
				for _, fld := range st.Fields.List {
					ty := exprString(fld.Type)
					if strings.HasPrefix(ty, "sync.") {
						continue // lock operations are scheduling points themselves
					}
					for _, nm := range fld.Names {
						tracked[nm.Name] = true
					}
				}
				return true
			})
		}
	}
	// fields that are immutable after construction or pure configuration: not tracked
	for _, k := range []string{"NameID", "Info", "Encryption", "Profile", "Flags", "DB", "Server", "Settings", "WebHooks", "Config", "Teamserver", "engine", "Data", "Packager"} {
		delete(tracked, k)
	}
	var names []string
	for k := range tracked {
		names = append(names, k)
	}
	sort.Strings(names)
	os.WriteFile(filepath.Join(*out, "TRACKED"), []byte(strings.Join(names, "\n")+"\n"), 0o644)

	for _, x := range files {
		in := &instr{fset: fset, tracked: tracked, file: filepath.Base(x.path), vnet: x.pkg == "pkg/socks" || x.pkg == "pkg/agent"}
		in.rewriteFile(x.f)
		var buf bytes.Buffer
		x.f.Comments = keepDirectives(x.f)
		if err := format.Node(&buf, fset, x.f); err != nil {
			fmt.Fprintln(os.Stderr, "instr: print:", x.path, err)
			os.Exit(1)
		}
		dst := filepath.Join(*out, strings.ReplaceAll(x.pkg, "/", "_")+"_"+filepath.Base(x.path))
		os.WriteFile(dst, buf.Bytes(), 0o644)
		repl[x.path] = dst
	}
	// marker file so harnesses know they run instrumented code
	mk := filepath.Join(*out, "agent_verif_marker.go")
	os.WriteFile(mk, []byte("package agent\n\nimport \"verifmc/vsched\"\n\nfunc init() { vsched.MarkInstrumented() }\n"), 0o644)
	repl[filepath.Join(*repo, "teamserver", "pkg/agent", "verif_marker.go")] = mk
	b, _ := json.MarshalIndent(map[string]any{"Replace": repl}, "", " ")
	if err := os.WriteFile(*overlay, b, 0o644); err != nil {
		fmt.Fprintln(os.Stderr, err)
		os.Exit(1)
	}
}

// keepDirectives drops all comments (inserted statements have no positions and
// free-floating comments could end up inside them) except nothing: the instrumented
// packages carry no //go: directives or cgo preambles (checked here).
func keepDirectives(f *ast.File) []*ast.CommentGroup {
	for _, cg := range f.Comments {
		for _, c := range cg.List {
			if strings.HasPrefix(c.Text, "//go:") || strings.HasPrefix(c.Text, "// +build") {
				fmt.Fprintln(os.Stderr, "instr: directive comment would be lost:", c.Text)
				os.Exit(1)
			}
		}
	}
	return nil
}

func exprString(e ast.Expr) string {
	var b bytes.Buffer
	format.Node(&b, token.NewFileSet(), e)
	return b.String()
}

type instr struct {
	fset    *token.FileSet
	tracked map[string]bool
	file    string
	tmp     int
	needV   bool
	vnet    bool
}

func (in *instr) rewriteFile(f *ast.File) {
	// imports
	for _, im := range f.Imports {
		p, _ := strconv.Unquote(im.Path.Value)
		switch p {
		case "sync":
			im.Path.Value = `"verifmc/vsync"`
			if im.Name == nil {
				im.Name = ast.NewIdent("sync")
			}
		case "net":
			if in.vnet {
				im.Path.Value = `"verifmc/vnet"`
				if im.Name == nil {
					im.Name = ast.NewIdent("net")
				}
			}
		case "math/rand":
			im.Path.Value = `"verifmc/vrand"`
			if im.Name == nil {
				im.Name = ast.NewIdent("rand")
			}
		}
	}
	for _, d := range f.Decls {
		fd, ok := d.(*ast.FuncDecl)
		if !ok || fd.Body == nil {
			continue
		}
		in.block(fd.Body)
	}
	if in.needV {
		addImport(f, "verifmc/vsched", "vsched")
	}
}

func addImport(f *ast.File, path, name string) {
	spec := &ast.ImportSpec{Name: ast.NewIdent(name), Path: &ast.BasicLit{Kind: token.STRING, Value: strconv.Quote(path)}}
	gd := &ast.GenDecl{Tok: token.IMPORT, Specs: []ast.Spec{spec}}
	// after the last import decl (import "C" must stay first and alone)
	idx := 0
	for i, d := range f.Decls {
		if g, ok := d.(*ast.GenDecl); ok && g.Tok == token.IMPORT {
			idx = i + 1
		}
	}
	f.Decls = append(f.Decls[:idx], append([]ast.Decl{gd}, f.Decls[idx:]...)...)
	f.Imports = append(f.Imports, spec)
}

// mentions collects tracked field names mentioned in e, not descending into function
// literals (their bodies are instrumented on their own).
func (in *instr) mentions(n ast.Node, set map[string]bool) {
	if n == nil {
		return
	}
	ast.Inspect(n, func(x ast.Node) bool {
		switch v := x.(type) {
		case *ast.FuncLit:
			return false
		case *ast.SelectorExpr:
			if in.tracked[v.Sel.Name] {
				set[v.Sel.Name] = true
			}
		}
		return true
	})
}

func (in *instr) funcLits(n ast.Node) {
	if n == nil {
		return
	}
	ast.Inspect(n, func(x ast.Node) bool {
		if fl, ok := x.(*ast.FuncLit); ok {
			in.block(fl.Body)
			return false
		}
		return true
	})
}

func (in *instr) loc(set map[string]bool, pos token.Pos) string {
	var ns []string
	for k := range set {
		ns = append(ns, k)
	}
	sort.Strings(ns)
	return fmt.Sprintf("%s@%s:%d", strings.Join(ns, ","), in.file, in.fset.Position(pos).Line)
}

func (in *instr) pointStmt(loc string) ast.Stmt {
	in.needV = true
	return &ast.ExprStmt{X: &ast.CallExpr{Fun: &ast.SelectorExpr{X: ast.NewIdent("vsched"), Sel: ast.NewIdent("Point")},
		Args: []ast.Expr{&ast.BasicLit{Kind: token.STRING, Value: strconv.Quote(loc)}}}}
}

func (in *instr) tickStmt(spin bool) ast.Stmt {
	in.needV = true
	v := "false"
	if spin {
		v = "true"
	}
	return &ast.ExprStmt{X: &ast.CallExpr{Fun: &ast.SelectorExpr{X: ast.NewIdent("vsched"), Sel: ast.NewIdent("Tick")},
		Args: []ast.Expr{ast.NewIdent(v)}}}
}

func (in *instr) block(b *ast.BlockStmt) {
	if b == nil {
		return
	}
	b.List = in.stmts(b.List)
}

func (in *instr) stmts(list []ast.Stmt) []ast.Stmt {
	var out []ast.Stmt
	for _, s := range list {
		out = append(out, in.stmt(s)...)
	}
	return out
}

// stmt returns the replacement statements for s (possibly preceded by a Point).
func (in *instr) stmt(s ast.Stmt) []ast.Stmt {
	set := map[string]bool{}
	switch v := s.(type) {
	case *ast.LabeledStmt:
		inner := in.stmt(v.Stmt)
		// keep the label on the last statement (the original), points go before the label
		v.Stmt = inner[len(inner)-1]
		return append(inner[:len(inner)-1], v)
	case *ast.BlockStmt:
		in.block(v)
		return []ast.Stmt{v}
	case *ast.IfStmt:
		in.ifStmt(v, set)
		return in.withPoint(set, v.Pos(), v)
	case *ast.ForStmt:
		if v.Init != nil {
			in.mentions(v.Init, set)
			in.funcLits(v.Init)
		}
		in.mentions(v.Cond, set)
		in.funcLits(v.Cond)
		in.block(v.Body)
		spin := v.Cond == nil && v.Init == nil && v.Post == nil
		v.Body.List = append([]ast.Stmt{in.tickStmt(spin)}, v.Body.List...)
		return in.withPoint(set, v.Pos(), v)
	case *ast.RangeStmt:
		in.mentions(v.X, set)
		in.funcLits(v.X)
		in.block(v.Body)
		v.Body.List = append([]ast.Stmt{in.tickStmt(false)}, v.Body.List...)
		return in.withPoint(set, v.Pos(), v)
	case *ast.SwitchStmt:
		if v.Init != nil {
			in.mentions(v.Init, set)
			in.funcLits(v.Init)
		}
		in.mentions(v.Tag, set)
		in.funcLits(v.Tag)
		for _, c := range v.Body.List {
			cc := c.(*ast.CaseClause)
			for _, e := range cc.List {
				in.funcLits(e)
			}
			cc.Body = in.stmts(cc.Body)
		}
		return in.withPoint(set, v.Pos(), v)
	case *ast.TypeSwitchStmt:
		in.mentions(v.Assign, set)
		for _, c := range v.Body.List {
			cc := c.(*ast.CaseClause)
			cc.Body = in.stmts(cc.Body)
		}
		return in.withPoint(set, v.Pos(), v)
	case *ast.SelectStmt:
		for _, c := range v.Body.List {
			cc := c.(*ast.CommClause)
			cc.Body = in.stmts(cc.Body)
		}
		return []ast.Stmt{v}
	case *ast.GoStmt:
		return in.goStmt(v)
	case *ast.AssignStmt:
		in.funcLits(v)
		return in.assign(v)
	case *ast.DeferStmt:
		in.funcLits(v.Call)
		return []ast.Stmt{v}
	default:
		in.mentions(s, set)
		in.funcLits(s)
		return in.withPoint(set, s.Pos(), s)
	}
}

func (in *instr) ifStmt(v *ast.IfStmt, set map[string]bool) {
	if v.Init != nil {
		in.mentions(v.Init, set)
		in.funcLits(v.Init)
	}
	in.mentions(v.Cond, set)
	in.funcLits(v.Cond)
	in.block(v.Body)
	switch e := v.Else.(type) {
	case *ast.BlockStmt:
		in.block(e)
	case *ast.IfStmt:
		// an else-if cannot be preceded by a statement: its condition's accesses are
		// attributed to the point before the whole chain
		in.ifStmt(e, set)
	}
}

func (in *instr) withPoint(set map[string]bool, pos token.Pos, s ast.Stmt) []ast.Stmt {
	if len(set) == 0 {
		return []ast.Stmt{s}
	}
	return []ast.Stmt{in.pointStmt(in.loc(set, pos)), s}
}

func (in *instr) newTmp() *ast.Ident {
	in.tmp++
	return ast.NewIdent(fmt.Sprintf("_vt%d", in.tmp))
}

// assign: Point before; if the statement both reads and writes the same tracked field
// (a.Q = append(a.Q, x); J, a.Q = a.Q[:n], a.Q[n:]) split it:
//
//	_t0, _t1 := <rhs>; vsched.Point(loc+"/w"); lhs = _t0, _t1
func (in *instr) assign(v *ast.AssignStmt) []ast.Stmt {
	set := map[string]bool{}
	in.mentions(v, set)
	if len(set) == 0 {
		return []ast.Stmt{v}
	}
	pre := in.pointStmt(in.loc(set, v.Pos()))
	if v.Tok != token.ASSIGN || len(v.Lhs) != len(v.Rhs) {
		return []ast.Stmt{pre, v}
	}
	// written tracked fields: LHS that is directly a selector of a tracked field
	written := map[string]bool{}
	for _, l := range v.Lhs {
		if se, ok := l.(*ast.SelectorExpr); ok && in.tracked[se.Sel.Name] {
			written[se.Sel.Name] = true
		}
	}
	if len(written) == 0 {
		return []ast.Stmt{pre, v}
	}
	read := map[string]bool{}
	for _, r := range v.Rhs {
		in.mentions(r, read)
	}
	rmw := map[string]bool{}
	for k := range written {
		if read[k] {
			rmw[k] = true
		}
	}
	if len(rmw) == 0 {
		return []ast.Stmt{pre, v}
	}
	for _, r := range v.Rhs {
		if id, ok := r.(*ast.Ident); ok && id.Name == "nil" {
			return []ast.Stmt{pre, v}
		}
	}
	var tmps []ast.Expr
	for range v.Rhs {
		tmps = append(tmps, in.newTmp())
	}
	def := &ast.AssignStmt{Lhs: tmps, Tok: token.DEFINE, Rhs: v.Rhs}
	wr := &ast.AssignStmt{Lhs: v.Lhs, Tok: token.ASSIGN, Rhs: append([]ast.Expr{}, tmps...)}
	mid := in.pointStmt(in.loc(rmw, v.Pos()) + "/w")
	return []ast.Stmt{pre, &ast.BlockStmt{List: []ast.Stmt{def, mid, wr}}}
}

// goStmt: go f(a, b) -> { _f := f; _a := a; _b := b; vsched.Go(func(){ _f(_a,_b) }) }
func (in *instr) goStmt(g *ast.GoStmt) []ast.Stmt {
	in.needV = true
	call := g.Call
	if fl, ok := call.Fun.(*ast.FuncLit); ok {
		in.block(fl.Body)
	}
	for _, a := range call.Args {
		in.funcLits(a)
	}
	var pre []ast.Stmt
	fn := call.Fun
	if _, isLit := fn.(*ast.FuncLit); !isLit || len(call.Args) > 0 {
		t := in.newTmp()
		pre = append(pre, &ast.AssignStmt{Lhs: []ast.Expr{t}, Tok: token.DEFINE, Rhs: []ast.Expr{fn}})
		fn = t
	}
	var args []ast.Expr
	for _, a := range call.Args {
		t := in.newTmp()
		pre = append(pre, &ast.AssignStmt{Lhs: []ast.Expr{t}, Tok: token.DEFINE, Rhs: []ast.Expr{a}})
		args = append(args, t)
	}
	inner := &ast.CallExpr{Fun: fn, Args: args, Ellipsis: call.Ellipsis}
	lit := &ast.FuncLit{Type: &ast.FuncType{Params: &ast.FieldList{}}, Body: &ast.BlockStmt{List: []ast.Stmt{&ast.ExprStmt{X: inner}}}}
	goCall := &ast.ExprStmt{X: &ast.CallExpr{Fun: &ast.SelectorExpr{X: ast.NewIdent("vsched"), Sel: ast.NewIdent("Go")}, Args: []ast.Expr{lit}}}
	return []ast.Stmt{&ast.BlockStmt{List: append(pre, goCall)}}
}
