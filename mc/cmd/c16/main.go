package main

import (
	"os"

	"verifmc/c16"
	"verifmc/ev"
)

func main() {
	r := ev.New("C16", "model_checking")
	c16.Run(r)
	os.Exit(r.Finish())
}
