package main

import (
	"os"

	"verifmc/c02"
	"verifmc/ev"
)

func main() {
	r := ev.New("C02", "exploration")
	c02.Run(r)
	os.Exit(r.Finish())
}
