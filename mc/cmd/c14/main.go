package main

import (
	"os"

	"verifmc/c14"
	"verifmc/ev"
)

func main() {
	r := ev.New("C14", "exploration")
	c14.Run(r)
	os.Exit(r.Finish())
}
