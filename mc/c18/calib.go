package c18

import (
	"fmt"
	"math/big"
	"os"
	"path/filepath"
	"regexp"
	"sort"
	"strings"
)

// Calibration: before the reference evaluator is used as an oracle it has to
// reproduce the implementation-agnostic expectations that are shipped in the tree:
//   specsuite/tests/expressions/{operators,primitive_literals,heredoc}.{hcl,t}
//   the expression examples of guide/go_expression_eval.rst and of the ext READMEs
// The expressions are read from those files at run time (a tiny reader for exactly
// the syntax used there: literals, one unary/binary/conditional operator, heredocs
// with ${name}); the expected values are read from the .t files.  Nothing of yaotl
// is involved.

type Calibration struct {
	Items    int
	Passed   int
	Failures []string
	Notes    []string
}

func (c *Calibration) failf(format string, a ...any) {
	c.Failures = append(c.Failures, fmt.Sprintf(format, a...))
}

// scoped reads "name = value" lines of an HCL-like file into path -> raw value text.
// Blocks `type "label" {`, `name = {` and `name {` open a scope.  Heredoc values keep
// their body verbatim ("<<EOT\n...").
func scoped(text string) map[string]string {
	out := map[string]string{}
	var stack []string
	lines := strings.Split(text, "\n")
	reBlock := regexp.MustCompile(`^\s*("[^"]*"|[^\s"={]+)\s*((?:"[^"]*"\s*)*)(=\s*)?\{\s*$`)
	reAttr := regexp.MustCompile(`^\s*("[^"]*"|[^\s"={]+)\s*=\s*(.*)$`)
	reClose := regexp.MustCompile(`^\}[)\s]*$`)
	for i := 0; i < len(lines); i++ {
		ln := lines[i]
		tr := strings.TrimSpace(ln)
		if tr == "" || strings.HasPrefix(tr, "#") {
			continue
		}
		if reClose.MatchString(tr) {
			if len(stack) > 0 {
				stack = stack[:len(stack)-1]
			}
			continue
		}
		if m := reBlock.FindStringSubmatch(ln); m != nil {
			name := strings.Trim(m[1], `"`)
			for _, lab := range regexp.MustCompile(`"([^"]*)"`).FindAllStringSubmatch(m[2], -1) {
				name += "/" + lab[1]
			}
			stack = append(stack, name)
			continue
		}
		if m := reAttr.FindStringSubmatch(ln); m != nil {
			name := strings.Trim(m[1], `"`)
			val := m[2]
			path := strings.Join(append(append([]string{}, stack...), name), "/")
			if strings.HasPrefix(val, "<<") {
				marker := strings.TrimLeft(val, "<-")
				body := val + "\n"
				for i++; i < len(lines); i++ {
					if strings.TrimSpace(lines[i]) == marker {
						break
					}
					body += lines[i] + "\n"
				}
				out[path] = body
				continue
			}
			if strings.HasSuffix(strings.TrimSpace(val), "({") || strings.HasSuffix(strings.TrimSpace(val), "(object({") {
				stack = append(stack, name)
				continue
			}
			out[path] = stripComment(val)
		}
	}
	return out
}

func stripComment(s string) string {
	inq := false
	for i := 0; i < len(s); i++ {
		switch s[i] {
		case '\\':
			if inq {
				i++
			}
		case '"':
			inq = !inq
		case '#':
			if !inq {
				return strings.TrimSpace(s[:i])
			}
		}
	}
	return strings.TrimSpace(s)
}

// ---- the tiny expression reader -------------------------------------------------------

type miniLexer struct {
	toks []string
	pos  int
}

var reTok = regexp.MustCompile(`^(\s+|"(?:[^"\\]|\\.)*"|[0-9]+(?:\.[0-9]+)?(?:[eE][+-]?[0-9]+)?|[A-Za-z_][A-Za-z0-9_]*|==|!=|<=|>=|&&|\|\||[-+*/%<>!?:(),.])`)

func miniLex(s string) ([]string, error) {
	var toks []string
	for len(s) > 0 {
		m := reTok.FindString(s)
		if m == "" {
			return nil, fmt.Errorf("cannot read %q", s)
		}
		s = s[len(m):]
		if strings.TrimSpace(m) != "" {
			toks = append(toks, m)
		}
	}
	return toks, nil
}

func (l *miniLexer) peek() string {
	if l.pos < len(l.toks) {
		return l.toks[l.pos]
	}
	return ""
}
func (l *miniLexer) next() string { t := l.peek(); l.pos++; return t }

func unquote(tok string) (string, error) {
	body := tok[1 : len(tok)-1]
	var sb strings.Builder
	for i := 0; i < len(body); i++ {
		if body[i] != '\\' {
			sb.WriteByte(body[i])
			continue
		}
		i++
		switch body[i] {
		case 'n':
			sb.WriteByte('\n')
		case 't':
			sb.WriteByte('\t')
		case '"':
			sb.WriteByte('"')
		case '\\':
			sb.WriteByte('\\')
		default:
			return "", fmt.Errorf("escape \\%c", body[i])
		}
	}
	return sb.String(), nil
}

// quotedToNode turns a quoted token into a string node or a template with ${...}.
func quotedToNode(tok string) (*Node, error) {
	body := tok[1 : len(tok)-1]
	if !strings.Contains(body, "${") {
		s, err := unquote(tok)
		if err != nil {
			return nil, err
		}
		return Str(s), nil
	}
	var items []TItem
	for len(body) > 0 {
		i := strings.Index(body, "${")
		if i < 0 {
			s, err := unquote(`"` + body + `"`)
			if err != nil {
				return nil, err
			}
			items = append(items, TLit(s))
			break
		}
		if i > 0 {
			s, err := unquote(`"` + body[:i] + `"`)
			if err != nil {
				return nil, err
			}
			items = append(items, TLit(s))
		}
		// find the matching close brace (strings inside may contain braces: not in this corpus)
		j := strings.Index(body[i:], "}")
		if j < 0 {
			return nil, fmt.Errorf("unterminated interpolation")
		}
		e, err := miniParse(body[i+2 : i+j])
		if err != nil {
			return nil, err
		}
		items = append(items, TInterp(e, false, false))
		body = body[i+j+1:]
	}
	return Tmpl(TQuoted, items...), nil
}

func miniParse(src string) (*Node, error) {
	toks, err := miniLex(src)
	if err != nil {
		return nil, err
	}
	l := &miniLexer{toks: toks}
	n, err := l.cond()
	if err != nil {
		return nil, err
	}
	if l.pos != len(l.toks) {
		return nil, fmt.Errorf("trailing tokens in %q", src)
	}
	return n, nil
}

func (l *miniLexer) cond() (*Node, error) {
	c, err := l.bin()
	if err != nil {
		return nil, err
	}
	if l.peek() != "?" {
		return c, nil
	}
	l.next()
	t, err := l.bin()
	if err != nil {
		return nil, err
	}
	if l.next() != ":" {
		return nil, fmt.Errorf("expected :")
	}
	f, err := l.bin()
	if err != nil {
		return nil, err
	}
	return Cond(c, t, f), nil
}

func (l *miniLexer) bin() (*Node, error) {
	a, err := l.unary()
	if err != nil {
		return nil, err
	}
	for _, op := range binaryOps {
		if l.peek() == op {
			l.next()
			b, err := l.unary()
			if err != nil {
				return nil, err
			}
			return Bin(op, a, b), nil
		}
	}
	return a, nil
}

func (l *miniLexer) unary() (*Node, error) {
	if t := l.peek(); t == "!" || t == "-" {
		l.next()
		a, err := l.atom()
		if err != nil {
			return nil, err
		}
		return Un(t, a), nil
	}
	return l.atom()
}

func (l *miniLexer) atom() (*Node, error) {
	t := l.next()
	switch {
	case t == "":
		return nil, fmt.Errorf("unexpected end")
	case t[0] == '"':
		return quotedToNode(t)
	case t[0] >= '0' && t[0] <= '9':
		return Num(t), nil
	case t == "true":
		return Bool(true), nil
	case t == "false":
		return Bool(false), nil
	case t == "null":
		return Null(), nil
	case t[0] == '_' || (t[0] >= 'a' && t[0] <= 'z') || (t[0] >= 'A' && t[0] <= 'Z'):
		var n *Node
		if l.peek() == "(" {
			l.next()
			var args []*Node
			for l.peek() != ")" {
				a, err := l.cond()
				if err != nil {
					return nil, err
				}
				args = append(args, a)
				if l.peek() == "," {
					l.next()
				}
			}
			l.next()
			n = Call(t, args...)
		} else {
			n = Var(t)
		}
		for l.peek() == "." {
			l.next()
			n = Attr(n, l.next())
		}
		return n, nil
	}
	return nil, fmt.Errorf("unexpected token %q", t)
}

// heredocToNode reads "<<EOT\nbody" / "<<-EOT\nbody" with ${name} interpolations.
func heredocToNode(raw string) (*Node, error) {
	nl := strings.IndexByte(raw, '\n')
	intro, body := raw[:nl], raw[nl+1:]
	mode := THeredoc
	if strings.HasPrefix(intro, "<<-") {
		mode = TFlush
	}
	var items []TItem
	re := regexp.MustCompile(`\$\{(\w+)\}`)
	for {
		loc := re.FindStringSubmatchIndex(body)
		if loc == nil {
			items = appendLit(items, body)
			break
		}
		items = appendLit(items, body[:loc[0]])
		items = append(items, TInterp(Var(body[loc[2]:loc[3]]), false, false))
		body = body[loc[1]:]
	}
	return Tmpl(mode, items...), nil
}

// readExpected parses a literal of a .t file.
func readExpected(s string) (*Val, error) {
	s = strings.TrimSpace(s)
	switch {
	case s == "true":
		return vTrue, nil
	case s == "false":
		return vFalse, nil
	case s == "null":
		return vNull, nil
	case strings.HasPrefix(s, `"`):
		u, err := unquote(s)
		if err != nil {
			return nil, err
		}
		return vStr(nfc(u)), nil
	}
	neg := strings.HasPrefix(s, "-")
	r, good := parseDecimal(strings.TrimPrefix(s, "-"))
	if !good {
		return nil, fmt.Errorf("cannot read expected value %q", s)
	}
	if neg {
		r.Neg(r)
	}
	return vNum(r), nil
}

func closeEnough(a, b *big.Rat) bool {
	d := new(big.Rat).Sub(a, b)
	d.Abs(d)
	tol := new(big.Rat).SetFrac(big.NewInt(1), new(big.Int).Exp(big.NewInt(10), big.NewInt(100), nil))
	return d.Cmp(tol) < 0
}

// Calibrate runs all calibration items against the files under root.
func Calibrate(root string) *Calibration {
	c := &Calibration{}
	ev := &Evaluator{Exact: true}
	base := filepath.Join(root, "teamserver/pkg/profile/yaotl")
	read := func(rel string) string {
		b, err := os.ReadFile(filepath.Join(base, rel))
		if err != nil {
			c.failf("cannot read %s: %v", rel, err)
			return ""
		}
		return string(b)
	}

	check := func(where string, n *Node, env *Env, want *Val) {
		c.Items++
		got := ev.Eval(n, env)
		if got.St != stOK {
			c.failf("%s: %s: reference gives %s, shipped expectation %s", where, Print(n, StyleMin), refString(got), want)
			return
		}
		if valEq(got.V, want) {
			c.Passed++
			return
		}
		if got.V.K == KNum && want.K == KNum && closeEnough(got.V.N, want.N) {
			c.Passed++
			c.Notes = append(c.Notes, fmt.Sprintf("%s: %s: exact result %s, shipped expectation %s differs only by the binary rounding of a non-binary fraction (accepted; such numbers are outside the generated space)",
				where, Print(n, StyleMin), got.V.N.FloatString(12), want.N.FloatString(12)))
			return
		}
		c.failf("%s: %s: reference gives %s, shipped expectation %s", where, Print(n, StyleMin), got.V, want)
	}

	// --- specsuite -------------------------------------------------------------
	for _, name := range []string{"operators", "primitive_literals", "heredoc"} {
		src := read("specsuite/tests/expressions/" + name + ".hcl")
		exp := read("specsuite/tests/expressions/" + name + ".t")
		if src == "" || exp == "" {
			continue
		}
		exprs := scoped(src)
		wants := scoped(exp)
		env := &Env{vars: map[string]*Val{"bar": vStr("Bar"), "space_bar": vStr("  Bar"), "words": vTuple(vStr("Foo"), vStr("Bar"), vStr("Baz"))}}
		var paths []string
		for p := range exprs {
			paths = append(paths, p)
		}
		sort.Strings(paths)
		if len(paths) == 0 {
			c.failf("%s.hcl: no expressions found", name)
		}
		for _, p := range paths {
			raw := exprs[p]
			wantRaw, found := wants["result/"+p]
			if !found {
				c.failf("%s: no expectation for %s in the .t file", name, p)
				continue
			}
			var n *Node
			var err error
			if strings.HasPrefix(raw, "<<") {
				n, err = heredocToNode(raw)
			} else {
				n, err = miniParse(raw)
			}
			if err != nil {
				c.failf("%s: %s: calibration reader cannot read the shipped expression %q: %v", name, p, raw, err)
				continue
			}
			// the reader and the printer must agree on what was read
			printed := Print(n, StyleMin)
			if strings.HasPrefix(raw, "<<") {
				printed = strings.TrimSuffix(printed, "EOT\n")
			}
			if printed != raw {
				c.failf("%s: %s: read back as %q, file has %q", name, p, printed, raw)
				continue
			}
			want, err := readExpected(wantRaw)
			if err != nil {
				c.failf("%s: %s: %v", name, p, err)
				continue
			}
			check("specsuite/"+name+":"+p, n, env, want)
		}
	}

	// --- guide and extension documentation ------------------------------------------
	type docItem struct {
		file, line string
		env        map[string]*Val
		want       *Val
	}
	items := []docItem{
		{"guide/go_expression_eval.rst", `message = "${name} is ${age} ${age == 1 ? "year" : "years"} old!"`,
			map[string]*Val{"name": vStr("Ermintrude"), "age": vInt(32)}, vStr("Ermintrude is 32 years old!")},
		{"guide/go_expression_eval.rst", `message = "${name} is ${age} ${age == 1 ? "year" : "years"} old!"`,
			map[string]*Val{"name": vStr("Ermintrude"), "age": vInt(1)}, vStr("Ermintrude is 1 year old!")},
		{"guide/go_expression_eval.rst", `source_file = "${path.module}/foo.txt"`,
			map[string]*Val{"path": vObject(map[string]*Val{"root": vStr("/r"), "module": vStr("/r/mod"), "current": vStr("/r/cur")})}, vStr("/r/mod/foo.txt")},
		{"guide/go_expression_eval.rst", `message = "HELLO, ${upper(name)}!"`,
			map[string]*Val{"name": vStr("Ermintrude")}, vStr("HELLO, ERMINTRUDE!")},
		{"guide/go_decoding_gohcl.rst", `name = "example-program (${pid})"`,
			map[string]*Val{"pid": vInt(4321)}, vStr("example-program (4321)")},
		{"ext/userfunc/doc.go", `result = "Hello, ${name}!"`,
			map[string]*Val{"name": vStr("World")}, vStr("Hello, World!")},
		{"ext/tryfunc/README.md", `try(non_existent_variable, 2) # returns 2`, map[string]*Val{}, vInt(2)},
	}
	for _, it := range items {
		text := read(it.file)
		if text == "" {
			continue
		}
		if !strings.Contains(text, it.line) {
			c.failf("%s no longer contains the example %q", it.file, it.line)
			continue
		}
		src := stripComment(it.line)
		if i := strings.Index(src, " = "); i >= 0 && !strings.HasPrefix(src, "try") {
			src = src[i+3:]
		}
		n, err := readDocExpr(src)
		if err != nil {
			c.failf("%s: cannot read %q: %v", it.file, src, err)
			continue
		}
		if Print(n, StyleMin) != src {
			c.failf("%s: read back as %q, file has %q", it.file, Print(n, StyleMin), src)
			continue
		}
		check(it.file, n, &Env{vars: it.env}, it.want)
	}
	return c
}

// readDocExpr handles the guide's one example with a quoted string nested in an
// interpolation by splitting on the outermost ${ } with brace/quote tracking.
func readDocExpr(src string) (*Node, error) {
	if !strings.HasPrefix(src, `"`) {
		return miniParse(src)
	}
	body := src[1 : len(src)-1]
	var items []TItem
	for len(body) > 0 {
		i := strings.Index(body, "${")
		if i < 0 {
			items = appendLit(items, body)
			break
		}
		items = appendLit(items, body[:i])
		depth, inq, j := 0, false, i+2
		for ; j < len(body); j++ {
			ch := body[j]
			if ch == '"' {
				inq = !inq
			}
			if inq {
				continue
			}
			if ch == '{' {
				depth++
			}
			if ch == '}' {
				if depth == 0 {
					break
				}
				depth--
			}
		}
		e, err := miniParse(body[i+2 : j])
		if err != nil {
			return nil, err
		}
		items = append(items, TInterp(e, false, false))
		body = body[j+1:]
	}
	return Tmpl(TQuoted, items...), nil
}
