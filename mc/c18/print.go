package c18

import (
	"fmt"
	"strings"
)

// Three renderings of the same tree:
//   style 0  minimal parentheses (by precedence and associativity), conventional spacing
//   style 1  every sub-expression parenthesised, no optional white space
//   style 2  minimal parentheses, redundant blanks / tabs / comments everywhere they are
//            allowed and newlines wherever the expression is inside brackets; this form
//            is meant to be the value of an attribute in a configuration body, where a
//            newline outside brackets would end the expression.

const (
	StyleMin = iota
	StyleParen
	StyleSpaced
)

const (
	precCond = iota
	precOr
	precAnd
	precEq
	precCmp
	precAdd
	precMul
	precUnary
	precPrimary
)

func binPrec(op string) int {
	switch op {
	case "||":
		return precOr
	case "&&":
		return precAnd
	case "==", "!=":
		return precEq
	case "<", "<=", ">", ">=":
		return precCmp
	case "+", "-":
		return precAdd
	case "*", "/", "%":
		return precMul
	}
	panic("unknown operator " + op)
}

func precOf(n *Node) int {
	switch n.K {
	case NCond:
		return precCond
	case NBinary:
		return binPrec(n.Op)
	case NUnary:
		return precUnary
	}
	return precPrimary
}

type printer struct {
	sb    strings.Builder
	style int
	ctr   int
	noNL  int // >0: inside a template sequence, never emit a newline
}

var wsPlain = []string{" ", "  ", "\t", " /*c*/ "}
var wsNL = []string{" ", "\n", "  ", " \n  ", "\t", " # c\n", " /*c*/ ", "\n\n\t", " // c\n "}

func (p *printer) w(s string) { p.sb.WriteString(s) }

func (p *printer) pick(nl, allowEmpty bool) string {
	p.ctr++
	list := wsPlain
	if nl && p.noNL == 0 {
		list = wsNL
	}
	n := len(list)
	if allowEmpty {
		n++
	}
	i := (p.ctr * 7) % n
	if i == len(list) {
		return ""
	}
	return list[i]
}

// opt: optional white space (none in styles 0 and 1).
func (p *printer) opt(nl bool) {
	if p.style == StyleSpaced {
		p.w(p.pick(nl, true))
	}
}

// sp: conventional single blank of style 0.
func (p *printer) sp(nl bool) {
	switch p.style {
	case StyleMin:
		p.w(" ")
	case StyleSpaced:
		p.w(p.pick(nl, false))
	}
}

// must: white space that is needed to separate two words.
func (p *printer) must(nl bool) {
	if p.style == StyleSpaced {
		p.w(p.pick(nl, false))
	} else {
		p.w(" ")
	}
}

// Print renders n.  For a TBare template root the result is template source (to be
// given to ParseTemplate); otherwise it is an expression.
func Print(n *Node, style int) string {
	p := &printer{style: style, ctr: n.Size()}
	if n.K == NTemplate && n.Mode == TBare {
		p.tmplBody(n)
		return p.sb.String()
	}
	p.expr(n, precCond, false)
	return p.sb.String()
}

func (p *printer) expr(n *Node, min int, nl bool) {
	wrap := precOf(n) < min
	if p.style == StyleParen && !(n.K == NTemplate && (n.Mode == THeredoc || n.Mode == TFlush)) {
		wrap = true
	}
	if wrap {
		p.w("(")
		p.opt(true)
		p.inner(n, true)
		p.opt(true)
		p.w(")")
		return
	}
	p.inner(n, nl)
}

func (p *printer) inner(n *Node, nl bool) {
	switch n.K {
	case NNum:
		p.w(n.Src)
	case NStr:
		p.w(`"` + escapeLit(n.S, TQuoted, n.B) + `"`)
	case NBool:
		if n.B {
			p.w("true")
		} else {
			p.w("false")
		}
	case NNull:
		p.w("null")
	case NVar:
		p.w(n.Name)
	case NUnary:
		p.w(n.Op)
		p.opt(nl)
		p.expr(n.Kids[0], precUnary, nl)
	case NBinary:
		pr := binPrec(n.Op)
		p.expr(n.Kids[0], pr, nl)
		p.sp(nl)
		p.w(n.Op)
		p.sp(nl)
		p.expr(n.Kids[1], pr+1, nl)
	case NCond:
		p.expr(n.Kids[0], precOr, nl)
		p.sp(nl)
		p.w("?")
		p.sp(nl)
		p.expr(n.Kids[1], precCond, nl)
		p.sp(nl)
		p.w(":")
		p.sp(nl)
		p.expr(n.Kids[2], precCond, nl)
	case NTuple:
		p.w("[")
		p.opt(true)
		for i, k := range n.Kids {
			if i > 0 {
				p.w(",")
				p.sp(true)
			}
			p.expr(k, precCond, true)
			p.opt(true)
		}
		if p.style == StyleSpaced && len(n.Kids) > 0 && p.ctr%2 == 0 {
			p.w(",")
			p.opt(true)
		}
		p.w("]")
	case NObject:
		p.object(n)
	case NIndex:
		if p.style == StyleSpaced && legacyIndexable(n) {
			// the legacy form of an index with a literal whole number: t.0
			p.base(n.Kids[0], true, nl)
			p.w(".")
			p.w(n.Kids[1].Src)
			return
		}
		p.base(n.Kids[0], false, nl)
		p.opt(nl)
		p.w("[")
		p.opt(true)
		p.expr(n.Kids[1], precCond, true)
		p.opt(true)
		p.w("]")
	case NAttr:
		p.base(n.Kids[0], true, nl)
		p.w(".")
		p.w(n.Name)
	case NSplat:
		p.base(n.Kids[0], !n.Full, nl)
		if n.Full {
			p.w("[*]")
		} else {
			p.w(".*")
		}
		p.steps(n.Steps)
	case NFor:
		p.forExpr(n)
	case NCall:
		p.w(n.Name)
		p.w("(")
		p.opt(true)
		for i, k := range n.Kids {
			if i > 0 {
				p.w(",")
				p.sp(true)
			}
			p.expr(k, precCond, true)
			p.opt(true)
		}
		if n.Expand {
			if p.style != StyleParen {
				p.must(true)
			}
			p.w("...")
			p.opt(true)
		} else if p.style == StyleSpaced && len(n.Kids) > 0 && p.ctr%3 == 0 {
			p.w(",")
			p.opt(true)
		}
		p.w(")")
	case NTemplate:
		p.template(n)
	default:
		panic("print: unknown node")
	}
}

// legacyIndexable: x[N] may be written x.N when N is a plain digit string and x is
// not itself written in that form (x.0.1 would be scanned as the number 0.1) and is
// not a splat (whose traversal would swallow the step).
func legacyIndexable(n *Node) bool {
	k := n.Kids[1]
	if k.K != NNum || strings.Trim(k.Src, "0123456789") != "" {
		return false
	}
	b := n.Kids[0]
	switch b.K {
	case NSplat, NNum:
		return false
	case NIndex:
		return !legacyIndexable(b)
	}
	return true
}

// base prints the expression a postfix operator applies to.
func (p *printer) base(n *Node, beforeDot bool, nl bool) {
	if beforeDot && n.K == NNum && p.style != StyleParen {
		// "1.a" would be scanned as the number "1." - parenthesise
		p.w("(")
		p.w(n.Src)
		p.w(")")
		return
	}
	if n.K == NTemplate && (n.Mode == THeredoc || n.Mode == TFlush) {
		panic("print: heredoc as postfix base")
	}
	if n.K == NSplat && p.style != StyleParen && (n.Full || beforeDot) {
		// a following step would be taken as part of the splat's own traversal
		p.w("(")
		p.opt(true)
		p.inner(n, true)
		p.opt(true)
		p.w(")")
		return
	}
	p.expr(n, precPrimary, nl)
}

func (p *printer) steps(steps []Step) {
	for _, s := range steps {
		switch s.Kind {
		case 0:
			p.w("." + s.Name)
		case 1:
			p.w("[")
			p.inner(s.Key, true)
			p.w("]")
		case 2:
			p.w("[*]")
			p.steps(s.Sub)
		}
	}
}

func (p *printer) object(n *Node) {
	p.w("{")
	newlineSep := p.style == StyleSpaced && n.Size()%2 == 0
	if newlineSep && len(n.Kids) > 0 {
		p.w("\n")
	} else {
		p.optNoNL()
	}
	for i, v := range n.Kids {
		k := n.ObjKeys[i]
		switch {
		case k.Kind == 0 && p.style == StyleParen:
			// a bare name is a literal key: writing it as a quoted string is the
			// same thing
			p.w(`"` + k.Name + `"`)
		case k.Kind == 0:
			p.w(k.Name)
		case k.E.K == NVar || p.style == StyleParen:
			p.w("(")
			p.opt(true)
			p.inner(k.E, true)
			p.opt(true)
			p.w(")")
		default:
			p.inner(k.E, false)
		}
		p.sp(false)
		if p.style == StyleSpaced && (i+p.ctr)%2 == 0 {
			p.w(":")
		} else {
			p.w("=")
		}
		p.sp(false)
		p.expr(v, precCond, false)
		last := i == len(n.Kids)-1
		if strings.HasSuffix(p.sb.String(), "\n") {
			// a heredoc value: its final newline already ends the item
			continue
		}
		switch {
		case newlineSep:
			p.optNoNL()
			if (i+p.ctr)%3 == 0 {
				p.w(",")
			}
			p.w("\n")
		case !last:
			p.w(",")
			p.sp(false)
		case p.style == StyleSpaced && p.ctr%2 == 0:
			p.w(",")
		}
	}
	p.optNoNL()
	p.w("}")
}

func (p *printer) optNoNL() { p.opt(false) }

func (p *printer) forExpr(n *Node) {
	open, close := "[", "]"
	if n.Obj {
		open, close = "{", "}"
	}
	p.w(open)
	p.opt(true)
	p.w("for")
	p.must(true)
	if n.KeyVar != "" {
		p.w(n.KeyVar)
		p.opt(true)
		p.w(",")
		p.sp(true)
	}
	p.w(n.ValVar)
	p.must(true)
	p.w("in")
	p.must(true)
	p.expr(n.Kids[0], precCond, true)
	p.sp(true)
	p.w(":")
	p.sp(true)
	if n.Obj {
		p.expr(n.KeyE, precCond, true)
		p.sp(true)
		p.w("=>")
		p.sp(true)
	}
	p.expr(n.Kids[1], precCond, true)
	if n.Group {
		if p.style != StyleParen {
			p.must(true)
		}
		p.w("...")
	}
	if n.CondE != nil {
		p.must(true)
		p.w("if")
		p.must(true)
		p.expr(n.CondE, precCond, true)
	}
	p.opt(true)
	p.w(close)
}

// ---- templates -------------------------------------------------------------------------

func escapeLit(s string, mode TMode, uni bool) string {
	var sb strings.Builder
	rs := []rune(s)
	for i, r := range rs {
		if (r == '$' || r == '%') && i+1 < len(rs) && rs[i+1] == '{' {
			sb.WriteRune(r) // "${" is written "$${"
			sb.WriteRune(r)
			continue
		}
		if mode == TQuoted {
			switch r {
			case '"':
				sb.WriteString(`\"`)
				continue
			case '\\':
				sb.WriteString(`\\`)
				continue
			case '\n':
				sb.WriteString(`\n`)
				continue
			case '\t':
				sb.WriteString(`\t`)
				continue
			case '\r':
				sb.WriteString(`\r`)
				continue
			}
			if uni && r > 0x7f {
				if r > 0xffff {
					sb.WriteString(fmt.Sprintf(`\U%08x`, r))
				} else {
					sb.WriteString(fmt.Sprintf(`\u%04X`, r))
				}
				continue
			}
		}
		sb.WriteRune(r)
	}
	return sb.String()
}

func (p *printer) template(n *Node) {
	switch n.Mode {
	case TQuoted:
		p.w(`"`)
		p.tmplBody(n)
		p.w(`"`)
	case THeredoc, TFlush:
		if n.Mode == TFlush {
			p.w("<<-EOT\n")
		} else {
			p.w("<<EOT\n")
		}
		p.tmplBody(n)
		body := p.sb.String()
		if len(n.Items) > 0 && !strings.HasSuffix(body, "\n") {
			panic("print: heredoc body must end with a newline")
		}
		if p.style == StyleSpaced {
			p.w("  ")
		}
		p.w("EOT\n")
	case TBare:
		panic("print: a bare template can only be the root")
	}
}

func (p *printer) tmplBody(n *Node) {
	for i, it := range n.Items {
		if it.Kind == TILit {
			if i+1 < len(n.Items) && n.Items[i+1].Kind != TILit {
				// "$" before "${" would read as the escape "$${", "%" before "%{" as "%%{"
				next := n.Items[i+1].Kind
				if (strings.HasSuffix(it.Lit, "$") && next == TIInterp) || (strings.HasSuffix(it.Lit, "%") && next != TIInterp) {
					panic("print: literal ending in $ (%) before an interpolation (directive)")
				}
			}
			if i+1 < len(n.Items) && n.Items[i+1].Kind == TILit {
				panic("print: adjacent template literals")
			}
			p.w(escapeLit(it.Lit, n.Mode, it.Esc))
			continue
		}
		p.noNL++
		if it.Kind == TIInterp {
			p.w("${")
		} else {
			p.w("%{")
		}
		if it.SL {
			p.w("~")
		}
		p.opt(false)
		switch it.Kind {
		case TIInterp:
			p.expr(it.E, precCond, false)
		case TIIf:
			p.w("if")
			p.must(false)
			p.expr(it.E, precCond, false)
		case TIElse:
			p.w("else")
		case TIEndIf:
			p.w("endif")
		case TIFor:
			p.w("for")
			p.must(false)
			if it.KeyVar != "" {
				p.w(it.KeyVar)
				p.opt(false)
				p.w(",")
				p.sp(false)
			}
			p.w(it.ValVar)
			p.must(false)
			p.w("in")
			p.must(false)
			p.expr(it.E, precCond, false)
		case TIEndFor:
			p.w("endfor")
		}
		p.opt(false)
		if it.SR {
			p.w("~")
		}
		p.w("}")
		p.noNL--
	}
}

