package c18

import (
	"fmt"
	"os"
	"testing"
)

// TestCount prints the number of trees per family and tier (C18_COUNT=1 go test -run TestCount -v).
func TestCount(t *testing.T) {
	if os.Getenv("C18_COUNT") == "" {
		t.Skip("set C18_COUNT=1 to enumerate and count")
	}
	for _, th := range []bool{false, true} {
		total := 0
		for _, f := range Families(th) {
			n := 0
			f.Gen(func(*Node) { n++ })
			fmt.Printf("thorough=%v %-14s %d\n", th, f.Name, n)
			total += n
		}
		fmt.Println("total", total)
	}
}

// TestReferenceSelfCheck pins a few reference results that were judged by hand
// against the specification text.
func TestReferenceSelfCheck(t *testing.T) {
	ev := &Evaluator{}
	env := &Env{vars: GlobalVars()}
	cases := []struct {
		n    *Node
		want string
	}{
		{Bin("+", Num("1"), Bin("*", Num("2"), Num("3"))), "7"},
		{Bin("-", Bin("-", Num("1"), Num("2")), Num("3")), "-4"},
		{Bin("==", Str("1"), Num("1")), "false"},
		{Cond(Bool(true), Num("1"), Str("a")), `"1"`},
		{Index(Var("t"), Str("1")), `"b"`},
		{Splat(true, Var("n")), "[5]"},
		{Splat(true, Null()), "[]"},
		{Splat(false, Var("lo"), attrStep("a")), "list(number)[1,2]"},
		{ForObject("", "v", Tuple(Str("b"), Str("a"), Str("b")), Var("v"), Num("1"), nil, true), `{"a"=[1],"b"=[1,1]}`},
		{Tmpl(TQuoted, TLit("a  "), TInterp(Num("1"), true, true), TLit("  b")), `"a1b"`},
		{Tmpl(TFlush, TLit("    a\n  "), TInterp(Var("sp"), false, false), TLit("\n    b\n")), `"  a\n  z\n  b\n"`},
		{Bin("/", Num("1"), Num("8")), "1/8"},
	}
	for _, c := range cases {
		got := ev.Eval(c.n, env)
		if got.St != stOK || got.V.String() != c.want {
			t.Errorf("%s: got %s, want %s", Print(c.n, StyleMin), refString(got), c.want)
		}
	}
	for _, n := range []*Node{Var("u"), Index(Var("l"), Num("3")), Attr(Var("o"), "zz"), Bin("+", Bool(true), Num("1")), Index(Var("l"), Num("1.5"))} {
		if got := ev.Eval(n, env); got.St != stErr {
			t.Errorf("%s: got %s, want an error", Print(n, StyleMin), refString(got))
		}
	}
}
