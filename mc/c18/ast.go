package c18

// The generator's own syntax tree.  Nothing here depends on yaotl.

type NK uint8

const (
	NNum      NK = iota // Src = literal text
	NStr                // S = plain quoted string without template sequences
	NBool               // B
	NNull               //
	NVar                // Name
	NUnary              // Op "-" | "!", Kids[0]
	NBinary             // Op, Kids[0], Kids[1]
	NCond               // Kids[0] ? Kids[1] : Kids[2]
	NTuple              // Kids
	NObject             // ObjKeys, Kids = values
	NIndex              // Kids[0] [ Kids[1] ]
	NAttr               // Kids[0] . Name
	NSplat              // Kids[0] source, Full, Steps
	NFor                // Obj, KeyVar, ValVar, Group; Kids[0]=coll, Kids[1]=val, KeyE, CondE
	NCall               // Name, Kids = args, Expand
	NTemplate           // Mode, Items
)

type Node struct {
	K    NK
	Src  string
	S    string
	B    bool
	Name string
	Op   string
	Kids []*Node

	ObjKeys []ObjKey // NObject

	Full  bool   // NSplat: [*] (true) or .* (false)
	Steps []Step // NSplat

	Obj    bool   // NFor: object form
	KeyVar string // NFor ("" = none)
	ValVar string
	Group  bool
	KeyE   *Node // NFor object form
	CondE  *Node // NFor optional

	Expand bool // NCall: final argument followed by ...

	Mode  TMode   // NTemplate
	Items []TItem // NTemplate

	size int
}

// ObjKey is the key of an object constructor item.
type ObjKey struct {
	Kind uint8 // 0 bare identifier (literal name), 1 expression (a Var is printed in parentheses)
	Name string
	E    *Node
}

// Step is one traversal step after a splat marker.
type Step struct {
	Kind  uint8 // 0 .Name, 1 [Key] (Key is a literal node), 2 nested full splat with Sub
	Name  string
	Key   *Node
	Sub   []Step
}

type TMode uint8

const (
	TQuoted  TMode = iota // "..."
	TBare                 // the whole source is the template (ParseTemplate)
	THeredoc              // <<EOT ... EOT
	TFlush                // <<-EOT ... EOT with Indent spaces added by the author
)

// TItem is one element of the flat template source sequence.
type TItem struct {
	Kind   uint8 // 0 literal, 1 interpolation, 2 if, 3 else, 4 endif, 5 for, 6 endfor
	Lit    string
	E      *Node // interpolation expr, if condition, for collection
	KeyVar string
	ValVar string
	SL, SR bool // strip markers: ~ after the opening brace / before the closing brace
	Esc    bool // literal: non-ASCII characters are spelled \uNNNN / \UNNNNNNNN (quoted mode only)
}

const (
	TILit uint8 = iota
	TIInterp
	TIIf
	TIElse
	TIEndIf
	TIFor
	TIEndFor
)

func (n *Node) Size() int {
	if n.size > 0 {
		return n.size
	}
	s := 1
	for _, k := range n.Kids {
		s += k.Size()
	}
	for _, k := range n.ObjKeys {
		if k.E != nil {
			s += k.E.Size()
		}
	}
	s += stepsSize(n.Steps)
	if n.KeyE != nil {
		s += n.KeyE.Size()
	}
	if n.CondE != nil {
		s += n.CondE.Size()
	}
	for _, it := range n.Items {
		s++
		if it.E != nil {
			s += it.E.Size()
		}
	}
	n.size = s
	return s
}

func stepsSize(st []Step) int {
	s := 0
	for _, x := range st {
		s++
		s += stepsSize(x.Sub)
	}
	return s
}

// constructs lists the construct names used in the tree (for signatures).
func (n *Node) constructs(set map[string]struct{}) {
	add := func(s string) { set[s] = struct{}{} }
	switch n.K {
	case NNum:
		add("num")
	case NStr:
		add("str")
		if n.B {
			add("unicode-escape")
		}
	case NBool:
		add("bool")
	case NNull:
		add("null")
	case NVar:
		add("var")
	case NUnary:
		add("unary" + n.Op)
	case NBinary:
		add("op" + n.Op)
	case NCond:
		add("cond")
	case NTuple:
		add("tuple")
	case NObject:
		add("object")
	case NIndex:
		add("index")
	case NAttr:
		add("attr")
	case NSplat:
		if n.Full {
			add("splat[*]")
		} else {
			add("splat.*")
		}
	case NFor:
		if n.Obj {
			add("forobj")
		} else {
			add("fortuple")
		}
		if n.Group {
			add("group")
		}
		if n.CondE != nil {
			add("forif")
		}
	case NCall:
		add("call:" + n.Name)
		if n.Expand {
			add("expand")
		}
	case NTemplate:
		add("tmpl:" + [...]string{"quoted", "bare", "heredoc", "flush"}[n.Mode])
		for _, it := range n.Items {
			switch it.Kind {
			case TILit:
				if it.Esc {
					add("unicode-escape")
				}
			case TIInterp:
				add("interp")
			case TIIf:
				add("%if")
			case TIElse:
				add("%else")
			case TIFor:
				add("%for")
			}
			if it.SL || it.SR {
				add("strip")
			}
			if it.E != nil {
				it.E.constructs(set)
			}
		}
	}
	for _, k := range n.Kids {
		k.constructs(set)
	}
	for _, k := range n.ObjKeys {
		if k.E != nil {
			k.E.constructs(set)
		}
	}
	if n.KeyE != nil {
		n.KeyE.constructs(set)
	}
	if n.CondE != nil {
		n.CondE.constructs(set)
	}
}

// ---- constructors ---------------------------------------------------------------

func Num(src string) *Node        { return &Node{K: NNum, Src: src} }
func Str(s string) *Node          { return &Node{K: NStr, S: s} }

// StrEsc is Str with its non-ASCII characters written as unicode escapes.
func StrEsc(s string) *Node { return &Node{K: NStr, S: s, B: true} }
func Bool(b bool) *Node           { return &Node{K: NBool, B: b} }
func Null() *Node                 { return &Node{K: NNull} }
func Var(name string) *Node       { return &Node{K: NVar, Name: name} }
func Un(op string, a *Node) *Node { return &Node{K: NUnary, Op: op, Kids: []*Node{a}} }
func Bin(op string, a, b *Node) *Node {
	return &Node{K: NBinary, Op: op, Kids: []*Node{a, b}}
}
func Cond(c, t, f *Node) *Node  { return &Node{K: NCond, Kids: []*Node{c, t, f}} }
func Tuple(e ...*Node) *Node    { return &Node{K: NTuple, Kids: e} }
func Index(c, k *Node) *Node    { return &Node{K: NIndex, Kids: []*Node{c, k}} }
func Attr(c *Node, name string) *Node {
	return &Node{K: NAttr, Kids: []*Node{c}, Name: name}
}
func Call(name string, args ...*Node) *Node { return &Node{K: NCall, Name: name, Kids: args} }
func CallExpand(name string, args ...*Node) *Node {
	return &Node{K: NCall, Name: name, Kids: args, Expand: true}
}
func Object(keys []ObjKey, vals []*Node) *Node {
	return &Node{K: NObject, ObjKeys: keys, Kids: vals}
}
func Splat(full bool, src *Node, steps ...Step) *Node {
	return &Node{K: NSplat, Full: full, Kids: []*Node{src}, Steps: steps}
}
func ForTuple(kv, vv string, coll, val, cond *Node) *Node {
	return &Node{K: NFor, KeyVar: kv, ValVar: vv, Kids: []*Node{coll, val}, CondE: cond}
}
func ForObject(kv, vv string, coll, key, val, cond *Node, group bool) *Node {
	return &Node{K: NFor, Obj: true, KeyVar: kv, ValVar: vv, Kids: []*Node{coll, val}, KeyE: key, CondE: cond, Group: group}
}
func Tmpl(mode TMode, items ...TItem) *Node { return &Node{K: NTemplate, Mode: mode, Items: items} }

func TLit(s string) TItem    { return TItem{Kind: TILit, Lit: s} }
func TLitEsc(s string) TItem { return TItem{Kind: TILit, Lit: s, Esc: true} }
func TInterp(e *Node, sl, sr bool) TItem {
	return TItem{Kind: TIInterp, E: e, SL: sl, SR: sr}
}
func TIf(c *Node, sl, sr bool) TItem { return TItem{Kind: TIIf, E: c, SL: sl, SR: sr} }
func TElse(sl, sr bool) TItem        { return TItem{Kind: TIElse, SL: sl, SR: sr} }
func TEndIf(sl, sr bool) TItem       { return TItem{Kind: TIEndIf, SL: sl, SR: sr} }
func TFor(kv, vv string, c *Node, sl, sr bool) TItem {
	return TItem{Kind: TIFor, KeyVar: kv, ValVar: vv, E: c, SL: sl, SR: sr}
}
func TEndFor(sl, sr bool) TItem { return TItem{Kind: TIEndFor, SL: sl, SR: sr} }
