package c18

import (
	"fmt"
	"os"
	"runtime"
	"sort"
	"strings"
	"sync"
	"sync/atomic"
	"time"

	"verifmc/ev"
)

// Run is the entry point used by cmd/c18.
func Run(r *ev.Run) {
	thorough := r.Thorough()
	r.Rule = "every tree of 9 typed sub-grammars up to the stated bound (no sampling); each tree is printed with minimal parentheses, fully parenthesised, and with redundant blanks/comments/newlines inside brackets as an attribute value; the three are parsed and evaluated by the real yaotl code (ParseExpression / ParseTemplate / ParseConfig + Value) in one fixed variable+function environment and compared with the reference evaluator hcleval (exact rationals); outcomes are (family, value kind | error reason | unspecified reason)"
	r.Assume(
		"the go-cty dependency is part of the code under test only in so far as yaotl calls it; where cty's behaviour is not fixed by the HCL specification (division by zero, sign of %, negative zero, \"1\"/\"0\" as bool, typed nulls inside collections, structural type unification beyond same-shape, duplicate keys in an object constructor, strip markers reaching across raw line ends, null function arguments) the reference answers 'unspecified' and the tree is only checked for the agreement of its three renderings",
		"numbers are restricted to binary-representable values of < 400 significant bits: the implementation computes with 512-bit binary floats, so 'exact' is only claimed there",
		"sets, unknown values and marks are outside the generated space",
	)

	// 1. the reference evaluator must reproduce the expectations shipped in the tree
	cal := Calibrate(repoRoot())
	r.Extra["calibration"] = map[string]any{"items": cal.Items, "passed": cal.Passed, "failures": cal.Failures, "notes": cal.Notes}
	if len(cal.Failures) > 0 || cal.Passed == 0 {
		for _, f := range cal.Failures {
			fmt.Println("CALIBRATION FAILURE:", f)
		}
		r.Violate("calibration/reference-evaluator-does-not-reproduce-spec-suite",
			"the reference evaluator does not reproduce the expectations shipped in specsuite/ and guide/ - it cannot be used as an oracle (or the shipped expectations changed)",
			cal.Failures)
		return
	}
	fmt.Printf("calibration: %d/%d shipped expectations reproduced by the reference evaluator\n", cal.Passed, cal.Items)

	// 2. exhaustive enumeration
	fams := Families(thorough)
	if only := os.Getenv("C18_FAMILIES"); only != "" { // development aid; the evidence records it
		var keep []Family
		for _, f := range fams {
			for _, o := range strings.Split(only, ",") {
				if f.Name == o {
					keep = append(keep, f)
				}
			}
		}
		fams = keep
		r.NotExhaustive("restricted to families " + only + " by C18_FAMILIES")
	}
	workers := runtime.NumCPU()
	if workers > 16 {
		workers = 16
	}
	if w := os.Getenv("C18_WORKERS"); w != "" {
		fmt.Sscan(w, &workers)
	}
	budget := 70 * time.Second
	if thorough {
		budget = 18 * time.Minute
	}
	if b := os.Getenv("C18_BUDGET_S"); b != "" {
		var sec int
		fmt.Sscan(b, &sec)
		budget = time.Duration(sec) * time.Second
	}
	deadline := time.Now().Add(budget)
	var stop atomic.Bool

	// one producer enumerates, the workers evaluate; everything that is merged
	// afterwards (counts, outcome sets, smallest example per signature, samples chosen
	// by enumeration index) is independent of which worker got which tree.
	type job struct {
		fam string
		idx int64
		n   *Node
	}
	ch := make(chan []job, 4*workers)
	go func() {
		defer close(ch)
		var idx int64
		for _, f := range fams {
			batch := make([]job, 0, 256)
			f.Gen(func(n *Node) {
				if stop.Load() {
					return
				}
				idx++
				n.Size()
				batch = append(batch, job{f.Name, idx, n})
				if len(batch) == cap(batch) {
					ch <- batch
					batch = make([]job, 0, 256)
					if time.Now().After(deadline) {
						stop.Store(true)
					}
				}
			})
			if len(batch) > 0 {
				ch <- batch
			}
		}
	}()
	checkers := make([]*Checker, workers)
	var wg sync.WaitGroup
	for w := 0; w < workers; w++ {
		checkers[w] = NewChecker()
		wg.Add(1)
		go func(c *Checker) {
			defer wg.Done()
			for batch := range ch {
				for _, j := range batch {
					c.Check(j.n, j.fam, j.idx)
				}
			}
		}(checkers[w])
	}
	wg.Wait()

	total := newStats()
	findings := map[string]*Finding{}
	for _, c := range checkers {
		total.merge(c.Stats)
		mergeFindings(findings, c.Findings)
	}
	if stop.Load() {
		r.NotExhaustive(fmt.Sprintf("internal deadline of %s reached", budget))
	}
	r.Eval(int(total.Evals))
	for o := range total.Outcomes {
		r.Outcome(o)
	}
	var samples []sample
	for _, c := range checkers {
		samples = append(samples, c.Samples...)
	}
	sort.Slice(samples, func(i, j int) bool { return samples[i].idx < samples[j].idx })
	for i := 0; i < len(samples) && i < 6; i++ {
		r.Sample(samples[i].data)
	}
	for _, f := range fams {
		r.Bounds[f.Name] = f.Bound
	}
	r.Bounds["renderings_per_tree"] = 3
	r.Bounds["variables"] = "n nf s sa sp b x t l ls le m o lo to tt (number, string, bool, tuple, list, empty list, map, nested object, list/tuple of objects, tuple of tuples); u is undefined"
	per := map[string]int64{}
	for k, v := range total.PerFamily {
		per[k] = v
	}
	r.Extra["trees"] = total.Trees
	r.Extra["trees_per_family"] = per
	r.Extra["judged_value"] = total.JudgedOK
	r.Extra["judged_must_be_error"] = total.JudgedErr
	r.Extra["unspecified_not_judged"] = total.Unspec
	r.Extra["unspecified_reasons"] = total.UnspecWhy
	fmt.Printf("trees=%d (value %d, must-be-error %d, unspecified %d) implementation evaluations=%d\n",
		total.Trees, total.JudgedOK, total.JudgedErr, total.Unspec, total.Evals)
	var fn []string
	for k, v := range per {
		fn = append(fn, fmt.Sprintf("%s=%d", k, v))
	}
	sort.Strings(fn)
	fmt.Println("per family:", strings.Join(fn, " "))

	for _, f := range minimalFindings(findings) {
		what := fmt.Sprintf("%s: %s   [%s]  reference: %s  implementation: %s", f.Class, f.Sources[0], f.ParsedAs[0], f.Reference, f.Impl[0])
		if f.Class == "parenthesised-form-differs" {
			what = fmt.Sprintf("%s: %s => %s  but  %s => %s", f.Class, f.Sources[0], f.Impl[0], f.Sources[1], f.Impl[1])
		}
		if f.Class == "spaced-form-differs" {
			what = fmt.Sprintf("%s: %s => %s  but as attribute value %q => %s", f.Class, f.Sources[0], f.Impl[0], f.Sources[2], f.Impl[2])
		}
		r.Violate(f.Signature(), what, f)
	}
}

func repoRoot() string {
	if p := os.Getenv("VERIF_REPO_ROOT"); p != "" {
		return p
	}
	if p := os.Getenv("VERIF_REPO"); p != "" {
		return p
	}
	return "/repo"
}

// Explain evaluates one source text with the real code only (debugging aid of cmd/c18 --expr).
func Explain(src string, as ParseAs) string {
	im := NewImpl(GlobalVars())
	return im.Run(src, as).String()
}
