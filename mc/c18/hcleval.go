package c18

import (
	"math/big"
	"sort"
	"strings"
	"unicode"
)

// hcleval: the reference evaluator.  It works on the generator's AST only and is
// written from the HCL native syntax specification (hclsyntax/spec.md upstream):
// exact rational arithmetic, the primitive conversion rules, type-sensitive
// equality, conditional result unification, index/attribute/splat/for/template rules.
//
// It is three-valued: a tree evaluates to a value (stOK), to "must be an error
// diagnostic" (stErr), or to stUnspec - the specification does not pin the outcome
// down (or I am not sure it does), in which case the tree is counted but not judged.

type Status uint8

const (
	stOK Status = iota
	stErr
	stUnspec
)

type Res struct {
	V   *Val
	St  Status
	Why string // error category / reason for unspecified
}

func ok(v *Val) Res              { return Res{V: v} }
func fail(why string) Res        { return Res{St: stErr, Why: why} }
func unspec(why string) Res      { return Res{St: stUnspec, Why: why} }
func (r Res) bad() bool          { return r.St != stOK }

// Env is a chain of variable scopes.
type Env struct {
	vars   map[string]*Val
	parent *Env
}

func (e *Env) lookup(name string) (*Val, bool) {
	for s := e; s != nil; s = s.parent {
		if v, ok := s.vars[name]; ok {
			return v, true
		}
	}
	return nil, false
}

func (e *Env) child(vars map[string]*Val) *Env { return &Env{vars: vars, parent: e} }

// Evaluator options.
type Evaluator struct {
	// Exact: do not restrict numbers to binary-representable ones (used only for
	// calibration against the spec suite, where the comparison is reference vs the
	// shipped expectation, not reference vs implementation).
	Exact bool
}

const maxMantissa = 400 // the implementation computes with 512-bit floats

func (ev *Evaluator) num(r *big.Rat, negZero bool) Res {
	if !ev.Exact {
		if !isDyadic(r) {
			return unspec("non-binary-fraction")
		}
		if mantissaBits(r) > maxMantissa || r.Denom().BitLen() > 200 {
			return unspec("precision")
		}
	}
	return ok(&Val{K: KNum, N: r, NegZero: negZero && r.Sign() == 0})
}

func (ev *Evaluator) Eval(n *Node, env *Env) Res {
	switch n.K {
	case NNum:
		r, good := parseDecimal(n.Src)
		if !good {
			panic("generator produced a bad number literal " + n.Src)
		}
		return ev.num(r, false)
	case NStr:
		return ok(vStr(nfc(n.S)))
	case NBool:
		return ok(vBool(n.B))
	case NNull:
		return ok(vNull)
	case NVar:
		if v, found := env.lookup(n.Name); found {
			return ok(v)
		}
		return fail("unknown-variable")
	case NUnary:
		return ev.unary(n, env)
	case NBinary:
		return ev.binary(n, env)
	case NCond:
		return ev.cond(n, env)
	case NTuple:
		vals, bad := ev.evalAll(n.Kids, env)
		if bad != nil {
			return *bad
		}
		return ok(vTuple(vals...))
	case NObject:
		return ev.object(n, env)
	case NIndex:
		c := ev.Eval(n.Kids[0], env)
		k := ev.Eval(n.Kids[1], env)
		if r := firstBad(c, k); r != nil {
			return *r
		}
		return ev.index(c.V, k.V)
	case NAttr:
		c := ev.Eval(n.Kids[0], env)
		if c.bad() {
			return c
		}
		return ev.getAttr(c.V, n.Name)
	case NSplat:
		c := ev.Eval(n.Kids[0], env)
		if c.bad() {
			return c
		}
		return ev.splat(c.V, n.Steps)
	case NFor:
		return ev.forExpr(n, env)
	case NCall:
		return ev.call(n, env)
	case NTemplate:
		return ev.template(n, env)
	}
	panic("unknown node kind")
}

// firstBad implements "strict" operand handling: a definite error in any operand
// makes the whole an error; otherwise an unspecified operand makes it unspecified.
func firstBad(rs ...Res) *Res {
	var u *Res
	for i := range rs {
		if rs[i].St == stErr {
			return &rs[i]
		}
		if rs[i].St == stUnspec && u == nil {
			u = &rs[i]
		}
	}
	return u
}

func (ev *Evaluator) evalAll(nodes []*Node, env *Env) ([]*Val, *Res) {
	rs := make([]Res, len(nodes))
	for i, k := range nodes {
		rs[i] = ev.Eval(k, env)
	}
	if b := firstBad(rs...); b != nil {
		return nil, b
	}
	vals := make([]*Val, len(nodes))
	for i := range rs {
		vals[i] = rs[i].V
	}
	return vals, nil
}

// ---- conversions ------------------------------------------------------------------

func (ev *Evaluator) toNum(v *Val) Res {
	switch v.K {
	case KNum:
		return ok(v)
	case KStr:
		if r, good := parseDecimal(v.S); good {
			return ev.num(r, false)
		}
		body := strings.ToLower(strings.TrimLeft(v.S, "+-"))
		switch body {
		case "inf", "infinity", "nan":
			return unspec("string-to-number:" + v.S)
		}
		if v.S == "" {
			return fail("not-a-number")
		}
		// Number-like spellings that are not the literal syntax of the spec (sign,
		// bare dot, digit separators, other bases) are left unjudged; everything
		// else is definitely not a number.
		numberish := body != "" && body[0] >= '0' && body[0] <= '9' || strings.HasPrefix(body, ".")
		for _, c := range body {
			if !strings.ContainsRune("0123456789.e+-_xabcdefop", c) {
				numberish = false
			}
		}
		if !numberish {
			return fail("not-a-number")
		}
		// looks vaguely numeric (sign, bare dot, ...) but is not number literal syntax
		return unspec("string-to-number:" + v.S)
	case KNull:
		return fail("null-operand")
	}
	return fail("not-a-number")
}

func (ev *Evaluator) toBool(v *Val) Res {
	switch v.K {
	case KBool:
		return ok(v)
	case KStr:
		switch v.S {
		case "true":
			return ok(vTrue)
		case "false":
			return ok(vFalse)
		case "1", "0":
			return unspec("string-to-bool:" + v.S) // cty accepts these, the spec names only true/false
		}
		return fail("not-a-bool")
	case KNull:
		return fail("null-operand")
	}
	return fail("not-a-bool")
}

func (ev *Evaluator) toStr(v *Val) Res {
	switch v.K {
	case KStr:
		return ok(v)
	case KNum:
		if v.NegZero {
			return unspec("negative-zero-to-string")
		}
		if !isDyadic(v.N) {
			return unspec("non-terminating-decimal")
		}
		return ok(vStr(decimalString(v.N)))
	case KBool:
		if v.B {
			return ok(vStr("true"))
		}
		return ok(vStr("false"))
	case KNull:
		return fail("null-to-string")
	}
	return fail("not-a-string")
}

// ---- operators ----------------------------------------------------------------------

func (ev *Evaluator) unary(n *Node, env *Env) Res {
	a := ev.Eval(n.Kids[0], env)
	if a.bad() {
		return a
	}
	if n.Op == "!" {
		b := ev.toBool(a.V)
		if b.bad() {
			return b
		}
		return ok(vBool(!b.V.B))
	}
	x := ev.toNum(a.V)
	if x.bad() {
		return x
	}
	r := new(big.Rat).Neg(x.V.N)
	return ev.num(r, r.Sign() == 0 && !x.V.NegZero)
}

func negSign(v *Val) bool { return v.N.Sign() < 0 || (v.N.Sign() == 0 && v.NegZero) }

func (ev *Evaluator) binary(n *Node, env *Env) Res {
	l := ev.Eval(n.Kids[0], env)
	r := ev.Eval(n.Kids[1], env)
	if b := firstBad(l, r); b != nil {
		return *b
	}
	return ev.binop(n.Op, l.V, r.V)
}

func (ev *Evaluator) binop(op string, lv, rv *Val) Res {
	switch op {
	case "==", "!=":
		// a nested null is typed by the implementation's type system in ways the
		// language does not expose; only top-level nulls are judged.
		if (lv.K != KNull && lv.containsNull()) || (rv.K != KNull && rv.containsNull()) {
			return unspec("equality-with-nested-null")
		}
		eq := valEq(lv, rv)
		return ok(vBool(eq == (op == "==")))
	case "&&", "||":
		a, b := ev.toBool(lv), ev.toBool(rv)
		if x := firstBad(a, b); x != nil {
			return *x
		}
		if op == "&&" {
			return ok(vBool(a.V.B && b.V.B))
		}
		return ok(vBool(a.V.B || b.V.B))
	}
	a, b := ev.toNum(lv), ev.toNum(rv)
	if x := firstBad(a, b); x != nil {
		return *x
	}
	x, y := a.V, b.V
	switch op {
	case "<":
		return ok(vBool(x.N.Cmp(y.N) < 0))
	case "<=":
		return ok(vBool(x.N.Cmp(y.N) <= 0))
	case ">":
		return ok(vBool(x.N.Cmp(y.N) > 0))
	case ">=":
		return ok(vBool(x.N.Cmp(y.N) >= 0))
	case "+":
		return ev.num(new(big.Rat).Add(x.N, y.N), x.NegZero && y.NegZero)
	case "-":
		return ev.num(new(big.Rat).Sub(x.N, y.N), x.NegZero && y.N.Sign() == 0 && !y.NegZero)
	case "*":
		return ev.num(new(big.Rat).Mul(x.N, y.N), negSign(x) != negSign(y))
	case "/":
		if y.N.Sign() == 0 {
			return unspec("division-by-zero")
		}
		return ev.num(new(big.Rat).Quo(x.N, y.N), negSign(x) != negSign(y))
	case "%":
		// "remainder"; the spec says no more, so only the uncontroversial quadrant
		if y.N.Sign() <= 0 || x.N.Sign() < 0 || x.NegZero {
			return unspec("modulo-sign")
		}
		q := new(big.Rat).Quo(x.N, y.N)
		if !ev.Exact && !isDyadic(q) {
			// the implementation divides first; a rounded quotient next to an
			// integer boundary could truncate differently.  Far from the
			// boundary the result is exact; the reference accepts only
			// quotients whose fractional part is comfortably inside (0,1).
			fl := new(big.Int).Quo(q.Num(), q.Denom())
			fr := new(big.Rat).Sub(q, new(big.Rat).SetInt(fl))
			lo := big.NewRat(1, 1<<20)
			hi := new(big.Rat).Sub(big.NewRat(1, 1), lo)
			if fr.Cmp(lo) < 0 || fr.Cmp(hi) > 0 {
				return unspec("modulo-boundary")
			}
		}
		fl := new(big.Int).Quo(q.Num(), q.Denom()) // q >= 0: truncation = floor
		m := new(big.Rat).Sub(x.N, new(big.Rat).Mul(y.N, new(big.Rat).SetInt(fl)))
		return ev.num(m, false)
	}
	panic("unknown operator " + op)
}

// ---- conditional ----------------------------------------------------------------------

func (ev *Evaluator) cond(n *Node, env *Env) Res {
	c := ev.Eval(n.Kids[0], env)
	t := ev.Eval(n.Kids[1], env)
	f := ev.Eval(n.Kids[2], env)
	if c.St == stErr {
		return c
	}
	if c.St == stUnspec {
		return c
	}
	cb := ev.toBool(c.V)
	if cb.bad() {
		return cb
	}
	chosen, other := t, f
	if !cb.V.B {
		chosen, other = f, t
	}
	if chosen.St == stErr {
		return chosen
	}
	if chosen.St == stUnspec || other.St == stUnspec {
		return unspec("conditional-branch-unspecified")
	}
	if other.St == stErr {
		// the result type is the unification of both result types; a branch
		// without a value has no type
		return unspec("conditional-unchosen-branch-error")
	}
	if t.V.K == KNull && f.V.K == KNull {
		return ok(chosen.V)
	}
	if t.V.hasTypedNull() || f.V.hasTypedNull() {
		// e.g. b ? 1 : (b ? null : "1"): the inner null is "a null string" for the
		// implementation and drags the 1 to "1"; the spec knows only one null
		return unspec("typed-null-in-conditional")
	}
	if chosen.V.K == KNull {
		return ok(&Val{K: KNull, TN: true})
	}
	ty, st := unify(t.V.typ(), f.V.typ(), true)
	switch st {
	case stErr:
		return fail("inconsistent-conditional-types")
	case stUnspec:
		return unspec("conditional-structural-unification")
	}
	return ev.convertTo(chosen.V, ty)
}

func isPrim(k Kind) bool { return k == KBool || k == KNum || k == KStr }

// unify per "Type Conversions and Unification".  A tNull result means "no conversion".
func unify(a, b *Type, top bool) (*Type, Status) {
	if a.K == KNull || b.K == KNull {
		return tNull, stOK
	}
	if isPrim(a.K) && isPrim(b.K) {
		if a.K == b.K {
			return a, stOK
		}
		if a.K == KStr || b.K == KStr {
			return tStr, stOK
		}
		return nil, stErr
	}
	if isPrim(a.K) != isPrim(b.K) {
		return nil, stErr
	}
	if a.K != b.K {
		return nil, stUnspec // tuple vs list, object vs map: the spec has rules, I do not trust my memory of them
	}
	switch a.K {
	case KTuple:
		if len(a.Elems) != len(b.Elems) {
			return nil, stUnspec
		}
		out := &Type{K: KTuple, Elems: make([]*Type, len(a.Elems))}
		for i := range a.Elems {
			u, st := unify(a.Elems[i], b.Elems[i], false)
			if st != stOK {
				return nil, stUnspec
			}
			out.Elems[i] = u
		}
		return out, stOK
	case KObject:
		if len(a.Keys) != len(b.Keys) {
			return nil, stUnspec
		}
		out := &Type{K: KObject, Keys: a.Keys, Attrs: make([]*Type, len(a.Keys))}
		for i := range a.Keys {
			if a.Keys[i] != b.Keys[i] {
				return nil, stUnspec
			}
			u, st := unify(a.Attrs[i], b.Attrs[i], false)
			if st != stOK {
				return nil, stUnspec
			}
			out.Attrs[i] = u
		}
		return out, stOK
	case KList, KMap:
		u, st := unify(a.Elem, b.Elem, false)
		if st != stOK || u.K == KNull {
			return nil, stUnspec
		}
		return &Type{K: a.K, Elem: u}, stOK
	}
	return nil, stUnspec
}

func (ev *Evaluator) convertTo(v *Val, t *Type) Res {
	if t.K == KNull || v.K == KNull {
		return ok(v)
	}
	switch t.K {
	case KStr:
		return ev.toStr(v)
	case KNum, KBool:
		if v.K != t.K {
			return unspec("conversion")
		}
		return ok(v)
	case KTuple, KObject:
		out := &Val{K: v.K, Keys: v.Keys, L: make([]*Val, len(v.L))}
		for i, e := range v.L {
			var et *Type
			if t.K == KTuple {
				et = t.Elems[i]
			} else {
				et = t.Attrs[i]
			}
			r := ev.convertTo(e, et)
			if r.bad() {
				return r
			}
			out.L[i] = r.V
		}
		return ok(out)
	case KList, KMap:
		out := &Val{K: v.K, Keys: v.Keys, L: make([]*Val, len(v.L)), ET: t.Elem}
		for i, e := range v.L {
			r := ev.convertTo(e, t.Elem)
			if r.bad() {
				return r
			}
			out.L[i] = r.V
		}
		return ok(out)
	}
	return unspec("conversion")
}

// ---- object constructor -----------------------------------------------------------------

func (ev *Evaluator) object(n *Node, env *Env) Res {
	rs := make([]Res, 0, 2*len(n.Kids))
	keys := make([]Res, len(n.Kids))
	for i, k := range n.ObjKeys {
		if k.Kind == 0 {
			keys[i] = ok(vStr(k.Name))
		} else {
			kr := ev.Eval(k.E, env)
			if !kr.bad() {
				if kr.V.K == KNull {
					kr = fail("null-object-key")
				} else {
					kr = ev.toStr(kr.V)
				}
			}
			keys[i] = kr
		}
		rs = append(rs, keys[i], ev.Eval(n.Kids[i], env))
	}
	if b := firstBad(rs...); b != nil {
		return *b
	}
	m := map[string]*Val{}
	for i := range n.Kids {
		k := keys[i].V.S
		if _, dup := m[k]; dup {
			return unspec("duplicate-key-in-object-constructor")
		}
		m[k] = rs[2*i+1].V
	}
	return ok(vObject(m))
}

// ---- index / attribute ------------------------------------------------------------------

func (ev *Evaluator) index(c, k *Val) Res {
	if c.K == KNull {
		return fail("index-null")
	}
	if k.K == KNull {
		return fail("null-index-key")
	}
	switch c.K {
	case KTuple, KList:
		kn := ev.toNum(k)
		if kn.bad() {
			if kn.St == stErr {
				return fail("index-key-type")
			}
			return kn
		}
		if !kn.V.N.IsInt() {
			return fail("fractional-index")
		}
		if kn.V.N.Sign() < 0 {
			return fail("index-out-of-range")
		}
		if kn.V.N.Num().Cmp(big.NewInt(int64(len(c.L)))) >= 0 {
			return fail("index-out-of-range")
		}
		return ok(c.L[kn.V.N.Num().Int64()])
	case KObject, KMap:
		ks := ev.toStr(k)
		if ks.bad() {
			if ks.St == stErr {
				return fail("index-key-type")
			}
			return ks
		}
		if v, found := c.attr(ks.V.S); found {
			return ok(v)
		}
		return fail("missing-key")
	}
	return fail("index-on-non-collection")
}

func (ev *Evaluator) getAttr(c *Val, name string) Res {
	switch c.K {
	case KNull:
		return fail("attr-on-null")
	case KObject, KMap:
		if v, found := c.attr(name); found {
			return ok(v)
		}
		return fail("missing-attribute")
	}
	return fail("attr-on-non-object")
}

// ---- splat --------------------------------------------------------------------------------

func (ev *Evaluator) splat(src *Val, steps []Step) Res {
	var elems []*Val
	switch src.K {
	case KNull:
		if src.TN {
			// a null "of list type" is an error for the implementation, a null of
			// another type an empty tuple
			return unspec("splat-of-typed-null")
		}
		return ok(vTuple())
	case KTuple, KList:
		elems = src.L
	default:
		elems = []*Val{src}
	}
	rs := make([]Res, len(elems))
	for i, e := range elems {
		rs[i] = ev.applySteps(e, steps)
	}
	if b := firstBad(rs...); b != nil {
		return *b
	}
	out := make([]*Val, len(elems))
	for i := range rs {
		out[i] = rs[i].V
	}
	if src.K == KList {
		var et *Type
		if len(out) == 0 {
			t, good := typeSteps(src.ET, steps)
			if !good {
				return unspec("splat-of-empty-list-with-inapplicable-traversal")
			}
			et = t
		} else {
			et = out[0].typ()
			for _, o := range out[1:] {
				if !typeEq(et, o.typ()) {
					return unspec("splat-list-result-not-uniform")
				}
			}
		}
		return ok(vList(et, out...))
	}
	return ok(vTuple(out...))
}

func (ev *Evaluator) applySteps(v *Val, steps []Step) Res {
	cur := v
	for _, s := range steps {
		var r Res
		switch s.Kind {
		case 0:
			r = ev.getAttr(cur, s.Name)
		case 1:
			k := ev.Eval(s.Key, nil)
			if k.bad() {
				return k
			}
			r = ev.index(cur, k.V)
		case 2:
			return ev.splat(cur, s.Sub)
		}
		if r.bad() {
			return r
		}
		cur = r.V
	}
	return ok(cur)
}

// typeSteps: static result type of a traversal (only needed for empty lists).
func typeSteps(t *Type, steps []Step) (*Type, bool) {
	cur := t
	for _, s := range steps {
		switch s.Kind {
		case 0:
			switch cur.K {
			case KObject:
				i := sort.SearchStrings(cur.Keys, s.Name)
				if i >= len(cur.Keys) || cur.Keys[i] != s.Name {
					return nil, false
				}
				cur = cur.Attrs[i]
			case KMap:
				cur = cur.Elem
			default:
				return nil, false
			}
		default:
			return nil, false
		}
	}
	return cur, true
}

// ---- for expressions ------------------------------------------------------------------------

type kv struct{ k, v *Val }

func iterate(c *Val) ([]kv, bool) {
	switch c.K {
	case KTuple, KList:
		out := make([]kv, len(c.L))
		for i, e := range c.L {
			out[i] = kv{vInt(int64(i)), e}
		}
		return out, true
	case KObject, KMap:
		out := make([]kv, len(c.L))
		for i, e := range c.L { // Keys are kept sorted: lexicographic order
			out[i] = kv{vStr(c.Keys[i]), e}
		}
		return out, true
	}
	return nil, false
}

func (ev *Evaluator) forExpr(n *Node, env *Env) Res {
	c := ev.Eval(n.Kids[0], env)
	if c.bad() {
		return c
	}
	if c.V.K == KNull {
		return fail("for-over-null")
	}
	items, good := iterate(c.V)
	if !good {
		return fail("for-over-non-iterable")
	}
	if len(items) == 0 && n.CondE != nil {
		// With nothing to iterate nothing is evaluated; whether a condition that
		// could never be a bool is still an error is not something the spec says.
		r := ev.Eval(n.CondE, env)
		if r.bad() {
			return unspec("for-empty-collection-condition")
		}
		if b := ev.toBool(r.V); b.bad() {
			return unspec("for-empty-collection-condition")
		}
	}
	var tupleOut []*Val
	objOut := map[string]*Val{}
	groups := map[string][]*Val{}
	var groupOrder []string
	var pending *Res // first unspecified thing seen; a definite error later still wins
	for _, it := range items {
		vars := map[string]*Val{n.ValVar: it.v}
		if n.KeyVar != "" {
			vars[n.KeyVar] = it.k
		}
		ce := env.child(vars)
		if n.CondE != nil {
			r := ev.Eval(n.CondE, ce)
			if !r.bad() {
				r = ev.toBool(r.V)
			}
			if r.St == stErr {
				return r
			}
			if r.St == stUnspec {
				if pending == nil {
					pending = &r
				}
				continue
			}
			if !r.V.B {
				continue
			}
		}
		val := ev.Eval(n.Kids[1], ce)
		if n.Obj {
			k := ev.Eval(n.KeyE, ce)
			if !k.bad() {
				if k.V.K == KNull {
					k = fail("null-object-key")
				} else {
					k = ev.toStr(k.V)
				}
			}
			if b := firstBad(k, val); b != nil {
				if b.St == stErr {
					return *b
				}
				if pending == nil {
					pending = b
				}
				continue
			}
			key := k.V.S
			if n.Group {
				if _, seen := groups[key]; !seen {
					groupOrder = append(groupOrder, key)
				}
				groups[key] = append(groups[key], val.V)
			} else {
				if _, dup := objOut[key]; dup {
					if pending != nil {
						return *pending
					}
					return fail("duplicate-key")
				}
				objOut[key] = val.V
			}
			continue
		}
		if val.St == stErr {
			return val
		}
		if val.St == stUnspec {
			if pending == nil {
				pending = &val
			}
			continue
		}
		tupleOut = append(tupleOut, val.V)
	}
	if pending != nil {
		return *pending
	}
	if !n.Obj {
		return ok(vTuple(tupleOut...))
	}
	if n.Group {
		for _, k := range groupOrder {
			objOut[k] = vTuple(groups[k]...)
		}
	}
	return ok(vObject(objOut))
}

// ---- functions ----------------------------------------------------------------------------------

func (ev *Evaluator) call(n *Node, env *Env) Res {
	switch n.Name {
	case "try":
		if n.Expand {
			return unspec("try-with-expansion")
		}
		if len(n.Kids) == 0 {
			return fail("try-no-arguments")
		}
		for _, a := range n.Kids {
			r := ev.Eval(a, env)
			switch r.St {
			case stOK:
				return r
			case stUnspec:
				return r
			}
		}
		return fail("try-all-failed")
	case "can":
		if n.Expand {
			return unspec("can-with-expansion")
		}
		if len(n.Kids) != 1 {
			return fail("argument-count")
		}
		r := ev.Eval(n.Kids[0], env)
		switch r.St {
		case stOK:
			return ok(vTrue)
		case stErr:
			return ok(vFalse)
		}
		return r
	case "upper", "min", "add", "greet", "list", "first", "rest", "vn":
	default:
		return fail("unknown-function")
	}
	rs := make([]Res, len(n.Kids))
	for i, a := range n.Kids {
		rs[i] = ev.Eval(a, env)
	}
	if b := firstBad(rs...); b != nil {
		return *b
	}
	args := make([]*Val, 0, len(rs)+2)
	for i := range rs {
		if n.Expand && i == len(rs)-1 {
			last := rs[i].V
			switch last.K {
			case KTuple, KList:
				args = append(args, last.L...)
			default:
				return fail("expansion-of-non-sequence")
			}
			continue
		}
		args = append(args, rs[i].V)
	}
	want := map[string][2]int{"upper": {1, 1}, "min": {0, 1 << 30}, "add": {2, 2}, "greet": {1, 1}, "list": {0, 1 << 30},
		"first": {1, 1 << 30}, "rest": {1, 1 << 30}, "vn": {0, 1 << 30}}[n.Name]
	if len(args) < want[0] || len(args) > want[1] {
		return fail("argument-count")
	}
	for _, a := range args {
		if a.K == KNull {
			return unspec("null-function-argument")
		}
	}
	switch n.Name {
	case "upper":
		s := ev.toStr(args[0])
		if s.bad() {
			return s
		}
		return ok(vStr(strings.ToUpper(s.V.S)))
	case "min":
		if len(args) == 0 {
			return fail("min-no-arguments")
		}
		var best *Val
		ns := make([]Res, len(args))
		for i, a := range args {
			ns[i] = ev.toNum(a)
		}
		if b := firstBad(ns...); b != nil {
			return *b
		}
		for _, x := range ns {
			if x.V.N.Sign() == 0 && x.V.NegZero {
				return unspec("negative-zero")
			}
			if best == nil || x.V.N.Cmp(best.N) < 0 {
				best = x.V
			}
		}
		return ok(best)
	case "add":
		return ev.binop("+", args[0], args[1])
	case "greet":
		s := ev.toStr(args[0])
		if s.bad() {
			return s
		}
		return ok(vStr("Hello, " + s.V.S + "!"))
	case "list", "vn":
		// vn's variadic parameter has the name of a variable of the calling scope: inside the
		// function the parameter is what the name means
		return ok(vTuple(args...))
	case "first":
		return ok(args[0])
	case "rest":
		// its variadic parameter is called like first's positional one: each function binds its own names
		return ok(vTuple(args[1:]...))
	}
	panic("unreachable")
}

// ---- templates ------------------------------------------------------------------------------------

func isSpaceStr(s string) bool { return strings.TrimFunc(s, unicode.IsSpace) == "" }

// stripAgrees: for templates whose newlines are raw in the source (bare, heredoc)
// the implementation's scanner cuts literals at line ends and a strip marker only
// reaches the neighbouring piece.  The spec speaks of "the corresponding string
// literal".  Only whitespace runs on which both readings agree are judged.
func stripAgrees(run string) bool {
	c := strings.Count(run, "\n")
	return c == 0 || (c == 1 && strings.HasSuffix(run, "\n"))
}

func (ev *Evaluator) template(n *Node, env *Env) Res {
	items := make([]TItem, len(n.Items))
	copy(items, n.Items)
	for i := range items {
		if items[i].Kind == TILit {
			items[i].Lit = nfc(items[i].Lit)
		}
	}
	rawNewlines := n.Mode != TQuoted
	// 1. strip markers act on the adjacent literal, at syntax level
	for i, it := range n.Items {
		if it.Kind == TILit {
			continue
		}
		if (it.SL || it.SR) && n.Mode == TFlush {
			return unspec("strip-marker-in-flush-heredoc")
		}
		if it.SL && i > 0 && items[i-1].Kind == TILit {
			lit := items[i-1].Lit
			trimmed := strings.TrimRightFunc(lit, unicode.IsSpace)
			if rawNewlines && !stripAgrees(lit[len(trimmed):]) {
				return unspec("strip-marker-across-lines")
			}
			items[i-1].Lit = trimmed
		}
		if it.SR && i+1 < len(items) && items[i+1].Kind == TILit {
			lit := items[i+1].Lit
			trimmed := strings.TrimLeftFunc(lit, unicode.IsSpace)
			if rawNewlines && !stripAgrees(lit[:len(lit)-len(trimmed)]) {
				return unspec("strip-marker-across-lines")
			}
			items[i+1].Lit = trimmed
		}
	}
	// 2. flush heredoc: remove the smallest indentation of any line
	if n.Mode == TFlush {
		if !flush(items) {
			return unspec("flush-heredoc-whitespace-only-line")
		}
	}
	// 3. a template that is exactly one interpolation returns its value unconverted
	if len(items) == 1 && items[0].Kind == TIInterp {
		return ev.Eval(items[0].E, env)
	}
	pos := 0
	s, r := ev.tmplSeq(items, &pos, env, 0)
	if r != nil {
		return *r
	}
	if pos != len(items) {
		panic("generator produced an unbalanced template")
	}
	return ok(vStr(s))
}

// flush implements the <<- rule on the literal items.  Returns false when a line
// consists of white space only but is not empty (the rule for those is unclear).
func flush(items []TItem) bool {
	type lineRef struct {
		item, off, spaces int
	}
	var lines []lineRef
	atStart := true
	for i, it := range items {
		if it.Kind != TILit {
			if atStart {
				lines = append(lines, lineRef{-1, 0, 0})
			}
			atStart = false
			continue
		}
		off := 0
		for off < len(it.Lit) {
			end := strings.IndexByte(it.Lit[off:], '\n')
			var line string
			hasNL := end >= 0
			if hasNL {
				line = it.Lit[off : off+end]
			} else {
				line = it.Lit[off:]
			}
			if atStart {
				trimmed := strings.TrimLeftFunc(line, unicode.IsSpace)
				switch {
				case trimmed == "" && hasNL && line == "":
					// empty line: not counted, not changed
				case trimmed == "" && hasNL:
					return false
				default:
					sp := 0
					for range line[:len(line)-len(trimmed)] {
						sp++
					}
					lines = append(lines, lineRef{i, off, sp})
				}
			}
			if hasNL {
				off += end + 1
				atStart = true
			} else {
				off = len(it.Lit)
				atStart = false
			}
		}
	}
	min := -1
	for _, l := range lines {
		if min < 0 || l.spaces < min {
			min = l.spaces
		}
	}
	if min <= 0 {
		return true
	}
	// remove from the back so offsets stay valid
	for j := len(lines) - 1; j >= 0; j-- {
		l := lines[j]
		if l.item < 0 {
			continue
		}
		lit := items[l.item].Lit
		cut := l.off
		for k := 0; k < min; k++ {
			_, w := firstRune(lit[cut:])
			cut += w
		}
		items[l.item].Lit = lit[:l.off] + lit[cut:]
	}
	return true
}

func firstRune(s string) (rune, int) {
	for i, r := range s {
		_ = i
		return r, len(string(r))
	}
	return 0, 0
}

// tmplSeq evaluates items from *pos until an else/endif/endfor at this nesting level.
func (ev *Evaluator) tmplSeq(items []TItem, pos *int, env *Env, depth int) (string, *Res) {
	var sb strings.Builder
	var bad *Res
	note := func(r Res) {
		if r.St == stErr && (bad == nil || bad.St != stErr) {
			bad = &r
		} else if r.St == stUnspec && bad == nil {
			bad = &r
		}
	}
	for *pos < len(items) {
		it := items[*pos]
		switch it.Kind {
		case TILit:
			sb.WriteString(it.Lit)
			*pos++
		case TIInterp:
			*pos++
			r := ev.Eval(it.E, env)
			if !r.bad() {
				r = ev.toStr(r.V)
			}
			if r.bad() {
				note(r)
				continue
			}
			sb.WriteString(r.V.S)
		case TIElse, TIEndIf, TIEndFor:
			if depth == 0 {
				panic("generator produced an unbalanced template")
			}
			return sb.String(), bad
		case TIIf:
			*pos++
			c := ev.Eval(it.E, env)
			if !c.bad() {
				c = ev.toBool(c.V)
			}
			thenS, thenBad := ev.tmplSeq(items, pos, env, depth+1)
			elseS, elseBad := "", (*Res)(nil)
			if items[*pos].Kind == TIElse {
				*pos++
				elseS, elseBad = ev.tmplSeq(items, pos, env, depth+1)
			}
			if items[*pos].Kind != TIEndIf {
				panic("generator produced an unbalanced template")
			}
			*pos++
			if c.bad() {
				note(c)
				continue
			}
			chosenS, chosenBad, otherBad := thenS, thenBad, elseBad
			if !c.V.B {
				chosenS, chosenBad, otherBad = elseS, elseBad, thenBad
			}
			if chosenBad != nil {
				note(*chosenBad)
				continue
			}
			if otherBad != nil {
				note(unspec("if-directive-unchosen-branch-error"))
				continue
			}
			sb.WriteString(chosenS)
		case TIFor:
			*pos++
			c := ev.Eval(it.E, env)
			bodyStart := *pos
			var elems []kv
			if !c.bad() {
				if c.V.K == KNull {
					c = fail("for-over-null")
				} else if e, good := iterate(c.V); good {
					elems = e
				} else {
					c = fail("for-over-non-iterable")
				}
			}
			if c.bad() || len(elems) == 0 {
				// skip the body
				skipEnv := env.child(map[string]*Val{})
				savedBad := bad
				ev.skipBody(items, pos, skipEnv)
				bad = savedBad
				if c.bad() {
					note(c)
				}
				continue
			}
			for _, e := range elems {
				vars := map[string]*Val{it.ValVar: e.v}
				if it.KeyVar != "" {
					vars[it.KeyVar] = e.k
				}
				*pos = bodyStart
				s, b := ev.tmplSeq(items, pos, env.child(vars), depth+1)
				if items[*pos].Kind != TIEndFor {
					panic("generator produced an unbalanced template")
				}
				if b != nil {
					note(*b)
				}
				sb.WriteString(s)
			}
			*pos++
		}
	}
	if depth != 0 {
		panic("generator produced an unbalanced template")
	}
	return sb.String(), bad
}

// skipBody advances *pos past the endfor matching an already consumed for.
func (ev *Evaluator) skipBody(items []TItem, pos *int, env *Env) {
	depth := 0
	for *pos < len(items) {
		k := items[*pos].Kind
		*pos++
		switch k {
		case TIFor:
			depth++
		case TIEndFor:
			if depth == 0 {
				return
			}
			depth--
		}
	}
	panic("generator produced an unbalanced template")
}

// nfc: the only decomposed sequences the generator and the calibration corpus use.
func nfc(s string) string {
	if !strings.ContainsAny(s, "\u0303\u0301") {
		return s
	}
	s = strings.ReplaceAll(s, "n\u0303", "\u00f1")
	s = strings.ReplaceAll(s, "e\u0301", "\u00e9")
	return s
}
