package c18

import (
	"sort"
	"strings"
)

// One violation candidate; per signature the smallest example is kept so that the
// report does not depend on goroutine scheduling.
type Finding struct {
	Class      string   `json:"class"`
	Constructs []string `json:"constructs"`
	Family     string   `json:"family"`
	Size       int      `json:"tree_size"`
	Sources    []string `json:"sources"`    // minimal parens / fully parenthesised / spaced
	ParsedAs   []string `json:"parsed_as"`
	Reference  string   `json:"reference"`
	Impl       []string `json:"implementation"`
	Count      int      `json:"count"`
}

func (f *Finding) Signature() string { return f.Class + "/" + strings.Join(f.Constructs, "+") }

func (f *Finding) better(g *Finding) bool {
	if f.Size != g.Size {
		return f.Size < g.Size
	}
	if len(f.Sources[0]) != len(g.Sources[0]) {
		return len(f.Sources[0]) < len(g.Sources[0])
	}
	return f.Sources[0] < g.Sources[0]
}

type Stats struct {
	Trees      int64
	Evals      int64 // implementation evaluations (3 per tree)
	JudgedOK   int64
	JudgedErr  int64
	Unspec     int64
	UnspecWhy  map[string]int64
	Outcomes   map[string]struct{}
	PerFamily  map[string]int64
}

func newStats() *Stats {
	return &Stats{UnspecWhy: map[string]int64{}, Outcomes: map[string]struct{}{}, PerFamily: map[string]int64{}}
}

func (s *Stats) merge(o *Stats) {
	s.Trees += o.Trees
	s.Evals += o.Evals
	s.JudgedOK += o.JudgedOK
	s.JudgedErr += o.JudgedErr
	s.Unspec += o.Unspec
	for k, v := range o.UnspecWhy {
		s.UnspecWhy[k] += v
	}
	for k := range o.Outcomes {
		s.Outcomes[k] = struct{}{}
	}
	for k, v := range o.PerFamily {
		s.PerFamily[k] += v
	}
}

// Checker is one worker's state.
type Checker struct {
	impl     *Impl
	eval     *Evaluator
	env      *Env
	Stats    *Stats
	Findings map[string]*Finding
	Samples  []sample
}

type sample struct {
	idx  int64
	data map[string]string
}

func NewChecker() *Checker {
	vars := GlobalVars()
	return &Checker{
		impl:     NewImpl(vars),
		eval:     &Evaluator{},
		env:      &Env{vars: vars},
		Stats:    newStats(),
		Findings: map[string]*Finding{},
	}
}

func parseModes(n *Node) [3]ParseAs {
	if n.K == NTemplate && n.Mode == TBare {
		return [3]ParseAs{AsTemplate, AsTemplate, AsTemplate}
	}
	return [3]ParseAs{AsExpr, AsExpr, AsAttr}
}

var parseAsName = [...]string{"ParseExpression", "ParseTemplate", "ParseConfig attribute value"}

func sigConstructs(n *Node) []string {
	set := map[string]struct{}{}
	n.constructs(set)
	var inner, leaves []string
	for k := range set {
		switch k {
		case "num", "str", "bool", "null", "var":
			leaves = append(leaves, k)
		default:
			inner = append(inner, k)
		}
	}
	if len(inner) == 0 {
		inner = leaves
	}
	sort.Strings(inner)
	return inner
}

func refString(r Res) string {
	switch r.St {
	case stOK:
		return r.V.String()
	case stErr:
		return "must be an error diagnostic (" + r.Why + ")"
	}
	return "unspecified (" + r.Why + ")"
}

// Check evaluates one tree both ways and records disagreement.
func (c *Checker) Check(n *Node, family string, idx int64) {
	ref := c.eval.Eval(n, c.env)
	modes := parseModes(n)
	var srcs [3]string
	var res [3]ImplRes
	for st := 0; st < 3; st++ {
		srcs[st] = Print(n, st)
		res[st] = c.impl.Run(srcs[st], modes[st])
	}
	s := c.Stats
	s.Trees++
	s.Evals += 3
	s.PerFamily[family]++

	class := ""
	switch {
	case res[0].Panic != "" || res[1].Panic != "" || res[2].Panic != "":
		class = "panic"
	case !sameImpl(res[0], res[1]):
		class = "parenthesised-form-differs"
	case !sameImpl(res[0], res[2]):
		class = "spaced-form-differs"
	}
	switch ref.St {
	case stUnspec:
		s.Unspec++
		s.UnspecWhy[ref.Why]++
		s.Outcomes[family+":unspecified:"+cut(ref.Why)] = struct{}{}
		// a parse error is never acceptable: the generator only writes valid syntax
		if class == "" {
			for st := 0; st < 3; st++ {
				if res[st].ParseErr != "" {
					class = "parse-error"
				}
			}
		}
	case stErr:
		s.JudgedErr++
		s.Outcomes[family+":error:"+ref.Why] = struct{}{}
		if class == "" {
			for st := 0; st < 3; st++ {
				if res[st].ParseErr != "" {
					class = "parse-error"
				} else if !res[st].Failed() && class == "" {
					class = "missing-error"
				}
			}
		}
	case stOK:
		s.JudgedOK++
		s.Outcomes[family+":value:"+ref.V.K.String()] = struct{}{}
		if class == "" {
			for st := 0; st < 3; st++ {
				switch {
				case res[st].ParseErr != "":
					class = "parse-error"
				case res[st].EvalErr != "":
					if class == "" {
						class = "spurious-error"
					}
				case res[st].V == nil:
					if class == "" {
						class = "value-not-concrete"
					}
				case !valEq(res[st].V, ref.V):
					if class == "" {
						class = "wrong-value"
					}
				}
			}
		}
	}
	if idx%250007 == 1000 || (idx < 2000000 && idx%99991 == 500) {
		c.Samples = append(c.Samples, sample{idx, map[string]string{"family": family, "source": srcs[0], "spaced": srcs[2], "reference": refString(ref), "implementation": res[0].String()}})
	}
	if class == "" {
		return
	}
	f := &Finding{
		Class: class, Constructs: sigConstructs(n), Family: family, Size: n.Size(),
		Sources:   srcs[:],
		ParsedAs:  []string{parseAsName[modes[0]], parseAsName[modes[1]], parseAsName[modes[2]]},
		Reference: refString(ref),
		Impl:      []string{res[0].String(), res[1].String(), res[2].String()},
		Count:     1,
	}
	sig := f.Signature()
	if old, seen := c.Findings[sig]; seen {
		f.Count += old.Count
		if old.better(f) {
			old.Count = f.Count
			return
		}
	}
	c.Findings[sig] = f
}

func cut(s string) string {
	if i := strings.IndexByte(s, ':'); i >= 0 {
		return s[:i]
	}
	return s
}

// mergeFindings folds b into a.
func mergeFindings(a, b map[string]*Finding) {
	for sig, f := range b {
		if old, seen := a[sig]; seen {
			total := old.Count + f.Count
			if f.better(old) {
				a[sig] = f
			}
			a[sig].Count = total
		} else {
			a[sig] = f
		}
	}
}

// minimalFindings drops a finding when another one of the same class uses a strict
// subset of its constructs: the smaller one is the better description of the defect.
func minimalFindings(all map[string]*Finding) []*Finding {
	var list []*Finding
	for _, f := range all {
		list = append(list, f)
	}
	sort.Slice(list, func(i, j int) bool { return list[i].Signature() < list[j].Signature() })
	subset := func(a, b []string) bool { // a strict subset of b
		if len(a) >= len(b) {
			return false
		}
		set := map[string]struct{}{}
		for _, x := range b {
			set[x] = struct{}{}
		}
		for _, x := range a {
			if _, in := set[x]; !in {
				return false
			}
		}
		return true
	}
	var out []*Finding
	for _, f := range list {
		dominated := false
		for _, g := range list {
			if g != f && g.Class == f.Class && subset(g.Constructs, f.Constructs) {
				dominated = true
				break
			}
		}
		if !dominated {
			out = append(out, f)
		}
	}
	return out
}
