package c18

import (
	"fmt"
	"math/big"
	"sort"
	"strings"

	hcl "Havoc/pkg/profile/yaotl"
	"Havoc/pkg/profile/yaotl/ext/tryfunc"
	"Havoc/pkg/profile/yaotl/ext/userfunc"
	"Havoc/pkg/profile/yaotl/hclsyntax"
	"github.com/zclconf/go-cty/cty"
	"github.com/zclconf/go-cty/cty/function"
	"github.com/zclconf/go-cty/cty/function/stdlib"

	"verifmc/ev"
)

// ---- the shared variable environment --------------------------------------------------

func num(s string) *Val {
	r, good := parseDecimal(s)
	if !good {
		panic(s)
	}
	return vNum(r)
}

// GlobalVars is the environment every generated tree is evaluated in (both sides).
func GlobalVars() map[string]*Val {
	objA := func(a *Val, b string) *Val { return vObject(map[string]*Val{"a": a, "b": vStr(b)}) }
	loT := &Type{K: KObject, Keys: []string{"a", "b"}, Attrs: []*Type{tNum, tStr}}
	return map[string]*Val{
		"n":  num("5"),
		"nf": num("2.5"),
		"s":  vStr("7"),
		"sa": vStr("a"),
		"sp": vStr("  z"),
		"b":  vTrue,
		"x":  vStr("outer"),
		"t":  vTuple(num("1"), vStr("b"), vTrue),
		"l":  vList(tNum, num("10"), num("20"), num("30")),
		"ls": vList(tStr, vStr("p"), vStr("q")),
		"le": vList(tStr),
		"m":  vMap(tNum, map[string]*Val{"a": num("1"), "b": num("2")}),
		"o": vObject(map[string]*Val{
			"a": num("1"), "b": vStr("s"),
			"c": vTuple(num("1"), num("2")),
			"d": vObject(map[string]*Val{"e": vTrue}),
		}),
		"lo": vList(loT, objA(num("1"), "p"), objA(num("2"), "q")),
		"to": vTuple(
			vObject(map[string]*Val{"a": num("1")}),
			vObject(map[string]*Val{"a": vStr("z"), "b": num("2")}),
		),
		"tt": vTuple(vTuple(num("1"), num("2")), vTuple(num("3"))),
	}
}

const userFuncSrc = `
function "add" {
  params = [a, b]
  result = a + b
}
function "greet" {
  params = [name]
  result = "Hello, ${name}!"
}
function "list" {
  params         = []
  variadic_param = items
  result         = items
}
function "first" {
  params         = [x]
  variadic_param = more
  result         = x
}
function "rest" {
  params         = [h]
  variadic_param = x
  result         = x
}
function "vn" {
  params         = []
  variadic_param = n
  result         = n
}
`

func toCtyType(t *Type) cty.Type {
	switch t.K {
	case KNull:
		return cty.DynamicPseudoType
	case KBool:
		return cty.Bool
	case KNum:
		return cty.Number
	case KStr:
		return cty.String
	case KList:
		return cty.List(toCtyType(t.Elem))
	case KMap:
		return cty.Map(toCtyType(t.Elem))
	case KTuple:
		ts := make([]cty.Type, len(t.Elems))
		for i, e := range t.Elems {
			ts[i] = toCtyType(e)
		}
		return cty.Tuple(ts)
	case KObject:
		m := map[string]cty.Type{}
		for i, k := range t.Keys {
			m[k] = toCtyType(t.Attrs[i])
		}
		return cty.Object(m)
	}
	panic("bad type")
}

func toCty(v *Val) cty.Value {
	switch v.K {
	case KNull:
		return cty.NullVal(cty.DynamicPseudoType)
	case KBool:
		return cty.BoolVal(v.B)
	case KNum:
		return cty.MustParseNumberVal(decimalString(v.N)) // 512-bit precision, as a parsed literal has
	case KStr:
		return cty.StringVal(v.S)
	case KTuple:
		vs := make([]cty.Value, len(v.L))
		for i, e := range v.L {
			vs[i] = toCty(e)
		}
		return cty.TupleVal(vs)
	case KList:
		if len(v.L) == 0 {
			return cty.ListValEmpty(toCtyType(v.ET))
		}
		vs := make([]cty.Value, len(v.L))
		for i, e := range v.L {
			vs[i] = toCty(e)
		}
		return cty.ListVal(vs)
	case KObject, KMap:
		m := map[string]cty.Value{}
		for i, k := range v.Keys {
			m[k] = toCty(v.L[i])
		}
		if v.K == KObject {
			return cty.ObjectVal(m)
		}
		if len(m) == 0 {
			return cty.MapValEmpty(toCtyType(v.ET))
		}
		return cty.MapVal(m)
	}
	panic("bad value")
}

func fromCtyType(t cty.Type) (*Type, bool) {
	switch {
	case t == cty.DynamicPseudoType:
		return tNull, true
	case t == cty.Bool:
		return tBool, true
	case t == cty.Number:
		return tNum, true
	case t == cty.String:
		return tStr, true
	case t.IsListType():
		e, good := fromCtyType(t.ElementType())
		return &Type{K: KList, Elem: e}, good
	case t.IsMapType():
		e, good := fromCtyType(t.ElementType())
		return &Type{K: KMap, Elem: e}, good
	case t.IsTupleType():
		out := &Type{K: KTuple}
		for _, e := range t.TupleElementTypes() {
			x, good := fromCtyType(e)
			if !good {
				return nil, false
			}
			out.Elems = append(out.Elems, x)
		}
		return out, true
	case t.IsObjectType():
		out := &Type{K: KObject}
		at := t.AttributeTypes()
		for k := range at {
			out.Keys = append(out.Keys, k)
		}
		sort.Strings(out.Keys)
		for _, k := range out.Keys {
			x, good := fromCtyType(at[k])
			if !good {
				return nil, false
			}
			out.Attrs = append(out.Attrs, x)
		}
		return out, true
	}
	return nil, false
}

// fromCty converts an implementation result into the reference domain.  why != ""
// when the value has no counterpart there (unknown, infinity, set, capsule, marks).
func fromCty(v cty.Value) (out *Val, why string) {
	if v.IsMarked() {
		return nil, "marked-value"
	}
	if !v.IsKnown() {
		return nil, "unknown-value"
	}
	if v.IsNull() {
		return vNull, ""
	}
	t := v.Type()
	switch {
	case t == cty.Bool:
		return vBool(v.True()), ""
	case t == cty.String:
		return vStr(v.AsString()), ""
	case t == cty.Number:
		bf := v.AsBigFloat()
		if bf.IsInf() {
			return nil, "infinite-number"
		}
		r, _ := bf.Rat(nil)
		return &Val{K: KNum, N: r}, ""
	case t.IsTupleType() || t.IsListType():
		o := &Val{K: KTuple, L: []*Val{}}
		if t.IsListType() {
			et, good := fromCtyType(t.ElementType())
			if !good {
				return nil, "exotic-type"
			}
			o.K, o.ET = KList, et
		}
		for it := v.ElementIterator(); it.Next(); {
			_, e := it.Element()
			x, w := fromCty(e)
			if w != "" {
				return nil, w
			}
			o.L = append(o.L, x)
		}
		return o, ""
	case t.IsObjectType() || t.IsMapType():
		m := map[string]*Val{}
		for k, e := range v.AsValueMap() {
			x, w := fromCty(e)
			if w != "" {
				return nil, w
			}
			m[k] = x
		}
		o := vObject(m)
		if t.IsMapType() {
			et, good := fromCtyType(t.ElementType())
			if !good {
				return nil, "exotic-type"
			}
			o.K, o.ET = KMap, et
		}
		return o, ""
	}
	return nil, "exotic-type:" + t.FriendlyName()
}

// ---- driving the real code ------------------------------------------------------------------

// Impl holds one worker's evaluation context (nothing in it is shared between workers).
type Impl struct {
	ctx *hcl.EvalContext
}

func NewImpl(vars map[string]*Val) *Impl {
	f, diags := hclsyntax.ParseConfig([]byte(userFuncSrc), "userfuncs.hcl", hcl.InitialPos)
	if diags.HasErrors() {
		panic("userfunc source does not parse: " + diags.Error())
	}
	funcs := map[string]function.Function{
		"upper": stdlib.UpperFunc,
		"min":   stdlib.MinFunc,
		"try":   tryfunc.TryFunc,
		"can":   tryfunc.CanFunc,
	}
	ufuncs, _, diags := userfunc.DecodeUserFunctions(f.Body, "function", func() *hcl.EvalContext {
		return &hcl.EvalContext{Functions: map[string]function.Function{"upper": stdlib.UpperFunc}}
	})
	if diags.HasErrors() {
		panic("userfunc decode: " + diags.Error())
	}
	for k, fn := range ufuncs {
		funcs[k] = fn
	}
	cv := map[string]cty.Value{}
	for k, v := range vars {
		cv[k] = toCty(v)
	}
	return &Impl{ctx: &hcl.EvalContext{Variables: cv, Functions: funcs}}
}

type ParseAs uint8

const (
	AsExpr ParseAs = iota
	AsTemplate
	AsAttr // value of attribute x in a configuration body
)

type ImplRes struct {
	Val      cty.Value
	V        *Val   // converted, nil if not convertible
	Exotic   string // why not convertible
	ParseErr string
	EvalErr  string
	Panic    string
}

func (r ImplRes) Failed() bool { return r.ParseErr != "" || r.EvalErr != "" }

func (r ImplRes) String() string {
	switch {
	case r.Panic != "":
		return "PANIC " + r.Panic
	case r.ParseErr != "":
		return "parse error: " + r.ParseErr
	case r.EvalErr != "":
		return "error: " + r.EvalErr
	case r.V != nil:
		return r.V.String()
	}
	return "value outside the reference domain (" + r.Exotic + "): " + r.Val.GoString()
}

func diagText(d hcl.Diagnostics) string {
	for _, x := range d {
		if x.Severity == hcl.DiagError {
			return x.Summary + ": " + x.Detail
		}
	}
	return ""
}

func (im *Impl) Run(src string, as ParseAs) (res ImplRes) {
	defer func() {
		if p := recover(); p != nil {
			res = ImplRes{Panic: ev.Normalize(fmt.Sprint(p))}
		}
	}()
	var e hcl.Expression
	var diags hcl.Diagnostics
	switch as {
	case AsExpr:
		e, diags = hclsyntax.ParseExpression([]byte(src), "c18.hcl", hcl.InitialPos)
	case AsTemplate:
		e, diags = hclsyntax.ParseTemplate([]byte(src), "c18.hcl", hcl.InitialPos)
	case AsAttr:
		var f *hcl.File
		f, diags = hclsyntax.ParseConfig([]byte("x = "+src+"\n"), "c18.hcl", hcl.InitialPos)
		if !diags.HasErrors() {
			attrs, d2 := f.Body.JustAttributes()
			diags = append(diags, d2...)
			if a, found := attrs["x"]; found && len(attrs) == 1 {
				e = a.Expr
			} else if !diags.HasErrors() {
				return ImplRes{ParseErr: fmt.Sprintf("configuration body has %d attributes instead of the one written", len(attrs))}
			}
		}
	}
	if diags.HasErrors() {
		return ImplRes{ParseErr: diagText(diags)}
	}
	v, diags := e.Value(im.ctx)
	if diags.HasErrors() {
		return ImplRes{Val: v, EvalErr: diagText(diags)}
	}
	out, why := fromCty(v)
	return ImplRes{Val: v, V: out, Exotic: why}
}

// sameImpl: do two renderings of one tree behave the same?
func sameImpl(a, b ImplRes) bool {
	if a.Panic != "" || b.Panic != "" {
		return a.Panic == b.Panic
	}
	if a.Failed() != b.Failed() {
		return false
	}
	if a.Failed() {
		return true
	}
	return a.Val.RawEquals(b.Val) || (a.V != nil && b.V != nil && valEq(a.V, b.V))
}

var _ = big.NewInt
var _ = strings.TrimSpace
