package c18

import "strings"

// The typed grammar.  Each family enumerates ALL trees of its sub-grammar up to its
// bound (no sampling); the families differ only in which productions and leaves they
// allow, so that every construct of the property statement is reached within the
// bound.  Generation order is deterministic.

type Family struct {
	Name  string
	Bound string
	Gen   func(yield func(*Node))
}

func ident(name string) ObjKey  { return ObjKey{Kind: 0, Name: name} }
func exprKey(e *Node) ObjKey    { return ObjKey{Kind: 1, E: e} }
func attrStep(n string) Step    { return Step{Kind: 0, Name: n} }
func idxStep(k *Node) Step      { return Step{Kind: 1, Key: k} }
func splatStep(sub ...Step) Step { return Step{Kind: 2, Sub: sub} }

func obj(kv ...interface{}) *Node {
	var keys []ObjKey
	var vals []*Node
	for i := 0; i < len(kv); i += 2 {
		switch k := kv[i].(type) {
		case string:
			keys = append(keys, ident(k))
		case *Node:
			keys = append(keys, exprKey(k))
		}
		vals = append(vals, kv[i+1].(*Node))
	}
	return Object(keys, vals)
}

var unaryOps = []string{"-", "!"}
var binaryOps = []string{"||", "&&", "==", "!=", "<", "<=", ">", ">=", "+", "-", "*", "/", "%"}

// ---- family ops: scalar operators, all trees by node count ---------------------------------

type opsGen struct {
	leaves []*Node
	by     [][]*Node // stored lists for small sizes
	stored int
}

func newOpsGen(leaves []*Node, stored int) *opsGen {
	g := &opsGen{leaves: leaves, stored: stored}
	g.by = make([][]*Node, stored+1)
	for s := 1; s <= stored; s++ {
		var list []*Node
		g.build(s, func(n *Node) { n.Size(); list = append(list, n) })
		g.by[s] = list
	}
	return g
}

// each yields every tree with exactly s nodes.
func (g *opsGen) each(s int, yield func(*Node)) {
	if s <= g.stored && g.by[s] != nil {
		for _, n := range g.by[s] {
			yield(n)
		}
		return
	}
	g.build(s, yield)
}

func (g *opsGen) build(s int, yield func(*Node)) {
	if s == 1 {
		for _, l := range g.leaves {
			yield(l)
		}
		return
	}
	g.each(s-1, func(k *Node) {
		for _, op := range unaryOps {
			yield(Un(op, k))
		}
	})
	for a := 1; a <= s-2; a++ {
		b := s - 1 - a
		g.each(a, func(x *Node) {
			g.each(b, func(y *Node) {
				for _, op := range binaryOps {
					yield(Bin(op, x, y))
				}
			})
		})
	}
	for a := 1; a <= s-3; a++ {
		for b := 1; a+b <= s-2; b++ {
			c := s - 1 - a - b
			g.each(a, func(x *Node) {
				g.each(b, func(y *Node) {
					g.each(c, func(z *Node) { yield(Cond(x, y, z)) })
				})
			})
		}
	}
}

func opsLeaves(trim bool) []*Node {
	l := []*Node{
		Num("0"), Num("1"), Num("2"), Num("3.5"), Num("1e2"), Num("1180591620717411303424"),
		Bool(true), Bool(false), Null(),
		Str(""), Str("a"), Str("1"), Str("true"),
		Var("n"), Var("s"), Var("b"), Var("u"),
	}
	if trim {
		l = []*Node{Num("0"), Num("2"), Num("3.5"), Bool(true), Null(), Str("a"), Str("1"), Var("n"), Var("u")}
	}
	return l
}

func famOps(name string, leaves []*Node, max int) Family {
	return Family{Name: name, Bound: "all trees of <= " + itoa(max) + " nodes over " + itoa(len(leaves)) + " leaves, 2 unary, 13 binary operators and ?:",
		Gen: func(yield func(*Node)) {
			st := max - 1
			if st > 4 {
				st = 4
			}
			g := newOpsGen(leaves, st)
			for s := 1; s <= max; s++ {
				g.each(s, yield)
			}
		}}
}

func itoa(i int) string {
	if i == 0 {
		return "0"
	}
	s := ""
	for i > 0 {
		s = string(rune('0'+i%10)) + s
		i /= 10
	}
	return s
}

// ---- family typed: well-typed scalar operator trees ---------------------------------------
//
// Static categories: N (number or numeric string), B (bool or "true"), S (other
// string), Z (null).  Operators are applied only to operands of a category they
// accept, so almost every tree has a value; family "ops" above is the untyped
// counterpart that mostly exercises the error rules.

var verySmallLeaves = false // set only while building the size-8 family

const (
	catN = iota
	catB
	catS
	catZ
	nCats
)

type typedGen struct {
	by     [][nCats][]*Node
	stored int
	leaves [nCats][]*Node
}

func typedLeaves(trim bool) [nCats][]*Node {
	if trim && verySmallLeaves {
		return [nCats][]*Node{
			{Num("2"), Num("3.5"), Var("n")},
			{Bool(true), Var("b")},
			{Str("a")},
			{Null()},
		}
	}
	if trim {
		return [nCats][]*Node{
			{Num("1"), Num("2"), Num("3.5"), Var("n"), Str("1")},
			{Bool(true), Var("b")},
			{Str("a")},
			{Null()},
		}
	}
	return [nCats][]*Node{
		{Num("0"), Num("1"), Num("2"), Num("3.5"), Num("1e2"), Num("1180591620717411303424"), Str("1"), Var("n"), Var("s"), Var("nf"), Num("1.5E+1"), Num("0.25")},
		{Bool(true), Bool(false), Str("true"), Var("b")},
		{Str(""), Str("a"), Var("sa")},
		{Null()},
	}
}

func newTypedGen(leaves [nCats][]*Node, stored int) *typedGen {
	g := &typedGen{leaves: leaves, stored: stored}
	g.by = make([][nCats][]*Node, stored+1)
	for s := 1; s <= stored; s++ {
		for c := 0; c < nCats; c++ {
			var list []*Node
			g.build(s, c, func(n *Node) { n.Size(); list = append(list, n) })
			g.by[s][c] = list
		}
	}
	return g
}

func (g *typedGen) each(s, c int, yield func(*Node)) {
	if s <= g.stored {
		for _, n := range g.by[s][c] {
			yield(n)
		}
		return
	}
	g.build(s, c, yield)
}

func (g *typedGen) pairs(s int, ca, cb int, ops []string, yield func(*Node)) {
	for a := 1; a <= s-2; a++ {
		b := s - 1 - a
		g.each(a, ca, func(x *Node) {
			g.each(b, cb, func(y *Node) {
				for _, op := range ops {
					yield(Bin(op, x, y))
				}
			})
		})
	}
}

func (g *typedGen) conds(s int, ct, cf int, yield func(*Node)) {
	for a := 1; a <= s-3; a++ {
		for b := 1; a+b <= s-2; b++ {
			c := s - 1 - a - b
			g.each(a, catB, func(x *Node) {
				g.each(b, ct, func(y *Node) {
					g.each(c, cf, func(z *Node) { yield(Cond(x, y, z)) })
				})
			})
		}
	}
}

func (g *typedGen) build(s, c int, yield func(*Node)) {
	if s == 1 {
		for _, l := range g.leaves[c] {
			yield(l)
		}
		return
	}
	switch c {
	case catN:
		g.each(s-1, catN, func(k *Node) { yield(Un("-", k)) })
		g.pairs(s, catN, catN, []string{"+", "-", "*", "/", "%"}, yield)
		g.conds(s, catN, catN, yield)
		g.conds(s, catN, catZ, yield)
		g.conds(s, catZ, catN, yield)
	case catB:
		g.each(s-1, catB, func(k *Node) { yield(Un("!", k)) })
		g.pairs(s, catN, catN, []string{"<", "<=", ">", ">="}, yield)
		g.pairs(s, catB, catB, []string{"&&", "||"}, yield)
		for ca := 0; ca < nCats; ca++ {
			for cb := 0; cb < nCats; cb++ {
				g.pairs(s, ca, cb, []string{"==", "!="}, yield)
			}
		}
		g.conds(s, catB, catB, yield)
		g.conds(s, catB, catZ, yield)
	case catS:
		g.conds(s, catS, catS, yield)
		g.conds(s, catS, catN, yield) // number and string unify to string
		g.conds(s, catB, catS, yield) // bool and string unify to string
		g.conds(s, catS, catZ, yield)
	case catZ:
		g.conds(s, catZ, catZ, yield)
	}
}

func famTyped(name string, trim bool, min, max int) Family {
	what := "12 number-like, 4 bool-like, 3 string, null leaves"
	if trim {
		what = "5 number-like, 2 bool-like, 1 string, null leaves"
	}
	if name == "typed-deepest" {
		what = "3 number-like, 2 bool-like, 1 string, null leaves"
	}
	return Family{Name: name, Bound: "all well-typed operator trees of " + itoa(min) + ".." + itoa(max) + " nodes (typed grammar: arithmetic and comparison over number-like, logic over bool-like, equality over every pair of categories, conditionals with unifiable branches) over " + what,
		Gen: func(yield func(*Node)) {
			st := max - 1
			if st > 4 {
				st = 4
			}
			verySmallLeaves = name == "typed-deepest"
			g := newTypedGen(typedLeaves(trim), st)
			verySmallLeaves = false
			for s := min; s <= max; s++ {
				for c := 0; c < nCats; c++ {
					g.each(s, c, yield)
				}
			}
		}}
}

// ---- family access: constructors, index, attribute, splats -----------------------------------

func accessBases() []*Node {
	return []*Node{
		Var("t"), Var("l"), Var("le"), Var("m"), Var("o"), Var("lo"), Var("to"), Var("tt"),
		Var("n"), Var("s"), Null(), Var("u"),
		Tuple(Num("1"), Str("a")), Tuple(),
		obj("a", Num("1"), "b", Str("x")), obj(),
	}
}

type postfix func(base *Node) *Node

func postfixOps() []postfix {
	var ops []postfix
	keys := []*Node{
		Num("0"), Num("1"), Num("2"), Num("5"), Un("-", Num("1")), Num("1.5"), Num("1e0"),
		Str("a"), Str("1"), Str("zz"), Null(), Bool(true), Var("n"), Var("sa"), Str("d"),
		Tmpl(TQuoted, TInterp(Var("sa"), false, false)), Tmpl(TQuoted, TLit("z"), TInterp(Var("sa"), false, false)),
		// template keys that END in literal text after a sequence (a key that is not a constant
		// although its last part is one): "az" names nothing, the other two spell "a"
		Tmpl(TQuoted, TInterp(Var("sa"), false, false), TLit("z")),
		Tmpl(TQuoted, TInterp(Str(""), false, false), TLit("a")),
		Tmpl(TQuoted, TIf(Var("b"), false, false), TEndIf(false, false), TLit("a")),
	}
	for _, k := range keys {
		k := k
		ops = append(ops, func(b *Node) *Node { return Index(b, k) })
	}
	for _, a := range []string{"a", "b", "c", "d", "e", "zz"} {
		a := a
		ops = append(ops, func(b *Node) *Node { return Attr(b, a) })
	}
	full := [][]Step{
		{}, {attrStep("a")}, {attrStep("b")}, {attrStep("zz")},
		{idxStep(Num("0"))}, {idxStep(Num("1"))}, {idxStep(Str("a"))},
		{attrStep("c"), idxStep(Num("0"))}, {attrStep("d"), attrStep("e")},
		{splatStep()}, {splatStep(idxStep(Num("0")))}, {attrStep("c"), splatStep()},
	}
	for _, st := range full {
		st := st
		ops = append(ops, func(b *Node) *Node { return Splat(true, b, st...) })
	}
	attrOnly := [][]Step{{}, {attrStep("a")}, {attrStep("b")}, {attrStep("zz")}, {attrStep("d"), attrStep("e")}, {attrStep("c")}}
	for _, st := range attrOnly {
		st := st
		ops = append(ops, func(b *Node) *Node { return Splat(false, b, st...) })
	}
	return ops
}

func famAccess(depth int) Family {
	return Family{Name: "access", Bound: "16 collection/scalar bases x all chains of <= " + itoa(depth) + " postfix operations out of 44 (20 index keys, 6 attributes, 12 full splats, 6 attribute-only splats)",
		Gen: func(yield func(*Node)) {
			ops := postfixOps()
			var rec func(n *Node, d int)
			rec = func(n *Node, d int) {
				yield(n)
				if d == depth {
					return
				}
				for _, op := range ops {
					rec(op(n), d+1)
				}
			}
			for _, b := range accessBases() {
				rec(b, 0)
			}
		}}
}

func famCons(thorough bool) Family {
	return Family{Name: "cons", Bound: "tuple constructors of <= 3 elements over 9 element expressions; object constructors of <= 2 items over 12 key forms x 6 values",
		Gen: func(yield func(*Node)) {
			elems := []*Node{Num("1"), Str("a"), Bool(true), Null(), Var("n"), Var("u"), Tuple(Num("2")), obj("a", Num("1")), Bin("+", Num("1"), Var("n"))}
			yield(Tuple())
			for _, a := range elems {
				yield(Tuple(a))
				for _, b := range elems {
					yield(Tuple(a, b))
					for _, c := range elems {
						yield(Tuple(a, b, c))
					}
				}
			}
			keys := []ObjKey{
				ident("a"), ident("b"), ident("n"), exprKey(Str("a")), exprKey(Var("sa")), exprKey(Var("n")), exprKey(Num("1")),
				exprKey(Tmpl(TQuoted, TLit("k"), TInterp(Var("n"), false, false))),
				exprKey(Var("nf")), exprKey(Var("b")), exprKey(Var("t")), exprKey(Var("u")),
				exprKey(Bin("+", Num("1"), Num("1"))), exprKey(Cond(Var("b"), Null(), Str("z"))),
			}
			vals := []*Node{Num("1"), Str("v"), Null(), Var("u"), Tuple(Num("1")), obj("z", Bool(true))}
			yield(obj())
			for _, k := range keys {
				for _, v := range vals {
					yield(Object([]ObjKey{k}, []*Node{v}))
					for _, k2 := range keys {
						for _, v2 := range vals {
							n := Object([]ObjKey{k, k2}, []*Node{v, v2})
							yield(n)
							if thorough {
								yield(Attr(n, "a"))
								yield(Index(n, Str("5")))
							}
						}
					}
				}
			}
		}}
}

// ---- family for ---------------------------------------------------------------------------------

func famFor(thorough bool) Family {
	return Family{Name: "for", Bound: "13 collections x key variable or not x 11 value expressions x 13 conditions (tuple form); x 9 key expressions x 6 values x 8 conditions x grouping or not (object form); nested and shadowing forms",
		Gen: func(yield func(*Node)) {
			colls := []*Node{
				Var("l"), Var("le"), Var("t"), Var("m"), Var("o"), Var("lo"), Var("tt"),
				Tuple(Num("1"), Num("2"), Num("1")), obj("b", Num("2"), "a", Num("1")),
				Null(), Var("s"), Var("u"), Tuple(),
			}
			k, v := Var("k"), Var("v")
			vals := []*Node{
				v, k, Var("x"), Num("1"), Bin("+", v, Num("1")),
				Tmpl(TQuoted, TInterp(k, false, false), TLit("="), TInterp(v, false, false)),
				Tuple(k, v), Attr(v, "a"), Call("upper", v), Bin("*", v, k), Index(v, Num("0")),
			}
			conds := []*Node{
				nil, Bool(true), Bool(false), Bin(">", v, Num("15")), Bin("==", k, Num("0")), Bin("==", k, Str("a")),
				Bin("!=", v, Str("b")), Null(), Str("true"), v, Var("u"), Bin("==", v, Num("1")), Num("1"),
			}
			for _, c := range colls {
				for _, kv := range []string{"", "k"} {
					for _, val := range vals {
						for _, cond := range conds {
							yield(ForTuple(kv, "v", c, val, cond))
						}
					}
				}
			}
			keyEs := []*Node{k, v, Str("x"), Tmpl(TQuoted, TLit("p"), TInterp(v, false, false)), Null(), Num("1"), Tuple(v), Attr(v, "b"), Bin("+", v, Num("0.5"))}
			ovals := []*Node{v, k, Num("1"), Tuple(k, v), Attr(v, "a"), Var("x")}
			oconds := []*Node{nil, Bool(true), Bool(false), Bin(">", v, Num("15")), Bin("!=", k, Str("a")), Null(), Var("u"), Bin("==", v, Num("1"))}
			for _, c := range colls {
				for _, kv := range []string{"", "k"} {
					for _, ke := range keyEs {
						for _, val := range ovals {
							for _, cond := range oconds {
								yield(ForObject(kv, "v", c, ke, val, cond, false))
								yield(ForObject(kv, "v", c, ke, val, cond, true))
							}
						}
					}
				}
			}
			// iteration variables shadow outer variables and each other; nesting
			x := Var("x")
			w := Var("w")
			extra := []*Node{
				ForTuple("", "x", Var("l"), x, nil),
				ForTuple("k", "x", Var("m"), Tuple(k, x), nil),
				Tuple(ForTuple("", "x", Var("l"), x, nil), x),
				ForTuple("", "n", Var("l"), Bin("+", Var("n"), Num("1")), nil),
				ForTuple("", "v", Var("tt"), ForTuple("", "w", v, Bin("*", w, Num("2")), nil), nil),
				ForTuple("", "v", Var("l"), ForTuple("", "v", Var("t"), v, nil), nil),
				ForTuple("", "v", Var("l"), ForTuple("", "w", Var("t"), Tuple(v, w), nil), Bin(">", v, Num("10"))),
				ForTuple("i", "v", ForTuple("", "w", Var("l"), Bin("/", w, Num("10")), nil), Bin("*", v, Var("i")), nil),
				ForObject("k", "v", ForObject("k", "v", Var("m"), v, k, nil, false), v, k, nil, false),
				ForObject("", "v", Var("lo"), Attr(v, "b"), Attr(v, "a"), nil, false),
				ForObject("", "v", Var("to"), Attr(v, "a"), v, nil, false),
				ForObject("", "v", Var("ls"), v, Call("upper", v), nil, false),
				ForObject("", "v", Tuple(Str("b"), Str("a"), Str("b")), v, Num("1"), nil, true),
				Index(ForTuple("", "v", Var("l"), v, Bin(">", v, Num("10"))), Num("0")),
				Attr(ForObject("k", "v", Var("m"), k, Bin("*", v, Num("2")), nil, false), "b"),
				ForTuple("", "v", Cond(Var("b"), Var("l"), Var("le")), v, nil),
				ForTuple("", "v", Var("l"), Cond(Bin(">", v, Num("10")), v, Null()), nil),
			}
			for _, e := range extra {
				yield(e)
			}
			if thorough {
				// every pair (outer value expr is an inner for over the element)
				for _, c := range []*Node{Var("tt"), Var("lo"), Var("l"), Var("m")} {
					for _, inner := range []*Node{Var("v"), Var("t"), Var("m"), Tuple(v, v)} {
						for _, ival := range []*Node{w, Tuple(v, w), Bin("+", w, Num("1")), k} {
							for _, cond := range []*Node{nil, Bin("!=", w, Num("1")), Bin("==", k, Num("0"))} {
								yield(ForTuple("k", "v", c, ForTuple("", "w", inner, ival, cond), nil))
							}
						}
					}
				}
			}
		}}
}

func famForDeep() Family {
	return Family{Name: "for-deep", Bound: "tuple for-expressions over 6 collections x key variable or not x every operator tree of <= 3 nodes over {v, k, 1, \"a\"} as value x (no condition | every operator tree of <= 3 nodes over {v, k, 1, \"a\", true} as condition)",
		Gen: func(yield func(*Node)) {
			var vals, conds []*Node
			g := newOpsGen([]*Node{Var("v"), Var("k"), Num("1"), Str("a")}, 3)
			for s := 1; s <= 3; s++ {
				g.each(s, func(n *Node) { vals = append(vals, n) })
			}
			g2 := newOpsGen([]*Node{Var("v"), Var("k"), Num("1"), Str("a"), Bool(true)}, 3)
			conds = append(conds, nil)
			for s := 1; s <= 3; s++ {
				g2.each(s, func(n *Node) { conds = append(conds, n) })
			}
			for _, c := range []*Node{Var("l"), Var("t"), Var("m"), Var("o"), Var("ls"), Var("le")} {
				for _, kv := range []string{"", "k"} {
					for _, val := range vals {
						for _, cond := range conds {
							yield(ForTuple(kv, "v", c, val, cond))
						}
					}
				}
			}
		}}
}

// ---- family calls ----------------------------------------------------------------------------------

func famCalls(thorough bool) Family {
	return Family{Name: "calls", Bound: "11 function names (upper, min, add/greet/list/first/rest/vn from ext/userfunc - four of them variadic, with parameter names that collide with each other's and with a variable of the calling scope -, try, can, an undefined one) x all argument lists of <= 3 out of 14 expressions, with and without final-argument expansion; every two-level nesting of 7 outer x 80 inner calls; try/can inside for, splat, conditional and template scopes",
		Gen: func(yield func(*Node)) {
			names := []string{"upper", "min", "add", "greet", "list", "try", "can", "nope", "first", "rest", "vn"}
			pool := []*Node{
				Num("1"), Num("2"), Str("a"), Str("7"), Bool(true), Null(), Var("n"), Var("s"), Var("u"),
				Var("l"), Var("t"), Attr(Var("o"), "zz"), Tuple(Num("1"), Num("2")), Num("3.5"),
			}
			if thorough {
				pool = append(pool, Var("le"), Tuple(), Var("m"), Bin("/", Num("1"), Num("0")))
			}
			for _, name := range names {
				yield(Call(name))
				var rec func(args []*Node)
				rec = func(args []*Node) {
					if len(args) > 0 {
						yield(Call(name, args...))
						yield(CallExpand(name, args...))
					}
					if len(args) == 3 {
						return
					}
					for _, p := range pool {
						next := append(append([]*Node{}, args...), p)
						rec(next)
					}
				}
				rec(nil)
			}
			// nested calls: outer(inner(x[, y])[, z])
			xs := []*Node{Num("1"), Str("a"), Var("u"), Var("l")}
			var inner []*Node
			for _, x := range xs {
				for _, y := range xs {
					inner = append(inner, Call("min", x, y), Call("add", x, y), Call("try", x, y), Call("list", x, y))
				}
				inner = append(inner, Call("upper", x), Call("greet", x), Call("can", x), Call("nope", x), CallExpand("list", x), CallExpand("min", x))
			}
			for _, outer := range []string{"upper", "min", "add", "greet", "list", "try", "can"} {
				for _, in := range inner {
					yield(Call(outer, in))
					yield(CallExpand(outer, in))
					for _, z := range xs {
						yield(Call(outer, in, z))
						yield(Call(outer, z, in))
					}
				}
			}
			// try / can closures inside other scopes
			v := Var("v")
			for _, e := range []*Node{
				Call("try", Index(Var("l"), Num("5")), Index(Var("l"), Num("0"))),
				Call("can", Index(Var("l"), Num("5"))),
				ForTuple("", "v", Var("to"), Call("try", Attr(v, "b"), Str("none")), nil),
				ForTuple("", "v", Var("to"), v, Call("can", Attr(v, "b"))),
				ForObject("k", "v", Var("m"), Var("k"), Call("try", Attr(v, "zz"), Bin("*", v, Num("2"))), nil, false),
				Call("try", Splat(true, Var("lo"), attrStep("zz")), Splat(true, Var("lo"), attrStep("a"))),
				Cond(Call("can", Var("u")), Num("1"), Num("2")),
				Call("try", Call("try", Var("u")), Num("3")),
				Call("can", Call("try", Var("u"))),
				Tmpl(TQuoted, TLit("v="), TInterp(Call("try", Var("u"), Str("dflt")), false, false)),
				Tmpl(TQuoted, TFor("", "v", Var("to"), false, false), TInterp(Call("try", Attr(v, "b"), Str("-")), false, false), TEndFor(false, false)),
				Call("add", Call("min", Num("1"), Num("2")), Call("add", Var("n"), Num("1"))),
				Index(Call("list", Num("1"), Str("a")), Num("1")),
				Attr(Call("try", Var("o"), Null()), "a"),
				Splat(true, Call("list", Var("o"), Var("o")), attrStep("a")),
			} {
				yield(e)
			}
		}}
}

// ---- family mixed: operators over composite terms -----------------------------------------------------

func mixedTerms(thorough bool) []*Node {
	v := Var("v")
	t := []*Node{
		Index(Var("l"), Num("0")), Attr(Var("o"), "a"), Attr(Attr(Var("o"), "d"), "e"),
		Tmpl(TQuoted, TLit("x"), TInterp(Var("n"), false, false)),
		Call("min", Num("1"), Num("2")), Index(ForTuple("", "v", Var("l"), v, nil), Num("1")),
		Index(Var("t"), Num("1")), Call("upper", Var("sa")), Index(Var("m"), Str("a")),
		Call("try", Var("u"), Num("1")), Call("can", Var("u")), Num("2"), Bool(false), Str("7"),
	}
	if thorough {
		t = append(t,
			Index(Splat(true, Var("lo"), attrStep("a")), Num("1")),
			Index(Splat(false, Var("lo"), attrStep("a")), Num("0")),
			Attr(obj("a", Num("1")), "a"), Index(Tuple(Num("1"), Num("2")), Num("1")),
			Index(Var("l"), Num("9")), Null(), Tmpl(TQuoted, TInterp(Var("b"), false, false)),
		)
	}
	return t
}

func famMixed(thorough bool) Family {
	return Family{Name: "mixed", Bound: "unary, binary (one and two operators, both shapes) and conditional operators over composite terms (index, attribute, call, template, for, splat results)",
		Gen: func(yield func(*Node)) {
			terms := mixedTerms(thorough)
			for _, a := range terms {
				for _, op := range unaryOps {
					yield(Un(op, a))
					yield(Un(op, Un(op, a)))
				}
			}
			for _, a := range terms {
				for _, b := range terms {
					for _, op := range binaryOps {
						yield(Bin(op, a, b))
						yield(Bin(op, Un("-", a), b))
						yield(Bin(op, a, Un("!", b)))
						yield(Un("-", Bin(op, a, b)))
						yield(Un("!", Bin(op, a, b)))
					}
					yield(Cond(a, b, a))
					yield(Cond(Bool(true), a, b))
					yield(Cond(Bool(false), a, b))
				}
			}
			small := terms
			if !thorough && len(small) > 8 {
				small = []*Node{terms[0], terms[1], terms[2], terms[3], terms[4], terms[10], terms[11], terms[12]}
			}
			for _, a := range small {
				for _, b := range small {
					for _, c := range small {
						for _, op1 := range binaryOps {
							for _, op2 := range binaryOps {
								yield(Bin(op2, Bin(op1, a, b), c))
								yield(Bin(op1, a, Bin(op2, b, c)))
							}
						}
						yield(Cond(a, b, c))
					}
				}
			}
		}}
}

// ---- family tmpl: templates -----------------------------------------------------------------------------

type telem struct {
	items []TItem
	lit   bool
}

func litElem(s string) telem { return telem{items: []TItem{TLit(s)}, lit: true} }

var strips = [][2]bool{{false, false}, {true, false}, {false, true}, {true, true}}

// seqs yields every sequence of <= max elements in which no two literals are adjacent.
func seqs(pool []telem, max int, yield func([]TItem)) {
	var rec func(items []TItem, lastLit bool, n int)
	rec = func(items []TItem, lastLit bool, n int) {
		yield(items)
		if n == max {
			return
		}
		for _, e := range pool {
			if e.lit && lastLit {
				continue
			}
			if n := len(items); n > 0 && items[n-1].Kind == TILit {
				// not expressible: "$" directly before "${" is the escape "$${"
				if strings.HasSuffix(items[n-1].Lit, "$") && e.items[0].Kind == TIInterp {
					continue
				}
				if strings.HasSuffix(items[n-1].Lit, "%") && e.items[0].Kind != TIInterp && !e.lit {
					continue
				}
			}
			next := make([]TItem, 0, len(items)+len(e.items))
			next = append(append(next, items...), e.items...)
			rec(next, e.lit, n+1)
		}
	}
	rec(nil, false, 0)
}

// withModes yields the item sequence as a quoted template, as a bare template and as
// a heredoc (which by construction ends with a newline).
func withModes(items []TItem, yield func(*Node)) {
	yield(Tmpl(TQuoted, items...))
	yield(Tmpl(TBare, items...))
	yield(Tmpl(THeredoc, heredocItems(items)...))
}

func heredocItems(items []TItem) []TItem {
	if len(items) == 0 {
		return nil
	}
	h := make([]TItem, len(items), len(items)+1)
	copy(h, items)
	if last := &h[len(h)-1]; last.Kind == TILit {
		last.Lit += "\n"
	} else {
		h = append(h, TLit("\n"))
	}
	return h
}

func interpElems(exprs []*Node) []telem {
	var out []telem
	for _, e := range exprs {
		if e.K == NNull || (e.K == NVar && (e.Name == "u" || e.Name == "t")) {
			// interpolations that are errors: one strip setting is enough
			out = append(out, telem{items: []TItem{TInterp(e, false, true)}})
			continue
		}
		for _, s := range strips {
			out = append(out, telem{items: []TItem{TInterp(e, s[0], s[1])}})
		}
	}
	return out
}

func famTmplFlat(thorough bool) Family {
	return Family{Name: "tmpl-flat", Bound: "all sequences of <= 3 (thorough 4, smaller alphabet) literal / interpolation elements, 4 strip-marker settings each, as quoted string, bare template and heredoc",
		Gen: func(yield func(*Node)) {
			lits := []string{"a", " ", " b ", "\n", " \n ", "$ {", "${x}", "\"\\", "~}", "é\t", "%{if}", "  \n", "5%", "a$"}
			exprs := []*Node{Num("1"), Var("s"), Str("x"), Null(), Var("t"), Var("u"), Num("3.5"), Bool(true), Bin("+", Var("n"), Num("1")), Cond(Var("b"), Str("y"), Str("n"))}
			var pool []telem
			for _, l := range lits {
				pool = append(pool, litElem(l))
			}
			pool = append(pool, interpElems(exprs)...)
			seqs(pool, 3, func(items []TItem) { withModes(items, yield) })
			if thorough {
				var p2 []telem
				for _, l := range []string{"a", " ", " \n", "\n  ", " c "} {
					p2 = append(p2, litElem(l))
				}
				p2 = append(p2, interpElems([]*Node{Num("1"), Var("sp"), Null()})...)
				seqs(p2, 5, func(items []TItem) {
					if len(items) > 3 {
						withModes(items, yield)
					}
				})
			}
		}}
}

func famTmplBlocks(thorough bool) Family {
	return Family{Name: "tmpl-blocks", Bound: "if / if-else / for directives (6 conditions, 7 collections) around all bodies of <= 1 element (thorough 2), every strip-marker combination, between optional surrounding literals, as quoted string, bare template and heredoc; nested directives",
		Gen: func(yield func(*Node)) {
			var inner []telem
			for _, l := range []string{"a", " ", " c \n", "\n"} {
				inner = append(inner, litElem(l))
			}
			inner = append(inner, interpElems([]*Node{Var("s"), Null(), Var("v")})...)
			var bodies [][]TItem
			blen := 1
			if thorough {
				blen = 2
			}
			seqs(inner, blen, func(it []TItem) { bodies = append(bodies, it) })
			conds := []*Node{Bool(true), Bool(false), Var("b"), Null(), Str("true"), Num("1")}
			var blocks [][]TItem
			cat := func(parts ...[]TItem) []TItem {
				var out []TItem
				for _, p := range parts {
					out = append(out, p...)
				}
				return out
			}
			for _, c := range conds {
				for _, body := range bodies {
					for _, s1 := range strips {
						for _, s2 := range strips {
							blocks = append(blocks, cat([]TItem{TIf(c, s1[0], s1[1])}, body, []TItem{TEndIf(s2[0], s2[1])}))
						}
					}
				}
			}
			small := [][]TItem{nil, {TLit("a")}, {TLit(" c ")}, {TInterp(Var("s"), false, false)}, {TInterp(Var("s"), true, true)}, {TLit(" ")}, {TInterp(Var("u"), false, false)}}
			for _, c := range []*Node{Bool(true), Bool(false), Null()} {
				for _, b1 := range small {
					for _, b2 := range small {
						for _, s1 := range strips {
							for _, s2 := range strips {
								for _, s3 := range strips {
									blocks = append(blocks, cat([]TItem{TIf(c, s1[0], s1[1])}, b1, []TItem{TElse(s2[0], s2[1])}, b2, []TItem{TEndIf(s3[0], s3[1])}))
								}
							}
						}
					}
				}
			}
			type fc struct {
				kv   string
				coll *Node
			}
			for _, f := range []fc{{"", Var("l")}, {"", Var("t")}, {"k", Var("m")}, {"", Var("le")}, {"", Null()}, {"", Var("s")}, {"k", Var("ls")}} {
				fbodies := bodies
				if f.kv != "" {
					fbodies = append(append([][]TItem{}, bodies...), []TItem{TInterp(Var("k"), false, false), TLit("="), TInterp(Var("v"), false, false), TLit(",")})
				}
				for _, body := range fbodies {
					for _, s1 := range strips {
						for _, s2 := range strips {
							blocks = append(blocks, cat([]TItem{TFor(f.kv, "v", f.coll, s1[0], s1[1])}, body, []TItem{TEndFor(s2[0], s2[1])}))
						}
					}
				}
			}
			sides := []string{"", " ", " a\n "}
			if thorough {
				sides = []string{"", " ", " a\n ", "a", "\n", "  \n", "$"}
			}
			for _, blk := range blocks {
				for _, l := range sides {
					for _, r := range sides {
						var items []TItem
						if l != "" {
							items = append(items, TLit(l))
						}
						items = append(items, blk...)
						if r != "" {
							items = append(items, TLit(r))
						}
						withModes(items, yield)
					}
				}
			}
			// nesting: for inside if, if inside for, for inside for
			v, w := Var("v"), Var("w")
			for _, s := range strips {
				nested := [][]TItem{
					{TIf(Var("b"), s[0], s[1]), TLit(" ["), TFor("", "v", Var("l"), s[1], s[0]), TInterp(v, false, false), TLit(" "), TEndFor(s[0], s[1]), TLit("] "), TEndIf(s[1], s[0])},
					{TFor("", "v", Var("l"), s[0], s[1]), TLit(" "), TIf(Bin(">", v, Num("10")), s[1], s[0]), TInterp(v, s[0], false), TElse(false, s[1]), TLit(" - "), TEndIf(s[0], s[1]), TLit(" "), TEndFor(s[1], s[0])},
					{TFor("", "v", Var("tt"), s[0], s[1]), TLit("("), TFor("i", "w", v, false, false), TInterp(Var("i"), false, false), TLit(":"), TInterp(w, s[0], s[1]), TLit(" "), TEndFor(s[1], false), TLit(") "), TEndFor(false, s[0])},
					{TFor("", "v", Var("l"), false, false), TFor("", "v", Var("ls"), s[0], s[1]), TInterp(v, false, false), TEndFor(false, false), TInterp(v, false, false), TLit(";"), TEndFor(s[1], s[0])},
				}
				for _, items := range nested {
					withModes(items, yield)
				}
			}
		}}
}

func famEscapes() Family {
	return Family{Name: "escapes", Bound: "quoted strings of <= 3 pieces out of 12 (ASCII, 2- and 4-byte characters, every escape of the spec: \\n \\r \\t \\\" \\\\ $${ %%{), with the non-ASCII characters written raw and as \\uNNNN / \\UNNNNNNNN; alone, and next to an interpolation",
		Gen: func(yield func(*Node)) {
			pieces := []string{"a", "\u00e9", "\U0001F600", "\n", "\t", "\r", "\"", "\\", "$", "${", "%{", "\u0416\u0416"}
			var rec func(s string, n int)
			rec = func(s string, n int) {
				if n > 0 {
					yield(Str(s))
					yield(StrEsc(s))
					if !strings.HasSuffix(s, "$") && !strings.HasSuffix(s, "%") {
						yield(Tmpl(TQuoted, TLit(s), TInterp(Var("s"), false, false)))
						yield(Tmpl(TQuoted, TInterp(Var("s"), false, false), TLitEsc(s), TInterp(Var("n"), false, false)))
					}
				}
				if n == 3 {
					return
				}
				for _, p := range pieces {
					rec(s+p, n+1)
				}
			}
			rec("", 0)
		}}
}

// appendLit adds literal text to an item list, merging with a preceding literal.
func appendLit(items []TItem, s string) []TItem {
	if s == "" {
		return items
	}
	if n := len(items); n > 0 && items[n-1].Kind == TILit {
		items[n-1].Lit += s
		return items
	}
	return append(items, TLit(s))
}

func famTmplFlush(thorough bool) Family {
	return Family{Name: "tmpl-flush", Bound: "flush heredocs (<<-) of <= 3 lines (thorough 4), each line one of 4 indentations x 6 contents (text, interpolation, interpolation yielding leading blanks, directive) or empty",
		Gen: func(yield func(*Node)) {
			indents := []string{"", " ", "  ", "    "}
			type content func(items []TItem) []TItem
			contents := []content{
				func(it []TItem) []TItem { return appendLit(it, "a") },
				func(it []TItem) []TItem { return append(it, TInterp(Var("s"), false, false)) },
				func(it []TItem) []TItem { return append(it, TInterp(Var("sp"), false, false)) },
				func(it []TItem) []TItem { return appendLit(it, "b  c") },
				func(it []TItem) []TItem {
					return appendLit(append(appendLit(append(it, TIf(Var("b"), false, false)), " y"), TEndIf(false, false)), "z")
				},
				func(it []TItem) []TItem {
					return append(append(appendLit(append(it, TFor("", "v", Var("ls"), false, false)), "  "), TInterp(Var("v"), false, false)), TEndFor(false, false))
				},
			}
			type line func(items []TItem) []TItem
			var lines []line
			lines = append(lines, func(it []TItem) []TItem { return appendLit(it, "\n") }) // empty line
			for _, ind := range indents {
				for _, c := range contents {
					ind, c := ind, c
					lines = append(lines, func(it []TItem) []TItem {
						it = appendLit(it, ind)
						it = c(it)
						return appendLit(it, "\n")
					})
				}
			}
			max := 3
			if thorough {
				max = 4
			}
			var rec func(items []TItem, n int)
			rec = func(items []TItem, n int) {
				yield(Tmpl(TFlush, items...))
				if n > 0 {
					// the same text without the flush marker must keep its indentation
					yield(Tmpl(THeredoc, items...))
				}
				if n == max {
					return
				}
				for _, l := range lines {
					cp := make([]TItem, len(items), len(items)+4)
					copy(cp, items)
					rec(l(cp), n+1)
				}
			}
			rec(nil, 0)
			// heredocs inside brackets
			body := []TItem{TLit("  a\n "), TInterp(Var("s"), false, false), TLit("\n")}
			yield(Tuple(Tmpl(THeredoc, body...), Num("1")))
			yield(Tuple(Tmpl(TFlush, body...), Tmpl(THeredoc, body...)))
			yield(Call("upper", Tmpl(TFlush, body...)))
			yield(obj("a", Tmpl(THeredoc, body...), "b", Num("2")))
		}}
}

// Families lists the sub-grammars of a tier, cheapest first (an internal deadline
// can then only cut into the largest ones).
func Families(thorough bool) []Family {
	if thorough {
		return []Family{
			famEscapes(), famCons(true), famFor(true), famCalls(true),
			famTmplFlush(true), famForDeep(), famAccess(3), famOps("ops", opsLeaves(false), 5),
			famTyped("typed", false, 1, 6), famTyped("typed-deep", true, 7, 7), famMixed(true),
			famTmplFlat(true), famTyped("typed-deepest", true, 8, 8), famTmplBlocks(true),
		}
	}
	return []Family{
		famEscapes(), famCons(false), famFor(false), famAccess(2), famOps("ops", opsLeaves(false), 4),
		famTmplFlush(false), famCalls(false), famTyped("typed-deep", true, 6, 6), famTyped("typed", false, 1, 5),
		famMixed(false), famTmplFlat(false), famTmplBlocks(false),
	}
}
