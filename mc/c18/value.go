// Package c18 checks property C18 "yaotl expressions and templates evaluate as the
// language defines": every tree of a typed grammar up to a size bound is printed in
// three ways, evaluated by the real yaotl code and compared with hcleval, an
// independent reference evaluator written from the HCL native syntax specification.
package c18

import (
	"math/big"
	"sort"
	"strings"
)

// Kind of a reference value / type.
type Kind uint8

const (
	KNull Kind = iota // the untyped null; as a type: "dynamic"
	KBool
	KNum
	KStr
	KTuple
	KObject
	KList
	KMap
)

func (k Kind) String() string {
	return [...]string{"null", "bool", "number", "string", "tuple", "object", "list", "map"}[k]
}

// Type is the reference evaluator's notion of an HCL type.
type Type struct {
	K     Kind
	Elem  *Type    // list, map
	Elems []*Type  // tuple
	Keys  []string // object (sorted)
	Attrs []*Type  // object, parallel to Keys
}

var (
	tNull = &Type{K: KNull}
	tBool = &Type{K: KBool}
	tNum  = &Type{K: KNum}
	tStr  = &Type{K: KStr}
)

func (t *Type) String() string {
	switch t.K {
	case KTuple:
		s := make([]string, len(t.Elems))
		for i, e := range t.Elems {
			s[i] = e.String()
		}
		return "tuple([" + strings.Join(s, ",") + "])"
	case KObject:
		s := make([]string, len(t.Keys))
		for i, k := range t.Keys {
			s[i] = k + "=" + t.Attrs[i].String()
		}
		return "object({" + strings.Join(s, ",") + "})"
	case KList:
		return "list(" + t.Elem.String() + ")"
	case KMap:
		return "map(" + t.Elem.String() + ")"
	case KNull:
		return "dynamic"
	}
	return t.K.String()
}

func typeEq(a, b *Type) bool {
	if a.K != b.K {
		return false
	}
	switch a.K {
	case KList, KMap:
		return typeEq(a.Elem, b.Elem)
	case KTuple:
		if len(a.Elems) != len(b.Elems) {
			return false
		}
		for i := range a.Elems {
			if !typeEq(a.Elems[i], b.Elems[i]) {
				return false
			}
		}
	case KObject:
		if len(a.Keys) != len(b.Keys) {
			return false
		}
		for i := range a.Keys {
			if a.Keys[i] != b.Keys[i] || !typeEq(a.Attrs[i], b.Attrs[i]) {
				return false
			}
		}
	}
	return true
}

// Val is a value of the reference evaluator.  Immutable once built.
type Val struct {
	K       Kind
	B       bool
	N       *big.Rat
	NegZero bool // number is an IEEE negative zero (the spec has no such thing: printing it is "unspecified")
	S       string
	L       []*Val   // tuple/list elements; object/map values parallel to Keys
	Keys    []string // object/map keys, sorted
	ET      *Type    // element type of a list/map
	TN      bool     // a null that came out of a conditional whose other branch had a type: the
	//                  implementation gives such a null that type, the language has no notion of it
}

var (
	vNull  = &Val{K: KNull}
	vTrue  = &Val{K: KBool, B: true}
	vFalse = &Val{K: KBool, B: false}
)

func vBool(b bool) *Val {
	if b {
		return vTrue
	}
	return vFalse
}
func vStr(s string) *Val  { return &Val{K: KStr, S: s} }
func vNum(r *big.Rat) *Val { return &Val{K: KNum, N: r} }
func vInt(i int64) *Val    { return &Val{K: KNum, N: new(big.Rat).SetInt64(i)} }
func vTuple(e ...*Val) *Val {
	if e == nil {
		e = []*Val{}
	}
	return &Val{K: KTuple, L: e}
}
func vList(et *Type, e ...*Val) *Val { return &Val{K: KList, L: e, ET: et} }

// vObject builds an object from a key->value map (keys get sorted).
func vObject(m map[string]*Val) *Val {
	keys := make([]string, 0, len(m))
	for k := range m {
		keys = append(keys, k)
	}
	sort.Strings(keys)
	vals := make([]*Val, len(keys))
	for i, k := range keys {
		vals[i] = m[k]
	}
	return &Val{K: KObject, Keys: keys, L: vals}
}

func vMap(et *Type, m map[string]*Val) *Val {
	o := vObject(m)
	o.K = KMap
	o.ET = et
	return o
}

func (v *Val) typ() *Type {
	switch v.K {
	case KNull:
		return tNull
	case KBool:
		return tBool
	case KNum:
		return tNum
	case KStr:
		return tStr
	case KTuple:
		t := &Type{K: KTuple, Elems: make([]*Type, len(v.L))}
		for i, e := range v.L {
			t.Elems[i] = e.typ()
		}
		return t
	case KObject:
		t := &Type{K: KObject, Keys: v.Keys, Attrs: make([]*Type, len(v.L))}
		for i, e := range v.L {
			t.Attrs[i] = e.typ()
		}
		return t
	case KList:
		return &Type{K: KList, Elem: v.ET}
	case KMap:
		return &Type{K: KMap, Elem: v.ET}
	}
	panic("bad kind")
}

// hasTypedNull: the value is or contains a null produced by a conditional (see TN).
func (v *Val) hasTypedNull() bool {
	if v.K == KNull {
		return v.TN
	}
	for _, e := range v.L {
		if e.hasTypedNull() {
			return true
		}
	}
	return false
}

// containsNestedNull reports a null strictly inside a collection.
func (v *Val) containsNull() bool {
	if v.K == KNull {
		return true
	}
	for _, e := range v.L {
		if e.containsNull() {
			return true
		}
	}
	return false
}

func (v *Val) attr(name string) (*Val, bool) {
	i := sort.SearchStrings(v.Keys, name)
	if i < len(v.Keys) && v.Keys[i] == name {
		return v.L[i], true
	}
	return nil, false
}

// valEq is structural equality of value AND type (lists differ from tuples).
func valEq(a, b *Val) bool {
	if a.K != b.K {
		return false
	}
	switch a.K {
	case KNull:
		return true
	case KBool:
		return a.B == b.B
	case KNum:
		return a.N.Cmp(b.N) == 0
	case KStr:
		return a.S == b.S
	}
	if (a.K == KList || a.K == KMap) && !typeEq(a.ET, b.ET) {
		return false
	}
	if len(a.L) != len(b.L) || len(a.Keys) != len(b.Keys) {
		return false
	}
	for i := range a.Keys {
		if a.Keys[i] != b.Keys[i] {
			return false
		}
	}
	for i := range a.L {
		if !valEq(a.L[i], b.L[i]) {
			return false
		}
	}
	return true
}

// String renders a value unambiguously (used in reports and outcome classes).
func (v *Val) String() string {
	var sb strings.Builder
	v.write(&sb)
	return sb.String()
}

func (v *Val) write(sb *strings.Builder) {
	switch v.K {
	case KNull:
		sb.WriteString("null")
	case KBool:
		if v.B {
			sb.WriteString("true")
		} else {
			sb.WriteString("false")
		}
	case KNum:
		sb.WriteString(v.N.RatString())
	case KStr:
		sb.WriteString(quoteGo(v.S))
	case KTuple, KList:
		if v.K == KList {
			sb.WriteString("list(" + v.ET.String() + ")")
		}
		sb.WriteByte('[')
		for i, e := range v.L {
			if i > 0 {
				sb.WriteByte(',')
			}
			e.write(sb)
		}
		sb.WriteByte(']')
	case KObject, KMap:
		if v.K == KMap {
			sb.WriteString("map(" + v.ET.String() + ")")
		}
		sb.WriteByte('{')
		for i, e := range v.L {
			if i > 0 {
				sb.WriteByte(',')
			}
			sb.WriteString(quoteGo(v.Keys[i]))
			sb.WriteByte('=')
			e.write(sb)
		}
		sb.WriteByte('}')
	}
}

func quoteGo(s string) string {
	var sb strings.Builder
	sb.WriteByte('"')
	for _, r := range s {
		switch r {
		case '"':
			sb.WriteString(`\"`)
		case '\\':
			sb.WriteString(`\\`)
		case '\n':
			sb.WriteString(`\n`)
		case '\t':
			sb.WriteString(`\t`)
		default:
			sb.WriteRune(r)
		}
	}
	sb.WriteByte('"')
	return sb.String()
}

// ---- numbers -----------------------------------------------------------------

// parseDecimal parses HCL number literal syntax (digits [. digits] [e[+-]digits])
// exactly.  ok=false if s is not of that form.
func parseDecimal(s string) (*big.Rat, bool) {
	i := 0
	n := len(s)
	digits := func() int {
		st := i
		for i < n && s[i] >= '0' && s[i] <= '9' {
			i++
		}
		return i - st
	}
	if digits() == 0 {
		return nil, false
	}
	intPart := s[:i]
	frac := ""
	if i < n && s[i] == '.' {
		i++
		st := i
		if digits() == 0 {
			return nil, false
		}
		frac = s[st:i]
	}
	exp := 0
	if i < n && (s[i] == 'e' || s[i] == 'E') {
		i++
		neg := false
		if i < n && (s[i] == '+' || s[i] == '-') {
			neg = s[i] == '-'
			i++
		}
		st := i
		if digits() == 0 || i-st > 4 {
			return nil, false
		}
		for _, c := range s[st:i] {
			exp = exp*10 + int(c-'0')
		}
		if neg {
			exp = -exp
		}
	}
	if i != n {
		return nil, false
	}
	mant, _ := new(big.Int).SetString(intPart+frac, 10)
	exp -= len(frac)
	r := new(big.Rat).SetInt(mant)
	p := new(big.Int).Exp(big.NewInt(10), big.NewInt(int64(abs(exp))), nil)
	if exp >= 0 {
		r.Mul(r, new(big.Rat).SetInt(p))
	} else {
		r.Quo(r, new(big.Rat).SetInt(p))
	}
	return r, true
}

func abs(i int) int {
	if i < 0 {
		return -i
	}
	return i
}

// isDyadic: denominator is a power of two (exactly representable in binary floating
// point); everything else is outside the space the oracle speaks about.
func isDyadic(r *big.Rat) bool {
	d := r.Denom()
	return new(big.Int).And(d, new(big.Int).Sub(d, big.NewInt(1))).Sign() == 0
}

// mantissaBits is the number of significant bits a binary float needs for r (dyadic).
func mantissaBits(r *big.Rat) int {
	if r.Sign() == 0 {
		return 0
	}
	num := new(big.Int).Abs(r.Num())
	return num.BitLen() - int(num.TrailingZeroBits())
}

// decimalString is the exact finite decimal expansion of a dyadic rational.
func decimalString(r *big.Rat) string {
	if r.IsInt() {
		return r.Num().String()
	}
	// denominator 2^k: multiply by 10^k/2^k = 5^k
	k := r.Denom().BitLen() - 1
	scaled := new(big.Int).Mul(new(big.Int).Abs(r.Num()), new(big.Int).Exp(big.NewInt(5), big.NewInt(int64(k)), nil))
	s := scaled.String()
	for len(s) <= k {
		s = "0" + s
	}
	s = s[:len(s)-k] + "." + s[len(s)-k:]
	s = strings.TrimRight(s, "0")
	if r.Sign() < 0 {
		s = "-" + s
	}
	return s
}
